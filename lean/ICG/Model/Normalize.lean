/-
  ICG.Model.Normalize — incomplete_cooperative/normalize.py and graph_game.py (import-free).

  * `GraphGame`, `polish`, `GraphGame.ofMatrix`, `graphValue`  : `GraphCooperativeGame` (`_polish_graph_matrix` at
    construction; value = Σ of `M[i,j]` over `itertools.combinations(players, 2)`, left to right from 0.0)
  * `normInfo`, `normInfoGraph`       : `_get_norminfo` (singleton values; grand − `np.sum(singletons)`)
  * `absN`, `isAdditive`             : `bool(np.isclose(surplus + np.sum(sv), np.sum(sv), rtol=rtol, atol=0))`
  * `subSingleton`, `normalizeIcg`    : `_normalize_icg`, in the in-place order of the code; the relative tolerance
                                        (the code's literal `1e-9`, `defaultRtol`) is a parameter
  * `closedW`, `closedAdditive`, `normVal` : the closed form `w c = v c − Σ_{i∈c} v{i}`; the normal form is
                                        identically 0 when `|w(N)| ≤ rtol·|Σ_i v{i}|`, else `w / w(N)` (`w` when `w(N) = 0`)
  * `normalizeGraph`                  : `_normalize_graph_game`
  * `denormalize`, `denormalizeGraph` : `denormalize_game`, `_denormalize_graph_game`
  * `normalizeGame`, `normalizeGameGraph` : `normalize_game` (info is gathered BEFORE normalising)

  After the subtraction loop and the read of the grand coalition the code does
  `if additive: game.set_values(np.zeros(2**n, Value)); return` (the model's `Table.setValues … none`: all rows
  `< 2^n` become known with both bounds 0) and then `if not grand_coalition_value: return`.  Division happens only
  behind that guard, `if g = 0` here (`not x` of a float is `x == 0.0`), so no `x / 0` is ever evaluated.
  `additive` is computed from `_get_norminfo(game)` BEFORE the subtraction loop (so a missing singleton or grand
  value raises there, before any row is rewritten; an unknown other coalition still raises inside the loop —
  both are ValueError, and `normalize_game` has called `_get_norminfo` once already).
  `get_value` / `get_values` / `set_value` keep their `Except` outcomes from `ICG.Model.Table`
  (an unknown coalition raises ValueError — "Must not be minimal" in the docstring of `normalize_game`).
-/
import ICG.Model.Table
namespace ICG
namespace Norm

variable {α : Type}

/-! ### graph_game.py -/

/-- `itertools.combinations(l, 2)` as pairs, in Python's order (`pairs_eq_combos` in Lemmas/NormFacts). -/
def pairs {β} : List β → List (β × β)
  | [] => []
  | a :: l => l.map (fun b => (a, b)) ++ pairs l

/-- `GraphCooperativeGame`: number of players and the (square) weight matrix `m row col`. -/
structure GraphGame (α : Type) where
  n : Nat
  m : Nat → Nat → α

/-- `_polish_graph_matrix`: `for i in range(n): for j in range(i, n): matrix[j, i] = 0`
    (diagonal and lower triangle zeroed; entries outside the n × n array do not exist and are left alone). -/
def polish [Zero α] (n : Nat) (m : Nat → Nat → α) : Nat → Nat → α :=
  fun r c => if r < n ∧ c < n ∧ c ≤ r then 0 else m r c

/-- `GraphCooperativeGame(graph_matrix)`: copy, then polish. -/
def GraphGame.ofMatrix [Zero α] (n : Nat) (m : Nat → Nat → α) : GraphGame α := ⟨n, polish n m⟩

/-- `GraphCooperativeGame.get_value`: `value = 0.0; for i, j in combinations(players, 2): value += M[i, j]`. -/
def graphValue [Add α] [Zero α] (g : GraphGame α) (c : Nat) : α :=
  listSum ((pairs (players c)).map (fun p => g.m p.1 p.2))

/-- `get_values()` of a graph game: `np.fromiter(map(get_value, all_coalitions))`. -/
def graphValues [Add α] [Zero α] (g : GraphGame α) : List α := (allCoalitions g.n).map (graphValue g)

/-- `__neg__` of a graph game (`GraphCooperativeGame(-matrix)`, polished again). -/
def GraphGame.neg [Neg α] [Zero α] (g : GraphGame α) : GraphGame α :=
  GraphGame.ofMatrix g.n (fun r c => - g.m r c)

/-! ### normalize.py -/

/-- `map(player_to_coalition, range(n))` -/
def singletons (n : Nat) : List Nat := (List.range n).map singleton

/-- `_get_norminfo` for a table: `get_values(singletons)` (upper column, all must be known), then
    `get_value(grand) − np.sum(singleton_values)` (left to right from 0). Result `(grand − Σ, singleton values)`. -/
def normInfo [Add α] [Sub α] [Zero α] (t : Table α) : Except Err (α × List α) := do
  let sv ← t.getValues (some (singletons t.n))
  let g ← t.getValue (grand t.n)
  pure (g - listSum sv, sv)

/-- `_get_norminfo` for a graph game (its getters never raise). -/
def normInfoGraph [Add α] [Sub α] [Zero α] (g : GraphGame α) : α × List α :=
  let sv := (singletons g.n).map (graphValue g)
  (graphValue g (grand g.n) - listSum sv, sv)

/-- `np.abs`, from core classes -/
def absN [Max α] [Neg α] (x : α) : α := max x (-x)

/-- `bool(np.isclose(surplus + np.sum(singleton_values), np.sum(singleton_values), rtol=rtol, atol=0))` on the
    pair returned by `_get_norminfo`; `np.isclose(a, b, rtol, atol)` on finite numbers is
    `|a − b| <= atol + rtol * |b|`, here with `atol = 0`.  (In exact arithmetic `a − b` is the surplus.) -/
def isAdditive [Add α] [Sub α] [Mul α] [Neg α] [Max α] [Zero α] [LE α] [DecidableLE α]
    (rtol : α) (info : α × List α) : Bool :=
  let s := listSum info.2
  decide (absN ((info.1 + s) - s) ≤ rtol * absN s)

/-- the exact value of the Python float literal `1e-9` (`Fraction(1e-9)`; the denominator is 2^82) -/
def defaultRtol : Rat := (4835703278458517 : Rat) / 4835703278458516698824704

/-- one pass of the outer loop of `_normalize_icg`: read the singleton's CURRENT value once, then for every
    coalition that meets it (`filter(lambda x: x & singleton, all_coalitions)`, id order; a `Coalition` is
    truthy iff non-empty) `set_value(get_value(c) − singleton_value, c)`. The singleton's own row becomes 0. -/
def subSingleton [Sub α] [Zero α] (t : Table α) (i : Nat) : Except Err (Table α) := do
  let sv ← t.getValue (singleton i)
  ((allCoalitions t.n).filter (fun x => inter x (singleton i) != 0)).foldlM
    (fun t c => do
      let v ← t.getValue c
      t.setValue (v - sv) c) t

/-- `upper_bounds /= g; lower_bounds /= g` on the views of the two bound columns (rows `< 2^n`). -/
def divColumns [Div α] (t : Table α) (g : α) : Table α :=
  { t with lo := fun c => if c < t.rows then t.lo c / g else t.lo c,
           hi := fun c => if c < t.rows then t.hi c / g else t.hi c }

section icg
variable [Add α] [Sub α] [Mul α] [Div α] [Neg α] [Max α] [Zero α] [LE α] [DecidableLE α] [DecidableEq α]

/-- `_normalize_icg` (`rtol` is the literal `1e-9` of the code):
    `surplus, singleton_values = _get_norminfo(game)`; `additive = bool(np.isclose(…))`; the singleton-by-singleton
    subtraction; `grand_coalition_value = game.get_value(grand)` (may raise, before the next test);
    `if additive: game.set_values(np.zeros(2**n, Value)); return`;
    `if not grand_coalition_value: return`; otherwise both bound columns are divided. -/
def normalizeIcg (rtol : α) (t : Table α) : Except Err (Table α) := do
  let info ← normInfo t
  let additive := isAdditive rtol info
  let t1 ← (List.range t.n).foldlM subSingleton t
  let g ← t1.getValue (grand t1.n)
  if additive then t1.setValues (List.replicate (2 ^ t1.n) 0) none
  else if g = 0 then pure t1 else pure (divColumns t1 g)

/-- `normalize_game` on a table: the info is gathered first, from the un-normalised game. -/
def normalizeGame (rtol : α) (t : Table α) : Except Err ((α × List α) × Table α) := do
  let info ← normInfo t
  let t' ← normalizeIcg rtol t
  pure (info, t')

end icg

/-- closed form of the subtraction phase: `w c = v c − Σ_{i ∈ c} v{i}` -/
def closedW [Add α] [Sub α] [Zero α] (v : Nat → α) (c : Nat) : α :=
  v c - listSum ((players c).map (fun i => v (singleton i)))

/-- closed form of the guard: `|w(N)| ≤ rtol · |Σ_{i<n} v{i}|` -/
def closedAdditive [Add α] [Sub α] [Mul α] [Neg α] [Max α] [Zero α] [LE α] [DecidableLE α]
    (n : Nat) (rtol : α) (v : Nat → α) : Bool :=
  decide (absN (closedW v (grand n)) ≤ rtol * absN (listSum ((List.range n).map (fun i => v (singleton i)))))

/-- closed form of the whole normalisation: identically 0 when the game is additive up to `rtol`; otherwise
    `w` when `w(N) = 0` and `w / w(N)` when not -/
def normVal [Add α] [Sub α] [Mul α] [Div α] [Neg α] [Max α] [Zero α] [LE α] [DecidableLE α] [DecidableEq α]
    (n : Nat) (rtol : α) (v : Nat → α) (c : Nat) : α :=
  if closedAdditive n rtol v then 0
  else if closedW v (grand n) = 0 then closedW v c
  else closedW v c / closedW v (grand n)

/-- `_normalize_graph_game`: nothing when the grand value is 0; otherwise zero `M[j, i]` for `j ≥ i`, then
    divide the whole matrix. -/
def normalizeGraph [Add α] [Div α] [Zero α] [DecidableEq α] (g : GraphGame α) : GraphGame α :=
  let gv := graphValue g (grand g.n)
  if gv = 0 then g
  else { g with m := fun r c => if r < g.n ∧ c < g.n then (if c ≤ r then 0 else g.m r c) / gv else g.m r c }

/-- `normalize_game` on a graph game. -/
def normalizeGameGraph [Add α] [Sub α] [Div α] [Zero α] [DecidableEq α] (g : GraphGame α) :
    (α × List α) × GraphGame α :=
  (normInfoGraph g, normalizeGraph g)

/-- `denormalize_game` on a table: for every coalition in id order
    `value = get_value(c); value *= grand; for i in c.players: value += singleton_values[i]; set_value`.
    `singleton_values[i]` out of range is numpy's IndexError. -/
def denormalize [Add α] [Mul α] [Zero α] (t : Table α) (info : α × List α) : Except Err (Table α) :=
  (allCoalitions t.n).foldlM (fun t c => do
    let v ← t.getValue c
    let v ← (players c).foldlM (fun (v : α) i =>
      match info.2[i]? with
      | some s => pure (v + s)
      | none => throw Err.index) (v * info.1)
    t.setValue v c) t

/-- `_denormalize_graph_game`: `matrix *= grand` (the singleton values are not used). -/
def denormalizeGraph [Mul α] (g : GraphGame α) (info : α × List α) : GraphGame α :=
  { g with m := fun r c => if r < g.n ∧ c < g.n then g.m r c * info.1 else g.m r c }

/-- a full table holding the values `v` (what `set_values(values)` on a fresh game gives) -/
def fullTable (n : Nat) (v : Nat → α) : Table α :=
  { n := n, known := fun c => decide (c < 2 ^ n), lo := v, hi := v }

end Norm
end ICG
