/-
  ICG.Model.Generators — incomplete_cooperative/generators.py, every construction as a pure function of
  its DRAWS (import-free).  A game is its value vector `Nat → α` (coalition id ↦ value); only ids `< 2^n`
  are meaningful.  Randomness is a parameter: the drawn owner / weights / permutation / indices are inputs
  (DESIGN 3.5); determinism of a generator for a fixed seed is therefore functional purity of these
  definitions (the same draws give the same game), and is checked on the real code by the stream.

  Not modelled here: the trailing `assert is_superadditive(game)` / `assert is_sam(game)` of the generators —
  that these never fire is exactly what `Props/C10` proves about the constructions; a firing assertion in
  the real code is reported by the stream's oracle (`generator:<key>:AssertionError`).  networkx graph
  generators and numpy's distributions are opaque: the model input is the weight matrix the game exposes.

  Outcomes that are not values: `Err.attr` (the current `factory_cheerleader`), `Err.nan` where numpy would
  silently produce NaN/inf by dividing by a zero grand value (never `x / 0 = 0`), `Err.value` for `np.max`
  of zero games, `Err.index` for `list.pop()` of an empty list / an index outside `powerset_list`,
  `Err.assert` for the coverage generator's own in-loop assertion.
-/
import ICG.Model.Normalize
namespace ICG
namespace Gen
open ICG.Norm

variable {α : Type}

/-! ### factory family -/

/-- `np.sum(weights[list(coalition.players)])` (player order, left to right from 0) -/
def wsum [Add α] [Zero α] (w : Nat → α) (c : Nat) : α := listSum ((players c).map w)

/-- `weights[owner] = 0` -/
def zeroAt [Zero α] (w : Nat → α) (owner : Nat) : Nat → α := fun i => if i = owner then 0 else w i

/-- `factory_generator` for drawn `owner`, weights `w` (all ones, or uniform draws) and value function `f`:
    `0` without the owner, `f(Σ weights of members)` with him (the owner's own weight is zeroed). -/
def factory [Add α] [Zero α] (owner : Nat) (w : Nat → α) (f : α → α) (c : Nat) : α :=
  if hasPlayer c owner then f (wsum (zeroAt w owner) c) else 0

/-- the value functions of the registry (`exp` is the abstract parameter `f` of `factory`) -/
def fnId (x : α) : α := x
def fnOne [One α] (_ : α) : α := 1
def fnSq [Mul α] (x : α) : α := x * x

/-- `predictible_factory_generator`: `_LAST_OWNER = (_LAST_OWNER + 1) % n`, unit weights, identity. -/
def predictibleOwner (lastOwner n : Nat) : Nat := (lastOwner + 1) % n

/-- the rejection loop `while cheerleader is None or cheerleader == owner: cheerleader = draw`:
    the first draw different from the owner (`none`: the supplied draws ran out). -/
def cheerPick (owner : Nat) (draws : List Nat) : Option Nat := draws.find? (fun d => d != owner)

/-- the intended `factory_cheerleader_generator`: `3·(|S|−2)` with the cheerleader, `|S|−1` without, gated
    by the owner. -/
def factoryCheerleader (owner cheer : Nat) (c : Nat) : Int :=
  if hasPlayer c owner then
    (if hasPlayer c cheer then 3 * ((size c : Int) - 2) else (size c : Int) - 1)
  else 0

/-- On the CURRENT tree the drawn cheerleader stays a `numpy.int64`; `cheerleader in coalition` then takes the
    `Coalition` branch of `__contains__` and raises AttributeError for the first coalition. -/
def currentCodeRaises : Bool := true

/-- `factory_cheerleader_generator` as called: with a cheerleader that is a Python `int` (`…_next`, or after
    the `int(...)` repair) the intended construction; with the drawn numpy integer of the current code, the raise. -/
def factoryCheerleaderCall (cheerIsPyInt : Bool) (owner cheer : Nat) : Except Err (Nat → Int) :=
  if cheerIsPyInt then .ok (factoryCheerleader owner cheer) else .error .attr

/-- registry key `factory_cheerleader` (cheerleader drawn) -/
def factoryCheerleaderKey (owner cheer : Nat) : Except Err (Nat → Int) :=
  factoryCheerleaderCall (!currentCodeRaises) owner cheer

/-- registry key `factory_cheerleader_next`: cheerleader `(owner + 1) % n` is a Python int -/
def factoryCheerleaderNext (n owner : Nat) : Except Err (Nat → Int) :=
  factoryCheerleaderCall true owner ((owner + 1) % n)

/-! ### graph family -/

/-- `graph_generator` / `graph_to_game`: a graph game from a weight matrix (values by `graphValue`). -/
def graphGame [Add α] [Zero α] (n : Nat) (m : Nat → Nat → α) (c : Nat) : α :=
  graphValue (GraphGame.ofMatrix n m) c

/-- `cycle`: `A[perm, roll(perm, 1)] = 1; A[perm, roll(perm, -1)] = 1` — `A[r, c] = 1` iff `c` is the
    predecessor or successor of `r` on the cycle `perm`. -/
def cycleMatrix [Zero α] [One α] (perm : List Nat) : Nat → Nat → α := fun r c =>
  let n := perm.length
  if (List.range n).any (fun k => perm[k]? == some r &&
      (perm[(k + n - 1) % n]? == some c || perm[(k + 1) % n]? == some c)) then 1 else 0

def cycle [Add α] [Zero α] [One α] (perm : List Nat) (c : Nat) : α :=
  graphGame perm.length (cycleMatrix perm) c

/-! ### additive, XOS, XS -/

/-- `additive`: `game_state[ids with bit i] += w_i` for i = 0..n-1. -/
def additive [Add α] [Zero α] (w : Nat → α) (c : Nat) : α := wsum w c

/-- `value /= value[-1]` / `values / values[-1]`: numpy would give NaN / inf for a zero last entry. -/
def divByGrand [Div α] [Zero α] [DecidableEq α] (n : Nat) (v : Nat → α) : Except Err (Nat → α) :=
  if v (grand n) = 0 then .error .nan else .ok (fun c => v c / v (grand n))

/-- `np.max(np.array(values), axis=0)`: pointwise maximum; ValueError for zero rows. -/
def pointwiseMax [Max α] : List (Nat → α) → Except Err (Nat → α)
  | [] => .error .value
  | g :: gs => .ok (fun c => gs.foldl (fun m h => max m (h c)) (g c))

/-- `if normalize_additive: for value in additive_values: value /= value[-1]` -/
def normalizeEach [Div α] [Zero α] [DecidableEq α] (n : Nat) (b : Bool) (games : List (Nat → α)) :
    Except Err (List (Nat → α)) :=
  if b then games.mapM (divByGrand n) else .ok games

/-- `if normalize: osx_values = osx_values / osx_values[-1]` -/
def normalizeIf [Div α] [Zero α] [DecidableEq α] (n : Nat) (b : Bool) (v : Nat → α) : Except Err (Nat → α) :=
  if b then divByGrand n v else .ok v

/-- `xos` for the drawn weight vectors `adds` (one per additive game, in draw order). -/
def xos [Add α] [Zero α] [Max α] [Div α] [Neg α] [DecidableEq α] (n : Nat) (adds : List (Nat → α))
    (normalize normalizeAdditive : Bool) : Except Err (Nat → α) := do
  let games ← normalizeEach n normalizeAdditive (adds.map additive)
  let osx ← pointwiseMax games
  let osx ← normalizeIf n normalize osx
  pure (fun c => - osx c)

/-- `np.max(singletons[players], initial=0)` negated: the XS (unit demand) value. -/
def xs [Max α] [Zero α] [Neg α] (s : Nat → α) (c : Nat) : α :=
  - ((players c).foldl (fun m i => max m (s i)) 0)

/-- the `num_unit_demand` variant: `singletons = zeros; for (player, x) in draws: singletons[player] = max(singletons[player], x)` -/
def unitDemandSingles [Max α] [Zero α] (draws : List (Nat × α)) : Nat → α :=
  draws.foldl (fun s p => fun i => if i = p.1 then max (s p.1) p.2 else s i) (fun _ => 0)

def xsUnitDemand [Max α] [Zero α] [Neg α] (draws : List (Nat × α)) (c : Nat) : α :=
  xs (unitDemandSingles draws) c

/-! ### OXS -/

/-- one inner update of `_apply_or`: `xor_values[S|T] = min(values1[S] + values2[T], xor_values[S|T])` -/
def orUpdate [Add α] [Min α] (v1 v2 : Nat → α) (x : Nat → α) (S T : Nat) : Nat → α :=
  let nv := min (v1 S + v2 T) (x (S ||| T))
  fun d => if d = S ||| T then nv else x d

/-- the pairs `(S, T)` in the loop order of `_apply_or`: S in id order, T disjoint from S in id order -/
def orPairs (n : Nat) : List (Nat × Nat) :=
  (allCoalitions n).flatMap (fun S => ((allCoalitions n).filter (fun T => disjoint S T)).map (fun T => (S, T)))

/-- `_apply_or(values1, values2, n)`: starts from `np.zeros`; the loop, as a plain function. -/
def applyOrLoop [Add α] [Min α] [Zero α] (v1 v2 : Nat → α) (n : Nat) : Nat → α :=
  (orPairs n).foldl (fun x p => orUpdate v1 v2 x p.1 p.2) (fun _ => 0)

/-- the same loop, run once and re-tabulated on `0 .. 2^n-1` (boxed so that the compiled code does not
    re-run the loop at every read; extensionally `applyOrLoop`, see `applyOr_eq_loop`). -/
def applyOrFn [Add α] [Min α] [Zero α] (v1 v2 : Nat → α) (n : Nat) : Fn α :=
  let x := (orPairs n).foldl (fun x p => orUpdate v1 v2 x p.1 p.2) (fun _ => 0)
  compactFn (2 ^ n) x

/-- `_apply_or(values1, values2, n)` -/
def applyOr [Add α] [Min α] [Zero α] (v1 v2 : Nat → α) (n : Nat) : Nat → α := (applyOrFn v1 v2 n).f

theorem applyOr_eq_loop [Add α] [Min α] [Zero α] (v1 v2 : Nat → α) (n : Nat) :
    applyOr v1 v2 n = applyOrLoop v1 v2 n := by
  simp only [applyOr, applyOrFn, applyOrLoop, compactFn_f]

/-- `oxs` given the value vectors of the drawn XS games (draw order): `pop()` the last, fold the others
    onto it in order (`oxsFold_f`: the boxes are transparent), then `-values / values[-1]`. -/
def oxsFoldFn [Add α] [Min α] [Zero α] (n : Nat) (xsVals : List (Nat → α)) : Except Err (Fn α) :=
  match xsVals.reverse with
  | [] => .error .index
  | last :: restRev => .ok (restRev.reverse.foldl (fun acc other => applyOrFn acc.f other n) ⟨last⟩)

def oxs [Add α] [Min α] [Zero α] [Neg α] [Div α] [DecidableEq α] (n : Nat) (xsVals : List (Nat → α))
    (normalize : Bool) : Except Err (Nat → α) := do
  let o ← oxsFoldFn n xsVals
  if normalize then
    if o.f (grand n) = 0 then .error .nan else pure (fun c => (- o.f c) / o.f (grand n))
  else pure o.f

/-- `oxs` from the drawn singleton vectors -/
def oxsOfSingles [Add α] [Min α] [Max α] [Zero α] [Neg α] [Div α] [DecidableEq α] (n : Nat)
    (singles : List (Nat → α)) (normalize : Bool) : Except Err (Nat → α) :=
  oxs n (singles.map xs) normalize

/-! ### budget, coverage -/

/-- `k_budget_generator`: `−min(k, |S|)` -/
def kBudget (k : Nat) (c : Nat) : Int := - (min (k : Int) (size c : Int))

/-- the union built by `uni = uni.union(sets[i])` over the members, as a duplicate-free list -/
def coverUnion (sets : Nat → List Nat) (c : Nat) : List Nat :=
  (players c).foldl (fun u i => (u ++ sets i).eraseDups) []

/-- the coverage value `−len(uni)` for given sets -/
def coverageOf (sets : Nat → List Nat) (c : Nat) : Int := - ((coverUnion sets c).length : Int)

/-- `powerset_list = [x for x in powerset(list(range(mult·n))) if len(x)]` -/
def powersetList (n mult : Nat) : List (List Nat) :=
  (powerset (List.range (mult * n))).filter (fun x => x.length != 0)

/-- `powerset_list[k]`: IndexError outside the list -/
def lookupSet (pl : List (List Nat)) (k : Nat) : Except Err (List Nat) :=
  match pl[k]? with
  | some s => .ok s
  | none => .error .index

/-- the set of player `i`; rows `i ≥ len(set_indices) ≥ n` are never read for a coalition `< 2^n` -/
def setOfList (sets : List (List Nat)) (i : Nat) : List Nat :=
  match sets[i]? with
  | some s => s
  | none => []

/-- `covg_fn_generator` for drawn `set_indices`: look the sets up, then per coalition the code's own
    `assert uni or coalition.id == 0`. -/
def coverage (n mult : Nat) (idx : List Nat) : Except Err (Nat → Int) :=
  -- `set_indices[i]` for a member `i < n` of some coalition: IndexError when fewer than n indices were drawn
  if idx.length < n then Except.error Err.index else
  match idx.mapM (lookupSet (powersetList n mult)) with
  | Except.error e => Except.error e
  | Except.ok sets =>
    if (allCoalitions n).all (fun c => c == 0 || !(coverUnion (setOfList sets) c).isEmpty) then
      Except.ok (coverageOf (setOfList sets))
    else Except.error Err.assert

end Gen
end ICG
