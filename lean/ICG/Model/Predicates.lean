/-
  ICG.Model.Predicates — the game-class predicates (import-free).

  Mirrors incomplete_cooperative/game_properties.py (`is_superadditive`, `is_monotone_decreasing`,
  `is_sam`; id-array style, numpy) and incomplete_cooperative/supermodularity_check.py
  (`check_supermodularity`; object style, generators).

  The values of the game are a function `v : Nat → α` (`game.get_values()` / `game.get_value(c)` of a game
  with *all* values known: the array always has exactly 2^n rows, and the verdicts below depend on the rows
  `< 2^n` only — `Props/C18pred`, `*_congr`).  A game with an unknown value makes `get_values()` raise before any
  predicate logic runs; that case belongs to the table (C17) and is not modelled here.
  Tolerances are ordinary values of the value type (exact rationals in the driver).
-/
import ICG.Model.Bits
namespace ICG
namespace Pred

variable {α : Type}

/-! ### coalition_ids.players / get_size with their assertion

`ICG.Model.Bits.playersId / sizeId` are the array expressions; the Python functions first
`assert 2**number_of_players > coalition`. -/

def playersIdE (c n : Nat) : Except Err (List Nat) :=
  if 2 ^ n > c then .ok (playersId c n) else .error .assert

def sizeIdE (c n : Nat) : Except Err Nat :=
  if 2 ^ n > c then .ok (sizeId c n) else .error .assert

/-! ### game_properties.py -/

section sa
variable [Add α] [Sub α] [Mul α] [Neg α] [Max α] [LE α] [DecidableLE α]

/-- `np.abs` -/
def absV (x : α) : α := max x (-x)

/-- `np.isclose(a, b, rtol, atol)` on finite numbers: `|a − b| <= atol + rtol * |b|` (asymmetric in `b`). -/
def isClose (a b rtol atol : α) : Bool := decide (absV (a - b) ≤ atol + rtol * absV b)

/-- the vectorised test of one `U`:
    `np.all(np.logical_or(values[Ss] + values[U - Ss] <= values[U], np.isclose(lhs, values[U], rtol, atol)))`.
    `U - Ss` is numpy subtraction of ids (not a bit operation); every `S` in `Ss` is a sub-mask of `U`, so
    `S ≤ U` and the natural-number subtraction never truncates (proved: `Props/C18pred`). -/
def saRowOk (v : Nat → α) (rtol atol : α) (U : Nat) (Ss : List Nat) : Bool :=
  Ss.all (fun S =>
    let lhs := v S + v (U - S)
    decide (lhs ≤ v U) || isClose lhs (v U) rtol atol)

/-- the loop `for U in get_all_coalitions(n): …; if not …: return False` / `return True`;
    `sub_coalitions(U, n)` may raise (its assertion). -/
def saLoop (n : Nat) (v : Nat → α) (rtol atol : α) : List Nat → Except Err Bool
  | [] => .ok true
  | U :: rest => do
    let Ss ← subCoalitionsId U n
    if saRowOk v rtol atol U Ss then saLoop n v rtol atol rest else .ok false

/-- `is_superadditive(game, rtol, atol)` -/
def isSuperadditive (n : Nat) (v : Nat → α) (rtol atol : α) : Except Err Bool :=
  saLoop n v rtol atol (allCoalitions n)
end sa

section mono
variable [LE α] [DecidableLE α]

/-- `np.all(values[Ss] >= values[U])` -/
def monoRowOk (v : Nat → α) (U : Nat) (Ss : List Nat) : Bool :=
  Ss.all (fun S => decide (v U ≤ v S))

def monoLoop (n : Nat) (v : Nat → α) : List Nat → Except Err Bool
  | [] => .ok true
  | U :: rest => do
    let Ss ← subCoalitionsId U n
    if monoRowOk v U Ss then monoLoop n v rest else .ok false

/-- `is_monotone_decreasing(game)` -/
def isMonotoneDecreasing (n : Nat) (v : Nat → α) : Except Err Bool :=
  monoLoop n v (allCoalitions n)
end mono

section sam
variable [Add α] [Sub α] [Mul α] [Neg α] [Max α] [LE α] [DecidableLE α]

/-- `is_sam(game)`: `is_superadditive(game) and is_monotone_decreasing(game)` (short-circuit `and`).
    The code uses the default tolerances `rtol = 1e-9`, `atol = 0`; they are parameters here and the
    harness passes the exact rational of the float `1e-9` and `0`. -/
def isSam (n : Nat) (v : Nat → α) (rtol atol : α) : Except Err Bool := do
  let a ← isSuperadditive n v rtol atol
  if a then isMonotoneDecreasing n v else .ok false
end sam

/-! ### supermodularity_check.py -/

section supermod
variable [Add α] [Sub α] [LT α] [DecidableLT α]

/-- the innermost loop: `for S in filter(lambda s: s != T, get_sub_coalitions(T))` with
    `lhs = v(S | {i}) − v(S)`; `if lhs > rhs + tolerance: return T, S, i`. -/
def supermodInner (v : Nat → α) (tol : α) (T i : Nat) (rhs : α) : Option (Nat × Nat × Nat) :=
  ((subCoalitionsObj T).filter (fun S => S != T)).findSome? fun S =>
    let lhs := v (union S (fromPlayers [i])) - v S
    if lhs > rhs + tol then some (T, S, i) else none

/-- `check_supermodularity(game, tolerance)`: the first violating `(T, S, i)` in the code's iteration
    order (`T` in id order, `i` in player order over the players of the grand coalition not in `T`,
    `S` in `get_sub_coalitions` order), or `none`. -/
def checkSupermodularity (n : Nat) (v : Nat → α) (tol : α) : Option (Nat × Nat × Nat) :=
  (allCoalitions n).findSome? fun T =>
    ((players (grand n)).filter (fun i => !hasPlayer T i)).findSome? fun i =>
      let rhs := v (union T (fromPlayers [i])) - v T
      supermodInner v tol T i rhs
end supermod

end Pred
end ICG
