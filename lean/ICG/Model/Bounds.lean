/-
  ICG.Model.Bounds — the three bound computers of incomplete_cooperative/bounds.py (import-free).

  Each pass of the Python code is an in-place sweep over a list of coalitions: for every coalition `c`
  of the list, in order, compute a value from the *current* table and write it into one cell of row `c`.
  `sweepM` is that loop; the step functions below are the loop bodies, line by line.
-/
import ICG.Model.Table
namespace ICG
open Table

variable {α : Type}

/-- the generic in-place pass: `for c in order: put(c, f(table, c))`, stopping at the first raise. -/
def sweepM (f : Table α → Nat → Except Err α) (put : Table α → Nat → α → Table α)
    (order : List Nat) (t : Table α) : Except Err (Table α) :=
  order.foldlM (fun t c => do let v ← f t c; pure (put t c v)) t

/-- `np.max(xs)` / `np.min(xs)` raising ValueError on an empty array. -/
def npMax [Max α] (l : List α) : Except Err α :=
  match listMax? l with | some m => .ok m | none => .error .value
def npMin [Min α] (l : List α) : Except Err α :=
  match listMin? l with | some m => .ok m | none => .error .value

/-- unknown coalitions in id order: `filter(lambda x: not game.is_value_known(x), all_coalitions(game))` -/
def unknownIds (t : Table α) : List Nat := (allCoalitions t.n).filter (fun c => !t.known c)

/-! ### compute_bounds_superadditive (reference, object style) -/
section sa
variable [Add α] [Sub α] [Max α] [Min α]

/-- proper non-empty sub-coalitions in `get_sub_coalitions` order. -/
def saSubs (c : Nat) : List Nat := (subCoalitionsObj c).filter (fun x => x != c && x != 0)

def saLowerStep (t : Table α) (c : Nat) : Except Err α :=
  let subs := saSubs c
  if subs.isEmpty then .error .assert
  else npMax (subs.map (fun x => t.lo x + t.lo (diff c x)))

def saUpperStep (t : Table α) (c : Nat) : Except Err α :=
  let ksup := (superCoalitionsObj c t.n).filter t.known
  if ksup.isEmpty then .error .assert
  else npMin (ksup.map (fun x => t.hi x - t.lo (diff x c)))   -- get_values reads the upper column

def saPrecond (t : Table α) : Bool :=
  t.known (grand t.n) && t.known 0 && (List.range t.n).all (fun i => t.known (fromPlayers [i]))

def sa (t : Table α) : Except Err (Table α) :=
  if saPrecond t then do
    let order := sortByKey size t.n (unknownIds t)           -- sorted(..., key=len), stable
    let t1 ← sweepM saLowerStep putLo order t
    let t2 ← sweepM saUpperStep putHi (unknownIds t) t1.compactT
    pure t2.compactT
  else .error .assert
end sa

/-! ### compute_bounds_superadditive_cached (id-array style) -/
section sac
variable [Add α] [Sub α] [Max α] [Min α]

/-- `all_sorted[np.logical_not(game.are_values_known()[all_sorted])]` -/
def unknownSorted (t : Table α) : List Nat := (allSorted t.n).filter (fun c => !t.known c)

def sacLowerStep (t : Table α) (c : Nat) : Except Err α :=
  let subs := structSel t.n c 1
  npMax (subs.map (fun x => t.lo x + t.lo (c ^^^ x)))

def sacUpperStep (t : Table α) (c : Nat) : Except Err α :=
  let ksup := (structSel t.n c 2).filter t.known
  npMin (ksup.map (fun x => t.lo x - t.lo (c ^^^ x)))         -- reads the *lower* column of known rows

def sacPrecond (t : Table α) : Bool := t.known 0 && t.known (grand t.n)

def sac (t : Table α) : Except Err (Table α) :=
  if sacPrecond t then do
    let order := unknownSorted t
    let t1 ← sweepM sacLowerStep putLo order t
    let t2 ← sweepM sacUpperStep putHi order t1.compactT
    pure t2.compactT
  else .error .assert
end sac

/-! ### compute_bounds_superadditive_monotone_approx_cached -/
section sam
variable [Add α] [Sub α] [Max α] [Min α]

/-- split pass of round `i > 0`: sub-coalitions include the coalition itself (complement ∅). -/
def samSplitStep (first : Bool) (t : Table α) (c : Nat) : Except Err α :=
  let subs := if first then structSel t.n c 1
              else (allCoalitions t.n).filter (fun d => coalStructure t.n c d == 1 || coalStructure t.n c d == 0)
  npMax (subs.map (fun x => t.lo x + t.lo (c ^^^ x)))

/-- superset-max pass: `max(lower[supersets ∪ {c}])`. -/
def samSuperStep (t : Table α) (c : Nat) : Except Err α :=
  let sups := (allCoalitions t.n).filter (fun d => coalStructure t.n c d == 2 || coalStructure t.n c d == 0)
  npMax (sups.map t.lo)

/-- final upper pass: `min(min(lo[T] − lo[T∖c] for known T ⊋ c), min(value[x] for known x ⊊ c, x ≠ ∅))`. -/
def samUpperStep (t : Table α) (c : Nat) : Except Err α := do
  let ksup := (structSel t.n c 2).filter t.known
  let ksub := (structSel t.n c 1).filter t.known
  let a ← npMin (ksup.map (fun x => t.lo x - t.lo (c ^^^ x)))
  let b ← npMin (ksub.map t.hi)                                -- get_known_values reads the upper column
  pure (min a b)

/-- one round `i` of the outer loop: split pass then superset-max pass. -/
def samRound (order : List Nat) (first : Bool) (t : Table α) : Except Err (Table α) := do
  let t1 ← sweepM (samSplitStep first) putLo order t
  let t2 ← sweepM samSuperStep putLo order t1.compactT
  pure t2.compactT

/-- rounds `i = 1 .. r` -/
def samRounds (order : List Nat) : Nat → Table α → Except Err (Table α)
  | 0, t => pure t
  | r + 1, t => do let t' ← samRound order false t; samRounds order r t'

def sam (r : Nat) (t : Table α) : Except Err (Table α) :=
  if sacPrecond t then do
    let order := unknownSorted t
    let t0 ← samRound order true t
    let t1 ← samRounds order r t0
    let t2 ← sweepM samUpperStep putHi order t1
    pure t2.compactT
  else .error .assert
end sam

/-- the registry `BOUNDS` (bounds.py:112-116) as a closed type. -/
inductive Computer where
  | sa | sac | sam (r : Nat)
  deriving Repr, DecidableEq

def Computer.run [Add α] [Sub α] [Max α] [Min α] : Computer → Table α → Except Err (Table α)
  | .sa => ICG.sa
  | .sac => ICG.sac
  | .sam r => ICG.sam r

end ICG
