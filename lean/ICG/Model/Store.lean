/-
  ICG.Model.Store — model of incomplete_cooperative/run/save.py (import-free).

  Part 1 (C19) — the results file as an insertion-ordered association list `name ↦ entry`.
    `save_json(path, name, output)` is
        data = json.loads(path.read_text()) if path.exists() else {}
        if name in data.keys(): return
        data.update({name: output.json}); dump data
    i.e. `save`: unchanged if the name is present, else append at the end (a Python dict keeps
    insertion order, `json.dump` writes it in that order, `json.load` reads it back in that order).
    The entry codec (`Output.json` / `Output.from_json`, JSON text of floats) is abstract: `Codec`.
    `Entry` is the concrete entry the driver uses: n-dimensional arrays as shape + row-major cell
    tokens (the harness sends float64 bit patterns, `nan`, and `i<decimal>` for integer cells),
    metadata as key/value strings (the harness sends them sorted by key).

  Part 2 (C20) — the file system of DESIGN 3.7: paths ↦ bytes, a save is a list of file-system
    operations, a crash is "only the first k operations happened".  The list is OBSERVED from the
    running code by the harness (one operation per os-level call on a path below the results
    directory).  The model is path based: a `write p` is an append to the file currently at `p`.
    That is faithful as long as no descriptor outlives a rename of its path, which is part of the
    discipline `atomicB` (nothing mentions the temporary after the rename).
-/
namespace ICG.Store

/-! ## Part 1: the store -/

abbrev Store (ε : Type) := List (String × ε)

/-- `data[name]` (`none` ↔ `KeyError`) -/
def lookup {ε} : Store ε → String → Option ε
  | [], _ => none
  | (n, e) :: rest, name => if n = name then some e else lookup rest name

/-- `name in data.keys()` -/
def has {ε} (s : Store ε) (name : String) : Bool := (lookup s name).isSome

/-- `save_json`: early return when the name is present, else `data.update({name: entry})` -/
def save {ε} (s : Store ε) (name : String) (e : ε) : Store ε :=
  if has s name then s else s ++ [(name, e)]

/-- a sequence of saves, oldest first -/
def saveAll {ε} (s : Store ε) (l : List (String × ε)) : Store ε :=
  l.foldl (fun s p => save s p.1 p.2) s

/-- `list(data.keys())` -/
def names {ε} (s : Store ε) : List String := s.map (·.1)

/-- first entry saved under `name` in a list of saves -/
def firstSaved {ε} : List (String × ε) → String → Option ε := lookup

/-- the abstract entry codec: `encode` = `Output.json` written as JSON, `decode` = `json.load` +
    `Output.from_json`.  Theorems assume `decode (encode e) = some e`. -/
structure Codec (ε β : Type) where
  encode : ε → β
  decode : β → Option ε

/-- file content (the parsed JSON object) of a store -/
def encodeStore {ε β} (c : Codec ε β) (s : Store ε) : Store β := s.map (fun p => (p.1, c.encode p.2))

/-- `get_outputs_from_file`: decode every entry, in file order; `none` if one does not decode -/
def decodeStore {ε β} (c : Codec ε β) : Store β → Option (Store ε)
  | [] => some []
  | (n, b) :: rest =>
    match c.decode b, decodeStore c rest with
    | some e, some r => some ((n, e) :: r)
    | _, _ => none

/-- `save_json` on the file content: the early return looks at the raw JSON object -/
def saveFile {ε β} (c : Codec ε β) (f : Store β) (name : String) (e : ε) : Store β :=
  save f name (c.encode e)

/-- an n-dimensional array: shape and row-major cells (tokens) -/
structure Arr where
  shape : List Nat
  cells : List String
deriving DecidableEq, Repr, Inhabited

def Arr.wf (a : Arr) : Bool := a.cells.length == a.shape.foldl (· * ·) 1

/-- the driver's concrete entry -/
structure Entry where
  data : Arr
  actions : Arr
  metadata : List (String × String)
deriving DecidableEq, Repr, Inhabited

/-! ## Part 2: files and crashes -/

inductive FsOp where
  | openRead (p : String)              -- open(p, "r")
  | openTrunc (p : String)             -- open(p, "w") / O_TRUNC: create or truncate
  | openExcl (p : String)              -- O_CREAT|O_EXCL ("x", mkstemp): create; the path was absent
  | openKeep (p : String)              -- write access without truncation ("a", "r+", O_CREAT alone)
  | write (p : String) (chunk : String)   -- append `chunk` to the file at `p` (one `write(2)`)
  | close (p : String)
  | fsync (p : String)
  | rename (src dst : String)          -- os.replace / os.rename
  | unlink (p : String)
  | other (p : String)                 -- an operation on `p` the model does not describe
deriving DecidableEq, Repr, Inhabited

abbrev Fs := String → Option String

def Fs.set (fs : Fs) (p : String) (v : Option String) : Fs := fun q => if q = p then v else fs q

def FsOp.apply (fs : Fs) : FsOp → Fs
  | .openRead _ => fs
  | .openTrunc p => fs.set p (some "")
  | .openExcl p => match fs p with
    | none => fs.set p (some "")
    | some _ => fs                       -- EEXIST: the call fails, nothing changes
  | .openKeep p => match fs p with
    | none => fs.set p (some "")
    | some _ => fs
  | .write p c => match fs p with
    | some s => fs.set p (some (s ++ c))
    | none => fs                         -- no file at that path: nothing the path model can change
  | .close _ => fs
  | .fsync _ => fs
  | .rename s d => match fs s with
    | some c => fun q => if q = d then some c else if q = s then none else fs q
    | none => fs                         -- ENOENT: the call fails, nothing changes
  | .unlink p => fs.set p none
  | .other _ => fs

def run (ops : List FsOp) (fs : Fs) : Fs := ops.foldl FsOp.apply fs

/-- the process died after the first `k` operations -/
def crashAfter (k : Nat) (ops : List FsOp) (fs : Fs) : Fs := run (ops.take k) fs

/-- an operation that can change what is found at path `t` -/
def FsOp.touches (t : String) : FsOp → Bool
  | .openRead _ => false
  | .openTrunc p => p == t
  | .openExcl p => p == t
  | .openKeep p => p == t
  | .write p _ => p == t
  | .close _ => false
  | .fsync _ => false
  | .rename s d => s == t || d == t
  | .unlink p => p == t
  | .other p => p == t

/-- an operation that names path `t` at all -/
def FsOp.mentions (t : String) : FsOp → Bool
  | .openRead p => p == t
  | .openTrunc p => p == t
  | .openExcl p => p == t
  | .openKeep p => p == t
  | .write p _ => p == t
  | .close p => p == t
  | .fsync p => p == t
  | .rename s d => s == t || d == t
  | .unlink p => p == t
  | .other p => p == t

/-- after the temporary was opened: only writes / fsyncs to it (and operations on other paths) up to
    its `close`, and nothing names it after that -/
def writtenClosedB (src : String) : List FsOp → Bool
  | [] => false
  | .close p :: rest => if p = src then rest.all (fun o => !o.mentions src) else writtenClosedB src rest
  | .write _ _ :: rest => writtenClosedB src rest
  | .fsync _ :: rest => writtenClosedB src rest
  | op :: rest => if op.mentions src then false else writtenClosedB src rest

/-- the temporary is created fresh (`openTrunc` / `openExcl`) somewhere in `pre`, then fully written and
    closed -/
def readyB (src : String) : List FsOp → Bool
  | [] => false
  | op :: rest =>
    ((op == .openTrunc src || op == .openExcl src) && writtenClosedB src rest) || readyB src rest

/-- the decidable discipline: the target path is never opened for writing nor written; it changes only
    by one rename from a temporary that was fully written and closed, and nothing touches that
    temporary after the rename.  (`pre` = the operations before the first one that touches the target;
    a list that never touches the target — the early return of `save_json` — is trivially fine.) -/
def atomicB (target : String) (ops : List FsOp) : Bool :=
  let pre := ops.takeWhile (fun o => !o.touches target)
  match ops.dropWhile (fun o => !o.touches target) with
  | [] => true
  | .rename src dst :: post =>
    dst == target && src != target && readyB src pre &&
      post.all (fun o => !o.touches target && !o.mentions src)
  | _ => false

end ICG.Store
