/-
  ICG.Model.Table — the value table of incomplete_cooperative/game.py (import-free).

  `IncompleteCooperativeGame._values` is a (2^n × 3) float array [known, lower, upper]; every public
  operation is modelled as a function returning a new table (`Except Err` where Python raises).
  What a raising call leaves behind is modelled: every raising statement precedes the first write,
  except in `set_known_values`, which has already re-initialised the table (see `setKnownValues`).
-/
import ICG.Model.Bits
namespace ICG

structure Table (α : Type) where
  n : Nat
  known : Nat → Bool
  lo : Nat → α
  hi : Nat → α

namespace Table
variable {α : Type}

def rows (t : Table α) : Nat := 2 ^ t.n

section
variable [Zero α]

/-- `_init_values`: everything 0 / unknown, then `set_value(0, ∅)`. -/
def init (n : Nat) : Table α :=
  { n := n, known := fun c => c == 0, lo := fun _ => 0, hi := fun _ => 0 }

/-- unchecked single-row writes (the scalar setters of the class, valid index assumed) -/
def putValue (t : Table α) (c : Nat) (v : α) : Table α :=
  { t with known := fun d => if d = c then true else t.known d,
           lo := fun d => if d = c then v else t.lo d,
           hi := fun d => if d = c then v else t.hi d }

def clearRow (t : Table α) (c : Nat) : Table α :=
  { t with known := fun d => if d = c then false else t.known d,
           lo := fun d => if d = c then 0 else t.lo d,
           hi := fun d => if d = c then 0 else t.hi d }
end

def putLo (t : Table α) (c : Nat) (v : α) : Table α :=
  { t with lo := fun d => if d = c then v else t.lo d }

def putHi (t : Table α) (c : Nat) (v : α) : Table α :=
  { t with hi := fun d => if d = c then v else t.hi d }

/-- re-tabulate the three columns (extensionally the identity, `compactT_eq`). -/
def compactT (t : Table α) : Table α :=
  { t with known := (compactFn t.rows t.known).f, lo := (compactFn t.rows t.lo).f,
           hi := (compactFn t.rows t.hi).f }

theorem compactT_eq (t : Table α) : t.compactT = t := by
  simp [compactT, compactFn_f]

/-! #### scalar operations -/
section
variable [Zero α]

/-- `set_value(value, coalition)` — numpy raises IndexError for an id ≥ 2^n before writing. -/
def setValue (t : Table α) (v : α) (c : Nat) : Except Err (Table α) :=
  if c < t.rows then .ok (t.putValue c v) else .error .index

/-- `unset_value(coalition)`. -/
def unsetValue (t : Table α) (c : Nat) : Except Err (Table α) :=
  if c < t.rows then .ok (t.clearRow c) else .error .index

/-- `reveal_value`: `assert not is_value_known(c)` then `set_value`. -/
def reveal (t : Table α) (v : α) (c : Nat) : Except Err (Table α) :=
  if c < t.rows then
    if t.known c then .error .assert else .ok (t.putValue c v)
  else .error .index

/-- `unreveal_value`: `assert is_value_known(c)` then `unset_value`. -/
def unreveal (t : Table α) (c : Nat) : Except Err (Table α) :=
  if c < t.rows then
    if t.known c then .ok (t.clearRow c) else .error .assert
  else .error .index
end

/-- `set_lower_bound` / `set_upper_bound`: write one cell, no mask, no flag change. -/
def setLowerBound (t : Table α) (v : α) (c : Nat) : Except Err (Table α) :=
  if c < t.rows then .ok (t.putLo c v) else .error .index
def setUpperBound (t : Table α) (v : α) (c : Nat) : Except Err (Table α) :=
  if c < t.rows then .ok (t.putHi c v) else .error .index

/-! #### bulk operations

`np.fromiter(ids, int, count)` with `count = len(values)`: raises ValueError when the iterator is
shorter than `count`, silently ignores the surplus when it is longer. Fancy-index assignment with
repeated indices is last-write-wins, and an out-of-range index raises IndexError before any write. -/

/-- the index array `np.fromiter(map(id, coalitions), int, count)` -/
def fromiter (ids : List Nat) (count : Nat) : Except Err (List Nat) :=
  if ids.length < count then .error .value else .ok (ids.take count)

section
variable [Zero α]

/-- `set_values(values, coalitions)`. With `coalitions = None` numpy broadcasts: the value vector must
    have length 2^n or 1. -/
def setValues (t : Table α) (vals : List α) (cs : Option (List Nat)) : Except Err (Table α) :=
  match cs with
  | some ids => do
    let idx ← fromiter ids vals.length
    if idx.all (· < t.rows) then
      .ok ((idx.zip vals).foldl (fun t (p : Nat × α) => t.putValue p.1 p.2) t)
    else .error .index
  | none =>
    if vals.length = t.rows then
      .ok { t with known := fun d => if d < t.rows then true else t.known d,
                   lo := fun d => if h : d < vals.length then vals[d] else t.lo d,
                   hi := fun d => if h : d < vals.length then vals[d] else t.hi d }
    else match vals with
      | [v] => .ok { t with known := fun d => if d < t.rows then true else t.known d,
                            lo := fun d => if d < t.rows then v else t.lo d,
                            hi := fun d => if d < t.rows then v else t.hi d }
      | _ => .error .value

/-- `set_known_values`: `_init_values()` first, then `set_values` — so a raising `set_values` leaves a
    re-initialised table behind (`Except.error` carries it). -/
def setKnownValues (t : Table α) (vals : List α) (cs : Option (List Nat)) :
    Except (Err × Table α) (Table α) :=
  let t0 : Table α := init t.n
  match setValues t0 vals cs with
  | .ok t' => .ok t'
  | .error e => .error (e, t0)
end

/-- `set_upper_bounds` / `set_lower_bounds` share one shape; `which = true` ↦ upper. -/
def setBounds (t : Table α) (upper : Bool) (vals : List α) (cs : Option (List Nat)) :
    Except Err (Table α) :=
  let write (t : Table α) (c : Nat) (v : α) : Table α := if upper then t.putHi c v else t.putLo c v
  match cs with
  | some ids => do
    let idx ← fromiter ids vals.length
    if idx.all (· < t.rows) then
      -- `all_values[idx] = values` (last write wins), then copy where `¬known ∧ selected`
      let known0 := t.known
      .ok ((idx.zip vals).foldl (fun t' (p : Nat × α) => if known0 p.1 then t' else write t' p.1 p.2) t)
    else .error .index
  | none =>
    if vals.length = t.rows then
      .ok ((List.range t.rows).foldl (fun t' c =>
        if t.known c then t' else
          match vals[c]? with
          | some v => write t' c v
          | none => t') t)
    else match vals with
      | [v] => .ok ((List.range t.rows).foldl (fun t' c => if t.known c then t' else write t' c v) t)
      | _ => .error .value

/-! #### getters -/

def isValueKnown (t : Table α) (c : Nat) : Except Err Bool :=
  if c < t.rows then .ok (t.known c) else .error .index

/-- `get_value`: raises ValueError when unknown; returns the *lower* column. -/
def getValue (t : Table α) (c : Nat) : Except Err α :=
  if c < t.rows then
    if t.known c then .ok (t.lo c) else .error .value
  else .error .index

/-- `get_values(coalitions)`: ValueError unless all requested are known; reads the *upper* column. -/
def getValues (t : Table α) (cs : Option (List Nat)) : Except Err (List α) :=
  match cs with
  | none =>
    if (List.range t.rows).all t.known then .ok ((List.range t.rows).map t.hi) else .error .value
  | some ids =>
    if ids.all (· < t.rows) then
      if ids.all t.known then .ok (ids.map t.hi) else .error .value
    else .error .index

/-- `get_known_value`: `None` when unknown. -/
def getKnownValue (t : Table α) (c : Nat) : Except Err (Option α) :=
  if c < t.rows then .ok (if t.known c then some (t.lo c) else none) else .error .index

/-- `get_known_values()`: the upper column with NaN (`none`) at unknown rows. -/
def getKnownValues (t : Table α) : List (Option α) :=
  (List.range t.rows).map (fun c => if t.known c then some (t.hi c) else none)

def getLowerBounds (t : Table α) : List α := (List.range t.rows).map t.lo
def getUpperBounds (t : Table α) : List α := (List.range t.rows).map t.hi
def areValuesKnown (t : Table α) : List Bool := (List.range t.rows).map t.known
def full (t : Table α) : Bool := (List.range t.rows).all t.known

/-- `__neg__`: copy; lower := −upper(original); upper := −lower(original). -/
def neg [Neg α] (t : Table α) : Table α :=
  { t with lo := fun c => - t.hi c, hi := fun c => - t.lo c }

/-- `__add__`: asserts that both games are fully known and have the same number of players; the sum is
    a copy of `self` whose two bound columns are increased by the other game's (`new._values[:, 1:3] +=
    other._values[:, 1:3]`); rows outside the table do not exist in numpy and are left alone here. -/
def add [Add α] (t u : Table α) : Except Err (Table α) :=
  if t.full && u.full && t.n == u.n then
    .ok { t with lo := fun c => if c < t.rows then t.lo c + u.lo c else t.lo c,
                 hi := fun c => if c < t.rows then t.hi c + u.hi c else t.hi c }
  else .error .assert

/-- the comparison of one row of `self._values == other._values` (all three cells) -/
def rowEq [DecidableEq α] (t u : Table α) (c d : Nat) : Bool :=
  t.known c == u.known d && decide (t.lo c = u.lo d) && decide (t.hi c = u.hi d)

/-- `__eq__` with another game: `bool(np.all(self._values == other._values))`.  Equal shapes compare row by
    row; numpy broadcasts a one-row table (0 players) against any other; every other shape mismatch raises
    ValueError ("operands could not be broadcast together"). -/
def eqv [DecidableEq α] (t u : Table α) : Except Err Bool :=
  if t.rows = u.rows then .ok ((List.range t.rows).all fun c => rowEq t u c c)
  else if t.rows = 1 then .ok ((List.range u.rows).all fun c => rowEq t u 0 c)
  else if u.rows = 1 then .ok ((List.range t.rows).all fun c => rowEq t u c 0)
  else .error .value

end Table
end ICG
