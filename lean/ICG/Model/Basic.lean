/-
  ICG.Model.Basic — shared vocabulary of the executable model (import-free).

  * `Err`      : the five-plus-one outcome kinds the harness maps Python exceptions to.
  * `listMax?` : `np.max` / `max` of a list; `none` on the empty list (Python raises ValueError).
  * `listMin?` : likewise for `np.min` / `min`.
  * `compactFn`: re-tabulates a function on `0 .. m-1` into an array-backed closure; extensionally the
                 identity (`compactFn_f`), used only so that long runs stay fast.
-/
namespace ICG

inductive Err where
  | assert | value | index | attr | nan | other
  deriving Repr, DecidableEq, Inhabited

def Err.toString : Err → String
  | .assert => "err:assert" | .value => "err:value" | .index => "err:index"
  | .attr => "err:attr" | .nan => "err:nan" | .other => "err:other"

instance : ToString Err := ⟨Err.toString⟩

/-- maximum of a list the way `np.max` / `max` compute it (left fold); `none` ↔ Python raises. -/
def listMax? {α} [Max α] : List α → Option α
  | [] => none
  | a :: l => some (l.foldl max a)

def listMin? {α} [Min α] : List α → Option α
  | [] => none
  | a :: l => some (l.foldl min a)

/-- sum of a list, left to right from `0` (Python's `sum`). -/
def listSum {α} [Add α] [Zero α] (l : List α) : α := l.foldl (· + ·) 0

/-- rows `0 .. m-1` of `f` as an array. -/
@[noinline] def tabulate {α} (m : Nat) (f : Nat → α) : Array α := Array.ofFn (n := m) (fun i => f i.val)

/-- read row `i` from the array when it is there, from `f` otherwise. -/
def readTab {α} (a : Array α) (f : Nat → α) (i : Nat) : α := if h : i < a.size then a[i] else f i

/-- a function in a box: returning a structure (not a function) keeps the compiler from turning
    `compactFn m f` into a partial application that would rebuild the array at every read. -/
structure Fn (α : Type) where
  f : Nat → α

/-- `(compactFn m f).f` agrees with `f` everywhere (`compactFn_f`); its closure reads rows `< m` from an
    array that is built once, when `compactFn m f` is evaluated. -/
@[noinline] def compactFn {α} (m : Nat) (f : Nat → α) : Fn α :=
  let a := tabulate m f
  ⟨readTab a f⟩

theorem compactFn_f {α} (m : Nat) (f : Nat → α) : (compactFn m f).f = f := by
  funext i
  simp only [compactFn, readTab, tabulate]
  split
  · simp
  · rfl

/-- stable sort by a key bounded by `maxKey` (bucket sort): elements with equal keys keep their input
    order, exactly like Python's stable `sorted(..., key=...)`. -/
def sortByKey {β} (key : β → Nat) (maxKey : Nat) (l : List β) : List β :=
  (List.range (maxKey + 1)).flatMap (fun k => l.filter (fun x => key x == k))

end ICG
