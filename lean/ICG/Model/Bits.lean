/-
  ICG.Model.Bits — coalitions as bit masks, both enumeration styles of the code (import-free).

  Mirrors incomplete_cooperative/coalitions.py (object style), coalition_ids.py (id-array style),
  functoolz.py (powerset) and the per-n relation table of bounds.py:_get_sub_super_coalition_structure.
-/
import ICG.Model.Basic
namespace ICG

/-! ### coalitions.py : class Coalition -/

/-- `Coalition.__len__`: the shift loop `while c: s += c & 1; c >>= 1`. -/
def size (c : Nat) : Nat :=
  if _h : c = 0 then 0 else c % 2 + size (c / 2)
decreasing_by omega

/-- `Coalition.players`: the shift loop yielding `i` whenever the low bit is set. -/
def playersFrom (i : Nat) (c : Nat) : List Nat :=
  if _h : c = 0 then [] else
    (if c % 2 = 1 then [i] else []) ++ playersFrom (i + 1) (c / 2)
decreasing_by omega

def players (c : Nat) : List Nat := playersFrom 0 c

/-- `Coalition.from_players`: `id = Σ 2^p over set(players)` (duplicates removed by `set`). -/
def fromPlayers (l : List Nat) : Nat := l.eraseDups.foldl (fun id p => id + 2 ^ p) 0

def singleton (p : Nat) : Nat := 2 ^ p            -- player_to_coalition
def grand (n : Nat) : Nat := 2 ^ n - 1            -- grand_coalition

/-- `Coalition.__contains__` for a coalition argument: `self.id & other.id == other.id`. -/
def contains (c other : Nat) : Bool := c &&& other == other
/-- `Coalition.__contains__` for a player. -/
def hasPlayer (c p : Nat) : Bool := contains c (singleton p)

def inter (a b : Nat) : Nat := a &&& b             -- __and__
def union (a b : Nat) : Nat := a ||| b             -- __or__
/-- `__sub__`: `self.id & ~other.id` (Python ints are unbounded; on naturals: clear the common bits). -/
def diff (a b : Nat) : Nat := a ^^^ (a &&& b)
def removePlayer (a p : Nat) : Nat := diff a (2 ^ p)   -- __sub__ with an int
def addPlayer (a p : Nat) : Nat := a ||| 2 ^ p          -- __add__ with an int
def inverted (c n : Nat) : Nat := diff (grand n) c     -- Coalition.inverted
def disjoint (a b : Nat) : Bool := a &&& b == 0         -- disjoint_coalitions

/-! ### functoolz.powerset / itertools.combinations -/

/-- `itertools.combinations(l, k)` in Python's (lexicographic-by-position) order. -/
def combos {β} : Nat → List β → List (List β)
  | 0, _ => [[]]
  | _ + 1, [] => []
  | k + 1, a :: l => (combos k l).map (a :: ·) ++ combos (k + 1) l

/-- `powerset(l)`: `chain.from_iterable(combinations(l, r) for r in range(len(l)+1))`. -/
def powerset {β} (l : List β) : List (List β) :=
  (List.range (l.length + 1)).flatMap (fun r => combos r l)

/-! ### object-style enumerations (coalitions.py) -/

def allCoalitions (n : Nat) : List Nat := List.range (2 ^ n)

/-- `minimal_game_coalitions`: ∅, N, then the singletons in player order. -/
def minimalCoalitions (n : Nat) : List Nat :=
  [0, grand n] ++ (List.range n).map (fun i => fromPlayers [i])

/-- `exclude_coalition(exclude, coalitions)`. -/
def excludeCoalition (ex : Nat) (l : List Nat) : List Nat := l.filter (fun c => c &&& ex == 0)

/-- `get_sub_coalitions(c)`: `map(from_players, powerset(list(c.players)))` — size-major order. -/
def subCoalitionsObj (c : Nat) : List Nat := (powerset (players c)).map fromPlayers

/-- `get_super_coalitions(c, n)`. -/
def superCoalitionsObj (c n : Nat) : List Nat :=
  (subCoalitionsObj (diff (grand n) c)).map (fun s => c ||| s)

/-! ### id-array enumerations (coalition_ids.py) -/

/-- `coalition_ids.players(c, n)`: `arange(n)[2**arange(n) & c != 0]`. -/
def playersId (c n : Nat) : List Nat := (List.range n).filter (fun i => 2 ^ i &&& c != 0)

/-- `coalition_ids.get_size(c, n)`. -/
def sizeId (c n : Nat) : Nat := ((List.range n).filter (fun i => 2 ^ i &&& c != 0)).length

/-- `np.max(players, initial=0) + 1`. -/
def maxBitId (c n : Nat) : Nat := (playersId c n).foldl max 0 + 1

/-- `coalition_ids.sub_coalitions(c, n)` — id order. Python asserts `2**n > c`. -/
def subCoalitionsId (c n : Nat) : Except Err (List Nat) :=
  if 2 ^ n > c then
    .ok ((List.range (2 ^ maxBitId c n)).filter (fun x => x ||| c == c))
  else .error .assert

/-- `coalition_ids.super_coalitions(c, n)`. -/
def superCoalitionsId (c n : Nat) : Except Err (List Nat) :=
  if 2 ^ n > c then do
    let opp := (2 ^ n - 1) ^^^ c
    let s ← subCoalitionsId opp n
    .ok (s.map (fun x => x ||| c))
  else .error .assert

/-! ### bounds.py : _get_sub_super_coalition_structure -/

/-- one row of the relation table, written in the code's assignment order (later writes win):
    default −1; sub-coalitions 1; super-coalitions 2; the coalition itself 0; column 0 is −2. -/
def coalStructure (n c d : Nat) : Int :=
  if d = 0 then -2
  else if d = c then 0
  else if (match superCoalitionsId c n with | .ok l => l.contains d | .error _ => false) then 2
  else if (match subCoalitionsId c n with | .ok l => l.contains d | .error _ => false) then 1
  else -1

/-- `all_coalitions[coal_structure[c] == k]` — id order. -/
def structSel (n c : Nat) (k : Int) : List Nat :=
  (allCoalitions n).filter (fun d => coalStructure n c d == k)

/-- all coalitions sorted by size, ties by id (a stable sort; `np.argsort` may break ties otherwise —
    the theorems hold for every size-sorted order, see `Props/C03`). -/
def allSorted (n : Nat) : List Nat := sortByKey size n (allCoalitions n)

end ICG
