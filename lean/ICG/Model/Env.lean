/-
  ICG.Model.Env — the reveal environment (icg_gym.py), the built-in solvers (solvers/greedy.py,
  largest_coalition.py, random.py) and the size-aggregated environment (icg_gym_linear.py). Import-free.

  External calls are parameters:
    * `compute : Table α → Except Err (Table α)` — `incomplete_game.compute_bounds()`
    * `gap     : Table α → Except Err α`         — `gap_func(incomplete_game)`
    * the generator draw and its normalised copy are the inputs `full norm : Nat → α` of `reset`
    * `np.random.choice(candidates)` / `Random.choice(valid_actions)`: the drawn value is an input that
      the model checks against the candidate list.
  The hidden game is a *full* game with the same number of players as the table (every `get_value` on it
  succeeds for ids `< 2^n`).

  What a raising call leaves behind is modelled: errors carry the environment after the failed call
  (`Except (Err × Env α) …`), e.g. a `step` whose `compute_bounds` raises has already revealed the value
  but has not counted the step.
-/
import ICG.Model.Table
namespace ICG

structure Env (α : Type) where
  full : Nat → α                 -- self.full_game (hidden, fully known)
  norm : Nat → α                 -- self.normalized_game
  table : Table α                -- self.incomplete_game
  steps : Int                    -- self.steps_taken (unstep decrements without a floor)
  budget : Option Nat            -- self.done_after_n_actions
  initiallyKnown : List Nat      -- self.initially_known_coalitions
  explorable : List Nat          -- self.explorable_coalitions

/-- what `step` / `unstep` return: `(state, reward, done, False, {"chosen_coalition": id})` -/
structure StepOut (α : Type) where
  obs : List α
  reward : α
  done : Bool
  chosen : Nat

/-- Python list indexing `l[a]` with an `int`: negative indices count from the end, IndexError outside. -/
def pyIndex {β} (l : List β) (a : Int) : Except Err β :=
  let i : Int := if a < 0 then a + l.length else a
  if i < 0 then .error .index
  else match l[i.toNat]? with
    | some x => .ok x
    | none => .error .index

/-- a duplicate-free version of a list of ids (one possible iteration order of the Python `set`;
    nothing observable depends on the order, see `Props/C09`). -/
def sortedIds (l : List Nat) : List Nat :=
  (List.range (l.foldl max 0 + 1)).filter (fun c => l.contains c)

namespace Env
variable {α : Type}

/-- `action_masks()`: `np.invert(are_values_known(explorable))`. -/
def actionMasks (e : Env α) : List Bool := e.explorable.map (fun c => !e.table.known c)

/-- `state`: `normalized_values * values_known` (the float product with 1.0 / 0.0). -/
def state [Zero α] (e : Env α) : List α :=
  e.explorable.map (fun c => if e.table.known c then e.norm c else 0)

/-- `reward`: `-gap_func(incomplete_game)`. -/
def reward [Neg α] (gap : Table α → Except Err α) (e : Env α) : Except Err α :=
  match gap e.table with
  | .ok g => .ok (-g)
  | .error err => .error err

/-- `np.all((upper - lower) == 0)` over ALL rows. -/
def allDegenerate [Sub α] [Zero α] [DecidableEq α] (t : Table α) : Bool :=
  (List.range t.rows).all (fun c => decide (t.hi c - t.lo c = 0))

/-- `done`. -/
def done [Sub α] [Zero α] [DecidableEq α] (e : Env α) : Bool :=
  (match e.budget with
   | some b => decide ((b : Int) ≤ e.steps)
   | none => false)
  || !(e.actionMasks.any id)
  || allDegenerate e.table

section core
variable [Zero α] [Neg α] [Sub α] [DecidableEq α]
variable (compute : Table α → Except Err (Table α)) (gap : Table α → Except Err α)

/-- `reset()`: new hidden game (+ its normalised copy), `set_known_values` of the initially known
    coalitions, `compute_bounds`, `steps_taken = 0`; returns `(state, {"game": full_game})`. -/
def reset (e : Env α) (newFull newNorm : Nat → α) : Except (Err × Env α) (Env α × List α) :=
  let e1 : Env α := { e with full := newFull, norm := newNorm }
  -- full_game.get_values(initially_known): IndexError for an id outside the table, before any write
  if e.initiallyKnown.all (· < e.table.rows) then
    match e.table.setKnownValues (e.initiallyKnown.map newFull) (some e.initiallyKnown) with
    | .error (err, t0) => .error (err, { e1 with table := t0 })
    | .ok t1 =>
      match compute t1 with
      | .error err => .error (err, { e1 with table := t1 })
      | .ok t2 =>
        let e2 : Env α := { e1 with table := t2, steps := 0 }
        .ok (e2, e2.state)
  else .error (.index, e1)

/-- the tail shared by `step` and `unstep`: `return self.state, self.reward, self.done, False, info`. -/
def observe (e : Env α) (c : Nat) : Except (Err × Env α) (Env α × StepOut α) :=
  match e.reward gap with
  | .error err => .error (err, e)
  | .ok r => .ok (e, { obs := e.state, reward := r, done := e.done, chosen := c })

/-- `step(action)`. -/
def step (e : Env α) (a : Int) : Except (Err × Env α) (Env α × StepOut α) :=
  match pyIndex e.explorable a with
  | .error err => .error (err, e)
  | .ok c =>
    match e.table.reveal (e.full c) c with
    | .error err => .error (err, e)
    | .ok t1 =>
      match compute t1 with
      | .error err => .error (err, { e with table := t1 })
      | .ok t2 => observe gap { e with table := t2, steps := e.steps + 1 } c

/-- `unstep(action)`. -/
def unstep (e : Env α) (a : Int) : Except (Err × Env α) (Env α × StepOut α) :=
  match pyIndex e.explorable a with
  | .error err => .error (err, e)
  | .ok c =>
    match e.table.unreveal c with
    | .error err => .error (err, e)
    | .ok t1 =>
      match compute t1 with
      | .error err => .error (err, { e with table := t1 })
      | .ok t2 => observe gap { e with table := t2, steps := e.steps - 1 } c

/-- `ICG_Gym.__init__` with the de-duplicated initial list `ik` given (any iteration order of the
    Python set): the first generator draw only fixes the number of players; `reset()` performs the second
    draw; `gym.spaces.Discrete(0)` asserts when nothing is explorable. `t0` is the table of the game
    object handed in (only its `n` matters: `reset` re-initialises it). -/
def mkEnvWith (t0 : Table α) (ik : List Nat) (budget : Option Nat) (full norm : Nat → α) :
    Except Err (Env α) :=
  let e0 : Env α :=
    { full := full, norm := norm, table := t0, steps := 0, budget := budget, initiallyKnown := ik,
      explorable := (allCoalitions t0.n).filter (fun c => !ik.contains c) }
  match reset compute e0 full norm with
  | .error (err, _) => .error err
  | .ok (e, _) => if e.explorable.length = 0 then .error .assert else .ok e

/-- `ICG_Gym(game, generator, initially_known_coalitions, gap_func, done_after_n_actions)`:
    `initially_known = list(set(initial) ∪ {∅, N})`. -/
def mkEnv (n : Nat) (initial : List Nat) (budget : Option Nat) (full norm : Nat → α) :
    Except Err (Env α) :=
  mkEnvWith compute (Table.init n) (sortedIds (initial ++ [0, grand n])) budget full norm

end core

/-! ### solvers -/

/-- `[x for x in range(mask.shape[0]) if mask[x]]` -/
def validActions (e : Env α) : List Nat :=
  (List.range e.explorable.length).filter (fun i =>
    match e.explorable[i]? with
    | some c => !e.table.known c
    | none => false)

section solvers
variable [Zero α] [Neg α] [Sub α] [DecidableEq α]
variable (compute : Table α → Except Err (Table α)) (gap : Table α → Except Err α)

/-- `GreedySolver._next_action_value`: `step`, `unstep`, return the step's reward. -/
def nextActionValue (e : Env α) (a : Nat) : Except (Err × Env α) (Env α × α) :=
  match step compute gap e a with
  | .error x => .error x
  | .ok (e1, out) =>
    match unstep compute gap e1 a with
    | .error x => .error x
    | .ok (e2, _) => .ok (e2, out.reward)

/-- `[self._next_action_value(gym, act) for act in valid_actions]`, threading the environment. -/
def actionValues : Env α → List Nat → Except (Err × Env α) (Env α × List α)
  | e, [] => .ok (e, [])
  | e, a :: as =>
    match nextActionValue compute gap e a with
    | .error x => .error x
    | .ok (e1, v) =>
      match actionValues e1 as with
      | .error x => .error x
      | .ok (e2, vs) => .ok (e2, v :: vs)

/-- `next(act for act, val in zip(acts, vals) if val == m)` — StopIteration when there is none. -/
def firstWith {β} [DecidableEq β] (acts : List Nat) (vals : List β) (m : β) : Option Nat :=
  ((acts.zip vals).find? (fun p => decide (p.2 = m))).map (·.1)

/-- `GreedySolver.next_step` (`worst = true` for `greedy_worst`). -/
def greedy [Max α] [Min α] (worst : Bool) (e : Env α) : Except (Err × Env α) (Env α × Nat) :=
  let valid := e.validActions
  match actionValues compute gap e valid with
  | .error x => .error x
  | .ok (e1, vals) =>
    match (if worst then listMin? vals else listMax? vals) with
    | none => .error (.value, e1)                       -- max() / min() of an empty list
    | some m =>
      match firstWith valid vals m with
      | some a => .ok (e1, a)
      | none => .error (.other, e1)                     -- StopIteration
end solvers

/-- `LargestSolver.next_step`; does not touch the environment. -/
def largest (e : Env α) : Except Err Nat :=
  let valid := e.validActions
  let sizes := valid.map (fun i => match e.explorable[i]? with | some c => size c | none => 0)
  match listMax? sizes with
  | none => .error .value
  | some m =>
    match firstWith valid sizes m with
    | some a => .ok a
    | none => .error .other

/-- `RandomSolver.next_step` as a relation: the result is `choice(valid_actions)`, or `0` when there is
    no valid action (the code's uncovered fallback). -/
def randomOk (e : Env α) (a : Nat) : Bool :=
  if e.validActions.isEmpty then a == 0 else e.validActions.contains a

/-! ### the size-aggregated environment (icg_gym_linear.py) -/

/-- `self.subset_sizes = np.array([len(c) for c in explorable])` -/
def subsetSizes (e : Env α) : List Nat := e.explorable.map size

/-- `np.bincount(sizes, weights=w)`: length `max(sizes) + 1`, entry `k` the sum (in index order, from 0)
    of the weights at positions of size `k`. An empty `sizes` array has dtype float64 and numpy refuses
    the cast (TypeError). The length check is `_sum_values_of_the_same_size`'s own shape assertion. -/
def bincount {β} [Add β] [Zero β] (sizes : List Nat) (w : List β) : Except Err (List β) :=
  if sizes.length ≠ w.length then .error .assert
  else match listMax? sizes with
    | none => .error .other
    | some m => .ok ((List.range (m + 1)).map (fun k =>
        listSum (((sizes.zip w).filter (fun p => p.1 == k)).map (·.2))))

/-- `ICG_Gym_Linear.action_masks()`: bincount of the 0/1 mask, `.astype(bool)`. -/
def linMask (e : Env α) : Except Err (List Bool) :=
  match bincount e.subsetSizes (e.actionMasks.map (fun b => if b then (1 : Nat) else 0)) with
  | .ok l => .ok (l.map (· != 0))
  | .error err => .error err

/-- `ICG_Gym_Linear.state`. -/
def linState [Zero α] [Add α] (e : Env α) : Except Err (List α) := bincount e.subsetSizes e.state

/-- `np.where((subset_sizes == k) * action_masks())[0]` -/
def linCandidates (e : Env α) (k : Nat) : List Nat :=
  (List.range e.explorable.length).filter (fun i =>
    match e.explorable[i]? with
    | some c => size c == k && !e.table.known c
    | none => false)

section linear
variable [Zero α] [Neg α] [Sub α] [Add α] [DecidableEq α]
variable (compute : Table α → Except Err (Table α)) (gap : Table α → Except Err α)

/-- `ICG_Gym_Linear.reset()`. -/
def linReset (e : Env α) (newFull newNorm : Nat → α) : Except (Err × Env α) (Env α × List α) :=
  match reset compute e newFull newNorm with
  | .error x => .error x
  | .ok (e', obs) =>
    match bincount e'.subsetSizes obs with
    | .ok lin => .ok (e', lin)
    | .error err => .error (err, e')

/-- `ICG_Gym_Linear.step(k)`; `chosen` is what `np.random.choice(candidates)` returned.
    `none`: `chosen` is not something the sampler can return (not a behaviour of the code). -/
def linStep (e : Env α) (k : Int) (chosen : Nat) : Option (Except (Err × Env α) (Env α × StepOut α)) :=
  if 0 ≤ k ∧ k < (e.table.n : Int) then
    let cands := linCandidates e k.toNat
    if cands.isEmpty then some (.error (.value, e))       -- np.random.choice of an empty array
    else if cands.contains chosen then
      some (match step compute gap e chosen with
        | .error x => .error x
        | .ok (e', out) =>
          match bincount e'.subsetSizes out.obs with
          | .ok lin => .ok (e', { out with obs := lin })
          | .error err => .error (err, e'))
    else none
  else some (.error (.assert, e))
end linear

end Env
end ICG
