/-
  ICG.Model.Shapley — Shapley value, exploitability and the three norms (import-free).

  Mirrors incomplete_cooperative/shapley.py, exploitability.py and norms.py.

  A `Game` (protocols.py) is what the code reads from it: the number of players `n` and a
  `get_values(coalitions)` callable, `List Nat → Except Err (List α)` here (it may raise: the real
  incomplete game raises ValueError when a requested coalition is unknown, IndexError when an id is out
  of range).  Three instances are provided: a complete game given by a value function (`completeGame`),
  the value table (`Table.getValues`), and `MaxGainGame` over two bound vectors (`maxGainGetValues`).

  What is mirrored literally:
  * `_get_contributions(n)`           — the list `s!·(n−s−1)!`, `s < n`;
  * `_shapley_value_for_player`       — coalitions without the player in id order (the first
                                        `2^(n−1)` of them, `np.fromiter(…, count)`), the coefficient is
                                        looked up at the size of the coalition WITHOUT the player (numpy
                                        raises IndexError when out of range), `values_without` is read
                                        before `values_with`, the products `coef·(with − without)` are
                                        summed left to right from `0` (Python `sum` over a `zip`, which
                                        truncates to the shortest operand) and the sum is divided ONCE by
                                        `n!` (a positive integer);
  * `MaxGainGame.get_values`          — `upper·mask + lower·(1 − mask)` with the 0/1 mask "player in
                                        coalition" (so, in floats, an infinite bound on the masked-out
                                        side would give NaN; in a field it is `if player ∈ c then upper
                                        else lower`, lemma `maxGainValues_eq` in Lemmas/ShapleyBridge);
  * `compute_exploitability`          — `sum(φ_i(MaxGain_i) for i in range(n)) − game.get_value(N)`;
                                        the per-player values are computed first, then `get_value(N)`
                                        (which raises ValueError when `N` is unknown and reads the LOWER
                                        column) — passed in as `grandValue : Except Err α`;
  * norms                             — over the width vector `upper − lower` on ALL rows `0 .. 2^n−1`:
                                        `l1 = Σ|x|`, `linf = max|x|` (ValueError on an empty vector),
                                        `l2sq = Σ x·x`.  `l2_norm` itself is `sqrt(l2sq)`: not computable
                                        in an ordered field, the model stops at the square.

  Domain: `n ≥ 1` (for `n = 0` the single-player entry point computes `2**(-1)` as a `fromiter` count and
  raises TypeError; that corner is not modelled).  For a player `i ≥ n` the code truncates the list of
  coalitions without the player to the first `2^(n−1)` ids and then asks the game for ids `≥ 2^n`: the
  value table answers ValueError / IndexError (`Table.getValues`), mirrored by `Table.shapleyForPlayer`.
-/
import ICG.Model.Table
namespace ICG

/-- `math.factorial`. -/
def fact : Nat → Nat
  | 0 => 1
  | n + 1 => (n + 1) * fact n

/-- `_get_contributions(n)`: `factorial(s) * factorial(n - s - 1) for s in range(n)`. -/
def contributions (n : Nat) : List Nat := (List.range n).map (fun s => fact s * fact (n - s - 1))

/-- map a raising function over a list, stopping at the first error (a Python generator / `map` that is
    consumed left to right). -/
def mapE {β γ : Type} (f : β → Except Err γ) : List β → Except Err (List γ)
  | [] => .ok []
  | b :: l =>
    match f b with
    | .error e => .error e
    | .ok c =>
      match mapE f l with
      | .error e => .error e
      | .ok cs => .ok (c :: cs)

/-- `coefficients[list(map(len, coalitions))]`: numpy fancy indexing, IndexError when out of range
    (sizes are never negative, so no wrap-around). -/
def lookupCoefs (coefs : List Nat) (sizes : List Nat) : Except Err (List Nat) :=
  mapE (fun k => match coefs[k]? with | some x => .ok x | none => .error .index) sizes

/-- `zip(a, b, c)` then `starmap(f, …)` — truncates to the shortest list like Python's `zip`. -/
def zipWith3' {β γ δ ε : Type} (f : β → γ → δ → ε) : List β → List γ → List δ → List ε
  | b :: bs, c :: cs, d :: ds => f b c d :: zipWith3' f bs cs ds
  | _, _, _ => []

section
variable {α : Type}

/-- a `Game`: what shapley.py reads from it -/
abbrev GetValues (α : Type) := List Nat → Except Err (List α)

/-- a complete game given by its characteristic function: `get_values` never raises -/
def completeGame (v : Nat → α) : GetValues α := fun ids => .ok (ids.map v)

variable [Add α] [Sub α] [Mul α] [Div α] [Zero α] [NatCast α]

/-- `_shapley_value_for_player(singleton, game, coefficients, n_fac)`. -/
def shapleyCore (n : Nat) (getValues : GetValues α) (single : Nat) (coefs : List Nat) (nFac : Nat) :
    Except Err α := do
  let without ← Table.fromiter (excludeCoalition single (allCoalitions n)) (2 ^ (n - 1))
  let withP := without.map (fun c => c ||| single)
  let valuesWithout ← getValues without
  let valuesWith ← getValues withP
  let cs ← lookupCoefs coefs (without.map size)
  .ok (listSum (zipWith3' (fun (cont : Nat) (vw vo : α) => (cont : α) * (vw - vo)) cs valuesWith valuesWithout)
        / (nFac : α))

/-- `compute_shapley_value_for_player(player, game)`. -/
def shapleyForPlayer (n : Nat) (getValues : GetValues α) (i : Nat) : Except Err α :=
  shapleyCore n getValues (fromPlayers [i]) (contributions n) (fact n)

/-- `list(compute_shapley_value(game))`: the generator over `map(player_to_coalition, range(n))`. -/
def shapley (n : Nat) (getValues : GetValues α) : Except Err (List α) :=
  mapE (fun i => shapleyCore n getValues (singleton i) (contributions n) (fact n)) (List.range n)

/-! ### exploitability.py -/

variable [One α]

/-- one row of `MaxGainGame.get_values()`: `upper*mask + lower*(1 - mask)`. -/
def maxGainValues (i : Nat) (lo hi : Nat → α) (c : Nat) : α :=
  let mask : α := if hasPlayer c i then 1 else 0
  hi c * mask + lo c * (1 - mask)

/-- `MaxGainGame(game, i).get_values(coalitions)`: `bounds[ids]`, IndexError out of range. -/
def maxGainGetValues (n i : Nat) (lo hi : Nat → α) : GetValues α := fun ids =>
  if ids.all (· < 2 ^ n) then .ok (ids.map (maxGainValues i lo hi)) else .error .index

/-- `compute_exploitability(game)`; `grandValue` is the outcome of `game.get_value(grand_coalition)`. -/
def exploitability (n : Nat) (lo hi : Nat → α) (grandValue : Except Err α) : Except Err α := do
  let phis ← mapE (fun i => shapleyForPlayer n (maxGainGetValues n i lo hi) i) (List.range n)
  let g ← grandValue
  .ok (listSum phis - g)

end

/-! ### the value table as a `Game` / `IncompleteGame` -/
namespace Table
variable {α : Type} [Add α] [Sub α] [Mul α] [Div α] [Zero α] [NatCast α]

/-- `IncompleteCooperativeGame.get_values(coalitions)` as seen by shapley.py -/
def gameValues (t : Table α) : GetValues α := fun ids => t.getValues (some ids)

def shapleyForPlayer (t : Table α) (i : Nat) : Except Err α := ICG.shapleyForPlayer t.n t.gameValues i
def shapley (t : Table α) : Except Err (List α) := ICG.shapley t.n t.gameValues

/-- `compute_exploitability(game)` on the real class: `get_value(N)` is `Table.getValue`. -/
def exploitability [One α] (t : Table α) : Except Err α :=
  ICG.exploitability t.n t.lo t.hi (t.getValue (grand t.n))
end Table

/-! ### norms.py -/
section
variable {α : Type}

/-- `abs` as numpy computes it on reals: the larger of `x` and `−x`. -/
def absv [Max α] [Neg α] (x : α) : α := max x (-x)

/-- `game.get_upper_bounds() - game.get_lower_bounds()` — all `2^n` rows. -/
def widths [Sub α] (n : Nat) (lo hi : Nat → α) : List α := (allCoalitions n).map (fun c => hi c - lo c)

/-- `np.linalg.norm(x, 1)` = `sum(abs(x))`. -/
def l1 [Add α] [Sub α] [Zero α] [Max α] [Neg α] (n : Nat) (lo hi : Nat → α) : α :=
  listSum ((widths n lo hi).map absv)

/-- `np.linalg.norm(x, inf)` = `max(abs(x))` — ValueError on an empty vector. -/
def linf [Sub α] [Max α] [Neg α] (n : Nat) (lo hi : Nat → α) : Except Err α :=
  match listMax? ((widths n lo hi).map absv) with
  | some m => .ok m
  | none => .error .value

/-- the square of `np.linalg.norm(x, 2)`: `sum(x*x)`; `l2_norm` is its square root. -/
def l2sq [Add α] [Sub α] [Mul α] [Zero α] (n : Nat) (lo hi : Nat → α) : α :=
  listSum ((widths n lo hi).map (fun x => x * x))

end

/-! ### the instantiation the driver runs: core `Rat` with core's own instances
    (Props/C05, Props/C06 and Lemmas/GapMono restate their theorems for exactly these functions) -/
namespace AtRat
def shapley (n : Nat) (v : Nat → Rat) : Except Err (List Rat) := ICG.shapley n (completeGame v)
def shapleyForPlayer (n : Nat) (v : Nat → Rat) (i : Nat) : Except Err Rat :=
  ICG.shapleyForPlayer n (completeGame v) i
def tableShapley (t : Table Rat) : Except Err (List Rat) := t.shapley
def tableShapleyForPlayer (t : Table Rat) (i : Nat) : Except Err Rat := t.shapleyForPlayer i
def maxGain (n i : Nat) (lo hi : Nat → Rat) : List Rat := (allCoalitions n).map (maxGainValues i lo hi)
def exploitability (t : Table Rat) : Except Err Rat := t.exploitability
def l1 (n : Nat) (lo hi : Nat → Rat) : Rat := ICG.l1 n lo hi
def l2sq (n : Nat) (lo hi : Nat → Rat) : Rat := ICG.l2sq n lo hi
def linf (n : Nat) (lo hi : Nat → Rat) : Except Err Rat := ICG.linf n lo hi
end AtRat

end ICG
