/-
  ICG.Model.Search — exhaustive search, best-states, meta-game, expected-greedy, evaluate() and the process
  pool (import-free).

  Mirrors incomplete_cooperative/gameplay.py, run/best_states.py (`get_best_exploitability`), meta_game.py,
  run/greedy.py (`get_greedy_rewards`), evaluation.py (`evaluate`, `eval_one`) and the sharing structure of
  run/model.py (`ModelInstance.get_env`: every environment refers to the ONE generator RNG of the instance).

  Opaque parameters (DESIGN 6): the bound computer `compute`, the gap function `gap`, the hidden games `v`
  (a draw of the generator is an input), the environment (`EnvOps`: reset / reward / step) and the solver.

  `multiprocessing.Pool.starmap` (DESIGN 3.6): the task list is materialised in the parent and cut into
  consecutive chunks of `ceil(len / (4·processes))` tasks; a chunk is pickled as one object, so whatever
  the tasks of a chunk share is shared in the worker and threaded through the chunk's tasks in order,
  while every chunk starts from a copy of the parent's state at submission; results come back in task
  order; the parent's objects are not mutated.  A raising task makes the whole call raise.
-/
import ICG.Model.Table
namespace ICG
namespace Search
open Table

variable {α γ : Type}

/-! ### the process pool -/

/-- one chunk in one worker: the (copied) shared state is threaded through the chunk's tasks -/
def runChunk {σ τ ρ ε : Type} (step : σ → τ → Except ε (σ × ρ)) (s : σ) : List τ → Except ε (List ρ)
  | [] => .ok []
  | t :: ts =>
    match step s t with
    | .error e => .error e
    | .ok (s', r) =>
      match runChunk step s' ts with
      | .error e => .error e
      | .ok rs => .ok (r :: rs)

/-- `Pool.starmap` over given chunks: every chunk starts from the parent's snapshot; results in task
    order.  (Which error is re-raised when several chunks fail is scheduling dependent in CPython; the
    model reports the first in task order — only the error *kind* is ever compared.) -/
def runPool {σ τ ρ ε : Type} (step : σ → τ → Except ε (σ × ρ)) (snapshot : σ) :
    List (List τ) → Except ε (List ρ)
  | [] => .ok []
  | c :: cs =>
    match runChunk step snapshot c with
    | .error e => .error e
    | .ok r =>
      match runPool step snapshot cs with
      | .error e => .error e
      | .ok rs => .ok (r ++ rs)

/-- the plain sequential map with early exit (what one would get with private state per task) -/
def mapE {τ ρ ε : Type} (g : τ → Except ε ρ) : List τ → Except ε (List ρ)
  | [] => .ok []
  | t :: ts =>
    match g t with
    | .error e => .error e
    | .ok r =>
      match mapE g ts with
      | .error e => .error e
      | .ok rs => .ok (r :: rs)

/-- `chunksize, extra = divmod(len, 4 * processes); if extra: chunksize += 1` -/
def chunkSize (len procs : Nat) : Nat :=
  len / (4 * procs) + (if len % (4 * procs) = 0 then 0 else 1)

/-- `Pool._get_tasks`: `islice(it, size)` until an empty slice.  `fuel` = length of the list (every slice
    removes `size ≥ 1` elements; `size = 0` only arises for the empty list). -/
def chunksGo {τ : Type} (size : Nat) : Nat → List τ → List (List τ)
  | 0, _ => []
  | f + 1, l => if l.isEmpty || size == 0 then [] else l.take size :: chunksGo size f (l.drop size)

def chunksOf {τ : Type} (size : Nat) (l : List τ) : List (List τ) := chunksGo size l.length l

/-- the chunks `Pool(processes).starmap` makes of a task list -/
def poolChunks {τ : Type} (l : List τ) (procs : Nat) : List (List τ) := chunksOf (chunkSize l.length procs) l

/-- `with Pool(processes=p) as pool: pool.starmap(f, tasks)`; `Pool(0)` raises ValueError. -/
def starmap {σ τ ρ : Type} (step : σ → τ → Except Err (σ × ρ)) (snapshot : σ) (tasks : List τ) (procs : Nat) :
    Except Err (List ρ) :=
  if procs = 0 then .error .value else runPool step snapshot (poolChunks tasks procs)

/-! ### gameplay.py -/

/-- `get_known_coalitions(game)` / `possible_next_actions(game)`: id order. -/
def knownOf (t : Table α) : List Nat := (allCoalitions t.n).filter (fun c => t.known c)
def unknownOf (t : Table α) : List Nat := (allCoalitions t.n).filter (fun c => !t.known c)

/-- `possible_action_sequences`: `chain.from_iterable(map(list, combinations(actions, i)) for i in
    range(max_size + 1))`, `max_size = None ↦ len(actions)`. -/
def possibleSeqs {β : Type} (unknown : List β) (k : Option Nat) : List (List β) :=
  let m := match k with
    | some k => k
    | none => unknown.length
  (List.range (m + 1)).flatMap (fun i => combos i unknown)

/-- `if include: action_sequence = list(set(action_sequence).union(include))`.  The iteration order of a
    Python set is unspecified; the model fixes one (`eraseDups`) and `Props/C11` proves the table written
    does not depend on it (every write carries the hidden value of its own coalition). -/
def seqIds (seq incl : List Nat) : List Nat :=
  if incl.isEmpty then seq else (seq ++ incl).eraseDups

/-- `full_game.get_values(ids)` of a complete hidden game on `n` players (IndexError outside). -/
def hiddenValues (n : Nat) (v : Nat → α) (ids : List Nat) : Except Err (List α) :=
  if ids.all (· < 2 ^ n) then .ok (ids.map v) else .error .index

/-- `game.set_known_values(full_game.get_values(ids), ids)`: the table is RESET and then knows exactly the
    listed coalitions with their hidden values (a raising `get_values` leaves the table untouched). -/
def applyIds [Zero α] (t : Table α) (v : Nat → α) (ids : List Nat) : Except (Err × Table α) (Table α) :=
  match hiddenValues t.n v ids with
  | .error e => .error (e, t)
  | .ok vals => t.setKnownValues vals (some ids)

/-- `apply_action_sequence(game, full_game, seq, include)`. -/
def applySeq [Zero α] (t : Table α) (v : Nat → α) (seq incl : List Nat) :
    Except (Err × Table α) (Table α) :=
  applyIds t v (seqIds seq incl)

/-- the pool task `_get_act_sequence_exploitability(game, full_game, seq, known, gap_func)`:
    apply, compute, gap.  Returns the scratch table it leaves behind (shared by the chunk's later tasks). -/
def seqGap [Zero α] (compute : Table α → Except Err (Table α)) (gap : Table α → Except Err γ)
    (v : Nat → α) (incl : List Nat) (t : Table α) (seq : List Nat) :
    Except Err (Table α × (List Nat × γ)) :=
  match applySeq t v seq incl with
  | .error (e, _) => .error e
  | .ok t1 =>
    match compute t1 with
    | .error e => .error e
    | .ok t2 =>
      match gap t2 with
      | .error e => .error e
      | .ok g => .ok (t2, (seq, g))

/-- `get_exploitabilities_of_action_sequences(game, full_game, gap, max_size, processes)`: start knowledge
    and the enumeration are read from the scratch game in the parent, once. -/
def getExploitabilities [Zero α] (compute : Table α → Except Err (Table α)) (gap : Table α → Except Err γ)
    (t : Table α) (v : Nat → α) (k : Option Nat) (procs : Nat) : Except Err (List (List Nat × γ)) :=
  let known := knownOf t
  starmap (seqGap compute gap v known) t (possibleSeqs (unknownOf t) k) procs

/-- `get_exploitabilities_of_action_sequence(game, full_games, seq, gap, processes)`: one sequence, a
    pool task per sampled game (the scratch table is again shared within a chunk). -/
def getExploitabilitiesOfSeq [Zero α] (compute : Table α → Except Err (Table α))
    (gap : Table α → Except Err γ) (t : Table α) (games : List (Nat → α)) (seq : List Nat) (procs : Nat) :
    Except Err (List γ) :=
  let known := knownOf t
  match starmap (fun t v => seqGap compute gap v known t seq) t games procs with
  | .error e => .error e
  | .ok rs => .ok (rs.map (·.2))

/-- rows (one per sampled game) to columns (one per action sequence); all rows have length `len`. -/
def columns {β : Type} (len : Nat) (rows : List (List β)) : List (List β) :=
  rows.foldr (fun row acc => List.zipWith (· :: ·) row acc) (List.replicate len [])

/-- the parent-side reset `game.set_known_values(full_game.get_values(initially_known), initially_known)`
    followed by one exhaustive run, for each sampled game in turn (`draws` = the generator's outputs in
    call order).  Returns the scratch table the PARENT is left with, and the rows of gaps. -/
def sampleRows [Zero α] (compute : Table α → Except Err (Table α)) (gap : Table α → Except Err γ)
    (initKnown : List Nat) (k : Option Nat) (procs : Nat) :
    Table α → List (Nat → α) → Except Err (Table α × List (List (List Nat × γ)))
  | t, [] => .ok (t, [])
  | t, v :: vs =>
    match applyIds t v initKnown with
    | .error (e, _) => .error e
    | .ok t1 =>
      match getExploitabilities compute gap t1 v k procs with
      | .error e => .error e
      | .ok row =>
        match sampleRows compute gap initKnown k procs t1 vs with
        | .error e => .error e
        | .ok (t2, rows) => .ok (t2, row :: rows)

/-- `sample_exploitabilities_of_action_sequences(game, generator, gap, samples, max_size=, processes=)`.
    The generator is called `max(1, samples)` times; `samples = 0` raises IndexError at `values[0] = …`
    (after one full run).  `draw i` is the i-th output of the generator.
    Returns (parent scratch table, action sequences, one column of `samples` gaps per sequence). -/
def sampleExploitabilities [Zero α] (compute : Table α → Except Err (Table α)) (gap : Table α → Except Err γ)
    (t : Table α) (draw : Nat → (Nat → α)) (samples : Nat) (k : Option Nat) (procs : Nat) :
    Except Err (Table α × List (List Nat) × List (List γ)) :=
  let initKnown := knownOf t
  let games := (List.range (max 1 samples)).map draw
  match sampleRows compute gap initKnown k procs t games with
  | .error e => .error e
  | .ok (t', rows) =>
    if samples = 0 then .error .index else
    match rows with
    | [] => .error .index                     -- unreachable: `games` is non-empty
    | row0 :: _ =>
      let actions := row0.map (·.1)
      .ok (t', actions, columns actions.length (rows.map (fun r => r.map (·.2))))

/-! ### run/best_states.py -/

section best
variable [Add α] [Zero α] [One α] [Neg α] [Div α] [NatCast α] [DecidableEq α] [LT α] [DecidableLT α]

/-- `np.mean` of a non-empty vector (callers guard `l ≠ []`). -/
def mean (l : List α) : α := listSum l / (l.length : α)

/-- one `best_exploitabilities` row with its `best_actions` entry -/
abbrev BestRow (α : Type) := List α × List Nat

/-- the loop body of `get_best_exploitability` for the i-th enumerated sequence and its column of
    sampled gaps:  replace when the row still has the placeholder mean −1 or a strictly larger mean. -/
def bestUpdate (b : List (BestRow α)) (seq : List Nat) (col : List α) : Except Err (List (BestRow α)) :=
  match b[seq.length]? with
  | none => .error .index
  | some (row, _) =>
    if mean row = -1 ∨ mean col < mean row then .ok (b.set seq.length (col, seq)) else .ok b

def bestFold : List (BestRow α) → List (List Nat × List α) → Except Err (List (BestRow α))
  | b, [] => .ok b
  | b, (seq, col) :: rest =>
    match bestUpdate b seq col with
    | .error e => .error e
    | .ok b' => bestFold b' rest

/-- the per-size selection of `get_best_exploitability`, given the enumerated sequences with their
    columns (`repetitions ≥ 1`; rows start as `repetitions` copies of the placeholder −1, actions `[]`). -/
def bestStates (maxSteps reps : Nat) (cands : List (List Nat × List α)) : Except Err (List (BestRow α)) :=
  bestFold (List.replicate (maxSteps + 1) (List.replicate reps (-1), [])) cands

/-- `get_best_exploitability(env, max_steps, repetitions, gap, processes)` on the env's scratch game
    `t` (knowing the initially known coalitions), sampled games `draw 0, draw 1, …`. -/
def getBestExploitability (compute : Table α → Except Err (Table α)) (gap : Table α → Except Err α)
    (t : Table α) (draw : Nat → (Nat → α)) (maxSteps reps procs : Nat) :
    Except Err (Table α × List (BestRow α)) :=
  match sampleExploitabilities compute gap t draw reps (some maxSteps) procs with
  | .error e => .error e
  | .ok (t', actions, cols) =>
    match bestStates maxSteps reps (actions.zip cols) with
    | .error e => .error e
    | .ok b => .ok (t', b)
end best

/-! ### meta_game.py -/

/-- `MetaGame.players`: the non-minimal coalitions in id order. -/
def metaPlayers (n : Nat) : List Nat := (allCoalitions n).filter (fun c => !(minimalCoalitions n).contains c)

/-- `[self.players[i] for i in coalition.players]` (IndexError outside) -/
def metaInner (n m : Nat) : Except Err (List Nat) :=
  mapE (fun i => match (metaPlayers n)[i]? with
                 | some c => .ok c
                 | none => .error Err.index) (players m)

/-- `MetaGame.get_value(coalition)` on the meta-game's private scratch table `t` (a copy made in the
    constructor; returned because it is kept between calls). -/
def metaValue [Zero α] (compute : Table α → Except Err (Table α)) (gap : Table α → Except Err γ)
    (v : Nat → α) (t : Table α) (m : Nat) : Except Err (Table α × γ) :=
  match metaInner t.n m with
  | .error e => .error e
  | .ok inner =>
    match applyIds t v (inner ++ minimalCoalitions t.n) with
    | .error (e, _) => .error e
    | .ok t1 =>
      match compute t1 with
      | .error e => .error e
      | .ok t2 =>
        match gap t2 with
        | .error e => .error e
        | .ok g => .ok (t2, g)

/-! ### run/greedy.py -/

section greedy
variable [Add α] [Zero α] [One α] [Neg α] [Div α] [NatCast α] [LT α] [DecidableLT α]

/-- `np.argmin`: index of the first minimal element; `none` on the empty list. -/
def argminGo : List α → Nat → Nat → α → Nat
  | [], _, bi, _ => bi
  | x :: xs, i, bi, bv => if x < bv then argminGo xs (i + 1) i x else argminGo xs (i + 1) bi bv

def argmin : List α → Option Nat
  | [] => none
  | a :: l => some (argminGo l 1 0 a)

/-- loop state of `get_greedy_rewards` -/
structure GState (α : Type) where
  rows : List (List α)          -- best_exploitabilities
  acts : List Nat               -- action_sequence
  possible : List Nat           -- possible_actions (a Python set)
  pnas : List (List Nat)        -- possible_next_action_sequences

/-- one pass through the `while` body.  `evalSeq seq` = the vector of gaps of `seq` over the sampled
    games (`get_stacked_exploitabilities_of_action_sequences` row); `order acts s` = the order in which
    the Python set `possible_actions` (contents `s`, after removing `acts` one by one) is iterated.
    An empty candidate list makes `np.mean(axis=1)` raise AxisError (`err:other`); `reps = 0` would give
    NaN means (`err:nan`, outside the domain of the property). -/
def greedyIter (evalSeq : List Nat → Except Err (List α)) (order : List Nat → List Nat → List Nat)
    (reps : Nat) (st : GState α) : Except Err (GState α) :=
  match mapE evalSeq st.pnas with
  | .error e => .error e
  | .ok expected =>
    if expected.isEmpty then .error .other
    else if reps = 0 then .error .nan
    else
      match argmin (expected.map mean) with
      | none => .error .other
      | some idx =>
        match st.pnas[idx]?, expected[idx]? with
        | some seq, some row =>
          let acts := match seq.getLast? with
            | some a => st.acts ++ [a]
            | none => st.acts
          let possible := match seq.getLast? with
            | some a => st.possible.erase a
            | none => st.possible
          if acts.length < st.rows.length then
            .ok { rows := st.rows.set acts.length row, acts := acts, possible := possible,
                  pnas := (order acts possible).map (fun a => acts ++ [a]) }
          else .error .index
        | _, _ => .error .index              -- unreachable: `idx` indexes both lists

/-- `while len(action_sequence) < max_steps:` — at most `max_steps + 1` passes (the first pass, with
    `possible_next_action_sequences = [[]]`, appends nothing); `fuel` is that number.  Running out of
    fuel with the loop condition still true cannot happen (`Lemmas/ExpectedGreedy.greedy_fuel`). -/
def greedyLoop (evalSeq : List Nat → Except Err (List α)) (order : List Nat → List Nat → List Nat)
    (reps maxSteps : Nat) : Nat → GState α → Except Err (GState α)
  | 0, st => .ok st
  | f + 1, st =>
    if st.acts.length < maxSteps then
      match greedyIter evalSeq order reps st with
      | .error e => .error e
      | .ok st' => greedyLoop evalSeq order reps maxSteps f st'
    else .ok st

/-- `get_greedy_rewards` with deterministic tie-breaking (`random=None`), over an abstract evaluation of
    a sequence on the sampled games.  Row 0 is first filled from the evaluation of `[]`. -/
def expectedGreedyWith (evalSeq : List Nat → Except Err (List α)) (order : List Nat → List Nat → List Nat)
    (explorable : List Nat) (maxSteps reps : Nat) : Except Err (List (List α) × List Nat) :=
  match evalSeq [] with
  | .error e => .error e
  | .ok row0 =>
    let rows0 := (List.replicate (maxSteps + 1) (List.replicate reps (-1 : α))).set 0 row0
    match greedyLoop evalSeq order reps maxSteps (maxSteps + 1)
            { rows := rows0, acts := [], possible := explorable.eraseDups, pnas := [[]] } with
    | .error e => .error e
    | .ok st => .ok (st.rows, st.acts)

/-- `get_greedy_rewards(env, max_steps, repetitions, gap, processes)`: `t` is `env.incomplete_game`,
    `games` the `repetitions` sampled games, every evaluation a pool call over the games. -/
def expectedGreedy (compute : Table α → Except Err (Table α)) (gap : Table α → Except Err α)
    (order : List Nat → List Nat → List Nat) (t : Table α) (games : List (Nat → α))
    (explorable : List Nat) (maxSteps procs : Nat) : Except Err (List (List α) × List Nat) :=
  expectedGreedyWith (fun seq => getExploitabilitiesOfSeq compute gap t games seq procs) order
    explorable maxSteps games.length
end greedy

/-! ### evaluation.py -/

/-- the environment as an abstract state machine: what `eval_one` uses.  `ρ` is the state of whatever
    random source `reset` draws the hidden game from **when that source is shared between
    environments** (the unrepaired `ModelInstance.get_env`: one `game_generator_rng` for all); an
    environment with a private source keeps it inside `ε` and leaves `ρ` alone. -/
structure EnvOps (ε ρ α : Type) where
  reset : ε → ρ → ε × ρ
  reward : ε → α
  /-- new env, reward, done, `info["chosen_coalition"]` -/
  step : ε → Nat → Except Err (ε × α × Bool × Nat)

/-- the episode loop of `eval_one`: recorded gaps and coalition ids, newest last; stops after `done`. -/
def episodes {ε ρ ς : Type} [Neg α] (E : EnvOps ε ρ α) (next : ς → ε → Except Err (ς × Nat)) :
    Nat → ς → ε → Except Err (ς × List α × List Nat)
  | 0, s, _ => .ok (s, [], [])
  | f + 1, s, env =>
    match next s env with
    | .error e => .error e
    | .ok (s1, action) =>
      match E.step env action with
      | .error e => .error e
      | .ok (env1, reward, done, chosen) =>
        if done then .ok (s1, [-reward], [chosen])
        else
          match episodes E next f s1 env1 with
          | .error e => .error e
          | .ok (s2, gs, cs) => .ok (s2, -reward :: gs, chosen :: cs)

/-- `eval_one(get_next_step, env, run_steps_limit, gap_func, after_reset)`: arrays of length
    `limit + 1` / `limit`, pre-filled with 0.  Shared state: (generator source, solver state). -/
def evalOne {ε ρ ς : Type} [Neg α] [Zero α] (E : EnvOps ε ρ α) (next : ς → ε → Except Err (ς × Nat))
    (limit : Nat) (st : ρ × ς) (env : ε) : Except Err ((ρ × ς) × (List α × List Nat)) :=
  let (env0, r) := E.reset env st.1
  match episodes E next limit st.2 env0 with
  | .error e => .error e
  | .ok (s, gs, cs) =>
    .ok ((r, s), (-(E.reward env0) :: gs ++ List.replicate (limit - gs.length) 0,
                  cs ++ List.replicate (limit - cs.length) 0))

/-- sequential branch (`processes ≤ 1`): `list(starmap(eval_one, generator_expression))` — the argument
    tuple of repetition j+1, hence `env_generator()`, is only produced after `eval_one` of repetition j
    has returned; everything shared is threaded through construction and evaluation alike. -/
def evaluateSeq {ε ρ ς : Type} [Neg α] [Zero α] (E : EnvOps ε ρ α) (mk : ρ → ε × ρ)
    (next : ς → ε → Except Err (ς × Nat)) (limit : Nat) :
    Nat → ρ × ς → Except Err ((ρ × ς) × List (List α × List Nat))
  | 0, st => .ok (st, [])
  | reps + 1, st =>
    let (env, r) := mk st.1
    match evalOne E next limit (r, st.2) env with
    | .error e => .error e
    | .ok (st1, res) =>
      match evaluateSeq E mk next limit reps st1 with
      | .error e => .error e
      | .ok (st2, rest) => .ok (st2, res :: rest)

/-- `[env_generator() for _ in range(repetitions)]` as materialised by `Pool.starmap` -/
def mkEnvs {ε ρ : Type} (mk : ρ → ε × ρ) : Nat → ρ → List ε × ρ
  | 0, r => ([], r)
  | reps + 1, r =>
    let (env, r1) := mk r
    let (envs, r2) := mkEnvs mk reps r1
    (env :: envs, r2)

/-- parallel branch (`processes > 1`): all environments are constructed first; every chunk then works
    on a pickled copy of (generator source after all constructions, solver state). -/
def evaluatePar {ε ρ ς : Type} [Neg α] [Zero α] (E : EnvOps ε ρ α) (mk : ρ → ε × ρ)
    (next : ς → ε → Except Err (ς × Nat)) (limit reps procs : Nat) (st : ρ × ς) :
    Except Err (List (List α × List Nat)) :=
  let (envs, r) := mkEnvs mk reps st.1
  starmap (evalOne E next limit) (r, st.2) envs procs

/-- `evaluate(get_next_step, env_generator, repetitions, run_steps_limit, gap_func, processes)`: one
    (gap row, action row) pair per repetition (the code returns the two transposed stacks). -/
def evaluate {ε ρ ς : Type} [Neg α] [Zero α] (E : EnvOps ε ρ α) (mk : ρ → ε × ρ)
    (next : ς → ε → Except Err (ς × Nat)) (limit reps procs : Nat) (st : ρ × ς) :
    Except Err (List (List α × List Nat)) :=
  if procs > 1 then evaluatePar E mk next limit reps procs st
  else
    match evaluateSeq E mk next limit reps st with
    | .error e => .error e
    | .ok (_, res) => .ok res

/-! ### the CURRENT sharing structure of `ModelInstance.get_env` + `evaluate`, reduced to draw indices

The hidden game of an environment is the `k`-th output of the instance's single generator RNG.
`ICG_Gym.__init__` draws twice (once directly, once through its own `reset()`), `eval_one`'s `reset()`
draws once more; a solver with its own `Random` (solvers/random.py) draws once per step. -/

/-- env = index of the draw its hidden game came from; reward = −index, so that gap row 0 shows it -/
def drawEnv (ctorDraws : Nat) : EnvOps Nat Nat Int × (Nat → Nat × Nat) :=
  ({ reset := fun _ r => (r, r + 1), reward := fun e => -(e : Int),
     step := fun e a => .ok (e, -(a : Int), false, a) },
   fun r => (r + (ctorDraws - 1), r + ctorDraws))

/-- solver = counter: the "action" it returns is the index of its own draw -/
def drawSolver : Nat → Nat → Except Err (Nat × Nat) := fun s _ => .ok (s + 1, s)

/-- which generator draw each repetition's hidden game is, and which solver draws each repetition
    uses, under the current code -/
def poolDraws (ctorDraws limit reps procs : Nat) : Except Err (List (List Int × List Nat)) :=
  evaluate (drawEnv ctorDraws).1 (drawEnv ctorDraws).2 drawSolver limit reps procs (0, 0)

end Search
end ICG
