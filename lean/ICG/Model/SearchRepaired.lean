/-
  ICG.Model.SearchRepaired — the generator plumbing of `ModelInstance.get_env` AFTER commit
  "fix: one child random stream per environment in ModelInstance.get_env" (core Lean only; adds
  definitions, changes none of ICG.Model.Search).

      env_rng = self.game_generator_rng.spawn(1)[0]
      generator_fn = partial(GENERATORS[self.game_generator], self.number_of_players, env_rng)
      gym = ICG_Gym(incomplete_game, generator_fn, …)

  `Generator.spawn` advances only the spawn counter of the parent's seed sequence; the child's stream
  is determined by (seed, spawn index).  So the environment constructed j-th (0-based, in construction
  order, always in the parent process) owns stream j, and carries it — with its position — wherever it
  is pickled to.  A hidden-game draw is therefore identified by a pair (stream j, position k) instead of
  a position in one shared stream.  `ICG_Gym.__init__` calls the generator once directly and once through
  its own `reset()` (positions 0 and 1); every later `reset()` takes the next position (`eval_one`
  resets once: position 2).

  `evaluate()` itself is unchanged, so the repaired model is the EXISTING `Search.evaluate` (both
  branches: sequential = lazy construction interleaved with evaluation, parallel = all environments
  constructed first, then `Pool.starmap` chunks on pickled copies) instantiated with the repaired
  environment and constructor.  What was the shared generator state `ρ` is now only the parent's spawn
  counter: `reset` leaves it alone.
-/
import ICG.Model.Search
namespace ICG
namespace Search

/-- identity of a hidden-game draw: (stream, position).  Integer components so that the reward
    (= minus the gap) can carry it: gap rows show `−reward`. -/
structure Draw where
  stream : Int
  pos : Int
deriving DecidableEq, Repr

instance : Neg Draw := ⟨fun d => ⟨-d.stream, -d.pos⟩⟩
/-- filler of the pre-allocated arrays -/
instance : Zero Draw := ⟨⟨0, 0⟩⟩

/-- the `k`-th game produced by the child generator with spawn index `j` -/
def drawRepaired (j k : Nat) : Draw := ⟨(j : Int), (k : Int)⟩

/-- a repaired environment: its private child generator (`stream`, and `pos` = how many games that
    generator has produced so far) and the identity of its current hidden game -/
structure RepEnv where
  stream : Nat
  pos : Nat
  game : Draw
deriving DecidableEq, Repr

/-- `env.reset()`: the next game of the environment's OWN stream; the parent's spawn counter `c` is not
    touched.  reward = −(identity of the hidden game), after every step as well, so that every gap row
    shows which hidden game the repetition is being evaluated on; `chosen_coalition` = the action. -/
def repairedEnv : EnvOps RepEnv Nat Draw :=
  { reset := fun e c => ({ e with pos := e.pos + 1, game := drawRepaired e.stream e.pos }, c),
    reward := fun e => -e.game,
    step := fun e a => .ok (e, -e.game, false, a) }

/-- `ModelInstance.get_env()` with spawn counter `c`: child stream `c`; `ICG_Gym.__init__` consumes its
    positions 0 and 1 (the hidden game after construction is draw (c, 1)); the counter becomes `c + 1`. -/
def repairedMk : Nat → RepEnv × Nat :=
  fun c => ({ stream := c, pos := 2, game := drawRepaired c 1 }, c + 1)

/-- `[env_generator() for _ in range(reps)]` from a fresh instance (spawn counter 0) -/
def mkEnvsRepaired (reps : Nat) : List RepEnv := (mkEnvs repairedMk reps 0).1

/-- `evaluate()` on a fresh repaired instance, solver `next` started in state `s` -/
def evaluateRepaired {ς : Type} (next : ς → RepEnv → Except Err (ς × Nat)) (limit reps procs : Nat) (s : ς) :
    Except Err (List (List Draw × List Nat)) :=
  evaluate repairedEnv repairedMk next limit reps procs (0, s)

/-- which draw each repetition's hidden game is, and which solver draws each repetition uses, under the
    repaired code (counterpart of `poolDraws`; the counting solver `drawSolver` ignores the environment) -/
def poolDrawsRepaired (limit reps procs : Nat) : Except Err (List (List Draw × List Nat)) :=
  evaluateRepaired (fun s (_ : RepEnv) => drawSolver s 0) limit reps procs 0

end Search
end ICG
