/-
  ICG.Model.Regret — the regret minimiser of incomplete_cooperative/regret.py (import-free).

  A *meta-coalition* is a set of viable coalitions, stored as a bit mask over the `m = 2^n - n - 2`
  "player ids" of the viable coalitions.  The model mirrors the code statement by statement:

  * `metaIds m limit`         — `chain(combinations(range(m), size) for size in range(min(m,limit)+1))`
                                 mapped through `Coalition.from_players(..).id`;
    `metaIdsArr`              — the same through `np.fromiter(.., count=coalitions_up_to(..))`
                                 (a shorter iterator is a ValueError, a longer one is truncated);
  * `fillTable len ids`       — `t = zeros(len); t[ids] = arange(len(ids))`: the id → rank table **as
                                 allocated**; an id `≥ len` is an IndexError (`err:index`);
  * `Policy`                  — the two places where the code under test may differ between the current
                                 tree and its one-line repairs: the length of the id → rank table and the
                                 limit that is stored (and used for the number of regret minimisers).
                                 `Policy.current` is what /repo does today;
  * `regretMatchingRow`       — positive part; if it sums to 0: ones with the used coalitions zeroed; then
                                 divide by the sum.  A zero normaliser is `err:nan` — never `x / 0 = 0`;
  * `averageStrategy`         — incl. the `-1` index wrap of `cum[coalitions_to_player_ids]`, masked;
  * `iteration`               — top-down reach probabilities over ranks `0 .. R-1`, bottom-up q-values and
                                 experienced losses, `weight = iteration if plus else 1`,
                                 `regret += q - experienced`, plus-clipping;
  * `save` / `load`           — the parameter record and the two arrays; `load` re-runs the constructor.

  float32 in the code, exact arithmetic over any `α` with the core classes here (driver: `Rat`).
  When a call returns an error the Python object may already be partly mutated (`iteration` is
  incremented first); the model returns the error only — nothing is specified about such an object.
-/
import ICG.Model.Bits
namespace ICG
namespace Regret

/-! ### generic numpy-style helpers -/

/-- `a[i]`, IndexError when out of range (indices are never negative here). -/
def getIdx {β} (l : List β) (i : Nat) : Except Err β :=
  match l[i]? with
  | some x => .ok x
  | none => .error .index

/-- `a[i] = v` for one in-range index. -/
def setIdx {β} (l : List β) (i : Nat) (v : β) : Except Err (List β) :=
  if i < l.length then .ok (l.set i v) else .error .index

/-- fancy-index assignment `a[idx] = vals` (equal lengths): IndexError if any index is out of range
    (nothing is written then), otherwise written left to right, the last write wins. -/
def assignMany {β} (a : List β) (idx : List Nat) (vals : List β) : Except Err (List β) :=
  if idx.all (· < a.length) then
    .ok ((idx.zip vals).foldl (fun a p => a.set p.1 p.2) a)
  else .error .index

/-- the right-hand side of `a[idx] = rhs` for a 1-d `rhs`: same length, or length 1 (broadcast);
    anything else is a ValueError. -/
def broadcastTo {β} (rhs : List β) (k : Nat) : Except Err (List β) :=
  if rhs.length = k then .ok rhs
  else match rhs with
    | [x] => .ok (List.replicate k x)
    | _ => .error .value

/-! ### counting and ranking -/

/-- Pascal's rule; `scipy.special.comb(n, k)` for the sizes used. -/
def binom : Nat → Nat → Nat
  | _, 0 => 1
  | 0, _ + 1 => 0
  | n + 1, k + 1 => binom n k + binom n (k + 1)

/-- `coalitions_up_to(m, k) = int(comb(m, arange(k+1)).sum())` for `k ≥ 0`. -/
def coalitionsUpTo (m k : Nat) : Nat := listSum ((List.range (k + 1)).map (binom m))

/-- `coalitions_up_to(m, limit - 1)` (`arange(0)` is empty when `limit = 0`). -/
def coalitionsBelow (m limit : Nat) : Nat := if limit = 0 then 0 else coalitionsUpTo m (limit - 1)

/-- number of coalitions outside K₀: `2**n - n - 2` (negative for n < 2, see `RM.new`). -/
def numCoalitions (n : Nat) : Nat := 2 ^ n - n - 2

/-- the meta-coalition ids in the order of the code: by size, then `itertools.combinations` order. -/
def metaIds (m limit : Nat) : List Nat :=
  (List.range (min m limit + 1)).flatMap (fun k => (combos k (List.range m)).map fromPlayers)

/-- `np.fromiter(ids, dtype=int, count=coalitions_up_to(m, min(m, limit)))`. -/
def metaIdsArr (m limit : Nat) : Except Err (List Nat) :=
  let ids := metaIds m limit
  let c := coalitionsUpTo m (min m limit)
  if ids.length < c then .error .value else .ok (ids.take c)

/-- `t = np.zeros(len, dtype=int); t[ids] = np.arange(len(ids))`. -/
def fillTable (len : Nat) (ids : List Nat) : Except Err (Array Nat) :=
  if ids.all (· < len) then
    .ok (ids.zipIdx.foldl (fun a p => a.setIfInBounds p.1 p.2) (Array.replicate len 0))
  else .error .index

/-- `get_coalition_player_id_map(n)`: −1 everywhere except the viable coalitions, numbered in id order. -/
def coalitionPlayerIdMap (n : Nat) : List Int :=
  let viable := (allCoalitions n).filter (fun c => !(size c == 0 || size c == 1 || size c == n))
  (allCoalitions n).map (fun c => if c ∈ viable then (viable.idxOf c : Int) else -1)

/-! ### the object -/

/-- where the tree under test may deviate: the allocated length of `meta_id_to_rank` (from the rank → id
    list) and the limit that is stored in `self.limit_of_revealed` (from `m` and the argument). -/
structure Policy where
  tableLen : List Nat → Nat
  storedLimit : Nat → Nat → Nat

/-- the code as it is: one slot per viable meta-coalition; the limit stored unclipped. -/
def Policy.current : Policy := ⟨List.length, fun _ limit => limit⟩
/-- the candidate repairs: largest id + 1 slots; the stored limit clipped to `m`. -/
def Policy.repaired : Policy := ⟨fun ids => ids.foldl max 0 + 1, fun m limit => min m limit⟩
/-- explicit numbers (the driver is fed what the harness observes on the real object). -/
def Policy.explicit (tableLen storedLimit : Nat) : Policy := ⟨fun _ => tableLen, fun _ _ => storedLimit⟩

structure RM (α : Type) where
  n : Nat
  m : Nat                     -- number_of_coalitions
  limit : Nat                 -- limit_of_revealed (as stored)
  plus : Bool
  rankToId : List Nat         -- meta_rank_to_id
  idToRank : Array Nat        -- meta_id_to_rank
  R : Nat                     -- number_of_regret_minimizers
  pidMap : List Int           -- coalitions_to_player_ids
  regret : List (List α)      -- cumulative_regret  (R × m)
  strategy : List (List α)    -- cumulative_strategy (R × m)
  iteration : Nat

variable {α : Type}

/-- `viable_metacoalitions`. -/
def RM.V (rm : RM α) : Nat := rm.rankToId.length

def zeros [Zero α] (k : Nat) : List α := List.replicate k 0
def zeros2 [Zero α] (r k : Nat) : List (List α) := List.replicate r (zeros k)

/-- `GameRegretMinimizer.__init__` under an allocation policy. -/
def RM.new [Zero α] (p : Policy) (n limit : Nat) (plus : Bool) : Except Err (RM α) :=
  if n < 2 then .error .value          -- 2**n - n - 2 = -1: np.zeros((R, -1)) is a ValueError
  else do
    let m := numCoalitions n
    let stored := p.storedLimit m limit
    let ids ← metaIdsArr m limit
    let table ← fillTable (p.tableLen ids) ids
    let R := coalitionsBelow m stored
    pure { n := n, m := m, limit := stored, plus := plus, rankToId := ids, idToRank := table, R := R,
           pidMap := coalitionPlayerIdMap n, regret := zeros2 R m, strategy := zeros2 R m, iteration := 0 }

/-- `self.meta_id_to_rank[id]`. -/
def RM.rankOf (rm : RM α) (id : Nat) : Except Err Nat :=
  match rm.idToRank[id]? with
  | some r => .ok r
  | none => .error .index

/-- `get_metacoalition_id`: coalitions of size 0, 1 or `2**n` (sic) are dropped, the rest are looked up
    in the player-id map (`2 ** -1` on an int array is a ValueError) and `2**pid` summed. -/
def RM.getMetacoalitionId (rm : RM α) (coalitions : List Nat) : Except Err Nat := do
  let kept := coalitions.filter (fun c => !(size c == 0 || size c == 1 || size c == 2 ^ rm.n))
  let pids ← kept.mapM (getIdx rm.pidMap)
  if pids.any (· < 0) then .error .value
  else pure (listSum (pids.map (fun p => 2 ^ p.toNat)))

section arith
variable [Zero α] [One α] [Add α] [Sub α] [Mul α] [Div α] [LT α] [DecidableLT α] [DecidableEq α]

/-- `x * (x > 0)`. -/
def posPart (x : α) : α := if 0 < x then x else 0

/-- `v / v.sum()`: 0/0 is NaN (x/0 is ±inf) — reported, not hidden; an empty array stays empty. -/
def normalize (l : List α) : Except Err (List α) :=
  let s := listSum l
  if s = 0 then (if l.isEmpty then .ok [] else .error .nan) else .ok (l.map (· / s))

/-- `u = np.ones(m); u[used] = 0`. -/
def onesWithout (m : Nat) (used : List Nat) : Except Err (List α) :=
  if used.all (· < m) then .ok ((List.range m).map (fun i => if i ∈ used then 0 else 1))
  else .error .index

/-- body of `regret_matching_strategy` once the regret row is fetched. -/
def regretMatchingRow (m : Nat) (row : List α) (used : List Nat) : Except Err (List α) :=
  let pos := row.map posPart
  if listSum pos = 0 then do
    let u ← onesWithout m used
    normalize u
  else normalize pos

/-- `regret_matching_strategy(metacoalition: int)`. -/
def RM.regretMatching (rm : RM α) (mc : Nat) : Except Err (List α) := do
  let rank ← rm.rankOf mc
  let row ← getIdx rm.regret rank
  regretMatchingRow rm.m row (players mc)

/-- `regret_matching_strategy(past_actions: Iterable[Coalition])`. -/
def RM.regretMatchingOf (rm : RM α) (coalitions : List Nat) : Except Err (List α) := do
  let mc ← rm.getMetacoalitionId coalitions
  rm.regretMatching mc

/-- `get_average_strategy(past_actions)`: over coalition ids `0 .. 2^n-1`. -/
def RM.averageStrategy (rm : RM α) (coalitions : List Nat) : Except Err (List α) := do
  let mc ← rm.getMetacoalitionId coalitions
  let rank ← rm.rankOf mc
  let row ← getIdx rm.strategy rank
  let cum ← (if row.all (fun x => decide (x = 0)) then onesWithout rm.m (players mc) else pure row)
  -- cum[coalitions_to_player_ids] * (coalitions_to_player_ids > -0.5): index −1 wraps, then is masked
  let coals ← rm.pidMap.mapM (fun p =>
    if p < 0 then (if cum.isEmpty then Except.error Err.index else pure (0 : α))
    else getIdx cum p.toNat)
  normalize coals

/-- what both passes compute first for rank `i`: the node, its unused player ids, the ranks of its
    children (`self.meta_id_to_rank[next_metacoalitions]`). -/
def RM.nodeInfo (rm : RM α) (i : Nat) : Except Err (Nat × List Nat × List Nat) := do
  let mc ← getIdx rm.rankToId i
  let nextPids := players (inverted mc rm.m)
  let nextMetas := nextPids.map (addPlayer mc)
  let nextRanks ← nextMetas.mapM rm.rankOf
  pure (mc, nextPids, nextRanks)

/-- one step of the top-down pass:
    `reach[next_ranks] += reach[i] * regret_matching_strategy(meta)[next_pids]`. -/
def RM.topDownStep (rm : RM α) (reach : List α) (i : Nat) : Except Err (List α) := do
  let (mc, nextPids, nextRanks) ← rm.nodeInfo i
  let sigma ← rm.regretMatching mc
  let sel ← nextPids.mapM (getIdx sigma)
  let ri ← getIdx reach i
  let old ← nextRanks.mapM (getIdx reach)
  assignMany reach nextRanks (List.zipWith (fun o s => o + ri * s) old sel)

/-- mutable state of the bottom-up pass: `q_values`, `experienced_losses`, `cumulative_strategy`. -/
structure Up (α : Type) where
  q : List (List α)
  exp : List α
  strategy : List (List α)

/-- one step of the bottom-up pass. -/
def RM.bottomUpStep (rm : RM α) (weight : α) (reach : List α) (st : Up α) (i : Nat) : Except Err (Up α) := do
  let (mc, nextPids, nextRanks) ← rm.nodeInfo i
  let vals ← nextRanks.mapM (getIdx st.exp)
  let qrow0 ← getIdx st.q i
  let qrow ← assignMany qrow0 nextPids vals
  let sigma ← rm.regretMatching mc
  let e := listSum (List.zipWith (· * ·) qrow sigma)
  let exp' ← setIdx st.exp i e
  let ri ← getIdx reach i
  let srow ← getIdx st.strategy i
  let strategy' ← setIdx st.strategy i (List.zipWith (fun s x => s + weight * x * ri) srow sigma)
  let q' ← setIdx st.q i qrow
  pure { q := q', exp := exp', strategy := strategy' }

/-- `regret_min_iteration(terminal_losses, used_actions)`. -/
def RM.iterate [NatCast α] (rm : RM α) (terminal : List α) (used : List (List Nat)) : Except Err (RM α) := do
  let it := rm.iteration + 1
  let usedRanks ← used.mapM (fun x => do let id ← rm.getMetacoalitionId x; rm.rankOf id)
  let rhs ← broadcastTo terminal usedRanks.length
  let exp0 ← assignMany (zeros rm.V) usedRanks rhs
  let reach0 ← setIdx (zeros (α := α) rm.V) 0 1
  let reach ← (List.range rm.R).foldlM rm.topDownStep reach0
  let weight : α := if rm.plus then (it : α) else 1
  let up ← (List.range rm.R).reverse.foldlM (rm.bottomUpStep weight reach)
              { q := zeros2 rm.R rm.m, exp := exp0, strategy := rm.strategy }
  -- self.cumulative_regret += q_values - experienced_losses[np.arange(R), None]
  let regret' ← (List.range rm.R).mapM (fun i => do
    let r ← getIdx rm.regret i
    let q ← getIdx up.q i
    let e ← getIdx up.exp i
    pure (List.zipWith (fun r q => r + (q - e)) r q))
  let regret'' := if rm.plus then regret'.map (·.map posPart) else regret'
  pure { rm with regret := regret'', strategy := up.strategy, iteration := it }

end arith

/-! ### save / load -/

/-- `params.json`, `regret.npy`, `strategy.npy`. -/
structure Saved (α : Type) where
  iteration : Nat
  n : Nat
  limit : Nat
  plus : Bool
  regret : List (List α)
  strategy : List (List α)

def RM.save (rm : RM α) : Saved α :=
  { iteration := rm.iteration, n := rm.n, limit := rm.limit, plus := rm.plus,
    regret := rm.regret, strategy := rm.strategy }

/-- `GameRegretMinimizer.load`: the constructor on the stored parameters, then the three fields. -/
def RM.load [Zero α] (p : Policy) (s : Saved α) : Except Err (RM α) := do
  let rm ← RM.new (α := α) p s.n s.limit s.plus
  pure { rm with iteration := s.iteration, regret := s.regret, strategy := s.strategy }

end Regret
end ICG
