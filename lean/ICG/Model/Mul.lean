/-
  ICG.Model.Mul — the `multiplicative` sub-package (import-free): multiplicative_factor.py and the
  deterministic parts of max_xos_approximation.py.

  ## multiplicative_factor.py

  All four functions have one shape: two value vectors over the coalitions `1 … 2^n − 1`
  (`get_values()[1:]`, `get_lower_bounds()[1:]`, `get_upper_bounds()[1:]`), then

      assert np.all(num >= den);  assert np.all(den > 0);  return np.max(num / den)

  mirrored by `factor num den`:
  * `num >= den` is formed first and BROADCASTS (`broadcast`): equal lengths compare row by row, a
    one-element vector (a 1-player game) is stretched against the other, every other shape mismatch
    raises ValueError before any assertion is looked at;
  * the second assertion looks at `den` alone; both assertions raise AssertionError (`Err.assert`);
  * `np.max` of an empty array (`n = 0`) raises ValueError (`Err.value`);
  * the quotients are formed only after `den > 0` has been checked for every row: there is no division
    by zero in the model and no value for it;
  * `game.get_values()` of the real class raises ValueError unless every coalition is known
    (`Table.getValues none`); `get_lower_bounds` / `get_upper_bounds` never raise.  The order of the two
    reads is the code's (both raise the same kind).
  NaN: `factorN` is the same function on vectors whose entries may be NaN (`none`): a comparison with NaN
  is False, so either assertion fails (`geN`, `posN`); ±inf is not modelled (`inf/inf` would be NaN).

  ## max_xos_approximation.py

  A `Game` is what the code reads from it: `number_of_players` and `get_value`, here
  `get : Nat → Except Err α` (the real class: `Table.getValue` — ValueError for an unknown coalition,
  IndexError for an id ≥ 2^n; a complete game `v`: `okGet v`).  Every `get_value` call of the code is a
  `get` call of the model, in the code's order.

  * `_get_k_r_values(n)`: `k_values = [2^k·√n while 2^k·√n < n] ++ [n]`, `r_values = [2^r while 2^r < n²]
    ++ [n²]`.  The model returns the k-values symbolically (`KVal.sqrtMul k` for `2^k·√n`, `KVal.full` for
    `n`) and the r-values as naturals.  ABSTRACTED: `math.sqrt`.  The loop test `2^k·√n < n` is taken as
    `4^k < n` (equivalent over the reals; equal in float64 for every n < 2^50), and every later comparison
    that involves a k-value is decided by squaring (`geSqrt`, `KVal.reached`), i.e. exactly over the
    reals, whereas the code compares rounded float64 products/quotients.
  * `_approx_xos_subroutine(game, coalition)` (`approxXos`): marginal contributions along the players of
    the coalition in increasing order, `get_value(extended)` before `get_value(sub)`, the queried ids.
    The additive vector is returned as the list of `(player, marginal)` pairs (`avVector` pads it with
    zeros to length n like `np.zeros(n)`).
  * `_max_subroutine(game, coalition, size, eps)` (`maxSubroutine`): the greedy with the geometric
    threshold schedule.  `size` enters only through the test `len(constructed) + 1 >= size`, given here as
    a predicate `reached : Nat → Bool` on `len + 1` (`fun m => decide (s ≤ m)` for an integer size,
    `KVal.reached n kv` for a k-value).  The generator `(coalition - constructed).players` is created once
    per pass of the `for`, from the coalition constructed so far; `constructed += player` inside the pass
    does not change it (`maxPass` runs over a fixed player list).  TERMINATION: the `while` runs as long as
    `limit·(1−eps)^j ≥ eps·initial/n`; the model takes a `fuel` (maximal number of passes) and answers
    `Err.other` when it runs out — `ICG.Mul.maxSubroutine_terminates` proves that this never happens when
    `0 < eps` and `n < fuel·eps²` (the driver uses the least such fuel, `AtRat.fuelFor`), and
    `ICG.Mul.maxSubroutine_fuel_irrelevant` that the answer does not depend on the fuel once it suffices.  For `eps ≤ 0` the Python loop need not
    terminate; that is outside the model (the model answers `Err.other`).
    With rational `eps` the schedule `reduced_limit *= (1 - eps)` is exact over `Rat`; in float64 it is
    exact only while the products stay representable.
  * `_compute_candidate_coalitions_and_query_values` (`candidates`): per cell `(k, r)` the light players
    (`singleton < k_values[k]·r_values[r]/√n`), one `_max_subroutine`, then the `while
    get_value(coalition) >= k_values[k]·r_values[r]/(2α)` loop (`candLoop`).  An iteration that returns the
    same coalition again repeats forever in Python; the model detects the repetition and answers
    `Err.other` ("does not return"); otherwise the coalition strictly shrinks, so `size coalition + 1`
    iterations suffice (the fuel used; `ICG.Mul.candLoop_ok` / `maxXos_returns`: for α > 0, β ≥ 1/2, ε > 0,
    v(∅) = 0 and singletons ≥ 1 the loop returns).  For β < 1/2 the Python loop can repeat forever.  ZeroDivisionError (`α = 0`, `α·β = 0`, `n = 0` where `sqrt(0) = 0.0`)
    is `Err.other` as well.  `np.unique` of the concatenated queried ids: increasing, without repetition.
  * `_compute_approximation` (`computeApproximation`): for every non-empty coalition the maximum of the
    largest singleton value inside it and of `len(cand & coalition) * r / (4αβ)` over all candidates,
    where `r` is the loop INDEX of the r-axis, as in the code, not `r_values[r]`.
  * `compute_max_xos_approximation` (`maxXos`): the composition.
-/
import ICG.Model.Shapley
namespace ICG
namespace Mul

/-! ### multiplicative_factor.py -/
section factor
variable {α : Type}

/-- numpy broadcasting of two 1-d arrays inside an element-wise operation: the rows that are combined,
    or ValueError ("operands could not be broadcast together"). -/
def broadcast {β γ : Type} (a : List β) (b : List γ) : Except Err (List (β × γ)) :=
  if a.length = b.length then .ok (a.zip b)
  else match a, b with
    | [x], _ => .ok (b.map (fun y => (x, y)))
    | _, [y] => .ok (a.map (fun x => (x, y)))
    | _, _ => .error .value

variable [LE α] [DecidableLE α] [LT α] [DecidableLT α] [Zero α] [Div α] [Max α]

/-- `assert np.all(num >= den); assert np.all(den > 0); return np.max(num / den)`. -/
def factor (num den : List α) : Except Err α :=
  match broadcast num den with
  | .error e => .error e
  | .ok pairs =>
    if pairs.all (fun p => decide (p.2 ≤ p.1)) then
      if den.all (fun d => decide (0 < d)) then
        -- every divisor below is one of the entries of `den`, all positive
        match listMax? (pairs.map (fun p => p.1 / p.2)) with
        | some m => .ok m
        | none => .error .value
      else .error .assert
    else .error .assert

/-- `mul_factor_to_approximation(game, approximated_game)`. -/
def toApproximation (game approx : Table α) : Except Err α :=
  match approx.getValues none with
  | .error e => .error e
  | .ok a =>
    match game.getValues none with
    | .error e => .error e
    | .ok o => factor (o.drop 1) (a.drop 1)

/-- `mul_factor_upper_to_approximation(approximated_game, incomplete_game)`. -/
def upperToApproximation (approx inc : Table α) : Except Err α :=
  match approx.getValues none with
  | .error e => .error e
  | .ok a => factor (inc.getUpperBounds.drop 1) (a.drop 1)

/-- `mul_factor_to_lower_bound(game, incomplete_game)`. -/
def toLowerBound (game inc : Table α) : Except Err α :=
  match game.getValues none with
  | .error e => .error e
  | .ok o => factor (o.drop 1) (inc.getLowerBounds.drop 1)

/-- `mul_factor_lower_upper_bound(incomplete_game)`. -/
def lowerUpperBound (inc : Table α) : Except Err α :=
  factor (inc.getUpperBounds.drop 1) (inc.getLowerBounds.drop 1)

/-! #### the same on vectors that may hold NaN (`none`) -/

/-- `a >= b` on floats: False as soon as one side is NaN. -/
def geN : Option α → Option α → Bool
  | some a, some b => decide (b ≤ a)
  | _, _ => false

/-- `b > 0` on floats: False for NaN. -/
def posN : Option α → Bool
  | some b => decide (0 < b)
  | none => false

/-- `a / b` on floats that may be NaN; `none` = NaN.  Only called on rows that passed `posN`. -/
def quotN : Option α × Option α → Option α
  | (some a, some b) => some (a / b)
  | _ => none

/-- all entries of a list of optional values, or `none` when one is missing -/
def allSome {β : Type} : List (Option β) → Option (List β)
  | [] => some []
  | none :: _ => none
  | some x :: l => (allSome l).map (x :: ·)

/-- `factor` on vectors with NaN entries.  `Err.nan` would be a NaN reaching `np.max` — it cannot
    (`ICG.Mul.factorN_ne_nan`): both assertions are False on a row that holds a NaN. -/
def factorN (num den : List (Option α)) : Except Err α :=
  match broadcast num den with
  | .error e => .error e
  | .ok pairs =>
    if pairs.all (fun p => geN p.1 p.2) then
      if den.all posN then
        match allSome (pairs.map quotN) with
        | none => .error .nan
        | some qs =>
          match listMax? qs with
          | some m => .ok m
          | none => .error .value
      else .error .assert
    else .error .assert

end factor

/-! ### max_xos_approximation.py -/

/-- a complete game as a `get_value`: never raises. -/
def okGet {α : Type} (v : Nat → α) : Nat → Except Err α := fun c => .ok (v c)

/-- one entry of `k_values`: `2^k·√n` or (the last one) `n`. -/
inductive KVal where
  | sqrtMul (k : Nat)
  | full
  deriving DecidableEq, Repr

/-- the exponents `k = 0, 1, …` with `2^k·√n < n`, i.e. `4^k < n`. -/
def kExps (n : Nat) : List Nat := (List.range n).takeWhile (fun k => 4 ^ k < n)

/-- `k_values` of `_get_k_r_values(n)`. -/
def kVals (n : Nat) : List KVal := (kExps n).map KVal.sqrtMul ++ [KVal.full]

/-- `r_values` of `_get_k_r_values(n)`: the powers `2^r < n²`, then `n²`. -/
def rVals (n : Nat) : List Nat :=
  ((List.range (2 * n)).takeWhile (fun r => 2 ^ r < n ^ 2)).map (fun r => 2 ^ r) ++ [n ^ 2]

/-- the test `m >= size` for `size` a k-value and `m` a natural number (`m = len(constructed) + 1`):
    `m ≥ 2^k·√n ⇔ m² ≥ 4^k·n`. -/
def KVal.reached (n : Nat) : KVal → Nat → Bool
  | .sqrtMul k, m => decide (4 ^ k * n ≤ m * m)
  | .full, m => decide (n ≤ m)

section xos
variable {α : Type}

/-- `_approx_xos_subroutine` along a list of players, starting from the coalition `ext` built so far:
    the `(player, marginal)` pairs and the queried ids. -/
def approxXosGo [Sub α] (get : Nat → Except Err α) : List Nat → Nat → Except Err (List (Nat × α) × List Nat)
  | [], _ => .ok ([], [])
  | p :: ps, ext =>
    let ext' := addPlayer ext p
    match get ext' with
    | .error e => .error e
    | .ok a =>
      match get ext with
      | .error e => .error e
      | .ok b =>
        match approxXosGo get ps ext' with
        | .error e => .error e
        | .ok (av, qs) => .ok ((p, a - b) :: av, ext' :: qs)

/-- `_approx_xos_subroutine(game, coalition)`. -/
def approxXos [Sub α] (get : Nat → Except Err α) (coalition : Nat) : Except Err (List (Nat × α) × List Nat) :=
  approxXosGo get (players coalition) 0

/-- the additive vector as the code holds it: `np.zeros(n)` with the marginals written at the players. -/
def avVector [Zero α] (n : Nat) (av : List (Nat × α)) : List α :=
  (List.range n).map (fun p => match av.lookup p with | some x => x | none => 0)

variable [LE α] [DecidableLE α] [Sub α] [Mul α] [Div α] [One α] [NatCast α] [Max α]

/-- one pass of `for player in (coalition - constructed).players` over the player list fixed at the start
    of the pass.  Returns the coalition constructed so far, the ids queried in this pass, and whether the
    `return` inside the loop was taken. -/
def maxPass (get : Nat → Except Err α) (reached : Nat → Bool) (limit : α) :
    List Nat → Nat → Except Err (Nat × List Nat × Bool)
  | [], c => .ok (c, [], false)
  | p :: ps, c =>
    if reached (size c + 1) then .ok (c, [], true)
    else
      let x := addPlayer c p
      match get x with
      | .error e => .error e
      | .ok a =>
        match get c with
        | .error e => .error e
        | .ok b =>
          match maxPass get reached limit ps (if limit ≤ a - b then x else c) with
          | .error e => .error e
          | .ok (r, qs, stop) => .ok (r, x :: qs, stop)

/-- the `while reduced_limit >= eps * initial_limit / n` loop; `thr` is the right-hand side, `q = 1 − eps`.
    At most `fuel` passes; `Err.other` when the fuel does not suffice. -/
def maxLoop (get : Nat → Except Err α) (coalition : Nat) (reached : Nat → Bool) (thr q : α) :
    Nat → α → Nat → Except Err (Nat × List Nat)
  | 0, limit, c => if thr ≤ limit then .error .other else .ok (c, [])
  | fuel + 1, limit, c =>
    if thr ≤ limit then
      match maxPass get reached limit (players (diff coalition c)) c with
      | .error e => .error e
      | .ok (c', qs, stop) =>
        if stop then .ok (c', qs)
        else
          match maxLoop get coalition reached thr q fuel (limit * q) c' with
          | .error e => .error e
          | .ok (r, qs') => .ok (r, qs ++ qs')
    else .ok (c, [])

/-- `_max_subroutine(game, coalition, size, eps)`; `n = game.number_of_players`. -/
def maxSubroutine (get : Nat → Except Err α) (n : Nat) (coalition : Nat) (reached : Nat → Bool) (eps : α)
    (fuel : Nat) : Except Err (Nat × List Nat) :=
  if coalition = 0 then .ok (0, [])
  else
    match mapE (fun p => get (singleton p)) (players coalition) with
    | .error e => .error e
    | .ok singles =>
      if singles.all (fun s => decide (1 ≤ s)) then
        match listMax? singles with
        | none => .error .value
        | some init =>
          -- a game without players cannot answer `get_value` of a singleton: the real class has raised
          -- IndexError above; a stand-in that answers anyway is not modelled
          if n = 0 then .error .other
          else maxLoop get coalition reached (eps * init / (n : α)) (1 - eps) fuel init 0
      else .error .assert

variable [Zero α] [Add α] [DecidableEq α]

/-- `x >= c·√n`, decided by squaring (no square root in the model). -/
def geSqrt (x c : α) (n : Nat) : Bool :=
  if 0 ≤ c then decide (0 ≤ x) && decide (c * c * (n : α) ≤ x * x)
  else decide (0 ≤ x) || decide (x * x ≤ c * c * (n : α))

/-- `singleton >= k_values[k] * r_values[r] / sqrt(n)`:  `2^k·√n·r/√n = 2^k·r`,  `n·r/√n = r·√n`. -/
def heavy (n : Nat) (kv : KVal) (r : Nat) (s : α) : Bool :=
  match kv with
  | .sqrtMul k => decide (((2 ^ k * r : Nat) : α) ≤ s)
  | .full => geSqrt s (r : α) n

/-- `x >= k_values[k] * r_values[r] / (2 * alpha)` for `alpha ≠ 0`:
    `2^k·√n·r/(2α) = (2^k·r/(2α))·√n`,  `n·r/(2α)` is rational. -/
def geThreshold (n : Nat) (kv : KVal) (r : Nat) (alpha x : α) : Bool :=
  match kv with
  | .sqrtMul k => geSqrt x (((2 ^ k * r : Nat) : α) / (((2 : Nat) : α) * alpha)) n
  | .full => decide (((n * r : Nat) : α) / (((2 : Nat) : α) * alpha) ≤ x)

/-- `for player in coalition.players: if not av[player] >= r/(4αβ): subcoalition -= player`. -/
def subOf (thr : α) (av : List (Nat × α)) (coalition : Nat) : Nat :=
  av.foldl (fun s (pa : Nat × α) => if thr ≤ pa.2 then s else removePlayer s pa.1) coalition

/-- the `while game.get_value(coalition) >= k·r/(2α)` loop of one cell: the candidate coalitions appended
    and the ids queried.  `Err.other`: ZeroDivisionError, or the loop state repeats (Python does not
    return), or out of fuel (never with `fuel = size coalition + 1`: `ICG.Mul.candLoop_ok`). -/
def candLoop (get : Nat → Except Err α) (n : Nat) (alpha beta eps : α) (kv : KVal) (r : Nat)
    (fuelMax : Nat) : Nat → Nat → Except Err (List Nat × List Nat)
  | 0, _ => .error .other
  | fuel + 1, c =>
    match get c with
    | .error e => .error e
    | .ok x =>
      if alpha = 0 then .error .other
      else if geThreshold n kv r alpha x then
        match approxXos get c with
        | .error e => .error e
        | .ok (av, q1) =>
          if c ≠ 0 ∧ alpha * beta = 0 then .error .other
          else
            let sub := subOf ((r : α) / (((4 : Nat) : α) * alpha * beta)) av c
            match maxSubroutine get n (diff c sub) (kv.reached n) eps fuelMax with
            | .error e => .error e
            | .ok (c', q2) =>
              if c' = c then .error .other
              else
                match candLoop get n alpha beta eps kv r fuelMax fuel c' with
                | .error e => .error e
                | .ok (cs, q3) => .ok (sub :: cs, q1 ++ q2 ++ q3)
      else .ok ([], [])

/-- `np.arange(n)[light_players[k, r].astype(bool)]`: the players whose singleton value is below the
    heavy threshold (`singles` has `n` entries). -/
def lightPlayers (n : Nat) (kv : KVal) (r : Nat) (singles : List α) : List Nat :=
  (List.range n).filter (fun p => match singles[p]? with
                                  | some s => !heavy n kv r s
                                  | none => false)

/-- one cell `(k, r)` of `_compute_candidate_coalitions_and_query_values`. -/
def candCell (get : Nat → Except Err α) (n : Nat) (alpha beta eps : α) (fuelMax : Nat) (singles : List α)
    (kv : KVal) (r : Nat) : Except Err (List Nat × List Nat) :=
  if n = 0 then .error .other          -- `… / sqrt(0)`: ZeroDivisionError
  else
    let remaining := fromPlayers (lightPlayers n kv r singles)
    match maxSubroutine get n remaining (kv.reached n) eps fuelMax with
    | .error e => .error e
    | .ok (c, q0) =>
      match candLoop get n alpha beta eps kv r fuelMax (size c + 1) c with
      | .error e => .error e
      | .ok (cs, q1) => .ok (cs, q0 ++ q1)

/-- `np.unique` of ids below `2^n`: increasing, each once. -/
def uniqueIds (n : Nat) (q : List Nat) : List Nat := (List.range (2 ^ n)).filter (fun c => q.contains c)

/-- `_compute_candidate_coalitions_and_query_values`: the `len(k_values) × len(r_values)` array of candidate
    lists (row-major) and `np.unique` of the queried ids. -/
def candidates (get : Nat → Except Err α) (n : Nat) (alpha beta eps : α) (fuelMax : Nat) :
    Except Err (List (List (List Nat)) × List Nat) :=
  match mapE (fun p => get (singleton p)) (List.range n) with
  | .error e => .error e
  | .ok singles =>
    if singles.all (fun s => decide (1 ≤ s)) then
      match mapE (fun kv => mapE (fun r => candCell get n alpha beta eps fuelMax singles kv r) (rVals n))
                 (kVals n) with
      | .error e => .error e
      | .ok cells =>
        .ok (cells.map (fun row => row.map Prod.fst),
             uniqueIds n (cells.flatMap (fun row => row.flatMap Prod.snd)))
    else .error .assert

/-- the inner `for candidate_coalition in candidate_coalitions[k, r]` with `u = 4αβ ≠ 0`. -/
def foldCell [LT α] [DecidableLT α] (u : α) (c r : Nat) (cell : List Nat) (m : α) : α :=
  cell.foldl (fun m cand =>
    let new := ((size (inter cand c) * r : Nat) : α) / u
    if m < new then new else m) m

/-- `for r in range(len(r_values))` over one row of the candidate array, `r` counting from `r0`. -/
def foldRow [LT α] [DecidableLT α] (u : α) (c : Nat) : Nat → List (List Nat) → α → α
  | _, [], m => m
  | r, cell :: row, m => foldRow u c (r + 1) row (foldCell u c r cell m)

/-- the value `_compute_approximation` writes for a non-empty coalition, starting from the largest
    singleton value `ms`. -/
def approxValue [LT α] [DecidableLT α] (u : α) (cands : List (List (List Nat))) (c : Nat) (ms : α) : α :=
  cands.foldl (fun m row => foldRow u c 0 row m) ms

/-- `singleton_values[player]` (numpy indexing: IndexError out of range). -/
def lookupE (singles : List α) (p : Nat) : Except Err α :=
  match singles[p]? with
  | some s => .ok s
  | none => .error .index

/-- `_compute_approximation(game, candidate_coalitions, k_values, r_values, alpha, beta)`; the two value
    lists only give the shape of the candidate array, which `cands` carries itself. -/
def computeApproximation [LT α] [DecidableLT α] (get : Nat → Except Err α) (n : Nat)
    (cands : List (List (List Nat))) (alpha beta : α) : Except Err (List α) :=
  match mapE (fun p => get (singleton p)) (List.range n) with
  | .error e => .error e
  | .ok singles =>
    if singles.all (fun s => decide (1 ≤ s)) then
      -- `… / (4 * alpha * beta)` is evaluated once there is a non-empty coalition and a candidate
      if n ≠ 0 ∧ (cands.any fun row => row.any fun cell => !cell.isEmpty) ∧ ((4 : Nat) : α) * alpha * beta = 0 then
        .error .other
      else
        mapE (fun c =>
          if c = 0 then .ok 0
          else
            match mapE (lookupE singles) (players c) with
            | .error e => .error e
            | .ok inside =>
              match listMax? inside with
              | none => .error .value
              | some ms => .ok (approxValue (((4 : Nat) : α) * alpha * beta) cands c ms)) (allCoalitions n)
    else .error .assert

/-- `compute_max_xos_approximation(game, alpha, beta, eps)`: the queried ids and the values of the
    approximated game. -/
def maxXos [LT α] [DecidableLT α] (get : Nat → Except Err α) (n : Nat) (alpha beta eps : α) (fuelMax : Nat) :
    Except Err (List Nat × List α) :=
  match candidates get n alpha beta eps fuelMax with
  | .error e => .error e
  | .ok (cands, q) =>
    match computeApproximation get n cands alpha beta with
    | .error e => .error e
    | .ok vals => .ok (q, vals)

end xos

/-! ### the instantiation the driver runs: core `Rat` with core's own instances -/
namespace AtRat

def factor (num den : List Rat) : Except Err Rat := Mul.factor num den
def factorN (num den : List (Option Rat)) : Except Err Rat := Mul.factorN num den
def toApproximation (game approx : Table Rat) : Except Err Rat := Mul.toApproximation game approx
def upperToApproximation (approx inc : Table Rat) : Except Err Rat := Mul.upperToApproximation approx inc
def toLowerBound (game inc : Table Rat) : Except Err Rat := Mul.toLowerBound game inc
def lowerUpperBound (inc : Table Rat) : Except Err Rat := Mul.lowerUpperBound inc

/-- the least `f` with `n < f·eps²` (`0 < eps`): enough passes for `maxLoop`
    (`ICG.Mul.maxSubroutine_terminates_atRat`). -/
def fuelFor (n : Nat) (eps : Rat) : Nat :=
  if 0 < eps then ((n : Rat) / (eps * eps)).floor.toNat + 1 else 0

def approxXos (t : Table Rat) (c : Nat) : Except Err (List (Nat × Rat) × List Nat) := Mul.approxXos t.getValue c
def maxSubroutine (t : Table Rat) (c : Nat) (reached : Nat → Bool) (eps : Rat) : Except Err (Nat × List Nat) :=
  Mul.maxSubroutine t.getValue t.n c reached eps (fuelFor t.n eps)
def candidates (t : Table Rat) (alpha beta eps : Rat) : Except Err (List (List (List Nat)) × List Nat) :=
  Mul.candidates t.getValue t.n alpha beta eps (fuelFor t.n eps)
def computeApproximation (t : Table Rat) (cands : List (List (List Nat))) (alpha beta : Rat) :
    Except Err (List Rat) := Mul.computeApproximation t.getValue t.n cands alpha beta
def maxXos (t : Table Rat) (alpha beta eps : Rat) : Except Err (List Nat × List Rat) :=
  Mul.maxXos t.getValue t.n alpha beta eps (fuelFor t.n eps)

end AtRat

end Mul
end ICG
