/-
  Property C04 — the approximate bounds for superadditive monotone (non-increasing) games.

  "For every superadditive and monotone non-increasing game v (x ⊆ y ⇒ v(y) ≤ v(x)), every knowledge set
   containing ∅, the singletons and N, and every number of repetitions r ≥ 0,
   `compute_bounds_superadditive_monotone_approx_cached(game, r)`: (sound) lower ≤ v ≤ upper on every
   coalition, revealed coalitions exact, knowledge unchanged; (tighter) its interval lies inside the
   exact superadditive interval; (monotone in r) more repetitions never widen an interval; (shape) the
   lower bounds are non-increasing along inclusion, and the upper bound of an unknown coalition is at most
   the value of each of its known non-empty proper sub-coalitions and at most v(T) − lower(T ∖ c) for each
   known proper superset T.  The registered computers `sam_apx_1/10/100/1000` are the instances
   r = 1, 10, 100, 1000."

  Theorems about the MODEL function `sam r` (ICG/Model/Bounds.lean), composing `sam_eq_spec`
  (ICG.Lemmas.RefineSam/RefineCor) with ICG.Lemmas.SpecSAM.  All `n`, all `r`, every linearly ordered
  abelian group.  Each theorem lists exactly the hypotheses it uses (`tighter_than_sa` and the two upper
  caps do not need `MonoDec`; the caps do not even need `SA`).
-/
import ICG.Lemmas.BoundsCommon

namespace ICG.C04
open ICG Table
open ICG.BoundsCommon

variable {α : Type} [AddCommGroup α] [LinearOrder α] [IsOrderedAddMonoid α]

omit [IsOrderedAddMonoid α] in
/-- the run of `sam r` in terms of the specification at the game `v` the table agrees with -/
theorem run_eq (r : Nat) (t : Table α) (v : Nat → α) (hmin : MinInfo t.n t.known) (hag : t.Agree v) :
    ∃ t', sam r t = .ok t' ∧ t'.n = t.n ∧ t'.known = t.known ∧
      (∀ c, c < 2 ^ t.n → t'.lo c = samB t.n t.known v r c ∧ t'.hi c = samUp t.n t.known v r c) ∧
      (∀ c, 2 ^ t.n ≤ c → t'.lo c = t.lo c ∧ t'.hi c = t.hi c) :=
  run_spec_agree (.sam r) t hmin hag

/-- **C04_sound r.**  NO assumption on the stale content of unknown rows. -/
theorem sound (r : Nat) (t : Table α) (v : Nat → α) (hsa : SA t.n v) (hmd : MonoDec t.n v)
    (hmin : MinInfo t.n t.known) (hag : t.Agree v) :
    ∃ t', sam r t = .ok t' ∧ t'.n = t.n ∧ t'.known = t.known ∧
      ∀ c, c < 2 ^ t.n → t'.lo c ≤ v c ∧ v c ≤ t'.hi c ∧ t'.lo c ≤ t'.hi c ∧
        (t.known c = true → t'.lo c = v c ∧ t'.hi c = v c) :=
  run_sound (.sam r) t hsa (fun _ => hmd) hmin hag

/-- **C04, registered instances**: `sam_apx_1`, `sam_apx_10`, `sam_apx_100`, `sam_apx_1000`
    (bounds.py:115) are sound. -/
theorem registered_sound (t : Table α) (v : Nat → α) (hsa : SA t.n v) (hmd : MonoDec t.n v)
    (hmin : MinInfo t.n t.known) (hag : t.Agree v) :
    ∀ r ∈ [1, 10, 100, 1000], ∃ t', sam r t = .ok t' ∧ SoundFor t t' v :=
  fun r _ => sound r t v hsa hmd hmin hag

/-- **C04_tighter_than_sa r.**  The SAM interval lies inside the exact superadditive interval computed
    by `sac` (and by `sa`: C03) from the same table.  Needs `SA` only. -/
theorem tighter_than_sa (r : Nat) (t : Table α) (v : Nat → α) (hsa : SA t.n v)
    (hmin : MinInfo t.n t.known) (hag : t.Agree v) :
    ∃ ts tm, sac t = .ok ts ∧ sam r t = .ok tm ∧
      ∀ c, c < 2 ^ t.n → ts.lo c ≤ tm.lo c ∧ tm.hi c ≤ ts.hi c := by
  obtain ⟨ts, h1, _, _, h4, _⟩ := run_spec_agree .sac t hmin hag
  obtain ⟨tm, g1, _, _, g4, _⟩ := run_eq r t v hmin hag
  refine ⟨ts, tm, h1, g1, fun c hc => ?_⟩
  rw [(h4 c hc).1, (h4 c hc).2, (g4 c hc).1, (g4 c hc).2]
  exact ⟨lo_le_samB hsa hmin r hc, samUp_le_upSpec hsa hmin r hc⟩

/-- the same against the reference computer -/
theorem tighter_than_sa_ref (r : Nat) (t : Table α) (v : Nat → α) (hsa : SA t.n v)
    (hmin : MinInfo t.n t.known) (hag : t.Agree v) :
    ∃ ts tm, sa t = .ok ts ∧ sam r t = .ok tm ∧
      ∀ c, c < 2 ^ t.n → ts.lo c ≤ tm.lo c ∧ tm.hi c ≤ ts.hi c := by
  obtain ⟨ts, tm, h1, h2, h3⟩ := tighter_than_sa r t v hsa hmin hag
  obtain ⟨t', a1, a2⟩ := sa_sac_agree enumFacts t hmin hag.inv
  rw [h1] at a2; cases a2
  exact ⟨ts, tm, a1, h2, h3⟩

/-- **C04_rep_mono.**  More repetitions never widen an interval. -/
theorem rep_mono {r r' : Nat} (hr : r ≤ r') (t : Table α) (v : Nat → α) (hsa : SA t.n v)
    (hmd : MonoDec t.n v) (hmin : MinInfo t.n t.known) (hag : t.Agree v) :
    ∃ t1 t2, sam r t = .ok t1 ∧ sam r' t = .ok t2 ∧
      ∀ c, c < 2 ^ t.n → t1.lo c ≤ t2.lo c ∧ t2.hi c ≤ t1.hi c := by
  obtain ⟨t1, h1, _, _, h4, _⟩ := run_eq r t v hmin hag
  obtain ⟨t2, g1, _, _, g4, _⟩ := run_eq r' t v hmin hag
  refine ⟨t1, t2, h1, g1, fun c hc => ?_⟩
  rw [(h4 c hc).1, (h4 c hc).2, (g4 c hc).1, (g4 c hc).2]
  exact sam_mono_rep hsa hmd hmin hr hc

/-- **C04_lower_antitone.**  After `sam r` the lower bounds are non-increasing along inclusion, over all
    pairs of coalitions of the game (known or not). -/
theorem lower_antitone (r : Nat) (t : Table α) (v : Nat → α) (hsa : SA t.n v) (hmd : MonoDec t.n v)
    (hmin : MinInfo t.n t.known) (hag : t.Agree v) :
    ∃ t', sam r t = .ok t' ∧ ∀ x c, c < 2 ^ t.n → x &&& c = x → t'.lo c ≤ t'.lo x := by
  obtain ⟨t', h1, _, _, h4, _⟩ := run_eq r t v hmin hag
  refine ⟨t', h1, fun x c hc hsub => ?_⟩
  rw [(h4 c hc).1, (h4 x (sub_lt_two_pow hsub hc)).1]
  exact samB_antitone hsa hmd r hsub hc

/-- **C04_upper_le_sub.**  The upper bound of an unknown coalition is at most the value of each of its
    known non-empty proper sub-coalitions.  (`MinInfo` and `Inv` only.) -/
theorem upper_le_sub (r : Nat) (t : Table α) (hmin : MinInfo t.n t.known) (hinv : t.Inv) :
    ∃ t', sam r t = .ok t' ∧ ∀ c x, c < 2 ^ t.n → t.known c = false → x &&& c = x → x ≠ 0 → x ≠ c →
      t.known x = true → t'.hi c ≤ t.lo x := by
  obtain ⟨t', h1, _, _, h4, _⟩ := run_spec (.sam r) t hmin hinv
  refine ⟨t', h1, fun c x hc hk hsub hx0 hxc hkx => ?_⟩
  rw [(h4 c hc).2]
  exact samUp_le_sub hmin r hc hk hsub hx0 hxc hkx

/-- **C04_upper_le_super.**  The upper bound of an unknown coalition is at most
    `value T − (computed lower bound of T ∖ c)` for each known proper superset `T` within the game. -/
theorem upper_le_super (r : Nat) (t : Table α) (hmin : MinInfo t.n t.known) (hinv : t.Inv) :
    ∃ t', sam r t = .ok t' ∧ ∀ c T, c < 2 ^ t.n → t.known c = false → T < 2 ^ t.n → c &&& T = c →
      T ≠ c → t.known T = true → t'.hi c ≤ t.lo T - t'.lo (T - c) := by
  obtain ⟨t', h1, _, _, h4, _⟩ := run_spec (.sam r) t hmin hinv
  refine ⟨t', h1, fun c T hc hk hT hsub hTc hkT => ?_⟩
  rw [(h4 c hc).2, (h4 (T - c) (by omega)).1]
  exact samUp_le_super hmin r hc hk hT hsub hTc hkT

/-! ### the hypotheses are satisfiable: `samT` = minimal information about `v c = −min(2, |c|)`,
    3 players over `Int`, stale junk in the three unknown pairs -/

example (r : Nat) : ∃ t', sam r Ex.samT = .ok t' ∧ SoundFor Ex.samT t' SAMExample.v :=
  sound r Ex.samT SAMExample.v Ex.samT_sa Ex.samT_md Ex.samT_min Ex.samT_agree

example : ∀ r ∈ [1, 10, 100, 1000], ∃ t', sam r Ex.samT' = .ok t' ∧ SoundFor Ex.samT' t' SAMExample.v :=
  registered_sound Ex.samT' SAMExample.v Ex.samT_sa Ex.samT_md SAMExample.minInfo' Ex.samT'_agree

example (r : Nat) : ∃ ts tm, sac Ex.samT = .ok ts ∧ sam r Ex.samT = .ok tm ∧
    ∀ c, c < 2 ^ 3 → ts.lo c ≤ tm.lo c ∧ tm.hi c ≤ ts.hi c :=
  tighter_than_sa r Ex.samT SAMExample.v Ex.samT_sa Ex.samT_min Ex.samT_agree

example : ∃ t1 t2, sam 1 Ex.samT = .ok t1 ∧ sam 10 Ex.samT = .ok t2 ∧
    ∀ c, c < 2 ^ 3 → t1.lo c ≤ t2.lo c ∧ t2.hi c ≤ t1.hi c :=
  rep_mono (by decide) Ex.samT SAMExample.v Ex.samT_sa Ex.samT_md Ex.samT_min Ex.samT_agree

example (r : Nat) : ∃ t', sam r Ex.samT = .ok t' ∧
    ∀ x c, c < 2 ^ 3 → x &&& c = x → t'.lo c ≤ t'.lo x :=
  lower_antitone r Ex.samT SAMExample.v Ex.samT_sa Ex.samT_md Ex.samT_min Ex.samT_agree

/-- the two caps at the unknown pair {0,2} (id 5): sub-coalition {2} (id 4), superset N (id 7) -/
example (r : Nat) : ∃ t', sam r Ex.samT = .ok t' ∧ t'.hi 5 ≤ Ex.samT.lo 4 := by
  obtain ⟨t', h1, h2⟩ := upper_le_sub r Ex.samT Ex.samT_min Ex.samT_agree.inv
  exact ⟨t', h1, h2 5 4 (by decide) (by decide) (by decide) (by decide) (by decide) (by decide)⟩

example (r : Nat) : ∃ t', sam r Ex.samT = .ok t' ∧ t'.hi 5 ≤ Ex.samT.lo 7 - t'.lo (7 - 5) := by
  obtain ⟨t', h1, h2⟩ := upper_le_super r Ex.samT Ex.samT_min Ex.samT_agree.inv
  exact ⟨t', h1, h2 5 7 (by decide) (by decide) (by decide) (by decide) (by decide) (by decide)⟩

end ICG.C04
