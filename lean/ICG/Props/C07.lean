/-
  Property C07 — more information never hurts.

  "Let v be superadditive (and monotone non-increasing for the SAM approximation) and K ⊆ K' two sets of
   revealed coalitions, both containing ∅, the singletons and N.  For each bound computer, the interval
   [lower(c), upper(c)] computed from v|K' is contained in the interval computed from v|K, for every
   coalition c.  Consequently every offered gap function is non-increasing along any sequence of
   reveals, is never negative, and is zero once every value is revealed."

  Theorems about the MODEL functions `sa`, `sac`, `sam r` (as `Computer.run`); all `n`, every linearly
  ordered abelian group.  This file: the interval statement, the reveal paths, and the gap statements at
  the level of the width vector `hi − lo` (row-wise).  The four gap *functions* of the package
  (exploitability, l1, l∞, l2²) are monotone functions of that vector: ICG/Props/C07Gaps.lean plugs
  `Nested` into ICG.Lemmas.GapMono.

  * `interval_mono` (+ `_sa`, `_sac`, `_sam`)
  * `Nested`, `Fresh`, `revealStep`, `revealRun`, `step_nested`, `path`, `path_total`
  * `gap_width_mono`, `gap_width_nonneg`, `gap_width_zero_full`, `path_width`
-/
import ICG.Lemmas.BoundsCommon

namespace ICG.C07
open ICG Table ICG.SpecSA
open ICG.BoundsCommon

variable {α : Type} [AddCommGroup α] [LinearOrder α] [IsOrderedAddMonoid α]

/-- **C07_interval_mono.**  `t'` knows at least what `t` knows (same game size), both tables hold `v` on
    their known rows — and anything on the others —, `v` is superadditive (and monotone non-increasing if
    `k` is the SAM approximation), `t` has minimal information.  Then the computer succeeds on both, and
    row by row the interval from `t'` lies inside the interval from `t` and still contains `v`. -/
theorem interval_mono (k : Computer) (t t' : Table α) (v : Nat → α) (hn : t'.n = t.n)
    (hle : KnownLe t.known t'.known) (hag : t.Agree v) (hag' : t'.Agree v) (hsa : SA t.n v)
    (hmd : k.NeedsMono → MonoDec t.n v) (hmin : MinInfo t.n t.known) :
    ∃ s s', k.run t = .ok s ∧ k.run t' = .ok s' ∧ s.n = t.n ∧ s'.n = t.n ∧
      ∀ c, c < 2 ^ t.n → s.lo c ≤ s'.lo c ∧ s'.lo c ≤ v c ∧ v c ≤ s'.hi c ∧ s'.hi c ≤ s.hi c := by
  have hmin' : MinInfo t'.n t'.known := by rw [hn]; exact minInfo_mono hmin hle
  obtain ⟨s, h1, h2, _, h4, _⟩ := run_spec_agree k t hmin hag
  obtain ⟨s', g1, g2, _, g4, _⟩ := run_spec_agree k t' hmin' hag'
  refine ⟨s, s', h1, g1, h2, by rw [g2, hn], ?_⟩
  intro c hc
  have hc' : c < 2 ^ t'.n := by rw [hn]; exact hc
  obtain ⟨m1, m2⟩ := k.spec_mono_known hsa hmd hmin hle hc
  obtain ⟨s1, s2⟩ := k.spec_sound hsa hmd (minInfo_mono hmin hle) (known := t'.known) hc
  rw [(h4 c hc).1, (h4 c hc).2, (g4 c hc').1, (g4 c hc').2, hn]
  exact ⟨m1, s1, s2, m2⟩

theorem interval_mono_sa (t t' : Table α) (v : Nat → α) (hn : t'.n = t.n)
    (hle : KnownLe t.known t'.known) (hag : t.Agree v) (hag' : t'.Agree v) (hsa : SA t.n v)
    (hmin : MinInfo t.n t.known) :
    ∃ s s', sa t = .ok s ∧ sa t' = .ok s' ∧ s.n = t.n ∧ s'.n = t.n ∧
      ∀ c, c < 2 ^ t.n → s.lo c ≤ s'.lo c ∧ s'.lo c ≤ v c ∧ v c ≤ s'.hi c ∧ s'.hi c ≤ s.hi c :=
  interval_mono .sa t t' v hn hle hag hag' hsa (fun h => h.elim) hmin

theorem interval_mono_sac (t t' : Table α) (v : Nat → α) (hn : t'.n = t.n)
    (hle : KnownLe t.known t'.known) (hag : t.Agree v) (hag' : t'.Agree v) (hsa : SA t.n v)
    (hmin : MinInfo t.n t.known) :
    ∃ s s', sac t = .ok s ∧ sac t' = .ok s' ∧ s.n = t.n ∧ s'.n = t.n ∧
      ∀ c, c < 2 ^ t.n → s.lo c ≤ s'.lo c ∧ s'.lo c ≤ v c ∧ v c ≤ s'.hi c ∧ s'.hi c ≤ s.hi c :=
  interval_mono .sac t t' v hn hle hag hag' hsa (fun h => h.elim) hmin

theorem interval_mono_sam (r : Nat) (t t' : Table α) (v : Nat → α) (hn : t'.n = t.n)
    (hle : KnownLe t.known t'.known) (hag : t.Agree v) (hag' : t'.Agree v) (hsa : SA t.n v)
    (hmd : MonoDec t.n v) (hmin : MinInfo t.n t.known) :
    ∃ s s', sam r t = .ok s ∧ sam r t' = .ok s' ∧ s.n = t.n ∧ s'.n = t.n ∧
      ∀ c, c < 2 ^ t.n → s.lo c ≤ s'.lo c ∧ s'.lo c ≤ v c ∧ v c ≤ s'.hi c ∧ s'.hi c ≤ s.hi c :=
  interval_mono (.sam r) t t' v hn hle hag hag' hsa (fun _ => hmd) hmin

/-- hypotheses satisfiable: `exT'` knows the pair {0,1} in addition; stale junk on the unknown rows -/
example : ∃ s s', sa Ex.exT = .ok s ∧ sa Ex.exT' = .ok s' ∧ s.n = 3 ∧ s'.n = 3 ∧
    ∀ c, c < 2 ^ 3 → s.lo c ≤ s'.lo c ∧ s'.lo c ≤ exV c ∧ exV c ≤ s'.hi c ∧ s'.hi c ≤ s.hi c :=
  interval_mono_sa Ex.exT Ex.exT' exV rfl Ex.exT_le Ex.exT_agree Ex.exT'_agree Ex.exT_sa Ex.exT_min

example (r : Nat) : ∃ s s', sam r Ex.samT = .ok s ∧ sam r Ex.samT' = .ok s' ∧ s.n = 3 ∧ s'.n = 3 ∧
    ∀ c, c < 2 ^ 3 → s.lo c ≤ s'.lo c ∧ s'.lo c ≤ SAMExample.v c ∧ SAMExample.v c ≤ s'.hi c ∧
      s'.hi c ≤ s.hi c :=
  interval_mono_sam r Ex.samT Ex.samT' SAMExample.v rfl Ex.samT_le Ex.samT_agree Ex.samT'_agree
    Ex.samT_sa Ex.samT_md Ex.samT_min

/-! ### the width vector -/

/-- the rows of `t'` are non-empty intervals inside the rows of `t` (same game size) -/
def Nested (t t' : Table α) : Prop :=
  t'.n = t.n ∧ ∀ c, c < 2 ^ t.n → t.lo c ≤ t'.lo c ∧ t'.lo c ≤ t'.hi c ∧ t'.hi c ≤ t.hi c

omit [AddCommGroup α] [IsOrderedAddMonoid α] in
theorem Nested.trans {t1 t2 t3 : Table α} (h12 : Nested t1 t2) (h23 : Nested t2 t3) : Nested t1 t3 := by
  refine ⟨by rw [h23.1, h12.1], fun c hc => ?_⟩
  obtain ⟨a1, _, a3⟩ := h12.2 c hc
  obtain ⟨b1, b2, b3⟩ := h23.2 c (by rw [h12.1]; exact hc)
  exact ⟨le_trans a1 b1, b2, le_trans b3 a3⟩

/-- **C07_gap_mono** (width level).  Under the hypotheses of `interval_mono` the results are `Nested`;
    hence every width shrinks: `hi' − lo' ≤ hi − lo`, row by row. -/
theorem gap_width_mono (k : Computer) (t t' : Table α) (v : Nat → α) (hn : t'.n = t.n)
    (hle : KnownLe t.known t'.known) (hag : t.Agree v) (hag' : t'.Agree v) (hsa : SA t.n v)
    (hmd : k.NeedsMono → MonoDec t.n v) (hmin : MinInfo t.n t.known) :
    ∃ s s', k.run t = .ok s ∧ k.run t' = .ok s' ∧ Nested s s' ∧
      ∀ c, c < 2 ^ t.n → s'.hi c - s'.lo c ≤ s.hi c - s.lo c := by
  obtain ⟨s, s', h1, h2, h3, h4, h5⟩ := interval_mono k t t' v hn hle hag hag' hsa hmd hmin
  refine ⟨s, s', h1, h2, ⟨by rw [h3, h4], fun c hc => ?_⟩, fun c hc => ?_⟩
  · rw [h3] at hc
    obtain ⟨a, b, c', d⟩ := h5 c hc
    exact ⟨a, le_trans b c', d⟩
  · obtain ⟨a, _, _, d⟩ := h5 c hc
    exact sub_le_sub d a

/-- **C07_gap_nonneg** (width level): after a compute on a table that agrees with a game of the right
    class every width is non-negative. -/
theorem gap_width_nonneg (k : Computer) (t : Table α) (v : Nat → α) (hag : t.Agree v) (hsa : SA t.n v)
    (hmd : k.NeedsMono → MonoDec t.n v) (hmin : MinInfo t.n t.known) :
    ∃ s, k.run t = .ok s ∧ ∀ c, c < 2 ^ t.n → 0 ≤ s.hi c - s.lo c := by
  obtain ⟨s, h1, _, _, h4⟩ := run_sound k t hsa hmd hmin hag
  exact ⟨s, h1, fun c hc => sub_nonneg.mpr (h4 c hc).2.2.1⟩

omit [IsOrderedAddMonoid α] in
/-- **C07_gap_zero_full** (width level): once every coalition of the game is revealed, every computer
    succeeds and returns `lo = hi` (= the revealed value) on every row: all widths are zero.  No game
    class is needed. -/
theorem gap_width_zero_full (k : Computer) (t : Table α) (hinv : t.Inv)
    (hall : ∀ c, c < 2 ^ t.n → t.known c = true) :
    ∃ s, k.run t = .ok s ∧ ∀ c, c < 2 ^ t.n →
      s.lo c = t.lo c ∧ s.hi c = t.lo c ∧ s.hi c - s.lo c = 0 := by
  have hmin : MinInfo t.n t.known := by
    have hp := Nat.two_pow_pos t.n
    exact ⟨hall 0 hp, hall _ (by omega), fun i hi => hall _ (Nat.pow_lt_pow_right (by omega) hi)⟩
  obtain ⟨s, h1, _, _, h4, _⟩ := run_spec k t hmin hinv
  refine ⟨s, h1, fun c hc => ?_⟩
  rw [(h4 c hc).1, (h4 c hc).2, k.specLo_known _ _ (hall c hc), k.specUp_known _ _ (hall c hc)]
  exact ⟨rfl, rfl, sub_self _⟩

/-- a fully revealed 3-player table -/
example (k : Computer) : ∃ s, k.run (Ex.mk (fun _ => true) exV) = .ok s ∧ ∀ c, c < 2 ^ 3 →
    s.lo c = exV c ∧ s.hi c = exV c ∧ s.hi c - s.lo c = 0 :=
  gap_width_zero_full k (Ex.mk (fun _ => true) exV) (Ex.mk_agree _ _).inv (fun _ _ => rfl)

example : ∃ s, sac Ex.exT = .ok s ∧ ∀ c, c < 2 ^ 3 → 0 ≤ s.hi c - s.lo c :=
  gap_width_nonneg .sac Ex.exT exV Ex.exT_agree Ex.exT_sa (fun h => h.elim) Ex.exT_min

/-! ### reveal paths -/

/-- a table of the game `v` on which the computer has just run: minimal information, known rows hold `v`,
    and running the computer again changes nothing -/
def Fresh (k : Computer) (v : Nat → α) (t : Table α) : Prop :=
  MinInfo t.n t.known ∧ t.Agree v ∧ k.run t = .ok t

omit [IsOrderedAddMonoid α] in
/-- the output of a compute on a table agreeing with `v` is `Fresh` -/
theorem fresh_of_run (k : Computer) (v : Nat → α) {t t0 : Table α} (hmin : MinInfo t.n t.known)
    (hag : t.Agree v) (h : k.run t = .ok t0) : Fresh k v t0 := by
  obtain ⟨f1, f2, _, f4⟩ := run_frame hag.inv h
  refine ⟨by rw [f1, f2]; exact hmin, ?_, compute_idempotent enumFacts k t hmin hag.inv h⟩
  intro c hc hk
  rw [f1] at hc; rw [f2] at hk
  rw [(f4 c hc hk).1, (f4 c hc hk).2]
  exact hag c hc hk

/-- one step of the reveal loop of the environment: `reveal_value(v(c), c)` then `compute_bounds` -/
def revealStep (k : Computer) (v : Nat → α) (t : Table α) (c : Nat) : Except Err (Table α) :=
  match t.reveal (v c) c with
  | .ok t1 => k.run t1
  | .error e => .error e

/-- the tables after each step of a reveal sequence (first raise aborts) -/
def revealRun (k : Computer) (v : Nat → α) : Table α → List Nat → Except Err (List (Table α))
  | _, [] => .ok []
  | t, c :: cs =>
    match revealStep k v t c with
    | .ok t' =>
      match revealRun k v t' cs with
      | .ok ts => .ok (t' :: ts)
      | .error e => .error e
    | .error e => .error e

omit [AddCommGroup α] [LinearOrder α] [IsOrderedAddMonoid α] in
theorem reveal_ok_iff [Zero α] (t : Table α) (x : α) (c : Nat) (t1 : Table α) :
    t.reveal x c = .ok t1 ↔ c < 2 ^ t.n ∧ t.known c = false ∧ t1 = t.putValue c x := by
  have hrows : t.rows = 2 ^ t.n := rfl
  unfold Table.reveal
  rw [hrows]
  by_cases hc : c < 2 ^ t.n
  · cases hk : t.known c
    · simp only [hc, if_true, Bool.false_eq_true, if_false, true_and]
      constructor
      · intro h; injection h with h; exact h.symm
      · intro h; rw [h]
    · simp [hc]
  · simp [hc]

omit [IsOrderedAddMonoid α] in
theorem revealRun_cons {k : Computer} {v : Nat → α} {t : Table α} {c : Nat} {cs : List Nat}
    {ts : List (Table α)} (h : revealRun k v t (c :: cs) = .ok ts) :
    ∃ t' ts', revealStep k v t c = .ok t' ∧ revealRun k v t' cs = .ok ts' ∧ ts = t' :: ts' := by
  simp only [revealRun] at h
  cases hs : revealStep k v t c with
  | error e => rw [hs] at h; cases h
  | ok t' =>
    rw [hs] at h
    replace h : (match revealRun k v t' cs with
      | .ok ts => Except.ok (t' :: ts)
      | .error e => .error e) = Except.ok ts := h
    cases hr : revealRun k v t' cs with
    | error e => rw [hr] at h; cases h
    | ok ts' =>
      rw [hr] at h
      replace h : Except.ok (t' :: ts') = (Except.ok ts : Except Err _) := h
      injection h with h
      exact ⟨t', ts', rfl, hr, h.symm⟩

/-- a successful step from a `Fresh` table ends in a `Fresh` table whose intervals are nested in the
    previous ones; it revealed exactly `c` -/
theorem step_nested (k : Computer) (v : Nat → α) {t t' : Table α} (hf : Fresh k v t) (hsa : SA t.n v)
    (hmd : k.NeedsMono → MonoDec t.n v) {c : Nat} (h : revealStep k v t c = .ok t') :
    Fresh k v t' ∧ Nested t t' ∧ c < 2 ^ t.n ∧ t.known c = false ∧
      t'.known = fun d => if d = c then true else t.known d := by
  obtain ⟨hmin, hag, hfix⟩ := hf
  unfold revealStep at h
  cases hr : t.reveal (v c) c with
  | error e => rw [hr] at h; cases h
  | ok t1 =>
    rw [hr] at h
    replace h : k.run t1 = .ok t' := h
    obtain ⟨hc, hkc, rfl⟩ := (reveal_ok_iff t (v c) c t1).mp hr
    have hle : KnownLe t.known (t.putValue c (v c)).known := by
      intro d hd
      show (if d = c then true else t.known d) = true
      split
      · rfl
      · exact hd
    have hag1 : (t.putValue c (v c)).Agree v := by
      intro d hd hk
      by_cases hdc : d = c
      · subst hdc; simp [Table.putValue]
      · have hk' : t.known d = true := by simpa [Table.putValue, hdc] using hk
        simpa [Table.putValue, hdc] using hag d hd hk'
    have hmin1 : MinInfo (t.putValue c (v c)).n (t.putValue c (v c)).known := minInfo_mono hmin hle
    obtain ⟨s, s', h1, h2, h3, h4, h5⟩ :=
      interval_mono k t (t.putValue c (v c)) v rfl hle hag hag1 hsa hmd hmin
    rw [hfix] at h1; cases h1
    rw [h] at h2; cases h2
    obtain ⟨_, f2, _, _⟩ := run_frame hag1.inv h
    refine ⟨fresh_of_run k v hmin1 hag1 h, ⟨h4, fun d hd => ?_⟩, hc, hkc, f2⟩
    obtain ⟨a, b, c', d'⟩ := h5 d hd
    exact ⟨a, le_trans b c', d'⟩

omit [IsOrderedAddMonoid α] in
/-- from a `Fresh` table, revealing an unknown coalition of the game always succeeds -/
theorem step_total (k : Computer) (v : Nat → α) {t : Table α} (hf : Fresh k v t) {c : Nat}
    (hc : c < 2 ^ t.n) (hkc : t.known c = false) : ∃ t', revealStep k v t c = .ok t' := by
  obtain ⟨hmin, hag, _⟩ := hf
  have hr := (reveal_ok_iff t (v c) c _).mpr ⟨hc, hkc, rfl⟩
  have hle : KnownLe t.known (t.putValue c (v c)).known := by
    intro d hd
    show (if d = c then true else t.known d) = true
    split
    · rfl
    · exact hd
  have hinv1 : (t.putValue c (v c)).Inv := by
    intro d hd hk
    by_cases hdc : d = c
    · subst hdc; simp [Table.putValue]
    · have hk' : t.known d = true := by simpa [Table.putValue, hdc] using hk
      simpa [Table.putValue, hdc] using hag.inv d hd hk'
  obtain ⟨t', h, _⟩ := run_spec k (t.putValue c (v c)) (minInfo_mono hmin hle) hinv1
  exact ⟨t', by unfold revealStep; rw [hr]; exact h⟩

/-- **C07_path.**  Along ANY successful reveal sequence started from a freshly computed table of a game
    of the right class, every later table's intervals are nested in every earlier table's (in
    particular consecutive ones): `Pairwise Nested` over the whole trajectory, the start included. -/
theorem path (k : Computer) (v : Nat → α) : ∀ (cs : List Nat) {t : Table α} {ts : List (Table α)},
    Fresh k v t → SA t.n v → (k.NeedsMono → MonoDec t.n v) → revealRun k v t cs = .ok ts →
    (t :: ts).Pairwise Nested ∧ ∀ t' ∈ ts, Fresh k v t'
  | [], t, ts, _, _, _, h => by
    simp only [revealRun] at h
    cases h
    exact ⟨List.pairwise_singleton _ _, fun _ h => by cases h⟩
  | c :: cs, t, ts, hf, hsa, hmd, h => by
    obtain ⟨t', ts', hs, hr, rfl⟩ := revealRun_cons h
    obtain ⟨hf', hnest, _, _, _⟩ := step_nested k v hf hsa hmd hs
    have hn := hnest.1
    obtain ⟨ih1, ih2⟩ := path k v cs hf' (by rw [hn]; exact hsa) (by rw [hn]; exact hmd) hr
    refine ⟨List.pairwise_cons.mpr ⟨?_, ih1⟩, ?_⟩
    · intro s hs'
      rcases List.mem_cons.mp hs' with rfl | hs'
      · exact hnest
      · exact hnest.trans ((List.pairwise_cons.mp ih1).1 s hs')
    · intro s hs'
      rcases List.mem_cons.mp hs' with rfl | hs'
      · exact hf'
      · exact ih2 s hs'

/-- the widths along a reveal path never grow: for every earlier table `a` and later table `b` of the
    trajectory, `0 ≤ width_b ≤ width_a` row by row -/
theorem path_width (k : Computer) (v : Nat → α) (cs : List Nat) {t : Table α} {ts : List (Table α)}
    (hf : Fresh k v t) (hsa : SA t.n v) (hmd : k.NeedsMono → MonoDec t.n v)
    (h : revealRun k v t cs = .ok ts) :
    (t :: ts).Pairwise (fun a b => ∀ c, c < 2 ^ a.n →
      0 ≤ b.hi c - b.lo c ∧ b.hi c - b.lo c ≤ a.hi c - a.lo c) :=
  (path k v cs hf hsa hmd h).1.imp (fun hab c hc => by
    obtain ⟨a1, a2, a3⟩ := hab.2 c hc
    exact ⟨sub_nonneg.mpr a2, sub_le_sub a3 a1⟩)

/-- every sequence of distinct, so far unknown coalitions of the game can be revealed: the run succeeds
    and produces one table per reveal -/
theorem path_total (k : Computer) (v : Nat → α) : ∀ (cs : List Nat) {t : Table α},
    Fresh k v t → SA t.n v → (k.NeedsMono → MonoDec t.n v) → cs.Nodup →
    (∀ c ∈ cs, c < 2 ^ t.n ∧ t.known c = false) →
    ∃ ts, revealRun k v t cs = .ok ts ∧ ts.length = cs.length
  | [], _, _, _, _, _, _ => ⟨[], rfl, rfl⟩
  | c :: cs, t, hf, hsa, hmd, hnd, hun => by
    obtain ⟨hc, hkc⟩ := hun c List.mem_cons_self
    obtain ⟨t', hs⟩ := step_total k v hf hc hkc
    obtain ⟨hf', hnest, _, _, hk'⟩ := step_nested k v hf hsa hmd hs
    have hn := hnest.1
    obtain ⟨hnotin, hnd'⟩ := List.nodup_cons.mp hnd
    obtain ⟨ts, hr, hlen⟩ := path_total k v cs hf' (by rw [hn]; exact hsa) (by rw [hn]; exact hmd) hnd'
      (by
        intro d hd
        obtain ⟨h1, h2⟩ := hun d (List.mem_cons_of_mem _ hd)
        have hdc : d ≠ c := by rintro rfl; exact hnotin hd
        refine ⟨by rw [hn]; exact h1, ?_⟩
        rw [hk']; simp only [hdc, if_false]; exact h2)
    refine ⟨t' :: ts, ?_, by simp [hlen]⟩
    simp only [revealRun, hs, hr]

/-- hypotheses satisfiable: compute `exT`, then reveal the pairs {0,1} and {0,2} (ids 3, 5) one at a
    time; the trajectory exists and is pairwise nested -/
example : ∃ t0, sa Ex.exT = .ok t0 ∧ ∃ ts, revealRun .sa exV t0 [3, 5] = .ok ts ∧ ts.length = 2 ∧
    (t0 :: ts).Pairwise Nested := by
  obtain ⟨t0, h0, hn, hk, _⟩ := run_spec .sa Ex.exT Ex.exT_min Ex.exT_agree.inv
  have hf : Fresh .sa exV t0 := fresh_of_run .sa exV Ex.exT_min Ex.exT_agree h0
  have hsa : SA t0.n exV := by rw [hn]; exact Ex.exT_sa
  obtain ⟨ts, hr, hlen⟩ := path_total .sa exV [3, 5] hf hsa (fun h => h.elim) (by decide)
    (by rw [hn, hk]; decide)
  exact ⟨t0, h0, ts, hr, hlen, (path .sa exV [3, 5] hf hsa (fun h => h.elim) hr).1⟩

example (r : Nat) : ∃ t0, sam r Ex.samT = .ok t0 ∧ ∃ ts,
    revealRun (.sam r) SAMExample.v t0 [6, 3] = .ok ts ∧ (t0 :: ts).Pairwise Nested := by
  obtain ⟨t0, h0, hn, hk, _⟩ := run_spec (.sam r) Ex.samT Ex.samT_min Ex.samT_agree.inv
  have hf : Fresh (.sam r) SAMExample.v t0 := fresh_of_run _ _ Ex.samT_min Ex.samT_agree h0
  have hsa : SA t0.n SAMExample.v := by rw [hn]; exact Ex.samT_sa
  have hmd : MonoDec t0.n SAMExample.v := by rw [hn]; exact Ex.samT_md
  obtain ⟨ts, hr, _⟩ := path_total (.sam r) SAMExample.v [6, 3] hf hsa (fun _ => hmd) (by decide)
    (by rw [hn, hk]; decide)
  exact ⟨t0, h0, ts, hr, (path _ _ [6, 3] hf hsa (fun _ => hmd) hr).1⟩

end ICG.C07
