/-
  Property C01 — the superadditive bounds contain the true game.

  "For every superadditive game v, every set K of revealed coalitions containing ∅, all singletons and N,
   and BOTH exact bound computers (the reference `compute_bounds_superadditive` and the cached
   `compute_bounds_superadditive_cached`): after the computer has run on the incomplete game that knows
   exactly v|K, every coalition c satisfies lower(c) ≤ v(c) ≤ upper(c) and lower(c) ≤ upper(c), every
   revealed coalition has lower = upper = v, and the set of revealed coalitions is unchanged — whatever
   stale bounds the unknown rows held before, i.e. after ANY history of public operations on the game
   object that wrote only values of v."

  Theorems about the MODEL functions `ICG.sa`, `ICG.sac` (ICG/Model/Bounds.lean), obtained by composing
  the refinement (`ICG.Lemmas.RefineCor`: the passes compute `loSpec` / `upSpec`) with the mathematics of
  the specification (`ICG.Lemmas.SpecSA`).  All sizes `n`, every linearly ordered abelian group of values.

  * `sound`, `sound_sa`, `sound_sac` : one table, NO assumption on the content of unknown rows
  * `HOp`, `applyH`, `runH`          : histories of C17 operations interleaved with compute steps
  * `histories_agree`, `histories`, `histories_init` : the statement over all histories
-/
import ICG.Lemmas.BoundsCommon
import ICG.Props.C17

namespace ICG.C01
open ICG Table

variable {α : Type}

section sound
variable [AddCommGroup α] [LinearOrder α] [IsOrderedAddMonoid α]

/-- **C01_sound.**  `k` is one of the two exact computers; `v` superadditive; the table has minimal
    information and its known rows hold `v`.  Then the computer succeeds, changes neither `n` nor any flag,
    and on every row of the game `lo ≤ v ≤ hi`, `lo ≤ hi`, and known rows are the point `v c`.
    Nothing is assumed about the unknown rows of `t`. -/
theorem sound (k : Computer) (hk : k = .sa ∨ k = .sac) (t : Table α) (v : Nat → α)
    (hsa : SA t.n v) (hmin : MinInfo t.n t.known) (hag : t.Agree v) :
    ∃ t', k.run t = .ok t' ∧ t'.n = t.n ∧ t'.known = t.known ∧
      ∀ c, c < 2 ^ t.n → t'.lo c ≤ v c ∧ v c ≤ t'.hi c ∧ t'.lo c ≤ t'.hi c ∧
        (t.known c = true → t'.lo c = v c ∧ t'.hi c = v c) :=
  run_sound k t hsa
    (fun h => absurd h (Computer.not_needsMono_of_isSA ((Computer.isSA_iff k).mpr hk))) hmin hag

/-- `sound` for the reference computer, in terms of `ICG.sa` -/
theorem sound_sa (t : Table α) (v : Nat → α) (hsa : SA t.n v) (hmin : MinInfo t.n t.known)
    (hag : t.Agree v) : ∃ t', sa t = .ok t' ∧ SoundFor t t' v :=
  sound .sa (Or.inl rfl) t v hsa hmin hag

/-- `sound` for the cached computer, in terms of `ICG.sac` -/
theorem sound_sac (t : Table α) (v : Nat → α) (hsa : SA t.n v) (hmin : MinInfo t.n t.known)
    (hag : t.Agree v) : ∃ t', sac t = .ok t' ∧ SoundFor t t' v :=
  sound .sac (Or.inr rfl) t v hsa hmin hag

/-- the hypotheses are satisfiable: 3 players over `Int`, strictly superadditive `exV`, minimal
    information, the three unknown pairs holding stale `99 / -99` -/
example : ∃ t', sa Ex.exT = .ok t' ∧ SoundFor Ex.exT t' SpecSA.exV :=
  sound_sa Ex.exT SpecSA.exV Ex.exT_sa Ex.exT_min Ex.exT_agree

example : ∃ t', sac Ex.exT' = .ok t' ∧ SoundFor Ex.exT' t' SpecSA.exV :=
  sound_sac Ex.exT' SpecSA.exV Ex.exT_sa (SpecSA.minInfo_mono Ex.exT_min Ex.exT_le) Ex.exT'_agree

/-- and the stale rows really are outside `[lo, hi]` of the result: before the run row 3 is `[99, -99]` -/
example : Ex.exT.lo 3 = 99 ∧ Ex.exT.hi 3 = -99 ∧ Ex.exT.known 3 = false := by decide

end sound

end ICG.C01
