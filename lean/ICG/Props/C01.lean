/-
  Property C01 — the superadditive bounds contain the true game.

  "For every superadditive game v, every set K of revealed coalitions containing ∅, all singletons and N,
   and BOTH exact bound computers (the reference `compute_bounds_superadditive` and the cached
   `compute_bounds_superadditive_cached`): after the computer has run on the incomplete game that knows
   exactly v|K, every coalition c satisfies lower(c) ≤ v(c) ≤ upper(c) and lower(c) ≤ upper(c), every
   revealed coalition has lower = upper = v, and the set of revealed coalitions is unchanged — whatever
   stale bounds the unknown rows held before, i.e. after ANY history of public operations on the game
   object that wrote only values of v."

  Theorems about the MODEL functions `ICG.sa`, `ICG.sac` (ICG/Model/Bounds.lean), obtained by composing
  the refinement (`ICG.Lemmas.RefineCor`: the passes compute `loSpec` / `upSpec`) with the mathematics of
  the specification (`ICG.Lemmas.SpecSA`).  All sizes `n`, every linearly ordered abelian group of values.

  * `sound`, `sound_sa`, `sound_sac` : one table, NO assumption on the content of unknown rows
  * `HOp`, `applyH`, `runH`          : histories of C17 operations interleaved with compute steps
  * `histories_agree`, `histories`, `histories_init` : the statement over all histories
-/
import ICG.Lemmas.BoundsCommon
import ICG.Props.C17

namespace ICG.C01
open ICG Table
open ICG.BoundsCommon

variable {α : Type}

section sound
variable [AddCommGroup α] [LinearOrder α] [IsOrderedAddMonoid α]

/-- **C01_sound.**  `k` is one of the two exact computers; `v` superadditive; the table has minimal
    information and its known rows hold `v`.  Then the computer succeeds, changes neither `n` nor any flag,
    and on every row of the game `lo ≤ v ≤ hi`, `lo ≤ hi`, and known rows are the point `v c`.
    Nothing is assumed about the unknown rows of `t`. -/
theorem sound (k : Computer) (hk : k = .sa ∨ k = .sac) (t : Table α) (v : Nat → α)
    (hsa : SA t.n v) (hmin : MinInfo t.n t.known) (hag : t.Agree v) :
    ∃ t', k.run t = .ok t' ∧ t'.n = t.n ∧ t'.known = t.known ∧
      ∀ c, c < 2 ^ t.n → t'.lo c ≤ v c ∧ v c ≤ t'.hi c ∧ t'.lo c ≤ t'.hi c ∧
        (t.known c = true → t'.lo c = v c ∧ t'.hi c = v c) :=
  run_sound k t hsa
    (fun h => absurd h (Computer.not_needsMono_of_isSA ((Computer.isSA_iff k).mpr hk))) hmin hag

/-- `sound` for the reference computer, in terms of `ICG.sa` -/
theorem sound_sa (t : Table α) (v : Nat → α) (hsa : SA t.n v) (hmin : MinInfo t.n t.known)
    (hag : t.Agree v) : ∃ t', sa t = .ok t' ∧ SoundFor t t' v :=
  sound .sa (Or.inl rfl) t v hsa hmin hag

/-- `sound` for the cached computer, in terms of `ICG.sac` -/
theorem sound_sac (t : Table α) (v : Nat → α) (hsa : SA t.n v) (hmin : MinInfo t.n t.known)
    (hag : t.Agree v) : ∃ t', sac t = .ok t' ∧ SoundFor t t' v :=
  sound .sac (Or.inr rfl) t v hsa hmin hag

/-- the hypotheses are satisfiable: 3 players over `Int`, strictly superadditive `exV`, minimal
    information, the three unknown pairs holding stale `99 / -99` -/
example : ∃ t', sa Ex.exT = .ok t' ∧ SoundFor Ex.exT t' SpecSA.exV :=
  sound_sa Ex.exT SpecSA.exV Ex.exT_sa Ex.exT_min Ex.exT_agree

example : ∃ t', sac Ex.exT' = .ok t' ∧ SoundFor Ex.exT' t' SpecSA.exV :=
  sound_sac Ex.exT' SpecSA.exV Ex.exT_sa (SpecSA.minInfo_mono Ex.exT_min Ex.exT_le) Ex.exT'_agree

/-- and the stale rows really are outside `[lo, hi]` of the result: before the run row 3 is `[99, -99]` -/
example : Ex.exT.lo 3 = 99 ∧ Ex.exT.hi 3 = -99 ∧ Ex.exT.known 3 = false := by decide

end sound

/-! ### histories

A history is a list of public value operations of the game object (`ICG.C17.Op`, with C17's semantics:
a raising call leaves the object as it was, except `set_known_values`, which leaves the re-initialised
table) INTERLEAVED with bound computations.  A raising `compute` is modelled the same way: the model's
`Computer.run` returns no table when it fails, and the history continues from the table before the
compute.  (The real computers may have written some bound cells of unknown rows before raising; those
cells are stale content of unknown rows, about which nothing is assumed anywhere below, and the harness
re-synchronises the model table with the object's known rows after a raising compute in the same way.)

Side conditions, both functions of `n`, the abstract known-map (`C17.Spec`) and the operation only:
* `admissibleH` — C17's: a scalar `set_lower_bound` / `set_upper_bound` targets an unknown row;
* `WritesOf v n` — every value a value-writing operation writes is `v`'s value for that coalition
  (`set_known_values` also writes `0` for ∅, so it requires `v ∅ = 0`). -/

/-- one step of a history: a public value operation or a bound computation -/
inductive HOp (α : Type) where
  | op (o : C17.Op α)
  | compute (k : Computer)

section hist
variable [AddCommGroup α] [LinearOrder α]

/-- the table after the step (whether the call returned or raised) -/
def applyH (t : Table α) : HOp α → Table α
  | .op o => C17.applyOp t o
  | .compute k => C17.keep t (k.run t)

/-- the table after a history -/
def runH (t : Table α) (h : List (HOp α)) : Table α := h.foldl applyH t

/-- the abstract known-map after the step: computations do not change knowledge -/
def specStepH (n : Nat) (s : C17.Spec α) : HOp α → C17.Spec α
  | .op o => C17.specStep n s o
  | .compute _ => s

def specRunH (n : Nat) (s : C17.Spec α) (h : List (HOp α)) : C17.Spec α := h.foldl (specStepH n) s

omit [AddCommGroup α] [LinearOrder α] in
def HOp.admissible (n : Nat) (s : C17.Spec α) : HOp α → Bool
  | .op o => o.admissible n s
  | .compute _ => true

/-- C17's admissibility along the history -/
def admissibleH (n : Nat) (s : C17.Spec α) : List (HOp α) → Bool
  | [] => true
  | x :: h => x.admissible n s && admissibleH n (specStepH n s x) h

/-- the values a bulk `set_values(vals, coalitions)` writes are `v`'s: with coalitions, value `i` goes to
    coalition `i` (`zip`); without, either one value per row or one value broadcast to all rows -/
def ValsOf (v : Nat → α) (n : Nat) (vals : List α) : Option (List Nat) → Prop
  | some ids => ∀ p ∈ ids.zip vals, p.2 = v p.1
  | none => (vals.length = 2 ^ n → ∀ d (h : d < vals.length), vals[d] = v d) ∧
      (∀ x, vals = [x] → ∀ d, d < 2 ^ n → x = v d)

/-- every value written by a value-writing operation is `v`'s value for that coalition -/
def WritesOf (v : Nat → α) (n : Nat) : HOp α → Prop
  | .op (.set x c) => c < 2 ^ n → x = v c
  | .op (.reveal x c) => c < 2 ^ n → x = v c
  | .op (.setValues vals cs) => ValsOf v n vals cs
  | .op (.setKnownValues vals cs) => v 0 = 0 ∧ ValsOf v n vals cs
  | _ => True

/-- the invariant: the values the abstract known-map holds are `v`'s -/
def SpecOf (v : Nat → α) (n : Nat) (s : C17.Spec α) : Prop :=
  ∀ c, c < 2 ^ n → ∀ x, s c = some x → x = v c

omit [LinearOrder α] in
theorem specOf_init {v : Nat → α} (n : Nat) (hv0 : v 0 = 0) : SpecOf v n C17.specInit := by
  intro c _ x hx
  by_cases hc : c = 0
  · subst hc
    have : x = 0 := by simpa [C17.specInit] using hx.symm
    rw [this, hv0]
  · simp [C17.specInit, hc] at hx

omit [AddCommGroup α] [LinearOrder α] in
theorem specOf_put_some {v : Nat → α} {n : Nat} {s : C17.Spec α} (h : SpecOf v n s) {c : Nat} {x : α}
    (hx : c < 2 ^ n → x = v c) : SpecOf v n (s.put c (some x)) := by
  intro d hd y hy
  by_cases hdc : d = c
  · subst hdc
    have : x = y := by simpa [C17.Spec.put] using hy
    rw [← this]; exact hx hd
  · exact h d hd y (by simpa [C17.Spec.put, hdc] using hy)

omit [AddCommGroup α] [LinearOrder α] in
theorem specOf_put_none {v : Nat → α} {n : Nat} {s : C17.Spec α} (h : SpecOf v n s) (c : Nat) :
    SpecOf v n (s.put c none) := by
  intro d hd y hy
  by_cases hdc : d = c
  · simp [C17.Spec.put, hdc] at hy
  · exact h d hd y (by simpa [C17.Spec.put, hdc] using hy)

omit [AddCommGroup α] [LinearOrder α] in
theorem specOf_foldl_put {v : Nat → α} {n : Nat} : ∀ (l : List (Nat × α)) {s : C17.Spec α},
    (∀ p ∈ l, p.2 = v p.1) → SpecOf v n s →
    SpecOf v n (l.foldl (fun s (p : Nat × α) => s.put p.1 (some p.2)) s)
  | [], _, _, h => h
  | p :: l, _, hl, h =>
    specOf_foldl_put l (fun q hq => hl q (List.mem_cons_of_mem _ hq))
      (specOf_put_some h (fun _ => hl p List.mem_cons_self))

omit [AddCommGroup α] [LinearOrder α] in
theorem mem_zip_of_mem_take_zip : ∀ (ids : List Nat) (k : Nat) (vals : List α) {p : Nat × α},
    p ∈ (ids.take k).zip vals → p ∈ ids.zip vals
  | [], _, _, _, h => by simp at h
  | _ :: _, 0, _, _, h => by simp at h
  | _ :: _, _ + 1, [], _, h => by simp at h
  | a :: as, k + 1, b :: bs, p, h => by
    simp only [List.take_succ_cons, List.zip_cons_cons, List.mem_cons] at h ⊢
    rcases h with h | h
    · exact Or.inl h
    · exact Or.inr (mem_zip_of_mem_take_zip as k bs h)

omit [AddCommGroup α] [LinearOrder α] in
theorem specOf_setValues {v : Nat → α} {n : Nat} {s s' : C17.Spec α} (h : SpecOf v n s)
    {vals : List α} {cs : Option (List Nat)} (hw : ValsOf v n vals cs)
    (hs : C17.specSetValues n s vals cs = some s') : SpecOf v n s' := by
  cases cs with
  | some ids =>
    simp only [C17.specSetValues] at hs
    split at hs
    · cases hs
    · split at hs
      · injection hs with hs
        rw [← hs]
        apply specOf_foldl_put _ _ h
        intro p hp
        apply hw p
        exact mem_zip_of_mem_take_zip ids vals.length vals hp
      · cases hs
  | none =>
    simp only [C17.specSetValues] at hs
    split at hs
    · rename_i hlen
      injection hs with hs
      rw [← hs]
      intro d hd y hy
      have hd' : d < vals.length := by rw [hlen]; exact hd
      simp only [hd', dite_true] at hy
      injection hy with hy
      rw [← hy]
      exact hw.1 hlen d hd'
    · split at hs
      · rename_i x _
        injection hs with hs
        rw [← hs]
        intro d hd y hy
        simp only [hd, if_true] at hy
        injection hy with hy
        rw [← hy]
        exact hw.2 x rfl d hd
      · cases hs

omit [LinearOrder α] in
/-- the invariant is preserved by every step whose written values are `v`'s -/
theorem specOf_step {v : Nat → α} {n : Nat} {s : C17.Spec α} (h : SpecOf v n s) (x : HOp α)
    (hw : WritesOf v n x) : SpecOf v n (specStepH n s x) := by
  cases x with
  | compute k => exact h
  | op o =>
    cases o with
    | set y c =>
      simp only [specStepH, C17.specStep]
      split
      · exact specOf_put_some h hw
      · exact h
    | unset c =>
      simp only [specStepH, C17.specStep]
      split
      · exact specOf_put_none h c
      · exact h
    | reveal y c =>
      simp only [specStepH, C17.specStep]
      split
      · split
        · exact h
        · exact specOf_put_some h hw
      · exact h
    | unreveal c =>
      simp only [specStepH, C17.specStep]
      split
      · split
        · exact specOf_put_none h c
        · exact h
      · exact h
    | setValues vals cs =>
      simp only [specStepH, C17.specStep]
      cases hs : C17.specSetValues n s vals cs with
      | none => exact h
      | some s' => exact specOf_setValues h hw hs
    | setKnownValues vals cs =>
      simp only [specStepH, C17.specStep]
      have h0 : SpecOf v n (C17.specInit (α := α)) := specOf_init n hw.1
      cases hs : C17.specSetValues n C17.specInit vals cs with
      | none => exact h0
      | some s' => exact specOf_setValues h0 hw.2 hs
    | setBounds up vals cs => exact h
    | setLowerBound y c => exact h
    | setUpperBound y c => exact h

omit [AddCommGroup α] [LinearOrder α] in
/-- C17's simulation relation implies `Inv` … -/
theorem inv_of_rel {t : Table α} {s : C17.Spec α} (h : C17.Rel t s) : t.Inv := by
  intro c hc hk
  obtain ⟨h1, h2⟩ := C17.spec_of_known h hc hk
  rw [h1] at h2
  injection h2

omit [AddCommGroup α] [LinearOrder α] in
/-- … and, when the known-map's values are `v`'s, `Agree v` -/
theorem agree_of_rel {v : Nat → α} {t : Table α} {s : C17.Spec α} (h : C17.Rel t s)
    (hs : SpecOf v t.n s) : t.Agree v := by
  intro c hc hk
  obtain ⟨h1, h2⟩ := C17.spec_of_known h hc hk
  exact ⟨hs c hc _ h1, hs c hc _ h2⟩

/-- **one step**: every admissible step — operation or computation, returning or raising — keeps `n` and
    C17's simulation relation, with the known-map advanced by `specStepH` (unchanged by a computation:
    a computation changes no flag and no known row) -/
theorem refinesH {t : Table α} {s : C17.Spec α} (h : C17.Rel t s) (x : HOp α)
    (hadm : x.admissible t.n s = true) :
    (applyH t x).n = t.n ∧ C17.Rel (applyH t x) (specStepH t.n s x) := by
  cases x with
  | op o => exact C17.refines h o hadm
  | compute k =>
    simp only [applyH, specStepH]
    rcases C17.keep_cases t (k.run t) with ⟨t', ht', hk⟩ | ⟨e, _, hk⟩
    · rw [hk]
      obtain ⟨f1, f2, _, f4⟩ := run_frame (inv_of_rel h) ht'
      refine ⟨f1, ?_⟩
      intro c hc
      rw [f1] at hc
      obtain ⟨r1, r2⟩ := h c hc
      refine ⟨by rw [f2]; exact r1, ?_⟩
      intro y hy
      have hkc : t.known c = true := by rw [r1, hy]; rfl
      rw [(f4 c hc hkc).1, (f4 c hc hkc).2]
      exact r2 y hy
    · rw [hk]; exact ⟨rfl, h⟩

theorem runH_cons (t : Table α) (x : HOp α) (h : List (HOp α)) :
    runH t (x :: h) = runH (applyH t x) h := rfl

theorem runH_append (t : Table α) (h1 h2 : List (HOp α)) :
    runH t (h1 ++ h2) = runH (runH t h1) h2 := by
  simp [runH, List.foldl_append]

omit [LinearOrder α] in
theorem specRunH_cons (n : Nat) (s : C17.Spec α) (x : HOp α) (h : List (HOp α)) :
    specRunH n s (x :: h) = specRunH n (specStepH n s x) h := rfl

/-- **every history**: `n` is constant and the table stays related to the known-map advanced by the
    history (no assumption on the values written) -/
theorem refines_runH : ∀ (h : List (HOp α)) {t : Table α} {s : C17.Spec α}, C17.Rel t s →
    admissibleH t.n s h = true → (runH t h).n = t.n ∧ C17.Rel (runH t h) (specRunH t.n s h)
  | [], _, _, hrel, _ => ⟨rfl, hrel⟩
  | x :: h, t, s, hrel, hadm => by
    simp only [admissibleH, Bool.and_eq_true] at hadm
    obtain ⟨hn, hr⟩ := refinesH hrel x hadm.1
    have ih := refines_runH h hr (by rw [hn]; exact hadm.2)
    rw [hn] at ih
    exact ih

/-- **C01_histories, the invariant.**  Along every admissible history whose written values are `v`'s,
    started from any table related to a known-map holding values of `v`: `n` is constant, the table stays
    related to the known-map advanced by the history, the known-map holds values of `v`, and therefore the
    final table agrees with `v` on its known rows (whatever its unknown rows hold). -/
theorem histories_agree (v : Nat → α) : ∀ (h : List (HOp α)) (t0 : Table α) (s0 : C17.Spec α),
    C17.Rel t0 s0 → SpecOf v t0.n s0 → admissibleH t0.n s0 h = true →
    (∀ x ∈ h, WritesOf v t0.n x) →
    (runH t0 h).n = t0.n ∧ C17.Rel (runH t0 h) (specRunH t0.n s0 h) ∧
      SpecOf v t0.n (specRunH t0.n s0 h) ∧ (runH t0 h).Agree v
  | [], t0, s0, hrel, hs0, _, _ => ⟨rfl, hrel, hs0, agree_of_rel hrel hs0⟩
  | x :: h, t0, s0, hrel, hs0, hadm, hw => by
    simp only [admissibleH, Bool.and_eq_true] at hadm
    obtain ⟨hn, hr⟩ := refinesH hrel x hadm.1
    have hs1 := specOf_step hs0 x (hw x List.mem_cons_self)
    have ih := histories_agree v h (applyH t0 x) (specStepH t0.n s0 x) hr (by rw [hn]; exact hs1)
      (by rw [hn]; exact hadm.2) (by rw [hn]; exact fun y hy => hw y (List.mem_cons_of_mem _ hy))
    rw [hn] at ih
    exact ih

end hist

section histories
variable [AddCommGroup α] [LinearOrder α] [IsOrderedAddMonoid α]

/-- **C01_histories**, for every registered computer (the SAM approximation under `MonoDec`). -/
theorem histories_any (k : Computer) (v : Nat → α) (t0 : Table α) (s0 : C17.Spec α)
    (hrel : C17.Rel t0 s0) (hs0 : SpecOf v t0.n s0) (h : List (HOp α))
    (hadm : admissibleH t0.n s0 h = true) (hw : ∀ x ∈ h, WritesOf v t0.n x)
    (hsa : SA t0.n v) (hmd : k.NeedsMono → MonoDec t0.n v)
    (hmin : MinInfo (runH t0 h).n (runH t0 h).known) :
    ∃ t', k.run (runH t0 h) = .ok t' ∧ SoundFor (runH t0 h) t' v := by
  obtain ⟨hn, _, _, hag⟩ := histories_agree v h t0 s0 hrel hs0 hadm hw
  exact run_sound k (runH t0 h) (by rw [hn]; exact hsa) (by rw [hn]; exact hmd) hmin hag

/-- **C01_histories.**  `k` one of the two exact computers, `v` superadditive.  For every history of C17
    operations interleaved with compute steps, applied to any table `t0` that C17's relation ties to a
    known-map holding values of `v`, in which scalar bound writes hit unknown rows only (`admissibleH`)
    and every written value is `v`'s (`WritesOf`): if the final table has minimal information, a final
    compute succeeds and the conclusion of `sound` holds. -/
theorem histories (k : Computer) (hk : k = .sa ∨ k = .sac) (v : Nat → α) (t0 : Table α)
    (s0 : C17.Spec α) (hrel : C17.Rel t0 s0) (hs0 : SpecOf v t0.n s0) (h : List (HOp α))
    (hadm : admissibleH t0.n s0 h = true) (hw : ∀ x ∈ h, WritesOf v t0.n x) (hsa : SA t0.n v)
    (hmin : MinInfo (runH t0 h).n (runH t0 h).known) :
    ∃ t', k.run (runH t0 h) = .ok t' ∧ t'.n = (runH t0 h).n ∧ t'.known = (runH t0 h).known ∧
      ∀ c, c < 2 ^ (runH t0 h).n → t'.lo c ≤ v c ∧ v c ≤ t'.hi c ∧ t'.lo c ≤ t'.hi c ∧
        ((runH t0 h).known c = true → t'.lo c = v c ∧ t'.hi c = v c) :=
  histories_any k v t0 s0 hrel hs0 h hadm hw hsa
    (fun hm => absurd hm (Computer.not_needsMono_of_isSA ((Computer.isSA_iff k).mpr hk))) hmin

/-- from a new game on `n` players (`v ∅ = 0`: a new game knows ∅ with value 0) -/
theorem histories_init (k : Computer) (hk : k = .sa ∨ k = .sac) (v : Nat → α) (n : Nat) (hv0 : v 0 = 0)
    (h : List (HOp α)) (hadm : admissibleH n (C17.specInit (α := α)) h = true)
    (hw : ∀ x ∈ h, WritesOf v n x) (hsa : SA n v)
    (hmin : MinInfo n (runH (Table.init n) h).known) :
    ∃ t', k.run (runH (Table.init n) h) = .ok t' ∧ SoundFor (runH (Table.init n) h) t' v := by
  have hn : (runH (Table.init (α := α) n) h).n = n :=
    (histories_agree v h (Table.init n) C17.specInit (C17.rel_init n) (specOf_init n hv0) hadm hw).1
  exact histories k hk v (Table.init n) C17.specInit (C17.rel_init n) (specOf_init n hv0) h hadm hw hsa
    (by rw [hn]; exact hmin)

/-- applied to ANY table reachable from a new game: the table after a prefix `pre`, then any
    continuation `h` (the side conditions are those of the whole history `pre ++ h`) -/
theorem histories_reachable (k : Computer) (hk : k = .sa ∨ k = .sac) (v : Nat → α) (n : Nat)
    (hv0 : v 0 = 0) (pre h : List (HOp α))
    (hadm : admissibleH n (C17.specInit (α := α)) (pre ++ h) = true)
    (hw : ∀ x ∈ pre ++ h, WritesOf v n x) (hsa : SA n v)
    (hmin : MinInfo n (runH (runH (Table.init n) pre) h).known) :
    ∃ t', k.run (runH (runH (Table.init n) pre) h) = .ok t' ∧
      SoundFor (runH (runH (Table.init n) pre) h) t' v := by
  rw [← runH_append] at hmin ⊢
  exact histories_init k hk v n hv0 (pre ++ h) hadm hw hsa hmin

omit [IsOrderedAddMonoid α] in
/-- the knowledge of the final table can be read off the known-map, which does not involve the
    computations: `MinInfo` of the final table follows from `MinInfo` of the known-map -/
theorem minInfo_of_spec (v : Nat → α) (n : Nat) (hv0 : v 0 = 0) (h : List (HOp α))
    (hadm : admissibleH n (C17.specInit (α := α)) h = true) (hw : ∀ x ∈ h, WritesOf v n x)
    (hspec : MinInfo n (fun c => (specRunH n C17.specInit h c).isSome)) :
    MinInfo n (runH (Table.init n) h).known := by
  obtain ⟨hn, hrel, _, _⟩ :=
    histories_agree v h (Table.init n) C17.specInit (C17.rel_init n) (specOf_init n hv0) hadm hw
  have hk : ∀ c, c < 2 ^ n → (runH (Table.init (α := α) n) h).known c
      = (specRunH n C17.specInit h c).isSome := fun c hc => (hrel c (by rw [hn]; exact hc)).1
  have hp := Nat.two_pow_pos n
  exact ⟨by rw [hk 0 hp]; exact hspec.1, by rw [hk _ (by omega)]; exact hspec.2.1,
    fun i hi => by rw [hk _ (Nat.pow_lt_pow_right (by omega) hi)]; exact hspec.2.2 i hi⟩

end histories

/-! ### a concrete history (3 players, `Int`, the game `SpecSA.exV`) -/

/-- a compute that raises (too little knowledge), the singletons and N, junk bounds written into the
    unknown pair {0,1}, a compute with the cached computer, reveal {0,1}, a SAM compute, bulk upper
    bounds, un-reveal, set {1,2}, unset {0} followed by a compute that raises, set {0} again -/
def demoH : List (HOp Int) :=
  [.op (.set 1 1), .compute .sa,                    -- raises: singletons 2, 4 and N unknown
   .op (.set 2 2), .op (.set 1 4), .op (.set 9 7),
   .op (.setLowerBound 50 3), .op (.setUpperBound (-50) 3),   -- stale junk in an unknown row
   .compute .sac,
   .op (.reveal 4 3), .compute (.sam 2),
   .op (.setBounds true [7, 7, 7] (some [3, 5, 6])),           -- bulk upper bounds: known row 3 untouched
   .op (.unreveal 3), .op (.set 5 6), .op (.unset 1), .compute .sa,   -- raises: singleton {0} unknown
   .op (.set 1 1)]

theorem demoH_adm : admissibleH 3 (C17.specInit (α := Int)) demoH = true := by decide

theorem demoH_writes : ∀ x ∈ demoH, WritesOf SpecSA.exV 3 x := by
  intro x hx
  simp only [demoH, List.mem_cons, List.mem_nil_iff, or_false] at hx
  rcases hx with rfl | rfl | rfl | rfl | rfl | rfl | rfl | rfl | rfl | rfl | rfl | rfl | rfl | rfl |
    rfl | rfl <;> first | trivial | (intro _; decide)

theorem demoH_min : MinInfo 3 (runH (Table.init 3) demoH).known :=
  minInfo_of_spec SpecSA.exV 3 (by decide) demoH demoH_adm demoH_writes (by
    refine ⟨by decide, by decide, ?_⟩
    have h : ∀ i, i < 3 → (specRunH 3 C17.specInit demoH (2 ^ i)).isSome = true := by decide
    exact h)

/-- hypotheses of `histories_init` satisfiable: after `demoH` the final compute is sound -/
example : ∃ t', sa (runH (Table.init 3) demoH) = .ok t' ∧
    SoundFor (runH (Table.init 3) demoH) t' SpecSA.exV :=
  histories_init .sa (Or.inl rfl) SpecSA.exV 3 (by decide) demoH demoH_adm demoH_writes
    SpecSA.exV_SA demoH_min

example : ∃ t', sac (runH (Table.init 3) demoH) = .ok t' ∧
    SoundFor (runH (Table.init 3) demoH) t' SpecSA.exV :=
  histories_init .sac (Or.inr rfl) SpecSA.exV 3 (by decide) demoH demoH_adm demoH_writes
    SpecSA.exV_SA demoH_min

end ICG.C01
