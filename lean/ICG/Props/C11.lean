/-
  Property C11 — exhaustive search, meta-game and best-states.

  "For any game, starting knowledge and size limit k, the exhaustive search enumerates every set of at most
  k still-unknown coalitions exactly once, and the gap it reports for a set equals the gap of the incomplete
  game in which exactly the starting knowledge plus that set is known - independent of enumeration order
  and of the number of worker processes; the meta-game over coalitions returns the same quantity.
  Best-states reports for each size the minimum mean gap over the sampled games and a set attaining it, so
  no strategy evaluated on those games is better at any step, and for games of the assumed class its curve
  is non-increasing."

  Theorems about ICG.Model.Search (model of gameplay.py, meta_game.py, run/best_states.py and of
  `multiprocessing.Pool.starmap`).  The bound computer `compute` and the gap function `gap` are arbitrary
  parameters; "for games of the assumed class" enters only as the hypothesis of `best_mono` that the gap
  does not increase under more knowledge (that is property C07).
-/
import ICG.Lemmas.Search
import ICG.Lemmas.BestStates
import Mathlib.Algebra.Order.Field.Rat
import Mathlib.Algebra.Order.Ring.Rat

namespace ICG.C11
open ICG ICG.Search Table

/-! ### enumeration -/
section enum
variable {β : Type}

/-- the size bound the code uses: `max_size`, or the number of unknown coalitions for `None` -/
def bound (unknown : List β) : Option Nat → Nat
  | some k => k
  | none => unknown.length

/-- nothing else occurs: an enumerated sequence is a sub-list of the unknown coalitions of length ≤ k -/
theorem enum_mem (unknown : List β) (k : Option Nat) (s : List β) :
    s ∈ possibleSeqs unknown k ↔ s.Sublist unknown ∧ s.length ≤ bound unknown k := by
  cases k <;> simp only [possibleSeqs, bound, List.mem_flatMap, List.mem_range, mem_combos_iff] <;> constructor
  · rintro ⟨i, hi, hs, hl⟩; exact ⟨hs, by omega⟩
  · rintro ⟨hs, hl⟩; exact ⟨s.length, by omega, hs, rfl⟩
  · rintro ⟨i, hi, hs, hl⟩; exact ⟨hs, by omega⟩
  · rintro ⟨hs, hl⟩; exact ⟨s.length, by omega, hs, rfl⟩

/-- … exactly once -/
theorem enum_nodup (unknown : List β) (h : unknown.Nodup) (k : Option Nat) : (possibleSeqs unknown k).Nodup := by
  simp only [possibleSeqs]
  rw [List.nodup_flatMap]
  refine ⟨fun i _ => nodup_combos h, ?_⟩
  refine List.Pairwise.imp ?_ (List.nodup_range (n := _))
  intro i j hij
  simp only [Function.onFun, List.disjoint_left, mem_combos_iff]
  rintro s ⟨_, h1⟩ ⟨_, h2⟩
  exact hij (h1.symm.trans h2)

/-- **C11_enum**: for a duplicate-free list of unknown coalitions every sub-list (= subset) of length ≤ k
    occurs exactly once, nothing else occurs, and the lengths are non-decreasing. -/
theorem enum [DecidableEq β] (unknown : List β) (h : unknown.Nodup) (k : Option Nat) :
    (∀ s : List β, s.Sublist unknown → s.length ≤ bound unknown k → (possibleSeqs unknown k).count s = 1) ∧
    (∀ s ∈ possibleSeqs unknown k, s.Sublist unknown ∧ s.length ≤ bound unknown k) ∧
    ((possibleSeqs unknown k).map List.length).Pairwise (· ≤ ·) := by
  refine ⟨fun s hs hl => ?_, fun s hs => (enum_mem unknown k s).mp hs, ?_⟩
  · exact List.count_eq_one_of_mem (enum_nodup unknown h k) ((enum_mem unknown k s).mpr ⟨hs, hl⟩)
  · simp only [possibleSeqs, List.map_flatMap]
    rw [List.pairwise_flatMap]
    refine ⟨fun i _ => ?_, ?_⟩
    · apply List.pairwise_of_forall_mem_list
      intro a ha b hb
      simp only [List.mem_map, mem_combos_iff] at ha hb
      obtain ⟨_, ⟨_, h1⟩, rfl⟩ := ha
      obtain ⟨_, ⟨_, h2⟩, rfl⟩ := hb
      omega
    · refine List.Pairwise.imp ?_ (List.pairwise_lt_range (n := _))
      intro i j hij x hx y hy
      simp only [List.mem_map, mem_combos_iff] at hx hy
      obtain ⟨_, ⟨_, h1⟩, rfl⟩ := hx
      obtain ⟨_, ⟨_, h2⟩, rfl⟩ := hy
      omega

example : possibleSeqs [3, 5, 6] (some 2) = [[], [3], [5], [6], [3, 5], [3, 6], [5, 6]] := by decide
example : possibleSeqs [3, 5, 6] none = [[], [3], [5], [6], [3, 5], [3, 6], [5, 6], [3, 5, 6]] := by decide
example : (possibleSeqs [3, 5, 6] (some 2)).count [3, 6] = 1 :=
  (enum [3, 5, 6] (by decide) (some 2)).1 [3, 6] (by decide) (by decide)

end enum

/-! ### the value reported for a set -/
section value
variable {α γ : Type} [Zero α]

/-- the reference quantity: the gap of the incomplete game in which exactly `K` (and ∅) is known, with the
    hidden values of game `v`, after the bound computer ran on it -/
def gapOfKnowledge (compute : Table α → Except Err (Table α)) (gap : Table α → Except Err γ)
    (n : Nat) (v : Nat → α) (K : Nat → Bool) : Except Err γ :=
  match compute (exactTable n v K) with
  | .error e => .error e
  | .ok t => gap t

/-- **C11_value**: the task of the exhaustive search reports, for EVERY state `t` of the scratch table it
    receives (stale knowledge, stale bounds, left-overs of earlier tasks of the same chunk), the gap of
    the game knowing exactly `start ∪ set` — because `set_known_values` re-initialises the table. -/
theorem value (compute : Table α → Except Err (Table α)) (gap : Table α → Except Err γ) (v : Nat → α)
    (start : List Nat) (t : Table α) (seq : List Nat) (h : ∀ c, c ∈ seq ∨ c ∈ start → c < 2 ^ t.n) :
    (seqGap compute gap v start t seq).map (·.2) =
      (gapOfKnowledge compute gap t.n v (fun c => decide (c ∈ seq ∨ c ∈ start))).map (fun g => (seq, g)) := by
  have hr : ∀ c ∈ seqIds seq start, c < 2 ^ t.n := fun c hc => h c ((mem_seqIds seq start c).mp hc)
  have hK : (fun c => (seqIds seq start).contains c) = (fun c => decide (c ∈ seq ∨ c ∈ start)) := by
    funext c
    rw [Bool.eq_iff_iff]
    simp [mem_seqIds]
  simp only [seqGap, applySeq, applyIds_ok t v _ hr, hK, gapOfKnowledge]
  cases compute (exactTable t.n v fun c => decide (c ∈ seq ∨ c ∈ start)) with
  | error e => rfl
  | ok t2 => dsimp only; cases gap t2 <;> rfl

/-- the reported gap does not depend on the order in which the ids are written (Python iterates a set) -/
theorem value_order_free (t : Table α) (v : Nat → α) (ids ids' : List Nat) (h : ∀ c, c ∈ ids ↔ c ∈ ids') :
    applyIds t v ids = applyIds t v ids' := applyIds_congr t v ids ids' h

end value

/-! ### independence of the schedule -/
section schedule
variable {α γ : Type} [Zero α]

/-- the result the search reports for one sequence, as a function of the sequence alone -/
def seqResult (compute : Table α → Except Err (Table α)) (gap : Table α → Except Err γ) (n : Nat) (v : Nat → α)
    (start : List Nat) (seq : List Nat) : Except Err (List Nat × γ) :=
  (gapOfKnowledge compute gap n v (fun c => decide (c ∈ seq ∨ c ∈ start))).map (fun g => (seq, g))

theorem seqGap_stateFree (compute : Table α → Except Err (Table α)) (gap : Table α → Except Err γ)
    (hn : ∀ t t', compute t = .ok t' → t'.n = t.n) (n : Nat) (v : Nat → α) (start : List Nat) :
    StateFree (seqGap compute gap v start) (fun t => t.n = n)
      (fun seq => ∀ c, c ∈ seq ∨ c ∈ start → c < 2 ^ n) (seqResult compute gap n v start) := by
  intro t seq ht hseq
  have hv := value compute gap v start t seq (by rw [ht]; exact hseq)
  simp only [seqResult]
  rw [ht] at hv
  rw [← hv]
  cases hst : seqGap compute gap v start t seq with
  | error e => rfl
  | ok p =>
    obtain ⟨t', r⟩ := p
    refine ⟨?_, rfl⟩
    -- the table left behind is `compute`'s output on a table of `n` players
    simp only [seqGap, applySeq] at hst
    have hr' : ∀ c ∈ seqIds seq start, c < 2 ^ t.n := fun c hc => by
      rw [ht]; exact hseq c ((mem_seqIds seq start c).mp hc)
    rw [applyIds_ok t v _ hr'] at hst
    simp only at hst
    cases hc : compute (exactTable t.n v fun c => (seqIds seq start).contains c) with
    | error e => rw [hc] at hst; cases hst
    | ok t2 =>
      rw [hc] at hst
      simp only at hst
      cases hg : gap t2 with
      | error e => rw [hg] at hst; cases hst
      | ok g =>
        rw [hg] at hst
        simp only [Except.ok.injEq, Prod.mk.injEq] at hst
        rw [← hst.1, hn _ _ hc]
        exact ht

/-- **C11_schedule_free**: for EVERY partition of the task list into consecutive chunks (every number of
    worker processes, every chunk size), threading the scratch table through each chunk from the
    parent's snapshot — whatever that snapshot holds in its rows — the results are the sequential map
    of `seqResult`.  Only assumption on the bound computer: it returns a table for the same players. -/
theorem schedule_free (compute : Table α → Except Err (Table α)) (gap : Table α → Except Err γ)
    (hn : ∀ t t', compute t = .ok t' → t'.n = t.n) (v : Nat → α) (start : List Nat) (scratch : Table α)
    (chunks : List (List (List Nat)))
    (hr : ∀ seq ∈ chunks.flatten, ∀ c, c ∈ seq ∨ c ∈ start → c < 2 ^ scratch.n) :
    runPool (seqGap compute gap v start) scratch chunks =
      mapE (seqResult compute gap scratch.n v start) chunks.flatten :=
  runPool_of_stateFree (seqGap_stateFree compute gap hn scratch.n v start) scratch rfl chunks hr

/-- **C11_chunksOf_flatten**: the chunking `Pool(processes).starmap` really uses is such a partition. -/
theorem chunksOf_flatten {τ : Type} (tasks : List τ) (procs : Nat) (hp : 0 < procs) :
    (poolChunks tasks procs).flatten = tasks := poolChunks_flatten tasks hp

/-- hence `get_exploitabilities_of_action_sequences` returns the same list for every number of processes:
    one entry per enumerated set, in enumeration order, each with the gap of `start ∪ set`. -/
theorem search_result (compute : Table α → Except Err (Table α)) (gap : Table α → Except Err γ)
    (hn : ∀ t t', compute t = .ok t' → t'.n = t.n) (t : Table α) (v : Nat → α) (k : Option Nat)
    (procs : Nat) (hp : 0 < procs) :
    getExploitabilities compute gap t v k procs =
      mapE (seqResult compute gap t.n v (knownOf t)) (possibleSeqs (unknownOf t) k) := by
  have hp' : procs ≠ 0 := by omega
  simp only [getExploitabilities, starmap, hp', ↓reduceIte]
  rw [schedule_free compute gap hn v (knownOf t) t, poolChunks_flatten _ hp]
  rw [poolChunks_flatten _ hp]
  intro seq hseq c hc
  have hsub := ((enum_mem (unknownOf t) k seq).mp hseq).1
  rcases hc with hc | hc
  · have := hsub.subset hc
    simp only [unknownOf, allCoalitions, List.mem_filter, List.mem_range] at this
    exact this.1
  · simp only [knownOf, allCoalitions, List.mem_filter, List.mem_range] at hc
    exact hc.1

/-- non-vacuity: 3 players, hidden game `c ↦ 10·c`, identity computer, gap = sum of the known values; a
    scratch table that "knows" coalition 6 with a stale value; two chunkings and the sequential map agree -/
def demoGap (t : Table Int) : Except Err Int := .ok ((knownOf t).map t.hi).sum
def demoScratch : Table Int := (Table.init 3).putValue 6 999

example : (seqGap (fun t => .ok t) demoGap (fun c => 10 * c) [0, 1, 2, 4, 7] demoScratch [3, 5]).toOption.map (·.2)
    = some ([3, 5], 220) := by decide +kernel
example :
    (runPool (seqGap (fun t => .ok t) demoGap (fun c => 10 * c) [0, 1, 2, 4, 7]) demoScratch
      [[[], [3]], [[5]], [[3, 5]]]).toOption = some [([], 140), ([3], 170), ([5], 190), ([3, 5], 220)] ∧
    (runPool (seqGap (fun t => .ok t) demoGap (fun c => 10 * c) [0, 1, 2, 4, 7]) demoScratch
      [[[], [3], [5], [3, 5]]]).toOption = some [([], 140), ([3], 170), ([5], 190), ([3, 5], 220)] := by
  decide +kernel

example : poolChunks (List.range 24) 2 = (List.range 8).map (fun i => [3 * i, 3 * i + 1, 3 * i + 2]) := by decide
example : (poolChunks (List.range 7) 1).map List.length = [2, 2, 2, 1] := by decide

end schedule

/-! ### the meta-game -/
section metagame
variable {α γ : Type} [Zero α]

/-- **C11_meta**: `MetaGame.get_value` of the meta-coalition `m`, whatever its private scratch table holds,
    is the gap of the game knowing exactly minimal information plus the coalitions `m` selects — the very
    quantity (`gapOfKnowledge`) the exhaustive search reports for that set with start = minimal
    information (`value`). -/
theorem meta_value (compute : Table α → Except Err (Table α)) (gap : Table α → Except Err γ) (v : Nat → α)
    (t : Table α) (m : Nat) (inner : List Nat) (hin : metaInner t.n m = .ok inner)
    (hr : ∀ c, c ∈ inner ∨ c ∈ minimalCoalitions t.n → c < 2 ^ t.n) :
    (metaValue compute gap v t m).map (·.2) =
      gapOfKnowledge compute gap t.n v (fun c => decide (c ∈ inner ∨ c ∈ minimalCoalitions t.n)) := by
  have hr' : ∀ c ∈ inner ++ minimalCoalitions t.n, c < 2 ^ t.n := fun c hc => hr c (List.mem_append.mp hc)
  have hK : (fun c => (inner ++ minimalCoalitions t.n).contains c) =
      (fun c => decide (c ∈ inner ∨ c ∈ minimalCoalitions t.n)) := by
    funext c
    rw [Bool.eq_iff_iff]
    simp
  simp only [metaValue, hin, applyIds_ok t v _ hr', hK, gapOfKnowledge]
  cases compute (exactTable t.n v fun c => decide (c ∈ inner ∨ c ∈ minimalCoalitions t.n)) with
  | error e => rfl
  | ok t2 => dsimp only; cases gap t2 <;> rfl

/-- the meta-game and the search task agree on every set, for all scratch tables of both -/
theorem meta_game (compute : Table α → Except Err (Table α)) (gap : Table α → Except Err γ) (v : Nat → α)
    (t t' : Table α) (hn : t'.n = t.n) (m : Nat) (inner : List Nat) (hin : metaInner t.n m = .ok inner)
    (hr : ∀ c, c ∈ inner ∨ c ∈ minimalCoalitions t.n → c < 2 ^ t.n) :
    (metaValue compute gap v t m).map (fun r => (inner, r.2)) =
      (seqGap compute gap v (minimalCoalitions t.n) t' inner).map (·.2) := by
  have h1 := meta_value compute gap v t m inner hin hr
  have h2 := value compute gap v (minimalCoalitions t.n) t' inner (by rw [hn]; exact hr)
  rw [h2, hn, ← h1]
  cases metaValue compute gap v t m <;> rfl

example : metaPlayers 3 = [3, 5, 6] ∧ minimalCoalitions 3 = [0, 7, 1, 2, 4] := by decide +kernel
example : metaInner 3 5 = .ok [3, 6] := by decide +kernel

end metagame

/-! ### best-states -/
section best
variable {α : Type} [Field α] [LinearOrder α] [IsStrictOrderedRing α]

/-- the candidates of size `s`, in enumeration order -/
def ofSize (cands : List (List Nat × List α)) (s : Nat) : List (List Nat × List α) :=
  cands.filter (fun p => p.1.length == s)

/-- **C11_best_min**: `get_best_exploitability` succeeds; a size without candidate keeps the placeholder
    row of −1's and the empty set; for a size with candidates the reported row and set are those of the
    FIRST candidate (in enumeration order) whose mean over the sampled games is minimal.
    (`mean p.2 ≠ -1` excludes the flaw of the placeholder test `np.mean(row) == -1`; it cannot fail for
    non-negative gaps.) -/
theorem best_min (maxSteps reps : Nat) (hreps : 0 < reps) (cands : List (List Nat × List α))
    (hlen : ∀ p ∈ cands, p.1.length ≤ maxSteps) :
    ∃ b, bestStates maxSteps reps cands = .ok b ∧ b.length = maxSteps + 1 ∧
      ∀ s, s ≤ maxSteps →
        (ofSize cands s = [] → b[s]? = some (List.replicate reps (-1), [])) ∧
        (∀ pre p post, ofSize cands s = pre ++ p :: post → mean p.2 ≠ -1 →
          (∀ q ∈ pre, mean p.2 < mean q.2) → (∀ q ∈ post, mean p.2 ≤ mean q.2) →
          b[s]? = some (p.2, p.1)) := by
  obtain ⟨b, h1, h2, h3⟩ := bestFold_rows cands
    (List.replicate (maxSteps + 1) ((List.replicate reps (-1) : List α), ([] : List Nat)))
    (fun p hp => by have := hlen p hp; simp only [List.length_replicate]; omega)
  simp only [List.length_replicate] at h2 h3
  refine ⟨b, h1, h2, fun s hs => ?_⟩
  have hrow := h3 s (by omega)
  simp only [List.getElem_replicate] at hrow
  refine ⟨fun hnil => ?_, fun pre p post hdec hp hpre hpost => ?_⟩
  · rw [hrow]; unfold ofSize at hnil; rw [hnil]; rfl
  · rw [hrow]; unfold ofSize at hdec; rw [hdec]
    rw [foldl_upd_firstMin _ pre post p (mean_replicate (-1) hreps) hp hpre hpost]

/-- consequence: the reported value is the minimum of the mean over ALL enumerated sets of that size and is
    attained by the reported set — so no strategy evaluated on those games is better at that step. -/
theorem best_is_min (maxSteps reps : Nat) (hreps : 0 < reps) (cands : List (List Nat × List α))
    (hlen : ∀ p ∈ cands, p.1.length ≤ maxSteps) (hne : ∀ p ∈ cands, mean p.2 ≠ -1)
    (s : Nat) (hs : s ≤ maxSteps) (hex : ofSize cands s ≠ []) :
    ∃ b p, bestStates maxSteps reps cands = .ok b ∧ p ∈ cands ∧ p.1.length = s ∧ b[s]? = some (p.2, p.1) ∧
      ∀ q ∈ cands, q.1.length = s → mean p.2 ≤ mean q.2 := by
  obtain ⟨b, hb, _, hall⟩ := best_min maxSteps reps hreps cands hlen
  obtain ⟨pre, p, post, hdec, hpre, hpost⟩ := exists_firstMin (fun q : List Nat × List α => mean q.2) _ hex
  have hpmem : p ∈ ofSize cands s := by rw [hdec]; simp
  have hp' : p ∈ cands ∧ p.1.length = s := by
    simpa [ofSize, List.mem_filter] using hpmem
  refine ⟨b, p, hb, hp'.1, hp'.2, (hall s hs).2 pre p post hdec (hne p hp'.1) hpre hpost, fun q hq hqs => ?_⟩
  have hqmem : q ∈ ofSize cands s := by simp [ofSize, List.mem_filter, hq, hqs]
  rw [hdec] at hqmem
  rcases List.mem_append.mp hqmem with h | h
  · exact le_of_lt (hpre q h)
  · rcases List.mem_cons.mp h with rfl | h
    · exact le_rfl
    · exact hpost q h

/-- **C11_best_mono**: the best-states curve does not increase from size `s` to `s+1`, provided every
    size-`s` candidate has a size-`s+1` candidate whose mean is not larger.  `ext_of_monotone` below
    derives that hypothesis for the real enumeration from "the gap does not increase under more
    knowledge" (C07), evaluated on the same sampled games. -/
theorem best_mono (maxSteps reps : Nat) (hreps : 0 < reps) (cands : List (List Nat × List α))
    (hlen : ∀ p ∈ cands, p.1.length ≤ maxSteps) (hne : ∀ p ∈ cands, mean p.2 ≠ -1)
    (s : Nat) (hs : s + 1 ≤ maxSteps) (hex : ofSize cands s ≠ [])
    (hext : ∀ p ∈ cands, p.1.length = s → ∃ q ∈ cands, q.1.length = s + 1 ∧ mean q.2 ≤ mean p.2) :
    ∃ b r1 a1 r2 a2, bestStates maxSteps reps cands = .ok b ∧ b[s]? = some (r1, a1) ∧
      b[s + 1]? = some (r2, a2) ∧ mean r2 ≤ mean r1 := by
  obtain ⟨b, p, hb, hp, hps, hbs, _⟩ := best_is_min maxSteps reps hreps cands hlen hne s (by omega) hex
  obtain ⟨q, hq, hqs, hqp⟩ := hext p hp hps
  have hex' : ofSize cands (s + 1) ≠ [] := by
    intro h
    have : q ∈ ofSize cands (s + 1) := by simp [ofSize, List.mem_filter, hq, hqs]
    rw [h] at this; cases this
  obtain ⟨b', p', hb', _, _, hbs', hmin⟩ := best_is_min maxSteps reps hreps cands hlen hne (s + 1) hs hex'
  have : b' = b := by rw [hb] at hb'; injection hb' with h; exact h.symm
  subst this
  exact ⟨b', p.2, p.1, p'.2, p'.1, hb, hbs, hbs', le_trans (hmin q hq hqs) hqp⟩

/-- the hypothesis of `best_mono` for the real enumeration: if the per-game gaps of a set are pointwise
    not larger than those of any sub-set (monotone under more knowledge, same sampled games), then every
    enumerated set of size `s` has an enumerated super-set of size `s+1` (as long as `s+1` is within the
    size limit and the number of unknown coalitions) with a mean that is not larger. -/
theorem ext_of_monotone (unknown : List Nat) (k : Option Nat) (colOf : List Nat → List α)
    (hmono : ∀ S T : List Nat, S.Sublist T → T.Sublist unknown → List.Forall₂ (· ≤ ·) (colOf T) (colOf S))
    (s : Nat) (hs : s + 1 ≤ bound unknown k) (hs' : s + 1 ≤ unknown.length) :
    let cands := (possibleSeqs unknown k).map (fun q => (q, colOf q))
    ∀ p ∈ cands, p.1.length = s → ∃ q ∈ cands, q.1.length = s + 1 ∧ mean q.2 ≤ mean p.2 := by
  intro cands p hp hps
  simp only [cands, List.mem_map] at hp
  obtain ⟨S, hS, rfl⟩ := hp
  obtain ⟨hsub, _⟩ := (enum_mem unknown k S).mp hS
  simp only at hps
  obtain ⟨T, hST, hTu, hTlen⟩ := sublist_extend hsub (by omega)
  refine ⟨(T, colOf T), ?_, by simp only; omega, mean_le_mean _ _ (hmono S T hST hTu)⟩
  simp only [cands, List.mem_map]
  exact ⟨T, (enum_mem unknown k T).mpr ⟨hTu, by omega⟩, rfl⟩

/-- non-vacuity: three sets of size 1, the first minimiser wins the tie; size 2 has no candidate. -/
example : bestStates (α := Rat) 2 2 [([], [5, 7]), ([3], [4, 2]), ([5], [1, 3]), ([6], [2, 2])] =
    .ok [([5, 7], []), ([1, 3], [5]), ([-1, -1], [])] := by decide +kernel

/-- the theorem is about exactly the function the driver runs: it specialises (by unification alone) to
    `bestStates` instantiated with core `Rat`'s own instances -/
example (cands : List (List Nat × List Rat)) (h : ∀ p ∈ cands, p.1.length ≤ 2) :
    ∃ b, @bestStates Rat Rat.instAdd ⟨0⟩ ⟨1⟩ Rat.instNeg Rat.instDiv Rat.instNatCast inferInstance Rat.instLT
      inferInstance 2 2 cands = .ok b ∧ b.length = 3 := by
  obtain ⟨b, hb, hl, _⟩ := best_min (α := Rat) 2 2 (by decide) cands h
  exact ⟨b, hb, hl⟩

end best

end ICG.C11
