/-
  Property C18 (second half) — "The superadditivity and monotonicity predicates decide exactly their
  textbook definitions (up to the documented relative tolerance)."

  Theorems about ICG.Model.Predicates (the model of game_properties.py and supermodularity_check.py), for
  every player count `n`, every value function `v` and every tolerance:

  * `isSuperadditive_iff`        : `is_superadditive(game, rtol, atol)` never raises and returns True iff
                                   `SAtol n v rtol atol` (∀ disjoint a, b: v a + v b ≤ v (a ∪ b), or within
                                   `|v a + v b − v(a ∪ b)| ≤ atol + rtol·|v(a ∪ b)|`)
  * `isSuperadditive_zero_iff`   : with zero tolerances, iff `SA n v` (ICG.Spec.Bounds)
  * `isMonotoneDecreasing_iff`   : `is_monotone_decreasing(game)` returns True iff `MonoDec n v`
  * `isSam_iff`                  : `is_sam` = both
  * `checkSupermodularity_none_iff`, `checkSupermodularity_some` :
                                   `check_supermodularity(game, tol)` is None iff
                                   ∀ T i S, i ∉ T → S ⊊ T → v(S ∪ i) − v(S) ≤ v(T ∪ i) − v(T) + tol,
                                   and a returned triple violates exactly that.

  The set-semantics / enumeration half of C18 is in ICG.Props.C18 (lemmas: ICG.Lemmas.Enum).
-/
import ICG.Model.Predicates
import ICG.Spec.Bounds
import ICG.Lemmas.Enum
import Mathlib.Algebra.Order.Ring.Defs
import Mathlib.Algebra.Order.Group.Unbundled.Abs
import Mathlib.Algebra.Order.Group.Abs
import Mathlib.Algebra.Order.Ring.Rat

namespace ICG.C18pred
open ICG ICG.Pred

variable {α : Type}

/-! ### bit facts used below -/

/-- the two parts of a disjoint union are recovered by subtraction, and conversely -/
theorem split_of_disjoint {a b : Nat} (h : a &&& b = 0) :
    a &&& (a ||| b) = a ∧ (a ||| b) - a = b := by
  have hsub : a &&& (a ||| b) = a := by
    apply Nat.eq_of_testBit_eq; intro i
    simp only [Nat.testBit_and, Nat.testBit_or]
    cases a.testBit i <;> simp
  exact ⟨hsub, by have := add_eq_or_of_and_eq_zero a b h; omega⟩

theorem fromPlayers_singleton (i : Nat) : fromPlayers [i] = 2 ^ i := by
  apply Nat.eq_of_testBit_eq; intro j
  rw [testBit_fromPlayers, Nat.testBit_two_pow]
  simp [eq_comm]

theorem hasPlayer_iff (T i : Nat) : hasPlayer T i = T.testBit i := by
  unfold hasPlayer contains singleton
  cases h : T.testBit i
  · have : T &&& 2 ^ i ≠ 2 ^ i := by
      intro h0
      have := congrArg (·.testBit i) h0
      simp [Nat.testBit_and, h] at this
    simpa using this
  · have : T &&& 2 ^ i = 2 ^ i := by
      apply Nat.eq_of_testBit_eq; intro j
      simp only [Nat.testBit_and, Nat.testBit_two_pow]
      by_cases hj : i = j
      · subst hj; simp [h]
      · simp [hj]
    simpa using this

theorem mem_players_grand {n i : Nat} : i ∈ players (grand n) ↔ i < n := by
  rw [mem_players, testBit_grand]; simp

/-! ### superadditivity -/

section sa
variable [Ring α] [LinearOrder α]

/-- the textbook definition with the documented tolerance (`np.isclose` semantics: relative to the value
    of the union) -/
def SAtol (n : Nat) (v : Nat → α) (rtol atol : α) : Prop :=
  ∀ a b, a < 2 ^ n → b < 2 ^ n → a &&& b = 0 →
    v a + v b ≤ v (a ||| b) ∨ |v a + v b - v (a ||| b)| ≤ atol + rtol * |v (a ||| b)|

/-- what the vectorised test of one `U` says -/
def RowSA (v : Nat → α) (rtol atol : α) (U : Nat) : Prop :=
  ∀ S, S &&& U = S → v S + v (U - S) ≤ v U ∨ |v S + v (U - S) - v U| ≤ atol + rtol * |v U|

theorem saRowOk_iff {n : Nat} (v : Nat → α) (rtol atol : α) {U : Nat} (hU : U < 2 ^ n) :
    saRowOk v rtol atol U (subIdList U n) = true ↔ RowSA v rtol atol U := by
  simp only [saRowOk, isClose, absV, List.all_eq_true, Bool.or_eq_true, decide_eq_true_iff, RowSA,
    abs_eq_max_neg]
  constructor
  · intro h S hS
    rcases h S ((mem_subIdList hU).mpr hS) with h | h
    · exact Or.inl h
    · exact Or.inr (of_decide_eq_true h)
  · intro h S hS
    rcases h S ((mem_subIdList hU).mp hS) with h | h
    · exact Or.inl h
    · exact Or.inr (decide_eq_true h)

theorem saLoop_spec (n : Nat) (v : Nat → α) (rtol atol : α) :
    ∀ (l : List Nat), (∀ U ∈ l, U < 2 ^ n) →
      ∃ b, saLoop n v rtol atol l = .ok b ∧ (b = true ↔ ∀ U ∈ l, RowSA v rtol atol U)
  | [], _ => ⟨true, rfl, by simp⟩
  | U :: rest, hl => by
    have hU : U < 2 ^ n := hl U List.mem_cons_self
    obtain ⟨b, hb, hiff⟩ := saLoop_spec n v rtol atol rest (fun x hx => hl x (List.mem_cons_of_mem _ hx))
    simp only [saLoop, subCoalitionsId_ok hU, bind, Except.bind]
    by_cases hrow : saRowOk v rtol atol U (subIdList U n) = true
    · rw [if_pos hrow]
      refine ⟨b, hb, ?_⟩
      rw [hiff]
      simp only [List.mem_cons, forall_eq_or_imp]
      exact ⟨fun h => ⟨(saRowOk_iff v rtol atol hU).mp hrow, h⟩, fun h => h.2⟩
    · rw [if_neg hrow]
      refine ⟨false, rfl, ?_⟩
      simp only [List.mem_cons, forall_eq_or_imp, Bool.false_eq_true, false_iff, not_and]
      intro h; exact absurd ((saRowOk_iff v rtol atol hU).mpr h) hrow

/-- the per-`U` tests over all `U` are the definition over all disjoint pairs -/
theorem rows_iff_SAtol (n : Nat) (v : Nat → α) (rtol atol : α) :
    (∀ U ∈ allCoalitions n, RowSA v rtol atol U) ↔ SAtol n v rtol atol := by
  simp only [allCoalitions, List.mem_range]
  constructor
  · intro h a b ha hb hab
    obtain ⟨hsub, hdiff⟩ := split_of_disjoint hab
    have := h (a ||| b) (Nat.or_lt_two_pow ha hb) a hsub
    rwa [hdiff] at this
  · intro h U hU S hS
    obtain ⟨hor, hand⟩ := sub_or_self hS
    have hS' : S < 2 ^ n := sub_lt_two_pow hS hU
    have hb : U - S < 2 ^ n := by omega
    have := h S (U - S) hS' hb hand
    rwa [hor] at this

/-- **`is_superadditive(game, rtol, atol)` decides its definition**: it never raises, and returns True
    exactly when the game is superadditive up to the tolerance. -/
theorem isSuperadditive_iff (n : Nat) (v : Nat → α) (rtol atol : α) :
    ∃ b, isSuperadditive n v rtol atol = .ok b ∧ (b = true ↔ SAtol n v rtol atol) := by
  obtain ⟨b, hb, hiff⟩ := saLoop_spec n v rtol atol (allCoalitions n)
    (fun U hU => by simpa [allCoalitions] using hU)
  exact ⟨b, hb, hiff.trans (rows_iff_SAtol n v rtol atol)⟩

variable [IsStrictOrderedRing α]

/-- with zero tolerances the tolerant definition is plain superadditivity -/
theorem SAtol_zero_iff (n : Nat) (v : Nat → α) : SAtol n v 0 0 ↔ SA n v := by
  unfold SAtol SA
  constructor
  · intro h a b ha hb hab
    rcases h a b ha hb hab with h | h
    · exact h
    · rw [zero_mul, add_zero, abs_nonpos_iff, sub_eq_zero] at h
      exact le_of_eq h
  · intro h a b ha hb hab; exact Or.inl (h a b ha hb hab)

/-- **zero tolerance**: `is_superadditive(game, 0, 0)` returns True iff `SA n v`. -/
theorem isSuperadditive_zero_iff (n : Nat) (v : Nat → α) :
    ∃ b, isSuperadditive n v 0 0 = .ok b ∧ (b = true ↔ SA n v) := by
  obtain ⟨b, hb, hiff⟩ := isSuperadditive_iff n v 0 0
  exact ⟨b, hb, hiff.trans (SAtol_zero_iff n v)⟩

omit [IsStrictOrderedRing α] in
/-- a positive tolerance only accepts more -/
theorem SA_imp_SAtol (n : Nat) (v : Nat → α) (rtol atol : α) (h : SA n v) : SAtol n v rtol atol :=
  fun a b ha hb hab => Or.inl (h a b ha hb hab)

end sa

/-! ### monotonicity -/

section mono
variable [LE α] [DecidableLE α]

theorem monoRowOk_iff {n : Nat} (v : Nat → α) {U : Nat} (hU : U < 2 ^ n) :
    monoRowOk v U (subIdList U n) = true ↔ ∀ S, S &&& U = S → v U ≤ v S := by
  simp only [monoRowOk, List.all_eq_true, decide_eq_true_eq]
  constructor
  · intro h S hS; exact h S ((mem_subIdList hU).mpr hS)
  · intro h S hS; exact h S ((mem_subIdList hU).mp hS)

theorem monoLoop_spec (n : Nat) (v : Nat → α) :
    ∀ (l : List Nat), (∀ U ∈ l, U < 2 ^ n) →
      ∃ b, monoLoop n v l = .ok b ∧ (b = true ↔ ∀ U ∈ l, ∀ S, S &&& U = S → v U ≤ v S)
  | [], _ => ⟨true, rfl, by simp⟩
  | U :: rest, hl => by
    have hU : U < 2 ^ n := hl U List.mem_cons_self
    obtain ⟨b, hb, hiff⟩ := monoLoop_spec n v rest (fun x hx => hl x (List.mem_cons_of_mem _ hx))
    simp only [monoLoop, subCoalitionsId_ok hU, bind, Except.bind]
    by_cases hrow : monoRowOk v U (subIdList U n) = true
    · rw [if_pos hrow]
      refine ⟨b, hb, ?_⟩
      rw [hiff]
      simp only [List.mem_cons, forall_eq_or_imp]
      exact ⟨fun h => ⟨(monoRowOk_iff v hU).mp hrow, h⟩, fun h => h.2⟩
    · rw [if_neg hrow]
      refine ⟨false, rfl, ?_⟩
      simp only [List.mem_cons, forall_eq_or_imp, Bool.false_eq_true, false_iff, not_and]
      intro h; exact absurd ((monoRowOk_iff v hU).mpr h) hrow

/-- **`is_monotone_decreasing(game)` decides its definition**: never raises, True iff `MonoDec n v`. -/
theorem isMonotoneDecreasing_iff (n : Nat) (v : Nat → α) :
    ∃ b, isMonotoneDecreasing n v = .ok b ∧ (b = true ↔ MonoDec n v) := by
  obtain ⟨b, hb, hiff⟩ := monoLoop_spec n v (allCoalitions n)
    (fun U hU => by simpa [allCoalitions] using hU)
  refine ⟨b, hb, hiff.trans ?_⟩
  simp only [allCoalitions, List.mem_range, MonoDec]
  exact ⟨fun h x c hc hx => h c hc x hx, fun h U hU S hS => h S U hU hS⟩

end mono

/-! ### is_sam -/

section sam
variable [Ring α] [LinearOrder α]

/-- **`is_sam`** = superadditive (with the tolerance it is called with) and monotone decreasing -/
theorem isSam_iff (n : Nat) (v : Nat → α) (rtol atol : α) :
    ∃ b, isSam n v rtol atol = .ok b ∧ (b = true ↔ SAtol n v rtol atol ∧ MonoDec n v) := by
  obtain ⟨b1, h1, i1⟩ := isSuperadditive_iff n v rtol atol
  obtain ⟨b2, h2, i2⟩ := isMonotoneDecreasing_iff n v
  simp only [isSam, h1, bind, Except.bind]
  cases b1 with
  | true =>
    refine ⟨b2, by simpa using h2, ?_⟩
    rw [i2]; exact ⟨fun h => ⟨i1.mp rfl, h⟩, fun h => h.2⟩
  | false =>
    refine ⟨false, by simp, ?_⟩
    simp only [Bool.false_eq_true, false_iff, not_and]
    intro h; exact absurd (i1.mpr h) (by simp)

end sam

/-! ### supermodularity -/

section supermod
variable [Add α] [Sub α] [LinearOrder α]

/-- the triple `(T, S, i)` violates supermodularity with tolerance `tol` on `n` players -/
def Violates (n : Nat) (v : Nat → α) (tol : α) (T S i : Nat) : Prop :=
  T < 2 ^ n ∧ i < n ∧ T.testBit i = false ∧ S &&& T = S ∧ S ≠ T ∧
    v (T ||| 2 ^ i) - v T + tol < v (S ||| 2 ^ i) - v S

/-- supermodularity with tolerance, in the marginal-contribution form the code checks -/
def Supermod (n : Nat) (v : Nat → α) (tol : α) : Prop :=
  ∀ T i S, T < 2 ^ n → i < n → T.testBit i = false → S &&& T = S → S ≠ T →
    v (S ||| 2 ^ i) - v S ≤ v (T ||| 2 ^ i) - v T + tol

theorem supermodInner_none_iff (v : Nat → α) (tol : α) (T i : Nat) :
    supermodInner v tol T i (v (T ||| 2 ^ i) - v T) = none ↔
      ∀ S, S &&& T = S → S ≠ T → v (S ||| 2 ^ i) - v S ≤ v (T ||| 2 ^ i) - v T + tol := by
  simp only [supermodInner, List.findSome?_eq_none_iff, List.mem_filter, mem_subCoalitionsObj,
    bne_iff_ne, ne_eq, union, fromPlayers_singleton, and_imp]
  constructor
  · intro h S hS hne
    have := h S hS hne
    by_contra hlt
    rw [not_le] at hlt
    simp [hlt] at this
  · intro h S hS hne
    have := h S hS hne
    simp [not_lt.mpr this]

theorem supermodInner_some (v : Nat → α) (tol : α) (T i : Nat) {r : Nat × Nat × Nat}
    (h : supermodInner v tol T i (v (T ||| 2 ^ i) - v T) = some r) :
    ∃ S, r = (T, S, i) ∧ S &&& T = S ∧ S ≠ T ∧ v (T ||| 2 ^ i) - v T + tol < v (S ||| 2 ^ i) - v S := by
  obtain ⟨S, hS, hf⟩ := List.exists_of_findSome?_eq_some h
  simp only [List.mem_filter, mem_subCoalitionsObj, bne_iff_ne, ne_eq] at hS
  simp only [union, fromPlayers_singleton] at hf
  split at hf
  · rename_i hlt
    injection hf with hf
    exact ⟨S, hf.symm, hS.1, hS.2, hlt⟩
  · cases hf

/-- **`check_supermodularity(game, tol)` is None iff the game is supermodular up to `tol`** -/
theorem checkSupermodularity_none_iff (n : Nat) (v : Nat → α) (tol : α) :
    checkSupermodularity n v tol = none ↔ Supermod n v tol := by
  simp only [checkSupermodularity, List.findSome?_eq_none_iff, allCoalitions, List.mem_range,
    List.mem_filter, mem_players_grand, hasPlayer_iff, Bool.not_eq_true', and_imp, union,
    fromPlayers_singleton, supermodInner_none_iff, Supermod]
  exact ⟨fun h T i S hT hi hb hS hne => h T hT i hi hb S hS hne,
         fun h T hT i hi hb S hS hne => h T i S hT hi hb hS hne⟩

/-- **a returned triple violates supermodularity** (and lies inside the game) -/
theorem checkSupermodularity_some (n : Nat) (v : Nat → α) (tol : α) {T S i : Nat}
    (h : checkSupermodularity n v tol = some (T, S, i)) : Violates n v tol T S i := by
  obtain ⟨T', hT', h1⟩ := List.exists_of_findSome?_eq_some h
  obtain ⟨i', hi', h2⟩ := List.exists_of_findSome?_eq_some h1
  simp only [allCoalitions, List.mem_range] at hT'
  simp only [List.mem_filter, mem_players_grand, hasPlayer_iff, Bool.not_eq_true'] at hi'
  simp only [union, fromPlayers_singleton] at h2
  obtain ⟨S', hr, hS, hne, hlt⟩ := supermodInner_some v tol T' i' h2
  injection hr with hT hr
  injection hr with hS' hi
  subst hT hS' hi
  exact ⟨hT', hi'.1, hi'.2, hS, hne, hlt⟩

/-- hence: some triple is returned iff some triple violates -/
theorem checkSupermodularity_isSome_iff (n : Nat) (v : Nat → α) (tol : α) :
    (checkSupermodularity n v tol).isSome = true ↔ ∃ T S i, Violates n v tol T S i := by
  constructor
  · intro h
    obtain ⟨⟨T, S, i⟩, hr⟩ := Option.isSome_iff_exists.mp h
    exact ⟨T, S, i, checkSupermodularity_some n v tol hr⟩
  · rintro ⟨T, S, i, hT, hi, hb, hS, hne, hlt⟩
    cases hc : checkSupermodularity n v tol with
    | some r => rfl
    | none =>
      have := (checkSupermodularity_none_iff n v tol).mp hc T i S hT hi hb hS hne
      exact absurd hlt (not_lt.mpr this)

end supermod

/-! ### only the rows of the game are read

The model takes the values as a function on all naturals (the array of `get_values()` has exactly 2^n rows);
the verdicts depend on the rows `< 2^n` only. -/

section congr

theorem SAtol_congr [Ring α] [LinearOrder α] {n : Nat} {v w : Nat → α} (h : ∀ c, c < 2 ^ n → v c = w c)
    (rtol atol : α) : SAtol n v rtol atol ↔ SAtol n w rtol atol := by
  unfold SAtol
  constructor
  · intro H a b ha hb hab
    rw [← h a ha, ← h b hb, ← h _ (Nat.or_lt_two_pow ha hb)]; exact H a b ha hb hab
  · intro H a b ha hb hab
    rw [h a ha, h b hb, h _ (Nat.or_lt_two_pow ha hb)]; exact H a b ha hb hab

theorem isSuperadditive_congr [Ring α] [LinearOrder α] {n : Nat} {v w : Nat → α}
    (h : ∀ c, c < 2 ^ n → v c = w c) (rtol atol : α) :
    isSuperadditive n v rtol atol = isSuperadditive n w rtol atol := by
  obtain ⟨b1, h1, i1⟩ := isSuperadditive_iff n v rtol atol
  obtain ⟨b2, h2, i2⟩ := isSuperadditive_iff n w rtol atol
  rw [h1, h2]
  have : b1 = true ↔ b2 = true := i1.trans ((SAtol_congr h rtol atol).trans i2.symm)
  cases b1 <;> cases b2 <;> simp_all

theorem MonoDec_congr [LE α] {n : Nat} {v w : Nat → α} (h : ∀ c, c < 2 ^ n → v c = w c) :
    MonoDec n v ↔ MonoDec n w := by
  unfold MonoDec
  constructor
  · intro H x c hc hx; rw [← h c hc, ← h x (sub_lt_two_pow hx hc)]; exact H x c hc hx
  · intro H x c hc hx; rw [h c hc, h x (sub_lt_two_pow hx hc)]; exact H x c hc hx

theorem isMonotoneDecreasing_congr [LE α] [DecidableLE α] {n : Nat} {v w : Nat → α}
    (h : ∀ c, c < 2 ^ n → v c = w c) : isMonotoneDecreasing n v = isMonotoneDecreasing n w := by
  obtain ⟨b1, h1, i1⟩ := isMonotoneDecreasing_iff n v
  obtain ⟨b2, h2, i2⟩ := isMonotoneDecreasing_iff n w
  rw [h1, h2]
  have : b1 = true ↔ b2 = true := i1.trans ((MonoDec_congr h).trans i2.symm)
  cases b1 <;> cases b2 <;> simp_all

theorem Supermod_congr [Add α] [Sub α] [LinearOrder α] {n : Nat} {v w : Nat → α}
    (h : ∀ c, c < 2 ^ n → v c = w c) (tol : α) : Supermod n v tol ↔ Supermod n w tol := by
  have key : ∀ T i, T < 2 ^ n → i < n → T ||| 2 ^ i < 2 ^ n := fun T i hT hi =>
    Nat.or_lt_two_pow hT (Nat.pow_lt_pow_right (by omega) hi)
  unfold Supermod
  constructor
  · intro H T i S hT hi hb hS hne
    have hS' := sub_lt_two_pow hS hT
    rw [← h _ (key S i hS' hi), ← h S hS', ← h _ (key T i hT hi), ← h T hT]
    exact H T i S hT hi hb hS hne
  · intro H T i S hT hi hb hS hne
    have hS' := sub_lt_two_pow hS hT
    rw [h _ (key S i hS' hi), h S hS', h _ (key T i hT hi), h T hT]
    exact H T i S hT hi hb hS hne

end congr

/-! ### concrete instances (the hypotheses are satisfiable; both verdicts occur) -/

/-- v(S) = |S|² on 2 players: superadditive, supermodular, not monotone decreasing -/
def sq2 : Nat → Int := fun c => if c = 0 then 0 else if c = 3 then 4 else 1

example : isSuperadditive 2 sq2 0 0 = .ok true := by decide
example : isMonotoneDecreasing 2 sq2 = .ok false := by decide
example : checkSupermodularity 2 sq2 0 = none := by decide +kernel
/-- v = (0, 1, 1, 1): not superadditive (1 + 1 > 1) unless the tolerance allows it; the first violating
    triple of supermodularity is T = {0}, S = ∅, i = 1 -/
def flat2 : Nat → Int := fun c => if c = 0 then 0 else 1

example : isSuperadditive 2 flat2 0 0 = .ok false := by decide
example : isSuperadditive 2 flat2 1 0 = .ok true := by decide
example : isSuperadditive 2 flat2 0 1 = .ok true := by decide
example : checkSupermodularity 2 flat2 0 = some (1, 0, 1) := by decide +kernel
example : checkSupermodularity 2 flat2 1 = none := by decide +kernel
example : isSam 2 (fun c => - sq2 c) 0 0 = .ok false := by decide
example : isSam 3 (fun c => - (size c : Int)) 0 0 = .ok true := by decide +kernel

/-! ### the theorems are about the functions the driver runs

`Driver/Bits.lean` instantiates the model at core `Rat` with core's own instances; the theorems above,
stated over Mathlib's order classes, specialise to exactly those instances (definitional unfolding). -/

section driver
variable (n : Nat) (v : Nat → Rat) (rtol atol tol : Rat)

example : ∃ b, @isSuperadditive Rat Rat.instAdd Rat.instSub Rat.instMul Rat.instNeg Rat.instMax Rat.instLE
    Rat.instDecidableLe n v rtol atol = .ok b ∧ (b = true ↔ SAtol n v rtol atol) :=
  isSuperadditive_iff n v rtol atol

example : ∃ b, @isMonotoneDecreasing Rat Rat.instLE Rat.instDecidableLe n v = .ok b ∧
    (b = true ↔ MonoDec n v) :=
  isMonotoneDecreasing_iff n v

example : @checkSupermodularity Rat Rat.instAdd Rat.instSub Rat.instLT
    Rat.instDecidableLt n v tol = none ↔ Supermod n v tol :=
  checkSupermodularity_none_iff n v tol

end driver

end ICG.C18pred
