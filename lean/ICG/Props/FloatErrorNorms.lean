/-
  ICG.Props.FloatErrorNorms — the gap functions `l1_norm` / `linf_norm` (norms.py) under rounding, and what that
  means for the clause "the reward is … never positive, up to float rounding" of the environment (C09).

  The reward of the environment is the NEGATED gap.  For the exploitability gap the rounded value can be
  negative by the slack of `ICG.ApproxShapley.exploitability_nonneg_approx`.  For the norms no slack is
  needed at all: `abs` is exact, and ANY rounded addition that maps two non-negative operands to a
  non-negative result (every IEEE rounding mode does: rounding is monotone and `0` is representable) keeps
  the sum non-negative, whatever the rounded subtraction returned.  So the rounded `l1` / `linf` gaps are
  `≥ 0` EXACTLY, and the reward `−gap` is `≤ 0` exactly; in addition the rounded `l1` is within
  `2^n·(2δ)` of the exact one.

  `l1Approx` / `linfApprox` perform the operations of the model (`ICG.l1`, `ICG.linf`: widths over all `2^n`
  rows in id order, `abs`, sum from 0 left to right / maximum) with the subtraction and the addition
  replaced by `sub'`, `add'`.
-/
import ICG.Props.FloatErrorShapley

namespace ICG
namespace ApproxNorms

open ApproxShapley

variable {α : Type} [Field α] [LinearOrder α] [IsStrictOrderedRing α]

/-- `np.abs(upper − lower)` row by row with a rounded subtraction -/
def absWidths (sub' : α → α → α) (n : Nat) (lo hi : Nat → α) : List α :=
  (allCoalitions n).map (fun c => absv (sub' (hi c) (lo c)))

/-- `np.linalg.norm(upper − lower, 1)` with rounded subtraction and addition -/
def l1Approx (add' sub' : α → α → α) (n : Nat) (lo hi : Nat → α) : α :=
  sumApprox add' (absWidths sub' n lo hi)

/-- `np.linalg.norm(upper − lower, inf)` with a rounded subtraction (`abs` and `max` are exact) -/
def linfApprox (sub' : α → α → α) (n : Nat) (lo hi : Nat → α) : Except Err α :=
  match listMax? (absWidths sub' n lo hi) with
  | some m => .ok m
  | none => .error .value

theorem absv_eq_abs (x : α) : absv x = |x| := rfl

theorem absv_nonneg (x : α) : 0 ≤ absv x := by
  rw [absv_eq_abs]; exact abs_nonneg x

/-- with the exact operations the rounded norms are the model's -/
theorem approx_exact (n : Nat) (lo hi : Nat → α) :
    l1Approx (· + ·) (· - ·) n lo hi = l1 n lo hi ∧ linfApprox (· - ·) n lo hi = linf n lo hi := by
  refine ⟨?_, ?_⟩
  · simp [l1Approx, absWidths, l1, widths, sumApprox, listSum, List.map_map, Function.comp_def]
  · simp only [linfApprox, absWidths, linf, widths, List.map_map, Function.comp_def]
    cases listMax? (List.map (fun c => absv (hi c - lo c)) (allCoalitions n)) <;> rfl

/-- a left fold with a sign-preserving addition over non-negative entries stays non-negative -/
theorem foldl_nonneg {add' : α → α → α} (hadd : ∀ a b, 0 ≤ a → 0 ≤ b → 0 ≤ add' a b) :
    ∀ (l : List α) (z : α), 0 ≤ z → (∀ x ∈ l, 0 ≤ x) → 0 ≤ l.foldl add' z
  | [], z, hz, _ => hz
  | x :: l, z, hz, hl => by
    simp only [List.foldl_cons]
    exact foldl_nonneg hadd l (add' z x) (hadd z x hz (hl x (by simp))) (fun y hy => hl y (by simp [hy]))

/-- **the rounded `l1` gap is non-negative exactly** — for ANY rounded subtraction and any addition that keeps
    non-negative operands non-negative; no slack. -/
theorem l1Approx_nonneg {add' sub' : α → α → α} (hadd : ∀ a b, 0 ≤ a → 0 ≤ b → 0 ≤ add' a b)
    (n : Nat) (lo hi : Nat → α) : 0 ≤ l1Approx add' sub' n lo hi := by
  unfold l1Approx sumApprox
  refine foldl_nonneg hadd _ 0 le_rfl ?_
  intro x hx
  simp only [absWidths, List.mem_map] at hx
  obtain ⟨c, _, rfl⟩ := hx
  exact absv_nonneg _

theorem listMax?_nonneg : ∀ (l : List α) (m : α), (∀ x ∈ l, 0 ≤ x) → listMax? l = some m → 0 ≤ m
  | [], _, _, h => by simp [listMax?] at h
  | x :: l, m, hl, h => by
    simp only [listMax?] at h
    have hx : 0 ≤ x := hl x (by simp)
    have : ∀ (l : List α) (z : α), 0 ≤ z → 0 ≤ l.foldl max z := by
      intro l
      induction l with
      | nil => intro z hz; exact hz
      | cons y l ih => intro z hz; simp only [List.foldl_cons]; exact ih _ (le_trans hz (le_max_left _ _))
    cases h
    exact this l x hx

/-- **the rounded `linf` gap is non-negative exactly** (and defined exactly when the exact one is: `2^n ≥ 1` rows) -/
theorem linfApprox_nonneg (sub' : α → α → α) (n : Nat) (lo hi : Nat → α) {m : α}
    (h : linfApprox sub' n lo hi = .ok m) : 0 ≤ m := by
  unfold linfApprox at h
  cases hm : listMax? (absWidths sub' n lo hi) with
  | none => rw [hm] at h; cases h
  | some m' =>
    rw [hm] at h
    cases h
    refine listMax?_nonneg _ _ ?_ hm
    intro x hx
    simp only [absWidths, List.mem_map] at hx
    obtain ⟨c, _, rfl⟩ := hx
    exact absv_nonneg _

/-- the reward `−gap` of the environment with a norm gap is never positive, exactly, in rounded arithmetic -/
theorem reward_l1_nonpos {add' sub' : α → α → α} (hadd : ∀ a b, 0 ≤ a → 0 ≤ b → 0 ≤ add' a b)
    (n : Nat) (lo hi : Nat → α) : -(l1Approx add' sub' n lo hi) ≤ 0 :=
  neg_nonpos.mpr (l1Approx_nonneg hadd n lo hi)

theorem reward_linf_nonpos (sub' : α → α → α) (n : Nat) (lo hi : Nat → α) {m : α}
    (h : linfApprox sub' n lo hi = .ok m) : -m ≤ 0 :=
  neg_nonpos.mpr (linfApprox_nonneg sub' n lo hi h)

/-- **error of the rounded `l1` gap**: each of the `2^n` widths carries the subtraction's error (`abs` is
    1-Lipschitz), each addition adds `δ`. -/
theorem l1Approx_error {add' sub' : α → α → α} {δ : α} (hadd : ∀ a b, |add' a b - (a + b)| ≤ δ)
    (hsub : ∀ a b, |sub' a b - (a - b)| ≤ δ) (n : Nat) (lo hi : Nat → α) :
    |l1Approx add' sub' n lo hi - l1 n lo hi| ≤ (2 ^ n : α) * (2 * δ) := by
  have hlen : (allCoalitions n).length = 2 ^ n := by simp [allCoalitions]
  have h := sumApprox_error_map (add' := add') (δ := δ) hadd
    (fun c => absv (sub' (hi c) (lo c))) (fun c => absv (hi c - lo c)) (fun _ => δ) (allCoalitions n)
    (by
      intro c _
      show |absv (sub' (hi c) (lo c)) - absv (hi c - lo c)| ≤ δ
      rw [absv_eq_abs, absv_eq_abs]
      exact le_trans (abs_abs_sub_abs_le_abs_sub _ _) (hsub _ _))
  have hl1 : l1 n lo hi = listSum ((allCoalitions n).map (fun c => absv (hi c - lo c))) := by
    simp [l1, widths, List.map_map, Function.comp_def]
  have hsum : ((allCoalitions n).map (fun _ => δ)).sum = (2 ^ n : α) * δ := by
    simp [hlen]
  unfold l1Approx absWidths
  rw [hl1]
  rw [hsum, hlen] at h
  calc _ ≤ (2 ^ n : α) * δ + ((2 ^ n : Nat) : α) * δ := h
    _ = (2 ^ n : α) * (2 * δ) := by push_cast; ring

/-! ### non-vacuity: an addition that rounds towards zero by one relative unit 1/1024 (sign-preserving) and a
    subtraction that is off by 1/8: the rounded `l1` differs from the exact one and is still `≥ 0` -/

def addDown (a b : ℚ) : ℚ := (a + b) * (1023 / 1024)
def subOff (a b : ℚ) : ℚ := a - b - 1 / 8

theorem addDown_nonneg (a b : ℚ) (ha : 0 ≤ a) (hb : 0 ≤ b) : 0 ≤ addDown a b := by
  unfold addDown
  have : 0 ≤ a + b := add_nonneg ha hb
  positivity

def exLo : Nat → ℚ := fun c => [0, 1, 1, 2, 1, 2, 2, 5].getD c 0
def exHi : Nat → ℚ := fun c => [0, 1, 1, 3, 1, 7 / 2, 3, 5].getD c 0

example : l1 3 exLo exHi = 7 / 2 := by decide +kernel
example : l1Approx addDown subOff 3 exLo exHi ≠ l1 3 exLo exHi := by decide +kernel
example : 0 ≤ l1Approx addDown subOff 3 exLo exHi := l1Approx_nonneg addDown_nonneg 3 exLo exHi
example : linfApprox subOff 3 exLo exHi = .ok (11 / 8) := by decide +kernel

end ApproxNorms
end ICG
