/-
  Property C08 — the bounds depend only on the current knowledge.

  "The result of a bound computation (reference, cached, and the monotone approximation with any number
   of repetitions) is a function of the set of revealed coalitions and their values alone: stale lower /
   upper bounds left in unknown rows by earlier computations, scalar bound writes or bulk resets have no
   influence.  Hence computing twice changes nothing, any two histories that end in the same knowledge
   give the same bounds, and reveal → compute → un-reveal → compute restores the bounds exactly."

  Theorems about the MODEL functions `sa`, `sac`, `sam r` (through `Computer.run`), all `n`, every
  linearly ordered value type with `+` and `-` (so every linearly ordered abelian group), obtained from the refinement (`compute_eq_spec` and its
  corollaries in ICG.Lemmas.RefineCor) with `enumFacts` plugged in.

  * `knowledge_only`, `knowledge_only_sa/_sac/_sam`
  * `idempotent`, `idempotent'`
  * `undo`            : `compute ∘ unreveal c ∘ compute ∘ reveal c x` gives back the freshly computed table
                        itself (every row, every flag, `n`), when `c` was unknown
  * `history_free`    : two histories (C17 operations interleaved with computes, `C01.HOp`) from a new
                        game that end in the same spec-knowledge give row-wise equal compute results
  The environment-level undo, `C08_env_undo` (`unstep a (step a e)` restores bounds, gap, reward,
  observation and step counter) is about ICG/Model/Env.lean and lives in the environment agent's files
  (ICG/Lemmas/EnvUndo.lean, ICG/Props/C09.lean), not here; it rests on `undo` below.
-/
import ICG.Lemmas.BoundsCommon
import ICG.Props.C01

namespace ICG.C08
open ICG Table
open ICG.BoundsCommon

variable {α : Type}

section main
/- the value type only needs `+`, `-` and a linear order: no algebraic law plays a role in C08.  In
   particular the theorems hold for every `[AddCommGroup α] [LinearOrder α] [IsOrderedAddMonoid α]`
   (and specialise to the model at core `Int` / `Rat`, see the `example`s). -/
variable [Add α] [Sub α] [LinearOrder α]

/-- **C08_knowledge_only.**  Two tables with the same `n`, the same flags and the same values on known
    rows — whatever their unknown rows hold — give row-wise equal results, for every registered
    computer; both runs succeed. -/
theorem knowledge_only (k : Computer) (t s : Table α) (hn : t.n = s.n) (hk : t.known = s.known)
    (hv : ∀ c, c < 2 ^ t.n → t.known c = true → t.lo c = s.lo c)
    (hmin : MinInfo t.n t.known) (hinvt : t.Inv) (hinvs : s.Inv) :
    ∃ t' s', k.run t = .ok t' ∧ k.run s = .ok s' ∧ t'.n = s'.n ∧ t'.known = s'.known ∧
      ∀ c, c < 2 ^ t.n → t'.lo c = s'.lo c ∧ t'.hi c = s'.hi c :=
  compute_knowledge_only enumFacts k t s hn hk hv hmin hinvt hinvs

theorem knowledge_only_sa (t s : Table α) (hn : t.n = s.n) (hk : t.known = s.known)
    (hv : ∀ c, c < 2 ^ t.n → t.known c = true → t.lo c = s.lo c)
    (hmin : MinInfo t.n t.known) (hinvt : t.Inv) (hinvs : s.Inv) :
    ∃ t' s', sa t = .ok t' ∧ sa s = .ok s' ∧ t'.n = s'.n ∧ t'.known = s'.known ∧
      ∀ c, c < 2 ^ t.n → t'.lo c = s'.lo c ∧ t'.hi c = s'.hi c :=
  knowledge_only .sa t s hn hk hv hmin hinvt hinvs

theorem knowledge_only_sac (t s : Table α) (hn : t.n = s.n) (hk : t.known = s.known)
    (hv : ∀ c, c < 2 ^ t.n → t.known c = true → t.lo c = s.lo c)
    (hmin : MinInfo t.n t.known) (hinvt : t.Inv) (hinvs : s.Inv) :
    ∃ t' s', sac t = .ok t' ∧ sac s = .ok s' ∧ t'.n = s'.n ∧ t'.known = s'.known ∧
      ∀ c, c < 2 ^ t.n → t'.lo c = s'.lo c ∧ t'.hi c = s'.hi c :=
  knowledge_only .sac t s hn hk hv hmin hinvt hinvs

theorem knowledge_only_sam (r : Nat) (t s : Table α) (hn : t.n = s.n) (hk : t.known = s.known)
    (hv : ∀ c, c < 2 ^ t.n → t.known c = true → t.lo c = s.lo c)
    (hmin : MinInfo t.n t.known) (hinvt : t.Inv) (hinvs : s.Inv) :
    ∃ t' s', sam r t = .ok t' ∧ sam r s = .ok s' ∧ t'.n = s'.n ∧ t'.known = s'.known ∧
      ∀ c, c < 2 ^ t.n → t'.lo c = s'.lo c ∧ t'.hi c = s'.hi c :=
  knowledge_only (.sam r) t s hn hk hv hmin hinvt hinvs

/-- two tables of the same partial game whose unknown rows hold different junk -/
def exS : Table Int :=
  { Ex.exT with lo := fun c => if Ex.exT.known c then Ex.exT.lo c else -1000 + c,
                hi := fun c => if Ex.exT.known c then Ex.exT.hi c else 7 }

theorem exS_agree : exS.Agree SpecSA.exV := by
  intro c hc hk
  have hk' : Ex.exT.known c = true := hk
  have := Ex.exT_agree c hc hk'
  simp only [exS, hk', if_true]
  exact this

/-- hypotheses satisfiable, stale rows differ (`99 / -99` against `-997 / 7` at row 3) -/
example (k : Computer) : ∃ t' s', k.run Ex.exT = .ok t' ∧ k.run exS = .ok s' ∧ t'.n = s'.n ∧
    t'.known = s'.known ∧ ∀ c, c < 2 ^ Ex.exT.n → t'.lo c = s'.lo c ∧ t'.hi c = s'.hi c :=
  knowledge_only k Ex.exT exS rfl rfl
    (fun c hc hk => by rw [(Ex.exT_agree c hc hk).1, (exS_agree c hc hk).1])
    Ex.exT_min Ex.exT_agree.inv exS_agree.inv

example : Ex.exT.lo 3 = 99 ∧ exS.lo 3 = -997 ∧ Ex.exT.hi 3 = -99 ∧ exS.hi 3 = 7 := by decide

/-- **C08_idempotent.**  Running a computer on its own output returns that output unchanged (the whole
    table, not only the rows of the game). -/
theorem idempotent (k : Computer) (t : Table α) (hmin : MinInfo t.n t.known) (hinv : t.Inv)
    {t' : Table α} (hr : k.run t = .ok t') : k.run t' = .ok t' :=
  compute_idempotent enumFacts k t hmin hinv hr

/-- the same with the success of both runs stated -/
theorem idempotent' (k : Computer) (t : Table α) (hmin : MinInfo t.n t.known) (hinv : t.Inv) :
    ∃ t', k.run t = .ok t' ∧ k.run t' = .ok t' := by
  obtain ⟨t', h, _⟩ := run_spec k t hmin hinv
  exact ⟨t', h, idempotent k t hmin hinv h⟩

example (r : Nat) : ∃ t', sam r Ex.samT = .ok t' ∧ sam r t' = .ok t' :=
  idempotent' (.sam r) Ex.samT Ex.samT_min Ex.samT_agree.inv

example : ∃ t', sa Ex.exT = .ok t' ∧ sa t' = .ok t' :=
  idempotent' .sa Ex.exT Ex.exT_min Ex.exT_agree.inv

/-- the output of a computer is again a `MinInfo` table satisfying `Inv` -/
theorem output_inv (k : Computer) (t : Table α) (hmin : MinInfo t.n t.known) (hinv : t.Inv)
    {t' : Table α} (hr : k.run t = .ok t') : MinInfo t'.n t'.known ∧ t'.Inv :=
  compute_output_inv enumFacts k t hmin hinv hr

/-- **C08_undo.**  `t1` is a freshly computed table (`k.run t0 = ok t1`), `c` a coalition of the game
    that is unknown in it, `x` any value.  Then reveal, compute (with any registered computer `k'`),
    un-reveal and compute again all succeed, and the last compute returns `t1` itself: every row (inside
    and outside the game), every flag and `n` are restored. -/
theorem undo [Zero α] (k k' : Computer) (t0 t1 : Table α) (hmin : MinInfo t0.n t0.known) (hinv : t0.Inv)
    (hfresh : k.run t0 = .ok t1) (c : Nat) (hc : c < 2 ^ t1.n) (hkc : t1.known c = false) (x : α) :
    ∃ t2 t3 t4, t1.reveal x c = .ok t2 ∧ k'.run t2 = .ok t3 ∧ t3.unreveal c = .ok t4 ∧
      k.run t4 = .ok t1 := by
  obtain ⟨hmin1, hinv1⟩ := output_inv k t0 hmin hinv hfresh
  have hfix : k.run t1 = .ok t1 := idempotent k t0 hmin hinv hfresh
  -- reveal
  have hrows1 : t1.rows = 2 ^ t1.n := rfl
  have hrev : t1.reveal x c = .ok (t1.putValue c x) := by
    simp [Table.reveal, hrows1, hc, hkc]
  -- the revealed table: more knowledge, still `Inv`
  have hmin2 : MinInfo (t1.putValue c x).n (t1.putValue c x).known := by
    refine ⟨?_, ?_, ?_⟩
    · show (if 0 = c then true else t1.known 0) = true
      split
      · rfl
      · exact hmin1.1
    · show (if 2 ^ t1.n - 1 = c then true else t1.known (2 ^ t1.n - 1)) = true
      split
      · rfl
      · exact hmin1.2.1
    · intro i hi
      show (if 2 ^ i = c then true else t1.known (2 ^ i)) = true
      split
      · rfl
      · exact hmin1.2.2 i hi
  have hinv2 : (t1.putValue c x).Inv := by
    intro d hd hk
    by_cases hdc : d = c
    · simp [Table.putValue, hdc]
    · have hk' : t1.known d = true := by simpa [Table.putValue, hdc] using hk
      have := hinv1 d hd hk'
      simpa [Table.putValue, hdc] using this
  obtain ⟨t3, h3, h3n, h3k, _, h3out⟩ := run_spec k' (t1.putValue c x) hmin2 hinv2
  obtain ⟨_, _, _, h3kn⟩ := run_frame hinv2 h3
  -- un-reveal
  have hrows3 : t3.rows = 2 ^ t1.n := by show 2 ^ t3.n = _; rw [h3n]; rfl
  have hk3c : t3.known c = true := by rw [h3k]; simp [Table.putValue]
  have hunrev : t3.unreveal c = .ok (t3.clearRow c) := by
    simp [Table.unreveal, hrows3, hc, hk3c]
  -- the un-revealed table has the flags of `t1` and its known values
  have h4n : (t3.clearRow c).n = t1.n := h3n
  have h4k : (t3.clearRow c).known = t1.known := by
    funext d
    by_cases hdc : d = c
    · simp [Table.clearRow, hdc, hkc]
    · simp [Table.clearRow, hdc, h3k, Table.putValue]
  have h4v : ∀ d, d < 2 ^ t1.n → t1.known d = true →
      (t3.clearRow c).lo d = t1.lo d ∧ (t3.clearRow c).hi d = t1.hi d := by
    intro d hd hk
    have hdc : d ≠ c := by rintro rfl; rw [hkc] at hk; cases hk
    have hk2 : (t1.putValue c x).known d = true := by simp [Table.putValue, hdc, hk]
    obtain ⟨e1, e2⟩ := h3kn d hd hk2
    simp only [Table.clearRow, hdc, if_false]
    rw [e1, e2]
    simp [Table.putValue, hdc]
  have hinv4 : (t3.clearRow c).Inv := by
    intro d hd hk
    rw [h4n] at hd; rw [h4k] at hk
    rw [(h4v d hd hk).1, (h4v d hd hk).2]
    exact hinv1 d hd hk
  -- knowledge only: the last compute agrees with `k.run t1 = t1` on the rows of the game
  obtain ⟨t5, s5, g1, g2, g3, g4, g5⟩ := knowledge_only k (t3.clearRow c) t1 h4n h4k
    (fun d hd hk => (h4v d (by rw [← h4n]; exact hd) (by rw [← h4k]; exact hk)).1)
    (by rw [h4n, h4k]; exact hmin1) hinv4 hinv1
  rw [hfix] at g2; cases g2
  obtain ⟨f1, f2, f3, _⟩ := run_frame hinv4 g1
  refine ⟨_, t3, _, hrev, h3, hunrev, ?_⟩
  rw [g1]
  congr 1
  apply Refine.table_ext g3 g4
  · intro d
    by_cases hd : d < 2 ^ t1.n
    · exact (g5 d (by rw [h4n]; exact hd)).1
    · have hd' : 2 ^ (t3.clearRow c).n ≤ d := by rw [h4n]; omega
      have hdc : d ≠ c := by omega
      rw [(f3 d hd').1]
      simp only [Table.clearRow, hdc, if_false]
      rw [(h3out d (by show 2 ^ t1.n ≤ d; omega)).1]
      simp [Table.putValue, hdc]
  · intro d
    by_cases hd : d < 2 ^ t1.n
    · exact (g5 d (by rw [h4n]; exact hd)).2
    · have hd' : 2 ^ (t3.clearRow c).n ≤ d := by rw [h4n]; omega
      have hdc : d ≠ c := by omega
      rw [(f3 d hd').2]
      simp only [Table.clearRow, hdc, if_false]
      rw [(h3out d (by show 2 ^ t1.n ≤ d; omega)).2]
      simp [Table.putValue, hdc]

/-- hypotheses satisfiable: reveal the pair {0,1} (id 3, unknown in `exT`) with its true value 4,
    computing with the reference computer, the cached computer in between -/
example : ∃ t1, sa Ex.exT = .ok t1 ∧ ∃ t2 t3 t4, t1.reveal 4 3 = .ok t2 ∧ sac t2 = .ok t3 ∧
    t3.unreveal 3 = .ok t4 ∧ sa t4 = .ok t1 := by
  obtain ⟨t1, h1, hn, hk, _⟩ := run_spec .sa Ex.exT Ex.exT_min Ex.exT_agree.inv
  refine ⟨t1, h1, ?_⟩
  exact undo .sa .sac Ex.exT t1 Ex.exT_min Ex.exT_agree.inv h1 3 (by rw [hn]; decide)
    (by rw [hk]; decide) 4

/-- … and with a value that is NOT the true one (the statement does not need it), SAM computer -/
example (r : Nat) : ∃ t1, sam r Ex.samT = .ok t1 ∧ ∃ t2 t3 t4, t1.reveal 1000 5 = .ok t2 ∧
    sam r t2 = .ok t3 ∧ t3.unreveal 5 = .ok t4 ∧ sam r t4 = .ok t1 := by
  obtain ⟨t1, h1, hn, hk, _⟩ := run_spec (.sam r) Ex.samT Ex.samT_min Ex.samT_agree.inv
  refine ⟨t1, h1, ?_⟩
  exact undo (.sam r) (.sam r) Ex.samT t1 Ex.samT_min Ex.samT_agree.inv h1 5 (by rw [hn]; decide)
    (by rw [hk]; decide) 1000

end main

/-! ### history-freeness

Histories are those of C01: C17 operations (returning or raising) interleaved with compute steps
(`C01.HOp`, `C01.runH`; a raising compute leaves the table as it was).  The abstract known-map after a
history (`C01.specRunH`, coalition ↦ value if known) is computed from the operations alone. -/

section history
variable [AddCommGroup α] [LinearOrder α]
open ICG.C01

/-- a step keeps the rows outside the game blank (unknown, both cells 0) -/
theorem applyH_blank {t : Table α} (hinv : t.Inv) (hb : C17.Blank t) (x : HOp α) :
    C17.Blank (applyH t x) := by
  cases x with
  | op o => exact C17.applyOp_blank hb o
  | compute k =>
    simp only [applyH]
    rcases C17.keep_cases t (k.run t) with ⟨t', ht', hk⟩ | ⟨e, _, hk⟩
    · rw [hk]
      obtain ⟨f1, f2, f3, _⟩ := run_frame hinv ht'
      intro c hc
      rw [f1] at hc
      obtain ⟨b1, b2, b3⟩ := hb c hc
      exact ⟨by rw [f2]; exact b1, by rw [(f3 c hc).1]; exact b2, by rw [(f3 c hc).2]; exact b3⟩
    · rw [hk]; exact hb

theorem runH_blank : ∀ (h : List (HOp α)) {t : Table α} {s : C17.Spec α}, C17.Rel t s → C17.Blank t →
    admissibleH t.n s h = true → C17.Blank (runH t h)
  | [], _, _, _, hb, _ => hb
  | x :: h, t, s, hrel, hb, hadm => by
    simp only [admissibleH, Bool.and_eq_true] at hadm
    obtain ⟨hn, hr⟩ := refinesH hrel x hadm.1
    exact runH_blank h hr (applyH_blank (inv_of_rel hrel) hb x) (by rw [hn]; exact hadm.2)

/-- **C08_history_free.**  Two admissible histories from a new game on `n` players whose known-maps agree
    at the end (same coalitions known, with the same values) — whatever else they did: scalar bound
    writes, bulk bound writes, computes with any computers, raising calls — give the SAME table after a
    compute (every row, every flag), for every registered computer; the computes succeed as soon as one
    final table has minimal information. -/
theorem history_free (k : Computer) (n : Nat) (h1 h2 : List (HOp α))
    (ha1 : admissibleH n (C17.specInit (α := α)) h1 = true)
    (ha2 : admissibleH n (C17.specInit (α := α)) h2 = true)
    (hsame : ∀ c, c < 2 ^ n → specRunH n C17.specInit h1 c = specRunH n C17.specInit h2 c)
    (hmin : MinInfo n (runH (Table.init n) h1).known) :
    ∃ t', k.run (runH (Table.init n) h1) = .ok t' ∧ k.run (runH (Table.init n) h2) = .ok t' := by
  obtain ⟨n1, r1⟩ := refines_runH h1 (C17.rel_init (α := α) n) ha1
  obtain ⟨n2, r2⟩ := refines_runH h2 (C17.rel_init (α := α) n) ha2
  have b1 := runH_blank h1 (C17.rel_init (α := α) n) (C17.blank_init n) ha1
  have b2 := runH_blank h2 (C17.rel_init (α := α) n) (C17.blank_init n) ha2
  generalize runH (Table.init (α := α) n) h1 = T1 at *
  generalize runH (Table.init (α := α) n) h2 = T2 at *
  have n1' : T1.n = n := n1
  have n2' : T2.n = n := n2
  have hk : T1.known = T2.known := by
    funext c
    by_cases hc : c < 2 ^ n
    · rw [(r1 c (by rw [n1']; exact hc)).1, (r2 c (by rw [n2']; exact hc)).1]
      show (specRunH n C17.specInit h1 c).isSome = (specRunH n C17.specInit h2 c).isSome
      rw [hsame c hc]
    · rw [(b1 c (by rw [n1']; omega)).1, (b2 c (by rw [n2']; omega)).1]
  have hv : ∀ c, c < 2 ^ T1.n → T1.known c = true → T1.lo c = T2.lo c := by
    intro c hc hkc
    have hc' : c < 2 ^ n := by rw [← n1']; exact hc
    have e1 := (C17.spec_of_known r1 hc hkc).1
    have e2 := (C17.spec_of_known r2 (by rw [n2']; exact hc') (by rw [← hk]; exact hkc)).1
    have : specRunH n C17.specInit h1 c = specRunH n C17.specInit h2 c := hsame c hc'
    have e1' : specRunH n C17.specInit h1 c = some (T1.lo c) := e1
    have e2' : specRunH n C17.specInit h2 c = some (T2.lo c) := e2
    rw [e1', e2'] at this
    injection this
  have hinv1 := inv_of_rel r1
  have hinv2 := inv_of_rel r2
  obtain ⟨t1, t2, g1, g2, g3, g4, g5⟩ := compute_knowledge_only enumFacts k T1 T2 (by rw [n1', n2']) hk hv
    (by rw [n1']; exact hmin) hinv1 hinv2
  obtain ⟨_, _, f3, _⟩ := run_frame hinv1 g1
  obtain ⟨_, _, f3', _⟩ := run_frame hinv2 g2
  refine ⟨t1, g1, ?_⟩
  rw [g2]
  congr 1
  apply Refine.table_ext g3.symm g4.symm
  · intro c
    by_cases hc : c < 2 ^ T1.n
    · exact ((g5 c hc).1).symm
    · rw [(f3 c (by omega)).1, (f3' c (by rw [n2', ← n1']; omega)).1,
        (b1 c (by omega)).2.1, (b2 c (by rw [n2', ← n1']; omega)).2.1]
  · intro c
    by_cases hc : c < 2 ^ T1.n
    · exact ((g5 c hc).2).symm
    · rw [(f3 c (by omega)).2, (f3' c (by rw [n2', ← n1']; omega)).2,
        (b1 c (by omega)).2.2, (b2 c (by rw [n2', ← n1']; omega)).2.2]

end history

/-! ### two concrete histories ending in the same knowledge -/

/-- plain: set the singletons and N -/
def histA : List (C01.HOp Int) :=
  [.op (.set 1 1), .op (.set 2 2), .op (.set 1 4), .op (.set 9 7)]

/-- devious: the same knowledge reached through a bulk set, junk scalar bounds, a reveal / compute /
    un-reveal round trip, a bulk bound write, a raising compute and a different order -/
def histB : List (C01.HOp Int) :=
  [.op (.setValues [9, 1] (some [7, 4])), .compute .sac,           -- raises
   .op (.set 2 2), .op (.set 1 1), .op (.setLowerBound 1000 5), .op (.setUpperBound (-1000) 6),
   .op (.reveal 4 3), .compute (.sam 3), .op (.unreveal 3),
   .op (.setBounds false [5, 5, 5] (some [3, 5, 6])), .compute .sa]

example : C01.admissibleH 3 (C17.specInit (α := Int)) histA = true ∧
    C01.admissibleH 3 (C17.specInit (α := Int)) histB = true := by decide

theorem hist_same : ∀ c, c < 2 ^ 3 →
    C01.specRunH 3 C17.specInit histA c = C01.specRunH 3 C17.specInit histB c := by decide

/-- hypotheses satisfiable: after either history every computer returns the same table -/
example (k : Computer) : ∃ t', k.run (C01.runH (Table.init 3) histA) = .ok t' ∧
    k.run (C01.runH (Table.init 3) histB) = .ok t' := by
  refine history_free k 3 histA histB (by decide) (by decide) hist_same ?_
  refine ⟨by decide, by decide, ?_⟩
  have h : ∀ i, i < 3 → (C01.runH (Table.init (α := Int) 3) histA).known (2 ^ i) = true := by decide
  exact h

end ICG.C08
