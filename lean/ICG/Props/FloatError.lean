/-
  ICG.Props.FloatError — why a tolerance is the right comparison between the float64 bound computers and
  the exact model, and how large it has to be (the sense of "within float rounding" in C01 / C02).

  Setting.  Values live in an ordered field `α`.  `add' sub' : α → α → α` are ARBITRARY functions (no
  algebraic law is assumed: rounded arithmetic is neither associative nor monotone in general) such that
      |add' a b − (a + b)| ≤ δ        |sub' a b − (a − b)| ≤ δ
  for the operands that occur; `max` / `min` are exact (as in IEEE arithmetic).  `loApprox` / `upApprox`
  (`ICG.Lemmas.ApproxBounds`) are the recursions of `loSpec` / `upSpec` run with `add'` / `sub'`; with the
  exact operations they are `loSpec` / `upSpec` (`approx_exact`).

  Results (all under `MinInfo n known`, for every coalition `c < 2^n`; `|c| = size c`; the factors
  `|c| − 1` and `n − |c|` are natural-number subtractions, so the slack is `0` at `∅` and at `N`):

    lo_error        |loApprox c − loSpec c|   ≤ (|c| − 1)·δ          (= 0 at known coalitions)
    up_error        |upApprox c − upSpec c|   ≤ (n − |c|)·δ          (= 0 at known coalitions)
    approx_sound    loApprox c − (|c| − 1)·δ ≤ w c ≤ upApprox c + (n − |c|)·δ   for every completion `w`
    approx_tight    … and the widened interval is at most `2·slack` wider than the exact one
    `…_on`          the same with the error hypothesis only for the operations actually performed
    relative_to_absolute, AddErrOn.of_relative, SubErrOn.of_relative, approx_sound_relative
                    relative error `u` (float64: `u = 2^-53`) and magnitudes `≤ M` give `δ = u·M`

  The 4-player examples at the end show that the hypotheses are satisfiable and that both bounds are
  ATTAINED (error exactly `2δ` at a 3-player coalition, resp. at a pair), and that without the slack the
  statement is false (the rounded lower bound exceeds a completion).
-/
import ICG.Lemmas.ApproxBounds
import ICG.Lemmas.SpecSA3
import Mathlib.Tactic.NormNum
import Mathlib.Tactic.Ring
import Mathlib.Algebra.Order.Field.Rat

namespace ICG.Approx
open ICG.SpecSA

variable {α : Type} [Field α] [LinearOrder α] [IsStrictOrderedRing α]

/-! ### 0. sanity: exact operations give the specification -/

omit [IsStrictOrderedRing α] in
/-- `loApprox` / `upApprox` are `loSpec` / `upSpec` when nothing is rounded -/
theorem approx_exact (n : Nat) (known : Nat → Bool) (v : Nat → α) (c : Nat) :
    loApprox (· + ·) known v c = loSpec known v c ∧
      upApprox n (· + ·) (· - ·) known v c = upSpec n known v c :=
  ⟨loApprox_exact known v c, upApprox_exact n known v c⟩

/-! ### 1. error of the computed bounds — hypotheses on the performed operations only -/

/-- **lower bound error**, hypothesis restricted to the additions actually performed -/
theorem lo_error_on {n : Nat} {known : Nat → Bool} (hmin : MinInfo n known) {add' : α → α → α}
    {v : Nat → α} {δ : α} (hδ : 0 ≤ δ) (hadd : AddErrOn n add' known v δ) {c : Nat} (hc : c < 2 ^ n) :
    |loApprox add' known v c - loSpec known v c| ≤ ((size c - 1 : ℕ) : α) * δ :=
  loApprox_close_on hmin hδ hadd c hc

/-- **upper bound error**, hypotheses restricted to the operations actually performed -/
theorem up_error_on {n : Nat} {known : Nat → Bool} (hmin : MinInfo n known) {add' sub' : α → α → α}
    {v : Nat → α} {δ : α} (hδ : 0 ≤ δ) (hadd : AddErrOn n add' known v δ)
    (hsub : SubErrOn n add' sub' known v δ) {c : Nat} (hc : c < 2 ^ n) :
    |upApprox n add' sub' known v c - upSpec n known v c| ≤ ((n - size c : ℕ) : α) * δ :=
  upApprox_close_on hmin hδ hadd hsub c hc

/-- **soundness of the widened computed interval**, hypotheses on the performed operations only -/
theorem approx_sound_on {n : Nat} {known : Nat → Bool} (hmin : MinInfo n known) {add' sub' : α → α → α}
    {v : Nat → α} {δ : α} (hδ : 0 ≤ δ) (hadd : AddErrOn n add' known v δ)
    (hsub : SubErrOn n add' sub' known v δ) {w : Nat → α} (hw : Completion n known v w)
    {c : Nat} (hc : c < 2 ^ n) :
    loApprox add' known v c - ((size c - 1 : ℕ) : α) * δ ≤ w c ∧
      w c ≤ upApprox n add' sub' known v c + ((n - size c : ℕ) : α) * δ := by
  have h := soundness hmin hw c hc
  have h1 := abs_le.mp (lo_error_on hmin hδ hadd hc)
  have h2 := abs_le.mp (up_error_on hmin hδ hadd hsub hc)
  constructor <;> linarith [h.1, h.2, h1.1, h1.2, h2.1, h2.2]

/-! ### 2. the headline statements: `add'`, `sub'` with absolute error `δ` everywhere -/

section headline
variable {n : Nat} {known : Nat → Bool} {add' sub' : α → α → α} {v : Nat → α} {δ : α}

/-- an error bound is non-negative -/
theorem delta_nonneg (hadd : ∀ a b, |add' a b - (a + b)| ≤ δ) : 0 ≤ δ :=
  le_trans (abs_nonneg _) (hadd 0 0)

/-- **lower bound error.**  `|loApprox c − loSpec c| ≤ (|c| − 1)·δ` for every `c < 2^n`. -/
theorem lo_error (hmin : MinInfo n known) (hadd : ∀ a b, |add' a b - (a + b)| ≤ δ)
    {c : Nat} (hc : c < 2 ^ n) :
    |loApprox add' known v c - loSpec known v c| ≤ ((size c - 1 : ℕ) : α) * δ :=
  lo_error_on hmin (delta_nonneg hadd) (AddErrOn.of_forall hadd) hc

omit [IsStrictOrderedRing α] in
/-- at a known coalition nothing is computed, so nothing is rounded -/
theorem lo_error_known (hk : known c = true) : loApprox add' known v c = loSpec known v c :=
  loApprox_eq_of_known add' known v hk

/-- an unknown coalition (under `MinInfo`) has at least two players, and there the bound reads
    `(|c| − 1)·δ` with the subtraction in `α` -/
theorem lo_error_unknown (hmin : MinInfo n known) (hadd : ∀ a b, |add' a b - (a + b)| ≤ δ)
    {c : Nat} (hc : c < 2 ^ n) (hk : known c = false) :
    2 ≤ size c ∧ |loApprox add' known v c - loSpec known v c| ≤ ((size c : α) - 1) * δ := by
  have h2 : 2 ≤ size c := by
    obtain ⟨x, hx⟩ := List.exists_mem_of_ne_nil _ (properSubs_ne_nil hmin hc hk)
    have := size_split_pred hx
    omega
  refine ⟨h2, ?_⟩
  have h := lo_error (v := v) hmin hadd hc
  rwa [Nat.cast_sub (by omega), Nat.cast_one] at h

/-- **upper bound error.**  `|upApprox c − upSpec c| ≤ (n − |c|)·δ` for every `c < 2^n`. -/
theorem up_error (hmin : MinInfo n known) (hadd : ∀ a b, |add' a b - (a + b)| ≤ δ)
    (hsub : ∀ a b, |sub' a b - (a - b)| ≤ δ) {c : Nat} (hc : c < 2 ^ n) :
    |upApprox n add' sub' known v c - upSpec n known v c| ≤ ((n - size c : ℕ) : α) * δ :=
  up_error_on hmin (delta_nonneg hadd) (AddErrOn.of_forall hadd) (SubErrOn.of_forall hsub) hc

omit [IsStrictOrderedRing α] in
theorem up_error_known (hk : known c = true) :
    upApprox n add' sub' known v c = upSpec n known v c :=
  upApprox_eq_of_known n add' sub' known v hk

/-- the same with the subtraction in `α` (`|c| ≤ n` because `c < 2^n`) -/
theorem up_error' (hmin : MinInfo n known) (hadd : ∀ a b, |add' a b - (a + b)| ≤ δ)
    (hsub : ∀ a b, |sub' a b - (a - b)| ≤ δ) {c : Nat} (hc : c < 2 ^ n) :
    size c ≤ n ∧ |upApprox n add' sub' known v c - upSpec n known v c| ≤ ((n : α) - size c) * δ := by
  have hle := size_le n c hc
  refine ⟨hle, ?_⟩
  have h := up_error (v := v) (sub' := sub') hmin hadd hsub hc
  rwa [Nat.cast_sub hle] at h

/-- **approx_sound.**  The interval computed in rounded arithmetic, widened by `(|c| − 1)·δ` below and
    `(n − |c|)·δ` above, contains every superadditive completion of the partial game. -/
theorem approx_sound (hmin : MinInfo n known) (hadd : ∀ a b, |add' a b - (a + b)| ≤ δ)
    (hsub : ∀ a b, |sub' a b - (a - b)| ≤ δ) {w : Nat → α} (hw : Completion n known v w)
    {c : Nat} (hc : c < 2 ^ n) :
    loApprox add' known v c - ((size c - 1 : ℕ) : α) * δ ≤ w c ∧
      w c ≤ upApprox n add' sub' known v c + ((n - size c : ℕ) : α) * δ :=
  approx_sound_on hmin (delta_nonneg hadd) (AddErrOn.of_forall hadd) (SubErrOn.of_forall hsub) hw hc

/-- … and the widening loses little: the widened computed interval lies within `2·slack` of the exact
    (tight, C02) interval `[loSpec c, upSpec c]`. -/
theorem approx_tight (hmin : MinInfo n known) (hadd : ∀ a b, |add' a b - (a + b)| ≤ δ)
    (hsub : ∀ a b, |sub' a b - (a - b)| ≤ δ) {c : Nat} (hc : c < 2 ^ n) :
    loSpec known v c - 2 * (((size c - 1 : ℕ) : α) * δ)
        ≤ loApprox add' known v c - ((size c - 1 : ℕ) : α) * δ ∧
      upApprox n add' sub' known v c + ((n - size c : ℕ) : α) * δ
        ≤ upSpec n known v c + 2 * (((n - size c : ℕ) : α) * δ) := by
  have h1 := abs_le.mp (lo_error (v := v) hmin hadd hc)
  have h2 := abs_le.mp (up_error (v := v) (sub' := sub') hmin hadd hsub hc)
  constructor <;> linarith [h1.1, h1.2, h2.1, h2.2]

/-- a uniform tolerance: `(n − 1)·δ` works for every non-trivial row of either bound -/
theorem uniform_tolerance (hmin : MinInfo n known) (hadd : ∀ a b, |add' a b - (a + b)| ≤ δ)
    (hsub : ∀ a b, |sub' a b - (a - b)| ≤ δ) {c : Nat} (hc : c < 2 ^ n) :
    |loApprox add' known v c - loSpec known v c| ≤ ((n - 1 : ℕ) : α) * δ ∧
      |upApprox n add' sub' known v c - upSpec n known v c| ≤ ((n - 1 : ℕ) : α) * δ := by
  have hδ := delta_nonneg hadd
  have hle := size_le n c hc
  constructor
  · refine le_trans (lo_error hmin hadd hc) (mul_le_mul_of_nonneg_right ?_ hδ)
    exact Nat.cast_le.mpr (by omega)
  · cases hk : known c with
    | true =>
      rw [up_error_known hk, sub_self, abs_zero]
      exact mul_nonneg (Nat.cast_nonneg _) hδ
    | false =>
      refine le_trans (up_error hmin hadd hsub hc) (mul_le_mul_of_nonneg_right ?_ hδ)
      have := size_pos_of_ne_zero c (minInfo_ne_zero hmin hk)
      exact Nat.cast_le.mpr (by omega)

end headline

/-! ### 3. from relative (IEEE) error to the abstract `δ`

A float64 operation satisfies `|fl(a ∘ b) − (a ∘ b)| ≤ u·|a ∘ b|` with unit round-off `u = 2^-53` (no
overflow / underflow).  If the exact results of the operations that occur are bounded by `M` in
magnitude, `δ = u·M` is an absolute error bound for them.  (A bound "for ALL `a b`" cannot hold in an
unbounded field, which is why the theorems above also come in the `…_on` form.) -/

/-- relative error `u` on a result of magnitude `≤ M` is absolute error `u·M` -/
theorem relative_to_absolute {u M r s : α} (hu : 0 ≤ u) (hrel : |r - s| ≤ u * |s|) (hM : |s| ≤ M) :
    |r - s| ≤ u * M :=
  le_trans hrel (mul_le_mul_of_nonneg_left hM hu)

/-- the form with a set `P` of operand pairs: relative error everywhere, magnitudes bounded on `P` -/
theorem relative_to_absolute_on {add' : α → α → α} {u M : α} (hu : 0 ≤ u) {P : α → α → Prop}
    (hrel : ∀ a b, |add' a b - (a + b)| ≤ u * |a + b|) (hM : ∀ a b, P a b → |a + b| ≤ M) :
    ∀ a b, P a b → |add' a b - (a + b)| ≤ u * M :=
  fun a b h => relative_to_absolute hu (hrel a b) (hM a b h)

theorem AddErrOn.of_relative {n : Nat} {add' : α → α → α} {known : Nat → Bool} {v : Nat → α} {u M : α}
    (hu : 0 ≤ u) (hrel : ∀ a b, |add' a b - (a + b)| ≤ u * |a + b|)
    (hM : ∀ c, c < 2 ^ n → known c = false → ∀ x ∈ properSubs c,
      |loApprox add' known v x + loApprox add' known v (c - x)| ≤ M) :
    AddErrOn n add' known v (u * M) :=
  fun c hc hk x hx => relative_to_absolute hu (hrel _ _) (hM c hc hk x hx)

theorem SubErrOn.of_relative {n : Nat} {add' sub' : α → α → α} {known : Nat → Bool} {v : Nat → α} {u M : α}
    (hu : 0 ≤ u) (hrel : ∀ a b, |sub' a b - (a - b)| ≤ u * |a - b|)
    (hM : ∀ c, c < 2 ^ n → known c = false → ∀ T ∈ knownSupers n known c,
      |v T - loApprox add' known v (T - c)| ≤ M) :
    SubErrOn n add' sub' known v (u * M) :=
  fun c hc hk T hT => relative_to_absolute hu (hrel _ _) (hM c hc hk T hT)

/-- **the float64 reading.**  Operations with relative error `u`, exact results of the performed
    operations bounded by `M`: the computed interval widened by `(|c| − 1)·u·M` resp. `(n − |c|)·u·M`
    contains every completion. -/
theorem approx_sound_relative {n : Nat} {known : Nat → Bool} (hmin : MinInfo n known)
    {add' sub' : α → α → α} {v : Nat → α} {u M : α} (hu : 0 ≤ u) (hM0 : 0 ≤ M)
    (hradd : ∀ a b, |add' a b - (a + b)| ≤ u * |a + b|)
    (hrsub : ∀ a b, |sub' a b - (a - b)| ≤ u * |a - b|)
    (hMadd : ∀ c, c < 2 ^ n → known c = false → ∀ x ∈ properSubs c,
      |loApprox add' known v x + loApprox add' known v (c - x)| ≤ M)
    (hMsub : ∀ c, c < 2 ^ n → known c = false → ∀ T ∈ knownSupers n known c,
      |v T - loApprox add' known v (T - c)| ≤ M)
    {w : Nat → α} (hw : Completion n known v w) {c : Nat} (hc : c < 2 ^ n) :
    loApprox add' known v c - ((size c - 1 : ℕ) : α) * (u * M) ≤ w c ∧
      w c ≤ upApprox n add' sub' known v c + ((n - size c : ℕ) : α) * (u * M) :=
  approx_sound_on hmin (mul_nonneg hu hM0) (AddErrOn.of_relative hu hradd hMadd)
    (SubErrOn.of_relative hu hrsub hMsub) hw hc

/-! ### 4. concrete instances over `ℚ`

A 4-player game `v = |c|²` with minimal information (∅, singletons, N known); every addition rounds UP by
`δ = 1/1000`, every subtraction rounds DOWN by `δ`.  Then `loApprox {0,1,2} = 3 + 2δ` against
`loSpec = 3`, and `upApprox {0,1} = 14 − 2δ` against `upSpec = 14`: both error bounds are attained, and
the un-widened computed interval misses completions. -/

namespace Ex
def known4 : Nat → Bool := fun c => c == 0 || c == 1 || c == 2 || c == 4 || c == 8 || c == 15
def v4 : Nat → ℚ := fun c => [0, 1, 1, 4, 1, 4, 4, 9, 1, 4, 4, 9, 4, 9, 9, 16].getD c 0
def addUp (a b : ℚ) : ℚ := a + b + 1 / 1000
def subDown (a b : ℚ) : ℚ := a - b - 1 / 1000

theorem known4_minInfo : MinInfo 4 known4 := by unfold MinInfo; decide
theorem v4_SA : SA 4 v4 := by
  rw [SA_iff_bounded]; decide +kernel
theorem addUp_err : ∀ a b, |addUp a b - (a + b)| ≤ 1 / 1000 := by
  intro a b; simp only [addUp]; rw [add_sub_cancel_left]; norm_num
theorem subDown_err : ∀ a b, |subDown a b - (a - b)| ≤ 1 / 1000 := by
  intro a b; simp only [subDown]; rw [abs_le]; constructor <;> linarith


/-- a pair of singletons: two candidates, both operands known -/
theorem lo_pair (add' : ℚ → ℚ → ℚ) {c x y : Nat} (hk : known4 c = false) (hp : properSubs c = [x, y])
    (hx : known4 x = true) (hy : known4 y = true) (hx' : known4 (c - x) = true)
    (hy' : known4 (c - y) = true) :
    loApprox add' known4 v4 c = max (add' (v4 x) (v4 (c - x))) (add' (v4 y) (v4 (c - y))) := by
  rw [loApprox_unknown_eq _ _ _ hk, loCandsA, hp]
  simp [listMax?, loApprox_known, hx, hy, hx', hy']

/-- the 3-player coalition 7 = {0,1,2}: six candidates, each a singleton with an (unknown) pair -/
theorem lo_seven (add' : ℚ → ℚ → ℚ) {p : ℚ} (h3 : loApprox add' known4 v4 3 = p)
    (h5 : loApprox add' known4 v4 5 = p) (h6 : loApprox add' known4 v4 6 = p) :
    loApprox add' known4 v4 7 =
      max (max (max (max (max (add' 1 p) (add' 1 p)) (add' p 1)) (add' 1 p)) (add' p 1)) (add' p 1) := by
  rw [loApprox_unknown_eq _ _ _ (by decide), loCandsA, show properSubs 7 = [1, 2, 3, 4, 5, 6] by decide]
  simp only [List.map, listMax?, List.foldl, Nat.reduceSub, h3, h5, h6,
    loApprox_known add' known4 v4 (by decide : known4 1 = true),
    loApprox_known add' known4 v4 (by decide : known4 2 = true),
    loApprox_known add' known4 v4 (by decide : known4 4 = true)]
  norm_num [v4]

theorem loA_pairs : loApprox addUp known4 v4 3 = 2 + 1 / 1000 ∧ loApprox addUp known4 v4 5 = 2 + 1 / 1000 ∧
    loApprox addUp known4 v4 6 = 2 + 1 / 1000 ∧ loApprox addUp known4 v4 12 = 2 + 1 / 1000 := by
  refine ⟨?_, ?_, ?_, ?_⟩
  · rw [lo_pair addUp (x := 1) (y := 2) (by decide) (by decide) (by decide) (by decide) (by decide) (by decide)]
    norm_num [addUp, v4]
  · rw [lo_pair addUp (x := 1) (y := 4) (by decide) (by decide) (by decide) (by decide) (by decide) (by decide)]
    norm_num [addUp, v4]
  · rw [lo_pair addUp (x := 2) (y := 4) (by decide) (by decide) (by decide) (by decide) (by decide) (by decide)]
    norm_num [addUp, v4]
  · rw [lo_pair addUp (x := 4) (y := 8) (by decide) (by decide) (by decide) (by decide) (by decide) (by decide)]
    norm_num [addUp, v4]

theorem loA7 : loApprox addUp known4 v4 7 = 3 + 2 / 1000 := by
  rw [lo_seven addUp loA_pairs.1 loA_pairs.2.1 loA_pairs.2.2.1]
  norm_num [addUp]

theorem loS_pairs : loSpec known4 v4 3 = 2 ∧ loSpec known4 v4 5 = 2 ∧ loSpec known4 v4 6 = 2 ∧
    loSpec known4 v4 12 = 2 := by
  simp only [← loApprox_exact]
  refine ⟨?_, ?_, ?_, ?_⟩
  · rw [lo_pair _ (x := 1) (y := 2) (by decide) (by decide) (by decide) (by decide) (by decide) (by decide)]
    norm_num [v4]
  · rw [lo_pair _ (x := 1) (y := 4) (by decide) (by decide) (by decide) (by decide) (by decide) (by decide)]
    norm_num [v4]
  · rw [lo_pair _ (x := 2) (y := 4) (by decide) (by decide) (by decide) (by decide) (by decide) (by decide)]
    norm_num [v4]
  · rw [lo_pair _ (x := 4) (y := 8) (by decide) (by decide) (by decide) (by decide) (by decide) (by decide)]
    norm_num [v4]

theorem loS7 : loSpec known4 v4 7 = 3 := by
  have h := loS_pairs
  simp only [← loApprox_exact] at h ⊢
  rw [lo_seven _ h.1 h.2.1 h.2.2.1]
  norm_num

/-- the pair 3 = {0,1} has the single known proper superset 15 = N -/
theorem upA3 : upApprox 4 addUp subDown known4 v4 3 = 14 - 2 / 1000 := by
  rw [upApprox_unknown_eq _ _ _ _ _ (by decide), upCandsA, show knownSupers 4 known4 3 = [15] by decide]
  simp only [List.map, listMin?, List.foldl, Nat.reduceSub, loA_pairs.2.2.2]
  norm_num [subDown, v4]

theorem upS3 : upSpec 4 known4 v4 3 = 14 := by
  rw [upSpec_unknown_eq _ _ _ (by decide), show knownSupers 4 known4 3 = [15] by decide]
  simp only [List.map, listMin?, List.foldl, Nat.reduceSub, loS_pairs.2.2.2]
  norm_num [v4]

theorem size7 : size 7 = 3 := by simp [size_eq 7, size_eq 3, size_eq 1, size_zero]
theorem size3 : size 3 = 2 := by simp [size_eq 3, size_eq 1, size_zero]

theorem v4_completion : Completion 4 known4 v4 v4 := completion_self known4 v4_SA

end Ex

/-- the hypotheses of `approx_sound` are satisfiable: a 4-player game with minimal information, additions
    that always round up by `1/1000` and subtractions that always round down by `1/1000` -/
example : ∀ c, c < 2 ^ 4 →
    loApprox Ex.addUp Ex.known4 Ex.v4 c - ((size c - 1 : ℕ) : ℚ) * (1 / 1000) ≤ Ex.v4 c ∧
      Ex.v4 c ≤ upApprox 4 Ex.addUp Ex.subDown Ex.known4 Ex.v4 c + ((4 - size c : ℕ) : ℚ) * (1 / 1000) :=
  fun _ hc => approx_sound Ex.known4_minInfo Ex.addUp_err Ex.subDown_err Ex.v4_completion hc

/-- `lo_error` is attained: at the 3-player coalition 7 the error is exactly `(3 − 1)·δ` -/
example : loApprox Ex.addUp Ex.known4 Ex.v4 7 = 3 + 2 / 1000 ∧ loSpec Ex.known4 Ex.v4 7 = 3 ∧
    |loApprox Ex.addUp Ex.known4 Ex.v4 7 - loSpec Ex.known4 Ex.v4 7| = ((size 7 - 1 : ℕ) : ℚ) * (1 / 1000) := by
  refine ⟨Ex.loA7, Ex.loS7, ?_⟩
  rw [Ex.loA7, Ex.loS7, Ex.size7]; norm_num

/-- `up_error` is attained: at the pair 3 of the 4-player game the error is exactly `(4 − 2)·δ` -/
example : upApprox 4 Ex.addUp Ex.subDown Ex.known4 Ex.v4 3 = 14 - 2 / 1000 ∧ upSpec 4 Ex.known4 Ex.v4 3 = 14 ∧
    |upApprox 4 Ex.addUp Ex.subDown Ex.known4 Ex.v4 3 - upSpec 4 Ex.known4 Ex.v4 3|
      = ((4 - size 3 : ℕ) : ℚ) * (1 / 1000) := by
  refine ⟨Ex.upA3, Ex.upS3, ?_⟩
  rw [Ex.upA3, Ex.upS3, Ex.size3]; norm_num

/-- the slack is necessary: WITHOUT widening the computed interval loses completions on either side -/
example : (∃ w, Completion 4 Ex.known4 Ex.v4 w ∧ w 7 < loApprox Ex.addUp Ex.known4 Ex.v4 7) ∧
    (∃ w, Completion 4 Ex.known4 Ex.v4 w ∧ upApprox 4 Ex.addUp Ex.subDown Ex.known4 Ex.v4 3 < w 3) := by
  constructor
  · refine ⟨loSpec Ex.known4 Ex.v4, loSpec_completion Ex.known4_minInfo ⟨_, Ex.v4_completion⟩, ?_⟩
    rw [Ex.loS7, Ex.loA7]; norm_num
  · obtain ⟨w, hw, he⟩ := upSpec_attained Ex.known4_minInfo ⟨_, Ex.v4_completion⟩
      (by decide : 3 < 2 ^ 4) (by decide : Ex.known4 3 = false)
    exact ⟨w, hw, by rw [he, Ex.upS3, Ex.upA3]; norm_num⟩

/-! relative error: a 3-player table, `u = 2^-53`, every exact result of a performed operation is `≤ 9` -/
namespace Ex
def known3 : Nat → Bool := fun c => c == 0 || c == 1 || c == 2 || c == 4 || c == 7
def v3 : Nat → ℚ := fun c => [0, 1, 2, 4, 1, 3, 5, 9].getD c 0
def u64 : ℚ := 1 / 2 ^ 53
/-- round "up" by one relative unit -/
def addRel (a b : ℚ) : ℚ := (a + b) * (1 + u64)
/-- round "down" by one relative unit -/
def subRel (a b : ℚ) : ℚ := (a - b) * (1 - u64)

theorem known3_minInfo : MinInfo 3 known3 := by unfold MinInfo; decide
theorem v3_SA : SA 3 v3 := by rw [SA_iff_bounded]; decide +kernel
theorem u64_nonneg : 0 ≤ u64 := by norm_num [u64]
theorem addRel_err : ∀ a b, |addRel a b - (a + b)| ≤ u64 * |a + b| := by
  intro a b
  have : addRel a b - (a + b) = u64 * (a + b) := by unfold addRel; ring
  rw [this, abs_mul, abs_of_nonneg u64_nonneg]
theorem subRel_err : ∀ a b, |subRel a b - (a - b)| ≤ u64 * |a - b| := by
  intro a b
  have : subRel a b - (a - b) = -(u64 * (a - b)) := by unfold subRel; ring
  rw [this, abs_neg, abs_mul, abs_of_nonneg u64_nonneg]

theorem unknown3 : ∀ c, c < 2 ^ 3 → known3 c = false → c = 3 ∨ c = 5 ∨ c = 6 := by decide

theorem addRel_mag : ∀ c, c < 2 ^ 3 → known3 c = false → ∀ x ∈ properSubs c,
    |loApprox addRel known3 v3 x + loApprox addRel known3 v3 (c - x)| ≤ 9 := by
  intro c hc hk x hx
  have k1 := loApprox_known addRel known3 v3 (by decide : known3 1 = true)
  have k2 := loApprox_known addRel known3 v3 (by decide : known3 2 = true)
  have k4 := loApprox_known addRel known3 v3 (by decide : known3 4 = true)
  rcases unknown3 c hc hk with rfl | rfl | rfl
  · rw [show properSubs 3 = [1, 2] by decide] at hx
    simp only [List.mem_cons, List.not_mem_nil, or_false] at hx
    rcases hx with rfl | rfl <;> simp only [Nat.reduceSub, k1, k2] <;> norm_num [v3]
  · rw [show properSubs 5 = [1, 4] by decide] at hx
    simp only [List.mem_cons, List.not_mem_nil, or_false] at hx
    rcases hx with rfl | rfl <;> simp only [Nat.reduceSub, k1, k4] <;> norm_num [v3]
  · rw [show properSubs 6 = [2, 4] by decide] at hx
    simp only [List.mem_cons, List.not_mem_nil, or_false] at hx
    rcases hx with rfl | rfl <;> simp only [Nat.reduceSub, k2, k4] <;> norm_num [v3]

theorem subRel_mag : ∀ c, c < 2 ^ 3 → known3 c = false → ∀ T ∈ knownSupers 3 known3 c,
    |v3 T - loApprox addRel known3 v3 (T - c)| ≤ 9 := by
  intro c hc hk T hT
  have k1 := loApprox_known addRel known3 v3 (by decide : known3 1 = true)
  have k2 := loApprox_known addRel known3 v3 (by decide : known3 2 = true)
  have k4 := loApprox_known addRel known3 v3 (by decide : known3 4 = true)
  rcases unknown3 c hc hk with rfl | rfl | rfl
  · rw [show knownSupers 3 known3 3 = [7] by decide] at hT
    simp only [List.mem_cons, List.not_mem_nil, or_false] at hT
    subst hT; simp only [Nat.reduceSub, k4]; norm_num [v3]
  · rw [show knownSupers 3 known3 5 = [7] by decide] at hT
    simp only [List.mem_cons, List.not_mem_nil, or_false] at hT
    subst hT; simp only [Nat.reduceSub, k2]; norm_num [v3]
  · rw [show knownSupers 3 known3 6 = [7] by decide] at hT
    simp only [List.mem_cons, List.not_mem_nil, or_false] at hT
    subst hT; simp only [Nat.reduceSub, k1]; norm_num [v3]
end Ex

/-- the hypotheses of `approx_sound_relative` are satisfiable with the float64 unit round-off -/
example : ∀ c, c < 2 ^ 3 →
    loApprox Ex.addRel Ex.known3 Ex.v3 c - ((size c - 1 : ℕ) : ℚ) * (1 / 2 ^ 53 * 9) ≤ Ex.v3 c ∧
      Ex.v3 c ≤ upApprox 3 Ex.addRel Ex.subRel Ex.known3 Ex.v3 c + ((3 - size c : ℕ) : ℚ) * (1 / 2 ^ 53 * 9) :=
  fun _ hc => approx_sound_relative Ex.known3_minInfo Ex.u64_nonneg (by norm_num) Ex.addRel_err Ex.subRel_err
    Ex.addRel_mag Ex.subRel_mag (completion_self Ex.known3 Ex.v3_SA) hc

end ICG.Approx
