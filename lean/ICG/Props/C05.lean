/-
  Property C05 — exploitability identities.

  "For any incomplete game whose grand coalition is known, the reported exploitability equals the sum
   over players of the largest Shapley value that player obtains in any game lying between the bounds,
   minus the grand coalition's value; equivalently it equals the sum over coalitions S of
   (upper(S) − lower(S)) / C(n,|S|).  Hence it is non-negative whenever lower ≤ upper, zero exactly when
   every interval is degenerate, and for every player and every completion within the bounds that
   player's Shapley value never exceeds the per-player maximum used."

  Theorems about ICG.Model.Shapley (`exploitability`, `Table.exploitability`, `shapleyForPlayer`,
  `maxGainValues`), for every number of players `n` and every linearly ordered field.

  Exact form of the identity (no assumption on the vectors):
      exploitability = Σ_{c<2^n} (hi c − lo c)/C(n,|c|) − hi ∅ + (lo N − get_value(N))
  and `get_value(N)` of the real class IS `lo N`, so on a table the residual is `− hi ∅` only: the
  stated weighted-gap form holds as soon as the empty coalition has upper bound 0 (it is known with
  value 0 in every table the package builds; a scalar bound write can break it, hence the hypothesis).
-/
import ICG.Lemmas.ShapleyBridge
import Mathlib.Algebra.Order.BigOperators.Group.Finset
import Mathlib.Algebra.Order.Ring.Rat
import Mathlib.Tactic.Positivity

namespace ICG.C05
open ICG Finset

set_option linter.unusedSectionVars false
variable {α : Type} [Field α] [LinearOrder α] [IsStrictOrderedRing α]

/-- Σ_S (upper(S) − lower(S)) / C(n,|S|) over all `2^n` coalitions -/
def weightedGap (n : Nat) (lo hi : Nat → α) : α :=
  ∑ c ∈ range (2 ^ n), (hi c - lo c) / (n.choose (size c) : α)

/-- `w` lies between the bounds on every coalition of the `n`-player game -/
def Within (n : Nat) (lo hi w : Nat → α) : Prop := ∀ c, c < 2 ^ n → lo c ≤ w c ∧ w c ≤ hi c

/-! ### the double-counting identity -/

theorem sum_maxShapley (n : Nat) (lo hi : Nat → α) :
    ∑ i ∈ range n, phi n (maxGainValues i lo hi) i = weightedGap n lo hi - hi 0 + lo (grand n) := by
  have h := sum_psi (K := α) n hi lo
  simp only [phi_maxGain]
  rw [h]
  unfold weightedGap
  have e1 : ∑ T ∈ (range (2 ^ n)).filter (fun T => T ≠ 0), hi T / (n.choose (size T) : α)
      = ∑ T ∈ range (2 ^ n), hi T / (n.choose (size T) : α) - hi 0 := by
    rw [Finset.filter_ne', Finset.sum_erase_eq_sub (mem_range.mpr (Nat.two_pow_pos n))]
    simp [size_zero]
  have e2 : ∑ S ∈ (range (2 ^ n)).filter (fun S => S ≠ grand n), lo S / (n.choose (size S) : α)
      = ∑ S ∈ range (2 ^ n), lo S / (n.choose (size S) : α) - lo (grand n) := by
    rw [Finset.filter_ne', Finset.sum_erase_eq_sub (mem_range.mpr (grand_lt n))]
    simp [size_grand]
  rw [e1, e2]
  simp only [sub_div, Finset.sum_sub_distrib]
  ring

/-- C05, general form: whatever `get_value(N)` returns (`g`), for arbitrary bound vectors. -/
theorem identity_general (n : Nat) (lo hi : Nat → α) (g : α) :
    exploitability n lo hi (.ok g) = .ok (weightedGap n lo hi - hi 0 + (lo (grand n) - g)) := by
  rw [exploitability_eq]
  simp only
  congr 1
  have := sum_maxShapley n lo hi
  simp only [phi_maxGain] at this
  rw [this]; ring

/-- C05 identity on the value table (the real class reads `get_value(N)` from the LOWER column). -/
theorem identity (t : Table α) (hk : t.known (grand t.n) = true) :
    t.exploitability = .ok (weightedGap t.n t.lo t.hi - t.hi 0) := by
  unfold Table.exploitability Table.getValue Table.rows
  rw [if_pos (grand_lt t.n), if_pos hk, identity_general]
  congr 1; ring

/-- … in the stated form, when the empty coalition has upper bound 0. -/
theorem identity_weightedGap (t : Table α) (hk : t.known (grand t.n) = true) (h0 : t.hi 0 = 0) :
    t.exploitability = .ok (weightedGap t.n t.lo t.hi) := by
  rw [identity t hk, h0, sub_zero]

/-- … and as "sum of the per-player maxima minus the grand coalition's value". -/
theorem identity_maxSum (t : Table α) (hk : t.known (grand t.n) = true) :
    t.exploitability
      = .ok (∑ i ∈ range t.n, phi t.n (maxGainValues i t.lo t.hi) i - t.lo (grand t.n)) := by
  rw [identity t hk, sum_maxShapley]
  congr 1; ring

/-- defined iff the grand coalition is known (ValueError otherwise) -/
theorem undefined (t : Table α) (hk : t.known (grand t.n) = false) :
    t.exploitability = .error .value := by
  unfold Table.exploitability Table.getValue Table.rows
  rw [if_pos (grand_lt t.n), if_neg (by simp [hk]), exploitability_eq]

theorem defined_iff (t : Table α) : (∃ x, t.exploitability = .ok x) ↔ t.known (grand t.n) = true := by
  constructor
  · rintro ⟨x, hx⟩
    by_contra hk
    have hk' : t.known (grand t.n) = false := by simpa using hk
    rw [undefined t hk'] at hx
    cases hx
  · intro hk
    exact ⟨_, identity t hk⟩

/-! ### consequences -/

theorem choose_size_pos {n c : Nat} (hc : c < 2 ^ n) : (0 : α) < (n.choose (size c) : α) := by
  exact_mod_cast Nat.choose_pos (size_le n c hc)

theorem weightedGap_nonneg (n : Nat) (lo hi : Nat → α) (hle : ∀ c, c < 2 ^ n → lo c ≤ hi c) :
    0 ≤ weightedGap n lo hi := by
  unfold weightedGap
  apply Finset.sum_nonneg
  intro c hc
  have hc' := mem_range.mp hc
  exact div_nonneg (sub_nonneg.mpr (hle c hc')) (choose_size_pos hc').le

theorem weightedGap_eq_zero_iff (n : Nat) (lo hi : Nat → α) (hle : ∀ c, c < 2 ^ n → lo c ≤ hi c) :
    weightedGap n lo hi = 0 ↔ ∀ c, c < 2 ^ n → lo c = hi c := by
  unfold weightedGap
  rw [Finset.sum_eq_zero_iff_of_nonneg (fun c hc =>
    div_nonneg (sub_nonneg.mpr (hle c (mem_range.mp hc))) (choose_size_pos (mem_range.mp hc)).le)]
  constructor
  · intro h c hc
    have := h c (mem_range.mpr hc)
    rw [div_eq_zero_iff] at this
    rcases this with h1 | h1
    · exact (sub_eq_zero.mp h1).symm
    · exact absurd h1 (choose_size_pos hc).ne'
  · intro h c hc
    rw [h c (mem_range.mp hc), sub_self, zero_div]

/-- non-negative whenever lower ≤ upper (grand coalition known, upper(∅) = 0) -/
theorem nonneg (t : Table α) (hk : t.known (grand t.n) = true) (h0 : t.hi 0 = 0)
    (hle : ∀ c, c < 2 ^ t.n → t.lo c ≤ t.hi c) :
    ∃ x, t.exploitability = .ok x ∧ 0 ≤ x :=
  ⟨_, identity_weightedGap t hk h0, weightedGap_nonneg t.n t.lo t.hi hle⟩

/-- zero exactly when every interval is degenerate -/
theorem zero_iff (t : Table α) (hk : t.known (grand t.n) = true) (h0 : t.hi 0 = 0)
    (hle : ∀ c, c < 2 ^ t.n → t.lo c ≤ t.hi c) :
    t.exploitability = .ok 0 ↔ ∀ c, c < 2 ^ t.n → t.lo c = t.hi c := by
  rw [identity_weightedGap t hk h0, ← weightedGap_eq_zero_iff t.n t.lo t.hi hle]
  constructor
  · intro h; injection h
  · intro h; rw [h]

/-- the max-gain game of player `i` lies between the bounds … -/
theorem maxGain_within (n i : Nat) (lo hi : Nat → α) (hle : ∀ c, c < 2 ^ n → lo c ≤ hi c) :
    Within n lo hi (maxGainValues i lo hi) := by
  intro c hc
  rw [maxGainValues_eq]
  split
  · exact ⟨hle c hc, le_refl _⟩
  · exact ⟨le_refl _, hle c hc⟩

/-- … and no completion within the bounds gives player `i` more (closed form). -/
theorem phi_le_maxGain {n i : Nat} (hi' : i < n) (lo hi w : Nat → α) (hw : Within n lo hi w) :
    phi n w i ≤ phi n (maxGainValues i lo hi) i := by
  rw [phi_maxGain]
  unfold phi psi
  have hn : (0 : α) < (n.factorial : α) := by exact_mod_cast Nat.factorial_pos n
  apply div_le_div_of_nonneg_right _ hn.le
  apply Finset.sum_le_sum
  intro S hS
  simp only [mem_filter, mem_range] at hS
  apply mul_le_mul_of_nonneg_left _ (Nat.cast_nonneg _)
  have h1 := (hw (S ||| 2 ^ i) (setBit_lt hi' hS.1)).2
  have h2 := (hw S hS.1).1
  linarith

/-- domination, on the model: for every player of the game and every completion `w` within the bounds,
    both calls succeed and the Shapley value of `w` does not exceed the per-player maximum used. -/
theorem dominates {n i : Nat} (hi' : i < n) (lo hi w : Nat → α) (hw : Within n lo hi w) :
    ∃ x y, shapleyForPlayer n (completeGame w) i = .ok x ∧
           shapleyForPlayer n (maxGainGetValues n i lo hi) i = .ok y ∧ x ≤ y :=
  ⟨_, _, shapleyForPlayer_ok hi' _ _ (answers_complete n w),
    shapleyForPlayer_ok hi' _ _ (answers_maxGain n i lo hi), phi_le_maxGain hi' lo hi w hw⟩

/-! ### a concrete 3-player instance: hypotheses are satisfiable, and the theorems speak about the very
    functions the driver runs (core `Rat` instances) -/

/-- ∅ and N known; lower = (0,1,1,2,0,2,3,6), upper = (0,3,2,5,4,6,3,6) -/
def exTable : Table Rat :=
  { n := 3, known := fun c => c == 0 || c == 7,
    lo := fun c => [0, 1, 1, 2, 0, 2, 3, 6].getD c 0,
    hi := fun c => [0, 3, 2, 5, 4, 6, 3, 6].getD c 0 }

example : exTable.known (grand exTable.n) = true ∧ exTable.hi 0 = 0 ∧
    (∀ c, c < 2 ^ exTable.n → exTable.lo c ≤ exTable.hi c) := by decide +kernel

example : exTable.exploitability = .ok (14 / 3) := by decide +kernel

example : ∃ x, exTable.exploitability = .ok x ∧ 0 ≤ x :=
  nonneg exTable (by decide +kernel) (by decide +kernel) (by decide +kernel)

example : Within 3 exTable.lo exTable.hi (fun c => [0, 2, 1, 4, 3, 2, 3, 6].getD c 0) := by
  unfold Within; decide +kernel

example : ({ exTable with known := fun c => c == 0 } : Table Rat).exploitability = .error .value := by
  decide +kernel

/-! ### the same theorems for the functions the native driver runs (`ICG.AtRat.*`: core `Rat` with
    core's instances) — they follow by mere unification -/

theorem identity_atRat (t : Table Rat) (hk : t.known (grand t.n) = true) :
    AtRat.exploitability t = .ok (weightedGap t.n t.lo t.hi - t.hi 0) := identity t hk

theorem identity_weightedGap_atRat (t : Table Rat) (hk : t.known (grand t.n) = true) (h0 : t.hi 0 = 0) :
    AtRat.exploitability t = .ok (weightedGap t.n t.lo t.hi) := identity_weightedGap t hk h0

theorem defined_iff_atRat (t : Table Rat) :
    (∃ x, AtRat.exploitability t = .ok x) ↔ t.known (grand t.n) = true := defined_iff t

theorem nonneg_atRat (t : Table Rat) (hk : t.known (grand t.n) = true) (h0 : t.hi 0 = 0)
    (hle : ∀ c, c < 2 ^ t.n → t.lo c ≤ t.hi c) : ∃ x, AtRat.exploitability t = .ok x ∧ 0 ≤ x :=
  nonneg t hk h0 hle

theorem zero_iff_atRat (t : Table Rat) (hk : t.known (grand t.n) = true) (h0 : t.hi 0 = 0)
    (hle : ∀ c, c < 2 ^ t.n → t.lo c ≤ t.hi c) :
    AtRat.exploitability t = .ok 0 ↔ ∀ c, c < 2 ^ t.n → t.lo c = t.hi c := zero_iff t hk h0 hle

theorem dominates_atRat {n i : Nat} (hi' : i < n) (lo hi w : Nat → Rat) (hw : Within n lo hi w) :
    ∃ x y, AtRat.shapleyForPlayer n w i = .ok x ∧
           ICG.shapleyForPlayer n (maxGainGetValues n i lo hi) i = .ok y ∧ x ≤ y :=
  dominates hi' lo hi w hw

end ICG.C05
