/-
  ICG.Props.Compose — the downstream properties with their hypotheses discharged by the upstream ones.

  By design (DESIGN.md §6, "upstream functions are opaque parameters downstream") the theorems of C09, C11, C13,
  C16 and the environment clause of C08 are stated for an ARBITRARY bound computer `compute` and an ARBITRARY gap
  function `gap`, under hypotheses that are themselves other properties (`ComputeOK`, `KnowledgeOnly`, `RowsOnly`,
  `ComputeTotal`, `GapTotal`, "0 ≤ gap", "the gap does not increase under more knowledge", `t'.n = t.n`, …).
  This file instantiates them with the model's REAL computers `k.run`, `k ∈ {.sa, .sac, .sam r}`, and the REAL gap
  functions of the package (`Gap.fn`: l1, l∞, l2², exploitability; `NormGap.fn`: l1, l∞) and discharges every such
  hypothesis from C01/C04 (soundness), C05 (exploitability identity), C07 (more knowledge ⇒ nested intervals ⇒
  smaller gap), C08 (knowledge only): no abstract `compute` / `gap` is left in any statement below.

  Two families of statements:
    * `…_norm (g : NormGap)`  over every `[AddCommGroup α] [LinearOrder α] [IsOrderedAddMonoid α]` (l1, l∞);
    * `… (g : Gap)`           over every `[Field α] [LinearOrder α] [IsStrictOrderedRing α]` (all four gaps;
                              exploitability with the side condition `v ∅ = 0` on the hidden game, `Gap.side`).
  "Hidden game of the class": `InClass k n v` = superadditive, and monotone non-increasing if `k` is `.sam r`.
  "Reachable": C09's `Reach` (constructor, then any sequence of successful reset / step / unstep with valid
  actions).  The generic proofs (over a gap with `GapFacts`) are in Lemmas/ComposeCore and Lemmas/ComposeSearch.

  Adapter: the `gap` parameter of the models has type `Table α → Except Err α`; the norms of ICG.Model.Shapley take
  `n lo hi`.  `gapL1 t = .ok (l1 t.n t.lo t.hi)` etc. (Lemmas/ComposeCore) are exactly `gap_func(incomplete_game)`.

  C13's `Hyps` asks the gap to be defined on the tables the environment hands it (`C13.GapDefined`, tables of
  `P.n` players knowing the initial coalitions), not on every table: that holds for all four gaps (`Gap.defined`;
  exploitability is NOT total, `gapTotal_iff`, but is defined whenever N is known).
-/
import ICG.Lemmas.ComposeSearch
import ICG.Props.C07L2

set_option linter.unusedSectionVars false

namespace ICG.Compose
open ICG Table Env ICG.Search ICG.SpecSA ICG.BoundsCommon
open ICG.C09 (Params Spec Reach Inv validStep validUnstep GapTotal)

variable {α : Type}

/-! ### the real gap functions, the class of the hidden game -/

/-- the gap functions available over ordered abelian groups -/
inductive NormGap where
  | l1 | linf
  deriving DecidableEq, Repr

/-- the gap functions of the package (`l2sq` is the square of `l2_norm`; the norm itself: `Props/C07L2`) -/
inductive Gap where
  | l1 | linf | l2sq | expl
  deriving DecidableEq, Repr

def NormGap.fn [Add α] [Sub α] [Zero α] [Max α] [Neg α] : NormGap → Table α → Except Err α
  | .l1 => gapL1
  | .linf => gapLinf

def Gap.fn [Add α] [Sub α] [Mul α] [Div α] [Zero α] [One α] [NatCast α] [Max α] [Neg α] :
    Gap → Table α → Except Err α
  | .l1 => gapL1
  | .linf => gapLinf
  | .l2sq => gapL2sq
  | .expl => gapExpl

/-- the side condition on the hidden game: `v ∅ = 0` for exploitability (the C05 identity), none otherwise -/
def Gap.side [Zero α] : Gap → (Nat → α) → Prop
  | .expl => fun v => v 0 = 0
  | _ => fun _ => True

/-- the hidden game is of the class the computer `k` assumes -/
def InClass [Add α] [LE α] (k : Computer) (n : Nat) (v : Nat → α) : Prop :=
  SA n v ∧ (k.NeedsMono → MonoDec n v)

theorem NormGap.facts [AddCommGroup α] [LinearOrder α] [IsOrderedAddMonoid α] (g : NormGap) :
    GapFacts (g.fn (α := α)) (fun _ => True) := by
  cases g
  · exact gapL1_facts
  · exact gapLinf_facts

theorem Gap.facts [Field α] [LinearOrder α] [IsStrictOrderedRing α] (g : Gap) :
    GapFacts (g.fn (α := α)) g.side := by
  cases g
  · exact gapL1_facts
  · exact gapLinf_facts
  · exact gapL2sq_facts
  · exact gapExpl_facts

/-! ### concrete 3-player instances for the `example`s (the games of C07 / C07Gaps) -/

namespace Ex

/-- 3 players, minimal information ∅, N, singletons (the order `minimal_game_coalitions` produces) -/
def P3 : Params := ⟨3, [0, 7, 1, 2, 4], none⟩

theorem P3_wf : P3.WF := ⟨by decide, by decide⟩
theorem P3_min : P3.Minimal := ⟨by decide, by decide, by decide⟩
theorem P3_ne : P3.explorable ≠ [] := by decide
theorem P3_expl : P3.explorable = [3, 5, 6] := by decide

/-- the constructor of the environment succeeds for every registered computer: a reachable state exists -/
theorem reach0 [AddCommGroup α] [LinearOrder α] [IsOrderedAddMonoid α] (k : Computer)
    (gap : Table α → Except Err α) (f g : Nat → α) :
    ∃ e, Reach (k.run : Table α → _) gap P3 e (Spec.init f g) := by
  obtain ⟨e, he⟩ := mkEnvWith_succeeds k (t0 := Table.init 3) rfl P3_wf P3_min P3_ne f g
  exact ⟨e, Reach.init rfl he⟩

theorem exV_class (k : Computer) (hk : k.IsSA) : InClass k 3 exV :=
  ⟨exV_SA, fun h => (Computer.not_needsMono_of_isSA hk h).elim⟩

theorem sam_class (r : Nat) : InClass (.sam r) 3 SAMExample.v := ⟨SAMExample.sa, fun _ => SAMExample.monoDec⟩

theorem exVq_class (k : Computer) (hk : k.IsSA) : InClass k 3 C07.exVq :=
  ⟨C07.exVq_SA, fun h => (Computer.not_needsMono_of_isSA hk h).elim⟩

theorem exVq_side (g : Gap) : g.side C07.exVq := by
  cases g
  · trivial
  · trivial
  · trivial
  · show C07.exVq 0 = 0
    decide +kernel

end Ex

/-! ### 1. C09: the reward is never positive, is zero when nothing is left, and never decreases -/

section env_group
variable [AddCommGroup α] [LinearOrder α] [IsOrderedAddMonoid α]
variable {k : Computer} {P : Params} {e e' : Env α} {s s' : Spec α}

/-- **never positive** (C09 `reward_nonpos`, hypothesis `0 ≤ gap` discharged by C01/C04 + C07; the reward is also
    DEFINED): l1, l∞ over ordered abelian groups -/
theorem reward_nonpos_norm (k : Computer) (g : NormGap) (hP : P.WF) (hmin : P.Minimal)
    (h : Reach (k.run : Table α → _) g.fn P e s) (hcl : InClass k P.n s.full) :
    ∃ r, e.reward g.fn = .ok r ∧ r ≤ 0 :=
  reward_nonpos_of g.facts hmin (C09.reach_inv_real k hP h) hcl.1 hcl.2 trivial

example (g : NormGap) : ∃ e : Env Int, Reach Computer.sac.run g.fn Ex.P3 e (Spec.init exV exV) ∧
    ∃ r, e.reward g.fn = .ok r ∧ r ≤ 0 := by
  obtain ⟨e, he⟩ := Ex.reach0 .sac g.fn exV exV
  exact ⟨e, he, reward_nonpos_norm .sac g Ex.P3_wf Ex.P3_min he (Ex.exV_class .sac trivial)⟩

example (r : Nat) (g : NormGap) :
    ∃ e : Env Int, Reach (Computer.sam r).run g.fn Ex.P3 e (Spec.init SAMExample.v SAMExample.v) ∧
      ∃ x, e.reward g.fn = .ok x ∧ x ≤ 0 := by
  obtain ⟨e, he⟩ := Ex.reach0 (.sam r) g.fn SAMExample.v SAMExample.v
  exact ⟨e, he, reward_nonpos_norm (.sam r) g Ex.P3_wf Ex.P3_min he (Ex.sam_class r)⟩

/-- **zero once everything explorable is revealed** (whatever the hidden game) -/
theorem reward_zero_full_norm (k : Computer) (g : NormGap) (hP : P.WF) (hmin : P.Minimal)
    (h : Reach (k.run : Table α → _) g.fn P e s) (hall : ∀ c ∈ P.explorable, s.revealed c = true) :
    e.reward g.fn = .ok 0 :=
  reward_zero_of g.facts hmin (C09.reach_inv_real k hP h) trivial hall

/-- **a valid step never raises** (C09 `step_succeeds`, `ComputeTotal` / `GapTotal` discharged) -/
theorem step_succeeds_norm (k : Computer) (g : NormGap) (hP : P.WF) (hmin : P.Minimal)
    (h : Reach (k.run : Table α → _) g.fn P e s) (hcl : InClass k P.n s.full) {a : Nat}
    (hv : validStep P s a = true) : ∃ e' out, step k.run g.fn e a = .ok (e', out) :=
  step_succeeds_of g.facts hmin (C09.reach_inv_real k hP h) hcl.1 hcl.2 trivial hv

theorem unstep_succeeds_norm (k : Computer) (g : NormGap) (hP : P.WF) (hmin : P.Minimal)
    (h : Reach (k.run : Table α → _) g.fn P e s) (hcl : InClass k P.n s.full) {a : Nat}
    (hv : validUnstep P s a = true) : ∃ e' out, unstep k.run g.fn e a = .ok (e', out) :=
  unstep_succeeds_of g.facts hmin (C09.reach_inv_real k hP h) hcl.1 hcl.2 trivial hv

/-- **the reward never decreases along a step** and stays ≤ 0 (C07 at the level of the environment) -/
theorem step_reward_mono_norm (k : Computer) (g : NormGap) (hP : P.WF) (hmin : P.Minimal)
    (h : Reach (k.run : Table α → _) g.fn P e s) (hcl : InClass k P.n s.full) {a : Nat} {out : StepOut α}
    (hs : step k.run g.fn e a = .ok (e', out)) :
    ∃ r, e.reward g.fn = .ok r ∧ r ≤ out.reward ∧ out.reward ≤ 0 := by
  have hinv := C09.reach_inv_real k hP h
  obtain ⟨c, _, _, hinv', _, _, hr', _⟩ := C09.step_spec (computer_ok k) hinv hs
  obtain ⟨r, r', h1, h2, h3, h4⟩ := reward_mono_of (s' := s.step c) g.facts hmin hinv hinv' rfl
    (fun d hd => by simp [Spec.step, hd]) hcl.1 hcl.2 trivial
  rw [hr'] at h2
  cases h2
  exact ⟨r, h1, h3, h4⟩

/-- reveal everything (coalitions 3, 5, 6 of the 3-player game `exV`), cached computer, l1 and l∞: every step
    succeeds, the rewards are non-decreasing and ≤ 0, and the last one is 0 -/
example (g : NormGap) : ∃ (e0 e1 e2 e3 : Env Int) (o1 o2 o3 : StepOut Int) (r0 : Int),
    Reach Computer.sac.run g.fn Ex.P3 e0 (Spec.init exV exV) ∧ e0.reward g.fn = .ok r0 ∧
    step Computer.sac.run g.fn e0 0 = .ok (e1, o1) ∧ step Computer.sac.run g.fn e1 1 = .ok (e2, o2) ∧
    step Computer.sac.run g.fn e2 2 = .ok (e3, o3) ∧
    r0 ≤ o1.reward ∧ o1.reward ≤ o2.reward ∧ o2.reward ≤ o3.reward ∧ o3.reward = 0 := by
  have hc := Ex.exV_class .sac trivial
  obtain ⟨e0, h0⟩ := Ex.reach0 .sac g.fn exV exV
  obtain ⟨e1, o1, hs1⟩ := step_succeeds_norm .sac g Ex.P3_wf Ex.P3_min h0 hc (a := 0) (by decide)
  have h1 := Reach.step (c := 3) h0 (by decide) (by decide) hs1
  obtain ⟨e2, o2, hs2⟩ := step_succeeds_norm .sac g Ex.P3_wf Ex.P3_min h1 hc (a := 1) (by decide)
  have h2 := Reach.step (c := 5) h1 (by decide) (by decide) hs2
  obtain ⟨e3, o3, hs3⟩ := step_succeeds_norm .sac g Ex.P3_wf Ex.P3_min h2 hc (a := 2) (by decide)
  have h3 := Reach.step (c := 6) h2 (by decide) (by decide) hs3
  obtain ⟨r0, hr0, m1, _⟩ := step_reward_mono_norm .sac g Ex.P3_wf Ex.P3_min h0 hc hs1
  obtain ⟨r1, hr1, m2, _⟩ := step_reward_mono_norm .sac g Ex.P3_wf Ex.P3_min h1 hc hs2
  obtain ⟨r2, hr2, m3, _⟩ := step_reward_mono_norm .sac g Ex.P3_wf Ex.P3_min h2 hc hs3
  have e1r := (C09.step_spec (computer_ok .sac) (C09.reach_inv_real .sac Ex.P3_wf h0) hs1).choose_spec.2.2.2.2.2.1
  have e2r := (C09.step_spec (computer_ok .sac) (C09.reach_inv_real .sac Ex.P3_wf h1) hs2).choose_spec.2.2.2.2.2.1
  have e3r := (C09.step_spec (computer_ok .sac) (C09.reach_inv_real .sac Ex.P3_wf h2) hs3).choose_spec.2.2.2.2.2.1
  rw [e1r] at hr1
  rw [e2r] at hr2
  cases hr1
  cases hr2
  have hz := reward_zero_full_norm .sac g Ex.P3_wf Ex.P3_min h3 (by rw [Ex.P3_expl]; decide)
  rw [e3r] at hz
  exact ⟨e0, e1, e2, e3, o1, o2, o3, r0, h0, hr0, hs1, hs2, hs3, m1, m2, m3, Except.ok.inj hz⟩

/-- **more revealed, reward not smaller** — between ANY two reachable states of the same hidden game -/
theorem reward_mono_norm (k : Computer) (g : NormGap) (hP : P.WF) (hmin : P.Minimal)
    (h : Reach (k.run : Table α → _) g.fn P e s) (h' : Reach (k.run : Table α → _) g.fn P e' s')
    (hfull : s'.full = s.full) (hle : ∀ c, s.revealed c = true → s'.revealed c = true)
    (hcl : InClass k P.n s.full) :
    ∃ r r', e.reward g.fn = .ok r ∧ e'.reward g.fn = .ok r' ∧ r ≤ r' ∧ r' ≤ 0 :=
  reward_mono_of g.facts hmin (C09.reach_inv_real k hP h) (C09.reach_inv_real k hP h') hfull hle hcl.1 hcl.2
    trivial

example (g : NormGap) : ∃ (e e' : Env Int) (s' : Spec Int) (r r' : Int),
    Reach Computer.sa.run g.fn Ex.P3 e (Spec.init exV exV) ∧ Reach Computer.sa.run g.fn Ex.P3 e' s' ∧
    s'.revealed 5 = true ∧ e.reward g.fn = .ok r ∧ e'.reward g.fn = .ok r' ∧ r ≤ r' ∧ r' ≤ 0 := by
  have hc := Ex.exV_class .sa trivial
  obtain ⟨e0, h0⟩ := Ex.reach0 .sa g.fn exV exV
  obtain ⟨e1, o1, hs1⟩ := step_succeeds_norm .sa g Ex.P3_wf Ex.P3_min h0 hc (a := 1) (by decide)
  have h1 := Reach.step (c := 5) h0 (by decide) (by decide) hs1
  obtain ⟨r, r', a, b, c, d⟩ := reward_mono_norm .sa g Ex.P3_wf Ex.P3_min h0 h1 rfl (by simp [Spec.init]) hc
  exact ⟨e0, e1, _, r, r', h0, h1, by simp [Spec.step], a, b, c, d⟩

/-! ### 4. C08 (environment clause): step-then-unstep restores reward and observation -/

/-- **undo** (`EnvUndo.env_undo` with `ComputeOK`, `KnowledgeOnly` discharged by `EnvReal` and `RowsOnly gap` by
    C07's gap facts): no assumption on the hidden game -/
theorem step_unstep_restores_norm (k : Computer) (g : NormGap) (hP : P.WF)
    (h : Reach (k.run : Table α → _) g.fn P e s) {a : Nat} {e1 e2 : Env α} {o1 o2 : StepOut α}
    (h1 : step k.run g.fn e a = .ok (e1, o1)) (h2 : unstep k.run g.fn e1 a = .ok (e2, o2)) :
    EnvEq e2 e ∧ e2.actionMasks = e.actionMasks ∧ e2.state = e.state ∧ e2.done = e.done ∧
      o2.obs = e.state ∧ o2.done = e.done ∧ o2.chosen = o1.chosen ∧ e.reward g.fn = .ok o2.reward :=
  env_undo_of g.facts (C09.reach_inv_real k hP h) h1 h2

/-- for a hidden game of the class the round trip of a valid action never raises and ends in the same abstract
    state -/
theorem roundtrip_succeeds_norm (k : Computer) (g : NormGap) (hP : P.WF) (hmin : P.Minimal)
    (h : Reach (k.run : Table α → _) g.fn P e s) (hcl : InClass k P.n s.full) {a : Nat}
    (hv : validStep P s a = true) :
    ∃ e1 o1 e2 o2, step k.run g.fn e a = .ok (e1, o1) ∧ unstep k.run g.fn e1 a = .ok (e2, o2) ∧
      Inv (k.run : Table α → _) P e2 s :=
  roundtrip_succeeds_of g.facts hmin (C09.reach_inv_real k hP h) hcl.1 hcl.2 trivial hv

example (r : Nat) (g : NormGap) : ∃ (e e1 e2 : Env Int) (o1 o2 : StepOut Int),
    Reach (Computer.sam r).run g.fn Ex.P3 e (Spec.init SAMExample.v SAMExample.v) ∧
    step (Computer.sam r).run g.fn e 2 = .ok (e1, o1) ∧ unstep (Computer.sam r).run g.fn e1 2 = .ok (e2, o2) ∧
    EnvEq e2 e ∧ o2.obs = e.state ∧ e.reward g.fn = .ok o2.reward := by
  obtain ⟨e, he⟩ := Ex.reach0 (.sam r) g.fn SAMExample.v SAMExample.v
  obtain ⟨e1, o1, e2, o2, h1, h2, _⟩ :=
    roundtrip_succeeds_norm (.sam r) g Ex.P3_wf Ex.P3_min he (Ex.sam_class r) (a := 2) (by decide)
  obtain ⟨a1, _, _, _, a5, _, _, a8⟩ := step_unstep_restores_norm (.sam r) g Ex.P3_wf he h1 h2
  exact ⟨e, e1, e2, o1, o2, he, h1, h2, a1, a5, a8⟩

/-! ### 5a. the constructor; C13's hypotheses; C16 -/

/-- the constructor `ICG_Gym(…)` never raises for a registered computer when the initial knowledge contains the
    minimal information and something is left to explore — whatever the hidden game and the gap function -/
theorem mkEnvWith_succeeds_real (k : Computer) {t0 : Table α} (hn : t0.n = P.n) (hP : P.WF) (hmin : P.Minimal)
    (hex : P.explorable ≠ []) (gap : Table α → Except Err α) (f g : Nat → α) :
    ∃ e, mkEnvWith (k.run : Table α → _) t0 P.ik P.budget f g = .ok e ∧
      Reach (k.run : Table α → _) gap P e (Spec.init f g) := by
  obtain ⟨e, he⟩ := mkEnvWith_succeeds k hn hP hmin hex f g
  exact ⟨e, he, Reach.init hn he⟩

example (k : Computer) : ∃ e : Env Int, mkEnvWith k.run (Table.init 3) Ex.P3.ik Ex.P3.budget exV exV = .ok e ∧
    Reach k.run NormGap.l1.fn Ex.P3 e (Spec.init exV exV) :=
  mkEnvWith_succeeds_real k rfl Ex.P3_wf Ex.P3_min Ex.P3_ne _ exV exV

/-- **reset never raises** at a reachable state (C09 `reset_succeeds`, `ComputeTotal` discharged) and lands in
    the initial abstract state of the new hidden game, whatever that game and the gap function are -/
theorem reset_real (k : Computer) (gap : Table α → Except Err α) (hP : P.WF) (hmin : P.Minimal)
    (h : Reach (k.run : Table α → _) gap P e s) (f g : Nat → α) :
    ∃ e' obs, reset (k.run : Table α → _) e f g = .ok (e', obs) ∧
      Reach (k.run : Table α → _) gap P e' (Spec.init f g) ∧ obs = e'.state := by
  have hinv := C09.reach_inv_real k hP h
  obtain ⟨e', obs, hr⟩ := C09.reset_succeeds (C09.computer_computeTotal k hmin) hP hinv f g
  exact ⟨e', obs, hr, Reach.reset h hr, (C09.reset_inv_spec (computer_ok k) hP hinv hr).2⟩

/-- C16 `linReset_spec` with `ComputeOK` discharged and success added -/
theorem linReset_real (k : Computer) (gap : Table α → Except Err α) (hP : P.WF) (hmin : P.Minimal)
    (h : Reach (k.run : Table α → _) gap P e s) (hne : P.explorable ≠ []) (f g : Nat → α) :
    ∃ e' lin, linReset (k.run : Table α → _) e f g = .ok (e', lin) ∧
      Reach (k.run : Table α → _) gap P e' (Spec.init f g) ∧ e'.linState = .ok lin := by
  obtain ⟨e', obs, hr, hreach, _⟩ := reset_real k gap hP hmin h f g
  obtain ⟨lin, h1, _, h3⟩ := C16.linReset_spec (computer_ok k) hP (C09.reach_inv_real k hP h) hne hr
  exact ⟨e', lin, h1, hreach, h3⟩

example (r : Nat) : ∃ (e e' : Env Int) (lin : List Int),
    Reach (Computer.sam r).run NormGap.linf.fn Ex.P3 e (Spec.init exV exV) ∧
    linReset (Computer.sam r).run e SAMExample.v SAMExample.v = .ok (e', lin) ∧
    Reach (Computer.sam r).run NormGap.linf.fn Ex.P3 e' (Spec.init SAMExample.v SAMExample.v) := by
  obtain ⟨e, he⟩ := Ex.reach0 (.sam r) NormGap.linf.fn exV exV
  obtain ⟨e', lin, h1, h2, _⟩ := linReset_real (.sam r) _ Ex.P3_wf Ex.P3_min he Ex.P3_ne SAMExample.v SAMExample.v
  exact ⟨e, e', lin, he, h1, h2⟩

theorem NormGap.total (g : NormGap) : GapTotal (g.fn (α := α)) := by
  intro t
  cases g
  · exact ⟨_, rfl⟩
  · obtain ⟨m, hm, _⟩ := GapMono.linf_nonneg t.n t.lo t.hi
    exact ⟨m, hm⟩

/-- **C13's `Hyps` is a theorem** for every registered computer with l1 / l∞: the solver theorems of C13
    (`greedy_spec`, `greedy_worst_spec`, `actionValues_spec`, `inv_envEq`, …) apply without hypothesis on the
    parameters -/
theorem hyps_norm (k : Computer) (g : NormGap) (hP : P.WF) (hmin : P.Minimal) :
    C13.Hyps (k.run : Table α → _) g.fn P :=
  hyps_of g.facts (C13.GapDefined.of_total g.total P) k hP hmin

/-- e.g. greedy: at every reachable state with a valid action the solver succeeds, returns a valid action of
    maximal immediate reward (lowest index among those), and leaves the environment as it found it -/
theorem greedy_real_norm (k : Computer) (g : NormGap) (hP : P.WF) (hmin : P.Minimal)
    (h : Reach (k.run : Table α → _) g.fn P e s) (hne : e.validActions ≠ []) :
    ∃ e' a m, greedy k.run g.fn false e = .ok (e', a) ∧ EnvEq e' e ∧ Inv (k.run : Table α → _) P e' s ∧
      a ∈ e.validActions ∧ C13.stepReward k.run g.fn e a = some m ∧
      (∀ b ∈ e.validActions, ∀ rb, C13.stepReward k.run g.fn e b = some rb → rb ≤ m) ∧
      (∀ b ∈ e.validActions, C13.stepReward k.run g.fn e b = some m → a ≤ b) :=
  C13.greedy_spec (hyps_norm k g hP hmin) (C09.reach_inv_real k hP h) hne

example (g : NormGap) : ∃ (e e' : Env Int) (a : Nat),
    Reach Computer.sa.run g.fn Ex.P3 e (Spec.init exV exV) ∧ greedy Computer.sa.run g.fn false e = .ok (e', a) ∧
    EnvEq e' e ∧ a ∈ e.validActions := by
  obtain ⟨e, he⟩ := Ex.reach0 .sa g.fn exV exV
  have hne : e.validActions ≠ [] := by
    have h0 : 0 ∈ e.validActions :=
      (C09.validActions_spec (C09.reach_inv_real .sa Ex.P3_wf he) 0).mpr (by decide)
    exact List.ne_nil_of_mem h0
  obtain ⟨e', a, _, h1, h2, _, h4, _⟩ := greedy_real_norm .sa g Ex.P3_wf Ex.P3_min he hne
  exact ⟨e, e', a, he, h1, h2, h4⟩

/-- **C16, step, end to end**: for every size `k < n` and every coalition the sampler can draw the linear step
    succeeds, reveals a previously unknown explorable coalition of that size and returns the inner environment's
    reward (never positive) and done flag; the observation is the size-aggregated inner observation -/
theorem linStep_real_norm (k : Computer) (g : NormGap) (hP : P.WF) (hmin : P.Minimal)
    (h : Reach (k.run : Table α → _) g.fn P e s) (hcl : InClass k P.n s.full) {sz chosen : Nat} (hk : sz < P.n)
    (hc : chosen ∈ e.linCandidates sz) :
    ∃ (e' : Env α) (out : StepOut α) (lin : List α) (c : Nat),
      linStep k.run g.fn e sz chosen = some (.ok (e', { out with obs := lin })) ∧
      P.explorable[chosen]? = some c ∧ size c = sz ∧ s.revealed c = false ∧
      Inv (k.run : Table α → _) P e' (s.step c) ∧ out.chosen = c ∧
      e'.reward g.fn = .ok out.reward ∧ out.reward ≤ 0 ∧ out.done = e'.done ∧ e'.linState = .ok lin :=
  linStep_of g.facts hmin (C09.reach_inv_real k hP h) hcl.1 hcl.2 trivial hk hc

example (g : NormGap) : ∃ (e e' : Env Int) (out : StepOut Int),
    Reach Computer.sac.run g.fn Ex.P3 e (Spec.init exV exV) ∧
    linStep Computer.sac.run g.fn e 2 1 = some (.ok (e', out)) ∧ out.chosen = 5 ∧ out.reward ≤ 0 := by
  obtain ⟨e, he⟩ := Ex.reach0 .sac g.fn exV exV
  have hinv := C09.reach_inv_real .sac Ex.P3_wf he
  have hc : 1 ∈ e.linCandidates 2 := by
    refine C16.mem_linCandidates.mpr ⟨5, by rw [hinv.ex]; decide, by decide +kernel, ?_⟩
    rw [hinv.known 5]; decide
  obtain ⟨e', out, lin, c, h1, h2, _, _, _, h6, _, h8, _⟩ :=
    linStep_real_norm .sac g Ex.P3_wf Ex.P3_min he (Ex.exV_class .sac trivial) (sz := 2) (by decide) hc
  have hc5 : c = 5 := by
    have : Ex.P3.explorable[1]? = some 5 := by decide
    rw [this] at h2
    exact (Option.some.inj h2).symm
  exact ⟨e, e', _, he, h1, by rw [← hc5]; exact h6, h8⟩

end env_group

/-! ### the same over ordered fields, for all four gap functions (exploitability: hidden game with `v ∅ = 0`) -/

section env_field
variable [Field α] [LinearOrder α] [IsStrictOrderedRing α]
variable {k : Computer} {P : Params} {e e' : Env α} {s s' : Spec α}

/-- **never positive**, all four gap functions -/
theorem reward_nonpos (k : Computer) (g : Gap) (hP : P.WF) (hmin : P.Minimal)
    (h : Reach (k.run : Table α → _) g.fn P e s) (hcl : InClass k P.n s.full) (hside : g.side s.full) :
    ∃ r, e.reward g.fn = .ok r ∧ r ≤ 0 :=
  reward_nonpos_of g.facts hmin (C09.reach_inv_real k hP h) hcl.1 hcl.2 hside

example (g : Gap) : ∃ e : Env Rat, Reach Computer.sa.run g.fn Ex.P3 e (Spec.init C07.exVq C07.exVq) ∧
    ∃ r, e.reward g.fn = .ok r ∧ r ≤ 0 := by
  obtain ⟨e, he⟩ := Ex.reach0 .sa g.fn C07.exVq C07.exVq
  exact ⟨e, he, reward_nonpos .sa g Ex.P3_wf Ex.P3_min he (Ex.exVq_class .sa trivial) (Ex.exVq_side g)⟩

/-- **zero once everything explorable is revealed** -/
theorem reward_zero_full (k : Computer) (g : Gap) (hP : P.WF) (hmin : P.Minimal)
    (h : Reach (k.run : Table α → _) g.fn P e s) (hside : g.side s.full)
    (hall : ∀ c ∈ P.explorable, s.revealed c = true) : e.reward g.fn = .ok 0 :=
  reward_zero_of g.facts hmin (C09.reach_inv_real k hP h) hside hall

/-- **a valid step / unstep never raises** — also for exploitability, which is NOT total (`gapTotal_iff`) but is
    defined at every reachable state -/
theorem step_succeeds (k : Computer) (g : Gap) (hP : P.WF) (hmin : P.Minimal)
    (h : Reach (k.run : Table α → _) g.fn P e s) (hcl : InClass k P.n s.full) (hside : g.side s.full) {a : Nat}
    (hv : validStep P s a = true) : ∃ e' out, step k.run g.fn e a = .ok (e', out) :=
  step_succeeds_of g.facts hmin (C09.reach_inv_real k hP h) hcl.1 hcl.2 hside hv

theorem unstep_succeeds (k : Computer) (g : Gap) (hP : P.WF) (hmin : P.Minimal)
    (h : Reach (k.run : Table α → _) g.fn P e s) (hcl : InClass k P.n s.full) (hside : g.side s.full) {a : Nat}
    (hv : validUnstep P s a = true) : ∃ e' out, unstep k.run g.fn e a = .ok (e', out) :=
  unstep_succeeds_of g.facts hmin (C09.reach_inv_real k hP h) hcl.1 hcl.2 hside hv

/-- **the reward never decreases along a step** and stays ≤ 0 -/
theorem step_reward_mono (k : Computer) (g : Gap) (hP : P.WF) (hmin : P.Minimal)
    (h : Reach (k.run : Table α → _) g.fn P e s) (hcl : InClass k P.n s.full) (hside : g.side s.full) {a : Nat}
    {out : StepOut α} (hs : step k.run g.fn e a = .ok (e', out)) :
    ∃ r, e.reward g.fn = .ok r ∧ r ≤ out.reward ∧ out.reward ≤ 0 := by
  have hinv := C09.reach_inv_real k hP h
  obtain ⟨c, _, _, hinv', _, _, hr', _⟩ := C09.step_spec (computer_ok k) hinv hs
  obtain ⟨r, r', h1, h2, h3, h4⟩ := reward_mono_of (s' := s.step c) g.facts hmin hinv hinv' rfl
    (fun d hd => by simp [Spec.step, hd]) hcl.1 hcl.2 hside
  rw [hr'] at h2
  cases h2
  exact ⟨r, h1, h3, h4⟩

/-- **more revealed, reward not smaller** — between any two reachable states of the same hidden game -/
theorem reward_mono (k : Computer) (g : Gap) (hP : P.WF) (hmin : P.Minimal)
    (h : Reach (k.run : Table α → _) g.fn P e s) (h' : Reach (k.run : Table α → _) g.fn P e' s')
    (hfull : s'.full = s.full) (hle : ∀ c, s.revealed c = true → s'.revealed c = true)
    (hcl : InClass k P.n s.full) (hside : g.side s.full) :
    ∃ r r', e.reward g.fn = .ok r ∧ e'.reward g.fn = .ok r' ∧ r ≤ r' ∧ r' ≤ 0 :=
  reward_mono_of g.facts hmin (C09.reach_inv_real k hP h) (C09.reach_inv_real k hP h') hfull hle hcl.1 hcl.2
    hside

/-- all four gaps over `Rat`: reveal coalitions 6, 3, 5 in that order; the rewards are non-decreasing, ≤ 0, and
    the last one is 0 -/
example (g : Gap) : ∃ (e0 e1 e2 e3 : Env Rat) (o1 o2 o3 : StepOut Rat) (r0 : Rat),
    Reach Computer.sa.run g.fn Ex.P3 e0 (Spec.init C07.exVq C07.exVq) ∧ e0.reward g.fn = .ok r0 ∧
    step Computer.sa.run g.fn e0 2 = .ok (e1, o1) ∧ step Computer.sa.run g.fn e1 0 = .ok (e2, o2) ∧
    step Computer.sa.run g.fn e2 1 = .ok (e3, o3) ∧
    r0 ≤ o1.reward ∧ o1.reward ≤ o2.reward ∧ o2.reward ≤ o3.reward ∧ o3.reward = 0 := by
  have hc := Ex.exVq_class .sa trivial
  have hsd := Ex.exVq_side g
  obtain ⟨e0, h0⟩ := Ex.reach0 .sa g.fn C07.exVq C07.exVq
  obtain ⟨e1, o1, hs1⟩ := step_succeeds .sa g Ex.P3_wf Ex.P3_min h0 hc hsd (a := 2) (by decide)
  have h1 := Reach.step (c := 6) h0 (by decide) (by decide) hs1
  obtain ⟨e2, o2, hs2⟩ := step_succeeds .sa g Ex.P3_wf Ex.P3_min h1 hc hsd (a := 0) (by decide)
  have h2 := Reach.step (c := 3) h1 (by decide) (by decide) hs2
  obtain ⟨e3, o3, hs3⟩ := step_succeeds .sa g Ex.P3_wf Ex.P3_min h2 hc hsd (a := 1) (by decide)
  have h3 := Reach.step (c := 5) h2 (by decide) (by decide) hs3
  obtain ⟨r0, hr0, m1, _⟩ := step_reward_mono .sa g Ex.P3_wf Ex.P3_min h0 hc hsd hs1
  obtain ⟨r1, hr1, m2, _⟩ := step_reward_mono .sa g Ex.P3_wf Ex.P3_min h1 hc hsd hs2
  obtain ⟨r2, hr2, m3, _⟩ := step_reward_mono .sa g Ex.P3_wf Ex.P3_min h2 hc hsd hs3
  have e1r := (C09.step_spec (computer_ok .sa) (C09.reach_inv_real .sa Ex.P3_wf h0) hs1).choose_spec.2.2.2.2.2.1
  have e2r := (C09.step_spec (computer_ok .sa) (C09.reach_inv_real .sa Ex.P3_wf h1) hs2).choose_spec.2.2.2.2.2.1
  have e3r := (C09.step_spec (computer_ok .sa) (C09.reach_inv_real .sa Ex.P3_wf h2) hs3).choose_spec.2.2.2.2.2.1
  rw [e1r] at hr1
  rw [e2r] at hr2
  cases hr1
  cases hr2
  have hz := reward_zero_full .sa g Ex.P3_wf Ex.P3_min h3 hsd (by rw [Ex.P3_expl]; decide)
  rw [e3r] at hz
  exact ⟨e0, e1, e2, e3, o1, o2, o3, r0, h0, hr0, hs1, hs2, hs3, m1, m2, m3, Except.ok.inj hz⟩

/-- **undo**, all four gap functions (each reads the rows of the table only — for exploitability through the C05
    identity, including its error behaviour) -/
theorem step_unstep_restores (k : Computer) (g : Gap) (hP : P.WF)
    (h : Reach (k.run : Table α → _) g.fn P e s) {a : Nat} {e1 e2 : Env α} {o1 o2 : StepOut α}
    (h1 : step k.run g.fn e a = .ok (e1, o1)) (h2 : unstep k.run g.fn e1 a = .ok (e2, o2)) :
    EnvEq e2 e ∧ e2.actionMasks = e.actionMasks ∧ e2.state = e.state ∧ e2.done = e.done ∧
      o2.obs = e.state ∧ o2.done = e.done ∧ o2.chosen = o1.chosen ∧ e.reward g.fn = .ok o2.reward :=
  env_undo_of g.facts (C09.reach_inv_real k hP h) h1 h2

theorem roundtrip_succeeds (k : Computer) (g : Gap) (hP : P.WF) (hmin : P.Minimal)
    (h : Reach (k.run : Table α → _) g.fn P e s) (hcl : InClass k P.n s.full) (hside : g.side s.full) {a : Nat}
    (hv : validStep P s a = true) :
    ∃ e1 o1 e2 o2, step k.run g.fn e a = .ok (e1, o1) ∧ unstep k.run g.fn e1 a = .ok (e2, o2) ∧
      Inv (k.run : Table α → _) P e2 s :=
  roundtrip_succeeds_of g.facts hmin (C09.reach_inv_real k hP h) hcl.1 hcl.2 hside hv

example (g : Gap) : ∃ (e e1 e2 : Env Rat) (o1 o2 : StepOut Rat),
    Reach Computer.sac.run g.fn Ex.P3 e (Spec.init C07.exVq C07.exVq) ∧
    step Computer.sac.run g.fn e 1 = .ok (e1, o1) ∧ unstep Computer.sac.run g.fn e1 1 = .ok (e2, o2) ∧
    EnvEq e2 e ∧ o2.obs = e.state ∧ e.reward g.fn = .ok o2.reward := by
  obtain ⟨e, he⟩ := Ex.reach0 .sac g.fn C07.exVq C07.exVq
  obtain ⟨e1, o1, e2, o2, h1, h2, _⟩ := roundtrip_succeeds .sac g Ex.P3_wf Ex.P3_min he
    (Ex.exVq_class .sac trivial) (Ex.exVq_side g) (a := 1) (by decide)
  obtain ⟨a1, _, _, _, a5, _, _, a8⟩ := step_unstep_restores .sac g Ex.P3_wf he h1 h2
  exact ⟨e, e1, e2, o1, o2, he, h1, h2, a1, a5, a8⟩

/-- which of the four gap functions never raise: all but exploitability (ValueError when N is unknown) -/
theorem gapTotal_iff (g : Gap) : GapTotal (g.fn (α := α)) ↔ g ≠ .expl := by
  constructor
  · intro h hg
    subst hg
    obtain ⟨x, hx⟩ := h { n := 0, known := fun _ => false, lo := fun _ => 0, hi := fun _ => 0 }
    have := (C05.defined_iff (α := α) _).mp ⟨x, hx⟩
    cases this
  · intro hg t
    cases g
    · exact ⟨_, rfl⟩
    · obtain ⟨m, hm, _⟩ := GapMono.linf_nonneg t.n t.lo t.hi
      exact ⟨m, hm⟩
    · exact ⟨_, rfl⟩
    · exact absurd rfl hg

/-- every one of the four gap functions is defined on the tables the environment hands it (tables of `P.n` players
    that know the initial coalitions, N among them): the norms never raise, exploitability is defined exactly when N
    is known (`C05.defined_iff`).  No condition on the hidden game. -/
theorem Gap.defined (g : Gap) (hmin : P.Minimal) : C13.GapDefined (g.fn (α := α)) P := by
  intro t hn hk
  cases g
  · exact ⟨_, rfl⟩
  · obtain ⟨m, hm, _⟩ := GapMono.linf_nonneg t.n t.lo t.hi
    exact ⟨m, hm⟩
  · exact ⟨_, rfl⟩
  · refine (C05.defined_iff t).mpr ?_
    show t.known (2 ^ t.n - 1) = true
    rw [hn]
    exact hk _ hmin.2.1

/-- **C13's `Hyps` is a theorem** for every registered computer and ALL four gap functions, exploitability
    included (its field `gtot` asks for definedness on the tables the environment produces, `C13.GapDefined`) -/
theorem hyps (k : Computer) (g : Gap) (hP : P.WF) (hmin : P.Minimal) :
    C13.Hyps (k.run : Table α → _) g.fn P :=
  hyps_of g.facts (g.defined hmin) k hP hmin

/-- **greedy / worst-greedy with the real computers and all four gaps** (C13 `greedy_spec` / `greedy_worst_spec`
    with `Hyps` discharged): at every reachable state with a valid action — whatever the hidden game — the solver
    succeeds, returns a valid action whose immediate reward is maximal (`worst = false`) resp. minimal
    (`worst = true`) among the valid actions, the lowest index among those, and leaves the environment as it found it -/
theorem greedy_real (k : Computer) (g : Gap) (worst : Bool) (hP : P.WF) (hmin : P.Minimal)
    (h : Reach (k.run : Table α → _) g.fn P e s) (hne : e.validActions ≠ []) :
    ∃ e' a m, greedy k.run g.fn worst e = .ok (e', a) ∧ EnvEq e' e ∧ Inv (k.run : Table α → _) P e' s ∧
      a ∈ e.validActions ∧ C13.stepReward k.run g.fn e a = some m ∧
      (∀ b ∈ e.validActions, ∀ rb, C13.stepReward k.run g.fn e b = some rb →
        if worst then m ≤ rb else rb ≤ m) ∧
      (∀ b ∈ e.validActions, C13.stepReward k.run g.fn e b = some m → a ≤ b) := by
  cases worst
  · obtain ⟨e', a, m, h1, h2, h3, h4, h5, h6, h7⟩ :=
      C13.greedy_spec (hyps k g hP hmin) (C09.reach_inv_real k hP h) hne
    exact ⟨e', a, m, h1, h2, h3, h4, h5, fun b hb rb hrb => by simpa using h6 b hb rb hrb, h7⟩
  · obtain ⟨e', a, m, h1, h2, h3, h4, h5, h6, h7⟩ :=
      C13.greedy_worst_spec (hyps k g hP hmin) (C09.reach_inv_real k hP h) hne
    exact ⟨e', a, m, h1, h2, h3, h4, h5, fun b hb rb hrb => by simpa using h6 b hb rb hrb, h7⟩

/-- for a hidden game of the class the immediate rewards greedy compares are all ≤ 0, and the one it picks is not
    smaller than the current reward -/
theorem greedy_reward_bounds (k : Computer) (g : Gap) (hP : P.WF) (hmin : P.Minimal)
    (h : Reach (k.run : Table α → _) g.fn P e s) (hcl : InClass k P.n s.full) (hside : g.side s.full)
    {a : Nat} {m : α} (hm : C13.stepReward k.run g.fn e a = some m) :
    ∃ r, e.reward g.fn = .ok r ∧ r ≤ m ∧ m ≤ 0 := by
  unfold C13.stepReward at hm
  cases hs : step k.run g.fn e a with
  | error x => rw [hs] at hm; cases hm
  | ok p =>
    obtain ⟨e', out⟩ := p
    rw [hs] at hm
    cases hm
    exact step_reward_mono k g hP hmin h hcl hside hs

/-- all four gaps, exploitability included, both rules (3 players over `Rat`, reference computer) -/
example (g : Gap) (worst : Bool) : ∃ (e e' : Env Rat) (a : Nat) (m r : Rat),
    Reach Computer.sa.run g.fn Ex.P3 e (Spec.init C07.exVq C07.exVq) ∧
    greedy Computer.sa.run g.fn worst e = .ok (e', a) ∧ EnvEq e' e ∧ a ∈ e.validActions ∧
    C13.stepReward Computer.sa.run g.fn e a = some m ∧ e.reward g.fn = .ok r ∧ r ≤ m ∧ m ≤ 0 := by
  obtain ⟨e, he⟩ := Ex.reach0 .sa g.fn C07.exVq C07.exVq
  have hne : e.validActions ≠ [] := by
    have h0 : 0 ∈ e.validActions :=
      (C09.validActions_spec (C09.reach_inv_real .sa Ex.P3_wf he) 0).mpr (by decide)
    exact List.ne_nil_of_mem h0
  obtain ⟨e', a, m, h1, h2, _, h4, h5, _⟩ := greedy_real .sa g worst Ex.P3_wf Ex.P3_min he hne
  obtain ⟨r, hr, hrm, hm0⟩ := greedy_reward_bounds .sa g Ex.P3_wf Ex.P3_min he (Ex.exVq_class .sa trivial)
    (Ex.exVq_side g) h5
  exact ⟨e, e', a, m, r, he, h1, h2, h4, h5, hr, hrm, hm0⟩

/-- exploitability with the cached computer, spelled out -/
example : ∃ (e e' : Env Rat) (a : Nat),
    Reach Computer.sac.run Gap.expl.fn Ex.P3 e (Spec.init C07.exVq C07.exVq) ∧
    greedy Computer.sac.run Gap.expl.fn false e = .ok (e', a) ∧ EnvEq e' e ∧ a ∈ e.validActions := by
  obtain ⟨e, he⟩ := Ex.reach0 .sac Gap.expl.fn C07.exVq C07.exVq
  have hne : e.validActions ≠ [] := by
    have h0 : 0 ∈ e.validActions :=
      (C09.validActions_spec (C09.reach_inv_real .sac Ex.P3_wf he) 0).mpr (by decide)
    exact List.ne_nil_of_mem h0
  obtain ⟨e', a, _, h1, h2, _, h4, _⟩ := greedy_real .sac .expl false Ex.P3_wf Ex.P3_min he hne
  exact ⟨e, e', a, he, h1, h2, h4⟩

/-- **C16, step, end to end**, all four gap functions -/
theorem linStep_real (k : Computer) (g : Gap) (hP : P.WF) (hmin : P.Minimal)
    (h : Reach (k.run : Table α → _) g.fn P e s) (hcl : InClass k P.n s.full) (hside : g.side s.full)
    {sz chosen : Nat} (hk : sz < P.n) (hc : chosen ∈ e.linCandidates sz) :
    ∃ (e' : Env α) (out : StepOut α) (lin : List α) (c : Nat),
      linStep k.run g.fn e sz chosen = some (.ok (e', { out with obs := lin })) ∧
      P.explorable[chosen]? = some c ∧ size c = sz ∧ s.revealed c = false ∧
      Inv (k.run : Table α → _) P e' (s.step c) ∧ out.chosen = c ∧
      e'.reward g.fn = .ok out.reward ∧ out.reward ≤ 0 ∧ out.done = e'.done ∧ e'.linState = .ok lin :=
  linStep_of g.facts hmin (C09.reach_inv_real k hP h) hcl.1 hcl.2 hside hk hc

example (g : Gap) : ∃ (e e' : Env Rat) (out : StepOut Rat),
    Reach Computer.sa.run g.fn Ex.P3 e (Spec.init C07.exVq C07.exVq) ∧
    linStep Computer.sa.run g.fn e 2 0 = some (.ok (e', out)) ∧ out.chosen = 3 ∧ out.reward ≤ 0 := by
  obtain ⟨e, he⟩ := Ex.reach0 .sa g.fn C07.exVq C07.exVq
  have hinv := C09.reach_inv_real .sa Ex.P3_wf he
  have hc : 0 ∈ e.linCandidates 2 := by
    refine C16.mem_linCandidates.mpr ⟨3, by rw [hinv.ex]; decide, by decide +kernel, ?_⟩
    rw [hinv.known 3]; decide
  obtain ⟨e', out, lin, c, h1, h2, _, _, _, h6, _, h8, _⟩ :=
    linStep_real .sa g Ex.P3_wf Ex.P3_min he (Ex.exVq_class .sa trivial) (Ex.exVq_side g) (sz := 2)
      (by decide) hc
  have hc3 : c = 3 := by
    have : Ex.P3.explorable[0]? = some 3 := by decide
    rw [this] at h2
    exact (Option.some.inj h2).symm
  exact ⟨e, e', _, he, h1, by rw [← hc3]; exact h6, h8⟩

end env_field

/-! ### 2. C11: exhaustive search and best-states with the real computers and gaps -/

section search
variable {γ : Type}

/-- the only hypothesis C11 makes on the computer (`hn : t'.n = t.n` for EVERY input) is a theorem -/
theorem run_keeps_n [Add α] [Sub α] [Max α] [Min α] (k : Computer) {t t' : Table α} (h : k.run t = .ok t') :
    t'.n = t.n := run_n k h

/-- **C11 `search_result`** for the registered computers: every number of processes, any gap function, any
    content of the scratch table — the search returns the sequential map of `seqResult` -/
theorem search_result [Add α] [Sub α] [Max α] [Min α] [Zero α] (k : Computer) (gap : Table α → Except Err γ)
    (t : Table α) (v : Nat → α) (ko : Option Nat) (procs : Nat) (hp : 0 < procs) :
    getExploitabilities k.run gap t v ko procs =
      Search.mapE (C11.seqResult k.run gap t.n v (knownOf t)) (possibleSeqs (unknownOf t) ko) :=
  search_result_real k gap t v ko procs hp

/-- 1 worker and 3 workers agree (3 players, cached computer, l1 over `Int`) -/
example : getExploitabilities Computer.sac.run (NormGap.l1.fn (α := Int)) Ex.exT exV (some 2) 1 =
    getExploitabilities Computer.sac.run NormGap.l1.fn Ex.exT exV (some 2) 3 := by
  rw [search_result .sac _ _ _ _ 1 (by decide), search_result .sac _ _ _ _ 3 (by decide)]

end search

section search_field
variable [Field α] [LinearOrder α] [IsStrictOrderedRing α]

/-- **the gap does not increase under more knowledge** (C11's reference quantity `gapOfKnowledge`, real computer,
    real gap): defined for both knowledge sets, non-increasing, non-negative.  This is the hypothesis of C11
    `ext_of_monotone` / `best_mono` and of `ExpectedGreedy.greedy_mono`, from C07. -/
theorem gapOfKnowledge_mono (k : Computer) (g : Gap) {n : Nat} {v : Nat → α} {K K' : Nat → Bool}
    (hmin : MinInfo n K) (hle : KnownLe K K') (hcl : InClass k n v) (hside : g.side v) :
    ∃ x x', C11.gapOfKnowledge k.run g.fn n v K = .ok x ∧ C11.gapOfKnowledge k.run g.fn n v K' = .ok x' ∧
      x' ≤ x ∧ 0 ≤ x' :=
  gapOfKnowledge_mono_of g.facts hmin hle hcl.1 hcl.2 hside

example (g : Gap) : ∃ x x', C11.gapOfKnowledge Computer.sa.run g.fn 3 C07.exVq exKnown = .ok x ∧
    C11.gapOfKnowledge Computer.sa.run g.fn 3 C07.exVq exKnown' = .ok x' ∧ x' ≤ x ∧ 0 ≤ x' :=
  gapOfKnowledge_mono .sa g exKnown_minInfo exKnown_le (Ex.exVq_class .sa trivial) (Ex.exVq_side g)

/-- the sampled games `draw 0 … draw (reps−1)` are of the class and satisfy the gap's side condition -/
def Sampled (k : Computer) (g : Gap) (n : Nat) (draw : Nat → (Nat → α)) (reps : Nat) : Prop :=
  ∀ i, i < reps → InClass k n (draw i) ∧ g.side (draw i)

theorem Sampled.classGames {k : Computer} {g : Gap} {n : Nat} {draw : Nat → (Nat → α)} {reps : Nat}
    (h : Sampled k g n draw reps) : ClassGames k g.side n ((List.range reps).map draw) := by
  intro v hv
  obtain ⟨i, hi, rfl⟩ := List.mem_map.mp hv
  obtain ⟨h1, h2⟩ := h i (List.mem_range.mp hi)
  exact ⟨h1.1, h1.2, h2⟩

/-- **C11, best-states curve non-increasing, end to end**: `get_best_exploitability` with a registered computer
    and a real gap function on sampled games of the class — for every number of worker processes — succeeds, and
    its curve of mean gaps does not increase from size `s` to `s+1` as long as a coalition is left to reveal.
    (`best_mono` with `hne` (mean ≠ −1), `hex`, and `hext` — via `ext_of_monotone` — discharged.) -/
theorem best_curve (k : Computer) (g : Gap) {procs : Nat} (hp : 0 < procs) (t : Table α)
    (hmin : MinInfo t.n t.known) (draw : Nat → (Nat → α)) (maxSteps : Nat) {reps : Nat} (hreps : 0 < reps)
    (hcl : Sampled k g t.n draw reps) :
    ∃ t' b, getBestExploitability k.run g.fn t draw maxSteps reps procs = .ok (t', b) ∧
      b.length = maxSteps + 1 ∧
      ∀ s, s + 1 ≤ maxSteps → s + 1 ≤ (unknownOf t).length →
        ∃ r1 a1 r2 a2, b[s]? = some (r1, a1) ∧ b[s + 1]? = some (r2, a2) ∧ mean r2 ≤ mean r1 := by
  obtain ⟨t', b, h1, _, h3, h4⟩ := best_curve_of g.facts k hp t hmin draw maxSteps hreps hcl.classGames
  exact ⟨t', b, h1, h3, h4⟩

/-- 3 players, minimal information, 2 sampled games (both `exVq`), sets of up to 3 coalitions, 2 workers -/
example (g : Gap) : ∃ t' b, getBestExploitability Computer.sa.run g.fn (C07.exTq exKnown)
      (fun _ => C07.exVq) 3 2 2 = .ok (t', b) ∧ b.length = 4 ∧
    ∀ s, s + 1 ≤ 3 → ∃ r1 a1 r2 a2, b[s]? = some (r1, a1) ∧ b[s + 1]? = some (r2, a2) ∧ mean r2 ≤ mean r1 := by
  obtain ⟨t', b, h1, h2, h3⟩ := best_curve .sa g (procs := 2) (by decide) (C07.exTq exKnown) exKnown_minInfo
    (fun _ => C07.exVq) 3 (reps := 2) (by decide) (fun _ _ => ⟨Ex.exVq_class .sa trivial, Ex.exVq_side g⟩)
  refine ⟨t', b, h1, h2, fun s hs => h3 s hs ?_⟩
  have : (unknownOf (C07.exTq exKnown)).length = 3 := by decide
  omega

/-- **C11, best-states reports the minimum and a set attaining it, end to end** (`best_is_min` with `mean ≠ −1`
    discharged by C07's non-negativity): the row reported for size `s` is `colOf … q`, the vector of the real gaps
    (`colOf_spec`) of the reported set `q` on the sampled games, and no set of `s` unknown coalitions has a smaller
    mean gap — so no strategy evaluated on those games is better at step `s` -/
theorem best_states_min (k : Computer) (g : Gap) {procs : Nat} (hp : 0 < procs) (t : Table α)
    (hmin : MinInfo t.n t.known) (draw : Nat → (Nat → α)) (maxSteps : Nat) {reps : Nat} (hreps : 0 < reps)
    (hcl : Sampled k g t.n draw reps) :
    ∃ t' b, getBestExploitability k.run g.fn t draw maxSteps reps procs = .ok (t', b) ∧
      ∀ s, s ≤ maxSteps → s ≤ (unknownOf t).length →
        ∃ q, q.Sublist (unknownOf t) ∧ q.length = s ∧
          b[s]? = some (colOf k g.fn t ((List.range reps).map draw) q, q) ∧
          List.Forall₂ (fun v x => C11.gapOfKnowledge k.run g.fn t.n v (Kof (knownOf t) q) = .ok x ∧ 0 ≤ x)
            ((List.range reps).map draw) (colOf k g.fn t ((List.range reps).map draw) q) ∧
          ∀ q', q'.Sublist (unknownOf t) → q'.length = s →
            mean (colOf k g.fn t ((List.range reps).map draw) q) ≤
              mean (colOf k g.fn t ((List.range reps).map draw) q') := by
  obtain ⟨t', b, h1, h2⟩ := best_min_of g.facts k hp t hmin draw maxSteps hreps hcl.classGames
  refine ⟨t', b, h1, fun s hs hs' => ?_⟩
  obtain ⟨q, a1, a2, a3, a4⟩ := h2 s hs hs'
  exact ⟨q, a1, a2, a3, colOf_spec g.facts hmin hcl.classGames q, a4⟩

example (g : Gap) : ∃ t' b, getBestExploitability Computer.sac.run g.fn (C07.exTq exKnown)
      (fun _ => C07.exVq) 2 1 3 = .ok (t', b) ∧
    ∃ q, q.Sublist [3, 5, 6] ∧ q.length = 2 ∧
      b[2]? = some (colOf Computer.sac g.fn (C07.exTq exKnown) [C07.exVq] q, q) := by
  obtain ⟨t', b, h1, h2⟩ := best_states_min .sac g (procs := 3) (by decide) (C07.exTq exKnown) exKnown_minInfo
    (fun _ => C07.exVq) 2 (reps := 1) (by decide) (fun _ _ => ⟨Ex.exVq_class .sac trivial, Ex.exVq_side g⟩)
  have hu : unknownOf (C07.exTq exKnown) = [3, 5, 6] := by decide
  obtain ⟨q, a1, a2, a3, _⟩ := h2 2 (by decide) (by rw [hu]; decide)
  rw [hu] at a1
  exact ⟨t', b, h1, q, a1, a2, a3⟩

/-! ### 3. C13: the expected-greedy search with the real computers and gaps -/

/-- **expected greedy: curve non-increasing** (`ExpectedGreedy.greedy_mono`, hypothesis `hmono` discharged from
    C07 on every sampled game).  `order` is the iteration order of the Python set (any permutation). -/
theorem greedy_curve (k : Computer) (g : Gap) {procs : Nat} (hp : 0 < procs)
    (order : List Nat → List Nat → List Nat) (hperm : ∀ acts s, (order acts s).Perm s) (t : Table α)
    (hmin : MinInfo t.n t.known) (draw : Nat → (Nat → α)) {reps : Nat} (hcl : Sampled k g t.n draw reps)
    (explorable : List Nat) (maxSteps : Nat) (rows : List (List α)) (acts : List Nat)
    (h : expectedGreedy k.run g.fn order t ((List.range reps).map draw) explorable maxSteps procs =
      .ok (rows, acts)) :
    ∀ i, i < maxSteps → ∃ r1 r2, rows[i]? = some r1 ∧ rows[i + 1]? = some r2 ∧ mean r2 ≤ mean r1 :=
  greedy_curve_of g.facts k hp order hperm t hmin _ hcl.classGames explorable maxSteps rows acts h

/-- **expected greedy: never below the exhaustive optimum, equal for 0 and 1 reveals**
    (`ExpectedGreedy.greedy_ge_best` with `hset`, `hcol`, `hne` discharged); `b` is what
    `get_best_exploitability` returns on the same sampled games (any two process counts) -/
theorem greedy_ge_best (k : Computer) (g : Gap) {procs procs' : Nat} (hp : 0 < procs) (hp' : 0 < procs')
    (order : List Nat → List Nat → List Nat) (hperm : ∀ acts s, (order acts s).Perm s) (t : Table α)
    (hmin : MinInfo t.n t.known) (draw : Nat → (Nat → α)) (maxSteps : Nat) {reps : Nat} (hreps : 0 < reps)
    (hcl : Sampled k g t.n draw reps) (rows : List (List α)) (acts : List Nat)
    (h : expectedGreedy k.run g.fn order t ((List.range reps).map draw) (unknownOf t) maxSteps procs =
      .ok (rows, acts)) :
    ∃ t' b, getBestExploitability k.run g.fn t draw maxSteps reps procs' = .ok (t', b) ∧
      (∀ i, i ≤ maxSteps → ∃ rg rb ab, rows[i]? = some rg ∧ b[i]? = some (rb, ab) ∧ mean rb ≤ mean rg) ∧
      (∀ i, i ≤ maxSteps → i ≤ 1 →
        ∃ rg rb ab, rows[i]? = some rg ∧ b[i]? = some (rb, ab) ∧ mean rb = mean rg) :=
  greedy_ge_best_of g.facts k hp hp' order hperm t hmin draw maxSteps hreps hcl.classGames rows acts h

/-- the hypotheses are satisfiable: whenever the search on the 3-player game returns, its curve is non-increasing
    and dominated by best-states (that it does return for `maxSteps ≤` number of explorable coalitions is the
    AxisError domain note of `ExpectedGreedy`) -/
example (g : Gap) (rows : List (List Rat)) (acts : List Nat)
    (h : expectedGreedy Computer.sac.run g.fn ExpectedGreedy.demoOrder (C07.exTq exKnown)
      ((List.range 2).map (fun _ => C07.exVq)) (unknownOf (C07.exTq exKnown)) 3 1 = .ok (rows, acts)) :
    (∀ i, i < 3 → ∃ r1 r2, rows[i]? = some r1 ∧ rows[i + 1]? = some r2 ∧ mean r2 ≤ mean r1) ∧
    ∃ t' b, getBestExploitability Computer.sac.run g.fn (C07.exTq exKnown) (fun _ => C07.exVq) 3 2 4 = .ok (t', b) ∧
      ∀ i, i ≤ 3 → ∃ rg rb ab, rows[i]? = some rg ∧ b[i]? = some (rb, ab) ∧ mean rb ≤ mean rg := by
  have hs : Sampled .sac g (C07.exTq exKnown).n (fun _ => C07.exVq) 2 :=
    fun _ _ => ⟨Ex.exVq_class .sac trivial, Ex.exVq_side g⟩
  have hperm : ∀ acts s, (ExpectedGreedy.demoOrder acts s).Perm s := fun _ s => List.reverse_perm s
  refine ⟨greedy_curve .sac g (by decide) _ hperm _ exKnown_minInfo _ hs _ 3 rows acts h, ?_⟩
  obtain ⟨t', b, h1, h2, _⟩ := greedy_ge_best .sac g (procs' := 4) (by decide) (by decide) _ hperm _
    exKnown_minInfo _ 3 (by decide) hs rows acts h
  exact ⟨t', b, h1, h2⟩

end search_field

/-! ### the theorems are about the functions the native driver runs

They specialise — by unification alone — to the model instantiated with core `Rat`'s own instances. -/

example (k : Computer) (g : Gap) (P : Params) (hP : P.WF) (hmin : P.Minimal) (e : Env Rat) (s : Spec Rat)
    (h : @Reach Rat ⟨0⟩ Rat.instNeg Rat.instSub instDecidableEqRat
      (@Computer.run Rat Rat.instAdd Rat.instSub Rat.instMax Rat.instMin k)
      (@Gap.fn Rat Rat.instAdd Rat.instSub Rat.instMul Rat.instDiv ⟨0⟩ ⟨1⟩ Rat.instNatCast Rat.instMax Rat.instNeg g)
      P e s)
    (hcl : InClass k P.n s.full) (hside : g.side s.full) :
    ∃ r, @Env.reward Rat Rat.instNeg
      (@Gap.fn Rat Rat.instAdd Rat.instSub Rat.instMul Rat.instDiv ⟨0⟩ ⟨1⟩ Rat.instNatCast Rat.instMax Rat.instNeg g)
      e = .ok r ∧ r ≤ 0 :=
  reward_nonpos k g hP hmin h hcl hside

/-! ### the l2 norm itself, over the reals (`Props/C07L2`) -/

section real

/-- `l2_norm(game)` = `np.linalg.norm(upper − lower, 2)`, over ℝ -/
noncomputable def gapL2 (t : Table ℝ) : Except Err ℝ := .ok (C07.l2 t.n t.lo t.hi)

/-- C07 for the l2 norm, packaged: every generic theorem of Lemmas/ComposeCore / ComposeSearch (`…_of`) applies to
    `gapL2` -/
theorem gapL2_facts : GapFacts gapL2 (fun _ => True) where
  rows := ⟨fun h => by simp only [gapL2, C07.l2, l2sq, widths_congr h]⟩
  nonneg := fun _ _ => ⟨_, rfl, C07.nonneg_l2 _ _ _⟩
  mono := by
    intro t s t' s' v _ _ _ hn
    refine ⟨_, _, rfl, rfl, ?_⟩
    rw [hn.1]
    exact Real.sqrt_le_sqrt (GapMono.l2sq_mono hn.toGapMono)
  zero := by
    intro s v _ _ _ hpt
    simp only [gapL2, C07.l2, GapMono.l2sq_zero (degenerate_of_point hpt), Real.sqrt_zero]

variable {k : Computer} {P : Params} {e e' : Env ℝ} {s : Spec ℝ}

/-- **never positive**, l2 norm -/
theorem reward_nonpos_l2 (k : Computer) (hP : P.WF) (hmin : P.Minimal)
    (h : Reach (k.run : Table ℝ → _) gapL2 P e s) (hcl : InClass k P.n s.full) :
    ∃ r, e.reward gapL2 = .ok r ∧ r ≤ 0 :=
  reward_nonpos_of gapL2_facts hmin (C09.reach_inv_real k hP h) hcl.1 hcl.2 trivial

theorem reward_zero_full_l2 (k : Computer) (hP : P.WF) (hmin : P.Minimal)
    (h : Reach (k.run : Table ℝ → _) gapL2 P e s) (hall : ∀ c ∈ P.explorable, s.revealed c = true) :
    e.reward gapL2 = .ok 0 :=
  reward_zero_of gapL2_facts hmin (C09.reach_inv_real k hP h) trivial hall

theorem step_reward_mono_l2 (k : Computer) (hP : P.WF) (hmin : P.Minimal)
    (h : Reach (k.run : Table ℝ → _) gapL2 P e s) (hcl : InClass k P.n s.full) {a : Nat} {out : StepOut ℝ}
    (hs : step k.run gapL2 e a = .ok (e', out)) :
    ∃ r, e.reward gapL2 = .ok r ∧ r ≤ out.reward ∧ out.reward ≤ 0 := by
  have hinv := C09.reach_inv_real k hP h
  obtain ⟨c, _, _, hinv', _, _, hr', _⟩ := C09.step_spec (computer_ok k) hinv hs
  obtain ⟨r, r', h1, h2, h3, h4⟩ := reward_mono_of (s' := s.step c) gapL2_facts hmin hinv hinv' rfl
    (fun d hd => by simp [Spec.step, hd]) hcl.1 hcl.2 trivial
  rw [hr'] at h2
  cases h2
  exact ⟨r, h1, h3, h4⟩

theorem step_unstep_restores_l2 (k : Computer) (hP : P.WF)
    (h : Reach (k.run : Table ℝ → _) gapL2 P e s) {a : Nat} {e1 e2 : Env ℝ} {o1 o2 : StepOut ℝ}
    (h1 : step k.run gapL2 e a = .ok (e1, o1)) (h2 : unstep k.run gapL2 e1 a = .ok (e2, o2)) :
    EnvEq e2 e ∧ o2.obs = e.state ∧ e.reward gapL2 = .ok o2.reward := by
  obtain ⟨a1, _, _, _, a5, _, _, a8⟩ := env_undo_of gapL2_facts (C09.reach_inv_real k hP h) h1 h2
  exact ⟨a1, a5, a8⟩

/-- best-states and expected greedy with the l2 norm -/
theorem best_curve_l2 (k : Computer) {procs : Nat} (hp : 0 < procs) (t : Table ℝ)
    (hmin : MinInfo t.n t.known) (draw : Nat → (Nat → ℝ)) (maxSteps : Nat) {reps : Nat} (hreps : 0 < reps)
    (hcl : ∀ i, i < reps → InClass k t.n (draw i)) :
    ∃ t' b, getBestExploitability k.run gapL2 t draw maxSteps reps procs = .ok (t', b) ∧
      b.length = maxSteps + 1 ∧
      ∀ s, s + 1 ≤ maxSteps → s + 1 ≤ (unknownOf t).length →
        ∃ r1 a1 r2 a2, b[s]? = some (r1, a1) ∧ b[s + 1]? = some (r2, a2) ∧ mean r2 ≤ mean r1 := by
  have hcg : ClassGames k (fun _ => True) t.n ((List.range reps).map draw) := by
    intro v hv
    obtain ⟨i, hi, rfl⟩ := List.mem_map.mp hv
    exact ⟨(hcl i (List.mem_range.mp hi)).1, (hcl i (List.mem_range.mp hi)).2, trivial⟩
  obtain ⟨t', b, h1, _, h3, h4⟩ := best_curve_of gapL2_facts k hp t hmin draw maxSteps hreps hcg
  exact ⟨t', b, h1, h3, h4⟩

theorem greedy_curve_l2 (k : Computer) {procs : Nat} (hp : 0 < procs)
    (order : List Nat → List Nat → List Nat) (hperm : ∀ acts s, (order acts s).Perm s) (t : Table ℝ)
    (hmin : MinInfo t.n t.known) (draw : Nat → (Nat → ℝ)) {reps : Nat}
    (hcl : ∀ i, i < reps → InClass k t.n (draw i))
    (explorable : List Nat) (maxSteps : Nat) (rows : List (List ℝ)) (acts : List Nat)
    (h : expectedGreedy k.run gapL2 order t ((List.range reps).map draw) explorable maxSteps procs =
      .ok (rows, acts)) :
    ∀ i, i < maxSteps → ∃ r1 r2, rows[i]? = some r1 ∧ rows[i + 1]? = some r2 ∧ mean r2 ≤ mean r1 := by
  have hcg : ClassGames k (fun _ => True) t.n ((List.range reps).map draw) := by
    intro v hv
    obtain ⟨i, hi, rfl⟩ := List.mem_map.mp hv
    exact ⟨(hcl i (List.mem_range.mp hi)).1, (hcl i (List.mem_range.mp hi)).2, trivial⟩
  exact greedy_curve_of gapL2_facts k hp order hperm t hmin _ hcg explorable maxSteps rows acts h

example : ∃ (e e1 : Env ℝ) (o1 : StepOut ℝ) (r : ℝ),
    Reach Computer.sa.run gapL2 Ex.P3 e (Spec.init C07.exVr C07.exVr) ∧ e.reward gapL2 = .ok r ∧
    step Computer.sa.run gapL2 e 0 = .ok (e1, o1) ∧ r ≤ o1.reward ∧ o1.reward ≤ 0 := by
  have hc : InClass .sa 3 C07.exVr := ⟨C07.exVr_SA, fun h => h.elim⟩
  obtain ⟨e, he⟩ := Ex.reach0 .sa gapL2 C07.exVr C07.exVr
  obtain ⟨e1, o1, hs⟩ := step_succeeds_of gapL2_facts Ex.P3_min (C09.reach_inv_real .sa Ex.P3_wf he) hc.1 hc.2
    trivial (a := 0) (by decide)
  obtain ⟨r, h1, h2, h3⟩ := step_reward_mono_l2 .sa Ex.P3_wf Ex.P3_min he hc hs
  exact ⟨e, e1, o1, r, he, h1, hs, h2, h3⟩

example : ∃ t' b, getBestExploitability Computer.sac.run gapL2 (C07.exTr exKnown) (fun _ => C07.exVr) 2 1 1 =
    .ok (t', b) ∧ b.length = 3 :=
  let ⟨t', b, h1, h2, _⟩ := best_curve_l2 .sac (procs := 1) (by decide) (C07.exTr exKnown) exKnown_minInfo
    (fun _ => C07.exVr) 2 (reps := 1) (by decide) (fun _ _ => ⟨C07.exVr_SA, fun h => h.elim⟩)
  ⟨t', b, h1, h2⟩

end real

/-! ### what is not composed, and why

* **C13 `Hyps` for exploitability** — composed since `Hyps.gtot` was weakened from `GapTotal gap` ("never raises on
  ANY table", false for exploitability, `gapTotal_iff`) to `C13.GapDefined gap P` ("defined on the `P.n`-player
  tables that know the initial coalitions"), which is all the proofs of C13 use and is true for all four gaps
  (`Gap.defined`).  C09's own `step_succeeds` / `unstep_succeeds` still take `GapTotal`; `step_succeeds` /
  `unstep_succeeds` above are their versions for the real gaps.
* **C12** (`evaluate`) is stated over an abstract environment `EnvOps` and an abstract solver; its hypotheses
  (`Isolated`, `Stateless`, …) are about sharing of random sources, not conclusions of C01–C08: nothing to compose.
* nothing else: the l2 norm itself (no computable square root in the executable model) is covered over ℝ by
  `gapL2` / `gapL2_facts` above.
-/

end ICG.Compose
