/-
  Property C18 (coalition part) — coalitions are finite sets in both representations.

  The finite set of a mask `c` is `{i | c.testBit i = true}`; within `n` players it is the `Finset`
  `toFinset n c = {i < n | c.testBit i}`.  Every theorem is for every mask and every player count.
  Theorems about ICG.Model.Bits (the model of coalitions.py, coalition_ids.py, functoolz.powerset and
  the relation table of bounds.py).  The predicates is_superadditive / is_monotone_decreasing /
  check_supermodularity of C18 live in their own file.

  The examples use `decide +kernel` where a definition recurses by well-founded recursion
  (`size`, `players`), which plain `decide` does not unfold.
-/
import ICG.Lemmas.Enum
import Mathlib.Data.Finset.Card
import Mathlib.Data.Finset.Lattice.Basic
import Mathlib.Data.Finset.SDiff
import Mathlib.Data.Finset.Range
import Mathlib.Data.Finset.Filter

namespace ICG.C18
open ICG

/-- the set of players of mask `c` among the first `n` players -/
def toFinset (n c : Nat) : Finset Nat := (Finset.range n).filter (fun i => c.testBit i = true)

theorem mem_toFinset {n c i : Nat} : i ∈ toFinset n c ↔ i < n ∧ c.testBit i = true := by
  simp [toFinset]

theorem testBit_false_of_ge {c n i : Nat} (hc : c < 2 ^ n) (hi : n ≤ i) : c.testBit i = false :=
  lt_two_pow_iff_testBit.mp hc i hi

/-- for a mask within `n` players `toFinset n` loses nothing: masks are determined by their sets -/
theorem toFinset_injective {n a b : Nat} (ha : a < 2 ^ n) (hb : b < 2 ^ n)
    (h : toFinset n a = toFinset n b) : a = b := by
  apply Nat.eq_of_testBit_eq; intro i
  by_cases hi : i < n
  · have := congrArg (i ∈ ·) h
    simp only [mem_toFinset, hi, true_and, eq_iff_iff] at this
    cases h1 : a.testBit i <;> cases h2 : b.testBit i <;> simp_all
  · rw [testBit_false_of_ge ha (n := n) (by omega), testBit_false_of_ge hb (n := n) (by omega)]

example : toFinset 4 0b1011 = {0, 1, 3} := by decide

/-! ### the operators of `Coalition` -/

/-- `a & b` is intersection -/
theorem inter_testBit (a b i : Nat) : (inter a b).testBit i = (a.testBit i && b.testBit i) := by
  simp [inter]

theorem inter_toFinset (n a b : Nat) : toFinset n (inter a b) = toFinset n a ∩ toFinset n b := by
  ext i; simp only [mem_toFinset, inter_testBit, Finset.mem_inter, Bool.and_eq_true]; tauto

example : inter 0b1011 0b0110 = 0b0010 := by decide

/-- `a | b` is union -/
theorem union_testBit (a b i : Nat) : (union a b).testBit i = (a.testBit i || b.testBit i) := by
  simp [union]

theorem union_toFinset (n a b : Nat) : toFinset n (union a b) = toFinset n a ∪ toFinset n b := by
  ext i; simp only [mem_toFinset, union_testBit, Finset.mem_union, Bool.or_eq_true]; tauto

example : union 0b1011 0b0110 = 0b1111 := by decide

/-- `a - b` (`a & ~b`) is set difference — for arbitrary `b`, not only for sub-coalitions -/
theorem diff_testBit (a b i : Nat) : (diff a b).testBit i = (a.testBit i && !b.testBit i) :=
  ICG.diff_testBit a b i

theorem diff_toFinset (n a b : Nat) : toFinset n (diff a b) = toFinset n a \ toFinset n b := by
  ext i
  simp only [mem_toFinset, diff_testBit, Finset.mem_sdiff, Bool.and_eq_true, Bool.not_eq_true']
  constructor
  · rintro ⟨h1, h2, h3⟩; exact ⟨⟨h1, h2⟩, fun h => by simp [h3] at h⟩
  · rintro ⟨⟨h1, h2⟩, h3⟩; exact ⟨h1, h2, by simpa [h1] using h3⟩

/-- `b` is not a subset of `a` here: `& ~` and `^` differ (0b1011 ^ 0b0110 = 0b1101) -/
example : diff 0b1011 0b0110 = 0b1001 := by decide

theorem diff_lt {a b n : Nat} (ha : a < 2 ^ n) : diff a b < 2 ^ n := by
  rw [lt_two_pow_iff_testBit]; intro i hi
  rw [diff_testBit, testBit_false_of_ge ha hi]; rfl

/-- `Coalition.inverted(n)` is the complement within the `n` players -/
theorem inverted_testBit (c n i : Nat) : (inverted c n).testBit i = (decide (i < n) && !c.testBit i) := by
  unfold inverted; rw [diff_testBit, testBit_grand]

theorem inverted_lt (c n : Nat) : inverted c n < 2 ^ n := by
  unfold inverted; apply diff_lt; unfold grand; have := Nat.two_pow_pos n; omega

theorem inverted_toFinset (n c : Nat) : toFinset n (inverted c n) = Finset.range n \ toFinset n c := by
  ext i
  simp only [mem_toFinset, inverted_testBit, Finset.mem_sdiff, Finset.mem_range, Bool.and_eq_true,
    decide_eq_true_eq, Bool.not_eq_true', not_and, Bool.not_eq_true]
  constructor
  · rintro ⟨h1, _, h3⟩; exact ⟨h1, fun _ => h3⟩
  · rintro ⟨h1, h3⟩; exact ⟨h1, h1, h3 h1⟩

theorem inverted_inverted {c n : Nat} (hc : c < 2 ^ n) : inverted (inverted c n) n = c := by
  apply Nat.eq_of_testBit_eq; intro i
  rw [inverted_testBit, inverted_testBit]
  by_cases hi : i < n
  · simp [hi]
  · have h0 : c.testBit i = false := testBit_false_of_ge hc (Nat.le_of_not_lt hi)
    simp [hi, h0]

example : inverted 0b1011 5 = 0b10100 := by decide

/-- `other in c` (coalition argument) is the subset relation -/
theorem contains_iff {c o : Nat} : contains c o = true ↔ ∀ i, o.testBit i = true → c.testBit i = true := by
  unfold contains
  rw [beq_iff_eq, Nat.and_comm]
  exact ⟨fun h i hi => sub_testBit h i hi, sub_of_testBit⟩

theorem contains_iff_subset {n c o : Nat} (ho : o < 2 ^ n) : contains c o = true ↔ toFinset n o ⊆ toFinset n c := by
  rw [contains_iff]
  constructor
  · intro h i hi
    rw [mem_toFinset] at hi ⊢
    exact ⟨hi.1, h i hi.2⟩
  · intro h i hi
    have hlt : i < n := by
      by_contra hlt
      rw [testBit_false_of_ge ho (by omega)] at hi; exact absurd hi (by simp)
    exact (mem_toFinset.mp (h (mem_toFinset.mpr ⟨hlt, hi⟩))).2

example : contains 0b1011 0b0011 = true ∧ contains 0b1011 0b0110 = false := by decide

/-- `p in c` (player argument) is membership -/
theorem hasPlayer_eq (c p : Nat) : hasPlayer c p = c.testBit p := by
  unfold hasPlayer singleton
  cases h : c.testBit p
  · rw [Bool.eq_false_iff]; intro hc
    rw [contains_iff] at hc
    have := hc p (by simp)
    rw [h] at this; exact absurd this (by simp)
  · rw [contains_iff]; intro i hi
    have : p = i := by simpa [Nat.testBit_two_pow] using hi
    subst this; exact h

example : hasPlayer 0b1011 3 = true ∧ hasPlayer 0b1011 2 = false := by decide

/-- `c + p` adds a player (idempotent) -/
theorem addPlayer_testBit (a p i : Nat) : (addPlayer a p).testBit i = (a.testBit i || decide (p = i)) := by
  simp [addPlayer, Nat.testBit_two_pow]

/-- `c - p` removes a player (no-op when absent) -/
theorem removePlayer_testBit (a p i : Nat) :
    (removePlayer a p).testBit i = (a.testBit i && !decide (p = i)) := by
  unfold removePlayer; rw [diff_testBit, Nat.testBit_two_pow]

example : addPlayer 0b1011 2 = 0b1111 ∧ addPlayer 0b1011 1 = 0b1011 ∧
    removePlayer 0b1011 1 = 0b1001 ∧ removePlayer 0b1011 2 = 0b1011 := by decide

/-- `disjoint_coalitions` -/
theorem disjoint_iff {a b : Nat} :
    disjoint a b = true ↔ ∀ i, ¬ (a.testBit i = true ∧ b.testBit i = true) := by
  unfold disjoint
  rw [beq_iff_eq]
  constructor
  · intro h i ⟨h1, h2⟩
    have := congrArg (·.testBit i) h
    simp [h1, h2] at this
  · intro h
    apply Nat.eq_of_testBit_eq; intro i
    have := h i
    cases h1 : a.testBit i <;> cases h2 : b.testBit i <;> simp_all

theorem disjoint_iff_toFinset {n a b : Nat} (ha : a < 2 ^ n) :
    disjoint a b = true ↔ Disjoint (toFinset n a) (toFinset n b) := by
  rw [disjoint_iff, Finset.disjoint_left]
  constructor
  · intro h i h1 h2
    exact h i ⟨(mem_toFinset.mp h1).2, (mem_toFinset.mp h2).2⟩
  · intro h i ⟨h1, h2⟩
    have hlt : i < n := by
      by_contra hlt
      rw [testBit_false_of_ge ha (by omega)] at h1; exact absurd h1 (by simp)
    exact h (mem_toFinset.mpr ⟨hlt, h1⟩) (mem_toFinset.mpr ⟨hlt, h2⟩)

example : disjoint 0b1001 0b0110 = true ∧ disjoint 0b1011 0b0110 = false := by decide

/-! ### players, size, from_players -/

/-- `Coalition.players` lists exactly the set bits … -/
theorem mem_players {c i : Nat} : i ∈ players c ↔ c.testBit i = true := ICG.mem_players

/-- … in strictly increasing order, hence without duplicates -/
theorem players_sorted (c : Nat) : (players c).Pairwise (· < ·) := players_pairwise c

theorem players_nodup (c : Nat) : (players c).Nodup := ICG.players_nodup c

theorem players_toFinset {c n : Nat} (hc : c < 2 ^ n) : (players c).toFinset = toFinset n c := by
  ext i
  rw [List.mem_toFinset, mem_players, mem_toFinset]
  constructor
  · intro h
    refine ⟨?_, h⟩
    by_contra hlt
    rw [testBit_false_of_ge hc (by omega)] at h; exact absurd h (by simp)
  · exact fun h => h.2

/-- `players c` *is* the increasing enumeration of the set -/
theorem players_eq_filter {c n : Nat} (hc : c < 2 ^ n) :
    players c = (List.range n).filter (fun i => c.testBit i) := by
  rw [← playersId_eq_players hc, playersId_eq_filter]

example : players 0b1011 = [0, 1, 3] := by decide +kernel

/-- `len(c)` is the cardinality -/
theorem size_eq_length_players (c : Nat) : size c = (players c).length := ICG.size_eq_length_players c

theorem size_eq_card {c n : Nat} (hc : c < 2 ^ n) : size c = (toFinset n c).card := by
  rw [← players_toFinset hc, List.toFinset_card_of_nodup (players_nodup c), size_eq_length_players]

theorem size_le {c n : Nat} (hc : c < 2 ^ n) : size c ≤ n := ICG.size_le n c hc

theorem size_union_of_disjoint {a b : Nat} (h : disjoint a b = true) :
    size (union a b) = size a + size b := by
  unfold disjoint at h; rw [beq_iff_eq] at h
  exact size_or_of_disjoint a b h

theorem size_lt_of_proper_sub {x c : Nat} (h : contains c x = true) (hne : x ≠ c) : size x < size c := by
  unfold contains at h; rw [beq_iff_eq, Nat.and_comm] at h
  exact ICG.size_lt h hne

example : size 0b1011 = 3 ∧ (toFinset 4 0b1011).card = 3 := by decide +kernel

/-- `Coalition.from_players`: the mask of a list of players, duplicates allowed -/
theorem fromPlayers_testBit (l : List Nat) (i : Nat) : (fromPlayers l).testBit i = decide (i ∈ l) :=
  testBit_fromPlayers l i

theorem fromPlayers_toFinset {l : List Nat} {n : Nat} (h : ∀ i ∈ l, i < n) :
    toFinset n (fromPlayers l) = l.toFinset := by
  ext i
  rw [mem_toFinset, fromPlayers_testBit, List.mem_toFinset, decide_eq_true_eq]
  exact ⟨fun h' => h'.2, fun h' => ⟨h i h', h'⟩⟩

/-- `from_players ∘ players = id` -/
theorem fromPlayers_players (c : Nat) : fromPlayers (players c) = c := ICG.fromPlayers_players c

/-- `players ∘ from_players` sorts and de-duplicates: on an increasing list it is the identity -/
theorem players_fromPlayers {l : List Nat} (h : l.Pairwise (· < ·)) : players (fromPlayers l) = l :=
  ICG.players_fromPlayers h

theorem fromPlayers_singleton (i : Nat) : fromPlayers [i] = 2 ^ i := by
  apply Nat.eq_of_testBit_eq; intro j
  rw [fromPlayers_testBit, Nat.testBit_two_pow]
  simp [eq_comm]

example : fromPlayers [3, 0, 1, 0] = 0b1011 ∧ fromPlayers (players 0b1011) = 0b1011 := by decide +kernel

/-! ### helper lists -/

/-- `minimal_game_coalitions`: ∅, the grand coalition, the singletons in player order -/
theorem minimalCoalitions_eq (n : Nat) :
    minimalCoalitions n = [0, 2 ^ n - 1] ++ (List.range n).map (fun i => 2 ^ i) := by
  unfold minimalCoalitions grand
  congr 1
  apply List.map_congr_left
  intro i _; exact fromPlayers_singleton i

theorem grand_testBit (n i : Nat) : (grand n).testBit i = decide (i < n) := testBit_grand n i

theorem grand_toFinset (n : Nat) : toFinset n (grand n) = Finset.range n := by
  ext i; simp [mem_toFinset, grand_testBit]

theorem singleton_testBit (p i : Nat) : (singleton p).testBit i = decide (p = i) := by
  unfold singleton; exact Nat.testBit_two_pow

example : minimalCoalitions 3 = [0, 7, 1, 2, 4] := by decide +kernel

/-- `exclude_coalition(ex, l)` keeps, in order, exactly the coalitions disjoint from `ex` -/
theorem excludeCoalition_eq (ex : Nat) (l : List Nat) :
    excludeCoalition ex l = l.filter (fun c => disjoint c ex) := rfl

theorem mem_excludeCoalition {ex x : Nat} {l : List Nat} :
    x ∈ excludeCoalition ex l ↔ x ∈ l ∧ ∀ i, ¬ (x.testBit i = true ∧ ex.testBit i = true) := by
  rw [excludeCoalition_eq, List.mem_filter, disjoint_iff]

example : excludeCoalition 0b010 (allCoalitions 3) = [0, 1, 4, 5] := by decide

/-! ### the id-array style agrees with the object style -/

theorem playersId_eq_players {c n : Nat} (hc : c < 2 ^ n) : playersId c n = players c :=
  ICG.playersId_eq_players hc

theorem sizeId_eq_size {c n : Nat} (hc : c < 2 ^ n) : sizeId c n = size c := ICG.sizeId_eq_size hc

/-- without the guard the id style silently truncates to the first `n` players -/
theorem mem_playersId {c n i : Nat} : i ∈ playersId c n ↔ i < n ∧ c.testBit i = true := ICG.mem_playersId

example : playersId 0b1011 4 = players 0b1011 ∧ sizeId 0b1011 4 = size 0b1011 := by decide +kernel

/-! ### sub-coalition enumeration -/

/-- `get_sub_coalitions(c)` lists exactly the sub-masks of `c` (∅ and `c` included), each once -/
theorem mem_subCoalitionsObj {x c : Nat} :
    x ∈ subCoalitionsObj c ↔ ∀ i, x.testBit i = true → c.testBit i = true := by
  rw [ICG.mem_subCoalitionsObj]
  exact ⟨fun h i hi => sub_testBit h i hi, sub_of_testBit⟩

theorem mem_subCoalitionsObj_iff_and {x c : Nat} : x ∈ subCoalitionsObj c ↔ x &&& c = x :=
  ICG.mem_subCoalitionsObj

theorem subCoalitionsObj_nodup (c : Nat) : (subCoalitionsObj c).Nodup := ICG.subCoalitionsObj_nodup c

theorem length_subCoalitionsObj (c : Nat) : (subCoalitionsObj c).length = 2 ^ size c := by
  unfold subCoalitionsObj powerset
  rw [List.length_map, size_eq_length_players]
  have : ∀ (l : List Nat), ((List.range (l.length + 1)).flatMap (fun r => combos r l)).length = 2 ^ l.length := by
    intro l
    have hperm : ((List.range (l.length + 1)).flatMap (fun r => combos r l)).Perm
        ((List.range (l.length + 1)).flatMap (fun r => List.sublistsLen r l)) := by
      apply List.Perm.flatMap_left
      intro r _; exact combos_perm r l
    rw [hperm.length_eq, (List.range_bind_sublistsLen_perm l).length_eq, List.length_sublists']
  exact this (players c)

example : subCoalitionsObj 0b101 = [0, 1, 4, 5] ∧ (subCoalitionsObj 0b101).length = 2 ^ size 0b101 := by
  decide +kernel

/-- the proper non-empty sub-coalitions the superadditive lower bound ranges over -/
theorem mem_saSubs {x c : Nat} : x ∈ saSubs c ↔ x &&& c = x ∧ x ≠ 0 ∧ x ≠ c := ICG.mem_saSubs

example : saSubs 0b111 = [1, 2, 4, 3, 5, 6] := by decide +kernel

/-- `coalition_ids.sub_coalitions(c, n)` succeeds for a mask within `n` players and lists exactly the
    sub-masks, each once (in increasing id order) -/
theorem subCoalitionsId_spec {c n : Nat} (hc : c < 2 ^ n) :
    ∃ l, subCoalitionsId c n = .ok l ∧ l.Pairwise (· < ·) ∧
      ∀ x, x ∈ l ↔ ∀ i, x.testBit i = true → c.testBit i = true :=
  ⟨subIdList c n, subCoalitionsId_ok hc, subIdList_pairwise c n, fun x => by
    rw [mem_subIdList hc]; exact ⟨fun h i hi => sub_testBit h i hi, sub_of_testBit⟩⟩

/-- the Python assertion `2**n > c` -/
theorem subCoalitionsId_error {c n : Nat} (hc : 2 ^ n ≤ c) : subCoalitionsId c n = .error .assert :=
  ICG.subCoalitionsId_error hc

example : subCoalitionsId 0b101 3 = .ok [0, 1, 4, 5] ∧ subCoalitionsId 0b101 2 = .error .assert := by decide

/-- the two styles list the same sub-coalitions, each exactly once (so they are permutations) -/
theorem sub_enumerations_agree {c n : Nat} (hc : c < 2 ^ n) :
    ∃ l, subCoalitionsId c n = .ok l ∧ l.Nodup ∧ (subCoalitionsObj c).Nodup ∧
      (∀ x, x ∈ subCoalitionsObj c ↔ x ∈ l) ∧ (subCoalitionsObj c).Perm l := by
  obtain ⟨l, h1, h2, h3, h4⟩ := ICG.sub_enumerations_agree hc
  exact ⟨l, h1, h2, h3, h4, (List.perm_ext_iff_of_nodup h3 h2).mpr h4⟩

example : ∃ l, subCoalitionsId 0b110 3 = .ok l ∧ (subCoalitionsObj 0b110).Perm l :=
  ⟨[0, 2, 4, 6], by decide, by decide +kernel⟩

/-! ### super-coalition enumeration -/

/-- `get_super_coalitions(c, n)` lists exactly the supersets of `c` within `n` players (`c` itself
    included), each once -/
theorem mem_superCoalitionsObj {c n T : Nat} (hc : c < 2 ^ n) :
    T ∈ superCoalitionsObj c n ↔ (T < 2 ^ n ∧ ∀ i, c.testBit i = true → T.testBit i = true) := by
  rw [ICG.mem_superCoalitionsObj hc]
  exact ⟨fun h => ⟨h.1, fun i hi => sub_testBit h.2 i hi⟩, fun h => ⟨h.1, sub_of_testBit h.2⟩⟩

theorem superCoalitionsObj_nodup (c n : Nat) : (superCoalitionsObj c n).Nodup :=
  ICG.superCoalitionsObj_nodup c n

example : superCoalitionsObj 0b101 3 = [5, 7] := by decide +kernel

theorem superCoalitionsId_spec {c n : Nat} (hc : c < 2 ^ n) :
    ∃ l, superCoalitionsId c n = .ok l ∧ l.Nodup ∧
      ∀ T, T ∈ l ↔ (T < 2 ^ n ∧ ∀ i, c.testBit i = true → T.testBit i = true) :=
  ⟨superIdList c n, superCoalitionsId_ok hc, superIdList_nodup hc, fun T => by
    rw [mem_superIdList hc]
    exact ⟨fun h => ⟨h.1, fun i hi => sub_testBit h.2 i hi⟩, fun h => ⟨h.1, sub_of_testBit h.2⟩⟩⟩

theorem superCoalitionsId_error {c n : Nat} (hc : 2 ^ n ≤ c) : superCoalitionsId c n = .error .assert :=
  ICG.superCoalitionsId_error hc

example : superCoalitionsId 0b001 3 = .ok [1, 3, 5, 7] ∧ superCoalitionsId 0b1001 3 = .error .assert := by
  decide

theorem super_enumerations_agree {c n : Nat} (hc : c < 2 ^ n) :
    ∃ l, superCoalitionsId c n = .ok l ∧ l.Nodup ∧ (superCoalitionsObj c n).Nodup ∧
      (∀ T, T ∈ superCoalitionsObj c n ↔ T ∈ l) ∧ (superCoalitionsObj c n).Perm l := by
  obtain ⟨l, h1, h2, h3, h4⟩ := ICG.super_enumerations_agree hc
  exact ⟨l, h1, h2, h3, h4, (List.perm_ext_iff_of_nodup h3 h2).mpr h4⟩

example : ∃ l, superCoalitionsId 0b001 3 = .ok l ∧ (superCoalitionsObj 0b001 3).Perm l :=
  ⟨[1, 3, 5, 7], by decide, by decide +kernel⟩

/-! ### the relation table of bounds.py -/

theorem coalStructure_eq {n c d : Nat} (hc : c < 2 ^ n) (hd : d < 2 ^ n) (hc0 : c ≠ 0) :
    coalStructure n c d =
      if d = 0 then -2 else if d = c then 0 else if c &&& d = c then 2 else if d &&& c = d then 1 else -1 :=
  ICG.coalStructure_eq hc hd hc0

example : (List.range 8).map (coalStructure 3 0b101) = [-2, 1, -1, -1, 1, 0, -1, 2] := by decide

/-! ### all coalitions sorted by size -/

theorem mem_sortByKey {β} {key : β → Nat} {m : Nat} {l : List β} {x : β} :
    x ∈ sortByKey key m l ↔ x ∈ l ∧ key x ≤ m := by
  unfold sortByKey
  simp only [List.mem_flatMap, List.mem_range, List.mem_filter, beq_iff_eq]
  constructor
  · rintro ⟨k, hk, hx, rfl⟩; exact ⟨hx, by omega⟩
  · rintro ⟨hx, hk⟩; exact ⟨key x, by omega, hx, rfl⟩

theorem sortByKey_nodup {β} {key : β → Nat} {m : Nat} {l : List β} (h : l.Nodup) :
    (sortByKey key m l).Nodup := by
  unfold sortByKey
  rw [List.nodup_flatMap]
  refine ⟨fun k _ => h.filter _, ?_⟩
  refine List.Pairwise.imp_of_mem ?_ (List.nodup_range (n := m + 1))
  intro a b _ _ hab x hxa hxb
  simp only [List.mem_filter, beq_iff_eq] at hxa hxb
  exact hab (hxa.2.symm.trans hxb.2)

/-- stable sort: smaller key first, equal keys in input order -/
theorem sortByKey_sorted {β} {key : β → Nat} {m : Nat} {l : List β} {R : β → β → Prop}
    (h : l.Pairwise R) :
    (sortByKey key m l).Pairwise (fun x y => key x < key y ∨ (key x = key y ∧ R x y)) := by
  unfold sortByKey
  rw [List.pairwise_flatMap]
  constructor
  · intro k _
    have : (l.filter (fun x => key x == k)).Pairwise R := h.filter _
    refine List.Pairwise.imp_of_mem ?_ this
    intro a b ha hb hab
    simp only [List.mem_filter, beq_iff_eq] at ha hb
    exact Or.inr ⟨ha.2.trans hb.2.symm, hab⟩
  · refine List.Pairwise.imp ?_ (List.pairwise_lt_range (n := m + 1))
    intro a b hab x hx y hy
    simp only [List.mem_filter, beq_iff_eq] at hx hy
    exact Or.inl (by omega)

/-- `allSorted n` contains every coalition of `n` players exactly once … -/
theorem allSorted_perm (n : Nat) : (allSorted n).Perm (List.range (2 ^ n)) := by
  unfold allSorted allCoalitions
  apply (List.perm_ext_iff_of_nodup (sortByKey_nodup List.nodup_range) List.nodup_range).mpr
  intro x
  rw [mem_sortByKey, List.mem_range]
  exact ⟨fun h => h.1, fun h => ⟨h, ICG.size_le n x h⟩⟩

/-- … ordered by size, ties by id -/
theorem allSorted_sorted (n : Nat) :
    (allSorted n).Pairwise (fun x y => size x < size y ∨ (size x = size y ∧ x < y)) :=
  sortByKey_sorted List.pairwise_lt_range

theorem allSorted_size_mono (n : Nat) : (allSorted n).Pairwise (fun x y => size x ≤ size y) :=
  (allSorted_sorted n).imp (fun h => by omega)

example : allSorted 3 = [0, 1, 2, 4, 3, 5, 6, 7] := by decide +kernel

end ICG.C18
