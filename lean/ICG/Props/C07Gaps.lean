/-
  Property C07, gap functions — "every offered gap function (exploitability, l1, l2, l∞ norm of the width
  vector) is non-increasing along any sequence of reveals, never negative, and zero once every value is
  revealed."

  ICG/Props/C07.lean proves that more knowledge gives row-wise nested intervals (`C07.Nested`), along
  single edges of the knowledge lattice and along reveal paths.  ICG/Lemmas/GapMono.lean proves that the
  four gap functions of the model (`ICG.l1`, `ICG.linf`, `ICG.l2sq`, `Table.exploitability`,
  ICG/Model/Shapley.lean) are monotone in nested interval vectors, non-negative, and zero on degenerate
  ones.  This file composes the two, for the MODEL computers `sa`, `sac`, `sam r`:

  * l1, l∞ : every `[AddCommGroup α] [LinearOrder α] [IsOrderedAddMonoid α]`
  * l2², exploitability : every `[Field α] [LinearOrder α] [IsStrictOrderedRing α]`; exploitability in
    addition needs `v ∅ = 0` (the C05 identity is for upper(∅) = 0, which every table built by the package
    satisfies).  `l2_norm` is `sqrt` of l2²; monotonicity of the correctly rounded square root is the one
    trusted step (DESIGN 5/C07).

  * `mono_l1`, `mono_linf`, `mono_l2sq`, `mono_expl`         : K ⊆ K' (one lattice edge or any pair)
  * `nonneg_*`                                               : after any compute
  * `zero_full_*`                                            : every coalition revealed
  * `path_l1`, `path_linf`, `path_l2sq`, `path_expl`         : along every reveal path, pairwise
-/
import ICG.Props.C07
import ICG.Lemmas.GapMono

set_option linter.unusedSectionVars false

namespace ICG.C07
open ICG Table ICG.SpecSA
open ICG.BoundsCommon

variable {α : Type}

section group
variable [AddCommGroup α] [LinearOrder α] [IsOrderedAddMonoid α]

theorem Nested.toGapMono {s s' : Table α} (h : Nested s s') :
    GapMono.Nested s.n s.lo s.hi s'.lo s'.hi := h.2

/-- the two computes of `interval_mono`, with everything the gap functions need -/
theorem mono_full (k : Computer) (t t' : Table α) (v : Nat → α) (hn : t'.n = t.n)
    (hle : KnownLe t.known t'.known) (hag : t.Agree v) (hag' : t'.Agree v) (hsa : SA t.n v)
    (hmd : k.NeedsMono → MonoDec t.n v) (hmin : MinInfo t.n t.known) :
    ∃ s s', k.run t = .ok s ∧ k.run t' = .ok s' ∧ Nested s s' ∧ SoundFor t s v ∧ SoundFor t' s' v := by
  obtain ⟨s, s', h1, h2, h3, _⟩ := gap_width_mono k t t' v hn hle hag hag' hsa hmd hmin
  obtain ⟨s2, g1, g2⟩ := run_sound k t hsa hmd hmin hag
  obtain ⟨s2', g1', g2'⟩ := run_sound k t' (by rw [hn]; exact hsa) (by rw [hn]; exact hmd)
    (by rw [hn]; exact minInfo_mono hmin hle) hag'
  rw [h1] at g1; cases g1
  rw [h2] at g1'; cases g1'
  exact ⟨s, s', h1, h2, h3, g2, g2'⟩

/-- **C07_gap_mono, l1.** -/
theorem mono_l1 (k : Computer) (t t' : Table α) (v : Nat → α) (hn : t'.n = t.n)
    (hle : KnownLe t.known t'.known) (hag : t.Agree v) (hag' : t'.Agree v) (hsa : SA t.n v)
    (hmd : k.NeedsMono → MonoDec t.n v) (hmin : MinInfo t.n t.known) :
    ∃ s s', k.run t = .ok s ∧ k.run t' = .ok s' ∧ l1 t.n s'.lo s'.hi ≤ l1 t.n s.lo s.hi := by
  obtain ⟨s, s', h1, h2, h3, g, _⟩ := mono_full k t t' v hn hle hag hag' hsa hmd hmin
  refine ⟨s, s', h1, h2, ?_⟩
  have := GapMono.l1_mono h3.toGapMono
  rwa [g.1] at this

/-- **C07_gap_mono, l∞** (`linf` never raises: there are `2^n ≥ 1` rows). -/
theorem mono_linf (k : Computer) (t t' : Table α) (v : Nat → α) (hn : t'.n = t.n)
    (hle : KnownLe t.known t'.known) (hag : t.Agree v) (hag' : t'.Agree v) (hsa : SA t.n v)
    (hmd : k.NeedsMono → MonoDec t.n v) (hmin : MinInfo t.n t.known) :
    ∃ s s' m m', k.run t = .ok s ∧ k.run t' = .ok s' ∧ linf t.n s.lo s.hi = .ok m ∧
      linf t.n s'.lo s'.hi = .ok m' ∧ m' ≤ m := by
  obtain ⟨s, s', h1, h2, h3, g, _⟩ := mono_full k t t' v hn hle hag hag' hsa hmd hmin
  obtain ⟨m, m', a, b, c⟩ := GapMono.linf_mono h3.toGapMono
  rw [g.1] at a b
  exact ⟨s, s', m, m', h1, h2, a, b, c⟩

/-- **C07_gap_nonneg, l1 and l∞** (true of every pair of columns; stated after a compute). -/
theorem nonneg_l1_linf (k : Computer) (t : Table α) (hmin : MinInfo t.n t.known) (hinv : t.Inv) :
    ∃ s, k.run t = .ok s ∧ 0 ≤ l1 t.n s.lo s.hi ∧ ∃ m, linf t.n s.lo s.hi = .ok m ∧ 0 ≤ m := by
  obtain ⟨s, h, _⟩ := run_spec k t hmin hinv
  exact ⟨s, h, GapMono.l1_nonneg _ _ _, GapMono.linf_nonneg _ _ _⟩

/-- **C07_gap_zero_full, l1 and l∞.** -/
theorem zero_full_l1_linf (k : Computer) (t : Table α) (hinv : t.Inv)
    (hall : ∀ c, c < 2 ^ t.n → t.known c = true) :
    ∃ s, k.run t = .ok s ∧ l1 t.n s.lo s.hi = 0 ∧ linf t.n s.lo s.hi = .ok 0 := by
  obtain ⟨s, h1, h2⟩ := gap_width_zero_full k t hinv hall
  have hd : GapMono.Degenerate t.n s.lo s.hi := fun c hc => by rw [(h2 c hc).1, (h2 c hc).2.1]
  exact ⟨s, h1, GapMono.l1_zero hd, GapMono.linf_zero hd⟩

/-- **C07_path, l1 and l∞**: along every reveal path, for every earlier table `a` and later table `b`
    of the trajectory the gap of `b` is at most the gap of `a`. -/
theorem path_l1 (k : Computer) (v : Nat → α) (cs : List Nat) {t : Table α} {ts : List (Table α)}
    (hf : Fresh k v t) (hsa : SA t.n v) (hmd : k.NeedsMono → MonoDec t.n v)
    (h : revealRun k v t cs = .ok ts) :
    (t :: ts).Pairwise (fun a b => l1 b.n b.lo b.hi ≤ l1 a.n a.lo a.hi) :=
  (path k v cs hf hsa hmd h).1.imp (fun hab => by
    rw [hab.1]; exact GapMono.l1_mono hab.toGapMono)

theorem path_linf (k : Computer) (v : Nat → α) (cs : List Nat) {t : Table α} {ts : List (Table α)}
    (hf : Fresh k v t) (hsa : SA t.n v) (hmd : k.NeedsMono → MonoDec t.n v)
    (h : revealRun k v t cs = .ok ts) :
    (t :: ts).Pairwise (fun a b => ∃ m m', linf a.n a.lo a.hi = .ok m ∧ linf b.n b.lo b.hi = .ok m' ∧
      m' ≤ m) :=
  (path k v cs hf hsa hmd h).1.imp (fun hab => by
    obtain ⟨m, m', a, b, c⟩ := GapMono.linf_mono hab.toGapMono
    rw [← hab.1] at b
    exact ⟨m, m', a, b, c⟩)

end group

section field
variable [Field α] [LinearOrder α] [IsStrictOrderedRing α]

/-- **C07_gap_mono, l2²** (the square of `l2_norm`). -/
theorem mono_l2sq (k : Computer) (t t' : Table α) (v : Nat → α) (hn : t'.n = t.n)
    (hle : KnownLe t.known t'.known) (hag : t.Agree v) (hag' : t'.Agree v) (hsa : SA t.n v)
    (hmd : k.NeedsMono → MonoDec t.n v) (hmin : MinInfo t.n t.known) :
    ∃ s s', k.run t = .ok s ∧ k.run t' = .ok s' ∧ l2sq t.n s'.lo s'.hi ≤ l2sq t.n s.lo s.hi := by
  obtain ⟨s, s', h1, h2, h3, g, _⟩ := mono_full k t t' v hn hle hag hag' hsa hmd hmin
  refine ⟨s, s', h1, h2, ?_⟩
  have := GapMono.l2sq_mono h3.toGapMono
  rwa [g.1] at this

/-- what exploitability needs of a computed table: grand coalition known, upper(∅) = 0 -/
theorem expl_side (t s : Table α) (v : Nat → α) (hv0 : v 0 = 0) (hmin : MinInfo t.n t.known)
    (hs : SoundFor t s v) : s.known (grand s.n) = true ∧ s.hi 0 = 0 := by
  obtain ⟨h1, h2, h3⟩ := hs
  refine ⟨by rw [h1, h2]; exact hmin.2.1, ?_⟩
  rw [((h3 0 (Nat.two_pow_pos _)).2.2.2 hmin.1).2, hv0]

/-- **C07_gap_mono, exploitability** — both calls succeed and the value does not grow.  `v ∅ = 0`. -/
theorem mono_expl (k : Computer) (t t' : Table α) (v : Nat → α) (hv0 : v 0 = 0) (hn : t'.n = t.n)
    (hle : KnownLe t.known t'.known) (hag : t.Agree v) (hag' : t'.Agree v) (hsa : SA t.n v)
    (hmd : k.NeedsMono → MonoDec t.n v) (hmin : MinInfo t.n t.known) :
    ∃ s s' x x', k.run t = .ok s ∧ k.run t' = .ok s' ∧ s.exploitability = .ok x ∧
      s'.exploitability = .ok x' ∧ x' ≤ x := by
  obtain ⟨s, s', h1, h2, h3, g, g'⟩ := mono_full k t t' v hn hle hag hag' hsa hmd hmin
  obtain ⟨a1, a2⟩ := expl_side t s v hv0 hmin g
  obtain ⟨b1, b2⟩ := expl_side t' s' v hv0 (by rw [hn]; exact minInfo_mono hmin hle) g'
  obtain ⟨x, x', e1, e2, e3⟩ := GapMono.expl_mono s s' h3.1 a1 b1 a2 b2 h3.toGapMono
  exact ⟨s, s', x, x', h1, h2, e1, e2, e3⟩

/-- **C07_gap_nonneg, l2² and exploitability.** -/
theorem nonneg_l2sq_expl (k : Computer) (t : Table α) (v : Nat → α) (hv0 : v 0 = 0) (hag : t.Agree v)
    (hsa : SA t.n v) (hmd : k.NeedsMono → MonoDec t.n v) (hmin : MinInfo t.n t.known) :
    ∃ s, k.run t = .ok s ∧ 0 ≤ l2sq t.n s.lo s.hi ∧ ∃ x, s.exploitability = .ok x ∧ 0 ≤ x := by
  obtain ⟨s, h1, g⟩ := run_sound k t hsa hmd hmin hag
  obtain ⟨a1, a2⟩ := expl_side t s v hv0 hmin g
  refine ⟨s, h1, GapMono.l2sq_nonneg _ _ _, GapMono.expl_nonneg s a1 a2 ?_⟩
  intro c hc
  rw [g.1] at hc
  exact (g.2.2 c hc).2.2.1

/-- **C07_gap_zero_full, l2² and exploitability** (table value of ∅ is 0). -/
theorem zero_full_l2sq_expl (k : Computer) (t : Table α) (hinv : t.Inv) (h0 : t.lo 0 = 0)
    (hall : ∀ c, c < 2 ^ t.n → t.known c = true) :
    ∃ s, k.run t = .ok s ∧ l2sq t.n s.lo s.hi = 0 ∧ s.exploitability = .ok 0 := by
  have hp := Nat.two_pow_pos t.n
  have hmin : MinInfo t.n t.known :=
    ⟨hall 0 hp, hall _ (by omega), fun i hi => hall _ (Nat.pow_lt_pow_right (by omega) hi)⟩
  obtain ⟨s, h1, h2n, h2k, _⟩ := run_spec k t hmin hinv
  obtain ⟨s', h1', h2⟩ := gap_width_zero_full k t hinv hall
  rw [h1] at h1'; cases h1'
  have hd : GapMono.Degenerate t.n s.lo s.hi := fun c hc => by rw [(h2 c hc).1, (h2 c hc).2.1]
  refine ⟨s, h1, GapMono.l2sq_zero hd, ?_⟩
  apply GapMono.expl_zero s (by rw [h2n, h2k]; exact hmin.2.1) (by rw [h2n]; exact hd)
  rw [(h2 0 hp).2.1, h0]

theorem path_l2sq (k : Computer) (v : Nat → α) (cs : List Nat) {t : Table α} {ts : List (Table α)}
    (hf : Fresh k v t) (hsa : SA t.n v) (hmd : k.NeedsMono → MonoDec t.n v)
    (h : revealRun k v t cs = .ok ts) :
    (t :: ts).Pairwise (fun a b => l2sq b.n b.lo b.hi ≤ l2sq a.n a.lo a.hi) :=
  (path k v cs hf hsa hmd h).1.imp (fun hab => by
    rw [hab.1]; exact GapMono.l2sq_mono hab.toGapMono)

/-- **C07_path, exploitability**: defined at every table of the trajectory and non-increasing. -/
theorem path_expl (k : Computer) (v : Nat → α) (hv0 : v 0 = 0) (cs : List Nat) {t : Table α}
    {ts : List (Table α)} (hf : Fresh k v t) (hsa : SA t.n v) (hmd : k.NeedsMono → MonoDec t.n v)
    (h : revealRun k v t cs = .ok ts) :
    (t :: ts).Pairwise (fun a b => ∃ x x', a.exploitability = .ok x ∧ b.exploitability = .ok x' ∧
      x' ≤ x) := by
  obtain ⟨hp, hfr⟩ := path k v cs hf hsa hmd h
  have hfresh : ∀ a ∈ t :: ts, Fresh k v a := by
    intro a ha
    rcases List.mem_cons.mp ha with rfl | ha
    · exact hf
    · exact hfr a ha
  have side : ∀ a, Fresh k v a → a.known (grand a.n) = true ∧ a.hi 0 = 0 := by
    intro a ha
    exact ⟨ha.1.2.1, by rw [(ha.2.1 0 (Nat.two_pow_pos _) ha.1.1).2, hv0]⟩
  apply List.Pairwise.imp_of_mem _ hp
  intro a b ha hb hab
  obtain ⟨a1, a2⟩ := side a (hfresh a ha)
  obtain ⟨b1, b2⟩ := side b (hfresh b hb)
  exact GapMono.expl_mono a b hab.1 a1 b1 a2 b2 hab.toGapMono

end field

/-! ### the hypotheses are satisfiable (3 players; `Int` for l1 / l∞, `Rat` for l2² / exploitability) -/

example : ∃ s s', sa Ex.exT = .ok s ∧ sa Ex.exT' = .ok s' ∧ l1 3 s'.lo s'.hi ≤ l1 3 s.lo s.hi :=
  mono_l1 .sa Ex.exT Ex.exT' exV rfl Ex.exT_le Ex.exT_agree Ex.exT'_agree Ex.exT_sa (fun h => h.elim)
    Ex.exT_min

example (r : Nat) : ∃ s s' m m', sam r Ex.samT = .ok s ∧ sam r Ex.samT' = .ok s' ∧
    linf 3 s.lo s.hi = .ok m ∧ linf 3 s'.lo s'.hi = .ok m' ∧ m' ≤ m :=
  mono_linf (.sam r) Ex.samT Ex.samT' SAMExample.v rfl Ex.samT_le Ex.samT_agree Ex.samT'_agree
    Ex.samT_sa (fun _ => Ex.samT_md) Ex.samT_min

/-- the game `exV` over `Rat` -/
def exVq : Nat → Rat := fun c => (exV c : Int)

def exTq (kn : Nat → Bool) : Table Rat :=
  { n := 3, known := kn, lo := fun c => if kn c then exVq c else 99, hi := fun c => if kn c then exVq c else -99 }

theorem exTq_agree (kn : Nat → Bool) : (exTq kn).Agree exVq := by
  intro c _ hk
  have hk' : kn c = true := hk
  simp [exTq, hk']

theorem exVq_SA : SA 3 exVq := by
  rw [SA_iff_bounded]; unfold exVq exV; decide +kernel

example : ∃ s s' x x', sac (exTq exKnown) = .ok s ∧ sac (exTq exKnown') = .ok s' ∧
    s.exploitability = .ok x ∧ s'.exploitability = .ok x' ∧ x' ≤ x :=
  mono_expl .sac (exTq exKnown) (exTq exKnown') exVq (by decide +kernel) rfl exKnown_le
    (exTq_agree _) (exTq_agree _) exVq_SA (fun h => h.elim) exKnown_minInfo

example : ∃ s s', sa (exTq exKnown) = .ok s ∧ sa (exTq exKnown') = .ok s' ∧
    l2sq 3 s'.lo s'.hi ≤ l2sq 3 s.lo s.hi :=
  mono_l2sq .sa (exTq exKnown) (exTq exKnown') exVq rfl exKnown_le
    (exTq_agree _) (exTq_agree _) exVq_SA (fun h => h.elim) exKnown_minInfo

end ICG.C07
