/-
  Property C16 — the size-aggregated (linear) environment (icg_gym_linear.py), theorems about
  ICG.Model.Env (`subsetSizes`, `bincount`, `linMask`, `linState`, `linCandidates`, `linStep`, `linReset`).

  "In the size-aggregated (linear) environment the mask allows size k iff some explorable coalition of
   size k is still unknown; a step with size k reveals exactly one previously unknown coalition of that
   size, reports it, and returns the underlying environment's reward and done flag; and the observation is
   the per-size sum of the underlying observation, of length n, after reset and after every step."

  The coalition `np.random.choice` draws is an input of the model (`chosen`, an index into the explorable
  list); the theorems hold for every value the sampler can return (`chosen ∈ linCandidates e k`).
  Length: `np.bincount` returns `max size + 1` entries — `linState_length` is the exact formula; it equals `n`
  exactly when a coalition of size `n − 1` is explorable and N is not (`linState_length_eq_n`), e.g. for the
  minimal initial knowledge and `n ≥ 3` (`minimal_has_pred_size`).  For other initial lists the length can
  be smaller than `n` (example at the end) — the property's "of length n" is about the minimal case.
-/
import ICG.Props.C09
import ICG.Lemmas.Enum

namespace ICG.C16
open ICG Table Env ICG.C09

variable {α : Type}

/-! ### `np.bincount` -/

theorem bincount_ok {β : Type} [Add β] [Zero β] {sizes : List Nat} {w : List β} {M : Nat}
    (hlen : sizes.length = w.length) (hM : listMax? sizes = some M) :
    bincount sizes w = .ok ((List.range (M + 1)).map (fun k =>
      listSum (((sizes.zip w).filter (fun p => p.1 == k)).map (·.2)))) := by
  simp [bincount, hlen, hM]

/-- selecting the positions of size `k` from two parallel maps over the same list -/
theorem zip_filter_map {β : Type} (f : Nat → Nat) (g : Nat → β) (k : Nat) :
    ∀ l : List Nat, (((l.map f).zip (l.map g)).filter (fun p => p.1 == k)).map (·.2)
      = (l.filter (fun c => f c == k)).map g
  | [] => rfl
  | c :: l => by
    simp only [List.map_cons, List.zip_cons_cons, List.filter_cons]
    by_cases h : (f c == k) = true
    · simp only [h, if_true, List.map_cons, zip_filter_map f g k l]
    · have h' : (f c == k) = false := by simpa using h
      simp only [h', Bool.false_eq_true, if_false, zip_filter_map f g k l]

/-- the maximum of a non-empty list of naturals, as `listMax?` computes it -/
theorem listMax?_nat {l : List Nat} (h : l ≠ []) :
    ∃ M, listMax? l = some M ∧ M ∈ l ∧ ∀ x ∈ l, x ≤ M := by
  cases l with
  | nil => exact absurd rfl h
  | cons a l =>
    refine ⟨l.foldl max a, rfl, ?_, ?_⟩
    · have : ∀ (l : List Nat) (a : Nat), l.foldl max a = a ∨ l.foldl max a ∈ l := by
        intro l
        induction l with
        | nil => intro a; exact Or.inl rfl
        | cons y l ih =>
          intro a
          simp only [List.foldl]
          rcases ih (max a y) with h | h
          · rcases Nat.le_total a y with hay | hya
            · right; rw [h, Nat.max_eq_right hay]; exact List.mem_cons_self
            · left; rw [h, Nat.max_eq_left hya]
          · right; exact List.mem_cons_of_mem _ h
      rcases this l a with h | h
      · rw [h]; exact List.mem_cons_self
      · exact List.mem_cons_of_mem _ h
    · intro x hx
      rcases List.mem_cons.mp hx with rfl | hx
      · exact le_foldl_max_nat l x
      · exact mem_le_foldl_max_nat l a x hx

theorem foldl_add_ne_zero (l : List Nat) (a : Nat) :
    l.foldl (· + ·) a ≠ 0 ↔ a ≠ 0 ∨ ∃ x ∈ l, x ≠ 0 := by
  induction l generalizing a with
  | nil => simp
  | cons y l ih =>
    simp only [List.foldl, ih, List.mem_cons]
    constructor
    · rintro (h | ⟨x, hx, hne⟩)
      · by_cases ha : a = 0
        · right; exact ⟨y, Or.inl rfl, by omega⟩
        · left; exact ha
      · right; exact ⟨x, Or.inr hx, hne⟩
    · rintro (h | ⟨x, hx | hx, hne⟩)
      · left; omega
      · left; subst hx; omega
      · right; exact ⟨x, hx, hne⟩

theorem listSum_ne_zero (l : List Nat) : listSum l ≠ 0 ↔ ∃ x ∈ l, x ≠ 0 := by
  simp [listSum, foldl_add_ne_zero]

/-! ### sizes, mask, observation -/

/-- the largest size among the explorable coalitions -/
theorem maxSize_exists {e : Env α} (hne : e.explorable ≠ []) :
    ∃ M, listMax? e.subsetSizes = some M ∧ (∃ c ∈ e.explorable, size c = M) ∧ ∀ c ∈ e.explorable, size c ≤ M := by
  have : e.subsetSizes ≠ [] := by simpa [subsetSizes] using hne
  obtain ⟨M, hM, hmem, hmax⟩ := listMax?_nat this
  refine ⟨M, hM, ?_, fun c hc => hmax _ (List.mem_map.mpr ⟨c, hc, rfl⟩)⟩
  obtain ⟨c, hc, hs⟩ := List.mem_map.mp hmem
  exact ⟨c, hc, hs⟩

/-- **observation**: entry `k` is the sum (in id order, from 0) of the underlying observation over the
    explorable coalitions of size `k`; the vector has `max size + 1` entries -/
theorem linState_spec [Zero α] [Add α] {e : Env α} {M : Nat} (hM : listMax? e.subsetSizes = some M) :
    e.linState = .ok ((List.range (M + 1)).map (fun k =>
      listSum ((e.explorable.filter (fun c => size c == k)).map
        (fun c => if e.table.known c then e.norm c else 0)))) := by
  have hlen : e.subsetSizes.length = e.state.length := by simp [subsetSizes, state]
  rw [linState, bincount_ok hlen hM]
  simp only [subsetSizes, state, zip_filter_map]

/-- … it is the per-size sum of what `state` returns -/
theorem linState_eq_bincount [Zero α] [Add α] (e : Env α) : e.linState = bincount e.subsetSizes e.state := rfl

theorem linState_length [Zero α] [Add α] {e : Env α} (hne : e.explorable ≠ []) :
    ∃ l M, e.linState = .ok l ∧ listMax? e.subsetSizes = some M ∧ l.length = M + 1 := by
  obtain ⟨M, hM, _, _⟩ := maxSize_exists hne
  exact ⟨_, M, linState_spec hM, hM, by simp⟩

/-- **mask**: size `k` is allowed iff some explorable coalition of size `k` is still unknown -/
theorem linMask_spec {e : Env α} (hne : e.explorable ≠ []) :
    ∃ m, e.linMask = .ok m ∧ ∀ k : Nat, m[k]? = some true ↔ ∃ c ∈ e.explorable, size c = k ∧ e.table.known c = false := by
  obtain ⟨M, hM, _, hmax⟩ := maxSize_exists hne
  have hlen : e.subsetSizes.length = (e.actionMasks.map (fun b => if b then (1 : Nat) else 0)).length := by
    simp [subsetSizes, actionMasks]
  refine ⟨_, by rw [linMask, bincount_ok hlen hM], fun k => ?_⟩
  simp only [List.getElem?_map]
  by_cases hk : k < M + 1
  · simp only [List.getElem?_range hk, Option.map_some, Option.some.injEq, bne_iff_ne, ne_eq]
    have hz := zip_filter_map size (fun c => if (!e.table.known c) = true then (1 : Nat) else 0) k e.explorable
    simp only [subsetSizes, actionMasks, List.map_map] at hz ⊢
    have hcomp : ((fun b => if b = true then (1 : Nat) else 0) ∘ fun c => !e.table.known c)
        = fun c => if (!e.table.known c) = true then (1 : Nat) else 0 := rfl
    rw [hcomp, hz, ← ne_eq, listSum_ne_zero]
    constructor
    · rintro ⟨x, hx, hne0⟩
      obtain ⟨c, hc, rfl⟩ := List.mem_map.mp hx
      obtain ⟨hce, hsz⟩ := List.mem_filter.mp hc
      refine ⟨c, hce, by simpa using hsz, ?_⟩
      cases hkc : e.table.known c with
      | false => rfl
      | true => simp [hkc] at hne0
    · rintro ⟨c, hce, hsz, hkc⟩
      exact ⟨1, List.mem_map.mpr ⟨c, List.mem_filter.mpr ⟨hce, by simpa using hsz⟩, by simp [hkc]⟩, by omega⟩
  · have hge : M + 1 ≤ k := Nat.le_of_not_lt hk
    have : (List.range (M + 1))[k]? = none := List.getElem?_eq_none (by simpa using hge)
    simp only [this, Option.map_none]
    constructor
    · intro h; cases h
    · rintro ⟨c, hce, hsz, _⟩
      have := hmax c hce
      omega

/-- on a reachable state: size `k` is allowed iff an explorable coalition of size `k` has not been revealed -/
theorem linMask_inv {compute : Table α → Except Err (Table α)} {P : Params} {e : Env α} {s : Spec α}
    (h : Inv compute P e s) (hne : P.explorable ≠ []) :
    ∃ m, e.linMask = .ok m ∧ ∀ k : Nat, m[k]? = some true ↔ ∃ c ∈ P.explorable, size c = k ∧ s.revealed c = false := by
  obtain ⟨m, hm, hspec⟩ := linMask_spec (e := e) (by rw [h.ex]; exact hne)
  refine ⟨m, hm, fun k => (hspec k).trans ?_⟩
  rw [h.ex]
  constructor
  · rintro ⟨c, hc, hsz, hk⟩
    refine ⟨c, hc, hsz, ?_⟩
    rw [h.known c] at hk
    simp only [Spec.knows, Bool.or_eq_false_iff] at hk
    exact hk.2
  · rintro ⟨c, hc, hsz, hr⟩
    refine ⟨c, hc, hsz, ?_⟩
    have hnik : c ∉ P.ik := (mem_explorable.mp hc).2
    rw [h.known c]
    simp [Spec.knows, hnik, hr]

/-! ### step -/

/-- the sampler's candidates: positions of still-unknown explorable coalitions of size `k` -/
theorem mem_linCandidates {e : Env α} {k i : Nat} :
    i ∈ e.linCandidates k ↔ ∃ c, e.explorable[i]? = some c ∧ size c = k ∧ e.table.known c = false := by
  simp only [linCandidates, List.mem_filter, List.mem_range]
  constructor
  · rintro ⟨_, h⟩
    cases hc : e.explorable[i]? with
    | none => simp [hc] at h
    | some c =>
      simp only [hc, Bool.and_eq_true, beq_iff_eq, Bool.not_eq_true'] at h
      exact ⟨c, rfl, h.1, h.2⟩
  · rintro ⟨c, hc, hsz, hk⟩
    have hlen : i < e.explorable.length := by
      rcases Nat.lt_or_ge i e.explorable.length with hl | hl
      · exact hl
      · rw [List.getElem?_eq_none hl] at hc; cases hc
    exact ⟨hlen, by simp [hc, hsz, hk]⟩

/-- the candidates are non-empty exactly when the mask allows the size -/
theorem linCandidates_ne_nil {e : Env α} {k : Nat} :
    e.linCandidates k ≠ [] ↔ ∃ c ∈ e.explorable, size c = k ∧ e.table.known c = false := by
  constructor
  · intro h
    obtain ⟨i, hi⟩ := List.exists_mem_of_ne_nil _ h
    obtain ⟨c, hc, hsz, hk⟩ := mem_linCandidates.mp hi
    exact ⟨c, List.mem_of_getElem? hc, hsz, hk⟩
  · rintro ⟨c, hc, hsz, hk⟩
    obtain ⟨i, hi⟩ := List.mem_iff_getElem?.mp hc
    exact List.ne_nil_of_mem (mem_linCandidates.mpr ⟨c, hi, hsz, hk⟩)

section step
variable [Zero α] [Neg α] [Sub α] [Add α] [DecidableEq α]
variable {compute : Table α → Except Err (Table α)} {gap : Table α → Except Err α}

/-- for every choice the sampler can make, the linear step IS the inner step on that coalition, with the
    observation aggregated by size -/
theorem linStep_eq {e : Env α} {k chosen : Nat} (hk : k < e.table.n) (hc : chosen ∈ e.linCandidates k) :
    linStep compute gap e k chosen = some (match step compute gap e chosen with
      | .error x => .error x
      | .ok (e', out) =>
        match bincount e'.subsetSizes out.obs with
        | .ok lin => .ok (e', { out with obs := lin })
        | .error err => .error (err, e')) := by
  have h1 : (0 : Int) ≤ (k : Int) ∧ (k : Int) < (e.table.n : Int) := ⟨by omega, by omega⟩
  have h2 : (e.linCandidates k).isEmpty = false := by
    cases hl : e.linCandidates k with
    | nil => rw [hl] at hc; cases hc
    | cons _ _ => rfl
  have h3 : (e.linCandidates k).contains chosen = true := List.contains_iff_mem.mpr hc
  simp only [linStep, h1, and_self, if_true, Int.toNat_natCast, h2, Bool.false_eq_true, if_false, h3]
  rfl

/-- **step** at a reachable state, for any legal `chosen`: the call reveals exactly the coalition `c` behind
    `chosen` — an explorable coalition of size `k` that was not known — reports its id, returns the inner
    environment's reward and done flag, and the observation is the per-size sum of the inner observation. -/
theorem linStep_spec (hok : ComputeOK compute) {P : Params} {e e' : Env α} {s : Spec α} {k chosen : Nat}
    {out : StepOut α} (hinv : Inv compute P e s) (hk : k < P.n) (hc : chosen ∈ e.linCandidates k)
    (hstep : step compute gap e chosen = .ok (e', out)) :
    ∃ lin c, linStep compute gap e k chosen = some (.ok (e', { out with obs := lin })) ∧
      P.explorable[chosen]? = some c ∧ size c = k ∧ s.revealed c = false ∧
      Inv compute P e' (s.step c) ∧ out.chosen = c ∧
      e'.reward gap = .ok out.reward ∧ out.done = e'.done ∧ e'.linState = .ok lin := by
  obtain ⟨c, hc', hrev, hinv', hch, hobs, hrew, hdone⟩ := step_spec hok hinv hstep
  obtain ⟨c2, hc2, hsz, _⟩ := mem_linCandidates.mp hc
  rw [hinv.ex, hc'] at hc2
  cases hc2
  have hne : e'.explorable ≠ [] := by
    rw [hinv'.ex]
    exact List.ne_nil_of_mem (List.mem_of_getElem? hc')
  obtain ⟨lin, M, hlin, _, _⟩ := linState_length (e := e') hne
  have hb : bincount e'.subsetSizes out.obs = .ok lin := by rw [hobs]; exact hlin
  refine ⟨lin, c, ?_, hc', hsz, hrev, hinv', hch, hrew, hdone, hlin⟩
  rw [linStep_eq (by rw [hinv.n]; exact hk) hc, hstep]
  simp only [hb]

/-- a size the mask does not allow: `np.random.choice` of an empty array raises ValueError, nothing changed -/
theorem linStep_not_allowed {e : Env α} {k : Nat} (hk : k < e.table.n) (hnil : e.linCandidates k = []) (chosen : Nat) :
    linStep compute gap e k chosen = some (.error (.value, e)) := by
  have h1 : (0 : Int) ≤ (k : Int) ∧ (k : Int) < (e.table.n : Int) := ⟨by omega, by omega⟩
  simp [linStep, h1, hnil]

/-- a size outside `0 ≤ k < n`: the method's own assertion -/
theorem linStep_out_of_range {e : Env α} {k : Int} (hk : k < 0 ∨ (e.table.n : Int) ≤ k) (chosen : Nat) :
    linStep compute gap e k chosen = some (.error (.assert, e)) := by
  have : ¬ ((0 : Int) ≤ k ∧ k < (e.table.n : Int)) := by omega
  simp [linStep, this]

/-- a `chosen` the sampler cannot return is rejected by the model (not a behaviour of the code) -/
theorem linStep_illegal {e : Env α} {k chosen : Nat} (hk : k < e.table.n) (hne : e.linCandidates k ≠ [])
    (hc : chosen ∉ e.linCandidates k) : linStep compute gap e k chosen = none := by
  have h1 : (0 : Int) ≤ (k : Int) ∧ (k : Int) < (e.table.n : Int) := ⟨by omega, by omega⟩
  have h2 : (e.linCandidates k).isEmpty = false := by
    cases hl : e.linCandidates k with
    | nil => exact absurd hl hne
    | cons _ _ => rfl
  have h3 : (e.linCandidates k).contains chosen = false := by
    cases hcon : (e.linCandidates k).contains chosen with
    | false => rfl
    | true => exact absurd (List.contains_iff_mem.mp hcon) hc
  simp only [linStep, h1, and_self, if_true, Int.toNat_natCast, h2, Bool.false_eq_true, if_false, h3]

omit [Neg α] [Sub α] [DecidableEq α] in
/-- **reset**: the inner reset, observation aggregated by size -/
theorem linReset_spec (hok : ComputeOK compute) {P : Params} (hP : P.WF) {e e' : Env α} {s : Spec α}
    {f g : Nat → α} {obs : List α} (hinv : Inv compute P e s) (hne : P.explorable ≠ [])
    (h : reset compute e f g = .ok (e', obs)) :
    ∃ lin, linReset compute e f g = .ok (e', lin) ∧ Inv compute P e' (Spec.init f g) ∧ e'.linState = .ok lin := by
  obtain ⟨hinv', hobs⟩ := reset_inv_spec hok hP hinv h
  obtain ⟨lin, M, hlin, _, _⟩ := linState_length (e := e') (by rw [hinv'.ex]; exact hne)
  have hb : bincount e'.subsetSizes obs = .ok lin := by rw [hobs]; exact hlin
  exact ⟨lin, by simp [linReset, h, hb], hinv', hlin⟩

end step

/-! ### the length of the observation -/

theorem size_lt_of_ne_grand : ∀ (n c : Nat), c < 2 ^ n → c ≠ 2 ^ n - 1 → size c < n := by
  intro n
  induction n with
  | zero =>
    intro c hc hne
    have : c = 0 := by simpa using hc
    subst this; simp at hne
  | succ n ih =>
    intro c hc hne
    rw [size_eq c]
    have hp : 2 ^ (n + 1) = 2 * 2 ^ n := by rw [Nat.pow_succ]; omega
    have hc2 : c / 2 < 2 ^ n := by omega
    by_cases h : c / 2 = 2 ^ n - 1
    · have hpos : 0 < 2 ^ n := Nat.pos_of_ne_zero (by simp)
      have hmod : c % 2 = 0 := by omega
      have := size_le n (c / 2) hc2
      omega
    · have := ih (c / 2) hc2 h
      omega

/-- `np.bincount` returns `max size + 1` entries; that is `n` exactly when some explorable coalition has
    size `n − 1` and the grand coalition is initially known -/
theorem linState_length_eq_n [Zero α] [Add α] {compute : Table α → Except Err (Table α)} {P : Params}
    {e : Env α} {s : Spec α} (hinv : Inv compute P e s) (hgrand : grand P.n ∈ P.ik)
    (hpred : ∃ c ∈ P.explorable, size c + 1 = P.n) :
    ∃ l, e.linState = .ok l ∧ l.length = P.n := by
  obtain ⟨c, hc, hsz⟩ := hpred
  have hne : e.explorable ≠ [] := by rw [hinv.ex]; exact List.ne_nil_of_mem hc
  obtain ⟨M, hM, ⟨cM, hcM, hszM⟩, hmax⟩ := maxSize_exists hne
  refine ⟨_, linState_spec hM, ?_⟩
  simp only [List.length_map, List.length_range]
  rw [hinv.ex] at hcM hmax
  have h1 := hmax c hc
  have hcM' := mem_explorable.mp hcM
  have : size cM < P.n := size_lt_of_ne_grand P.n cM hcM'.1 (fun h => hcM'.2 (by rw [h]; exact hgrand))
  omega

theorem size_pred_grand : ∀ k : Nat, size (2 ^ k - 1) = k := by
  intro k
  induction k with
  | zero => simp [size_zero]
  | succ k ih =>
    rw [size_eq]
    have hp : 2 ^ (k + 1) = 2 * 2 ^ k := by rw [Nat.pow_succ]; omega
    have hpos : 0 < 2 ^ k := Nat.pos_of_ne_zero (by simp)
    have h1 : (2 ^ (k + 1) - 1) % 2 = 1 := by omega
    have h2 : (2 ^ (k + 1) - 1) / 2 = 2 ^ k - 1 := by omega
    rw [h1, h2, ih]; omega

theorem fromPlayers_single (i : Nat) : fromPlayers [i] = 2 ^ i := by
  apply Nat.eq_of_testBit_eq
  intro j
  rw [testBit_fromPlayers, Nat.testBit_two_pow]
  simp [eq_comm]

/-- with the minimal initial knowledge (∅, N, singletons) and `n ≥ 3` the coalition `{0, …, n−2}` is
    explorable and has size `n − 1`: the observation then has length exactly `n` -/
theorem minimal_has_pred_size {n : Nat} (hn : 3 ≤ n) (budget : Option Nat) :
    ∃ c ∈ (Params.mk n (minimalCoalitions n) budget).explorable, size c + 1 = n := by
  obtain ⟨m, rfl⟩ : ∃ m, n = m + 3 := ⟨n - 3, by omega⟩
  have hp1 : 2 ^ (m + 3) = 2 * 2 ^ (m + 2) := by rw [Nat.pow_succ]; omega
  have hp2 : 2 ^ (m + 2) = 4 * 2 ^ m := by rw [Nat.pow_add]; omega
  have hpos : 0 < 2 ^ m := Nat.pos_of_ne_zero (by simp)
  refine ⟨2 ^ (m + 2) - 1, ?_, by rw [size_pred_grand]⟩
  rw [mem_explorable]
  refine ⟨by show 2 ^ (m + 2) - 1 < 2 ^ (m + 3); omega, ?_⟩
  show 2 ^ (m + 2) - 1 ∉ minimalCoalitions (m + 3)
  simp only [minimalCoalitions, grand, List.mem_append, List.mem_cons, List.mem_nil_iff, or_false, List.mem_map,
    List.mem_range, fromPlayers_single, not_or, not_exists, not_and]
  refine ⟨⟨by omega, by omega⟩, fun i _ hi => ?_⟩
  -- an odd number ≥ 3 is not a power of two
  cases i with
  | zero => simp at hi; omega
  | succ i =>
    have : 2 ^ (i + 1) = 2 * 2 ^ i := by rw [Nat.pow_succ]; omega
    omega

/-! ### non-vacuity: a concrete linear run (toy computer / gap of C09, n = 4, minimal knowledge) -/

def demoFull4 : Nat → Int := fun c => [0, 1, 2, 5, 1, 4, 6, 12, 0, 2, 3, 7, 2, 6, 8, 20].getD c 0
def demoNorm4 : Nat → Int := fun c => [0, 0, 0, 2, 0, 2, 3, 8, 0, 1, 1, 4, 1, 3, 4, 16].getD c 0

def demoLin : Option (Env Int × Env Int × StepOut Int) :=
  match mkEnv (toyCompute (100 : Int)) 4 (minimalCoalitions 4) none demoFull4 demoNorm4 with
  | .error _ => none
  | .ok e =>
    -- explorable = [3,5,6,7,9,10,11,12,13,14]; size 3 is allowed; the sampler picks index 6 (coalition 11)
    match linStep (toyCompute 100) toyGap e 3 6 with
    | some (.ok (e', out)) => some (e, e', out)
    | _ => none

example : demoLin.map (fun p => (p.1.subsetSizes, p.1.linMask, p.1.linState)) =
    some ([2, 2, 2, 3, 2, 2, 3, 2, 3, 3], .ok [false, false, true, true], .ok [0, 0, 0, 0]) := by decide +kernel

example : demoLin.map (fun p => (p.2.2.obs, p.2.2.reward, p.2.2.done, p.2.2.chosen)) =
    some ([0, 0, 0, 4], -900, false, 11) := by decide +kernel

example : demoLin.map (fun p => (p.2.1.linMask, p.2.1.linCandidates 3)) =
    some (.ok [false, false, true, true], [3, 8, 9]) := by decide +kernel

/-- a choice the sampler cannot make (index 0 is a pair) is rejected; a size that is not allowed raises
    ValueError; a size out of range the assertion -/
example : (match mkEnv (toyCompute (100 : Int)) 4 (minimalCoalitions 4) none demoFull4 demoNorm4 with
    | .ok e => ((linStep (toyCompute 100) toyGap e 3 0).isNone,
                match linStep (toyCompute 100) toyGap e 1 0 with | some (.error (err, _)) => some err | _ => none,
                match linStep (toyCompute 100) toyGap e 4 0 with | some (.error (err, _)) => some err | _ => none)
    | .error _ => (false, none, none)) = (true, some Err.value, some Err.assert) := by decide +kernel

/-- not always length `n`: when every triple of a 4-player game is initially known the observation has 3 entries -/
example : (match mkEnv (toyCompute (100 : Int)) 4 (minimalCoalitions 4 ++ [7, 11, 13, 14]) none demoFull4 demoNorm4 with
    | .ok e => some (e.linState, e.linMask) | .error _ => none) = some (.ok [0, 0, 0], .ok [false, false, true]) := by
  decide +kernel

end ICG.C16
