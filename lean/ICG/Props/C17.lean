/-
  Property C17 — an incomplete game object is a faithful map coalition ↦ (known?, lower, upper).
  Theorems about ICG.Model.Table (the model of incomplete_cooperative/game.py).

  "After any sequence of public value operations a coalition is known iff it was set or revealed and not
  since unset or bulk-reset; a known coalition has lower = upper = its value and bulk bound setters never
  alter it; the value of an unknown coalition is never returned as a value (error, None or NaN instead);
  the empty coalition starts known with value 0.  Copies are independent of the original, and negation
  swaps and negates the bounds, keeps knowledge and is an involution."

  Shape of the development
  * `Op α`, `applyOp`   : the public value operations and their effect on the model table (a raising call
                          leaves the table as it was, except `set_known_values`, which leaves the
                          re-initialised table — exactly what the model's `Except (Err × Table α)` carries)
  * `Spec α`, `specStep`: the abstract "known map" coalition ↦ value, advanced WITHOUT looking at the table
  * `Rel`               : the simulation relation;  `refines` / `refines_run` : it is preserved by every
                          operation / history;  corollaries in the property's words below.
  * all of it holds for every player count `n` and every value type with a `0` (no algebra is needed).

  Scalar bound writes (`set_lower_bound` / `set_upper_bound`) write one cell without looking at the known
  flag; applied to a *known* row they break `lower = upper`.  The property speaks about histories of
  public *value* operations, so such a write is admitted only on a row that is unknown at that moment:
  this is the side condition `Op.admissible` (a function of n, the spec and the operation only).

  Copies: the model is functional — a table is a value, `copy()` is the identity and every operation
  returns a new table, so independence of copies holds by construction (the aliasing question exists only
  in the Python object and is checked there by the correspondence stream `corr_table`, which mutates one
  of several live copies and dumps all of them).
-/
import ICG.Model.Table
import Mathlib.Algebra.Group.Defs
import Mathlib.Algebra.Group.Basic

namespace ICG.C17
open ICG Table

variable {α : Type}

/-! ### seed theorems: the fresh table and negation -/

/-- a fresh table knows exactly the empty coalition, with value 0 -/
theorem fresh_known [Zero α] (n c : Nat) : (Table.init (α := α) n).known c = true ↔ c = 0 := by
  simp [Table.init]

theorem fresh_value [Zero α] (n : Nat) :
    (Table.init (α := α) n).lo 0 = 0 ∧ (Table.init (α := α) n).hi 0 = 0 := by
  simp [Table.init]

example : (Table.init (α := Int) 3).getKnownValues = [some 0, none, none, none, none, none, none, none] := by
  decide

/-- negation keeps knowledge, swaps and negates the bounds -/
theorem neg_known [Neg α] (t : Table α) : t.neg.known = t.known ∧ t.neg.n = t.n := ⟨rfl, rfl⟩

theorem neg_bounds [Neg α] (t : Table α) (c : Nat) :
    t.neg.lo c = - t.hi c ∧ t.neg.hi c = - t.lo c := ⟨rfl, rfl⟩

/-- negation is an involution -/
theorem neg_neg [InvolutiveNeg α] (t : Table α) : t.neg.neg = t := by
  cases t
  simp [Table.neg]

example : ((Table.init (α := Int) 2).putValue 3 5).neg.neg.lo 3 = 5 := by decide

/-! ### operations -/

/-- the public value operations of `IncompleteCooperativeGame` (arguments as in the model) -/
inductive Op (α : Type) where
  | set (v : α) (c : Nat)                                       -- set_value
  | unset (c : Nat)                                             -- unset_value
  | reveal (v : α) (c : Nat)                                    -- reveal_value
  | unreveal (c : Nat)                                          -- unreveal_value
  | setValues (vals : List α) (cs : Option (List Nat))          -- set_values(values[, coalitions])
  | setKnownValues (vals : List α) (cs : Option (List Nat))     -- set_known_values: bulk reset, then bulk set
  | setBounds (upper : Bool) (vals : List α) (cs : Option (List Nat))   -- set_upper_bounds / set_lower_bounds
  | setLowerBound (v : α) (c : Nat)                             -- set_lower_bound (admitted on unknown rows only)
  | setUpperBound (v : α) (c : Nat)                             -- set_upper_bound (admitted on unknown rows only)

/-- a raising call leaves the object as it was -/
def keep (t : Table α) : Except Err (Table α) → Table α
  | .ok t' => t'
  | .error _ => t

/-- the table after the call (whether it returned or raised) -/
def applyOp [Zero α] (t : Table α) : Op α → Table α
  | .set v c => keep t (t.setValue v c)
  | .unset c => keep t (t.unsetValue c)
  | .reveal v c => keep t (t.reveal v c)
  | .unreveal c => keep t (t.unreveal c)
  | .setValues vals cs => keep t (t.setValues vals cs)
  | .setKnownValues vals cs =>
    match t.setKnownValues vals cs with
    | .ok t' => t'
    | .error (_, t0) => t0
  | .setBounds up vals cs => keep t (t.setBounds up vals cs)
  | .setLowerBound v c => keep t (t.setLowerBound v c)
  | .setUpperBound v c => keep t (t.setUpperBound v c)

/-- the table after a history -/
def run [Zero α] (t : Table α) (ops : List (Op α)) : Table α := ops.foldl applyOp t

/-! ### the abstract spec: the known map -/

/-- coalition ↦ its value if it is known -/
abbrev Spec (α : Type) := Nat → Option α

def Spec.put (s : Spec α) (c : Nat) (o : Option α) : Spec α := fun d => if d = c then o else s d

/-- a new game knows exactly ∅ ↦ 0 -/
def specInit [Zero α] : Spec α := fun c => if c = 0 then some 0 else none

/-- bulk set on the spec; `none` = the call raises: the `np.fromiter` iterator is shorter than the value
    count, an index is ≥ 2^n, or (without coalitions) the value vector has length ≠ 2^n and ≠ 1.
    A longer iterator is truncated; repeated coalitions: the last write wins. -/
def specSetValues (n : Nat) (s : Spec α) (vals : List α) : Option (List Nat) → Option (Spec α)
  | some ids =>
    if ids.length < vals.length then none
    else if (ids.take vals.length).all (· < 2 ^ n) then
      some (((ids.take vals.length).zip vals).foldl (fun s (p : Nat × α) => s.put p.1 (some p.2)) s)
    else none
  | none =>
    if vals.length = 2 ^ n then some (fun d => if h : d < vals.length then some vals[d] else s d)
    else match vals with
      | [v] => some (fun d => if d < 2 ^ n then some v else s d)
      | _ => none

/-- one step of the spec; a function of `n`, the spec and the operation only -/
def specStep [Zero α] (n : Nat) (s : Spec α) : Op α → Spec α
  | .set v c => if c < 2 ^ n then s.put c (some v) else s
  | .unset c => if c < 2 ^ n then s.put c none else s
  | .reveal v c => if c < 2 ^ n then (if (s c).isSome then s else s.put c (some v)) else s
  | .unreveal c => if c < 2 ^ n then (if (s c).isSome then s.put c none else s) else s
  | .setValues vals cs => (specSetValues n s vals cs).getD s
  | .setKnownValues vals cs => (specSetValues n specInit vals cs).getD specInit
  | .setBounds _ _ _ => s
  | .setLowerBound _ _ => s
  | .setUpperBound _ _ => s

def specRun [Zero α] (n : Nat) (s : Spec α) (ops : List (Op α)) : Spec α := ops.foldl (specStep n) s

/-- side condition of the histories: a scalar bound write targets a row that is unknown at that moment
    (or an id outside the game, where the call raises and nothing happens) -/
def Op.admissible (n : Nat) (s : Spec α) : Op α → Bool
  | .setLowerBound _ c => decide (2 ^ n ≤ c) || (s c).isNone
  | .setUpperBound _ c => decide (2 ^ n ≤ c) || (s c).isNone
  | _ => true

def admissibleHist [Zero α] (n : Nat) (s : Spec α) : List (Op α) → Bool
  | [] => true
  | op :: ops => op.admissible n s && admissibleHist n (specStep n s op) ops

/-- the simulation relation: on the rows of the game the known flag is "the spec has a value", and a known
    row holds that value in both bound cells -/
def Rel (t : Table α) (s : Spec α) : Prop :=
  ∀ c, c < 2 ^ t.n → (t.known c = (s c).isSome) ∧ ∀ v, s c = some v → t.lo c = v ∧ t.hi c = v

theorem rel_init [Zero α] (n : Nat) : Rel (Table.init (α := α) n) specInit := by
  intro c _
  by_cases h : c = 0 <;> simp [Table.init, specInit, h]

/-! ### single-row lemmas -/

theorem rel_putValue [Zero α] {t : Table α} {s : Spec α} (h : Rel t s) (c : Nat) (v : α) :
    Rel (t.putValue c v) (s.put c (some v)) := by
  intro d hd
  have := h d hd
  by_cases hdc : d = c <;> simp_all [Table.putValue, Spec.put]

theorem rel_clearRow [Zero α] {t : Table α} {s : Spec α} (h : Rel t s) (c : Nat) :
    Rel (t.clearRow c) (s.put c none) := by
  intro d hd
  have := h d hd
  by_cases hdc : d = c <;> simp_all [Table.clearRow, Spec.put]

/-- bulk write of values, row by row, on both sides -/
theorem rel_foldl_putValue [Zero α] : ∀ (l : List (Nat × α)) {t : Table α} {s : Spec α}, Rel t s →
    (l.foldl (fun t (p : Nat × α) => t.putValue p.1 p.2) t).n = t.n ∧
    Rel (l.foldl (fun t (p : Nat × α) => t.putValue p.1 p.2) t)
        (l.foldl (fun s (p : Nat × α) => s.put p.1 (some p.2)) s)
  | [], _, _, h => ⟨rfl, h⟩
  | p :: l, t, s, h => by
    have ih := rel_foldl_putValue l (rel_putValue h p.1 p.2)
    exact ⟨ih.1, ih.2⟩

/-- `set_values` against the spec: it raises exactly when the spec says so, and otherwise refines it -/
theorem setValues_spec [Zero α] {t : Table α} {s : Spec α} (h : Rel t s) (vals : List α) (cs : Option (List Nat)) :
    match specSetValues t.n s vals cs with
    | some s' => ∃ t', t.setValues vals cs = .ok t' ∧ t'.n = t.n ∧ Rel t' s'
    | none => ∃ e, t.setValues vals cs = .error e := by
  cases cs with
  | some ids =>
    by_cases hlen : ids.length < vals.length
    · have hs : specSetValues t.n s vals (some ids) = none := by simp [specSetValues, hlen]
      rw [hs]
      exact ⟨.value, by simp [Table.setValues, Table.fromiter, hlen, bind, Except.bind]⟩
    · by_cases hall : (ids.take vals.length).all (· < t.rows) = true
      · have hall' : (ids.take vals.length).all (· < 2 ^ t.n) = true := hall
        have hs : specSetValues t.n s vals (some ids) =
            some (((ids.take vals.length).zip vals).foldl (fun s (p : Nat × α) => s.put p.1 (some p.2)) s) := by
          simp only [specSetValues, hlen, if_false]
          rw [if_pos hall']
        rw [hs]
        have := rel_foldl_putValue ((ids.take vals.length).zip vals) h
        refine ⟨_, ?_, this.1, this.2⟩
        simp only [Table.setValues, Table.fromiter, hlen, if_false, bind, Except.bind]
        rw [if_pos hall]
      · have hall' : ¬ (ids.take vals.length).all (· < 2 ^ t.n) = true := hall
        have hs : specSetValues t.n s vals (some ids) = none := by
          simp only [specSetValues, hlen, if_false]
          rw [if_neg hall']
        rw [hs]
        refine ⟨.index, ?_⟩
        simp only [Table.setValues, Table.fromiter, hlen, if_false, bind, Except.bind]
        rw [if_neg hall]
  | none =>
    by_cases hlen : vals.length = 2 ^ t.n
    · have hs : specSetValues t.n s vals none =
          some (fun d => if h : d < vals.length then some vals[d] else s d) := by
        simp only [specSetValues, hlen, if_true]
      rw [hs]
      have ht : t.setValues vals none = .ok
          { t with known := fun d => if d < t.rows then true else t.known d,
                   lo := fun d => if h : d < vals.length then vals[d] else t.lo d,
                   hi := fun d => if h : d < vals.length then vals[d] else t.hi d } := by
        simp only [Table.setValues, Table.rows, hlen, if_true]
      refine ⟨_, ht, rfl, ?_⟩
      intro d hd
      have hd' : d < t.rows := hd
      have hd'' : d < vals.length := by rw [hlen]; exact hd
      simp [hd', hd'']
    · match vals, hlen with
      | [v], hlen =>
        have hs : specSetValues t.n s [v] none = some (fun d => if d < 2 ^ t.n then some v else s d) := by
          simp only [specSetValues, hlen, if_false]
        rw [hs]
        have ht : t.setValues [v] none = .ok
            { t with known := fun d => if d < t.rows then true else t.known d,
                     lo := fun d => if d < t.rows then v else t.lo d,
                     hi := fun d => if d < t.rows then v else t.hi d } := by
          simp only [Table.setValues, Table.rows, hlen, if_false]
        refine ⟨_, ht, rfl, ?_⟩
        intro d hd
        have hd' : d < 2 ^ t.n := hd
        have hd'' : d < t.rows := hd
        simp [hd', hd'']
      | [], hlen =>
        have hs : specSetValues t.n s ([] : List α) none = none := by
          simp only [specSetValues, hlen, if_false]
        rw [hs]
        exact ⟨.value, by simp only [Table.setValues, Table.rows, hlen, if_false]⟩
      | _ :: _ :: _, hlen =>
        rename_i a b l
        have hs : specSetValues t.n s (a :: b :: l) none = none := by
          simp only [specSetValues, hlen, if_false]
        rw [hs]
        exact ⟨.value, by simp only [Table.setValues, Table.rows, hlen, if_false]⟩

/-! ### frames: what an operation cannot touch -/

/-- `t'` has the player count of `t` and the same rows outside the game (ids ≥ 2^n) -/
def Outside (t t' : Table α) : Prop :=
  t'.n = t.n ∧ ∀ c, 2 ^ t.n ≤ c → t'.known c = t.known c ∧ t'.lo c = t.lo c ∧ t'.hi c = t.hi c

/-- what a bound write may change: not `n`, not a flag, not a cell of a known row, no row outside the game -/
def BoundsFrame (t t' : Table α) : Prop :=
  t'.n = t.n ∧ t'.known = t.known ∧
    ∀ c, (t.known c = true ∨ 2 ^ t.n ≤ c) → t'.lo c = t.lo c ∧ t'.hi c = t.hi c

theorem Outside.refl (t : Table α) : Outside t t := ⟨rfl, fun _ _ => ⟨rfl, rfl, rfl⟩⟩
theorem BoundsFrame.refl (t : Table α) : BoundsFrame t t := ⟨rfl, rfl, fun _ _ => ⟨rfl, rfl⟩⟩

theorem BoundsFrame.outside {t t' : Table α} (h : BoundsFrame t t') : Outside t t' :=
  ⟨h.1, fun c hc => ⟨by rw [h.2.1], h.2.2 c (Or.inr hc)⟩⟩

theorem foldl_inv {β σ : Type} (P : σ → Prop) (f : σ → β → σ) :
    ∀ (l : List β), (∀ s b, b ∈ l → P s → P (f s b)) → ∀ s0, P s0 → P (l.foldl f s0)
  | [], _, _, h0 => h0
  | b :: l, h, s0, h0 =>
    foldl_inv P f l (fun s b' hb => h s b' (List.mem_cons_of_mem _ hb)) (f s0 b)
      (h s0 b List.mem_cons_self h0)

theorem outside_putValue [Zero α] {t t' : Table α} (h : Outside t t') {c : Nat} (hc : c < 2 ^ t.n) (v : α) :
    Outside t (t'.putValue c v) := by
  refine ⟨h.1, fun d hd => ?_⟩
  have hne : d ≠ c := by omega
  have := h.2 d hd
  simpa [Table.putValue, hne] using this

theorem outside_clearRow [Zero α] {t t' : Table α} (h : Outside t t') {c : Nat} (hc : c < 2 ^ t.n) :
    Outside t (t'.clearRow c) := by
  refine ⟨h.1, fun d hd => ?_⟩
  have hne : d ≠ c := by omega
  have := h.2 d hd
  simpa [Table.clearRow, hne] using this

/-- one bound cell of a row that is unknown and inside the game -/
theorem boundsFrame_write {t t' : Table α} (h : BoundsFrame t t') (upper : Bool) {c : Nat}
    (hk : t.known c = false) (hc : c < 2 ^ t.n) (v : α) :
    BoundsFrame t (if upper then t'.putHi c v else t'.putLo c v) := by
  obtain ⟨h1, h2, h3⟩ := h
  cases upper
  · refine ⟨h1, h2, fun d hd => ?_⟩
    have hne : d ≠ c := by
      rintro rfl; rcases hd with hd | hd
      · rw [hk] at hd; cases hd
      · omega
    simpa [Table.putLo, hne] using h3 d hd
  · refine ⟨h1, h2, fun d hd => ?_⟩
    have hne : d ≠ c := by
      rintro rfl; rcases hd with hd | hd
      · rw [hk] at hd; cases hd
      · omega
    simpa [Table.putHi, hne] using h3 d hd

/-- **bulk bound setters never alter a known coalition** (nor a flag, nor `n`, nor a row outside the game) -/
theorem setBounds_frame {t t' : Table α} {upper : Bool} {vals : List α} {cs : Option (List Nat)}
    (h : t.setBounds upper vals cs = .ok t') : BoundsFrame t t' := by
  cases cs with
  | some ids =>
    simp only [Table.setBounds, Table.fromiter, bind, Except.bind] at h
    by_cases hlen : ids.length < vals.length
    · simp [hlen] at h
    · simp only [hlen, if_false] at h
      by_cases hall : (ids.take vals.length).all (· < t.rows) = true
      · rw [if_pos hall] at h
        injection h with h
        subst h
        refine foldl_inv (BoundsFrame t) _ _ ?_ t (BoundsFrame.refl t)
        intro t'' p hp ht''
        have hp1 : p.1 < t.rows := by
          have := (List.of_mem_zip hp).1
          simpa using (List.all_eq_true.mp hall) p.1 this
        cases hk : t.known p.1
        · simpa [hk] using boundsFrame_write ht'' upper hk hp1 p.2
        · simpa [hk] using ht''
      · rw [if_neg hall] at h; cases h
  | none =>
    simp only [Table.setBounds] at h
    by_cases hlen : vals.length = t.rows
    · simp only [hlen, if_true] at h
      injection h with h
      subst h
      refine foldl_inv (BoundsFrame t) _ _ ?_ t (BoundsFrame.refl t)
      intro t'' c hc ht''
      have hc1 : c < t.rows := List.mem_range.mp hc
      cases hk : t.known c
      · cases hv : vals[c]? with
        | none => simpa [hk, hv] using ht''
        | some v => simpa [hk, hv] using boundsFrame_write ht'' upper hk hc1 v
      · simpa [hk] using ht''
    · simp only [hlen, if_false] at h
      match vals, h with
      | [v], h =>
        injection h with h
        subst h
        refine foldl_inv (BoundsFrame t) _ _ ?_ t (BoundsFrame.refl t)
        intro t'' c hc ht''
        have hc1 : c < t.rows := List.mem_range.mp hc
        cases hk : t.known c
        · simpa [hk] using boundsFrame_write ht'' upper hk hc1 v
        · simpa [hk] using ht''

theorem rel_of_boundsFrame {t t' : Table α} {s : Spec α} (h : Rel t s) (hf : BoundsFrame t t') : Rel t' s := by
  obtain ⟨h1, h2, h3⟩ := hf
  intro c hc
  rw [h1] at hc
  obtain ⟨hk, hv⟩ := h c hc
  refine ⟨by rw [h2]; exact hk, fun v hs => ?_⟩
  have hkc : t.known c = true := by rw [hk, hs]; rfl
  obtain ⟨hl, hh⟩ := h3 c (Or.inl hkc)
  rw [hl, hh]; exact hv v hs

/-! ### every operation refines the spec -/

theorem outside_foldl_putValue [Zero α] {t : Table α} (l : List (Nat × α)) (hl : ∀ p ∈ l, p.1 < 2 ^ t.n) :
    Outside t (l.foldl (fun t (p : Nat × α) => t.putValue p.1 p.2) t) :=
  foldl_inv (Outside t) _ l (fun _ p hp ht => outside_putValue ht (hl p hp) p.2) t (Outside.refl t)

/-- a successful `set_values` leaves `n` and the rows outside the game alone -/
theorem setValues_outside [Zero α] {t t' : Table α} {vals : List α} {cs : Option (List Nat)}
    (h : t.setValues vals cs = .ok t') : Outside t t' := by
  cases cs with
  | some ids =>
    simp only [Table.setValues, Table.fromiter, bind, Except.bind] at h
    by_cases hlen : ids.length < vals.length
    · simp [hlen] at h
    · simp only [hlen, if_false] at h
      by_cases hall : (ids.take vals.length).all (· < t.rows) = true
      · rw [if_pos hall] at h
        injection h with h
        subst h
        refine outside_foldl_putValue _ fun p hp => ?_
        have := (List.of_mem_zip hp).1
        exact of_decide_eq_true ((List.all_eq_true.mp hall) p.1 this)
      · rw [if_neg hall] at h; cases h
  | none =>
    simp only [Table.setValues] at h
    by_cases hlen : vals.length = t.rows
    · simp only [hlen, if_true] at h
      injection h with h
      subst h
      refine ⟨rfl, fun d hd => ?_⟩
      have h1 : ¬ d < t.rows := by simp only [Table.rows]; omega
      simp [h1]
    · simp only [hlen, if_false] at h
      match vals, h with
      | [v], h =>
        injection h with h
        subst h
        refine ⟨rfl, fun d hd => ?_⟩
        have h1 : ¬ d < t.rows := by simp only [Table.rows]; omega
        simp [h1]

theorem keep_cases (t : Table α) (r : Except Err (Table α)) :
    (∃ t', r = .ok t' ∧ keep t r = t') ∨ (∃ e, r = .error e ∧ keep t r = t) := by
  cases r with
  | ok t' => exact Or.inl ⟨t', rfl, rfl⟩
  | error e => exact Or.inr ⟨e, rfl, rfl⟩

/-- **Refinement, one step**: every admissible operation — returning or raising — takes related
    (table, spec) to related (table, spec) and keeps the player count. -/
theorem refines [Zero α] {t : Table α} {s : Spec α} (h : Rel t s) (op : Op α)
    (hadm : op.admissible t.n s = true) :
    (applyOp t op).n = t.n ∧ Rel (applyOp t op) (specStep t.n s op) := by
  have hrows : t.rows = 2 ^ t.n := rfl
  cases op with
  | set v c =>
    by_cases hc : c < 2 ^ t.n
    · have : applyOp t (.set v c) = t.putValue c v := by simp [applyOp, Table.setValue, hrows, hc, keep]
      rw [this]; refine ⟨rfl, ?_⟩; simp only [specStep, hc, if_true]
      exact rel_putValue h c v
    · have : applyOp t (.set v c) = t := by simp [applyOp, Table.setValue, hrows, hc, keep]
      rw [this]; refine ⟨rfl, ?_⟩; simp only [specStep, hc, if_false]
      exact h
  | unset c =>
    by_cases hc : c < 2 ^ t.n
    · have : applyOp t (.unset c) = t.clearRow c := by simp [applyOp, Table.unsetValue, hrows, hc, keep]
      rw [this]; refine ⟨rfl, ?_⟩; simp only [specStep, hc, if_true]
      exact rel_clearRow h c
    · have : applyOp t (.unset c) = t := by simp [applyOp, Table.unsetValue, hrows, hc, keep]
      rw [this]; refine ⟨rfl, ?_⟩; simp only [specStep, hc, if_false]
      exact h
  | reveal v c =>
    by_cases hc : c < 2 ^ t.n
    · have hk := (h c hc).1
      cases hs : (s c).isSome
      · have hk' : t.known c = false := by rw [hk, hs]
        have : applyOp t (.reveal v c) = t.putValue c v := by
          simp [applyOp, Table.reveal, hrows, hc, hk', keep]
        rw [this]; refine ⟨rfl, ?_⟩; simp only [specStep, hc, if_true, hs]
        exact rel_putValue h c v
      · have hk' : t.known c = true := by rw [hk, hs]
        have : applyOp t (.reveal v c) = t := by simp [applyOp, Table.reveal, hrows, hc, hk', keep]
        rw [this]; refine ⟨rfl, ?_⟩; simp only [specStep, hc, if_true, hs]
        exact h
    · have : applyOp t (.reveal v c) = t := by simp [applyOp, Table.reveal, hrows, hc, keep]
      rw [this]; refine ⟨rfl, ?_⟩; simp only [specStep, hc, if_false]
      exact h
  | unreveal c =>
    by_cases hc : c < 2 ^ t.n
    · have hk := (h c hc).1
      cases hs : (s c).isSome
      · have hk' : t.known c = false := by rw [hk, hs]
        have : applyOp t (.unreveal c) = t := by simp [applyOp, Table.unreveal, hrows, hc, hk', keep]
        rw [this]; refine ⟨rfl, ?_⟩; simp only [specStep, hc, if_true, hs]
        exact h
      · have hk' : t.known c = true := by rw [hk, hs]
        have : applyOp t (.unreveal c) = t.clearRow c := by
          simp [applyOp, Table.unreveal, hrows, hc, hk', keep]
        rw [this]; refine ⟨rfl, ?_⟩; simp only [specStep, hc, if_true, hs]
        exact rel_clearRow h c
    · have : applyOp t (.unreveal c) = t := by simp [applyOp, Table.unreveal, hrows, hc, keep]
      rw [this]; refine ⟨rfl, ?_⟩; simp only [specStep, hc, if_false]
      exact h
  | setValues vals cs =>
    have key := setValues_spec h vals cs
    simp only [applyOp, specStep]
    cases hs : specSetValues t.n s vals cs with
    | some s' =>
      rw [hs] at key
      obtain ⟨t', ht', hn, hr⟩ := key
      rw [ht']; exact ⟨hn, hr⟩
    | none =>
      rw [hs] at key
      obtain ⟨e, he⟩ := key
      rw [he]; exact ⟨rfl, h⟩
  | setKnownValues vals cs =>
    have key := setValues_spec (rel_init (α := α) t.n) vals cs
    have hn0 : (Table.init (α := α) t.n).n = t.n := rfl
    rw [hn0] at key
    simp only [applyOp, specStep, Table.setKnownValues]
    cases hs : specSetValues t.n specInit vals cs with
    | some s' =>
      rw [hs] at key
      obtain ⟨t', ht', hn, hr⟩ := key
      rw [ht']; exact ⟨hn, hr⟩
    | none =>
      rw [hs] at key
      obtain ⟨e, he⟩ := key
      rw [he]; exact ⟨rfl, rel_init t.n⟩
  | setBounds up vals cs =>
    simp only [applyOp, specStep]
    rcases keep_cases t (t.setBounds up vals cs) with ⟨t', ht', hk⟩ | ⟨e, _, hk⟩
    · rw [hk]
      have hf := setBounds_frame ht'
      exact ⟨hf.1, rel_of_boundsFrame h hf⟩
    · rw [hk]; exact ⟨rfl, h⟩
  | setLowerBound v c =>
    simp only [applyOp, specStep]
    by_cases hc : c < 2 ^ t.n
    · have hs : (s c).isNone = true := by
        have : ¬ 2 ^ t.n ≤ c := by omega
        simpa [Op.admissible, this] using hadm
      have hk : t.known c = false := by
        rw [(h c hc).1]; cases hsc : s c <;> simp_all
      have : keep t (t.setLowerBound v c) = t.putLo c v := by simp [Table.setLowerBound, hrows, hc, keep]
      rw [this]
      have hf : BoundsFrame t (t.putLo c v) := by
        simpa using boundsFrame_write (BoundsFrame.refl t) false hk hc v
      exact ⟨hf.1, rel_of_boundsFrame h hf⟩
    · have : keep t (t.setLowerBound v c) = t := by simp [Table.setLowerBound, hrows, hc, keep]
      rw [this]; exact ⟨rfl, h⟩
  | setUpperBound v c =>
    simp only [applyOp, specStep]
    by_cases hc : c < 2 ^ t.n
    · have hs : (s c).isNone = true := by
        have : ¬ 2 ^ t.n ≤ c := by omega
        simpa [Op.admissible, this] using hadm
      have hk : t.known c = false := by
        rw [(h c hc).1]; cases hsc : s c <;> simp_all
      have : keep t (t.setUpperBound v c) = t.putHi c v := by simp [Table.setUpperBound, hrows, hc, keep]
      rw [this]
      have hf : BoundsFrame t (t.putHi c v) := by
        simpa using boundsFrame_write (BoundsFrame.refl t) true hk hc v
      exact ⟨hf.1, rel_of_boundsFrame h hf⟩
    · have : keep t (t.setUpperBound v c) = t := by simp [Table.setUpperBound, hrows, hc, keep]
      rw [this]; exact ⟨rfl, h⟩

/-! ### histories -/

theorem run_nil [Zero α] (t : Table α) : run t [] = t := rfl
theorem run_cons [Zero α] (t : Table α) (op : Op α) (ops : List (Op α)) :
    run t (op :: ops) = run (applyOp t op) ops := rfl
theorem specRun_cons [Zero α] (n : Nat) (s : Spec α) (op : Op α) (ops : List (Op α)) :
    specRun n s (op :: ops) = specRun n (specStep n s op) ops := rfl

/-- **Refinement, every history**: related states stay related along every admissible history. -/
theorem refines_run [Zero α] : ∀ (ops : List (Op α)) {t : Table α} {s : Spec α}, Rel t s →
    admissibleHist t.n s ops = true →
    (run t ops).n = t.n ∧ Rel (run t ops) (specRun t.n s ops)
  | [], _, _, h, _ => ⟨rfl, h⟩
  | op :: ops, t, s, h, hadm => by
    simp only [admissibleHist, Bool.and_eq_true] at hadm
    obtain ⟨hn, hr⟩ := refines h op hadm.1
    have ih := refines_run ops hr (by rw [hn]; exact hadm.2)
    rw [hn] at ih
    exact ih

/-- the history of a new game on `n` players -/
def game [Zero α] (n : Nat) (ops : List (Op α)) : Table α := run (Table.init n) ops

/-- what the history says is known, and with which value -/
def knownSpec [Zero α] (n : Nat) (ops : List (Op α)) : Spec α := specRun n specInit ops

theorem game_rel [Zero α] (n : Nat) (ops : List (Op α)) (hadm : admissibleHist n (specInit (α := α)) ops = true) :
    (game n ops).n = n ∧ Rel (game n ops) (knownSpec n ops) :=
  refines_run ops (rel_init n) hadm

/-- **known ⇔ history**: after any history of public value operations on a new game a coalition is known
    iff the history (set / revealed and not since unset / bulk-reset: `knownSpec`) says so. -/
theorem known_iff_history [Zero α] (n : Nat) (ops : List (Op α))
    (hadm : admissibleHist n (specInit (α := α)) ops = true) (c : Nat) (hc : c < 2 ^ n) :
    (game n ops).known c = true ↔ (knownSpec n ops c).isSome = true := by
  obtain ⟨hn, hr⟩ := game_rel n ops hadm
  rw [(hr c (by rw [hn]; exact hc)).1]

/-- **a known coalition has lower = upper = its value** (the value the history gave it last) -/
theorem known_has_value [Zero α] (n : Nat) (ops : List (Op α))
    (hadm : admissibleHist n (specInit (α := α)) ops = true) (c : Nat) (hc : c < 2 ^ n)
    (hk : (game n ops).known c = true) :
    ∃ v, knownSpec n ops c = some v ∧ (game n ops).lo c = v ∧ (game n ops).hi c = v := by
  obtain ⟨hn, hr⟩ := game_rel n ops hadm
  obtain ⟨h1, h2⟩ := hr c (by rw [hn]; exact hc)
  rw [h1] at hk
  obtain ⟨v, hv⟩ := Option.isSome_iff_exists.mp hk
  exact ⟨v, hv, h2 v hv⟩

/-- **bulk bound setters never alter a known coalition**: all three cells of every known row (and every flag,
    and `n`) are what they were — for every table, not only reachable ones. -/
theorem bounds_setters_keep_known (t t' : Table α) (upper : Bool) (vals : List α) (cs : Option (List Nat))
    (h : t.setBounds upper vals cs = .ok t') :
    t'.n = t.n ∧ t'.known = t.known ∧ ∀ c, t.known c = true → t'.lo c = t.lo c ∧ t'.hi c = t.hi c :=
  let hf := setBounds_frame h
  ⟨hf.1, hf.2.1, fun c hc => hf.2.2 c (Or.inl hc)⟩

/-! ### `n` and the rows outside the game -/

theorem applyOp_n [Zero α] (t : Table α) (op : Op α) : (applyOp t op).n = t.n := by
  cases op with
  | set v c => simp only [applyOp, Table.setValue]; split <;> rfl
  | unset c => simp only [applyOp, Table.unsetValue]; split <;> rfl
  | reveal v c => simp only [applyOp, Table.reveal]; split <;> [split <;> rfl; rfl]
  | unreveal c => simp only [applyOp, Table.unreveal]; split <;> [split <;> rfl; rfl]
  | setValues vals cs =>
    simp only [applyOp]
    rcases keep_cases t (t.setValues vals cs) with ⟨t', ht', hk⟩ | ⟨e, _, hk⟩
    · rw [hk]; exact (setValues_outside ht').1
    · rw [hk]
  | setKnownValues vals cs =>
    simp only [applyOp, Table.setKnownValues]
    cases hs : Table.setValues (Table.init (α := α) t.n) vals cs with
    | ok t' => exact (setValues_outside hs).1
    | error e => rfl
  | setBounds up vals cs =>
    simp only [applyOp]
    rcases keep_cases t (t.setBounds up vals cs) with ⟨t', ht', hk⟩ | ⟨e, _, hk⟩
    · rw [hk]; exact (setBounds_frame ht').1
    · rw [hk]
  | setLowerBound v c => simp only [applyOp, Table.setLowerBound]; split <;> rfl
  | setUpperBound v c => simp only [applyOp, Table.setUpperBound]; split <;> rfl

theorem run_n [Zero α] : ∀ (ops : List (Op α)) (t : Table α), (run t ops).n = t.n
  | [], _ => rfl
  | op :: ops, t => by rw [run_cons, run_n ops, applyOp_n]

def Op.isReset : Op α → Bool
  | .setKnownValues _ _ => true
  | _ => false

/-- every operation other than the bulk reset leaves the rows outside the game (ids ≥ 2^n) literally
    untouched — whether it returns or raises, admissible or not -/
theorem applyOp_outside [Zero α] (t : Table α) (op : Op α) (hop : op.isReset = false) :
    Outside t (applyOp t op) := by
  have hrows : t.rows = 2 ^ t.n := rfl
  cases op with
  | set v c =>
    simp only [applyOp, Table.setValue]
    split
    · exact outside_putValue (Outside.refl t) (by rw [← hrows]; assumption) v
    · exact Outside.refl t
  | unset c =>
    simp only [applyOp, Table.unsetValue]
    split
    · exact outside_clearRow (Outside.refl t) (by rw [← hrows]; assumption)
    · exact Outside.refl t
  | reveal v c =>
    simp only [applyOp, Table.reveal]
    split
    · split
      · exact Outside.refl t
      · exact outside_putValue (Outside.refl t) (by rw [← hrows]; assumption) v
    · exact Outside.refl t
  | unreveal c =>
    simp only [applyOp, Table.unreveal]
    split
    · split
      · exact outside_clearRow (Outside.refl t) (by rw [← hrows]; assumption)
      · exact Outside.refl t
    · exact Outside.refl t
  | setValues vals cs =>
    simp only [applyOp]
    rcases keep_cases t (t.setValues vals cs) with ⟨t', ht', hk⟩ | ⟨e, _, hk⟩
    · rw [hk]; exact setValues_outside ht'
    · rw [hk]; exact Outside.refl t
  | setKnownValues vals cs => cases hop
  | setBounds up vals cs =>
    simp only [applyOp]
    rcases keep_cases t (t.setBounds up vals cs) with ⟨t', ht', hk⟩ | ⟨e, _, hk⟩
    · rw [hk]; exact (setBounds_frame ht').outside
    · rw [hk]; exact Outside.refl t
  | setLowerBound v c =>
    simp only [applyOp, Table.setLowerBound]
    split
    · refine ⟨rfl, fun d hd => ?_⟩
      have hne : d ≠ c := by have : c < 2 ^ t.n := by rw [← hrows]; assumption
                             omega
      simp [Table.putLo, keep, hne]
    · exact Outside.refl t
  | setUpperBound v c =>
    simp only [applyOp, Table.setUpperBound]
    split
    · refine ⟨rfl, fun d hd => ?_⟩
      have hne : d ≠ c := by have : c < 2 ^ t.n := by rw [← hrows]; assumption
                             omega
      simp [Table.putHi, keep, hne]
    · exact Outside.refl t

/-- rows outside the game are blank: unknown, both cells 0 (what `_init_values` leaves, functionally) -/
def Blank [Zero α] (t : Table α) : Prop :=
  ∀ c, 2 ^ t.n ≤ c → t.known c = false ∧ t.lo c = 0 ∧ t.hi c = 0

theorem blank_init [Zero α] (n : Nat) : Blank (Table.init (α := α) n) := by
  intro c hc
  have : c ≠ 0 := by have := Nat.two_pow_pos n; simp only [Table.init] at hc; omega
  simp [Table.init, this]

theorem blank_of_outside [Zero α] {t t' : Table α} (hb : Blank t) (ho : Outside t t') : Blank t' := by
  intro c hc
  rw [ho.1] at hc
  obtain ⟨h1, h2, h3⟩ := ho.2 c hc
  obtain ⟨b1, b2, b3⟩ := hb c hc
  exact ⟨by rw [h1, b1], by rw [h2, b2], by rw [h3, b3]⟩

/-- no operation ever writes a row outside the game: `n` never changes and ids ≥ 2^n stay blank -/
theorem applyOp_blank [Zero α] {t : Table α} (hb : Blank t) (op : Op α) : Blank (applyOp t op) := by
  cases hop : op.isReset
  · exact blank_of_outside hb (applyOp_outside t op hop)
  · cases op with
    | setKnownValues vals cs =>
      simp only [applyOp, Table.setKnownValues]
      cases hs : Table.setValues (Table.init (α := α) t.n) vals cs with
      | ok t' => exact blank_of_outside (blank_init t.n) (setValues_outside hs)
      | error e => exact blank_init t.n
    | _ => cases hop

theorem game_outside [Zero α] (n : Nat) (ops : List (Op α)) :
    (game n ops).n = n ∧ ∀ c, 2 ^ n ≤ c →
      (game n ops).known c = false ∧ (game n ops).lo c = 0 ∧ (game n ops).hi c = 0 := by
  have hn : (game (α := α) n ops).n = n := run_n ops _
  have hb : Blank (game (α := α) n ops) := by
    unfold game
    generalize hT : Table.init (α := α) n = t0
    have hb0 : Blank t0 := hT ▸ blank_init n
    clear hT hn
    induction ops generalizing t0 with
    | nil => exact hb0
    | cons op ops ih => exact ih _ (applyOp_blank hb0 op)
  exact ⟨hn, fun c hc => hb c (by rw [hn]; exact hc)⟩

/-! ### getters: the value of an unknown coalition is never returned as a value -/

theorem spec_of_known {t : Table α} {s : Spec α} (h : Rel t s) {c : Nat} (hc : c < 2 ^ t.n)
    (hk : t.known c = true) : s c = some (t.lo c) ∧ s c = some (t.hi c) := by
  obtain ⟨h1, h2⟩ := h c hc
  rw [h1] at hk
  obtain ⟨v, hv⟩ := Option.isSome_iff_exists.mp hk
  obtain ⟨hl, hh⟩ := h2 v hv
  rw [hl, hh]; exact ⟨hv, hv⟩

theorem spec_of_unknown {t : Table α} {s : Spec α} (h : Rel t s) {c : Nat} (hc : c < 2 ^ t.n)
    (hk : t.known c = false) : s c = none := by
  have := (h c hc).1
  rw [hk] at this
  cases hs : s c with
  | none => rfl
  | some v => rw [hs] at this; cases this

/-- `get_value`: the spec's value for a known coalition, `ValueError` for an unknown one, `IndexError`
    outside the game — never a number for an unknown coalition -/
theorem getValue_spec {t : Table α} {s : Spec α} (h : Rel t s) (c : Nat) :
    t.getValue c =
      if c < 2 ^ t.n then (match s c with | some v => .ok v | none => .error .value) else .error .index := by
  have hrows : t.rows = 2 ^ t.n := rfl
  by_cases hc : c < 2 ^ t.n
  · cases hk : t.known c
    · simp [Table.getValue, hrows, hc, hk, spec_of_unknown h hc hk]
    · simp [Table.getValue, hrows, hc, hk, (spec_of_known h hc hk).1]
  · simp [Table.getValue, hrows, hc]

/-- `get_known_value`: exactly the spec (`None` for an unknown coalition) -/
theorem getKnownValue_spec {t : Table α} {s : Spec α} (h : Rel t s) (c : Nat) :
    t.getKnownValue c = if c < 2 ^ t.n then .ok (s c) else .error .index := by
  have hrows : t.rows = 2 ^ t.n := rfl
  by_cases hc : c < 2 ^ t.n
  · cases hk : t.known c
    · simp [Table.getKnownValue, hrows, hc, hk, spec_of_unknown h hc hk]
    · simp [Table.getKnownValue, hrows, hc, hk, (spec_of_known h hc hk).1]
  · simp [Table.getKnownValue, hrows, hc]

/-- `get_known_values()`: the spec, row by row (NaN = `none` at unknown coalitions) -/
theorem getKnownValues_spec {t : Table α} {s : Spec α} (h : Rel t s) :
    t.getKnownValues = (List.range (2 ^ t.n)).map s := by
  simp only [Table.getKnownValues, Table.rows]
  apply List.map_congr_left
  intro c hc
  have hc' : c < 2 ^ t.n := List.mem_range.mp hc
  cases hk : t.known c
  · simp [spec_of_unknown h hc' hk]
  · simp [(spec_of_known h hc' hk).2]

/-- the shared core of `get_values`: numbers come back iff every requested coalition is known in the spec,
    and then they are the spec's values -/
theorem getValuesList_ok_iff {t : Table α} {s : Spec α} (h : Rel t s) (l : List Nat)
    (hl : ∀ c ∈ l, c < 2 ^ t.n) (vs : List α) :
    (if l.all t.known = true then Except.ok (l.map t.hi) else Except.error Err.value) = Except.ok vs ↔
      l.map s = vs.map some := by
  by_cases hall : l.all t.known = true
  · rw [if_pos hall]
    have hk : ∀ c ∈ l, t.known c = true := List.all_eq_true.mp hall
    have hmap : l.map s = (l.map t.hi).map some := by
      rw [List.map_map]
      exact List.map_congr_left fun c hc => (spec_of_known h (hl c hc) (hk c hc)).2
    rw [hmap]
    constructor
    · intro heq; injection heq with heq; rw [heq]
    · intro heq
      rw [(List.map_inj_right (fun x y hxy => Option.some.inj hxy)).mp heq]
  · rw [if_neg hall]
    constructor
    · intro heq; cases heq
    · intro heq
      exfalso
      apply hall
      rw [List.all_eq_true]
      intro c hc
      have : s c ∈ vs.map some := heq ▸ List.mem_map_of_mem hc
      obtain ⟨v, _, hv⟩ := List.mem_map.mp this
      cases hk : t.known c
      · rw [spec_of_unknown h (hl c hc) hk] at hv; cases hv
      · rfl

/-- `get_values(coalitions)` -/
theorem getValues_some_spec {t : Table α} {s : Spec α} (h : Rel t s) (ids : List Nat)
    (hl : ∀ c ∈ ids, c < 2 ^ t.n) (vs : List α) :
    t.getValues (some ids) = .ok vs ↔ ids.map s = vs.map some := by
  have hall : ids.all (· < t.rows) = true := by
    rw [List.all_eq_true]; intro c hc; exact decide_eq_true (hl c hc)
  simp only [Table.getValues]
  rw [if_pos hall]
  exact getValuesList_ok_iff h ids hl vs

/-- an unknown coalition among the requested ones: `ValueError`, no numbers -/
theorem getValues_some_unknown {t : Table α} {s : Spec α} (h : Rel t s) (ids : List Nat)
    (hl : ∀ c ∈ ids, c < 2 ^ t.n) (c : Nat) (hc : c ∈ ids) (hs : s c = none) :
    t.getValues (some ids) = .error .value := by
  have hall : ids.all (· < t.rows) = true := by
    rw [List.all_eq_true]; intro c hc; exact decide_eq_true (hl c hc)
  have hk : ¬ ids.all t.known = true := by
    intro hk
    have := (spec_of_known h (hl c hc) (List.all_eq_true.mp hk c hc)).1
    rw [hs] at this; cases this
  simp only [Table.getValues]
  rw [if_pos hall, if_neg hk]

/-- `get_values()` of the whole game -/
theorem getValues_none_spec {t : Table α} {s : Spec α} (h : Rel t s) (vs : List α) :
    t.getValues none = .ok vs ↔ (List.range (2 ^ t.n)).map s = vs.map some := by
  simp only [Table.getValues]
  exact getValuesList_ok_iff h (List.range t.rows) (fun c hc => List.mem_range.mp hc) vs

theorem getValues_none_unknown {t : Table α} {s : Spec α} (h : Rel t s) (c : Nat) (hc : c < 2 ^ t.n)
    (hs : s c = none) : t.getValues none = .error .value := by
  have hk : ¬ (List.range t.rows).all t.known = true := by
    intro hk
    have := (spec_of_known h hc (List.all_eq_true.mp hk c (List.mem_range.mpr hc))).1
    rw [hs] at this; cases this
  simp only [Table.getValues]
  rw [if_neg hk]

/-! ### negation commutes with the spec -/

/-- the negated game knows the same coalitions, with negated values -/
theorem rel_neg [Neg α] {t : Table α} {s : Spec α} (h : Rel t s) :
    Rel t.neg (fun c => (s c).map Neg.neg) := by
  intro c hc
  obtain ⟨h1, h2⟩ := h c hc
  refine ⟨by simp only [Option.isSome_map]; exact h1, fun v hv => ?_⟩
  obtain ⟨w, hw, rfl⟩ := Option.map_eq_some_iff.mp hv
  obtain ⟨hl, hh⟩ := h2 w hw
  exact ⟨by show - t.hi c = - w; rw [hh], by show - t.lo c = - w; rw [hl]⟩

/-! ### the spec in the property's words -/

section words
variable [Zero α] (n : Nat) (s : Spec α)

/-- set: the coalition is known with that value; nobody else changes -/
theorem specStep_set_same {c : Nat} (hc : c < 2 ^ n) (v : α) : specStep n s (.set v c) c = some v := by
  simp [specStep, hc, Spec.put]
theorem specStep_set_other {c d : Nat} (h : d ≠ c) (v : α) : specStep n s (.set v c) d = s d := by
  simp only [specStep]; split <;> simp [Spec.put, h]
/-- unset: the coalition is unknown; nobody else changes -/
theorem specStep_unset_same {c : Nat} (hc : c < 2 ^ n) : specStep n s (.unset c) c = none := by
  simp [specStep, hc, Spec.put]
theorem specStep_unset_other {c d : Nat} (h : d ≠ c) : specStep n s (.unset c) d = s d := by
  simp only [specStep]; split <;> simp [Spec.put, h]
/-- reveal of an unknown coalition sets it; reveal of a known one raises and changes nothing -/
theorem specStep_reveal_unknown {c : Nat} (hc : c < 2 ^ n) (hs : s c = none) (v : α) :
    specStep n s (.reveal v c) c = some v := by
  simp [specStep, hc, hs, Spec.put]
theorem specStep_reveal_known {c : Nat} (hs : (s c).isSome = true) (v : α) : specStep n s (.reveal v c) = s := by
  simp only [specStep, hs]; split <;> rfl
/-- un-reveal of a known coalition forgets it; un-reveal of an unknown one raises and changes nothing -/
theorem specStep_unreveal_known {c : Nat} (hc : c < 2 ^ n) (hs : (s c).isSome = true) :
    specStep n s (.unreveal c) c = none := by
  simp [specStep, hc, hs, Spec.put]
theorem specStep_unreveal_unknown {c : Nat} (hs : s c = none) : specStep n s (.unreveal c) = s := by
  simp only [specStep, hs]; split <;> rfl
/-- bound writes never change what is known -/
theorem specStep_bounds (up : Bool) (vals : List α) (cs : Option (List Nat)) :
    specStep n s (.setBounds up vals cs) = s := rfl
theorem specStep_scalar_bounds (v : α) (c : Nat) :
    specStep n s (.setLowerBound v c) = s ∧ specStep n s (.setUpperBound v c) = s := ⟨rfl, rfl⟩
/-- the bulk reset forgets the whole past: it is the bulk set applied to a new game (also when it raises) -/
theorem specStep_reset (vals : List α) (cs : Option (List Nat)) :
    specStep n s (.setKnownValues vals cs) = specStep n specInit (.setValues vals cs) := rfl
/-- bulk set of the whole game: every coalition becomes known -/
theorem specStep_setAll {vals : List α} (hlen : vals.length = 2 ^ n) {c : Nat} (hc : c < 2 ^ n) :
    specStep n s (.setValues vals none) c = vals[c]? := by
  simp [specStep, specSetValues, hlen, hc]
/-- listed bulk set: a coalition that is not listed keeps its state -/
theorem specStep_setListed_other (vals : List α) (ids : List Nat) {d : Nat} (hd : d ∉ ids) :
    specStep n s (.setValues vals (some ids)) d = s d := by
  simp only [specStep, specSetValues]
  split
  · rfl
  · split
    · simp only [Option.getD_some]
      have hd' : ∀ p ∈ (ids.take vals.length).zip vals, d ≠ p.1 := by
        intro p hp heq
        exact hd (heq ▸ List.mem_of_mem_take (List.of_mem_zip hp).1)
      exact foldl_inv (fun s' : Spec α => s' d = s d) _ _
        (fun s' p hp hs' => by simp only [Spec.put, if_neg (hd' p hp)]; exact hs') s rfl
    · rfl

end words

/-! ### a concrete history (2 players) -/

deriving instance DecidableEq for Except

/-- set, reveal, a raising reveal, a bulk bound write, a scalar bound write on an unknown row, unset,
    a listed bulk set with a repeated coalition and a surplus id, a raising bulk set (short iterator),
    an out-of-range set -/
def demo : List (Op Int) :=
  [.set 5 3, .reveal 2 1, .reveal 9 1, .setBounds true [7, 7, 7, 7] none, .setLowerBound 1 2, .unset 3,
   .setValues [4, 6] (some [2, 2, 1]), .setValues [1, 1] (some [3]), .set 8 4]

example : admissibleHist 2 specInit demo = true := by decide
example : (List.range 4).map (knownSpec 2 demo) = [some 0, some 2, some 6, none] := by decide
example : (game 2 demo).getKnownValues = [some 0, some 2, some 6, none] := by decide
example : (game 2 demo).getLowerBounds = [0, 2, 6, 0] ∧ (game 2 demo).getUpperBounds = [0, 2, 6, 0] := by decide
example : (game 2 demo).getValue 3 = .error .value ∧ (game 2 demo).getValue 2 = .ok 6 := by decide
/-- the bulk reset forgets everything, also when it raises (index 9 is outside the game) -/
example : (game 2 (demo ++ [.setKnownValues [1] (some [9])])).getKnownValues = [some 0, none, none, none] := by
  decide
example : (game 2 (demo ++ [.setKnownValues [1, 3] (some [3, 1])])).getKnownValues
    = [some 0, some 3, none, some 1] := by decide
/-- the side condition matters: a scalar bound write on a known row breaks `lower = upper` -/
example : (game 2 [.set 5 3, .setLowerBound 1 3]).getLowerBounds = [0, 0, 0, 1] ∧
    (game 2 [.set 5 3, .setLowerBound 1 3]).getUpperBounds = [0, 0, 0, 5] ∧
    admissibleHist 2 specInit ([.set 5 3, .setLowerBound 1 3] : List (Op Int)) = false := by decide

end ICG.C17
