/-
  Property C17 — an incomplete game object is a faithful map coalition ↦ (known?, lower, upper).
  Theorems about ICG.Model.Table (the model of incomplete_cooperative/game.py).
-/
import ICG.Model.Table
import Mathlib.Algebra.Group.Defs
import Mathlib.Algebra.Group.Basic

namespace ICG.C17
open ICG Table

variable {α : Type}

/-- a fresh table knows exactly the empty coalition, with value 0 -/
theorem fresh_known [Zero α] (n c : Nat) : (Table.init (α := α) n).known c = true ↔ c = 0 := by
  simp [Table.init]

theorem fresh_value [Zero α] (n : Nat) :
    (Table.init (α := α) n).lo 0 = 0 ∧ (Table.init (α := α) n).hi 0 = 0 := by
  simp [Table.init]

example : (Table.init (α := Int) 3).getKnownValues = [some 0, none, none, none, none, none, none, none] := by
  decide

/-- negation keeps knowledge, swaps and negates the bounds -/
theorem neg_known [Neg α] (t : Table α) : t.neg.known = t.known ∧ t.neg.n = t.n := ⟨rfl, rfl⟩

theorem neg_bounds [Neg α] (t : Table α) (c : Nat) :
    t.neg.lo c = - t.hi c ∧ t.neg.hi c = - t.lo c := ⟨rfl, rfl⟩

/-- negation is an involution -/
theorem neg_neg [InvolutiveNeg α] (t : Table α) : t.neg.neg = t := by
  cases t
  simp [Table.neg]

example : ((Table.init (α := Int) 2).putValue 3 5).neg.neg.lo 3 = 5 := by decide

end ICG.C17
