/-
  Property C17, the remaining public operations of `IncompleteCooperativeGame`: `__add__` and `__eq__`
  (ICG.Model.Table `add`, `eqv`).  They are not named in the property's text, but they are public value
  operations of the same object, they are used by the generators (sums of games) and by the tests'
  comparisons, and the faithful-map reading of C17 extends to them:

  * `add_ok_iff`, `add_spec`, `rel_add` : the sum exists exactly for two fully known games of one size, is
    fully known, and is the faithful map of the pointwise sum; nothing outside the table is touched;
  * `add_comm_rows`, `neg_add_rows`     : commutative; negation distributes over it;
  * `eqv_refl`, `eqv_symm`, `eqv_true_iff`, `eqv_error_iff` : `==` is reflexive and symmetric, is `True` for
    two games of one size exactly when the three columns agree on every row, and raises exactly for two
    different non-zero player counts (numpy broadcasts the one-row table of a 0-player game).
  * `eqv_of_rel` : two games that are faithful maps of the same spec and were never given explicit bounds
    for unknown rows compare equal iff their rows agree — in particular a copy equals its original.
-/
import ICG.Props.C17

set_option linter.unusedSectionVars false

namespace ICG.C17
open ICG Table

variable {α : Type}

theorem full_iff (t : Table α) : t.full = true ↔ ∀ c, c < 2 ^ t.n → t.known c = true := by
  simp [Table.full, Table.rows, List.all_eq_true]

/-! ### `__add__` -/

section add
variable [Add α]

/-- **C17_add_defined**: `a + b` succeeds exactly on two fully known games with the same number of players
    (AssertionError otherwise). -/
theorem add_ok_iff (t u : Table α) :
    (∃ r, t.add u = .ok r) ↔ (t.full = true ∧ u.full = true ∧ t.n = u.n) := by
  unfold Table.add
  by_cases h : (t.full && u.full && t.n == u.n) = true
  · simp only [h, if_true]
    simp only [Bool.and_eq_true, beq_iff_eq] at h
    exact ⟨fun _ => ⟨h.1.1, h.1.2, h.2⟩, fun _ => ⟨_, rfl⟩⟩
  · simp only [h]
    simp only [Bool.and_eq_true, beq_iff_eq] at h
    constructor
    · rintro ⟨r, hr⟩; cases hr
    · rintro ⟨a, b, c⟩; exact absurd ⟨⟨a, b⟩, c⟩ h

theorem add_err (t u : Table α) (e : Err) (h : t.add u = .error e) : e = .assert := by
  unfold Table.add at h
  split at h
  · cases h
  · cases h; rfl

/-- **C17_add**: the sum keeps size and knowledge (so it is fully known), adds both bound columns row by
    row, and leaves everything outside the table alone. -/
theorem add_spec (t u r : Table α) (h : t.add u = .ok r) :
    r.n = t.n ∧ r.known = t.known ∧ r.full = true ∧
    (∀ c, c < 2 ^ t.n → r.lo c = t.lo c + u.lo c ∧ r.hi c = t.hi c + u.hi c) ∧
    (∀ c, 2 ^ t.n ≤ c → r.lo c = t.lo c ∧ r.hi c = t.hi c) := by
  have hok := (add_ok_iff t u).1 ⟨r, h⟩
  unfold Table.add at h
  split at h
  · cases h
    refine ⟨rfl, rfl, hok.1, ?_, ?_⟩
    · intro c hc
      have : c < t.rows := hc
      simp [this]
    · intro c hc
      have : ¬ c < t.rows := by unfold Table.rows; omega
      simp [this]
  · cases h

/-- the sum of two faithful maps is the faithful map of the pointwise sum -/
theorem rel_add {t u r : Table α} {s s' : Spec α} (ht : Rel t s) (hu : Rel u s') (h : t.add u = .ok r) :
    Rel r (fun c => match s c, s' c with
                    | some a, some b => some (a + b)
                    | _, _ => none) := by
  obtain ⟨hn, hk, _, hrow, _⟩ := add_spec t u r h
  obtain ⟨hft, hfu, hnn⟩ := (add_ok_iff t u).1 ⟨r, h⟩
  intro c hc
  rw [hn] at hc
  obtain ⟨t1, t2⟩ := ht c hc
  obtain ⟨u1, u2⟩ := hu c (hnn ▸ hc)
  have tk := (full_iff t).1 hft c hc
  have uk := (full_iff u).1 hfu c (hnn ▸ hc)
  rw [tk] at t1
  rw [uk] at u1
  obtain ⟨a, ha⟩ := Option.isSome_iff_exists.mp t1.symm
  obtain ⟨b, hb⟩ := Option.isSome_iff_exists.mp u1.symm
  obtain ⟨ta, tb⟩ := t2 a ha
  obtain ⟨ua, ub⟩ := u2 b hb
  obtain ⟨rl, rh⟩ := hrow c hc
  refine ⟨by rw [hk, tk]; simp [ha, hb], fun v hv => ?_⟩
  simp only [ha, hb, Option.some.injEq] at hv
  subst hv
  exact ⟨by rw [rl, ta, ua], by rw [rh, tb, ub]⟩

end add

/-- commutativity, on the rows of the game -/
theorem add_comm_rows [AddCommMagma α] (t u r : Table α) (h : t.add u = .ok r) :
    ∃ r', u.add t = .ok r' ∧ r'.n = r.n ∧
      ∀ c, c < 2 ^ r.n → r'.known c = r.known c ∧ r'.lo c = r.lo c ∧ r'.hi c = r.hi c := by
  obtain ⟨hft, hfu, hnn⟩ := (add_ok_iff t u).1 ⟨r, h⟩
  obtain ⟨r', h'⟩ := (add_ok_iff u t).2 ⟨hfu, hft, hnn.symm⟩
  obtain ⟨a1, a2, _, a4, _⟩ := add_spec t u r h
  obtain ⟨b1, b2, _, b4, _⟩ := add_spec u t r' h'
  refine ⟨r', h', by rw [b1, a1, hnn], fun c hc => ?_⟩
  rw [a1] at hc
  have hc' : c < 2 ^ u.n := hnn ▸ hc
  refine ⟨?_, ?_, ?_⟩
  · rw [a2, b2, (full_iff t).1 hft c hc, (full_iff u).1 hfu c hc']
  · rw [(a4 c hc).1, (b4 c hc').1, add_comm]
  · rw [(a4 c hc).2, (b4 c hc').2, add_comm]

/-- negation distributes over the sum, on the rows of the game -/
theorem neg_add_rows [AddCommGroup α] (t u r : Table α) (h : t.add u = .ok r) :
    ∃ r', t.neg.add u.neg = .ok r' ∧
      ∀ c, c < 2 ^ t.n → r'.lo c = r.neg.lo c ∧ r'.hi c = r.neg.hi c := by
  obtain ⟨hft, hfu, hnn⟩ := (add_ok_iff t u).1 ⟨r, h⟩
  have hft' : t.neg.full = true := hft
  have hfu' : u.neg.full = true := hfu
  obtain ⟨r', h'⟩ := (add_ok_iff t.neg u.neg).2 ⟨hft', hfu', hnn⟩
  obtain ⟨_, _, _, a4, _⟩ := add_spec t u r h
  obtain ⟨_, _, _, b4, _⟩ := add_spec t.neg u.neg r' h'
  refine ⟨r', h', fun c hc => ?_⟩
  have := b4 c hc
  refine ⟨?_, ?_⟩
  · rw [this.1]; show - t.hi c + - u.hi c = - r.hi c; rw [(a4 c hc).2, neg_add]
  · rw [this.2]; show - t.lo c + - u.lo c = - r.lo c; rw [(a4 c hc).1, neg_add]

/-! ### `__eq__` -/

section eqv
variable [DecidableEq α]

theorem rowEq_iff (t u : Table α) (c d : Nat) :
    rowEq t u c d = true ↔ t.known c = u.known d ∧ t.lo c = u.lo d ∧ t.hi c = u.hi d := by
  simp [rowEq, and_assoc]

/-- **C17_eq_refl**: a game equals itself (hence a copy equals its original: `copy` is the identity of the
    model and the harness compares the real copy). -/
theorem eqv_refl (t : Table α) : t.eqv t = .ok true := by
  unfold Table.eqv
  simp only [if_true]
  congr 1
  simp [List.all_eq_true, rowEq_iff]

theorem two_pow_eq_one_iff (n : Nat) : 2 ^ n = 1 ↔ n = 0 := by
  constructor
  · intro h
    rcases Nat.eq_zero_or_pos n with h0 | h0
    · exact h0
    · have : 2 ^ 1 ≤ 2 ^ n := Nat.pow_le_pow_right (by omega) h0
      omega
  · rintro rfl; rfl

theorem two_pow_inj {a b : Nat} (h : 2 ^ a = 2 ^ b) : a = b := by
  rcases Nat.lt_trichotomy a b with hl | he | hg
  · have := Nat.pow_lt_pow_right (a := 2) (by omega) hl; omega
  · exact he
  · have := Nat.pow_lt_pow_right (a := 2) (by omega) hg; omega

/-- **C17_eq_symm**: `a == b` and `b == a` agree, including the raising case. -/
theorem eqv_symm (t u : Table α) : t.eqv u = u.eqv t := by
  unfold Table.eqv
  have hrow : ∀ c d, rowEq t u c d = rowEq u t d c := by
    intro c d
    rw [Bool.eq_iff_iff, rowEq_iff, rowEq_iff]
    constructor <;> rintro ⟨a, b, c⟩ <;> exact ⟨a.symm, b.symm, c.symm⟩
  by_cases h : t.rows = u.rows
  · simp only [h, if_true]
    congr 1
    apply List.all_congr rfl
    intro c
    exact hrow c c
  · have h' : ¬ u.rows = t.rows := fun e => h e.symm
    simp only [h, h', if_false]
    by_cases ht : t.rows = 1
    · have hu : ¬ u.rows = 1 := fun e => h (by rw [ht, e])
      simp only [ht, hu, if_true, if_false]
      congr 1
      apply List.all_congr rfl
      intro c
      exact hrow 0 c
    · simp only [ht, if_false]
      by_cases hu : u.rows = 1
      · simp only [hu, if_true]
        congr 1
        apply List.all_congr rfl
        intro c
        exact hrow c 0
      · simp only [hu, if_false]

/-- **C17_eq**: for two games of one size `==` is `True` exactly when known flag, lower and upper bound
    agree on every row. -/
theorem eqv_true_iff (t u : Table α) (hn : t.n = u.n) :
    t.eqv u = .ok true ↔
      ∀ c, c < 2 ^ t.n → t.known c = u.known c ∧ t.lo c = u.lo c ∧ t.hi c = u.hi c := by
  unfold Table.eqv
  have : t.rows = u.rows := by unfold Table.rows; rw [hn]
  simp only [this, if_true]
  constructor
  · intro h c hc
    have h' : (List.range u.rows).all (fun c => rowEq t u c c) = true := by injection h
    rw [List.all_eq_true] at h'
    exact (rowEq_iff t u c c).1 (h' c (List.mem_range.mpr (by rw [← this]; exact hc)))
  · intro h
    congr 1
    rw [List.all_eq_true]
    intro c hc
    exact (rowEq_iff t u c c).2 (h c (by rw [List.mem_range, ← this] at hc; exact hc))

/-- `==` raises (ValueError from numpy's broadcasting) exactly for two different, non-zero player counts;
    it never raises anything else. -/
theorem eqv_error_iff (t u : Table α) (e : Err) :
    t.eqv u = .error e ↔ (e = .value ∧ t.n ≠ u.n ∧ t.n ≠ 0 ∧ u.n ≠ 0) := by
  unfold Table.eqv Table.rows
  by_cases h : t.n = u.n
  · simp [h]
  · have h2 : ¬ 2 ^ t.n = 2 ^ u.n := fun e => h (two_pow_inj e)
    simp only [h2, if_false, two_pow_eq_one_iff]
    by_cases ht : t.n = 0
    · simp [ht]
    · by_cases hu : u.n = 0
      · simp [ht, hu]
      · simp only [ht, hu, if_false]
        constructor
        · intro he; cases he; exact ⟨rfl, h, ht, hu⟩
        · rintro ⟨rfl, _⟩; rfl

/-- two faithful maps of the SAME spec whose unknown rows were never given explicit bounds (they hold the
    blank 0/0 the class writes) compare equal: what `==` sees is determined by the abstract map. -/
theorem eqv_of_rel [Zero α] {t u : Table α} {s : Spec α} (hn : t.n = u.n) (ht : Rel t s) (hu : Rel u s)
    (hbt : ∀ c, c < 2 ^ t.n → t.known c = false → t.lo c = 0 ∧ t.hi c = 0)
    (hbu : ∀ c, c < 2 ^ u.n → u.known c = false → u.lo c = 0 ∧ u.hi c = 0) :
    t.eqv u = .ok true := by
  rw [eqv_true_iff t u hn]
  intro c hc
  have hc' : c < 2 ^ u.n := hn ▸ hc
  obtain ⟨t1, t2⟩ := ht c hc
  obtain ⟨u1, u2⟩ := hu c hc'
  refine ⟨by rw [t1, u1], ?_⟩
  cases hs : s c with
  | none =>
    have tk : t.known c = false := by rw [t1, hs]; rfl
    have uk : u.known c = false := by rw [u1, hs]; rfl
    obtain ⟨a, b⟩ := hbt c hc tk
    obtain ⟨a', b'⟩ := hbu c hc' uk
    exact ⟨by rw [a, a'], by rw [b, b']⟩
  | some v =>
    obtain ⟨a, b⟩ := t2 v hs
    obtain ⟨a', b'⟩ := u2 v hs
    exact ⟨by rw [a, a'], by rw [b, b']⟩

end eqv

/-! ### the hypotheses are satisfiable (two fully known 2-player games over `Int`) -/

def exA : Table Int := { n := 2, known := fun _ => true, lo := fun c => [0, 1, 2, 4].getD c 7, hi := fun c => [0, 1, 2, 4].getD c 9 }
def exB : Table Int := { n := 2, known := fun _ => true, lo := fun c => [0, 1, 1, 3].getD c 5, hi := fun c => [0, 1, 1, 3].getD c 6 }

example : ∃ r, exA.add exB = .ok r ∧ r.getLowerBounds = [0, 2, 3, 7] ∧ r.lo 4 = 7 ∧ r.full = true := by
  refine ⟨_, rfl, ?_, ?_, ?_⟩ <;> decide

example : exA.eqv exB = .ok false ∧ exA.eqv exA = .ok true := by decide
example : exA.eqv (Table.init 3) = .error .value ∧ exA.eqv (Table.init 0) = .ok false := by decide
example : ¬ ∃ r, (Table.init 2 : Table Int).add exA = .ok r := by rw [add_ok_iff]; decide

end ICG.C17
