/-
  ICG.Props.Equivariance — equivariance theorems backing the metamorphic oracles of the differential test.

  The differential test compares the Python code with itself on transformed inputs (terminal values
  scaled by 2^-30, games scaled by a power of two, games shifted by a huge additive game).  Here the same
  statements are proved about the model functions the driver runs:

  1. REGRET (C14)      — scaling all terminal values by `c > 0` scales every cumulative regret by `c` and
                          leaves every current strategy, every cumulative strategy and every average
                          strategy unchanged; one iteration from any state, every history, plain and plus;
                          errors are preserved too (statement with `Except.map`).
  2. BOUNDS (C01–C04, C08) — positive homogeneity of `loSpec` / `upSpec` / `samB` / `samUp` and of what the
                          computers `sa`, `sac`, `sam r` return; additive shift for `loSpec` / `upSpec`,
                          `sa`, `sac`.
  3. NORMALISATION (C15) — scale invariance of `normVal`; shift invariance of `closedW`.
  4. GAPS (C05, C07)    — homogeneity of the norms of the gap vector.
-/
import ICG.Lemmas.EquivarianceCore
import ICG.Lemmas.RegretTree
import ICG.Props.C14
import ICG.Props.C15
import ICG.Props.C05
import Mathlib.Algebra.Order.Ring.Abs
import Mathlib.Algebra.Order.BigOperators.Group.Finset
import Mathlib.Algebra.BigOperators.Ring.Finset

set_option linter.unusedSectionVars false

namespace ICG.Equivariance
open ICG ICG.Regret

/-! ## 1. the regret minimiser -/

section regret
variable {α : Type} [Field α] [LinearOrder α] [IsStrictOrderedRing α]

/-- a history of `regret_min_iteration` calls: terminal values and used-action lists -/
abbrev History (α : Type) := List (List α × List (List Nat))

/-- run a history from a state (stops at the first call that raises) -/
def run (rm : RM α) (h : History α) : Except Err (RM α) :=
  h.foldlM (fun rm p => rm.iterate p.1 p.2) rm

/-- the same history with every terminal value multiplied by `c` -/
def scaleHistory (c : α) (h : History α) : History α := h.map (fun p => (p.1.map (c * ·), p.2))

/-- **regret matching is scale invariant** (the key lemma): for `c > 0` the strategy computed from the
    regret row `c • r` is the one computed from `r` — same distribution, same uniform fallback over the
    unrevealed coalitions when no regret is positive, and the same error when there is one. -/
theorem regret_matching_row_scale {c : α} (hc : 0 < c) (m : Nat) (row : List α) (used : List Nat) :
    regretMatchingRow m (row.map (c * ·)) used = regretMatchingRow m row used :=
  regretMatchingRow_scale hc m row used

/-- **(b) same current strategy at every node**, by meta-coalition id and by list of revealed coalitions -/
theorem current_strategy_scale {c : α} (hc : 0 < c) (rm : RM α) :
    (∀ mc, (scaleRM c rm).regretMatching mc = rm.regretMatching mc) ∧
    (∀ cs, (scaleRM c rm).regretMatchingOf cs = rm.regretMatchingOf cs) := by
  refine ⟨regretMatching_scale hc rm, fun cs => ?_⟩
  unfold RM.regretMatchingOf
  exact bind_congr_eq (fun mc => regretMatching_scale hc rm mc)

/-- **(c) same average strategy at every node** (it reads the cumulative strategy only) -/
theorem average_strategy_scale (c : α) (rm : RM α) (cs : List Nat) :
    (scaleRM c rm).averageStrategy cs = rm.averageStrategy cs := rfl

/-- what `scaleRM` is: regrets multiplied entrywise, every other field — cumulative strategy, iteration
    counter, tables — untouched -/
theorem scaleRM_fields (c : α) (rm : RM α) :
    (scaleRM c rm).regret = rm.regret.map (List.map (c * ·)) ∧ (scaleRM c rm).strategy = rm.strategy ∧
    (scaleRM c rm).iteration = rm.iteration ∧ (scaleRM c rm).plus = rm.plus ∧ (scaleRM c rm).n = rm.n ∧
    (scaleRM c rm).m = rm.m ∧ (scaleRM c rm).R = rm.R ∧ (scaleRM c rm).limit = rm.limit ∧
    (scaleRM c rm).rankToId = rm.rankToId ∧ (scaleRM c rm).idToRank = rm.idToRank ∧
    (scaleRM c rm).pidMap = rm.pidMap :=
  ⟨rfl, rfl, rfl, rfl, rfl, rfl, rfl, rfl, rfl, rfl, rfl⟩

/-- **one iteration is equivariant** (plain and plus, any state, any input — admissible or not): from the
    state with regrets `c • R`, the iteration with terminal values `c • t` raises exactly when the
    iteration from `R` with `t` raises (same error) and otherwise returns the state reached from `R`
    with every cumulative regret multiplied by `c` — hence the same cumulative strategy. -/
theorem iterate_equivariant {c : α} (hc : 0 < c) (rm : RM α) (t : List α) (u : List (List Nat)) :
    (scaleRM c rm).iterate (t.map (c * ·)) u = Except.map (scaleRM c) (rm.iterate t u) :=
  iterate_scale hc rm t u

/-- **every history is equivariant** (induction over the list of iterations) -/
theorem run_equivariant {c : α} (hc : 0 < c) (h : History α) (rm : RM α) :
    run (scaleRM c rm) (scaleHistory c h) = Except.map (scaleRM c) (run rm h) := by
  unfold run scaleHistory
  rw [List.foldlM_map]
  exact foldlM_map (fun s p => iterate_scale hc s p.1 p.2) h rm

/-- a freshly constructed minimiser is its own scaling (all regrets are 0) -/
theorem scaleRM_new (c : α) {p : Policy} {n limit : Nat} {plus : Bool} {rm : RM α}
    (h : RM.new (α := α) p n limit plus = .ok rm) : scaleRM c rm = rm := by
  have hn := C14.new_two_le h
  obtain ⟨_, _, _, _, _, _, _, _, _, hreg, _, _⟩ := new_spec hn h
  have : scaleRows c rm.regret = rm.regret := by rw [hreg, zeros2_scale]
  unfold scaleRM
  rw [this]

/-- **the metamorphic oracle, as a theorem**: construct a minimiser (any policy, any `n`, limit, plain or
    plus), run any history, and run the same history with all terminal values multiplied by `c > 0`.
    Either both runs raise the same error, or both return and then, in the final states `rm'`, `rm''`:
    (a) every cumulative regret of `rm''` is `c` times that of `rm'`;
    (b) the current strategy at every node is the same (by id and by revealed list);
    (c) the cumulative strategy is the same, and so is every average strategy;
    and the iteration counters agree. -/
theorem history_scale {c : α} (hc : 0 < c) {p : Policy} {n limit : Nat} {plus : Bool} {rm : RM α}
    (hnew : RM.new (α := α) p n limit plus = .ok rm) (h : History α) :
    (∀ e, run rm h = .error e → run rm (scaleHistory c h) = .error e) ∧
    (∀ rm', run rm h = .ok rm' → ∃ rm'', run rm (scaleHistory c h) = .ok rm'' ∧
      rm''.regret = rm'.regret.map (List.map (c * ·)) ∧
      (∀ mc, rm''.regretMatching mc = rm'.regretMatching mc) ∧
      (∀ cs, rm''.regretMatchingOf cs = rm'.regretMatchingOf cs) ∧
      rm''.strategy = rm'.strategy ∧
      (∀ cs, rm''.averageStrategy cs = rm'.averageStrategy cs) ∧
      rm''.iteration = rm'.iteration) := by
  have hrun := run_equivariant hc h rm
  rw [scaleRM_new c hnew] at hrun
  refine ⟨fun e he => ?_, fun rm' hok => ?_⟩
  · rw [hrun, he]; rfl
  · refine ⟨scaleRM c rm', by rw [hrun, hok]; rfl, rfl, (current_strategy_scale hc rm').1,
      (current_strategy_scale hc rm').2, rfl, fun cs => rfl, rfl⟩

/-- the same from **any** pair of states related by the scaling (not only fresh ones) -/
theorem history_scale_from {c : α} (hc : 0 < c) (rm : RM α) (h : History α) :
    (∀ e, run rm h = .error e → run (scaleRM c rm) (scaleHistory c h) = .error e) ∧
    (∀ rm', run rm h = .ok rm' → run (scaleRM c rm) (scaleHistory c h) = .ok (scaleRM c rm')) := by
  have hrun := run_equivariant hc h rm
  exact ⟨fun e he => by rw [hrun, he]; rfl, fun rm' hok => by rw [hrun, hok]; rfl⟩

/-- admissible inputs stay admissible (the hypotheses of C14's `tree_invariant` are scale invariant) -/
theorem validInput_scale {c : α} (hc : 0 < c) {rm : RM α} {t : List α} {u : List (List Nat)}
    (h : ValidInput rm t u) : ValidInput (scaleRM c rm) (t.map (c * ·)) u := by
  obtain ⟨h1, h2, h3⟩ := h
  refine ⟨h1, by simpa using h2, ?_⟩
  intro x hx
  obtain ⟨y, hy, rfl⟩ := List.mem_map.mp hx
  exact mul_nonneg hc.le (h3 y hy)

end regret

/-! ## 2. the superadditive bounds -/

section bounds_hom
variable {α : Type} [Ring α] [LinearOrder α] [IsOrderedRing α]

/-- multiplication by a non-negative constant is monotone and commutes with `+`, `-` -/
theorem ordHom_mul {k : α} (hk : 0 ≤ k) : OrdHom (fun x : α => k * x) :=
  ⟨fun _ _ h => mul_le_mul_of_nonneg_left h hk, fun a b => mul_add k a b, fun a b => mul_sub k a b⟩

/-- **(a) positive homogeneity of the specification** (`k ≥ 0` suffices; every knowledge, every
    coalition — no minimal information needed): the bounds of `(K, k • v)` are `k •` the bounds of `(K, v)`. -/
theorem bounds_homogeneous {k : α} (hk : 0 ≤ k) (n : Nat) (known : Nat → Bool) (v : Nat → α) (c : Nat) :
    loSpec known (fun c => k * v c) c = k * loSpec known v c ∧
    upSpec n known (fun c => k * v c) c = k * upSpec n known v c :=
  ⟨loSpec_hom (ordHom_mul hk) known v c, upSpec_hom (ordHom_mul hk) n known v c⟩

/-- … and of the specification of the SAM approximation, every number of repetitions -/
theorem sam_bounds_homogeneous {k : α} (hk : 0 ≤ k) (n : Nat) (known : Nat → Bool) (v : Nat → α) (r c : Nat) :
    samB n known (fun c => k * v c) r c = k * samB n known v r c ∧
    samUp n known (fun c => k * v c) r c = k * samUp n known v r c :=
  ⟨samB_hom (ordHom_mul hk) n known v r c, samUp_hom (ordHom_mul hk) n known v r c⟩

end bounds_hom

section bounds_general
variable {α : Type} [Add α] [Sub α] [LinearOrder α]

/-- the table with both bound columns mapped through `f` (flags and `n` untouched) -/
def mapVals (f : α → α) (t : Table α) : Table α := mapTable (fun _ => f) t

theorem mapVals_fields (f : α → α) (t : Table α) :
    (mapVals f t).n = t.n ∧ (mapVals f t).known = t.known ∧
    (∀ c, (mapVals f t).lo c = f (t.lo c)) ∧ (∀ c, (mapVals f t).hi c = f (t.hi c)) :=
  ⟨rfl, rfl, fun _ => rfl, fun _ => rfl⟩

/-- **every registered computer (`sa`, `sac`, `sam r`) commutes with every monotone additive map**: on a
    table with the minimal information (whose known rows carry one value) the computer succeeds on the
    table and on the transformed table, and the second result is the transformed first result — all
    rows, both columns, flags included. -/
theorem run_ordHom {f : α → α} (hf : OrdHom f) (k : Computer) (t : Table α) (hmin : MinInfo t.n t.known)
    (hinv : t.Inv) : ∃ t', k.run t = .ok t' ∧ k.run (mapVals f t) = .ok (mapVals f t') := by
  apply run_mapTable k (fun _ => f) t hmin hinv
  · intro c
    cases k with
    | sa => exact loSpec_hom hf t.known t.lo c
    | sac => exact loSpec_hom hf t.known t.lo c
    | sam r => exact samB_hom hf t.n t.known t.lo r c
  · intro c
    cases k with
    | sa => exact upSpec_hom hf t.n t.known t.lo c
    | sac => exact upSpec_hom hf t.n t.known t.lo c
    | sam r => exact samUp_hom hf t.n t.known t.lo r c

end bounds_general

section bounds_hom2
variable {α : Type} [Ring α] [LinearOrder α] [IsOrderedRing α]

/-- **(a) positive homogeneity of the computers**: `sa`, `sac` and `sam r` on the table scaled by `k ≥ 0`
    return the scaled result. -/
theorem computers_homogeneous {k : α} (hk : 0 ≤ k) (t : Table α) (hmin : MinInfo t.n t.known) (hinv : t.Inv) :
    (∃ t', sa t = .ok t' ∧ sa (mapVals (k * ·) t) = .ok (mapVals (k * ·) t')) ∧
    (∃ t', sac t = .ok t' ∧ sac (mapVals (k * ·) t) = .ok (mapVals (k * ·) t')) ∧
    (∀ r, ∃ t', sam r t = .ok t' ∧ sam r (mapVals (k * ·) t) = .ok (mapVals (k * ·) t')) :=
  ⟨run_ordHom (ordHom_mul hk) .sa t hmin hinv, run_ordHom (ordHom_mul hk) .sac t hmin hinv,
   fun r => run_ordHom (ordHom_mul hk) (.sam r) t hmin hinv⟩

end bounds_hom2

section bounds_group
variable {α : Type} [AddCommGroup α] [LinearOrder α] [IsOrderedAddMonoid α]

/-- in an ordered abelian group: the natural multiples `k • x` -/
theorem ordHom_nsmul (k : ℕ) : OrdHom (fun x : α => k • x) :=
  ⟨fun _ _ h => nsmul_le_nsmul_right h k, fun a b => nsmul_add a b k, fun a b => nsmul_sub a b k⟩

/-- homogeneity for natural multiples, no multiplication on `α` needed -/
theorem bounds_nsmul (k : ℕ) (n : Nat) (known : Nat → Bool) (v : Nat → α) (c : Nat) :
    loSpec known (fun c => k • v c) c = k • loSpec known v c ∧
    upSpec n known (fun c => k • v c) c = k • upSpec n known v c :=
  ⟨loSpec_hom (ordHom_nsmul k) known v c, upSpec_hom (ordHom_nsmul k) n known v c⟩

/-- the additive game with weights `w` on the players `< n`: `a(S) = Σ_{i ∈ S, i < n} w i`; in the
    model's own terms it is `listSum ((players S).map w)` -/
abbrev addGame (n : Nat) (w : Nat → α) (c : Nat) : α := Norm.bsum n w c

theorem addGame_eq_listSum {n : Nat} (w : Nat → α) {c : Nat} (hc : c < 2 ^ n) :
    addGame n w c = listSum ((players c).map w) := (Norm.listSum_players hc w).symm

theorem addGame_singleton {n i : Nat} (w : Nat → α) (hi : i < n) : addGame n w (2 ^ i) = w i :=
  Norm.bsum_two_pow w hi

/-- **(b) additive shift of the specification**: for every knowledge and every coalition (the statement
    needs no side condition; the minimal information is needed only for the computers to run), the
    bounds of `(K, v + a)` are the bounds of `(K, v)` plus `a`, lower and upper. -/
theorem bounds_shift (n : Nat) (w : Nat → α) (m : Nat) (known : Nat → Bool) (v : Nat → α) (c : Nat) :
    loSpec known (fun c => v c + addGame n w c) c = loSpec known v c + addGame n w c ∧
    upSpec m known (fun c => v c + addGame n w c) c = upSpec m known v c + addGame n w c :=
  ⟨loSpec_shift n w known v c, upSpec_shift n w m known v c⟩

/-- the table shifted by the additive game (both columns, every row) -/
def shiftTable (n : Nat) (w : Nat → α) (t : Table α) : Table α :=
  mapTable (fun c p => p + addGame n w c) t

theorem shiftTable_fields (n : Nat) (w : Nat → α) (t : Table α) :
    (shiftTable n w t).n = t.n ∧ (shiftTable n w t).known = t.known ∧
    (∀ c, (shiftTable n w t).lo c = t.lo c + addGame n w c) ∧
    (∀ c, (shiftTable n w t).hi c = t.hi c + addGame n w c) :=
  ⟨rfl, rfl, fun _ => rfl, fun _ => rfl⟩

/-- **(b) additive shift of the exact computers**: with the minimal information (∅, singletons, grand
    coalition known) `sa` and `sac` on the shifted table return the shifted result.  (Not stated for
    `sam r`: its monotone closure takes a maximum over supersets, which a non-constant shift does not
    commute with — see `sam_shift_fails` below.) -/
theorem computers_shift (n : Nat) (w : Nat → α) (t : Table α) (hmin : MinInfo t.n t.known) (hinv : t.Inv) :
    (∃ t', sa t = .ok t' ∧ sa (shiftTable n w t) = .ok (shiftTable n w t')) ∧
    (∃ t', sac t = .ok t' ∧ sac (shiftTable n w t) = .ok (shiftTable n w t')) :=
  ⟨run_mapTable .sa _ t hmin hinv (fun c => loSpec_shift n w t.known t.lo c)
      (fun c => upSpec_shift n w t.n t.known t.lo c),
   run_mapTable .sac _ t hmin hinv (fun c => loSpec_shift n w t.known t.lo c)
      (fun c => upSpec_shift n w t.n t.known t.lo c)⟩

end bounds_group

/-! ## 3. normalisation -/

section norm
open ICG.Norm ICG.C15 Finset
variable {α : Type} [Field α] [LinearOrder α] [IsStrictOrderedRing α] [DecidableLE α] [DecidableEq α]

omit [LinearOrder α] [IsStrictOrderedRing α] [DecidableLE α] [DecidableEq α] in
/-- the subtraction phase is linear: `w(k • v) = k • w(v)`, every coalition -/
theorem closedW_scale (k : α) (v : Nat → α) (c : Nat) :
    closedW (fun c => k * v c) c = k * closedW v c := by
  unfold closedW
  have : ((players c).map fun i => k * v (singleton i)) = ((players c).map fun i => v (singleton i)).map (k * ·) := by
    rw [List.map_map]; rfl
  have hs : ∀ l : List α, (l.map (k * ·)).sum = k * l.sum := by
    intro l
    induction l with
    | nil => simp
    | cons x l ih => rw [List.map_cons, List.sum_cons, List.sum_cons, ih, mul_add]
  rw [this, Norm.listSum_eq_sum, Norm.listSum_eq_sum, hs, mul_sub]

omit [DecidableEq α] [DecidableLE α] in
/-- the additivity test (relative tolerance, `atol = 0`) is scale invariant, `k ≠ 0` of either sign -/
theorem additive_scale {k : α} (hk : k ≠ 0) (n : Nat) (rtol : α) (v : Nat → α) :
    Additive n rtol (fun c => k * v c) ↔ Additive n rtol v := by
  unfold C15.Additive
  rw [closedW_scale, ← Finset.mul_sum, abs_mul, abs_mul, mul_left_comm]
  exact mul_le_mul_iff_right₀ (abs_pos.mpr hk)

/-- **scale invariance of the normal form**: for `rtol ≥ 0` and `k ≠ 0` (in particular `k > 0`, and also
    `k < 0`), `normVal n rtol (k • v) = normVal n rtol v` at every coalition. -/
theorem normVal_scale {k : α} (hk : k ≠ 0) {rtol : α} (hr : 0 ≤ rtol) (n : Nat) (v : Nat → α) (c : Nat) :
    normVal n rtol (fun c => k * v c) c = normVal n rtol v c := by
  by_cases ha : Additive n rtol v
  · rw [normVal_of_additive ha, normVal_of_additive ((additive_scale hk n rtol v).mpr ha)]
  · have ha' : ¬ Additive n rtol (fun c => k * v c) := fun h => ha ((additive_scale hk n rtol v).mp h)
    have hg : closedW v (grand n) ≠ 0 := fun h => ha (additive_of_surplus_zero hr h)
    have hg' : closedW (fun c => k * v c) (grand n) ≠ 0 := by
      rw [closedW_scale]; exact mul_ne_zero hk hg
    rw [normVal_of_scale hg ha, normVal_of_scale hg' ha', closedW_scale, closedW_scale,
      mul_div_mul_left _ _ hk]

/-- the statement of the task, `k > 0` -/
theorem normVal_scale_pos {k : α} (hk : 0 < k) {rtol : α} (hr : 0 ≤ rtol) (n : Nat) (v : Nat → α) :
    normVal n rtol (fun c => k * v c) = normVal n rtol v :=
  funext (normVal_scale hk.ne' hr n v)

/-- … and for what the code does: `_normalize_icg` on the complete table of `k • v` and on that of `v`
    both return, with the same values in every row `< 2^n` of both columns -/
theorem normalizeIcg_scale {k : α} (hk : k ≠ 0) {rtol : α} (hr : 0 ≤ rtol) (n : Nat) (v : Nat → α) :
    ∃ t' t'', normalizeIcg rtol (fullTable n v) = .ok t' ∧
      normalizeIcg rtol (fullTable n (fun c => k * v c)) = .ok t'' ∧
      ∀ c, c < 2 ^ n → t''.lo c = t'.lo c ∧ t''.hi c = t'.hi c := by
  obtain ⟨t', h1, hf1, hl1⟩ := normalizeIcg_closed rtol (fullTable n v) (fullOn_fullTable n v)
  obtain ⟨t'', h2, hf2, hl2⟩ := normalizeIcg_closed rtol (fullTable n (fun c => k * v c)) (fullOn_fullTable n _)
  refine ⟨t', t'', h1, h2, fun c hc => ?_⟩
  have hlo : t''.lo c = t'.lo c := by
    rw [hl2 c hc, hl1 c hc]; exact normVal_scale hk hr n v c
  exact ⟨hlo, by rw [hf2.hi_eq c hc, hf1.hi_eq c hc, hlo]⟩

omit [LinearOrder α] [IsStrictOrderedRing α] [DecidableLE α] [DecidableEq α] in
/-- **shift invariance of the subtraction phase**: adding the additive game `a(S) = Σ_{i∈S} w i` does not
    change `w = v − Σ singletons` on the coalitions of the `n` players -/
theorem closedW_shift (n : Nat) (w : Nat → α) (v : Nat → α) {c : Nat} (hc : c < 2 ^ n) :
    closedW (fun c => v c + Norm.bsum n w c) c = closedW v c := by
  rw [closedW_eq hc, closedW_eq hc]
  have : Norm.bsum n (fun i => v (2 ^ i) + Norm.bsum n w (2 ^ i)) c =
      Norm.bsum n (fun i => v (2 ^ i)) c + Norm.bsum n w c := by
    rw [Norm.bsum_congr n (g := fun i => v (2 ^ i) + w i) (fun i hi => by rw [Norm.bsum_two_pow w hi])]
    unfold Norm.bsum
    rw [← Finset.sum_add_distrib]
    apply Finset.sum_congr rfl
    intro i _
    split <;> simp
  rw [this]
  ring

omit [DecidableEq α] [DecidableLE α] [IsStrictOrderedRing α] in
/-- what the shift does to the additivity test, exactly: the surplus is the same, but the tolerance window
    `rtol·|Σ singletons|` moves to `rtol·|Σ singletons + Σ w|` -/
theorem additive_shift_iff (n : Nat) (w : Nat → α) (rtol : α) (v : Nat → α) :
    Additive n rtol (fun c => v c + Norm.bsum n w c) ↔
      |closedW v (grand n)| ≤ rtol * |(∑ i ∈ range n, v (2 ^ i)) + ∑ i ∈ range n, w i| := by
  unfold C15.Additive
  rw [closedW_shift n w v (grand_lt n), ← Finset.sum_add_distrib]
  have : ∑ i ∈ range n, (v (2 ^ i) + Norm.bsum n w (2 ^ i)) = ∑ i ∈ range n, (v (2 ^ i) + w i) :=
    Finset.sum_congr rfl (fun i hi => by rw [Norm.bsum_two_pow w (Finset.mem_range.mp hi)])
  rw [this]

omit [IsStrictOrderedRing α] in
/-- **shift invariance of the normal form, precise statement**: whenever the additivity test decides the
    same way for `v + a` and for `v`, the normal forms agree on every coalition of the `n` players -/
theorem normVal_shift_of_same_test (n : Nat) (w : Nat → α) (rtol : α) (v : Nat → α)
    (hsame : Additive n rtol (fun c => v c + Norm.bsum n w c) ↔ Additive n rtol v) {c : Nat} (hc : c < 2 ^ n) :
    normVal n rtol (fun c => v c + Norm.bsum n w c) c = normVal n rtol v c := by
  have hb : closedAdditive n rtol (fun c => v c + Norm.bsum n w c) = closedAdditive n rtol v := by
    rw [Bool.eq_iff_iff, closedAdditive_iff_Additive, closedAdditive_iff_Additive]; exact hsame
  unfold normVal
  rw [hb, closedW_shift n w v hc, closedW_shift n w v (grand_lt n)]

/-- with `rtol = 0` (exact test) the test never sees the shift: unconditional invariance -/
theorem normVal_shift_rtol_zero (n : Nat) (w : Nat → α) (v : Nat → α) {c : Nat} (hc : c < 2 ^ n) :
    normVal n 0 (fun c => v c + Norm.bsum n w c) c = normVal n 0 v c := by
  apply normVal_shift_of_same_test n w 0 v _ hc
  rw [additive_zero_iff, additive_zero_iff, closedW_shift n w v (grand_lt n)]

/-- both games outside the tolerance window (the surplus exceeds both `rtol·|Σ|`): invariance -/
theorem normVal_shift_outside (n : Nat) (w : Nat → α) (rtol : α) (v : Nat → α)
    (h1 : rtol * |∑ i ∈ range n, v (2 ^ i)| < |closedW v (grand n)|)
    (h2 : rtol * |(∑ i ∈ range n, v (2 ^ i)) + ∑ i ∈ range n, w i| < |closedW v (grand n)|)
    {c : Nat} (hc : c < 2 ^ n) :
    normVal n rtol (fun c => v c + Norm.bsum n w c) c = normVal n rtol v c := by
  apply normVal_shift_of_same_test n w rtol v _ hc
  rw [additive_shift_iff]
  unfold C15.Additive
  exact ⟨fun h => absurd h (not_le.mpr h2), fun h => absurd h (not_le.mpr h1)⟩

end norm

/-! ## 4. exploitability and the norms of the gap vector -/

section gaps
open Finset
variable {α : Type} [Field α] [LinearOrder α] [IsStrictOrderedRing α]

theorem widths_scale (k : α) (n : Nat) (lo hi : Nat → α) :
    widths n (fun c => k * lo c) (fun c => k * hi c) = (widths n lo hi).map (k * ·) := by
  unfold widths
  rw [List.map_map]
  exact List.map_congr_left (fun c _ => (mul_sub k (hi c) (lo c)).symm)

theorem absv_scale {k : α} (hk : 0 ≤ k) (x : α) : absv (k * x) = k * absv x := by
  unfold absv
  rw [← mul_neg, ← (ordHom_mul hk).mono.map_max]

/-- `l1` is positively homogeneous of degree 1 in the bounds -/
theorem l1_homogeneous {k : α} (hk : 0 ≤ k) (n : Nat) (lo hi : Nat → α) :
    l1 n (fun c => k * lo c) (fun c => k * hi c) = k * l1 n lo hi := by
  unfold l1
  rw [widths_scale, List.map_map, ← listSum_scale, List.map_map]
  congr 1
  exact List.map_congr_left (fun x _ => absv_scale hk x)

/-- `linf` is positively homogeneous of degree 1 (and raises on the same inputs) -/
theorem linf_homogeneous {k : α} (hk : 0 ≤ k) (n : Nat) (lo hi : Nat → α) :
    linf n (fun c => k * lo c) (fun c => k * hi c) = Except.map (k * ·) (linf n lo hi) := by
  unfold linf
  have : (widths n (fun c => k * lo c) (fun c => k * hi c)).map absv =
      ((widths n lo hi).map absv).map (k * ·) := by
    rw [widths_scale, List.map_map, List.map_map]
    exact List.map_congr_left (fun x _ => absv_scale hk x)
  rw [this, listMax?_map (ordHom_mul hk).mono]
  cases listMax? ((widths n lo hi).map absv) <;> rfl

/-- the squared `l2` norm is homogeneous of degree 2, every `k` -/
theorem l2sq_homogeneous (k : α) (n : Nat) (lo hi : Nat → α) :
    l2sq n (fun c => k * lo c) (fun c => k * hi c) = k ^ 2 * l2sq n lo hi := by
  unfold l2sq
  rw [widths_scale, List.map_map, ← listSum_scale, List.map_map]
  congr 1
  exact List.map_congr_left (fun x _ => by simp only [Function.comp]; ring)

theorem weightedGap_scale (k : α) (n : Nat) (lo hi : Nat → α) :
    C05.weightedGap n (fun c => k * lo c) (fun c => k * hi c) = k * C05.weightedGap n lo hi := by
  unfold C05.weightedGap
  rw [Finset.mul_sum]
  exact Finset.sum_congr rfl (fun c _ => by rw [← mul_sub, mul_div_assoc])

/-- `compute_exploitability` is homogeneous of degree 1, every `k` (it is linear in the two bound
    columns); it raises on the scaled table exactly when it raises on the table -/
theorem exploitability_homogeneous (k : α) (t : Table α) :
    (mapVals (k * ·) t).exploitability = Except.map (k * ·) t.exploitability := by
  cases hk : t.known (grand t.n) with
  | true =>
    rw [C05.identity t hk, C05.identity (mapVals (k * ·) t) hk]
    show Except.ok _ = Except.ok _
    congr 1
    show C05.weightedGap t.n (fun c => k * t.lo c) (fun c => k * t.hi c) - k * t.hi 0 = _
    rw [weightedGap_scale]
    exact (mul_sub k _ _).symm
  | false => rw [C05.undefined t hk, C05.undefined (mapVals (k * ·) t) hk]; rfl

end gaps

/-! ## 5. the hypotheses are satisfiable and the conclusions are not trivial -/

section regret_reachable
variable {α : Type} [Field α] [LinearOrder α] [IsStrictOrderedRing α]

/-- together with C14's `tree_invariant`: from every reachable state (repaired policy) and every
    admissible input BOTH iterations return, and the results are related by the scaling -/
theorem iterate_scale_reachable {c : α} (hc : 0 < c) {p : Policy} {rm : RM α} (h : C14.TreeReachable p rm)
    {t : List α} {u : List (List Nat)} (hin : ValidInput rm t u) :
    ∃ rm', rm.iterate t u = .ok rm' ∧ (scaleRM c rm).iterate (t.map (c * ·)) u = .ok (scaleRM c rm') := by
  obtain ⟨rm', hok, _⟩ := (C14.tree_invariant h).2 t u hin
  exact ⟨rm', hok, by rw [iterate_equivariant hc, hok]; rfl⟩

end regret_reachable

/-- the theorems are about the functions the driver runs (core `Rat` instances) -/
example (c : Rat) (hc : 0 < c) (rm : RM Rat) (t : List Rat) (u : List (List Nat)) :
    RM.iterate (α := Rat) (scaleRM c rm) (t.map (c * ·)) u =
      Except.map (scaleRM c) (RM.iterate (α := Rat) rm t u) :=
  iterate_equivariant (α := ℚ) hc rm t u

example (c : Rat) (hc : 0 < c) (m : Nat) (row : List Rat) (used : List Nat) :
    regretMatchingRow (α := Rat) m (row.map (c * ·)) used = regretMatchingRow (α := Rat) m row used :=
  regret_matching_row_scale (α := ℚ) hc m row used

/-- a row with a positive regret: the strategy is not uniform, and it is the same after scaling by
    `2^-30` — while a NEGATIVE factor changes it (so `c > 0` is needed) -/
example : regretMatchingRow (α := Rat) 3 [1/6, 1/6, 3/2] [] = .ok [1/11, 1/11, 9/11] ∧
    regretMatchingRow (α := Rat) 3 ([1/6, 1/6, 3/2].map ((1 / 2 ^ 30 : Rat) * ·)) [] = .ok [1/11, 1/11, 9/11] ∧
    regretMatchingRow (α := Rat) 3 ([1/6, 1/6, 3/2].map ((-1 : Rat) * ·)) [] = .ok [1/3, 1/3, 1/3] := by
  decide +kernel

/-- the uniform fallback (no positive regret) over the unrevealed coalitions, before and after scaling -/
example : regretMatchingRow (α := Rat) 3 [0, -1, -1/3] [1] = .ok [1/2, 0, 1/2] ∧
    regretMatchingRow (α := Rat) 3 ([0, -1, -1/3].map ((1 / 2 ^ 30 : Rat) * ·)) [1] = .ok [1/2, 0, 1/2] := by
  decide +kernel

/-- two iterations of the plus variant on `n = 3`, `limit = 2` with the repository's test vector, and the
    same with all terminal values multiplied by `2^-30`: the regrets are scaled (and are not all zero, so the
    two states differ), the root strategy is the non-uniform `[1/11, 1/11, 9/11]` in both, cumulative and
    average strategies agree -/
example : C14.holds (do
    let k : Rat := 1 / 2 ^ 30
    let u : List (List Nat) := [[3, 5], [5, 6], [3, 6]]
    let rm ← RM.new (α := Rat) Policy.repaired 3 2 true
    let a ← rm.iterate [1, 0, 0] u
    let a ← a.iterate [0, 2, 1] u
    let b ← rm.iterate ([1, 0, 0].map (k * ·)) u
    let b ← b.iterate ([0, 2, 1].map (k * ·)) u
    let σa ← a.regretMatching 0
    let σb ← b.regretMatching 0
    let avga ← a.averageStrategy []
    let avgb ← b.averageStrategy []
    pure (decide (b.regret = a.regret.map (List.map (k * ·)) ∧ a.regret ≠ b.regret ∧
      σa = [1/11, 1/11, 9/11] ∧ σb = σa ∧ a.strategy = b.strategy ∧
      avga = [0, 0, 0, 4/9, 0, 4/9, 1/9, 0] ∧ avgb = avga))) = true := by
  decide +kernel

/-- the same for the plain variant -/
example : C14.holds (do
    let k : Rat := 1 / 2 ^ 30
    let u : List (List Nat) := [[3, 5], [5, 6], [3, 6]]
    let rm ← RM.new (α := Rat) Policy.repaired 3 2 false
    let a ← rm.iterate [1, 0, 0] u
    let a ← a.iterate [0, 2, 1] u
    let b ← rm.iterate ([1, 0, 0].map (k * ·)) u
    let b ← b.iterate ([0, 2, 1].map (k * ·)) u
    let σa ← a.regretMatching 0
    let σb ← b.regretMatching 0
    pure (decide (b.regret = a.regret.map (List.map (k * ·)) ∧ a.regret ≠ b.regret ∧
      σb = σa ∧ σa ≠ [1/3, 1/3, 1/3] ∧ a.strategy = b.strategy))) = true := by
  decide +kernel

/-- `history_scale` applied: a constructed minimiser exists, so the theorem is not vacuous -/
example : ∃ rm : RM ℚ, RM.new Policy.repaired 3 2 true = .ok rm ∧
    ∀ h : History ℚ, ∀ rm', run rm h = .ok rm' →
      ∃ rm'', run rm (scaleHistory (1 / 2 ^ 30) h) = .ok rm'' ∧
        rm''.regret = rm'.regret.map (List.map ((1 / 2 ^ 30 : ℚ) * ·)) ∧ rm''.strategy = rm'.strategy := by
  obtain ⟨rm, hnew, _⟩ := C14.constructible_repaired (α := ℚ) (n := 3) (by decide) 2 true
  refine ⟨rm, hnew, fun h rm' hok => ?_⟩
  obtain ⟨rm'', h1, h2, _, _, h5, _⟩ := (history_scale (c := (1 / 2 ^ 30 : ℚ)) (by positivity) hnew h).2 rm' hok
  exact ⟨rm'', h1, h2, h5⟩

/-! ### bounds -/

/-- the rows `0 .. 7` (lower, upper) of a computed 3-player table; `[]` when the computer raised -/
def rowsOf (r : Except Err (Table Int)) : List (Int × Int) :=
  match r with
  | .ok t => (List.range 8).map (fun c => (t.lo c, t.hi c))
  | .error _ => []

/-- weights of an additive game with entries of both signs -/
def exW : Nat → Int := fun i => [5, -3, 2].getD i 0

open BoundsCommon in
/-- the hypotheses hold on the 3-player example table with the minimal information, so the computers
    run on it, on its multiple and on its shift, with related results -/
example :
    (∃ t', sa Ex.exT = .ok t' ∧ sa (mapVals (3 * ·) Ex.exT) = .ok (mapVals (3 * ·) t')) ∧
    (∃ t', sac Ex.exT = .ok t' ∧ sac (mapVals (3 * ·) Ex.exT) = .ok (mapVals (3 * ·) t')) ∧
    (∀ r, ∃ t', sam r Ex.samT = .ok t' ∧ sam r (mapVals (3 * ·) Ex.samT) = .ok (mapVals (3 * ·) t')) ∧
    (∃ t', sa Ex.exT = .ok t' ∧ sa (shiftTable 3 exW Ex.exT) = .ok (shiftTable 3 exW t')) ∧
    (∃ t', sac Ex.exT = .ok t' ∧ sac (shiftTable 3 exW Ex.exT) = .ok (shiftTable 3 exW t')) :=
  ⟨(computers_homogeneous (by decide) Ex.exT Ex.exT_min Ex.exT_agree.inv).1,
   (computers_homogeneous (by decide) Ex.exT Ex.exT_min Ex.exT_agree.inv).2.1,
   (computers_homogeneous (by decide) Ex.samT Ex.samT_min Ex.samT_agree.inv).2.2,
   (computers_shift 3 exW Ex.exT Ex.exT_min Ex.exT_agree.inv).1,
   (computers_shift 3 exW Ex.exT Ex.exT_min Ex.exT_agree.inv).2⟩

open BoundsCommon in
/-- … and the conclusions can be observed: the unknown rows 3, 5, 6 have proper intervals, which are
    multiplied by 3, resp. moved by `a(S)` (`a = (0, 5, -3, 2, 2, 7, -1, 4)` on the ids `0 .. 7`) -/
example :
    rowsOf (sa Ex.exT) = [(0, 0), (1, 1), (2, 2), (3, 8), (1, 1), (2, 7), (3, 8), (9, 9)] ∧
    rowsOf (sa (mapVals (3 * ·) Ex.exT)) =
      [(0, 0), (3, 3), (6, 6), (9, 24), (3, 3), (6, 21), (9, 24), (27, 27)] ∧
    rowsOf (sac (mapVals (3 * ·) Ex.exT)) =
      [(0, 0), (3, 3), (6, 6), (9, 24), (3, 3), (6, 21), (9, 24), (27, 27)] ∧
    rowsOf (sa (shiftTable 3 exW Ex.exT)) =
      [(0, 0), (6, 6), (-1, -1), (5, 10), (3, 3), (9, 14), (2, 7), (13, 13)] ∧
    rowsOf (sac (shiftTable 3 exW Ex.exT)) =
      [(0, 0), (6, 6), (-1, -1), (5, 10), (3, 3), (9, 14), (2, 7), (13, 13)] ∧
    rowsOf (sam 1 Ex.samT) = [(0, 0), (-1, -1), (-1, -1), (-2, -1), (-1, -1), (-2, -1), (-2, -1), (-2, -2)] ∧
    rowsOf (sam 1 (mapVals (3 * ·) Ex.samT)) =
      [(0, 0), (-3, -3), (-3, -3), (-6, -3), (-3, -3), (-6, -3), (-6, -3), (-6, -6)] := by
  decide +kernel

open BoundsCommon in
/-- **the SAM approximation is NOT shift equivariant** (why `computers_shift` stops at `sa`, `sac`): on the
    SAM example table shifted by `exW`, row 3 comes out as `(2, -4)`, the shifted result has `(0, 1)` -/
theorem sam_shift_fails :
    rowsOf (sam 0 (shiftTable 3 exW Ex.samT)) ≠ rowsOf (Except.map (shiftTable 3 exW) (sam 0 Ex.samT)) := by
  decide +kernel

/-! ### normalisation -/

def exG : Nat → Rat := fun c => [0, 1, 2, 4, 1, 3, 5, 9].getD c 0
/-- singletons `1, -1, 0` (sum 0), grand coalition 1: surplus 1, tolerance window `rtol · 0` -/
def exH : Nat → Rat := fun c => [0, 1, -1, 1, 0, 2, 0, 1].getD c 0

/-- the theorem is about the function the driver runs -/
example (k rtol : Rat) (hk : k ≠ 0) (hr : 0 ≤ rtol) (n : Nat) (v : Nat → Rat) (c : Nat) :
    Norm.normVal (α := Rat) n rtol (fun c => k * v c) c = Norm.normVal (α := Rat) n rtol v c :=
  normVal_scale (α := ℚ) hk hr n v c

/-- a game outside the window: the normal form is the non-trivial `w / w(N)`, the same for `2^-30 • v`
    and for `-v`; and the same after a huge additive shift with `rtol = 0` -/
example :
    (List.range 8).map (Norm.normVal (α := Rat) 3 Norm.defaultRtol exG) = [0, 0, 0, 1/5, 0, 1/5, 2/5, 1] ∧
    (List.range 8).map (Norm.normVal (α := Rat) 3 Norm.defaultRtol (fun c => (1 / 2 ^ 30 : Rat) * exG c)) =
      [0, 0, 0, 1/5, 0, 1/5, 2/5, 1] ∧
    (List.range 8).map (Norm.normVal (α := Rat) 3 Norm.defaultRtol (fun c => (-1 : Rat) * exG c)) =
      [0, 0, 0, 1/5, 0, 1/5, 2/5, 1] ∧
    (List.range 8).map (Norm.normVal (α := Rat) 3 0 (fun c => exG c + Norm.bsum 3 (fun _ => (2 : Rat) ^ 40) c)) =
      [0, 0, 0, 1/5, 0, 1/5, 2/5, 1] := by
  decide +kernel

/-- **a shift DOES change the additivity test for `rtol > 0`**: `exH` has surplus 1 and singleton sum 0, so
    it is never additive up to `rtol`; shifted by 1000 per player the window is `rtol · 3000` and, with
    `rtol = 1/2`, the game is declared additive — the normal form changes from `w / w(N)` to 0.  This is
    why `normVal_shift_of_same_test` has its hypothesis. -/
example :
    Norm.normVal (α := Rat) 3 (1/2) exH 7 = 1 ∧
    Norm.normVal (α := Rat) 3 (1/2) (fun c => exH c + Norm.bsum 3 (fun _ => (1000 : Rat)) c) 7 = 0 ∧
    Norm.closedW (α := Rat) (fun c => exH c + Norm.bsum 3 (fun _ => (1000 : Rat)) c) 7 = Norm.closedW exH 7 := by
  decide +kernel

/-! ### gaps -/

/-- degree 1 for `l1`, `linf`, degree 2 for `l2sq`, on bounds with non-zero widths -/
example :
    l1 (α := Rat) 3 (fun c => 3 * exG c) (fun c => 3 * (exG c + 1)) = 24 ∧ l1 (α := Rat) 3 exG (fun c => exG c + 1) = 8 ∧
    l2sq (α := Rat) 3 (fun c => 3 * exG c) (fun c => 3 * (exG c + 1)) = 72 ∧
    l2sq (α := Rat) 3 exG (fun c => exG c + 1) = 8 := by
  decide +kernel

end ICG.Equivariance
