/-
  Property C19 — saved results can be read back; saving under a new name leaves every earlier entry
  unchanged; saving under an existing name changes nothing; for any sequence of saves.
  Theorems about ICG.Model.Store (part 1: the model of `save_json` / `from_file` /
  `get_outputs_from_file` in incomplete_cooperative/run/save.py).

  The entry codec (`Output.json` → JSON text → `Output.from_json`) is abstract: the theorems that
  speak about the *file* assume `∀ e, c.decode (c.encode e) = some e`.  That assumption (float ↔ JSON
  text, NaN tokens, shapes recovered by `np.array`, metadata up to stringification) is a property of
  json / numpy and is covered only by the sampling of `harness/corr_store.py` (DESIGN 5/C19 "Partial").
  That the saved matrices are the ones the evaluation or search produced is a statement about the
  commands (solve / greedy / best_states), checked by the same stream, not a theorem.
-/
import ICG.Model.Store

namespace ICG.C19
open ICG.Store

variable {ε β : Type}

/-! ### lookup and append -/

theorem lookup_append_some (s t : Store ε) (m : String) (x : ε) (h : lookup s m = some x) :
    lookup (s ++ t) m = some x := by
  induction s with
  | nil => simp [lookup] at h
  | cons p s ih =>
    obtain ⟨n, e⟩ := p
    simp only [List.cons_append, lookup] at h ⊢
    split
    · rename_i hn; simpa [hn] using h
    · rename_i hn; simp only [hn, if_false] at h; exact ih h

theorem lookup_append_none (s t : Store ε) (m : String) (h : lookup s m = none) :
    lookup (s ++ t) m = lookup t m := by
  induction s with
  | nil => rfl
  | cons p s ih =>
    obtain ⟨n, e⟩ := p
    simp only [List.cons_append, lookup] at h ⊢
    split
    · rename_i hn; simp [hn] at h
    · rename_i hn; simp only [hn, if_false] at h; exact ih h

theorem has_iff_mem_names (s : Store ε) (n : String) : has s n = true ↔ n ∈ names s := by
  induction s with
  | nil => simp [has, lookup, names]
  | cons p s ih =>
    obtain ⟨k, e⟩ := p
    by_cases hk : k = n
    · simp [has, lookup, names, hk]
    · have : ¬ n = k := fun h => hk h.symm
      simp only [has, lookup, hk, if_false, names, List.map_cons, List.mem_cons, this, false_or]
      simpa [has, names] using ih

theorem lookup_isSome_iff_mem_names (s : Store ε) (n : String) : (lookup s n).isSome = true ↔ n ∈ names s :=
  has_iff_mem_names s n

/-! ### one save -/

/-- saving under an existing name is the identity ("changes nothing") -/
theorem save_existing (s : Store ε) (n : String) (e e0 : ε) (h : lookup s n = some e0) : save s n e = s := by
  simp [save, has, h]

theorem save_existing_of_mem (s : Store ε) (n : String) (e : ε) (h : n ∈ names s) : save s n e = s := by
  have := (has_iff_mem_names s n).2 h
  simp [save, this]

/-- a new name is readable afterwards and equals what was saved -/
theorem lookup_save_new (s : Store ε) (n : String) (e : ε) (h : lookup s n = none) :
    lookup (save s n e) n = some e := by
  simp [save, has, h, lookup_append_none s _ n h, lookup]

/-- an entry, once present, is unchanged by a later save (under any name, the same one included) -/
theorem lookup_save_stable (s : Store ε) (n m : String) (e x : ε) (h : lookup s m = some x) :
    lookup (save s n e) m = some x := by
  unfold save
  split
  · exact h
  · exact lookup_append_some s _ m x h

/-- a save does not make any other name appear or change -/
theorem lookup_save_other (s : Store ε) (n m : String) (e : ε) (hne : n ≠ m) :
    lookup (save s n e) m = lookup s m := by
  unfold save
  split
  · rfl
  · cases hm : lookup s m with
    | some x => exact lookup_append_some s _ m x hm
    | none => rw [lookup_append_none s _ m hm]; simp [lookup, hne]

/-- complete description of `lookup` after one save -/
theorem lookup_save (s : Store ε) (n m : String) (e : ε) :
    lookup (save s n e) m = (lookup s m).or (if n = m then some e else none) := by
  by_cases hnm : n = m
  · subst hnm
    cases h : lookup s n with
    | some x => simp [lookup_save_stable s n n e x h]
    | none => simp [lookup_save_new s n e h]
  · rw [lookup_save_other s n m e hnm]; simp [hnm]

/-- insertion order: a save only ever appends -/
theorem save_prefix (s : Store ε) (n : String) (e : ε) : ∃ t, save s n e = s ++ t := by
  unfold save
  split
  · exact ⟨[], by simp⟩
  · exact ⟨_, rfl⟩

theorem names_save (s : Store ε) (n : String) (e : ε) :
    names (save s n e) = if n ∈ names s then names s else names s ++ [n] := by
  by_cases h : n ∈ names s
  · simp [save_existing_of_mem s n e h, h]
  · have : has s n = false := by
      cases hh : has s n with
      | true => exact absurd ((has_iff_mem_names s n).1 hh) h
      | false => rfl
    rw [if_neg h]
    simp [save, this, names]

/-- names stay pairwise distinct (the file is a JSON object / Python dict) -/
theorem names_nodup_save (s : Store ε) (n : String) (e : ε) (h : (names s).Nodup) :
    (names (save s n e)).Nodup := by
  rw [names_save]
  split
  · exact h
  · rename_i hn
    rw [List.nodup_append]
    refine ⟨h, by simp, ?_⟩
    intro a ha b hb
    simp only [List.mem_singleton] at hb
    subst hb
    exact fun hab => hn (hab ▸ ha)

/-! ### any sequence of saves -/

theorem saveAll_nil (s : Store ε) : saveAll s [] = s := rfl

theorem saveAll_cons (s : Store ε) (p : String × ε) (l : List (String × ε)) :
    saveAll s (p :: l) = saveAll (save s p.1 p.2) l := rfl

theorem saveAll_append (s : Store ε) (l₁ l₂ : List (String × ε)) :
    saveAll s (l₁ ++ l₂) = saveAll (saveAll s l₁) l₂ := by
  simp [saveAll, List.foldl_append]

/-- **once present, never changes**: `lookup` is stable under every later sequence of saves -/
theorem lookup_saveAll_stable (s : Store ε) (l : List (String × ε)) (m : String) (x : ε)
    (h : lookup s m = some x) : lookup (saveAll s l) m = some x := by
  induction l generalizing s with
  | nil => exact h
  | cons p l ih => exact ih _ (lookup_save_stable s p.1 m p.2 x h)

/-- **`lookup name` = the first entry saved under it** (or what the store held before) -/
theorem lookup_saveAll (s : Store ε) (l : List (String × ε)) (m : String) :
    lookup (saveAll s l) m = (lookup s m).or (firstSaved l m) := by
  induction l generalizing s with
  | nil => simp [saveAll, firstSaved, lookup]
  | cons p l ih =>
    obtain ⟨n, e⟩ := p
    rw [saveAll_cons, ih, lookup_save]
    simp only [firstSaved, lookup]
    cases lookup s m <;> by_cases hnm : n = m <;> simp [hnm]

/-- from the empty file: what is read under a name is the first entry saved under that name -/
theorem lookup_saveAll_empty (l : List (String × ε)) (m : String) :
    lookup (saveAll [] l) m = firstSaved l m := by
  rw [lookup_saveAll]; simp [lookup]

/-- earlier entries are unchanged by later saves, stated between two points of one history -/
theorem earlier_entries_unchanged (s : Store ε) (l₁ l₂ : List (String × ε)) (m : String) (x : ε)
    (h : lookup (saveAll s l₁) m = some x) : lookup (saveAll s (l₁ ++ l₂)) m = some x := by
  rw [saveAll_append]; exact lookup_saveAll_stable _ l₂ m x h

/-- **insertion order preserved**: the store after more saves extends the earlier store -/
theorem saveAll_prefix (s : Store ε) (l : List (String × ε)) : ∃ t, saveAll s l = s ++ t := by
  induction l generalizing s with
  | nil => exact ⟨[], by simp [saveAll]⟩
  | cons p l ih =>
    obtain ⟨t₁, h₁⟩ := save_prefix s p.1 p.2
    obtain ⟨t₂, h₂⟩ := ih (save s p.1 p.2)
    exact ⟨t₁ ++ t₂, by rw [saveAll_cons, h₂, h₁, List.append_assoc]⟩

theorem saveAll_history_prefix (s : Store ε) (l₁ l₂ : List (String × ε)) :
    ∃ t, saveAll s (l₁ ++ l₂) = saveAll s l₁ ++ t := by
  rw [saveAll_append]; exact saveAll_prefix _ l₂

theorem names_nodup_saveAll (s : Store ε) (l : List (String × ε)) (h : (names s).Nodup) :
    (names (saveAll s l)).Nodup := by
  induction l generalizing s with
  | nil => exact h
  | cons p l ih => exact ih _ (names_nodup_save s p.1 p.2 h)

/-- the names in the file are exactly the names it had plus the names saved -/
theorem mem_names_saveAll (s : Store ε) (l : List (String × ε)) (m : String) :
    m ∈ names (saveAll s l) ↔ m ∈ names s ∨ m ∈ l.map (·.1) := by
  induction l generalizing s with
  | nil => simp [saveAll]
  | cons p l ih =>
    rw [saveAll_cons, ih, names_save]
    by_cases hp : p.1 ∈ names s
    · simp only [hp, if_true, List.map_cons, List.mem_cons]
      constructor
      · rintro (h | h)
        · exact Or.inl h
        · exact Or.inr (Or.inr h)
      · rintro (h | h | h)
        · exact Or.inl h
        · exact Or.inl (h ▸ hp)
        · exact Or.inr h
    · simp only [hp, if_false, List.mem_append, List.map_cons, List.mem_cons, List.not_mem_nil, or_false]
      constructor
      · rintro ((h | h) | h)
        · exact Or.inl h
        · exact Or.inr (Or.inl h)
        · exact Or.inr (Or.inr h)
      · rintro (h | h | h)
        · exact Or.inl (Or.inl h)
        · exact Or.inl (Or.inr h)
        · exact Or.inr h

/-- a sequence of saves all under names already present is the identity -/
theorem saveAll_existing (s : Store ε) (l : List (String × ε)) (h : ∀ p ∈ l, p.1 ∈ names s) :
    saveAll s l = s := by
  induction l with
  | nil => rfl
  | cons p l ih =>
    rw [saveAll_cons, save_existing_of_mem s p.1 p.2 (h p (by simp))]
    exact ih (fun q hq => h q (by simp [hq]))

/-! ### the file: decoding what was written gives back the store -/

theorem has_encodeStore (c : Codec ε β) (s : Store ε) (n : String) : has (encodeStore c s) n = has s n := by
  induction s with
  | nil => rfl
  | cons p s ih =>
    obtain ⟨k, e⟩ := p
    simp only [has, encodeStore, List.map_cons, lookup] at ih ⊢
    by_cases hk : k = n
    · simp [hk]
    · simpa [hk] using ih

/-- `save_json` on the file content commutes with `save` on the store -/
theorem encodeStore_save (c : Codec ε β) (s : Store ε) (n : String) (e : ε) :
    saveFile c (encodeStore c s) n e = encodeStore c (save s n e) := by
  simp only [saveFile, save, has_encodeStore]
  split
  · rfl
  · simp [encodeStore]

/-- with the codec hypothesis, the decoded file content equals the store -/
theorem decode_encodeStore (c : Codec ε β) (hc : ∀ e, c.decode (c.encode e) = some e) (s : Store ε) :
    decodeStore c (encodeStore c s) = some s := by
  induction s with
  | nil => rfl
  | cons p s ih =>
    obtain ⟨k, e⟩ := p
    simp only [encodeStore, List.map_cons] at ih ⊢
    simp [decodeStore, hc, ih]

/-- … after any sequence of `save_json` calls on the file, starting from the file of any store -/
theorem file_roundtrip (c : Codec ε β) (hc : ∀ e, c.decode (c.encode e) = some e) (s : Store ε)
    (l : List (String × ε)) :
    decodeStore c (l.foldl (fun f p => saveFile c f p.1 p.2) (encodeStore c s)) = some (saveAll s l) := by
  induction l generalizing s with
  | nil => exact decode_encodeStore c hc s
  | cons p l ih =>
    simp only [List.foldl_cons, encodeStore_save]
    exact ih (save s p.1 p.2)

/-- … in particular every run saved into a fresh file is read back as the first entry saved under its name -/
theorem read_back_first_saved (c : Codec ε β) (hc : ∀ e, c.decode (c.encode e) = some e)
    (l : List (String × ε)) (m : String) :
    ∃ t, decodeStore c (l.foldl (fun f p => saveFile c f p.1 p.2) []) = some t ∧ lookup t m = firstSaved l m :=
  ⟨saveAll [] l, by simpa [encodeStore] using file_roundtrip c hc [] l, lookup_saveAll_empty l m⟩

/-! ### concrete instances (hypotheses are satisfiable, statements are not vacuous) -/

/-- a non-identity codec satisfying the hypothesis -/
def exCodec : Codec Nat (List Nat) := ⟨fun n => [n, n], fun l => match l with | [a, _] => some a | _ => none⟩

example : ∀ e, exCodec.decode (exCodec.encode e) = some e := fun _ => rfl

example : saveAll ([] : Store Nat) [("a", 1), ("b", 2), ("a", 3), ("c", 4), ("b", 5)] = [("a", 1), ("b", 2), ("c", 4)] := by
  decide

example : lookup (saveAll ([] : Store Nat) [("a", 1), ("b", 2), ("a", 3)]) "a" = some 1 := by decide
example : lookup (saveAll ([] : Store Nat) [("a", 1), ("b", 2), ("a", 3)]) "z" = none := by decide
example : save ([("a", 1)] : Store Nat) "a" 7 = [("a", 1)] := by decide
example : names (saveAll ([("x", 0)] : Store Nat) [("a", 1), ("x", 2), ("b", 3)]) = ["x", "a", "b"] := by decide

example : decodeStore exCodec
    ([("a", 1), ("b", 2), ("a", 3)].foldl (fun f p => saveFile exCodec f p.1 p.2) []) = some [("a", 1), ("b", 2)] := by
  decide

/-- the driver's concrete entry type: a NaN-padded 3-D action array keeps shape and padding -/
example :
    let e : Entry := ⟨⟨[2, 1], ["f3ff0000000000000", "nan"]⟩, ⟨[2, 1, 1], ["nan", "i5"]⟩, [("h6b", "h76")]⟩
    let e' : Entry := ⟨⟨[1, 1], ["nan"]⟩, ⟨[1, 1], ["i0"]⟩, []⟩
    lookup (saveAll [] [("run", e), ("run", e')]) "run" = some e := by
  decide

end ICG.C19
