/-
  Extra check X-mul — the `multiplicative` sub-package (not one of the 20 fixed properties; part of growing the
  model to the system's behaviour).

  Theorems about ICG.Model.Mul, for every linearly ordered field `α` (so for ℚ, the dyadic rationals of the exact
  correspondence stream, and ℝ at once) and every number of players.

  multiplicative_factor.py
    * `factor_succeeds_iff`, `factor_error_kinds`      the call succeeds iff both assertions hold and the vectors are
                                                       non-empty; AssertionError iff an assertion fails; ValueError iff
                                                       the assertions hold vacuously on empty vectors (n = 0)
    * `factor_is_least_bound`                          on success the result m satisfies num ≤ m·den everywhere, with
                                                       equality somewhere, is the least such number, and m ≥ 1
    * `factorFn_*`, `lowerUpperBound_ok_iff`, `toLowerBound_ok_iff`, `upperToApproximation_ok_iff`,
      `toApproximation_ok_iff`, `*_unknown`            the same, coalition by coalition, for the four functions on
                                                       tables (ValueError when a game read with get_values() has an
                                                       unknown coalition)
    * `lowerUpper_ge_toLower`, `upperApprox_ge_toApprox`, `upperApprox_le_chain`, `factor_monotone`
    * `factorN_finite`, `factorN_never_nan`, `factorN_nan_assert`   NaN entries fail the assertions
  max_xos_approximation.py (complete games `okGet v`)
    * `kr_values`, `kr_loop_test`, `geSqrt_iff`, `reached_iff`   `_get_k_r_values` returns the exponents with 4^k < n and the
                                                       powers of two below n²; the square-root-free comparisons mean
                                                       what they should for any `s ≥ 0` with `s² = n`
    * `approxXos_spec`, `approxXos_sum`, `approxXos_queried_prefixes`
    * `maxSubroutine_result`, `maxSubroutine_size_int`, `maxSubroutine_size_kval`, `maxSubroutine_terminates`,
      `maxSubroutine_fuel_irrelevant`, `maxSubroutine_empty`, `maxSubroutine_assertion`
    * `approximation_vector`, `approximation_empty`, `approximation_ge_singleton`, `approximation_ge_candidate`,
      `approximation_monotone`, `approximation_lower_bound_submodular`
    * `maxXos_returns` (termination of the composition on the domain α > 0, β ≥ 1/2, ε > 0, v(∅) = 0, singletons ≥ 1),
      `maxXos_lower_bound_submodular`
    * `lower_bound_fails_subadditive`                  FINDING: a monotone, subadditive 6-player game with singletons ≥ 1
                                                       (the docstring's hypotheses) on which the result is NOT a lower
                                                       bound (α = β = 1, ε = 1/8)
    * `lower_bound_fails_default`                      the same at the DEFAULT parameters (n = 10; decided in
                                                       ICG/Lemmas/MulPin10Game.lean + MulPin10.lean)
    * an `example` (FINDING 2)                         β < 1/2: the candidate loop repeats its state (the real call does
                                                       not return)
  Not covered by theorems: games with unknown coalitions / ids ≥ 2^n inside the Max-XOS routines (the model threads
  `get_value` errors through; the theorems are for complete games `okGet v`; the correspondence stream exercises the
  error paths), and float64 rounding.
-/
import ICG.Lemmas.MulFactor
import ICG.Lemmas.MulCompose
import ICG.Lemmas.MulPin10
import Mathlib.Algebra.Order.Ring.Rat
import Mathlib.Algebra.Order.Field.Rat
import Mathlib.Tactic.IntervalCases

namespace ICG.Mul
open ICG

set_option linter.unusedSectionVars false
variable {α : Type} [Field α] [LinearOrder α] [IsStrictOrderedRing α]

/-! ## multiplicative_factor.py -/

/-- the factor functions succeed iff the two assertions hold and the vectors are non-empty -/
theorem factor_succeeds_iff {num den : List α} (hlen : num.length = den.length) :
    (∃ m, factor num den = .ok m) ↔ Guard num den ∧ num ≠ [] := factor_ok_iff hlen

/-- AssertionError iff an assertion fails; ValueError (`np.max` of an empty array) iff they hold on empty vectors -/
theorem factor_error_kinds {num den : List α} (hlen : num.length = den.length) :
    (factor num den = .error .assert ↔ ¬ Guard num den) ∧
    (factor num den = .error .value ↔ Guard num den ∧ num = []) :=
  ⟨factor_eq_assert_iff hlen, factor_eq_value_iff hlen⟩

/-- on success the result `m` bounds every ratio, is attained, is the least such number, and is ≥ 1 -/
theorem factor_is_least_bound {num den : List α} (hlen : num.length = den.length) {m : α}
    (h : factor num den = .ok m) :
    (∀ p ∈ num.zip den, p.1 ≤ m * p.2) ∧ (∃ p ∈ num.zip den, p.1 = m * p.2) ∧
    (∀ a, (∀ p ∈ num.zip den, p.1 ≤ a * p.2) → m ≤ a) ∧ 1 ≤ m := factor_spec hlen h

example : factor [(3 : Rat), 4, 5] [1, 2, 2] = .ok 3 := by decide +kernel
example : factor [(3 : Rat), 4, 5] [1, 2, 6] = .error .assert := by decide +kernel
example : factor [(3 : Rat), 4, 5] [1, 0, 2] = .error .assert := by decide +kernel
example : factor ([] : List Rat) [] = .error .value := by decide +kernel
/-- numpy broadcasting: a one-player game against a two-player game is stretched, 0 against 2 players is ValueError -/
example : factor [(6 : Rat)] [1, 2, 3] = .ok 6 := by decide +kernel
example : factor ([] : List Rat) [1, 2, 3] = .error .value := by decide +kernel

/-- the same, coalition by coalition (`1 ≤ c < 2^n`) -/
theorem factorFn_result (n : Nat) (num den : Nat → α) (m : α) :
    factorFn n num den = .ok m ↔
      GuardFn n num den ∧ (∀ c, 0 < c → c < 2 ^ n → num c ≤ m * den c) ∧
        (∃ c, 0 < c ∧ c < 2 ^ n ∧ num c = m * den c) := factorFn_eq_ok_iff n num den m

theorem factorFn_outcomes (n : Nat) (num den : Nat → α) :
    ((∃ m, factorFn n num den = .ok m) ↔ GuardFn n num den ∧ n ≠ 0) ∧
    (factorFn n num den = .error .assert ↔ ¬ GuardFn n num den) ∧
    (factorFn n num den = .error .value ↔ GuardFn n num den ∧ n = 0) :=
  ⟨factorFn_ok_iff n num den, factorFn_error_assert_iff n num den, factorFn_error_value_iff n num den⟩

/-- a larger numerator and a smaller denominator can only increase the factor -/
theorem factor_monotone {n : Nat} {num num' den den' : Nat → α} {m m' : α}
    (h : factorFn n num den = .ok m) (h' : factorFn n num' den' = .ok m')
    (hnum : ∀ c, 0 < c → c < 2 ^ n → num c ≤ num' c) (hden : ∀ c, 0 < c → c < 2 ^ n → den' c ≤ den c) :
    m ≤ m' := factorFn_mono h h' hnum hden

/-! ### the four functions on tables -/

/-- `mul_factor_lower_upper_bound` -/
theorem lowerUpperBound_ok_iff (inc : Table α) (m : α) :
    lowerUpperBound inc = .ok m ↔
      GuardFn inc.n inc.hi inc.lo ∧ (∀ c, 0 < c → c < 2 ^ inc.n → inc.hi c ≤ m * inc.lo c) ∧
        (∃ c, 0 < c ∧ c < 2 ^ inc.n ∧ inc.hi c = m * inc.lo c) := by
  rw [lowerUpperBound_eq]; exact factorFn_eq_ok_iff _ _ _ _

/-- `mul_factor_to_lower_bound` (games with the same number of players) -/
theorem toLowerBound_ok_iff (game inc : Table α) (hn : game.n = inc.n) (m : α) :
    toLowerBound game inc = .ok m ↔
      game.full = true ∧ GuardFn inc.n game.hi inc.lo ∧
        (∀ c, 0 < c → c < 2 ^ inc.n → game.hi c ≤ m * inc.lo c) ∧
        (∃ c, 0 < c ∧ c < 2 ^ inc.n ∧ game.hi c = m * inc.lo c) := by
  rw [toLowerBound_eq game inc hn]
  by_cases hf : game.full = true
  · rw [if_pos hf, factorFn_eq_ok_iff]; simp [hf]
  · rw [if_neg hf]; simp [hf]

/-- `mul_factor_upper_to_approximation` -/
theorem upperToApproximation_ok_iff (approx inc : Table α) (hn : approx.n = inc.n) (m : α) :
    upperToApproximation approx inc = .ok m ↔
      approx.full = true ∧ GuardFn inc.n inc.hi approx.hi ∧
        (∀ c, 0 < c → c < 2 ^ inc.n → inc.hi c ≤ m * approx.hi c) ∧
        (∃ c, 0 < c ∧ c < 2 ^ inc.n ∧ inc.hi c = m * approx.hi c) := by
  rw [upperToApproximation_eq approx inc hn]
  by_cases hf : approx.full = true
  · rw [if_pos hf, factorFn_eq_ok_iff]; simp [hf]
  · rw [if_neg hf]; simp [hf]

/-- `mul_factor_to_approximation` -/
theorem toApproximation_ok_iff (game approx : Table α) (hn : game.n = approx.n) (m : α) :
    toApproximation game approx = .ok m ↔
      approx.full = true ∧ game.full = true ∧ GuardFn game.n game.hi approx.hi ∧
        (∀ c, 0 < c → c < 2 ^ game.n → game.hi c ≤ m * approx.hi c) ∧
        (∃ c, 0 < c ∧ c < 2 ^ game.n ∧ game.hi c = m * approx.hi c) := by
  rw [toApproximation_eq game approx hn]
  by_cases hf : approx.full = true
  · rw [if_pos hf]
    by_cases hg : game.full = true
    · rw [if_pos hg, factorFn_eq_ok_iff]; simp [hf, hg]
    · rw [if_neg hg]; simp [hg]
  · rw [if_neg hf]; simp [hf]

/-- `get_values()` raises ValueError unless every coalition is known — whatever the other argument is -/
theorem toLowerBound_unknown (game inc : Table α) (h : game.full = false) :
    toLowerBound game inc = .error .value := by
  unfold toLowerBound; rw [getValues_none, h]; rfl

theorem upperToApproximation_unknown (approx inc : Table α) (h : approx.full = false) :
    upperToApproximation approx inc = .error .value := by
  unfold upperToApproximation; rw [getValues_none, h]; rfl

theorem toApproximation_unknown (game approx : Table α) (h : approx.full = false ∨ game.full = false) :
    toApproximation game approx = .error .value := by
  unfold toApproximation
  rw [getValues_none, getValues_none]
  rcases h with h | h
  · rw [h]; rfl
  · rw [h]; cases approx.full <;> rfl

/-- for `0 < lower ≤ v ≤ upper`: `mul_factor_lower_upper_bound ≥ mul_factor_to_lower_bound(v)`, both succeed -/
theorem lowerUpper_ge_toLower (game inc : Table α) (hn : game.n = inc.n) (hn0 : inc.n ≠ 0)
    (hfull : game.full = true) (hpos : ∀ c, 0 < c → c < 2 ^ inc.n → 0 < inc.lo c)
    (hlo : ∀ c, 0 < c → c < 2 ^ inc.n → inc.lo c ≤ game.hi c)
    (hhi : ∀ c, 0 < c → c < 2 ^ inc.n → game.hi c ≤ inc.hi c) :
    ∃ m₁ m₂, lowerUpperBound inc = .ok m₁ ∧ toLowerBound game inc = .ok m₂ ∧ m₂ ≤ m₁ := by
  rw [lowerUpperBound_eq, toLowerBound_eq game inc hn, if_pos hfull]
  obtain ⟨m₁, h₁⟩ := (factorFn_ok_iff inc.n inc.hi inc.lo).mpr
    ⟨⟨fun c h0 hc => le_trans (hlo c h0 hc) (hhi c h0 hc), hpos⟩, hn0⟩
  obtain ⟨m₂, h₂⟩ := (factorFn_ok_iff inc.n game.hi inc.lo).mpr ⟨⟨hlo, hpos⟩, hn0⟩
  exact ⟨m₁, m₂, h₁, h₂, factorFn_mono h₂ h₁ hhi (fun _ _ _ => le_rfl)⟩

/-- for `0 < approx ≤ v ≤ upper`: `mul_factor_upper_to_approximation ≥ mul_factor_to_approximation(v)` -/
theorem upperApprox_ge_toApprox (game approx inc : Table α) (hn : game.n = inc.n) (hna : approx.n = inc.n)
    (hn0 : inc.n ≠ 0) (hfull : game.full = true) (hafull : approx.full = true)
    (hpos : ∀ c, 0 < c → c < 2 ^ inc.n → 0 < approx.hi c)
    (hlo : ∀ c, 0 < c → c < 2 ^ inc.n → approx.hi c ≤ game.hi c)
    (hhi : ∀ c, 0 < c → c < 2 ^ inc.n → game.hi c ≤ inc.hi c) :
    ∃ m₁ m₂, upperToApproximation approx inc = .ok m₁ ∧ toApproximation game approx = .ok m₂ ∧ m₂ ≤ m₁ := by
  rw [upperToApproximation_eq approx inc hna, toApproximation_eq game approx (hn.trans hna.symm), if_pos hafull,
    if_pos hafull, if_pos hfull, hn]
  obtain ⟨m₁, h₁⟩ := (factorFn_ok_iff inc.n inc.hi approx.hi).mpr
    ⟨⟨fun c h0 hc => le_trans (hlo c h0 hc) (hhi c h0 hc), hpos⟩, hn0⟩
  obtain ⟨m₂, h₂⟩ := (factorFn_ok_iff inc.n game.hi approx.hi).mpr ⟨⟨hlo, hpos⟩, hn0⟩
  exact ⟨m₁, m₂, h₁, h₂, factorFn_mono h₂ h₁ hhi (fun _ _ _ => le_rfl)⟩

/-- chain rule: `max upper/approx ≤ (max upper/lower)·(max lower/approx)` -/
theorem upperApprox_le_chain {n : Nat} {hi lo a : Nat → α} {m₁ m₂ m₃ : α}
    (h₁ : factorFn n hi lo = .ok m₁) (h₂ : factorFn n lo a = .ok m₂) (h₃ : factorFn n hi a = .ok m₃) :
    m₃ ≤ m₁ * m₂ := factorFn_chain h₁ h₂ h₃

/-! #### a concrete 2-player instance: 0 < a ≤ lo ≤ v ≤ hi on the coalitions 1, 2, 3 -/

def exVec (l : List Rat) : Nat → Rat := fun c => l.getD c 0
def exInc : Table Rat := { n := 2, known := fun c => c == 0, lo := exVec [0, 1, 2, 2], hi := exVec [0, 3, 4, 5] }
def exGame : Table Rat := { n := 2, known := fun _ => true, lo := exVec [0, 2, 3, 4], hi := exVec [0, 2, 3, 4] }
def exApprox : Table Rat := { n := 2, known := fun _ => true, lo := exVec [0, 1 / 2, 1, 2], hi := exVec [0, 1 / 2, 1, 2] }

example : lowerUpperBound exInc = .ok 3 := by decide +kernel
example : toLowerBound exGame exInc = .ok 2 := by decide +kernel
example : upperToApproximation exApprox exInc = .ok 6 := by decide +kernel
example : toApproximation exGame exApprox = .ok 4 := by decide +kernel
example : toLowerBound exInc exInc = .error .value := by decide +kernel          -- unknown coalitions
example : lowerUpperBound ({ n := 0, known := fun _ => true, lo := exVec [0], hi := exVec [0] } : Table Rat)
    = .error .value := by decide +kernel                                          -- n = 0
example : ∃ m₁ m₂, lowerUpperBound exInc = .ok m₁ ∧ toLowerBound exGame exInc = .ok m₂ ∧ m₂ ≤ m₁ :=
  lowerUpper_ge_toLower exGame exInc rfl (by decide) (by decide +kernel)
    (by intro c h0 hc; have : c < 4 := hc; interval_cases c <;> decide +kernel)
    (by intro c h0 hc; have : c < 4 := hc; interval_cases c <;> decide +kernel)
    (by intro c h0 hc; have : c < 4 := hc; interval_cases c <;> decide +kernel)
example : ∃ m₁ m₂, upperToApproximation exApprox exInc = .ok m₁ ∧ toApproximation exGame exApprox = .ok m₂ ∧ m₂ ≤ m₁ :=
  upperApprox_ge_toApprox exGame exApprox exInc rfl rfl (by decide) (by decide +kernel) (by decide +kernel)
    (by intro c h0 hc; have : c < 4 := hc; interval_cases c <;> decide +kernel)
    (by intro c h0 hc; have : c < 4 := hc; interval_cases c <;> decide +kernel)
    (by intro c h0 hc; have : c < 4 := hc; interval_cases c <;> decide +kernel)

/-! ### NaN entries -/

/-- on vectors without NaN the NaN-aware function is `factor` -/
theorem factorN_finite (num den : List α) : factorN (num.map some) (den.map some) = factor num den :=
  factorN_some num den

/-- a NaN never reaches `np.max` -/
theorem factorN_never_nan (num den : List (Option α)) : factorN num den ≠ .error .nan := factorN_ne_nan num den

/-- a NaN anywhere in two vectors of equal length: AssertionError -/
theorem factorN_nan_assert {num den : List (Option α)} (hlen : num.length = den.length)
    (h : none ∈ num ∨ none ∈ den) : factorN num den = .error .assert := factorN_nan hlen h

example : factorN [some (3 : Rat), none, some 5] [some 1, some 2, some 2] = .error .assert := by decide +kernel
example : factorN [some (3 : Rat), some 4, some 5] [some 1, some 2, some 2] = .ok 3 := by decide +kernel

/-! ## max_xos_approximation.py -/

/-! ### the comparisons that involve `sqrt(n)` -/

/-- `geSqrt x c n` decides `x ≥ c·√n`: for every `s ≥ 0` with `s² = n` -/
theorem geSqrt_iff (x c : α) (n : Nat) (s : α) (hs : 0 ≤ s) (hss : s * s = (n : α)) :
    geSqrt x c n = true ↔ c * s ≤ x := by
  unfold geSqrt
  have hsq : c * c * (n : α) = (c * s) * (c * s) := by rw [← hss]; ring
  by_cases hc : 0 ≤ c
  · rw [if_pos hc]
    simp only [Bool.and_eq_true, decide_eq_true_eq]
    have hcs : 0 ≤ c * s := mul_nonneg hc hs
    constructor
    · rintro ⟨hx, h⟩
      rw [hsq] at h
      by_contra hlt
      have hlt := not_le.mp hlt
      nlinarith
    · intro h
      refine ⟨le_trans hcs h, ?_⟩
      rw [hsq]; nlinarith
  · rw [if_neg hc]
    simp only [Bool.or_eq_true, decide_eq_true_eq]
    have hcs : c * s ≤ 0 := mul_nonpos_of_nonpos_of_nonneg (not_le.mp hc).le hs
    constructor
    · rintro (hx | h)
      · exact le_trans hcs hx
      · rw [hsq] at h
        by_contra hlt
        have hlt := not_le.mp hlt
        nlinarith
    · intro h
      by_cases hx : 0 ≤ x
      · exact Or.inl hx
      · right
        rw [hsq]
        have := not_le.mp hx
        nlinarith

/-- the real number a k-value stands for, given `s = √n` -/
def kValue (n : Nat) (s : α) : KVal → α
  | .sqrtMul k => (2 : α) ^ k * s
  | .full => (n : α)

/-- `len(constructed) + 1 >= k_value`: `KVal.reached` means `m ≥ 2^k·√n` resp. `m ≥ n` -/
theorem reached_iff (n : Nat) (kv : KVal) (m : Nat) (s : α) (hs : 0 ≤ s) (hss : s * s = (n : α)) :
    kv.reached n m = true ↔ kValue n s kv ≤ (m : α) := by
  cases kv with
  | full => simp [KVal.reached, kValue]
  | sqrtMul k =>
    simp only [KVal.reached, kValue, decide_eq_true_eq]
    have h44 : ((4 ^ k * n : Nat) : α) = ((2 : α) ^ k * s) * ((2 : α) ^ k * s) := by
      have : (4 : α) ^ k = (2 : α) ^ k * (2 : α) ^ k := by rw [← mul_pow]; norm_num
      rw [Nat.cast_mul, Nat.cast_pow, ← hss]; push_cast; rw [this]; ring
    have hpos : (0 : α) ≤ (2 : α) ^ k * s := mul_nonneg (by positivity) hs
    constructor
    · intro h
      have h' : ((4 ^ k * n : Nat) : α) ≤ ((m * m : Nat) : α) := Nat.cast_le.mpr h
      rw [h44, Nat.cast_mul] at h'
      by_contra hlt
      have hlt := not_le.mp hlt
      have hm : (0 : α) ≤ m := Nat.cast_nonneg m
      nlinarith
    · intro h
      have hm : (0 : α) ≤ m := Nat.cast_nonneg m
      have : ((4 ^ k * n : Nat) : α) ≤ ((m * m : Nat) : α) := by
        rw [h44, Nat.cast_mul]; nlinarith
      exact Nat.cast_le.mp this

/-- `_get_k_r_values`: the k-values are `2^k·√n` for exactly the exponents with `4^k < n` (then `n`), the r-values the
    powers of two below `n²` (then `n²`) -/
theorem kr_values (n : Nat) :
    (∀ k, k ∈ kExps n ↔ 4 ^ k < n) ∧ (∀ rv, rv ∈ rVals n ↔ (∃ r, rv = 2 ^ r ∧ 2 ^ r < n ^ 2) ∨ rv = n ^ 2) :=
  ⟨fun _ => mem_kExps, fun _ => mem_rVals⟩

/-- what is abstracted in the loop test of `_get_k_r_values`: over the reals `2^k·√n < n ⇔ 4^k < n` -/
theorem kr_loop_test (n k : Nat) (s : α) (hs : 0 ≤ s) (hss : s * s = (n : α)) :
    (2 : α) ^ k * s < (n : α) ↔ 4 ^ k < n := by
  have h44 : ((4 ^ k : Nat) : α) = (2 : α) ^ k * (2 : α) ^ k := by
    rw [Nat.cast_pow, ← mul_pow]; norm_num
  have h2pos : (0 : α) < (2 : α) ^ k := by positivity
  constructor
  · intro h
    have hspos : 0 < s := by
      rcases hs.lt_or_eq with h' | h'
      · exact h'
      · rw [← h', mul_zero] at h
        rw [← hss, ← h', mul_zero] at h
        exact absurd h (lt_irrefl _)
    have h2 : (2 : α) ^ k < s := by
      rw [← hss] at h
      exact lt_of_mul_lt_mul_right h hs
    have : ((4 ^ k : Nat) : α) < (n : α) := by
      rw [h44, ← hss]; nlinarith
    exact Nat.cast_lt.mp this
  · intro h
    have : ((4 ^ k : Nat) : α) < (n : α) := Nat.cast_lt.mpr h
    rw [h44, ← hss] at this
    have h2 : (2 : α) ^ k < s := by
      by_contra hle
      have hle := not_lt.mp hle
      nlinarith
    rw [← hss]
    exact mul_lt_mul_of_pos_right h2 (lt_trans h2pos h2)

example : kVals 10 = [.sqrtMul 0, .sqrtMul 1, .full] ∧ rVals 10 = [1, 2, 4, 8, 16, 32, 64, 100] := by decide +kernel
example : kVals 0 = [.full] ∧ rVals 0 = [0] ∧ kVals 4 = [.sqrtMul 0, .full] ∧ rVals 1 = [1] := by decide +kernel
/-- the loop index of the r-axis never exceeds the r-value it stands for (`new_value` uses the index) -/
example : ∀ (j rv : Nat), (rVals 7)[j]? = some rv → j ≤ rv := fun j rv => index_le_rVals 7 j rv

/-! ### `_approx_xos_subroutine` -/

section group
variable {β : Type} [AddCommGroup β]

/-- the additive vector holds the marginal contributions along the players of the coalition in increasing order;
    the queried ids are exactly the prefixes `c % 2^(p+1)` -/
theorem approxXos_spec (v : Nat → β) (c : Nat) :
    approxXos (okGet v) c =
      .ok ((players c).map (fun p => (p, v (c % 2 ^ (p + 1)) - v (c % 2 ^ p))),
           (players c).map (fun p => c % 2 ^ (p + 1))) := approxXos_okGet v c

/-- telescoping: the additive vector sums to `v(coalition) − v(∅)` -/
theorem approxXos_sum (v : Nat → β) (c : Nat) :
    ∃ av q, approxXos (okGet v) c = .ok (av, q) ∧ (av.map Prod.snd).sum = v c - v 0 := by
  refine ⟨_, _, approxXos_okGet v c, ?_⟩
  rw [List.map_map]
  exact marginals_sum_players v c

/-- the queried ids: one per player, the prefix of the coalition up to and including that player; the last one is
    the coalition itself -/
theorem approxXos_queried_prefixes (v : Nat → β) (c : Nat) :
    ∃ av q, approxXos (okGet v) c = .ok (av, q) ∧ q.length = size c ∧
      (∀ x ∈ q, x &&& c = x ∧ x ≠ 0) ∧ (c ≠ 0 → q.getLast? = some c) := by
  refine ⟨_, _, approxXos_okGet v c, ?_, ?_, ?_⟩
  · rw [List.length_map, size_eq_length_players]
  · intro x hx
    obtain ⟨p, hp, rfl⟩ := List.mem_map.mp hx
    have hcp := mem_players.mp hp
    constructor
    · apply sub_of_testBit
      intro i hi
      rw [Nat.testBit_mod_two_pow] at hi
      cases h : c.testBit i <;> simp_all
    · intro h0
      have : (c % 2 ^ (p + 1)).testBit p = true := by
        rw [Nat.testBit_mod_two_pow]; simp [hcp]
      rw [h0] at this
      simp at this
  · intro hc
    rw [List.getLast?_map]
    have hne := players_ne_nil hc
    obtain ⟨p, hp⟩ : ∃ p, (players c).getLast? = some p := by
      cases h : (players c).getLast? with
      | none => exact absurd (List.getLast?_eq_none_iff.mp h) hne
      | some p => exact ⟨p, rfl⟩
    rw [hp]
    simp only [Option.map_some, Option.some.injEq]
    apply mod_two_pow_eq_self_of_no_high
    intro i hi
    cases hci : c.testBit i with
    | false => rfl
    | true =>
      exfalso
      have hmem : i ∈ players c := mem_players.mpr hci
      -- `p` is the largest player of the sorted list
      have hsorted := players_pairwise c
      obtain ⟨l, hl⟩ : ∃ l, players c = l ++ [p] := List.getLast?_eq_some_iff.mp hp
      rw [hl] at hmem hsorted
      rcases List.mem_append.mp hmem with h | h
      · have := (List.pairwise_append.mp hsorted).2.2 i h p (by simp)
        omega
      · simp at h; omega

end group

example : approxXos (okGet (exVec [0, 1, 2, 6, 3, 4, 8, 12])) 5 = .ok ([(0, 1), (2, 3)], [1, 5]) := by decide +kernel
example : approxXos (okGet (exVec [0, 1, 2, 6, 3, 4, 8, 12])) 7 = .ok ([(0, 1), (1, 5), (2, 6)], [1, 3, 7]) := by
  decide +kernel

/-! ### `_max_subroutine` -/

/-- an answer of `_max_subroutine` on a complete game: the constructed coalition lies inside the coalition; it is
    empty or the test `len + 1 >= size` was False for its own size (the code checks BEFORE adding, so it never holds
    `size` players or more); every queried id is `C + player` for a part `C` of the result and a player of the
    coalition outside `C` -/
theorem maxSubroutine_result (v : Nat → α) (n coalition : Nat) (reached : Nat → Bool) (eps : α) (fuel : Nat)
    (r : Nat) (qs : List Nat) (h : maxSubroutine (okGet v) n coalition reached eps fuel = .ok (r, qs)) :
    r &&& coalition = r ∧ (r = 0 ∨ reached (size r) = false) ∧
    (∀ x ∈ qs, ∃ c' p, c' &&& r = c' ∧ coalition.testBit p = true ∧ c'.testBit p = false ∧ x = addPlayer c' p) :=
  maxSubroutine_spec v n coalition reached eps fuel r qs h

/-- integer `size = s`: the result has at most `s − 1` players (or is empty): `len(result) + 1 ≤ max(s, 1)` -/
theorem maxSubroutine_size_int (v : Nat → α) (n coalition s : Nat) (eps : α) (fuel : Nat) (r : Nat) (qs : List Nat)
    (h : maxSubroutine (okGet v) n coalition (fun m => decide (s ≤ m)) eps fuel = .ok (r, qs)) :
    size r + 1 ≤ max s 1 := by
  rcases (maxSubroutine_spec v n coalition _ eps fuel r qs h).2.1 with h0 | h0
  · rw [h0, size_zero]; omega
  · have : ¬ s ≤ size r := by simpa using h0
    omega

/-- `size` a k-value: `len(result) < 2^k·√n` resp. `< n` (or the result is empty) -/
theorem maxSubroutine_size_kval (v : Nat → α) (n coalition : Nat) (kv : KVal) (eps : α) (fuel : Nat) (r : Nat)
    (qs : List Nat) (h : maxSubroutine (okGet v) n coalition (kv.reached n) eps fuel = .ok (r, qs)) :
    r = 0 ∨ (match kv with
             | .sqrtMul k => size r * size r < 4 ^ k * n
             | .full => size r < n) := by
  rcases (maxSubroutine_spec v n coalition _ eps fuel r qs h).2.1 with h0 | h0
  · exact Or.inl h0
  · right
    cases kv with
    | sqrtMul k => simpa [KVal.reached] using h0
    | full => simpa [KVal.reached] using h0

/-- TERMINATION: with `0 < eps`, singletons ≥ 1 inside the coalition and `n < fuel·eps²` the fuel suffices: the call
    returns (it never answers the out-of-fuel marker `Err.other`) -/
theorem maxSubroutine_terminates (v : Nat → α) (n coalition : Nat) (reached : Nat → Bool) (eps : α) (fuel : Nat)
    (hn : n ≠ 0) (h1 : ∀ p ∈ players coalition, 1 ≤ v (singleton p)) (heps : 0 < eps)
    (hfuel : (n : α) < fuel * eps * eps) :
    ∃ res, maxSubroutine (okGet v) n coalition reached eps fuel = .ok res := by
  by_cases h0 : coalition = 0
  · exact ⟨(0, []), by unfold maxSubroutine; rw [if_pos h0]⟩
  · obtain ⟨init, -, hinit, heq⟩ := maxSubroutine_okGet v n coalition reached eps fuel h0 hn h1
    rw [heq]
    exact maxLoop_ok v coalition reached _ _ fuel init 0
      (schedule_below heps (lt_of_lt_of_le zero_lt_one hinit) hn hfuel)

/-- the answer does not depend on the fuel once it suffices -/
theorem maxSubroutine_fuel_irrelevant (get : Nat → Except Err α) (n coalition : Nat) (reached : Nat → Bool) (eps : α)
    {fuel fuel' : Nat} (hle : fuel ≤ fuel') (res : Nat × List Nat)
    (h : maxSubroutine get n coalition reached eps fuel = .ok res) :
    maxSubroutine get n coalition reached eps fuel' = .ok res := by
  unfold maxSubroutine at h ⊢
  split
  · rename_i hc; rw [if_pos hc] at h; exact h
  · rename_i hc
    rw [if_neg hc] at h
    cases hs : mapE (fun p => get (singleton p)) (players coalition) with
    | error e => rw [hs] at h; cases h
    | ok singles =>
      rw [hs] at h
      dsimp only at h ⊢
      split
      · rename_i hall
        rw [if_pos hall] at h
        cases hm : listMax? singles with
        | none => rw [hm] at h; cases h
        | some init =>
          rw [hm] at h
          dsimp only at h ⊢
          split
          · rename_i hn; rw [if_pos hn] at h; cases h
          · rename_i hn
            rw [if_neg hn] at h
            exact maxLoop_fuel_le get coalition reached _ _ hle _ _ res h
      · rename_i hall; rw [if_neg hall] at h; cases h

/-- the empty coalition: nothing is queried -/
theorem maxSubroutine_empty (get : Nat → Except Err α) (n : Nat) (reached : Nat → Bool) (eps : α) (fuel : Nat) :
    maxSubroutine get n 0 reached eps fuel = .ok (0, []) := rfl

/-- a singleton value below 1 inside the coalition: AssertionError -/
theorem maxSubroutine_assertion (v : Nat → α) (n coalition : Nat) (reached : Nat → Bool) (eps : α) (fuel : Nat)
    (hc : coalition ≠ 0) (h1 : ∃ p ∈ players coalition, v (singleton p) < 1) :
    maxSubroutine (okGet v) n coalition reached eps fuel = .error .assert :=
  maxSubroutine_assert v n coalition reached eps fuel hc h1

/-- v = (0, 1, 2, 6, 3, 4, 8, 12): greedy with eps = 1/2 and size 3 keeps {1, 2}; size 2 keeps one player -/
def exV3 : Nat → Rat := exVec [0, 1, 2, 6, 3, 4, 8, 12]
example : maxSubroutine (okGet exV3) 3 7 (fun m => decide (3 ≤ m)) (1 / 2) 13 = .ok (6, [1, 2, 4, 5, 6]) := by
  decide +kernel
example : maxSubroutine (okGet exV3) 3 7 (fun m => decide (2 ≤ m)) (1 / 2) 13 = .ok (4, [1, 2, 4]) := by
  decide +kernel
example : maxSubroutine (okGet exV3) 3 7 (fun m => decide (1 ≤ m)) (1 / 2) 13 = .ok (0, []) := by decide +kernel
/-- too little fuel is reported, never silently truncated -/
example : maxSubroutine (okGet exV3) 3 7 (fun m => decide (4 ≤ m)) (1 / 2) 2 = .error .other := by decide +kernel
example : ∃ res, maxSubroutine (okGet exV3) 3 7 (fun m => decide (4 ≤ m)) (1 / 2) 13 = .ok res :=
  maxSubroutine_terminates exV3 3 7 _ (1 / 2) 13 (by decide)
    (by intro p hp; have : p ∈ [0, 1, 2] := by
          have : players 7 = [0, 1, 2] := by decide +kernel
          rwa [this] at hp
        simp at this; rcases this with rfl | rfl | rfl <;> decide +kernel)
    (by norm_num) (by norm_num)

/-! ### `_compute_approximation` -/

/-- the vector `_compute_approximation` returns on a complete game with singletons ≥ 1 (`4αβ ≠ 0`): `0` for the empty
    coalition, otherwise the maximum (`approxValue_isMax`) of the largest singleton inside the coalition and of
    `len(cand & coalition)·r/(4αβ)` over all candidates, `r` the INDEX of the candidate's cell -/
theorem approximation_vector (v : Nat → α) (n : Nat) (cands : List (List (List Nat))) (alpha beta : α)
    (h1 : ∀ p, p < n → 1 ≤ v (singleton p)) (hu : ((4 : Nat) : α) * alpha * beta ≠ 0) :
    computeApproximation (okGet v) n cands alpha beta =
      .ok ((allCoalitions n).map (fun c =>
        if c = 0 then 0 else approxValue (((4 : Nat) : α) * alpha * beta) cands c (msOf v c))) :=
  computeApproximation_okGet v n cands alpha beta h1 hu

/-- entry `c` of the returned vector -/
theorem approximation_entry {v : Nat → α} {n : Nat} {cands : List (List (List Nat))} {alpha beta : α}
    (h1 : ∀ p, p < n → 1 ≤ v (singleton p)) (hu : ((4 : Nat) : α) * alpha * beta ≠ 0) {vals : List α}
    (h : computeApproximation (okGet v) n cands alpha beta = .ok vals) {c : Nat} (hc : c < 2 ^ n) :
    vals[c]? = some (if c = 0 then 0 else approxValue (((4 : Nat) : α) * alpha * beta) cands c (msOf v c)) := by
  rw [computeApproximation_okGet v n cands alpha beta h1 hu] at h
  simp only [Except.ok.injEq] at h
  subst h
  simp [allCoalitions, List.getElem?_range hc]

theorem approximation_empty {v : Nat → α} {n : Nat} {cands : List (List (List Nat))} {alpha beta : α}
    (h1 : ∀ p, p < n → 1 ≤ v (singleton p)) (hu : ((4 : Nat) : α) * alpha * beta ≠ 0) {vals : List α}
    (h : computeApproximation (okGet v) n cands alpha beta = .ok vals) : vals[0]? = some 0 := by
  rw [approximation_entry h1 hu h (Nat.two_pow_pos n)]; simp

/-- the value of a coalition is at least every singleton value inside it (in particular the largest) -/
theorem approximation_ge_singleton {v : Nat → α} {n : Nat} {cands : List (List (List Nat))} {alpha beta : α}
    (h1 : ∀ p, p < n → 1 ≤ v (singleton p)) (hu : ((4 : Nat) : α) * alpha * beta ≠ 0) {vals : List α}
    (h : computeApproximation (okGet v) n cands alpha beta = .ok vals) {c p : Nat} (hc : c < 2 ^ n)
    (hp : c.testBit p = true) : ∃ x, vals[c]? = some x ∧ v (singleton p) ≤ x := by
  have h0 : c ≠ 0 := by rintro rfl; simp at hp
  refine ⟨_, approximation_entry h1 hu h hc, ?_⟩
  rw [if_neg h0]
  exact le_trans (le_msOf v hp) (le_approxValue_self _ _ _ _)

/-- … and at least `len(cand & coalition)·r/(4αβ)` for every candidate of a cell with index `r` -/
theorem approximation_ge_candidate {v : Nat → α} {n : Nat} {cands : List (List (List Nat))} {alpha beta : α}
    (h1 : ∀ p, p < n → 1 ≤ v (singleton p)) (hu : ((4 : Nat) : α) * alpha * beta ≠ 0) {vals : List α}
    (h : computeApproximation (okGet v) n cands alpha beta = .ok vals) {c r cand : Nat} (hc : c < 2 ^ n) (h0 : c ≠ 0)
    (hin : InCell cands r cand) :
    ∃ x, vals[c]? = some x ∧ ((size (inter cand c) * r : Nat) : α) / (((4 : Nat) : α) * alpha * beta) ≤ x := by
  refine ⟨_, approximation_entry h1 hu h hc, ?_⟩
  rw [if_neg h0]
  exact newValue_le_approxValue _ _ _ _ hin

/-- monotone with respect to inclusion when `4αβ > 0` -/
theorem approximation_monotone {v : Nat → α} {n : Nat} {cands : List (List (List Nat))} {alpha beta : α}
    (h1 : ∀ p, p < n → 1 ≤ v (singleton p)) (hu : 0 < ((4 : Nat) : α) * alpha * beta) {vals : List α}
    (h : computeApproximation (okGet v) n cands alpha beta = .ok vals) {c c' : Nat} (hc' : c' < 2 ^ n)
    (hsub : c &&& c' = c) : ∃ x y, vals[c]? = some x ∧ vals[c']? = some y ∧ x ≤ y := by
  have hc : c < 2 ^ n := lt_of_le_of_lt (sub_le hsub) hc'
  refine ⟨_, _, approximation_entry h1 hu.ne' h hc, approximation_entry h1 hu.ne' h hc', ?_⟩
  by_cases h0 : c = 0
  · rw [if_pos h0]
    by_cases h0' : c' = 0
    · rw [if_pos h0']
    · rw [if_neg h0']
      obtain ⟨p, hp, he⟩ := msOf_mem v h0'
      have hp' : p < n := player_lt_of_lt hc' hp
      calc (0 : α) ≤ 1 := zero_le_one
        _ ≤ v (singleton p) := h1 p hp'
        _ = msOf v c' := he.symm
        _ ≤ _ := le_approxValue_self _ _ _ _
  · have h0' : c' ≠ 0 := by
      rintro rfl
      exact h0 (by simpa using hsub.symm)
    rw [if_neg h0, if_neg h0']
    exact approxValue_mono hu cands hsub (msOf_mono v hsub h0)

/-- LOWER BOUND for monotone submodular games with `v(∅) ≥ 0`: if every candidate of cell `r` lies inside a coalition
    along whose id order each of its players has a marginal contribution ≥ `r/(4αβ)` (`Witnessed`), then no entry
    exceeds the game -/
theorem approximation_lower_bound_submodular {v : Nat → α} {n : Nat} (hv : MonoSubmod n v)
    {cands : List (List (List Nat))} {alpha beta : α} (h1 : ∀ p, p < n → 1 ≤ v (singleton p))
    (hu : ((4 : Nat) : α) * alpha * beta ≠ 0) (hw : Witnessed n v (((4 : Nat) : α) * alpha * beta) cands)
    {vals : List α} (h : computeApproximation (okGet v) n cands alpha beta = .ok vals) {c : Nat} (hc : c < 2 ^ n) :
    ∃ x, vals[c]? = some x ∧ x ≤ v c := by
  refine ⟨_, approximation_entry h1 hu h hc, ?_⟩
  by_cases h0 : c = 0
  · rw [if_pos h0, h0]; exact hv.empty
  · rw [if_neg h0]; exact approxValue_le_game hv hw hc h0

/-- candidates in cell 2 beat the singletons: 3 players of {0,1,2} in cell r = 2 give 3·2/4 -/
example : computeApproximation (okGet exV3) 3 [[[], [], [7]]] 1 1 = .ok [0, 1, 2, 2, 3, 3, 3, 3] := by decide +kernel
example : computeApproximation (okGet exV3) 3 [[[], [], [7]]] (1 / 4) 1 = .ok [0, 2, 2, 4, 3, 4, 4, 6] := by
  decide +kernel
example : computeApproximation (okGet (exVec [0, 1 / 2, 2, 6, 3, 4, 8, 12])) 3 [] 1 1 = .error .assert := by
  decide +kernel

/-! ### the composition `compute_max_xos_approximation` -/

/-- TERMINATION of the whole computation on the domain `n > 0, v(∅) = 0, singletons ≥ 1, α > 0, β ≥ 1/2, ε > 0`
    with `n < fuel·ε²`: it returns a pair (no `Err.other`: neither out of fuel nor a repeating loop state) -/
theorem maxXos_returns {n : Nat} {v : Nat → α} {alpha beta eps : α} {fuelMax : Nat}
    (hd : Domain n v alpha beta eps fuelMax) :
    ∃ q vals, maxXos (okGet v) n alpha beta eps fuelMax = .ok (q, vals) := by
  obtain ⟨arr, q, hc⟩ := candidates_ok hd
  unfold maxXos
  rw [hc]
  dsimp only
  have hu : ((4 : Nat) : α) * alpha * beta ≠ 0 := by
    have : (0 : α) < ((4 : Nat) : α) * alpha * beta := by
      have h4 : ((4 : Nat) : α) = 4 := by norm_num
      have := hd.alpha_pos
      have := hd.beta_ge
      rw [h4]; positivity
    exact this.ne'
  rw [computeApproximation_okGet v n arr alpha beta hd.singles hu]
  exact ⟨_, _, rfl⟩

/-- the claim the repo's test checks, proved for monotone SUBMODULAR games: the approximated game is a lower bound -/
theorem maxXos_lower_bound_submodular {n : Nat} {v : Nat → α} (hv : MonoSubmod n v) {alpha beta eps : α}
    {fuelMax : Nat} (ha : 0 < alpha) (hb : 0 < beta) (h1 : ∀ p, p < n → 1 ≤ v (singleton p))
    {q : List Nat} {vals : List α} (h : maxXos (okGet v) n alpha beta eps fuelMax = .ok (q, vals)) :
    ∀ c, c < 2 ^ n → ∃ x, vals[c]? = some x ∧ x ≤ v c := by
  have hu : (0 : α) < ((4 : Nat) : α) * alpha * beta := by
    have h4 : ((4 : Nat) : α) = 4 := by norm_num
    rw [h4]; positivity
  unfold maxXos at h
  cases hc : candidates (okGet v) n alpha beta eps fuelMax with
  | error e => rw [hc] at h; cases h
  | ok res =>
    obtain ⟨arr, q'⟩ := res
    rw [hc] at h
    dsimp only at h
    cases ha' : computeApproximation (okGet v) n arr alpha beta with
    | error e => rw [ha'] at h; cases h
    | ok vals' =>
      rw [ha'] at h
      simp only [Except.ok.injEq, Prod.mk.injEq] at h
      obtain ⟨-, rfl⟩ := h
      intro c hcl
      exact approximation_lower_bound_submodular hv h1 hu.ne'
        (candidates_witnessed v n alpha beta eps fuelMax hu arr q' hc) ha' hcl

/-- coverage of the items {x} and {x, y} (weights 1 and 2) by players 0 and 1: v = (0, 1, 3, 3) — monotone and
    submodular, not additive -/
def cov2 : Nat → Rat := exVec [0, 1, 3, 3]

theorem cov2_monoSubmod : MonoSubmod 2 cov2 where
  mono := by
    intro a b hab hb
    have hb' : b < 4 := hb
    have ha : a < 4 := lt_of_le_of_lt (sub_le hab) hb'
    interval_cases a <;> interval_cases b <;> first | decide +kernel | (exfalso; revert hab; decide)
  submod := by
    intro a b p hab hb hp hbp
    have hb' : b < 4 := hb
    have ha : a < 4 := lt_of_le_of_lt (sub_le hab) hb'
    interval_cases p <;> interval_cases a <;> interval_cases b <;>
      first | decide +kernel | (exfalso; revert hab; decide)
  empty := by decide +kernel

example : maxXos (okGet cov2) 2 1 1 (1 / 4) 40 = .ok ([1, 2], [0, 1, 3, 3]) := by decide +kernel
example : ∀ c, c < 2 ^ 2 → ∃ x, [(0 : Rat), 1, 3, 3][c]? = some x ∧ x ≤ cov2 c :=
  maxXos_lower_bound_submodular cov2_monoSubmod (by norm_num) (by norm_num)
    (by intro p hp; interval_cases p <;> decide +kernel)
    (by decide +kernel : maxXos (okGet cov2) 2 1 1 (1 / 4) 40 = .ok ([1, 2], [0, 1, 3, 3]))
example : Domain 2 cov2 1 1 (1 / 4) 40 where
  n_pos := by decide
  empty := by decide +kernel
  singles := by intro p hp; interval_cases p <;> decide +kernel
  alpha_pos := by norm_num
  beta_ge := by norm_num
  eps_pos := by norm_num
  fuel := by norm_num

/-- FINDING 2 — outside that domain (β < 1/2) the `while` loop of a cell can repeat its state.  Here, in the cell with
    k-value √3 and r-value 9, `_max_subroutine` returns {0}; `v({0}) = 4 ≥ √3·9/(2·4)`, but the marginal 4 of player 0 is
    below `9/(4·4·(1/8)) = 4.5`, so the candidate is empty and `_max_subroutine` on `{0} − ∅` returns {0} again — for
    ever.  The model reports the repetition as `Err.other`; the real call does not return (harness/corr_mul.py, family
    `beta<1/2`).  With β = 1/2 the same game is fine. -/
example : maxXos (okGet (exVec [0, 4, 1, 4, 2, 4, 2, 5])) 3 4 (1 / 8) (1 / 4) 100 = .error .other := by decide +kernel
example : maxXos (okGet (exVec [0, 4, 1, 4, 2, 4, 2, 5])) 3 4 (1 / 2) (1 / 4) 100
    = .ok ([1, 2, 3, 4, 5, 6], [0, 4, 1, 4, 2, 4, 2, 4]) := by decide +kernel

/-! ### FINDING: not a lower bound for monotone subadditive games (the docstring's hypotheses) -/

/-- values on the 5 active players 0..4; player 5 adds nothing to a non-empty coalition -/
def pin6L : List Rat := [0, 1, 11/2, 11/2, 1, 1, 181/32, 13/2, 11/2, 11/2, 11, 11, 11/2, 11/2, 11, 11,
  83/64, 83/64, 435/64, 435/64, 83/64, 83/64, 435/64, 435/64, 213/32, 213/32, 12, 389/32, 435/64, 435/64, 12, 787/64]

def pin6 (c : Nat) : Rat := if c % 32 = 0 then (if c = 0 then 0 else 1) else pin6L.getD (c % 32) 0

/-- monotone on the coalitions of `n` players -/
def MonotoneB (n : Nat) (v : Nat → Rat) : Bool :=
  (List.range (2 ^ n)).all fun c => (List.range n).all fun i => decide (v c ≤ v (c ||| 2 ^ i))
/-- subadditive: `v(a ∪ b) ≤ v(a) + v(b)` for disjoint `a`, `b` -/
def SubadditiveB (n : Nat) (v : Nat → Rat) : Bool :=
  (List.range (2 ^ n)).all fun a => (List.range (2 ^ n)).all fun b =>
    a &&& b != 0 || decide (v (a ||| b) ≤ v a + v b)

/-- `pin6` is monotone, subadditive, `v(∅) = 0`, all singletons are ≥ 1 — and `compute_max_xos_approximation` with
    α = β = 1, ε = 1/8 returns a game whose value on the coalition {0, 2, 4} (id 21) is 3/2 > 83/64 = v({0,2,4}) -/
theorem lower_bound_fails_subadditive :
    MonotoneB 6 pin6 = true ∧ SubadditiveB 6 pin6 = true ∧ pin6 0 = 0 ∧
    ((List.range 6).all fun p => decide (1 ≤ pin6 (singleton p))) = true ∧
    (maxXos (okGet pin6) 6 1 1 (1 / 8) 400).map (fun r => r.2[21]?) = .ok (some (3 / 2)) ∧
    pin6 21 = 83 / 64 := by
  refine ⟨?_, ?_, ?_, ?_, ?_, ?_⟩ <;> decide +kernel

/-- the hypotheses of the termination theorem hold for this instance: the fuel 400 suffices -/
example : Domain 6 pin6 1 1 (1 / 8) 400 where
  n_pos := by decide
  empty := by decide +kernel
  singles := by intro p hp; interval_cases p <;> decide +kernel
  alpha_pos := by norm_num
  beta_ge := by norm_num
  eps_pos := by norm_num
  fuel := by norm_num

/-- on a monotone submodular game the same parameters give a lower bound: budget-additive min(3, |S|) -/
def budget3 (c : Nat) : Rat := min 3 (size c)
example : (maxXos (okGet budget3) 4 1 1 (1 / 8) 300).map (fun r => r.2) =
    .ok [0, 1, 1, 1, 1, 1, 1, 1, 1, 1, 1, 1, 1, 1, 1, 1] := by decide +kernel
example : (candidates (okGet budget3) 4 1 1 (1 / 8) 300) =
    .ok ([[[], [], [], [], []], [[7], [], [], [], []]], [1, 3, 7]) := by decide +kernel

/-! ### the same statements for exactly the instantiation the driver runs (core `Rat`) -/

theorem factor_is_least_bound_atRat {num den : List Rat} (hlen : num.length = den.length) {m : Rat}
    (h : AtRat.factor num den = .ok m) :
    (∀ p ∈ num.zip den, p.1 ≤ m * p.2) ∧ (∃ p ∈ num.zip den, p.1 = m * p.2) ∧
    (∀ a, (∀ p ∈ num.zip den, p.1 ≤ a * p.2) → m ≤ a) ∧ 1 ≤ m := factor_spec hlen h

theorem lowerUpper_ge_toLower_atRat (game inc : Table Rat) (hn : game.n = inc.n) (hn0 : inc.n ≠ 0)
    (hfull : game.full = true) (hpos : ∀ c, 0 < c → c < 2 ^ inc.n → 0 < inc.lo c)
    (hlo : ∀ c, 0 < c → c < 2 ^ inc.n → inc.lo c ≤ game.hi c)
    (hhi : ∀ c, 0 < c → c < 2 ^ inc.n → game.hi c ≤ inc.hi c) :
    ∃ m₁ m₂, AtRat.lowerUpperBound inc = .ok m₁ ∧ AtRat.toLowerBound game inc = .ok m₂ ∧ m₂ ≤ m₁ :=
  lowerUpper_ge_toLower game inc hn hn0 hfull hpos hlo hhi

theorem maxSubroutine_terminates_atRat (v : Nat → Rat) (n coalition : Nat) (reached : Nat → Bool) (eps : Rat)
    (hn : n ≠ 0) (h1 : ∀ p ∈ players coalition, 1 ≤ v (singleton p)) (heps : 0 < eps) :
    ∃ res, maxSubroutine (okGet v) n coalition reached eps (AtRat.fuelFor n eps) = .ok res := by
  apply maxSubroutine_terminates v n coalition reached eps _ hn h1 heps
  unfold AtRat.fuelFor
  rw [if_pos heps]
  have hpos : (0 : Rat) < eps * eps := mul_pos heps heps
  have hfl : ((n : Rat) / (eps * eps)) < ((((n : Rat) / (eps * eps)).floor.toNat + 1 : Nat) : Rat) := by
    have h0 : (0 : Rat) ≤ (n : Rat) / (eps * eps) := div_nonneg (Nat.cast_nonneg n) hpos.le
    have hf0 : 0 ≤ ((n : Rat) / (eps * eps)).floor := Rat.le_floor_iff.mpr (by simpa using h0)
    have hint : ((((n : Rat) / (eps * eps)).floor.toNat + 1 : Nat) : Int) = ((n : Rat) / (eps * eps)).floor + 1 := by
      rw [Nat.cast_add, Nat.cast_one, Int.toNat_of_nonneg hf0]
    have hcast : ((((n : Rat) / (eps * eps)).floor.toNat + 1 : Nat) : Rat)
        = ((((n : Rat) / (eps * eps)).floor + 1 : Int) : Rat) := by
      rw [← hint]; exact (Int.cast_natCast _).symm
    rw [hcast]
    exact Rat.lt_floor_add_one _
  have := (div_lt_iff₀ hpos).mp hfl
  calc (n : Rat) < ((((n : Rat) / (eps * eps)).floor.toNat + 1 : Nat) : Rat) * (eps * eps) := this
    _ = ((((n : Rat) / (eps * eps)).floor.toNat + 1 : Nat) : Rat) * eps * eps := by ring

/-! ### FINDING at the DEFAULT parameters (alpha = 3.7844223824, beta = 1, eps = 0.05): n = 10 -/

/-- `pin10` (ICG/Lemmas/MulPin10Game.lean) is monotone, subadditive, has `v(∅) = 0` and singletons ≥ 1, and the
    approximated game exceeds it on the coalition {0,2,4,6,8}: `5/alpha ≈ 1.3212 > 1.2265625`.  The real code is run on
    the same numbers by harness/corr_mul.py (family `pin10`). -/
theorem lower_bound_fails_default :
    (∀ c i, c < 2 ^ 10 → i < 10 → pin10 c ≤ pin10 (c ||| 2 ^ i)) ∧
    (∀ a b, a < 2 ^ 10 → b < 2 ^ 10 → a &&& b = 0 → pin10 (a ||| b) ≤ pin10 a + pin10 b) ∧
    (∀ p, p < 10 → 1 ≤ pin10 (singleton p)) ∧ pin10 0 = 0 ∧
    ∃ q vals x, maxXos (okGet pin10) 10 alpha0 1 eps0 4100 = .ok (q, vals) ∧ vals[341]? = some x ∧ pin10 341 < x :=
  lower_bound_fails_default_parameters

example : pin10 341 = 157 / 128 ∧ (1321 : Rat) / 1000 < 5 / alpha0 ∧ 5 / alpha0 < 1322 / 1000 := by decide +kernel

end ICG.Mul
