/-
  Property C12 — evaluate().

  "For each repetition j, evaluate() returns the real trajectory of that repetition: row 0 of the gap
  matrix is the gap at minimal information, row t+1 the gap after the t-th coalition chosen in that
  repetition's hidden game, and the action matrix holds the ids actually revealed (distinct and
  explorable). For a fixed seed the result is the same for every number of worker processes, and distinct
  repetitions are evaluated on independently drawn hidden games (never replays of one another)."

  Theorems about ICG.Model.Search (`evalOne`, `evaluate`, the pool).  The environment is an abstract state
  machine (`EnvOps`), the solver an arbitrary function with its own state.
  * `trajectory`              — what one repetition's two rows contain, for every environment and solver;
  * `isolated_schedule_free`  — if a repetition's outcome is a function of its own environment alone (no
                                mutable state shared with other repetitions), every chunking — every
                                number of worker processes — gives the same matrices, equal to the plain
                                map over the environments;
  * `current_shared_rng`      — the model of the code before commit "fix: one child random stream per
    (`current_shared_solver_rng`, environment" does NOT satisfy that hypothesis, and the property fails for
     `current_not_isolated`)    it: concrete runs where two process counts assign different generator draws
                                to the repetitions, and where all repetitions of a parallel run see the same
                                draw (the same hidden game);
  * `repaired_draws`          — the model of the code AFTER that commit (ICG.Model.SearchRepaired: one child
                                stream per environment, a draw = (stream, position)): for every chunking
                                of the task list, in the sequential branch, for every solver, repetition j
                                is evaluated on draw (j, 2);
  * `repaired_distinct`       — (j, 2) ≠ (j', 2) for j ≠ j' (`repaired_draws_nodup`: pairwise, and never a
                                construction draw);
  * `repaired_isolated`,      — the repaired model is `Isolated` for every solver without mutable state,
    `repaired_schedule_free`    hence `evaluate()` = the plain map over the environments for EVERY `procs`;
  * `current_vs_repaired`     — both models decided on the same instance (4 repetitions, 1 vs 2 processes);
    `repaired_solver_rng_still_shared` — the random solver's own source is untouched by the repair.
  (That the ids are distinct and explorable is a property of the environment: C09.)
-/
import ICG.Lemmas.Search
import ICG.Model.SearchRepaired

namespace ICG.C12
open ICG ICG.Search

section trajectory
variable {α ε ρ ς : Type} [Neg α]

/-- the outcome `(reward, done, chosen coalition)` of the `t`-th step of the run that starts in solver
    state `s` and environment state `e`; `none` once an earlier step reported `done` (or raised). -/
def stepAt (E : EnvOps ε ρ α) (next : ς → ε → Except Err (ς × Nat)) : Nat → ς → ε → Option (α × Bool × Nat)
  | 0, s, e =>
    match next s e with
    | .error _ => none
    | .ok (_, a) =>
      match E.step e a with
      | .error _ => none
      | .ok (_, r, d, c) => some (r, d, c)
  | t + 1, s, e =>
    match next s e with
    | .error _ => none
    | .ok (s1, a) =>
      match E.step e a with
      | .error _ => none
      | .ok (e1, _, d, _) => if d then none else stepAt E next t s1 e1

theorem episodes_spec (E : EnvOps ε ρ α) (next : ς → ε → Except Err (ς × Nat)) :
    ∀ (f : Nat) (s : ς) (e : ε) (s' : ς) (gs : List α) (cs : List Nat),
      episodes E next f s e = .ok (s', gs, cs) →
      gs.length = cs.length ∧ gs.length ≤ f ∧
      ∀ t, t < f → gs[t]? = (stepAt E next t s e).map (fun x => -x.1) ∧
                    cs[t]? = (stepAt E next t s e).map (fun x => x.2.2) := by
  intro f
  induction f with
  | zero =>
    intro s e s' gs cs h
    simp only [episodes, Except.ok.injEq, Prod.mk.injEq] at h
    obtain ⟨_, rfl, rfl⟩ := h
    exact ⟨rfl, Nat.le_refl _, fun t ht => absurd ht (Nat.not_lt_zero t)⟩
  | succ f ih =>
    intro s e s' gs cs h
    simp only [episodes] at h
    cases hn : next s e with
    | error err => rw [hn] at h; cases h
    | ok p =>
      obtain ⟨s1, a⟩ := p
      rw [hn] at h
      simp only at h
      cases hs : E.step e a with
      | error err => rw [hs] at h; cases h
      | ok q =>
        obtain ⟨e1, r, d, c⟩ := q
        rw [hs] at h
        simp only at h
        cases d with
        | true =>
          simp only [↓reduceIte, Except.ok.injEq, Prod.mk.injEq] at h
          obtain ⟨_, rfl, rfl⟩ := h
          refine ⟨rfl, by simp, fun t _ => ?_⟩
          cases t with
          | zero => simp [stepAt, hn, hs]
          | succ t => simp [stepAt, hn, hs]
        | false =>
          simp only [Bool.false_eq_true, ↓reduceIte] at h
          cases hr : episodes E next f s1 e1 with
          | error err => rw [hr] at h; cases h
          | ok w =>
            obtain ⟨s2, gs', cs'⟩ := w
            rw [hr] at h
            simp only [Except.ok.injEq, Prod.mk.injEq] at h
            obtain ⟨_, rfl, rfl⟩ := h
            obtain ⟨h1, h2, h3⟩ := ih s1 e1 s2 gs' cs' hr
            refine ⟨by simp [h1], by simp only [List.length_cons]; omega, fun t ht => ?_⟩
            cases t with
            | zero => simp [stepAt, hn, hs]
            | succ t =>
              have := h3 t (by omega)
              simp only [List.getElem?_cons_succ, stepAt, hn, hs, Bool.false_eq_true, ↓reduceIte]
              exact this

variable [Zero α]

/-- **C12_trajectory** (one repetition, any environment, any solver, any shared state `st` it starts
    from).  If `eval_one` returns the rows `(G, I)` then, with `e₀` the environment after ITS OWN reset:
    `G` has `limit + 1` entries and `I` has `limit`; `G[0] = −reward(e₀)` (the reward is minus the gap, so
    this is the gap at the initial knowledge of this repetition's hidden game); for every `t < limit`,
    if the `t`-th step of this repetition's own run took place — no earlier step reported `done` — then
    `G[t+1] = −(reward returned by that step)` and `I[t]` is the coalition id that step revealed;
    otherwise both are the filler `0`. -/
theorem trajectory (E : EnvOps ε ρ α) (next : ς → ε → Except Err (ς × Nat)) (limit : Nat)
    (st st' : ρ × ς) (env : ε) (G : List α) (I : List Nat)
    (h : evalOne E next limit st env = .ok (st', (G, I))) :
    let e0 := (E.reset env st.1).1
    G.length = limit + 1 ∧ I.length = limit ∧ G[0]? = some (-(E.reward e0)) ∧
    ∀ t, t < limit →
      match stepAt E next t st.2 e0 with
      | some (r, _, c) => G[t + 1]? = some (-r) ∧ I[t]? = some c
      | none => G[t + 1]? = some 0 ∧ I[t]? = some 0 := by
  simp only [evalOne] at h
  cases hep : episodes E next limit st.2 (E.reset env st.1).1 with
  | error err => rw [hep] at h; cases h
  | ok w =>
    obtain ⟨s, gs, cs⟩ := w
    rw [hep] at h
    simp only [Except.ok.injEq, Prod.mk.injEq] at h
    obtain ⟨_, rfl, rfl⟩ := h
    obtain ⟨h1, h2, h3⟩ := episodes_spec E next limit st.2 _ s gs cs hep
    refine ⟨by simp only [List.length_cons, List.length_append, List.length_replicate]; omega,
            by simp only [List.length_append, List.length_replicate]; omega, by simp, fun t ht => ?_⟩
    obtain ⟨hg, hc⟩ := h3 t ht
    simp only [List.cons_append, List.getElem?_cons_succ]
    cases hst : stepAt E next t st.2 (E.reset env st.1).1 with
    | some x =>
      obtain ⟨r, d, c⟩ := x
      rw [hst] at hg hc
      simp only [Option.map_some] at hg hc
      have hlt : t < gs.length := by
        by_contra hcon
        rw [List.getElem?_eq_none (by omega)] at hg
        cases hg
      exact ⟨by rw [List.getElem?_append_left hlt]; exact hg,
             by rw [List.getElem?_append_left (by omega)]; exact hc⟩
    | none =>
      rw [hst] at hg hc
      simp only [Option.map_none] at hg hc
      have hge : gs.length ≤ t := by
        by_contra hcon
        rw [List.getElem?_eq_getElem (by omega)] at hg
        cases hg
      constructor
      · rw [List.getElem?_append_right hge, List.getElem?_replicate]
        simp only [ite_eq_left_iff]; intro hh; omega
      · rw [List.getElem?_append_right (by omega), List.getElem?_replicate]
        simp only [ite_eq_left_iff]; intro hh; omega

end trajectory

/-! ### non-vacuity: a two-step run that is done after its second step -/
section examples

/-- scripted environment: state = number of steps taken; done after 2 steps; reward −(10 − 3·steps) -/
def demoEnv : EnvOps Nat Unit Int :=
  { reset := fun _ r => (0, r), reward := fun e => -(10 - 3 * (e : Int)),
    step := fun e a => .ok (e + 1, -(10 - 3 * ((e : Int) + 1)), decide (e + 1 ≥ 2), 100 + a) }

def demoNext : Nat → Nat → Except Err (Nat × Nat) := fun s e => .ok (s + 1, 7 * s + e)

example : (evalOne demoEnv demoNext 4 ((), 0) 5).toOption = some (((), 2), ([10, 7, 4, 0, 0], [100, 108, 0, 0])) := by
  decide
example : stepAt demoEnv demoNext 1 0 0 = some (-4, true, 108) ∧ stepAt demoEnv demoNext 2 0 0 = none := by
  decide

end examples

/-! ### schedules -/
section schedule
variable {α ε ρ ς : Type} [Neg α] [Zero α]

/-- a repetition is *isolated* when its rows are a function `g` of its own environment — whatever
    generator state and solver state it is started from, i.e. it shares no mutable state with the
    other repetitions -/
def Isolated (E : EnvOps ε ρ α) (next : ς → ε → Except Err (ς × Nat)) (limit : Nat)
    (g : ε → Except Err (List α × List Nat)) : Prop :=
  ∀ (st : ρ × ς) (env : ε), (evalOne E next limit st env).map (·.2) = g env

/-- **C12_isolated_schedule_free**: with isolated repetitions, EVERY partition of the repetitions into
    consecutive pool chunks, started from any snapshot of the shared objects, yields the plain map of `g`
    over the environments — so the result is the same for every number of worker processes. -/
theorem isolated_schedule_free (E : EnvOps ε ρ α) (next : ς → ε → Except Err (ς × Nat)) (limit : Nat)
    (g : ε → Except Err (List α × List Nat)) (hiso : Isolated E next limit g)
    (snapshot : ρ × ς) (chunks : List (List ε)) :
    runPool (evalOne E next limit) snapshot chunks = mapE g chunks.flatten := by
  refine runPool_of_stateFree (Inv := fun _ => True) (P := fun _ => True) ?_ snapshot trivial chunks
    (fun _ _ => trivial)
  intro st env _ _
  have := hiso st env
  cases h : evalOne E next limit st env with
  | error e => rw [h] at this; exact this.symm
  | ok p => obtain ⟨st', r⟩ := p; rw [h] at this; exact ⟨trivial, this.symm⟩

/-- the parallel branch of `evaluate` for two process counts -/
theorem isolated_par_eq (E : EnvOps ε ρ α) (mk : ρ → ε × ρ) (next : ς → ε → Except Err (ς × Nat))
    (limit reps : Nat) (g : ε → Except Err (List α × List Nat)) (hiso : Isolated E next limit g)
    (st : ρ × ς) (p q : Nat) (hp : 0 < p) (hq : 0 < q) :
    evaluatePar E mk next limit reps p st = evaluatePar E mk next limit reps q st := by
  have hp' : p ≠ 0 := by omega
  have hq' : q ≠ 0 := by omega
  simp only [evaluatePar, starmap, hp', hq', ↓reduceIte]
  rw [isolated_schedule_free E next limit g hiso, isolated_schedule_free E next limit g hiso,
    poolChunks_flatten _ hp, poolChunks_flatten _ hq]

/-- … and the sequential branch agrees with them when, in addition, evaluating a repetition leaves the
    state from which environments are constructed alone -/
theorem isolated_seq_eq_par (E : EnvOps ε ρ α) (mk : ρ → ε × ρ) (next : ς → ε → Except Err (ς × Nat))
    (limit : Nat) (g : ε → Except Err (List α × List Nat)) (hiso : Isolated E next limit g)
    (hρ : ∀ st env st' r, evalOne E next limit st env = .ok (st', r) → st'.1 = st.1) :
    ∀ (reps : Nat) (st : ρ × ς), (evaluateSeq E mk next limit reps st).map (·.2) = mapE g (mkEnvs mk reps st.1).1 := by
  intro reps
  induction reps with
  | zero => intro st; rfl
  | succ reps ih =>
    intro st
    simp only [evaluateSeq, mkEnvs, mapE]
    have hg := hiso ((mk st.1).2, st.2) (mk st.1).1
    cases h1 : evalOne E next limit ((mk st.1).2, st.2) (mk st.1).1 with
    | error e => rw [h1] at hg; rw [← hg]; rfl
    | ok p =>
      obtain ⟨st1, r⟩ := p
      rw [h1] at hg
      have hst1 : st1.1 = (mk st.1).2 := hρ _ _ _ _ h1
      have := ih st1
      rw [hst1] at this
      rw [← hg]
      simp only [Except.map]
      cases h2 : evaluateSeq E mk next limit reps st1 with
      | error e => rw [h2] at this; simp only [Except.map] at this; rw [← this]
      | ok w => obtain ⟨st2, rest⟩ := w; rw [h2] at this; simp only [Except.map] at this; rw [← this]

end schedule

/-! ### model of the code before commit "fix: one child random stream per environment":
    one generator RNG shared by all environments -/

/-- generator draw seen by each repetition (row 0 of `poolDraws`) -/
def drawsSeen (reps procs : Nat) : Option (List Int) :=
  (poolDraws 2 0 reps procs).toOption.map (fun rows => rows.map (fun r => r.1.headD 0))

/-- **C12_current_shared_rng** — the negation for the model of the code before commit "fix: one child random
    stream per environment" (`ICG_Gym.__init__` draws twice, `eval_one` once, all from the instance's single RNG):
    with 1 process repetition j sees draw 3j+2 — four different hidden games; with 2 processes all four
    repetitions see draw 8 — one hidden game replayed four times; with 16 repetitions and 2 processes the
    chunks have two tasks and every chunk replays draws 32, 33.  So the result depends on the number of
    worker processes and repetitions are replays of one another. -/
theorem current_shared_rng :
    drawsSeen 4 1 = some [2, 5, 8, 11] ∧ drawsSeen 4 2 = some [8, 8, 8, 8] ∧
    drawsSeen 4 1 ≠ drawsSeen 4 2 ∧
    drawsSeen 16 2 = some [32, 33, 32, 33, 32, 33, 32, 33, 32, 33, 32, 33, 32, 33, 32, 33] ∧
    drawsSeen 16 3 = some [32, 33, 32, 33, 32, 33, 32, 33, 32, 33, 32, 33, 32, 33, 32, 33] ∧
    drawsSeen 16 1 = some [2, 5, 8, 11, 14, 17, 20, 23, 26, 29, 32, 35, 38, 41, 44, 47] := by
  decide

/-- (model of the code before commit "fix: one child random stream per environment"; that commit does not
    touch the solver, see `repaired_solver_rng_still_shared`.)
    the solver's own random source (solvers/random.py) is shared the same way: with 2 steps per
    repetition, sequentially repetition j uses solver draws 2j, 2j+1; in a pool every chunk restarts at 0. -/
theorem current_shared_solver_rng :
    (poolDraws 2 2 3 1).toOption.map (fun rows => rows.map (·.2)) = some [[0, 1], [2, 3], [4, 5]] ∧
    (poolDraws 2 2 3 2).toOption.map (fun rows => rows.map (·.2)) = some [[0, 1], [0, 1], [0, 1]] := by
  decide

/-- and the model of the code before commit "fix: one child random stream per environment" is indeed not
    `Isolated`: the same environment evaluated from two generator states gives different rows -/
theorem current_not_isolated :
    ¬ ∃ g, Isolated (drawEnv 2).1 drawSolver 0 g := by
  rintro ⟨g, hg⟩
  have h1 := hg (0, 0) 0
  have h2 := hg (1, 0) 0
  rw [← h2] at h1
  revert h1
  decide

/-! ### the REPAIRED code: one child generator per environment

Model: `ICG.Model.SearchRepaired` (`drawRepaired`, `repairedEnv`, `repairedMk`, `mkEnvsRepaired`,
`evaluateRepaired` = the unchanged `evaluate` instantiated with them). -/
section repaired
variable {ς : Type}

theorem Draw.neg_neg (d : Draw) : - -d = d := by
  cases d with
  | mk a b =>
    show Draw.mk (- -a) (- -b) = Draw.mk a b
    rw [Int.neg_neg, Int.neg_neg]

/-- draw identities are faithful: different (stream, position) pairs are different draws -/
theorem drawRepaired_inj {j k j' k' : Nat} : drawRepaired j k = drawRepaired j' k' ↔ j = j' ∧ k = k' := by
  simp only [drawRepaired, Draw.mk.injEq]
  omega

/-- the environments the parent constructs, from spawn counter `c`: environment `j` owns stream `c + j`,
    has consumed its positions 0 and 1; the counter ends at `c + reps` -/
theorem mkEnvs_repaired : ∀ (reps c : Nat),
    mkEnvs repairedMk reps c = ((List.range reps).map (fun j => (repairedMk (c + j)).1), c + reps) := by
  intro reps
  induction reps with
  | zero => intro c; rfl
  | succ reps ih =>
    intro c
    simp only [mkEnvs, ih (repairedMk c).2, List.range_succ_eq_map, List.map_cons, List.map_map]
    refine Prod.ext ?_ ?_
    · simp only [Nat.add_zero, List.cons.injEq, true_and]
      apply List.map_congr_left
      intro j _
      simp only [repairedMk, Function.comp]
      rw [show c + 1 + j = c + (j + 1) by omega]
    · simp only [repairedMk]; omega

theorem mkEnvsRepaired_eq (reps : Nat) :
    mkEnvsRepaired reps =
      (List.range reps).map (fun j => ({ stream := j, pos := 2, game := drawRepaired j 1 } : RepEnv)) := by
  simp only [mkEnvsRepaired, mkEnvs_repaired, repairedMk, Nat.zero_add]

theorem episodes_repaired (next : ς → RepEnv → Except Err (ς × Nat)) :
    ∀ (f : Nat) (s : ς) (e : RepEnv) (s' : ς) (gs : List Draw) (cs : List Nat),
      episodes repairedEnv next f s e = .ok (s', gs, cs) → gs = List.replicate f e.game ∧ cs.length = f := by
  intro f
  induction f with
  | zero =>
    intro s e s' gs cs h
    simp only [episodes, Except.ok.injEq, Prod.mk.injEq] at h
    obtain ⟨_, rfl, rfl⟩ := h
    exact ⟨rfl, rfl⟩
  | succ f ih =>
    intro s e s' gs cs h
    simp only [episodes] at h
    cases hn : next s e with
    | error err => rw [hn] at h; cases h
    | ok p =>
      obtain ⟨s1, a⟩ := p
      rw [hn] at h
      simp only [repairedEnv, Bool.false_eq_true, ↓reduceIte] at h
      cases hr : episodes repairedEnv next f s1 e with
      | error err => simp only [repairedEnv] at hr; rw [hr] at h; cases h
      | ok w =>
        obtain ⟨s2, gs', cs'⟩ := w
        obtain ⟨h1, h2⟩ := ih s1 e s2 gs' cs' hr
        simp only [repairedEnv] at hr
        rw [hr] at h
        simp only [Except.ok.injEq, Prod.mk.injEq] at h
        obtain ⟨_, rfl, rfl⟩ := h
        exact ⟨by rw [h1, Draw.neg_neg, List.replicate_succ], by simp only [List.length_cons, h2]⟩

/-- one repetition under the repaired plumbing, from ANY shared state and for ANY solver: the spawn
    counter is left alone, and every gap row shows the next draw of the environment's own stream -/
theorem evalOne_repaired (next : ς → RepEnv → Except Err (ς × Nat)) (limit : Nat)
    (st st' : Nat × ς) (env : RepEnv) (G : List Draw) (I : List Nat)
    (h : evalOne repairedEnv next limit st env = .ok (st', (G, I))) :
    st'.1 = st.1 ∧ G = List.replicate (limit + 1) (drawRepaired env.stream env.pos) ∧ I.length = limit := by
  simp only [evalOne] at h
  cases hep : episodes repairedEnv next limit st.2 (repairedEnv.reset env st.1).1 with
  | error err => rw [hep] at h; cases h
  | ok w =>
    obtain ⟨s, gs, cs⟩ := w
    rw [hep] at h
    simp only [Except.ok.injEq, Prod.mk.injEq] at h
    obtain ⟨rfl, rfl, rfl⟩ := h
    obtain ⟨h1, h2⟩ := episodes_repaired next limit st.2 _ s gs cs hep
    refine ⟨rfl, ?_, ?_⟩
    · rw [h1]
      simp only [repairedEnv, Draw.neg_neg, List.length_replicate, Nat.sub_self, List.replicate_zero,
        List.append_nil, List.replicate_succ]
    · simp only [List.length_append, List.length_replicate, h2, Nat.sub_self, Nat.add_zero]

/-! generic pool facts: a per-task fact about the result survives every chunking; total tasks give a
    total pool -/

theorem runChunk_map_of {σ τ ρ ε β : Type} {step : σ → τ → Except ε (σ × ρ)} {π : ρ → β} {h : τ → β}
    (H : ∀ s t s' r, step s t = .ok (s', r) → π r = h t) :
    ∀ (ts : List τ) (s : σ) (rs : List ρ), runChunk step s ts = .ok rs → rs.map π = ts.map h := by
  intro ts
  induction ts with
  | nil => intro s rs hr; simp only [runChunk, Except.ok.injEq] at hr; subst hr; rfl
  | cons t ts ih =>
    intro s rs hr
    simp only [runChunk] at hr
    cases hst : step s t with
    | error e => rw [hst] at hr; cases hr
    | ok p =>
      obtain ⟨s', r⟩ := p
      rw [hst] at hr
      simp only at hr
      cases hrest : runChunk step s' ts with
      | error e => rw [hrest] at hr; cases hr
      | ok rs' =>
        rw [hrest] at hr
        simp only [Except.ok.injEq] at hr
        subst hr
        simp only [List.map_cons, H s t s' r hst, ih s' rs' hrest]

theorem runPool_map_of {σ τ ρ ε β : Type} {step : σ → τ → Except ε (σ × ρ)} {π : ρ → β} {h : τ → β}
    (H : ∀ s t s' r, step s t = .ok (s', r) → π r = h t) (snapshot : σ) :
    ∀ (chunks : List (List τ)) (rs : List ρ), runPool step snapshot chunks = .ok rs →
      rs.map π = chunks.flatten.map h := by
  intro chunks
  induction chunks with
  | nil => intro rs hr; simp only [runPool, Except.ok.injEq] at hr; subst hr; rfl
  | cons c cs ih =>
    intro rs hr
    simp only [runPool] at hr
    cases hc : runChunk step snapshot c with
    | error e => rw [hc] at hr; cases hr
    | ok r =>
      rw [hc] at hr
      simp only at hr
      cases hcs : runPool step snapshot cs with
      | error e => rw [hcs] at hr; cases hr
      | ok rs' =>
        rw [hcs] at hr
        simp only [Except.ok.injEq] at hr
        subst hr
        simp only [List.map_append, List.flatten_cons, runChunk_map_of H c snapshot r hc, ih rs' hcs]

theorem runChunk_total {σ τ ρ ε : Type} {step : σ → τ → Except ε (σ × ρ)}
    (H : ∀ s t, ∃ p, step s t = .ok p) : ∀ (ts : List τ) (s : σ), ∃ rs, runChunk step s ts = .ok rs := by
  intro ts
  induction ts with
  | nil => intro s; exact ⟨[], rfl⟩
  | cons t ts ih =>
    intro s
    obtain ⟨⟨s', r⟩, hp⟩ := H s t
    obtain ⟨rs, hrs⟩ := ih s'
    exact ⟨r :: rs, by simp only [runChunk, hp, hrs]⟩

theorem runPool_total {σ τ ρ ε : Type} {step : σ → τ → Except ε (σ × ρ)}
    (H : ∀ s t, ∃ p, step s t = .ok p) (snapshot : σ) :
    ∀ (chunks : List (List τ)), ∃ rs, runPool step snapshot chunks = .ok rs := by
  intro chunks
  induction chunks with
  | nil => exact ⟨[], rfl⟩
  | cons c cs ih =>
    obtain ⟨r, hr⟩ := runChunk_total H c snapshot
    obtain ⟨rs, hrs⟩ := ih
    exact ⟨r ++ rs, by simp only [runPool, hr, hrs]⟩

/-- the sequential branch, from any spawn counter `c` -/
theorem evaluateSeq_repaired (next : ς → RepEnv → Except Err (ς × Nat)) (limit : Nat) :
    ∀ (reps c : Nat) (s : ς) (st' : Nat × ς) (rows : List (List Draw × List Nat)),
      evaluateSeq repairedEnv repairedMk next limit reps (c, s) = .ok (st', rows) →
      rows.map (·.1) = (List.range reps).map (fun j => List.replicate (limit + 1) (drawRepaired (c + j) 2)) := by
  intro reps
  induction reps with
  | zero =>
    intro c s st' rows h
    simp only [evaluateSeq, Except.ok.injEq, Prod.mk.injEq] at h
    obtain ⟨_, rfl⟩ := h
    rfl
  | succ reps ih =>
    intro c s st' rows h
    simp only [evaluateSeq] at h
    cases h1 : evalOne repairedEnv next limit ((repairedMk c).2, s) (repairedMk c).1 with
    | error e => rw [h1] at h; cases h
    | ok p =>
      obtain ⟨st1, G, I⟩ := p
      rw [h1] at h
      simp only at h
      obtain ⟨hc, hG, _⟩ := evalOne_repaired next limit _ st1 _ G I h1
      obtain ⟨c1, s1⟩ := st1
      simp only at hc
      subst hc
      cases h2 : evaluateSeq repairedEnv repairedMk next limit reps ((repairedMk c).2, s1) with
      | error e => rw [h2] at h; cases h
      | ok w =>
        obtain ⟨st2, rest⟩ := w
        rw [h2] at h
        simp only [Except.ok.injEq, Prod.mk.injEq] at h
        obtain ⟨_, rfl⟩ := h
        have := ih (repairedMk c).2 s1 st2 rest h2
        simp only [List.map_cons, this, hG, List.range_succ_eq_map, List.map_map, repairedMk,
          Nat.add_zero, List.cons.injEq, true_and]
        apply List.map_congr_left
        intro j _
        simp only [Function.comp]
        rw [show c + 1 + j = c + (j + 1) by omega]

/-- **C12_repaired_draws** — under the repaired plumbing, for EVERY solver (with or without state of its
    own) and every `limit`:
    (1) for EVERY partition `chunks` of the task list `mkEnvsRepaired reps` into pool chunks — every
        number of worker processes and every chunk size — started from any snapshot of the shared
        objects, and
    (2) for `evaluate()` itself with every `procs` (`procs ≤ 1`: the sequential branch with its lazy
        construction; `procs > 1`: the pool with CPython's chunking),
    if the call returns, then repetition `j`'s gap rows all show draw `(j, 2)`: its hidden game is the
    third game of the stream spawned `j`-th, independently of the process count.
    (`repaired_total` below: the call does return whenever the solver does.) -/
theorem repaired_draws (next : ς → RepEnv → Except Err (ς × Nat)) (limit reps : Nat) :
    (∀ (snapshot : Nat × ς) (chunks : List (List RepEnv)) (rows : List (List Draw × List Nat)),
        chunks.flatten = mkEnvsRepaired reps →
        runPool (evalOne repairedEnv next limit) snapshot chunks = .ok rows →
        rows.map (·.1) = (List.range reps).map (fun j => List.replicate (limit + 1) (drawRepaired j 2))) ∧
    (∀ (procs : Nat) (s : ς) (rows : List (List Draw × List Nat)),
        evaluateRepaired next limit reps procs s = .ok rows →
        rows.map (·.1) = (List.range reps).map (fun j => List.replicate (limit + 1) (drawRepaired j 2))) := by
  have pool : ∀ (snapshot : Nat × ς) (chunks : List (List RepEnv)) (rows : List (List Draw × List Nat)),
      chunks.flatten = mkEnvsRepaired reps →
      runPool (evalOne repairedEnv next limit) snapshot chunks = .ok rows →
      rows.map (·.1) = (List.range reps).map (fun j => List.replicate (limit + 1) (drawRepaired j 2)) := by
    intro snapshot chunks rows hfl hrun
    have := runPool_map_of (π := fun r : List Draw × List Nat => r.1)
      (h := fun env : RepEnv => List.replicate (limit + 1) (drawRepaired env.stream env.pos))
      (fun st env st' r hr => (evalOne_repaired next limit st st' env r.1 r.2 hr).2.1) snapshot chunks rows hrun
    rw [this, hfl, mkEnvsRepaired_eq, List.map_map]
    rfl
  refine ⟨pool, ?_⟩
  intro procs s rows h
  simp only [evaluateRepaired, evaluate] at h
  by_cases hp : procs > 1
  · simp only [hp, ↓reduceIte, evaluatePar, starmap, show procs ≠ 0 by omega] at h
    exact pool _ _ rows (poolChunks_flatten _ (by omega)) h
  · simp only [hp, ↓reduceIte] at h
    cases hs : evaluateSeq repairedEnv repairedMk next limit reps (0, s) with
    | error e => rw [hs] at h; cases h
    | ok w =>
      obtain ⟨st', rows'⟩ := w
      rw [hs] at h
      simp only [Except.ok.injEq] at h
      subst h
      have := evaluateSeq_repaired next limit reps 0 s st' rows' hs
      simpa only [Nat.zero_add] using this

/-- row 0 only (the gap at minimal information is that of draw `(j, 2)`) -/
theorem repaired_draws_row0 (next : ς → RepEnv → Except Err (ς × Nat)) (limit reps procs : Nat) (s : ς)
    (rows : List (List Draw × List Nat)) (h : evaluateRepaired next limit reps procs s = .ok rows) :
    rows.map (fun r => r.1.head?) = (List.range reps).map (fun j => some (drawRepaired j 2)) := by
  have := congrArg (List.map List.head?) ((repaired_draws next limit reps).2 procs s rows h)
  simpa only [List.map_map, Function.comp_def, List.replicate_succ, List.head?_cons] using this

/-- … and the call returns whenever the solver does (the repaired environment model never raises) -/
theorem repaired_total (next : ς → RepEnv → Except Err (ς × Nat)) (hnext : ∀ s e, ∃ p, next s e = .ok p)
    (limit reps procs : Nat) (s : ς) : ∃ rows, evaluateRepaired next limit reps procs s = .ok rows := by
  have hep : ∀ (f : Nat) (s : ς) (e : RepEnv), ∃ w, episodes repairedEnv next f s e = .ok w := by
    intro f
    induction f with
    | zero => intro s e; exact ⟨_, rfl⟩
    | succ f ih =>
      intro s e
      obtain ⟨⟨s1, a⟩, hn⟩ := hnext s e
      obtain ⟨⟨s2, gs, cs⟩, hr⟩ := ih s1 e
      simp only [repairedEnv] at hr
      simp only [episodes, hn, repairedEnv, Bool.false_eq_true, ↓reduceIte, hr]
      exact ⟨_, rfl⟩
  have hone : ∀ (st : Nat × ς) (env : RepEnv), ∃ p, evalOne repairedEnv next limit st env = .ok p := by
    intro st env
    obtain ⟨⟨s', gs, cs⟩, hw⟩ := hep limit st.2 (repairedEnv.reset env st.1).1
    simp only [evalOne, hw]
    exact ⟨_, rfl⟩
  have hseq : ∀ (reps : Nat) (st : Nat × ς), ∃ w, evaluateSeq repairedEnv repairedMk next limit reps st = .ok w := by
    intro reps
    induction reps with
    | zero => intro st; exact ⟨_, rfl⟩
    | succ reps ih =>
      intro st
      obtain ⟨⟨st1, r⟩, h1⟩ := hone ((repairedMk st.1).2, st.2) (repairedMk st.1).1
      obtain ⟨⟨st2, rest⟩, h2⟩ := ih st1
      simp only [evaluateSeq, h1, h2]
      exact ⟨_, rfl⟩
  simp only [evaluateRepaired, evaluate]
  by_cases hp : procs > 1
  · simp only [hp, ↓reduceIte, evaluatePar, starmap, show procs ≠ 0 by omega]
    exact runPool_total hone _ _
  · obtain ⟨⟨st', rows⟩, hw⟩ := hseq reps (0, s)
    exact ⟨rows, by simp only [hp, ↓reduceIte, hw]⟩

/-- **C12_repaired_distinct** — distinct repetitions read distinct draws: never replays of one another
    at the level of stream identities … -/
theorem repaired_distinct {j j' : Nat} (h : j ≠ j') : drawRepaired j 2 ≠ drawRepaired j' 2 := by
  intro heq
  exact h (drawRepaired_inj.mp heq).1

/-- … i.e. the draws of the `reps` repetitions are pairwise different, and none of them is a draw an
    environment consumed at construction (positions 0 and 1 of any stream) -/
theorem repaired_draws_nodup (reps : Nat) :
    ((List.range reps).map (fun j => drawRepaired j 2)).Nodup ∧
    ∀ j j' k, k < 2 → drawRepaired j 2 ≠ drawRepaired j' k := by
  constructor
  · refine List.Nodup.map ?_ List.nodup_range
    intro a b hab
    exact (drawRepaired_inj.mp hab).1
  · intro j j' k hk heq
    have := (drawRepaired_inj.mp heq).2
    omega

end repaired

/-! ### repaired ⇒ isolated ⇒ schedule-free, for solvers without mutable state -/
section repairedIsolated
variable {α ε ρ ς : Type} [Neg α] [Zero α]

/-- the solver has no mutable state that matters: the action it returns is a function `f` of the
    environment alone (whatever it does to its own state `ς`) -/
def Stateless (next : ς → ε → Except Err (ς × Nat)) (f : ε → Except Err Nat) : Prop :=
  ∀ s e, (next s e).map (·.2) = f e

/-- `f` as a solver with trivial state -/
def pureSolver (f : ε → Except Err Nat) : Unit → ε → Except Err (Unit × Nat) :=
  fun _ e => (f e).map (fun a => ((), a))

omit [Zero α] in
theorem episodes_stateless (E : EnvOps ε ρ α) (next : ς → ε → Except Err (ς × Nat)) (f : ε → Except Err Nat)
    (hf : Stateless next f) :
    ∀ (lim : Nat) (s : ς) (e : ε),
      (episodes E next lim s e).map (·.2) = (episodes E (pureSolver f) lim () e).map (·.2) := by
  intro lim
  induction lim with
  | zero => intro s e; rfl
  | succ lim ih =>
    intro s e
    have hfe := hf s e
    simp only [episodes, pureSolver]
    cases hn : next s e with
    | error err =>
      rw [hn] at hfe
      simp only [Except.map] at hfe
      rw [← hfe]
      rfl
    | ok p =>
      obtain ⟨s1, a⟩ := p
      rw [hn] at hfe
      simp only [Except.map] at hfe
      rw [← hfe]
      simp only [Except.map]
      cases hs : E.step e a with
      | error err => rfl
      | ok q =>
        obtain ⟨e1, r, d, c⟩ := q
        simp only
        cases d with
        | true => rfl
        | false =>
          simp only [Bool.false_eq_true, ↓reduceIte]
          have := ih s1 e1
          cases h1 : episodes E next lim s1 e1 with
          | error err =>
            rw [h1] at this
            cases h2 : episodes E (pureSolver f) lim () e1 with
            | error err' => rw [h2] at this; simp only [Except.map, Except.error.injEq] at this; rw [this]
            | ok w => rw [h2] at this; simp only [Except.map] at this; cases this
          | ok w =>
            obtain ⟨s2, gs, cs⟩ := w
            rw [h1] at this
            cases h2 : episodes E (pureSolver f) lim () e1 with
            | error err' => rw [h2] at this; simp only [Except.map] at this; cases this
            | ok w' =>
              obtain ⟨u, gs', cs'⟩ := w'
              rw [h2] at this
              simp only [Except.map, Except.ok.injEq, Prod.mk.injEq] at this
              obtain ⟨rfl, rfl⟩ := this
              rfl

/-- every environment whose `reset` draws from a PRIVATE source (the environment it returns does not
    depend on the shared state `ρ`), evaluated with a stateless solver, is `Isolated` -/
theorem isolated_of_private (E : EnvOps ε ρ α) (hreset : ∀ e r r', (E.reset e r).1 = (E.reset e r').1)
    (next : ς → ε → Except Err (ς × Nat)) (f : ε → Except Err Nat) (hf : Stateless next f)
    (limit : Nat) (r0 : ρ) :
    Isolated E next limit (fun env => (evalOne E (pureSolver f) limit (r0, ()) env).map (·.2)) := by
  intro st env
  have hep := episodes_stateless E next f hf limit st.2 (E.reset env st.1).1
  simp only [evalOne]
  rw [hreset env r0 st.1]
  cases h1 : episodes E next limit st.2 (E.reset env st.1).1 with
  | error err =>
    rw [h1] at hep
    cases h2 : episodes E (pureSolver f) limit () (E.reset env st.1).1 with
    | error err' => rw [h2] at hep; simp only [Except.map, Except.error.injEq] at hep; simp only [Except.map, hep]
    | ok w => rw [h2] at hep; simp only [Except.map] at hep; cases hep
  | ok w =>
    obtain ⟨s2, gs, cs⟩ := w
    rw [h1] at hep
    cases h2 : episodes E (pureSolver f) limit () (E.reset env st.1).1 with
    | error err' => rw [h2] at hep; simp only [Except.map] at hep; cases hep
    | ok w' =>
      obtain ⟨u, gs', cs'⟩ := w'
      rw [h2] at hep
      simp only [Except.map, Except.ok.injEq, Prod.mk.injEq] at hep
      obtain ⟨rfl, rfl⟩ := hep
      rfl

end repairedIsolated

section repairedSchedule
variable {ς : Type}

/-- the rows of a repetition as a function of its own environment (solver choice function `f`) -/
def repairedRows (f : RepEnv → Except Err Nat) (limit : Nat) : RepEnv → Except Err (List Draw × List Nat) :=
  fun env => (evalOne repairedEnv (pureSolver f) limit (0, ()) env).map (·.2)

/-- **C12_repaired_isolated** — the model of the repaired code satisfies the hypothesis of
    `isolated_schedule_free` for every solver without mutable state. -/
theorem repaired_isolated (next : ς → RepEnv → Except Err (ς × Nat)) (f : RepEnv → Except Err Nat)
    (hf : Stateless next f) (limit : Nat) :
    Isolated repairedEnv next limit (repairedRows f limit) :=
  isolated_of_private repairedEnv (fun _ _ _ => rfl) next f hf limit 0

/-- **C12_repaired_schedule_free** — hence, for every solver without mutable state: every chunking of
    the repaired task list gives the plain map over the environments, and `evaluate()` returns that
    same value for EVERY `procs` — sequential branch (`procs ≤ 1`) and pool (`procs > 1`) alike. -/
theorem repaired_schedule_free (next : ς → RepEnv → Except Err (ς × Nat)) (f : RepEnv → Except Err Nat)
    (hf : Stateless next f) (limit reps : Nat) :
    (∀ (snapshot : Nat × ς) (chunks : List (List RepEnv)), chunks.flatten = mkEnvsRepaired reps →
        runPool (evalOne repairedEnv next limit) snapshot chunks
          = mapE (repairedRows f limit) (mkEnvsRepaired reps)) ∧
    (∀ (procs : Nat) (s : ς),
        evaluateRepaired next limit reps procs s = mapE (repairedRows f limit) (mkEnvsRepaired reps)) := by
  have hiso := repaired_isolated next f hf limit
  have pool : ∀ (snapshot : Nat × ς) (chunks : List (List RepEnv)), chunks.flatten = mkEnvsRepaired reps →
      runPool (evalOne repairedEnv next limit) snapshot chunks
        = mapE (repairedRows f limit) (mkEnvsRepaired reps) := by
    intro snapshot chunks hfl
    rw [isolated_schedule_free repairedEnv next limit _ hiso, hfl]
  refine ⟨pool, ?_⟩
  intro procs s
  simp only [evaluateRepaired, evaluate]
  by_cases hp : procs > 1
  · simp only [hp, ↓reduceIte, evaluatePar, starmap, show procs ≠ 0 by omega]
    exact pool _ _ (poolChunks_flatten _ (by omega))
  · simp only [hp, ↓reduceIte]
    have hseq := isolated_seq_eq_par repairedEnv repairedMk next limit _ hiso
      (fun st env st' r h => (evalOne_repaired next limit st st' env r.1 r.2 h).1) reps (0, s)
    cases h2 : evaluateSeq repairedEnv repairedMk next limit reps (0, s) with
    | error e => rw [h2] at hseq; simp only [Except.map] at hseq; simp only [mkEnvsRepaired, ← hseq]
    | ok w =>
      obtain ⟨st2, rest⟩ := w
      rw [h2] at hseq
      simp only [Except.map] at hseq
      simp only [mkEnvsRepaired, ← hseq]

/-- in particular the result is the same for any two process counts -/
theorem repaired_procs_irrelevant (next : ς → RepEnv → Except Err (ς × Nat)) (f : RepEnv → Except Err Nat)
    (hf : Stateless next f) (limit reps p q : Nat) (s : ς) :
    evaluateRepaired next limit reps p s = evaluateRepaired next limit reps q s := by
  rw [(repaired_schedule_free next f hf limit reps).2 p s, (repaired_schedule_free next f hf limit reps).2 q s]

end repairedSchedule

/-! ### the two models on the same instance (4 repetitions, 1 vs 2 processes) -/

/-- hidden-game draw seen by each repetition under the repaired model (row 0 of `poolDrawsRepaired`) -/
def drawsSeenRepaired (reps procs : Nat) : Option (List Draw) :=
  (poolDrawsRepaired 0 reps procs).toOption.map (fun rows => rows.map (fun r => r.1.headD 0))

/-- **before / after** on 4 repetitions: the model of the code before commit "fix: one child random
    stream per environment" gives draws 2, 5, 8, 11 of the one shared stream with 1 process and draw 8
    four times with 2 processes; the repaired model gives (0,2), (1,2), (2,2), (3,2) with 1 process, with
    2 processes, and with 3 (chunks of one task) — four different hidden games, the same ones. -/
theorem current_vs_repaired :
    (drawsSeen 4 1 = some [2, 5, 8, 11] ∧ drawsSeen 4 2 = some [8, 8, 8, 8]) ∧
    (drawsSeenRepaired 4 1 = some [drawRepaired 0 2, drawRepaired 1 2, drawRepaired 2 2, drawRepaired 3 2] ∧
     drawsSeenRepaired 4 2 = some [drawRepaired 0 2, drawRepaired 1 2, drawRepaired 2 2, drawRepaired 3 2] ∧
     drawsSeenRepaired 4 3 = drawsSeenRepaired 4 1 ∧
     drawsSeenRepaired 16 2 = drawsSeenRepaired 16 1) := by
  decide

/-- non-vacuity of `repaired_schedule_free` / `repaired_draws`: a solver without mutable state (always
    action 7), 2 steps, 4 repetitions, 1 and 2 processes: the same successful result, every gap row of
    repetition j showing draw (j, 2). -/
example :
    evaluateRepaired (fun (_ : Unit) (_ : RepEnv) => .ok ((), 7)) 2 4 1 () =
      evaluateRepaired (fun (_ : Unit) (_ : RepEnv) => .ok ((), 7)) 2 4 2 () ∧
    (evaluateRepaired (fun (_ : Unit) (_ : RepEnv) => .ok ((), 7)) 2 4 2 ()).toOption =
      some [([drawRepaired 0 2, drawRepaired 0 2, drawRepaired 0 2], [7, 7]),
            ([drawRepaired 1 2, drawRepaired 1 2, drawRepaired 1 2], [7, 7]),
            ([drawRepaired 2 2, drawRepaired 2 2, drawRepaired 2 2], [7, 7]),
            ([drawRepaired 3 2, drawRepaired 3 2, drawRepaired 3 2], [7, 7])] := by
  decide

example : Stateless (fun (_ : Unit) (_ : RepEnv) => (.ok ((), 7) : Except Err (Unit × Nat))) (fun _ => .ok 7) :=
  fun _ _ => rfl

/-- the repair concerns the hidden-game generator only.  A solver WITH a random source of its own
    (solvers/random.py — not `Stateless`) still shares it across the repetitions of a chunk and restarts
    it in every chunk: under the repaired model the hidden games no longer depend on the process count,
    the solver's draws still do (known finding C12 (b)). -/
theorem repaired_solver_rng_still_shared :
    (poolDrawsRepaired 2 3 1).toOption.map (fun rows => rows.map (·.2)) = some [[0, 1], [2, 3], [4, 5]] ∧
    (poolDrawsRepaired 2 3 2).toOption.map (fun rows => rows.map (·.2)) = some [[0, 1], [0, 1], [0, 1]] ∧
    (poolDrawsRepaired 2 3 1).toOption.map (fun rows => rows.map (·.1)) =
      (poolDrawsRepaired 2 3 2).toOption.map (fun rows => rows.map (·.1)) := by
  decide

end ICG.C12
