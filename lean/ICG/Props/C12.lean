/-
  Property C12 — evaluate().

  "For each repetition j, evaluate() returns the real trajectory of that repetition: row 0 of the gap
  matrix is the gap at minimal information, row t+1 the gap after the t-th coalition chosen in that
  repetition's hidden game, and the action matrix holds the ids actually revealed (distinct and
  explorable). For a fixed seed the result is the same for every number of worker processes, and distinct
  repetitions are evaluated on independently drawn hidden games (never replays of one another)."

  Theorems about ICG.Model.Search (`evalOne`, `evaluate`, the pool).  The environment is an abstract state
  machine (`EnvOps`), the solver an arbitrary function with its own state.
  * `trajectory`              — what one repetition's two rows contain, for every environment and solver;
  * `isolated_schedule_free`  — if a repetition's outcome is a function of its own environment alone (no
                                mutable state shared with other repetitions), every chunking — every
                                number of worker processes — gives the same matrices, equal to the plain
                                map over the environments;
  * `current_shared_rng`      — the model of the CURRENT code does NOT satisfy that hypothesis, and the
                                property fails for it: concrete runs where two process counts assign
                                different generator draws to the repetitions, and where all repetitions of
                                a parallel run see the same draw (the same hidden game).
  (That the ids are distinct and explorable is a property of the environment: C09.)
-/
import ICG.Lemmas.Search

namespace ICG.C12
open ICG ICG.Search

section trajectory
variable {α ε ρ ς : Type} [Neg α]

/-- the outcome `(reward, done, chosen coalition)` of the `t`-th step of the run that starts in solver
    state `s` and environment state `e`; `none` once an earlier step reported `done` (or raised). -/
def stepAt (E : EnvOps ε ρ α) (next : ς → ε → Except Err (ς × Nat)) : Nat → ς → ε → Option (α × Bool × Nat)
  | 0, s, e =>
    match next s e with
    | .error _ => none
    | .ok (_, a) =>
      match E.step e a with
      | .error _ => none
      | .ok (_, r, d, c) => some (r, d, c)
  | t + 1, s, e =>
    match next s e with
    | .error _ => none
    | .ok (s1, a) =>
      match E.step e a with
      | .error _ => none
      | .ok (e1, _, d, _) => if d then none else stepAt E next t s1 e1

theorem episodes_spec (E : EnvOps ε ρ α) (next : ς → ε → Except Err (ς × Nat)) :
    ∀ (f : Nat) (s : ς) (e : ε) (s' : ς) (gs : List α) (cs : List Nat),
      episodes E next f s e = .ok (s', gs, cs) →
      gs.length = cs.length ∧ gs.length ≤ f ∧
      ∀ t, t < f → gs[t]? = (stepAt E next t s e).map (fun x => -x.1) ∧
                    cs[t]? = (stepAt E next t s e).map (fun x => x.2.2) := by
  intro f
  induction f with
  | zero =>
    intro s e s' gs cs h
    simp only [episodes, Except.ok.injEq, Prod.mk.injEq] at h
    obtain ⟨_, rfl, rfl⟩ := h
    exact ⟨rfl, Nat.le_refl _, fun t ht => absurd ht (Nat.not_lt_zero t)⟩
  | succ f ih =>
    intro s e s' gs cs h
    simp only [episodes] at h
    cases hn : next s e with
    | error err => rw [hn] at h; cases h
    | ok p =>
      obtain ⟨s1, a⟩ := p
      rw [hn] at h
      simp only at h
      cases hs : E.step e a with
      | error err => rw [hs] at h; cases h
      | ok q =>
        obtain ⟨e1, r, d, c⟩ := q
        rw [hs] at h
        simp only at h
        cases d with
        | true =>
          simp only [↓reduceIte, Except.ok.injEq, Prod.mk.injEq] at h
          obtain ⟨_, rfl, rfl⟩ := h
          refine ⟨rfl, by simp, fun t _ => ?_⟩
          cases t with
          | zero => simp [stepAt, hn, hs]
          | succ t => simp [stepAt, hn, hs]
        | false =>
          simp only [Bool.false_eq_true, ↓reduceIte] at h
          cases hr : episodes E next f s1 e1 with
          | error err => rw [hr] at h; cases h
          | ok w =>
            obtain ⟨s2, gs', cs'⟩ := w
            rw [hr] at h
            simp only [Except.ok.injEq, Prod.mk.injEq] at h
            obtain ⟨_, rfl, rfl⟩ := h
            obtain ⟨h1, h2, h3⟩ := ih s1 e1 s2 gs' cs' hr
            refine ⟨by simp [h1], by simp only [List.length_cons]; omega, fun t ht => ?_⟩
            cases t with
            | zero => simp [stepAt, hn, hs]
            | succ t =>
              have := h3 t (by omega)
              simp only [List.getElem?_cons_succ, stepAt, hn, hs, Bool.false_eq_true, ↓reduceIte]
              exact this

variable [Zero α]

/-- **C12_trajectory** (one repetition, any environment, any solver, any shared state `st` it starts
    from).  If `eval_one` returns the rows `(G, I)` then, with `e₀` the environment after ITS OWN reset:
    `G` has `limit + 1` entries and `I` has `limit`; `G[0] = −reward(e₀)` (the reward is minus the gap, so
    this is the gap at the initial knowledge of this repetition's hidden game); for every `t < limit`,
    if the `t`-th step of this repetition's own run took place — no earlier step reported `done` — then
    `G[t+1] = −(reward returned by that step)` and `I[t]` is the coalition id that step revealed;
    otherwise both are the filler `0`. -/
theorem trajectory (E : EnvOps ε ρ α) (next : ς → ε → Except Err (ς × Nat)) (limit : Nat)
    (st st' : ρ × ς) (env : ε) (G : List α) (I : List Nat)
    (h : evalOne E next limit st env = .ok (st', (G, I))) :
    let e0 := (E.reset env st.1).1
    G.length = limit + 1 ∧ I.length = limit ∧ G[0]? = some (-(E.reward e0)) ∧
    ∀ t, t < limit →
      match stepAt E next t st.2 e0 with
      | some (r, _, c) => G[t + 1]? = some (-r) ∧ I[t]? = some c
      | none => G[t + 1]? = some 0 ∧ I[t]? = some 0 := by
  simp only [evalOne] at h
  cases hep : episodes E next limit st.2 (E.reset env st.1).1 with
  | error err => rw [hep] at h; cases h
  | ok w =>
    obtain ⟨s, gs, cs⟩ := w
    rw [hep] at h
    simp only [Except.ok.injEq, Prod.mk.injEq] at h
    obtain ⟨_, rfl, rfl⟩ := h
    obtain ⟨h1, h2, h3⟩ := episodes_spec E next limit st.2 _ s gs cs hep
    refine ⟨by simp only [List.length_cons, List.length_append, List.length_replicate]; omega,
            by simp only [List.length_append, List.length_replicate]; omega, by simp, fun t ht => ?_⟩
    obtain ⟨hg, hc⟩ := h3 t ht
    simp only [List.cons_append, List.getElem?_cons_succ]
    cases hst : stepAt E next t st.2 (E.reset env st.1).1 with
    | some x =>
      obtain ⟨r, d, c⟩ := x
      rw [hst] at hg hc
      simp only [Option.map_some] at hg hc
      have hlt : t < gs.length := by
        by_contra hcon
        rw [List.getElem?_eq_none (by omega)] at hg
        cases hg
      exact ⟨by rw [List.getElem?_append_left hlt]; exact hg,
             by rw [List.getElem?_append_left (by omega)]; exact hc⟩
    | none =>
      rw [hst] at hg hc
      simp only [Option.map_none] at hg hc
      have hge : gs.length ≤ t := by
        by_contra hcon
        rw [List.getElem?_eq_getElem (by omega)] at hg
        cases hg
      constructor
      · rw [List.getElem?_append_right hge, List.getElem?_replicate]
        simp only [ite_eq_left_iff]; intro hh; omega
      · rw [List.getElem?_append_right (by omega), List.getElem?_replicate]
        simp only [ite_eq_left_iff]; intro hh; omega

end trajectory

/-! ### non-vacuity: a two-step run that is done after its second step -/
section examples

/-- scripted environment: state = number of steps taken; done after 2 steps; reward −(10 − 3·steps) -/
def demoEnv : EnvOps Nat Unit Int :=
  { reset := fun _ r => (0, r), reward := fun e => -(10 - 3 * (e : Int)),
    step := fun e a => .ok (e + 1, -(10 - 3 * ((e : Int) + 1)), decide (e + 1 ≥ 2), 100 + a) }

def demoNext : Nat → Nat → Except Err (Nat × Nat) := fun s e => .ok (s + 1, 7 * s + e)

example : (evalOne demoEnv demoNext 4 ((), 0) 5).toOption = some (((), 2), ([10, 7, 4, 0, 0], [100, 108, 0, 0])) := by
  decide
example : stepAt demoEnv demoNext 1 0 0 = some (-4, true, 108) ∧ stepAt demoEnv demoNext 2 0 0 = none := by
  decide

end examples

/-! ### schedules -/
section schedule
variable {α ε ρ ς : Type} [Neg α] [Zero α]

/-- a repetition is *isolated* when its rows are a function `g` of its own environment — whatever
    generator state and solver state it is started from, i.e. it shares no mutable state with the
    other repetitions -/
def Isolated (E : EnvOps ε ρ α) (next : ς → ε → Except Err (ς × Nat)) (limit : Nat)
    (g : ε → Except Err (List α × List Nat)) : Prop :=
  ∀ (st : ρ × ς) (env : ε), (evalOne E next limit st env).map (·.2) = g env

/-- **C12_isolated_schedule_free**: with isolated repetitions, EVERY partition of the repetitions into
    consecutive pool chunks, started from any snapshot of the shared objects, yields the plain map of `g`
    over the environments — so the result is the same for every number of worker processes. -/
theorem isolated_schedule_free (E : EnvOps ε ρ α) (next : ς → ε → Except Err (ς × Nat)) (limit : Nat)
    (g : ε → Except Err (List α × List Nat)) (hiso : Isolated E next limit g)
    (snapshot : ρ × ς) (chunks : List (List ε)) :
    runPool (evalOne E next limit) snapshot chunks = mapE g chunks.flatten := by
  refine runPool_of_stateFree (Inv := fun _ => True) (P := fun _ => True) ?_ snapshot trivial chunks
    (fun _ _ => trivial)
  intro st env _ _
  have := hiso st env
  cases h : evalOne E next limit st env with
  | error e => rw [h] at this; exact this.symm
  | ok p => obtain ⟨st', r⟩ := p; rw [h] at this; exact ⟨trivial, this.symm⟩

/-- the parallel branch of `evaluate` for two process counts -/
theorem isolated_par_eq (E : EnvOps ε ρ α) (mk : ρ → ε × ρ) (next : ς → ε → Except Err (ς × Nat))
    (limit reps : Nat) (g : ε → Except Err (List α × List Nat)) (hiso : Isolated E next limit g)
    (st : ρ × ς) (p q : Nat) (hp : 0 < p) (hq : 0 < q) :
    evaluatePar E mk next limit reps p st = evaluatePar E mk next limit reps q st := by
  have hp' : p ≠ 0 := by omega
  have hq' : q ≠ 0 := by omega
  simp only [evaluatePar, starmap, hp', hq', ↓reduceIte]
  rw [isolated_schedule_free E next limit g hiso, isolated_schedule_free E next limit g hiso,
    poolChunks_flatten _ hp, poolChunks_flatten _ hq]

/-- … and the sequential branch agrees with them when, in addition, evaluating a repetition leaves the
    state from which environments are constructed alone -/
theorem isolated_seq_eq_par (E : EnvOps ε ρ α) (mk : ρ → ε × ρ) (next : ς → ε → Except Err (ς × Nat))
    (limit : Nat) (g : ε → Except Err (List α × List Nat)) (hiso : Isolated E next limit g)
    (hρ : ∀ st env st' r, evalOne E next limit st env = .ok (st', r) → st'.1 = st.1) :
    ∀ (reps : Nat) (st : ρ × ς), (evaluateSeq E mk next limit reps st).map (·.2) = mapE g (mkEnvs mk reps st.1).1 := by
  intro reps
  induction reps with
  | zero => intro st; rfl
  | succ reps ih =>
    intro st
    simp only [evaluateSeq, mkEnvs, mapE]
    have hg := hiso ((mk st.1).2, st.2) (mk st.1).1
    cases h1 : evalOne E next limit ((mk st.1).2, st.2) (mk st.1).1 with
    | error e => rw [h1] at hg; rw [← hg]; rfl
    | ok p =>
      obtain ⟨st1, r⟩ := p
      rw [h1] at hg
      have hst1 : st1.1 = (mk st.1).2 := hρ _ _ _ _ h1
      have := ih st1
      rw [hst1] at this
      rw [← hg]
      simp only [Except.map]
      cases h2 : evaluateSeq E mk next limit reps st1 with
      | error e => rw [h2] at this; simp only [Except.map] at this; rw [← this]
      | ok w => obtain ⟨st2, rest⟩ := w; rw [h2] at this; simp only [Except.map] at this; rw [← this]

end schedule

/-! ### the CURRENT code: one generator RNG shared by all environments -/

/-- generator draw seen by each repetition (row 0 of `poolDraws`) -/
def drawsSeen (reps procs : Nat) : Option (List Int) :=
  (poolDraws 2 0 reps procs).toOption.map (fun rows => rows.map (fun r => r.1.headD 0))

/-- **C12_current_shared_rng** — the negation for the model of the current code (`ICG_Gym.__init__` draws
    twice, `eval_one` once, all from the instance's single RNG):
    with 1 process repetition j sees draw 3j+2 — four different hidden games; with 2 processes all four
    repetitions see draw 8 — one hidden game replayed four times; with 16 repetitions and 2 processes the
    chunks have two tasks and every chunk replays draws 32, 33.  So the result depends on the number of
    worker processes and repetitions are replays of one another. -/
theorem current_shared_rng :
    drawsSeen 4 1 = some [2, 5, 8, 11] ∧ drawsSeen 4 2 = some [8, 8, 8, 8] ∧
    drawsSeen 4 1 ≠ drawsSeen 4 2 ∧
    drawsSeen 16 2 = some [32, 33, 32, 33, 32, 33, 32, 33, 32, 33, 32, 33, 32, 33, 32, 33] ∧
    drawsSeen 16 3 = some [32, 33, 32, 33, 32, 33, 32, 33, 32, 33, 32, 33, 32, 33, 32, 33] ∧
    drawsSeen 16 1 = some [2, 5, 8, 11, 14, 17, 20, 23, 26, 29, 32, 35, 38, 41, 44, 47] := by
  decide

/-- the solver's own random source (solvers/random.py) is shared the same way: with 2 steps per
    repetition, sequentially repetition j uses solver draws 2j, 2j+1; in a pool every chunk restarts at 0. -/
theorem current_shared_solver_rng :
    (poolDraws 2 2 3 1).toOption.map (fun rows => rows.map (·.2)) = some [[0, 1], [2, 3], [4, 5]] ∧
    (poolDraws 2 2 3 2).toOption.map (fun rows => rows.map (·.2)) = some [[0, 1], [0, 1], [0, 1]] := by
  decide

/-- and the current model is indeed not `Isolated`: the same environment evaluated from two generator
    states gives different rows -/
theorem current_not_isolated :
    ¬ ∃ g, Isolated (drawEnv 2).1 drawSolver 0 g := by
  rintro ⟨g, hg⟩
  have h1 := hg (0, 0) 0
  have h2 := hg (1, 0) 0
  rw [← h2] at h1
  revert h1
  decide

end ICG.C12
