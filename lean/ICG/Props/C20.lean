/-
  Property C20 — crash atomicity of saving a result.
  "If the process dies or is interrupted at any point while a result is being saved, the results file
   afterwards is either exactly the previous file or the complete new file."

  Theorems about the file-system model of ICG.Model.Store (part 2; DESIGN 3.7): paths ↦ bytes, a save is
  the list of file-system operations OBSERVED from the running `save_json` (harness/corr_store.py), a
  crash is "only the first k operations happened" (`crashAfter k`).
  Assumed, not proved (DESIGN 3.7 / 4): POSIX `rename` is atomic; a completed `write` is visible after
  the process dies; the path-based reading of descriptor operations is exact as long as no descriptor
  outlives a rename of its path — which the discipline demands ("nothing names the temporary after the
  rename", "the temporary is closed before").

  * `atomic`               every list satisfying the discipline `Atomic p ops`, every file system, every
                           k: the content of p after the first k operations is the old or the new one;
  * `atomic_new_complete`  … and the new one is exactly the concatenation of all chunks written to the
                           temporary between its creation and its close (the complete new file);
  * `atomicB_sound`        the Bool checker the driver evaluates implies the discipline;
  * `truncate_not_atomic`  the present code's discipline — `openTrunc p` on the target itself — has a
                           crash point (right after the truncation) at which p is neither, whenever the
                           old file is not the empty file (an absent file included) and the new one is
                           not empty.
-/
import ICG.Model.Store

namespace ICG.C20
open ICG.Store

/-! ### the discipline as a proposition -/

/-- after the temporary was created: only writes / fsyncs to it and operations that do not name it, then
    its `close`, then nothing that names it -/
def WrittenClosed (src : String) (l : List FsOp) : Prop :=
  ∃ w b, l = w ++ FsOp.close src :: b ∧
    (∀ op ∈ w, (∃ c, op = FsOp.write src c) ∨ op = FsOp.fsync src ∨ op.mentions src = false) ∧
    (∀ op ∈ b, op.mentions src = false)

/-- somewhere in `pre` the temporary is created afresh, then fully written and closed -/
def Ready (src : String) (pre : List FsOp) : Prop :=
  ∃ a opn l, pre = a ++ opn :: l ∧ (opn = FsOp.openTrunc src ∨ opn = FsOp.openExcl src) ∧ WrittenClosed src l

/-- the target path is never opened for writing nor written; it changes only by one rename from a
    temporary that was fully written and closed, and nothing touches the target or names that temporary
    after the rename.  (Or nothing touches the target at all: the early return of `save_json`.) -/
def Atomic (t : String) (ops : List FsOp) : Prop :=
  (∀ op ∈ ops, op.touches t = false) ∨
  ∃ pre src post, ops = pre ++ FsOp.rename src t :: post ∧ src ≠ t ∧
    (∀ op ∈ pre, op.touches t = false) ∧ Ready src pre ∧
    (∀ op ∈ post, op.touches t = false ∧ op.mentions src = false)

/-- all bytes written to `src` by the operations of `l`, in order -/
def writtenTo (src : String) (l : List FsOp) : String :=
  l.foldl (fun acc op => match op with
    | .write p c => if p = src then acc ++ c else acc
    | _ => acc) ""

/-! ### basic facts about `run` -/

theorem run_nil (fs : Fs) : run [] fs = fs := rfl
theorem run_cons (op : FsOp) (ops : List FsOp) (fs : Fs) : run (op :: ops) fs = run ops (op.apply fs) := rfl
theorem run_append (a b : List FsOp) (fs : Fs) : run (a ++ b) fs = run b (run a fs) := by
  simp [run, List.foldl_append]

theorem touches_imp_mentions (t : String) (op : FsOp) (h : op.mentions t = false) : op.touches t = false := by
  cases op <;> simp_all [FsOp.touches, FsOp.mentions]

theorem apply_untouched (fs : Fs) (op : FsOp) (t : String) (h : op.touches t = false) :
    (op.apply fs) t = fs t := by
  cases op with
  | openRead p => rfl
  | openTrunc p =>
    simp only [FsOp.touches, beq_eq_false_iff_ne, ne_eq] at h
    simp [FsOp.apply, Fs.set, Ne.symm h]
  | openExcl p =>
    simp only [FsOp.touches, beq_eq_false_iff_ne, ne_eq] at h
    simp only [FsOp.apply]; cases fs p <;> simp [Fs.set, Ne.symm h]
  | openKeep p =>
    simp only [FsOp.touches, beq_eq_false_iff_ne, ne_eq] at h
    simp only [FsOp.apply]; cases fs p <;> simp [Fs.set, Ne.symm h]
  | write p c =>
    simp only [FsOp.touches, beq_eq_false_iff_ne, ne_eq] at h
    simp only [FsOp.apply]; cases fs p <;> simp [Fs.set, Ne.symm h]
  | close p => rfl
  | fsync p => rfl
  | rename s d =>
    simp only [FsOp.touches, Bool.or_eq_false_iff, beq_eq_false_iff_ne, ne_eq] at h
    simp only [FsOp.apply]; cases fs s <;> simp [Ne.symm h.1, Ne.symm h.2]
  | unlink p =>
    simp only [FsOp.touches, beq_eq_false_iff_ne, ne_eq] at h
    simp [FsOp.apply, Fs.set, Ne.symm h]
  | other p => rfl

theorem run_untouched (fs : Fs) (ops : List FsOp) (t : String) (h : ∀ op ∈ ops, op.touches t = false) :
    (run ops fs) t = fs t := by
  induction ops generalizing fs with
  | nil => rfl
  | cons op ops ih =>
    rw [run_cons, ih (op.apply fs) (fun o ho => h o (by simp [ho]))]
    exact apply_untouched fs op t (h op (by simp))

theorem crashAfter_zero (ops : List FsOp) (fs : Fs) : crashAfter 0 ops fs = fs := rfl

theorem crashAfter_all (ops : List FsOp) (fs : Fs) (k : Nat) (hk : ops.length ≤ k) :
    crashAfter k ops fs = run ops fs := by
  simp [crashAfter, List.take_of_length_le hk]

/-! ### `atomic` -/

/-- the content at the target after `pre ++ rename src t :: tail`, `tail` not touching `t`, when the
    temporary exists: the temporary's content at rename time -/
theorem run_rename_tail (fs : Fs) (t src : String) (pre tail : List FsOp) (c : String)
    (hsrc : run pre fs src = some c) (htail : ∀ op ∈ tail, op.touches t = false) :
    run (pre ++ FsOp.rename src t :: tail) fs t = some c := by
  rw [run_append, run_cons, run_untouched _ tail t htail]
  simp [FsOp.apply, hsrc]

/-- … and when it does not exist the rename fails and the target keeps its content -/
theorem run_rename_tail_missing (fs : Fs) (t src : String) (pre tail : List FsOp)
    (hsrc : run pre fs src = none) (hpre : ∀ op ∈ pre, op.touches t = false)
    (htail : ∀ op ∈ tail, op.touches t = false) :
    run (pre ++ FsOp.rename src t :: tail) fs t = fs t := by
  rw [run_append, run_cons, run_untouched _ tail t htail]
  simp only [FsOp.apply, hsrc]
  exact run_untouched fs pre t hpre

theorem take_split (pre : List FsOp) (x : FsOp) (post : List FsOp) (k : Nat) (hk : pre.length < k) :
    (pre ++ x :: post).take k = pre ++ x :: post.take (k - pre.length - 1) := by
  rw [List.take_append]
  have h1 : List.take k pre = pre := List.take_of_length_le (by omega)
  obtain ⟨m, hm⟩ : ∃ m, k - pre.length = m + 1 := ⟨k - pre.length - 1, by omega⟩
  rw [h1, hm, List.take_succ_cons]; simp

/-- **C20, positive part.**  For every operation list satisfying the discipline, every initial file
    system and every crash point k, the content of the target after the first k operations is either the
    old content or the complete new content. -/
theorem atomic (t : String) (ops : List FsOp) (h : Atomic t ops) (fs : Fs) (k : Nat) :
    crashAfter k ops fs t = fs t ∨ crashAfter k ops fs t = run ops fs t := by
  rcases h with h | ⟨pre, src, post, rfl, _, hpre, _, hpost⟩
  · left
    exact run_untouched fs _ t (fun op ho => h op (List.mem_of_mem_take ho))
  · by_cases hk : k ≤ pre.length
    · left
      unfold crashAfter
      rw [List.take_append_of_le_length hk]
      exact run_untouched fs _ t (fun op ho => hpre op (List.mem_of_mem_take ho))
    · have hk' : pre.length < k := by omega
      have hpost' : ∀ op ∈ post, op.touches t = false := fun op ho => (hpost op ho).1
      have htk : ∀ op ∈ post.take (k - pre.length - 1), op.touches t = false :=
        fun op ho => hpost' op (List.mem_of_mem_take ho)
      unfold crashAfter
      rw [take_split pre _ post k hk']
      cases hsrc : run pre fs src with
      | some c =>
        right
        rw [run_rename_tail fs t src pre _ c hsrc htk, run_rename_tail fs t src pre _ c hsrc hpost']
      | none =>
        left
        exact run_rename_tail_missing fs t src pre _ hsrc hpre htk

/-- where exactly the switch happens: up to the rename the old content, from the rename on the content
    the temporary had at rename time -/
theorem atomic_switch (t src : String) (pre post : List FsOp) (fs : Fs) (c : String)
    (hpre : ∀ op ∈ pre, op.touches t = false) (hpost : ∀ op ∈ post, op.touches t = false)
    (hsrc : run pre fs src = some c) (k : Nat) :
    (k ≤ pre.length → crashAfter k (pre ++ FsOp.rename src t :: post) fs t = fs t) ∧
    (pre.length < k → crashAfter k (pre ++ FsOp.rename src t :: post) fs t = some c) := by
  constructor
  · intro hk
    unfold crashAfter
    rw [List.take_append_of_le_length hk]
    exact run_untouched fs _ t (fun op ho => hpre op (List.mem_of_mem_take ho))
  · intro hk
    unfold crashAfter
    rw [take_split pre _ post k hk]
    exact run_rename_tail fs t src pre _ c hsrc (fun op ho => hpost op (List.mem_of_mem_take ho))

/-! ### the new content is complete -/

theorem apply_unmentioned (fs : Fs) (op : FsOp) (t : String) (h : op.mentions t = false) :
    (op.apply fs) t = fs t := apply_untouched fs op t (touches_imp_mentions t op h)

theorem run_unmentioned (fs : Fs) (ops : List FsOp) (t : String) (h : ∀ op ∈ ops, op.mentions t = false) :
    (run ops fs) t = fs t := run_untouched fs ops t (fun op ho => touches_imp_mentions t op (h op ho))

/-- generalised accumulator version of `writtenTo` -/
def writtenAcc (src : String) (acc : String) (l : List FsOp) : String :=
  l.foldl (fun acc op => match op with
    | .write p c => if p = src then acc ++ c else acc
    | _ => acc) acc

theorem writtenAcc_unmentioned (src acc : String) (l : List FsOp) (h : ∀ op ∈ l, op.mentions src = false) :
    writtenAcc src acc l = acc := by
  induction l generalizing acc with
  | nil => rfl
  | cons op l ih =>
    have hop := h op (by simp)
    have hl : ∀ o ∈ l, o.mentions src = false := fun o ho => h o (by simp [ho])
    simp only [writtenAcc, List.foldl_cons] at ih ⊢
    cases op with
    | write p c =>
      simp only [FsOp.mentions, beq_eq_false_iff_ne, ne_eq] at hop
      simp only [hop, if_false]; exact ih acc hl
    | _ => exact ih acc hl

/-- while only writes / fsyncs to `src` and foreign operations happen, the file at `src` is what it was
    plus everything written to it -/
theorem run_writing (src : String) (w : List FsOp) (fs : Fs) (acc : String) (hfs : fs src = some acc)
    (hw : ∀ op ∈ w, (∃ c, op = FsOp.write src c) ∨ op = FsOp.fsync src ∨ op.mentions src = false) :
    run w fs src = some (writtenAcc src acc w) := by
  induction w generalizing fs acc with
  | nil => exact hfs
  | cons op w ih =>
    have hw' : ∀ o ∈ w, (∃ c, o = FsOp.write src c) ∨ o = FsOp.fsync src ∨ o.mentions src = false :=
      fun o ho => hw o (by simp [ho])
    rw [run_cons]
    rcases hw op (by simp) with ⟨c, rfl⟩ | rfl | hno
    · have : (FsOp.write src c).apply fs src = some (acc ++ c) := by simp [FsOp.apply, hfs, Fs.set]
      rw [ih _ (acc ++ c) this hw']
      simp [writtenAcc]
    · rw [ih _ acc (by simpa [FsOp.apply] using hfs) hw']
      simp [writtenAcc]
    · have h1 : op.apply fs src = some acc := by rw [apply_unmentioned fs op src hno]; exact hfs
      rw [ih _ acc h1 hw']
      have : writtenAcc src acc (op :: w) = writtenAcc src (writtenAcc src acc [op]) w := by
        simp [writtenAcc]
      rw [this, writtenAcc_unmentioned src acc [op] (by simpa using hno)]

theorem writtenAcc_append (src acc : String) (a b : List FsOp) :
    writtenAcc src acc (a ++ b) = writtenAcc src (writtenAcc src acc a) b := by
  simp [writtenAcc, List.foldl_append]

/-- a temporary created afresh, written and closed holds exactly the chunks written to it -/
theorem ready_content (src : String) (a l : List FsOp) (opn : FsOp) (fs : Fs)
    (hopn : opn = FsOp.openTrunc src ∨ opn = FsOp.openExcl src)
    (hfresh : opn = FsOp.openExcl src → run a fs src = none)
    (hwc : WrittenClosed src l) :
    run (a ++ opn :: l) fs src = some (writtenTo src l) := by
  obtain ⟨w, b, rfl, hw, hb⟩ := hwc
  have hopen : (opn.apply (run a fs)) src = some "" := by
    rcases hopn with rfl | rfl
    · simp [FsOp.apply, Fs.set]
    · simp [FsOp.apply, hfresh rfl, Fs.set]
  rw [run_append, run_cons, run_append, run_cons]
  rw [run_unmentioned _ b src hb]
  show run w (opn.apply (run a fs)) src = _
  rw [run_writing src w _ "" hopen hw]
  have h2 : writtenTo src (w ++ FsOp.close src :: b) = writtenAcc src "" w := by
    show writtenAcc src "" (w ++ FsOp.close src :: b) = _
    rw [writtenAcc_append]
    have : writtenAcc src (writtenAcc src "" w) (FsOp.close src :: b) = writtenAcc src (writtenAcc src "" w) b := by
      simp [writtenAcc]
    rw [this, writtenAcc_unmentioned src _ b hb]
  rw [h2]

/-- **C20, the new content is the complete new file.**  Under the discipline (rename case), when the
    temporary is created afresh (`openTrunc`, or `openExcl` on a path that did not exist), the target
    holds, from the rename on, exactly the concatenation of all chunks written to the temporary — and
    before the rename exactly the old content. -/
theorem atomic_new_complete (t src : String) (a l post : List FsOp) (opn : FsOp) (fs : Fs)
    (hopn : opn = FsOp.openTrunc src ∨ opn = FsOp.openExcl src)
    (hfresh : opn = FsOp.openExcl src → run a fs src = none)
    (hwc : WrittenClosed src l)
    (hpre : ∀ op ∈ a ++ opn :: l, op.touches t = false)
    (hpost : ∀ op ∈ post, op.touches t = false) (k : Nat) :
    let ops := (a ++ opn :: l) ++ FsOp.rename src t :: post
    (k ≤ (a ++ opn :: l).length → crashAfter k ops fs t = fs t) ∧
    ((a ++ opn :: l).length < k → crashAfter k ops fs t = some (writtenTo src l)) ∧
    run ops fs t = some (writtenTo src l) := by
  have hc := ready_content src a l opn fs hopn hfresh hwc
  have hs := atomic_switch t src (a ++ opn :: l) post fs _ hpre hpost hc
  refine ⟨(hs k).1, (hs k).2, ?_⟩
  exact run_rename_tail fs t src _ post _ hc hpost

/-! ### the checker is sound -/

theorem writtenClosedB_sound (src : String) (l : List FsOp) (h : writtenClosedB src l = true) :
    WrittenClosed src l := by
  induction l with
  | nil => simp [writtenClosedB] at h
  | cons op l ih =>
    -- the three shapes of a step of `writtenClosedB`
    have step : ∀ (hrec : writtenClosedB src l = true)
        (hop : (∃ c, op = FsOp.write src c) ∨ op = FsOp.fsync src ∨ op.mentions src = false),
        WrittenClosed src (op :: l) := by
      intro hrec hop
      obtain ⟨w, b, rfl, hw, hb⟩ := ih hrec
      refine ⟨op :: w, b, rfl, ?_, hb⟩
      intro o ho
      rcases List.mem_cons.1 ho with rfl | ho
      · exact hop
      · exact hw o ho
    cases op with
    | close p =>
      simp only [writtenClosedB] at h
      by_cases hp : p = src
      · subst hp
        simp only [if_true, List.all_eq_true, Bool.not_eq_true'] at h
        exact ⟨[], l, rfl, by simp, h⟩
      · simp only [hp, if_false] at h
        exact step h (Or.inr (Or.inr (by simp [FsOp.mentions, hp])))
    | write p c =>
      simp only [writtenClosedB] at h
      by_cases hp : p = src
      · subst hp; exact step h (Or.inl ⟨c, rfl⟩)
      · exact step h (Or.inr (Or.inr (by simp [FsOp.mentions, hp])))
    | fsync p =>
      simp only [writtenClosedB] at h
      by_cases hp : p = src
      · subst hp; exact step h (Or.inr (Or.inl rfl))
      · exact step h (Or.inr (Or.inr (by simp [FsOp.mentions, hp])))
    | openRead p =>
      simp only [writtenClosedB] at h
      split at h
      · simp at h
      · rename_i hm; exact step h (Or.inr (Or.inr (by simpa using hm)))
    | openTrunc p =>
      simp only [writtenClosedB] at h
      split at h
      · simp at h
      · rename_i hm; exact step h (Or.inr (Or.inr (by simpa using hm)))
    | openExcl p =>
      simp only [writtenClosedB] at h
      split at h
      · simp at h
      · rename_i hm; exact step h (Or.inr (Or.inr (by simpa using hm)))
    | openKeep p =>
      simp only [writtenClosedB] at h
      split at h
      · simp at h
      · rename_i hm; exact step h (Or.inr (Or.inr (by simpa using hm)))
    | rename s d =>
      simp only [writtenClosedB] at h
      split at h
      · simp at h
      · rename_i hm; exact step h (Or.inr (Or.inr (by simpa using hm)))
    | unlink p =>
      simp only [writtenClosedB] at h
      split at h
      · simp at h
      · rename_i hm; exact step h (Or.inr (Or.inr (by simpa using hm)))
    | other p =>
      simp only [writtenClosedB] at h
      split at h
      · simp at h
      · rename_i hm; exact step h (Or.inr (Or.inr (by simpa using hm)))

theorem readyB_sound (src : String) (pre : List FsOp) (h : readyB src pre = true) : Ready src pre := by
  induction pre with
  | nil => simp [readyB] at h
  | cons op l ih =>
    simp only [readyB, Bool.or_eq_true, Bool.and_eq_true, beq_iff_eq] at h
    rcases h with ⟨hop, hwc⟩ | h
    · exact ⟨[], op, l, rfl, hop, writtenClosedB_sound src l hwc⟩
    · obtain ⟨a, opn, l', rfl, hopn, hwc⟩ := ih h
      exact ⟨op :: a, opn, l', rfl, hopn, hwc⟩

theorem mem_takeWhile_imp (p : FsOp → Bool) (l : List FsOp) (x : FsOp) (hx : x ∈ l.takeWhile p) : p x = true := by
  induction l with
  | nil => simp at hx
  | cons a l ih =>
    simp only [List.takeWhile_cons] at hx
    split at hx
    · rename_i hpa
      rcases List.mem_cons.1 hx with rfl | hx
      · exact hpa
      · exact ih hx
    · simp at hx

/-- **the Bool checker implies the discipline** -/
theorem atomicB_sound (t : String) (ops : List FsOp) (h : atomicB t ops = true) : Atomic t ops := by
  simp only [atomicB] at h
  have hsplit : ops = ops.takeWhile (fun o => !o.touches t) ++ ops.dropWhile (fun o => !o.touches t) :=
    (List.takeWhile_append_dropWhile).symm
  have hpre : ∀ op ∈ ops.takeWhile (fun o => !o.touches t), op.touches t = false := by
    intro op ho
    have := mem_takeWhile_imp _ _ _ ho
    simpa using this
  generalize ops.takeWhile (fun o => !o.touches t) = pre at h hsplit hpre
  generalize ops.dropWhile (fun o => !o.touches t) = rest at h hsplit
  match rest, h with
  | [], _ =>
    left
    rw [hsplit, List.append_nil]
    exact hpre
  | FsOp.rename src dst :: post, h =>
    simp only [Bool.and_eq_true, beq_iff_eq, bne_iff_ne, ne_eq, List.all_eq_true, Bool.not_eq_true'] at h
    obtain ⟨⟨⟨hdst, hne⟩, hready⟩, hpost⟩ := h
    subst hdst
    right
    exact ⟨pre, src, post, hsplit, hne, hpre, readyB_sound src pre hready, hpost⟩

/-- what the correspondence stream relies on: a list the driver accepts is atomic at every crash point,
    from every initial file system -/
theorem atomicB_atomic (t : String) (ops : List FsOp) (h : atomicB t ops = true) (fs : Fs) (k : Nat) :
    crashAfter k ops fs t = fs t ∨ crashAfter k ops fs t = run ops fs t :=
  atomic t ops (atomicB_sound t ops h) fs k

/-! ### negative part: truncate-then-write -/

/-- **C20, negative part (the present `save_json`).**  Every operation list in which the target itself
    is opened with truncation has a crash point — right after the truncation — at which the target is
    neither the old file nor the new file, whenever the old file is not the empty file (an absent file
    included: the crash leaves an empty, unparsable file behind) and the complete new file is not empty
    (which is the case as soon as the truncation precedes the last write to the target). -/
theorem truncate_not_atomic (t : String) (pre post : List FsOp) (fs : Fs)
    (hold : fs t ≠ some "")
    (hnew : run (pre ++ FsOp.openTrunc t :: post) fs t ≠ some "") :
    ∃ k, k ≤ (pre ++ FsOp.openTrunc t :: post).length ∧
      crashAfter k (pre ++ FsOp.openTrunc t :: post) fs t = some "" ∧
      crashAfter k (pre ++ FsOp.openTrunc t :: post) fs t ≠ fs t ∧
      crashAfter k (pre ++ FsOp.openTrunc t :: post) fs t ≠ run (pre ++ FsOp.openTrunc t :: post) fs t := by
  have hk : crashAfter (pre.length + 1) (pre ++ FsOp.openTrunc t :: post) fs t = some "" := by
    unfold crashAfter
    rw [take_split pre _ post (pre.length + 1) (by omega)]
    have : pre.length + 1 - pre.length - 1 = 0 := by omega
    rw [this, List.take_zero, run_append, run_cons, run_nil]
    simp [FsOp.apply, Fs.set]
  refine ⟨pre.length + 1, by simp, hk, ?_, ?_⟩
  · rw [hk]; exact fun h => hold h.symm
  · rw [hk]; exact fun h => hnew h.symm

/-- the hypothesis `hnew` holds as soon as, after the truncation, the target only receives writes (at
    least one of them non-empty) and is closed: "`openTrunc p` precedes the last write to p" -/
theorem truncate_then_write_new_nonempty (t : String) (pre w : List FsOp) (fs : Fs)
    (hw : ∀ op ∈ w, (∃ c, op = FsOp.write t c) ∨ op = FsOp.fsync t ∨ op.mentions t = false)
    (hne : writtenTo t w ≠ "") :
    run (pre ++ FsOp.openTrunc t :: w) fs t = some (writtenTo t w) ∧
    run (pre ++ FsOp.openTrunc t :: w) fs t ≠ some "" := by
  have h : run (pre ++ FsOp.openTrunc t :: w) fs t = some (writtenTo t w) := by
    rw [run_append, run_cons]
    exact run_writing t w _ "" (by simp [FsOp.apply, Fs.set]) hw
  exact ⟨h, by rw [h]; simpa using hne⟩

/-! ### concrete instances -/

/-- the repaired `save_json` as observed: read the old file, write a sibling, fsync, close, rename -/
def exRename : List FsOp :=
  [.openRead "data.json", .close "data.json", .openTrunc "data.json.tmp", .write "data.json.tmp" "{old,",
   .write "data.json.tmp" "new}", .fsync "data.json.tmp", .close "data.json.tmp",
   .rename "data.json.tmp" "data.json"]

/-- the present `save_json` as observed: read the old file, open it with "w", dump, close -/
def exTruncate : List FsOp :=
  [.openRead "data.json", .close "data.json", .openTrunc "data.json", .write "data.json" "{old,",
   .write "data.json" "new}", .close "data.json"]

def exFs : Fs := fun q => if q = "data.json" then some "{old}" else none

example : atomicB "data.json" exRename = true := by decide
example : atomicB "data.json" exTruncate = false := by decide
/-- the early return (existing name): nothing touches the target -/
example : atomicB "data.json" [.openRead "data.json", .close "data.json"] = true := by decide
/-- copy-then-delete instead of rename is rejected -/
example : atomicB "data.json" [.openTrunc "t", .write "t" "x", .close "t", .openRead "t", .openTrunc "data.json",
    .write "data.json" "x", .close "data.json", .close "t", .unlink "t"] = false := by decide
/-- renaming a temporary that is still open is rejected; so is touching it afterwards -/
example : atomicB "data.json" [.openTrunc "t", .write "t" "x", .rename "t" "data.json", .close "t"] = false := by decide
example : atomicB "data.json" [.openTrunc "t", .write "t" "x", .close "t", .rename "t" "data.json", .unlink "t"] = false := by
  decide

example : (List.range 9).map (fun k => crashAfter k exRename exFs "data.json") =
    [some "{old}", some "{old}", some "{old}", some "{old}", some "{old}", some "{old}", some "{old}", some "{old}",
     some "{old,new}"] := by decide

example : (List.range 7).map (fun k => crashAfter k exTruncate exFs "data.json") =
    [some "{old}", some "{old}", some "{old}", some "", some "{old,", some "{old,new}", some "{old,new}"] := by decide

/-- `truncate_not_atomic` applies to the observed list of the present code -/
example : ∃ k, k ≤ exTruncate.length ∧ crashAfter k exTruncate exFs "data.json" = some "" ∧
    crashAfter k exTruncate exFs "data.json" ≠ exFs "data.json" ∧
    crashAfter k exTruncate exFs "data.json" ≠ run exTruncate exFs "data.json" :=
  truncate_not_atomic "data.json" [.openRead "data.json", .close "data.json"]
    [.write "data.json" "{old,", .write "data.json" "new}", .close "data.json"] exFs (by decide) (by decide)

/-- `atomic_new_complete` applies to the observed list of the repaired code: complete new file -/
example : run exRename exFs "data.json" = some "{old,new}" := by decide

end ICG.C20
