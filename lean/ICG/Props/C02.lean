/-
  Property C02 — the superadditive bounds are tight.

  "For every incomplete game (∅, the singletons and N known) that has at least one superadditive
   completion, and both exact computers: the computed lower bound of every coalition is the MINIMUM of
   w(c) over all superadditive completions w of the known values, and the computed lower-bound vector is
   itself a completion (so all minima are attained simultaneously); the computed upper bound of every
   coalition is the MAXIMUM of w(c) over all completions (attained, for each coalition by its own
   completion).  Moreover lower(c) is the best value of a partition of c into known coalitions, and
   upper(c) = min over known proper supersets T of v(T) − lower(T ∖ c)."

  Theorems about the MODEL functions `sa`, `sac` (as `k.run`, `k = .sa ∨ k = .sac`), composing the
  refinement with ICG.Lemmas.SpecSA (parts D, E, F).  All `n`, every linearly ordered abelian group.
  Hypotheses throughout: `MinInfo t.n t.known`, `t.Inv` (known rows carry one value in both cells; the
  unknown rows hold anything), and — where the property says so — `∃ w, Completion' t w`.
-/
import ICG.Lemmas.BoundsCommon

namespace ICG.C02
open ICG Table ICG.SpecSA
open ICG.BoundsCommon

variable {α : Type} [AddCommGroup α] [LinearOrder α] [IsOrderedAddMonoid α]

/-- `w` is a superadditive game on `t.n` players that has the table's value on every known row -/
def Completion' (t : Table α) (w : Nat → α) : Prop := Completion t.n t.known t.lo w

omit [IsOrderedAddMonoid α] in
theorem completion'_iff (t : Table α) (w : Nat → α) :
    Completion' t w ↔ SA t.n w ∧ ∀ c, c < 2 ^ t.n → t.known c = true → w c = t.lo c := Iff.rfl

omit [IsOrderedAddMonoid α] in
/-- the run of an exact computer, in terms of the specification -/
theorem run_eq (k : Computer) (hk : k = .sa ∨ k = .sac) (t : Table α) (hmin : MinInfo t.n t.known)
    (hinv : t.Inv) :
    ∃ t', k.run t = .ok t' ∧ t'.n = t.n ∧ t'.known = t.known ∧
      (∀ c, c < 2 ^ t.n → t'.lo c = loSpec t.known t.lo c ∧ t'.hi c = upSpec t.n t.known t.lo c) ∧
      (∀ c, 2 ^ t.n ≤ c → t'.lo c = t.lo c ∧ t'.hi c = t.hi c) :=
  run_spec_sa ((Computer.isSA_iff k).mpr hk) t hmin hinv

/-- **C02_lower_le.**  Every completion is at least the computed lower bound, on every row. -/
theorem lower_le (k : Computer) (hk : k = .sa ∨ k = .sac) (t : Table α) (hmin : MinInfo t.n t.known)
    (hinv : t.Inv) :
    ∃ t', k.run t = .ok t' ∧ ∀ w, Completion' t w → ∀ c, c < 2 ^ t.n → t'.lo c ≤ w c := by
  obtain ⟨t', h1, _, _, h4, _⟩ := run_eq k hk t hmin hinv
  refine ⟨t', h1, fun w hw c hc => ?_⟩
  rw [(h4 c hc).1]
  exact loSpec_le_completion hmin hw c hc

/-- **C02_lowerGame_completion.**  If a completion exists, the computed lower column is itself a
    completion — and so is every function that coincides with it on the rows of the game (the cells
    outside the game are irrelevant).  Hence the minimum is attained simultaneously for all coalitions. -/
theorem lower_attained (k : Computer) (hk : k = .sa ∨ k = .sac) (t : Table α)
    (hmin : MinInfo t.n t.known) (hinv : t.Inv) (hex : ∃ w, Completion' t w) :
    ∃ t', k.run t = .ok t' ∧ Completion' t t'.lo ∧
      ∀ f : Nat → α, (∀ c, c < 2 ^ t.n → f c = t'.lo c) → Completion' t f := by
  obtain ⟨t', h1, _, _, h4, _⟩ := run_eq k hk t hmin hinv
  have hc := loSpec_completion hmin hex
  have hlo : Completion' t t'.lo := Completion.congr hc (fun c hc => (h4 c hc).1)
  exact ⟨t', h1, hlo, fun f hf => Completion.congr hlo hf⟩

/-- **C02_upper_ge.**  Every completion is at most the computed upper bound, on every row. -/
theorem upper_ge (k : Computer) (hk : k = .sa ∨ k = .sac) (t : Table α) (hmin : MinInfo t.n t.known)
    (hinv : t.Inv) :
    ∃ t', k.run t = .ok t' ∧ ∀ w, Completion' t w → ∀ c, c < 2 ^ t.n → w c ≤ t'.hi c := by
  obtain ⟨t', h1, _, _, h4, _⟩ := run_eq k hk t hmin hinv
  refine ⟨t', h1, fun w hw c hc => ?_⟩
  rw [(h4 c hc).2]
  exact completion_le_upSpec hmin hw c hc

/-- **C02_upper_attained.**  If a completion exists then for every coalition `c` (the interesting case:
    `c` unknown) some completion has the computed upper bound as its value at `c` (`extremeUpper` of
    ICG.Lemmas.SpecSA2). -/
theorem upper_attained (k : Computer) (hk : k = .sa ∨ k = .sac) (t : Table α)
    (hmin : MinInfo t.n t.known) (hinv : t.Inv) (hex : ∃ w, Completion' t w) :
    ∃ t', k.run t = .ok t' ∧ ∀ c, c < 2 ^ t.n → ∃ w, Completion' t w ∧ w c = t'.hi c := by
  obtain ⟨t', h1, _, _, h4, _⟩ := run_eq k hk t hmin hinv
  refine ⟨t', h1, fun c hc => ?_⟩
  obtain ⟨w, hw, he⟩ := upSpec_attained' hmin hex hc
  exact ⟨w, hw, by rw [he, (h4 c hc).2]⟩

/-- **C02, summary.**  With a completion: on every row, computed `lo` is the least and computed `hi` the
    greatest value taken by a completion; known rows are unchanged points. -/
theorem tight (k : Computer) (hk : k = .sa ∨ k = .sac) (t : Table α) (hmin : MinInfo t.n t.known)
    (hinv : t.Inv) (hex : ∃ w, Completion' t w) :
    ∃ t', k.run t = .ok t' ∧ t'.n = t.n ∧ t'.known = t.known ∧ ∀ c, c < 2 ^ t.n →
      ((∃ w, Completion' t w ∧ w c = t'.lo c) ∧ ∀ w, Completion' t w → t'.lo c ≤ w c) ∧
      ((∃ w, Completion' t w ∧ w c = t'.hi c) ∧ ∀ w, Completion' t w → w c ≤ t'.hi c) ∧
      (t.known c = true → t'.lo c = t.lo c ∧ t'.hi c = t.lo c) := by
  obtain ⟨t', h1, h2, h3, h4, _⟩ := run_eq k hk t hmin hinv
  refine ⟨t', h1, h2, h3, fun c hc => ?_⟩
  rw [(h4 c hc).1, (h4 c hc).2]
  exact ⟨loSpec_isLeast hmin hex hc, upSpec_isGreatest hmin hex hc,
    fun hkc => ⟨loSpec_known _ _ hkc, upSpec_known _ _ _ hkc⟩⟩

/-- **C02_lower_eq_best_partition.**  For every non-empty coalition of the game the computed lower bound
    is the value of a partition of `c` into known non-empty coalitions (no completion needed for this
    half), and — if a completion exists — no such partition has a larger value. -/
theorem lower_eq_best_partition (k : Computer) (hk : k = .sa ∨ k = .sac) (t : Table α)
    (hmin : MinInfo t.n t.known) (hinv : t.Inv) :
    ∃ t', k.run t = .ok t' ∧ ∀ c, c < 2 ^ t.n → c ≠ 0 →
      (∃ ps, IsPartition t.known c ps ∧ (ps.map t.lo).sum = t'.lo c) ∧
      ((∃ w, Completion' t w) → ∀ ps, IsPartition t.known c ps → (ps.map t.lo).sum ≤ t'.lo c) := by
  obtain ⟨t', h1, _, _, h4, _⟩ := run_eq k hk t hmin hinv
  refine ⟨t', h1, fun c hc hc0 => ?_⟩
  rw [(h4 c hc).1]
  exact ⟨exists_partition_eq_loSpec hmin t.lo c hc hc0,
    fun hex ps hps => partition_sum_le_loSpec hmin hex hc hc0 hps⟩

/-- the same for every coalition including ∅ (whose only partition is the empty one, of value `0`), when
    the table holds `0` for ∅ — as every table the package builds does -/
theorem lower_eq_best_partition_zero (k : Computer) (hk : k = .sa ∨ k = .sac) (t : Table α)
    (hmin : MinInfo t.n t.known) (hinv : t.Inv) (hzero : t.lo 0 = 0) :
    ∃ t', k.run t = .ok t' ∧ ∀ c, c < 2 ^ t.n →
      (∃ ps, IsPartition t.known c ps ∧ (ps.map t.lo).sum = t'.lo c) ∧
      ((∃ w, Completion' t w) → ∀ ps, IsPartition t.known c ps → (ps.map t.lo).sum ≤ t'.lo c) := by
  obtain ⟨t', h1, _, _, h4, _⟩ := run_eq k hk t hmin hinv
  refine ⟨t', h1, fun c hc => ?_⟩
  rw [(h4 c hc).1]
  exact ⟨exists_partition_eq_loSpec' hmin t.lo hzero hc,
    fun hex ps hps => partition_sum_le_loSpec' hmin hex hzero hc hps⟩

omit [IsOrderedAddMonoid α] in
/-- **C02_upper_formula.**  At every unknown coalition the computed upper bound is the minimum, over the
    known proper supersets `T` of `c` inside the game, of `value T − (computed lower bound of T ∖ c)`
    (the list is never empty: `N` is in it). -/
theorem upper_formula (k : Computer) (hk : k = .sa ∨ k = .sac) (t : Table α)
    (hmin : MinInfo t.n t.known) (hinv : t.Inv) :
    ∃ t', k.run t = .ok t' ∧ ∀ c, c < 2 ^ t.n → t.known c = false →
      listMin? ((knownSupers t.n t.known c).map fun T => t.lo T - t'.lo (T - c)) = some (t'.hi c) := by
  obtain ⟨t', h1, _, _, h4, _⟩ := run_eq k hk t hmin hinv
  refine ⟨t', h1, fun c hc hkc => ?_⟩
  obtain ⟨m, hm, he⟩ := upSpec_unknown hmin t.lo hc hkc
  have hl : ((knownSupers t.n t.known c).map fun T => t.lo T - t'.lo (T - c)) =
      upCands t.n t.known t.lo c := by
    unfold upCands
    apply List.map_congr_left
    intro T hT
    have hT0 := (mem_knownSupers.mp hT).1
    rw [(h4 (T - c) (by omega)).1]
  rw [hl, hm, (h4 c hc).2, he]

omit [IsOrderedAddMonoid α] in
/-- `upper_formula` in membership / lower-bound form -/
theorem upper_formula' (k : Computer) (hk : k = .sa ∨ k = .sac) (t : Table α)
    (hmin : MinInfo t.n t.known) (hinv : t.Inv) :
    ∃ t', k.run t = .ok t' ∧ ∀ c, c < 2 ^ t.n → t.known c = false →
      (∃ T, T ∈ knownSupers t.n t.known c ∧ t'.hi c = t.lo T - t'.lo (T - c)) ∧
      ∀ T, T < 2 ^ t.n → c &&& T = c → T ≠ c → t.known T = true → t'.hi c ≤ t.lo T - t'.lo (T - c) := by
  obtain ⟨t', h1, h2⟩ := upper_formula k hk t hmin hinv
  refine ⟨t', h1, fun c hc hkc => ?_⟩
  obtain ⟨hmem, hlb⟩ := listMin?_eq_some_iff.mp (h2 c hc hkc)
  constructor
  · obtain ⟨T, hT, he⟩ := List.mem_map.mp hmem
    exact ⟨T, hT, he.symm⟩
  · intro T hT hsub hne hkT
    exact hlb _ (List.mem_map.mpr ⟨T, mem_knownSupers.mpr ⟨hT, hsub, hne, hkT⟩, rfl⟩)

/-! ### the hypotheses are satisfiable -/

/-- the true game is a completion of the example table -/
theorem ex_completion : Completion' Ex.exT exV := Ex.exT_agree.completion Ex.exT_sa

example : ∃ t', sa Ex.exT = .ok t' ∧ ∀ w, Completion' Ex.exT w → ∀ c, c < 2 ^ Ex.exT.n → t'.lo c ≤ w c :=
  lower_le .sa (Or.inl rfl) Ex.exT Ex.exT_min Ex.exT_agree.inv

example : ∃ t', sac Ex.exT = .ok t' ∧ Completion' Ex.exT t'.lo ∧
    ∀ f : Nat → Int, (∀ c, c < 2 ^ Ex.exT.n → f c = t'.lo c) → Completion' Ex.exT f :=
  lower_attained .sac (Or.inr rfl) Ex.exT Ex.exT_min Ex.exT_agree.inv ⟨exV, ex_completion⟩

example : ∃ t', sa Ex.exT = .ok t' ∧ ∀ w, Completion' Ex.exT w → ∀ c, c < 2 ^ Ex.exT.n → w c ≤ t'.hi c :=
  upper_ge .sa (Or.inl rfl) Ex.exT Ex.exT_min Ex.exT_agree.inv

example : ∃ t', sac Ex.exT = .ok t' ∧
    ∀ c, c < 2 ^ Ex.exT.n → ∃ w, Completion' Ex.exT w ∧ w c = t'.hi c :=
  upper_attained .sac (Or.inr rfl) Ex.exT Ex.exT_min Ex.exT_agree.inv ⟨exV, ex_completion⟩

/-- the bounds are not trivial here: at the unknown pair {0,1} (id 3) the computed interval is `[3, 8]`
    around the true value 4, so the extreme completions differ from `exV` -/
example : ∃ t', sa Ex.exT = .ok t' ∧ t'.lo 3 = 3 ∧ t'.hi 3 = 8 := by
  obtain ⟨t', h1, _, _, h4, _⟩ := run_spec_agree .sa Ex.exT Ex.exT_min Ex.exT_agree
  refine ⟨t', h1, ?_⟩
  have h3 := h4 3 (by decide)
  have key : loSpec exKnown exV 3 = 3 ∧ upSpec 3 exKnown exV 3 = 8 := by
    have hk : exKnown 3 = false := by decide
    constructor
    · apply le_antisymm
      · obtain ⟨x, hx, he⟩ := loSpec_unknown_attained exKnown_minInfo exV (by decide : 3 < 2 ^ 3) hk
        have hx' : x = 1 ∨ x = 2 := by
          have : x ∈ [1, 2] := by
            have h : properSubs 3 = [1, 2] := by decide
            rwa [h] at hx
          simpa using this
        rcases hx' with rfl | rfl
        · rw [he, loSpec_known exKnown exV (by decide : exKnown 1 = true),
            loSpec_known exKnown exV (by decide : exKnown (3 - 1) = true)]
          decide
        · rw [he, loSpec_known exKnown exV (by decide : exKnown 2 = true),
            loSpec_known exKnown exV (by decide : exKnown (3 - 2) = true)]
          decide
      · have h := loSpec_split_le exKnown exV hk (x := 1) (by decide)
        rw [loSpec_known exKnown exV (by decide : exKnown 1 = true),
          loSpec_known exKnown exV (by decide : exKnown (3 - 1) = true)] at h
        exact h
    · obtain ⟨T, hT, he⟩ := upSpec_unknown_attained exKnown_minInfo exV (by decide : 3 < 2 ^ 3) hk
      have hT' : T = 7 := by
        have h : knownSupers 3 exKnown 3 = [7] := by decide
        rw [h] at hT
        simpa using hT
      subst hT'
      rw [he, loSpec_known exKnown exV (by decide : exKnown (7 - 3) = true)]
      decide
  exact ⟨h3.1.trans key.1, h3.2.trans key.2⟩

example : ∃ t', sa Ex.exT = .ok t' ∧ ∀ c, c < 2 ^ Ex.exT.n → c ≠ 0 →
    (∃ ps, IsPartition Ex.exT.known c ps ∧ (ps.map Ex.exT.lo).sum = t'.lo c) ∧
    ((∃ w, Completion' Ex.exT w) →
      ∀ ps, IsPartition Ex.exT.known c ps → (ps.map Ex.exT.lo).sum ≤ t'.lo c) :=
  lower_eq_best_partition .sa (Or.inl rfl) Ex.exT Ex.exT_min Ex.exT_agree.inv

/-- `exT` holds 0 for ∅ -/
example : Ex.exT.lo 0 = 0 := by decide

example : ∃ t', sac Ex.exT = .ok t' ∧ ∀ c, c < 2 ^ Ex.exT.n → Ex.exT.known c = false →
    listMin? ((knownSupers Ex.exT.n Ex.exT.known c).map fun T => Ex.exT.lo T - t'.lo (T - c))
      = some (t'.hi c) :=
  upper_formula .sac (Or.inr rfl) Ex.exT Ex.exT_min Ex.exT_agree.inv

end ICG.C02
