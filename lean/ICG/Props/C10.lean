/-
  Property C10 — generators.
  "Every game generator selectable on the command line can be invoked for every player count from 3 upwards and
   returns a complete game with the requested number of players, value 0 for the empty coalition and float64
   values, which is superadditive - and additionally monotone non-increasing for the XOS, XS, OXS, K-budget and
   coverage families, whose consumers assume it. Apart from the documented exceptions that ignore the supplied
   random generator (the graph-weight-distribution family and the round-robin factory), identically seeded calls
   return identical games."

  Theorems about ICG.Model.Generators: every construction, as a function of its draws, for EVERY number of
  players and EVERY admissible draw (the exact admissibility condition is a hypothesis of each theorem), is
  superadditive (`SA n`), 0 at ∅, and for the XOS / XS / OXS / budget / coverage constructions monotone
  non-increasing (`MonoDec n`).  `SAM0 n v` abbreviates `SA n v ∧ MonoDec n v ∧ v 0 = 0`.

  Determinism: the model's generators are pure functions of the draws, so "same draws ⇒ same game" is
  `congrArg` (see `deterministic`); that a numpy `Generator` with the same seed yields the same draws, that its
  distributions stay in their documented ranges, and the networkx graph generators are trusted
  (the stream `corr_generators` checks seed-determinism and the class predicates on the real output).
  Completeness / length 2^n / float64 are facts about the real objects, checked by the stream's oracle.

  Known defect of the current tree (DESIGN 7): registry key `factory_cheerleader` raises AttributeError —
  `cheerleader_key_raises` below is the model-side witness; the theorems about `factoryCheerleader` describe the
  intended (and, for `factory_cheerleader_next`, the actual) construction.
-/
import ICG.Model.Generators
import ICG.Spec.Bounds
import ICG.Lemmas.GenFacts
import Mathlib.Algebra.Order.Ring.Int
import Mathlib.Tactic.Linarith
import Mathlib.Algebra.Order.Ring.Rat
import Mathlib.Algebra.Field.Rat

set_option linter.unusedSectionVars false

namespace ICG.C10
open ICG ICG.Norm ICG.Gen Finset

/-! ## 0. determinism = purity -/

/-- same draws, same game: every generator of the model is a function -/
theorem deterministic {D G : Type} (gen : D → G) {d₁ d₂ : D} (h : d₁ = d₂) : gen d₁ = gen d₂ := congrArg gen h

/-! ## 1. the factory family -/

section factory
variable {α : Type} [CommRing α] [LinearOrder α] [IsStrictOrderedRing α]

theorem wsum_eq {n c : Nat} (hc : c < 2 ^ n) (w : Nat → α) : wsum w c = bsum n w c := listSum_players hc w

theorem wsum_or {n a b : Nat} (ha : a < 2 ^ n) (hb : b < 2 ^ n) (hab : a &&& b = 0) (w : Nat → α) :
    wsum w (a ||| b) = wsum w a + wsum w b := by
  rw [wsum_eq (or_lt_two_pow ha hb), wsum_eq ha, wsum_eq hb, bsum_or _ _ hab]

theorem wsum_nonneg {n c : Nat} (hc : c < 2 ^ n) {w : Nat → α} (hw : ∀ i, i < n → 0 ≤ w i) : 0 ≤ wsum w c := by
  rw [wsum_eq hc]; exact bsum_nonneg n hw c

theorem wsum_empty (w : Nat → α) : wsum w 0 = 0 := by
  simp [wsum, players, playersFrom, listSum]

theorem zeroAt_nonneg {n : Nat} {w : Nat → α} (hw : ∀ i, i < n → 0 ≤ w i) (owner : Nat) :
    ∀ i, i < n → 0 ≤ zeroAt w owner i := by
  intro i hi
  unfold zeroAt
  split
  · exact le_refl _
  · exact hw i hi

/-- **factory.**  Admissible draws: weights `≥ 0` (ones, or uniform on [0,10)); a value function that is
    non-decreasing on the non-negative numbers.  NOT needed: superadditivity of `f`, `f 0 = 0` (`factory_one`
    and `factory_exp` give the owner alone the value 1), `owner < n`, and not even `f ≥ 0` (that is what makes the
    values non-negative, `factory_nonneg`): of two disjoint coalitions at most one contains the owner, the
    other is worth 0. -/
theorem factory_SA (n owner : Nat) {w : Nat → α} {f : α → α} (hw : ∀ i, i < n → 0 ≤ w i)
    (hmono : ∀ x y, 0 ≤ x → 0 ≤ y → f x ≤ f (x + y)) :
    SA n (factory owner w f) := by
  intro a b ha hb hab
  have hw' := zeroAt_nonneg hw owner
  unfold factory
  rw [hasPlayer_eq_testBit, hasPlayer_eq_testBit, hasPlayer_eq_testBit, Nat.testBit_or,
    wsum_or ha hb hab]
  have hna := wsum_nonneg ha hw'
  have hnb := wsum_nonneg hb hw'
  have hd := testBit_disjoint (i := owner) hab
  cases hao : a.testBit owner <;> cases hbo : b.testBit owner
  · simp
  · simp only [Bool.false_or, if_true, Bool.false_eq_true, if_false, zero_add]
    rw [add_comm]; exact hmono _ _ hnb hna
  · simp only [Bool.or_false, if_true, Bool.false_eq_true, if_false, add_zero]
    exact hmono _ _ hna hnb
  · exact absurd ⟨hao, hbo⟩ hd

theorem factory_empty (owner : Nat) (w : Nat → α) (f : α → α) : factory owner w f 0 = 0 := by
  simp [factory, hasPlayer_eq_testBit]

theorem factory_nonneg {n : Nat} (owner : Nat) {w : Nat → α} {f : α → α} (hw : ∀ i, i < n → 0 ≤ w i)
    (hf0 : ∀ x, 0 ≤ x → 0 ≤ f x) {c : Nat} (hc : c < 2 ^ n) : 0 ≤ factory owner w f c := by
  unfold factory
  split
  · exact hf0 _ (wsum_nonneg hc (zeroAt_nonneg hw owner))
  · exact le_refl _

/-- the registry's value functions are admissible: identity, -/
theorem fnId_admissible : (∀ x : α, 0 ≤ x → 0 ≤ fnId x) ∧ (∀ x y : α, 0 ≤ x → 0 ≤ y → fnId x ≤ fnId (x + y)) :=
  ⟨fun _ h => h, fun x y _ hy => by unfold fnId; linarith⟩

/-- constant one, -/
theorem fnOne_admissible : (∀ x : α, 0 ≤ x → 0 ≤ fnOne x) ∧ (∀ x y : α, 0 ≤ x → 0 ≤ y → fnOne x ≤ fnOne (x + y)) :=
  ⟨fun _ _ => zero_le_one, fun _ _ _ _ => le_refl _⟩

/-- square, -/
theorem fnSq_admissible : (∀ x : α, 0 ≤ x → 0 ≤ fnSq x) ∧ (∀ x y : α, 0 ≤ x → 0 ≤ y → fnSq x ≤ fnSq (x + y)) :=
  ⟨fun x h => mul_nonneg h h, fun x y hx hy => by
    unfold fnSq
    exact mul_le_mul (by linarith) (by linarith) hx (by linarith)⟩

/-- and every monotone non-negative function (standing for `exp`). -/
theorem monotone_admissible {f : α → α} (hpos : ∀ x, 0 ≤ f x) (hm : ∀ x y, x ≤ y → f x ≤ f y) :
    (∀ x : α, 0 ≤ x → 0 ≤ f x) ∧ (∀ x y : α, 0 ≤ x → 0 ≤ y → f x ≤ f (x + y)) :=
  ⟨fun x _ => hpos x, fun x y _ hy => hm _ _ (by linarith)⟩

/-- every factory key of the registry: unit or non-negative weights, any owner -/
theorem factory_registry (n owner : Nat) {w : Nat → α} (hw : ∀ i, i < n → 0 ≤ w i) :
    SA n (factory owner w fnId) ∧ SA n (factory owner w fnOne) ∧ SA n (factory owner w fnSq) :=
  ⟨factory_SA n owner hw fnId_admissible.2, factory_SA n owner hw fnOne_admissible.2,
   factory_SA n owner hw fnSq_admissible.2⟩

/-- `predictible_factory` draws nothing: its owner is `(last + 1) % n < n` -/
theorem predictibleOwner_lt (last : Nat) {n : Nat} (hn : 0 < n) : predictibleOwner last n < n :=
  Nat.mod_lt _ hn

example : (allCoalitions 3).map (factory (α := Int) 1 (fun _ => 1) fnId) = [0, 0, 0, 1, 0, 0, 1, 2] := by decide +kernel
example : (allCoalitions 3).map (factory (α := Int) 0 (fun i => [2, 3, 4].getD i 0) fnSq) = [0, 0, 0, 9, 0, 16, 0, 49] := by
  decide +kernel
example : (allCoalitions 2).map (factory (α := Int) 1 (fun _ => 1) fnOne) = [0, 0, 1, 1] := by decide +kernel

end factory

/-! ## 2. the cheerleader factory (integer valued) -/

section cheerleader

theorem size_of_testBit {c i : Nat} (h : c.testBit i = true) : 1 ≤ size c := by
  apply size_pos_of_ne_zero
  intro hc; subst hc; simp at h

/-- **cheerleader.**  `3·(|S|−2)` with the cheerleader, `|S|−1` without, gated by the owner, is superadditive for
    EVERY n, owner and cheerleader (even `cheer = owner`, which the rejection loop excludes): the only tight case
    is `{owner} ∪ {cheer}`, `0 + 0 ≤ 0`. -/
theorem cheerleader_SA (n owner cheer : Nat) : SA n (factoryCheerleader owner cheer) := by
  intro a b _ _ hab
  have hs := size_or_of_disjoint a b hab
  have hdo := testBit_disjoint (i := owner) hab
  have hdc := testBit_disjoint (i := cheer) hab
  unfold factoryCheerleader
  simp only [hasPlayer_eq_testBit, Nat.testBit_or, hs]
  cases hao : a.testBit owner <;> cases hbo : b.testBit owner <;>
    cases hac : a.testBit cheer <;> cases hbc : b.testBit cheer <;>
    simp only [Bool.or_true, Bool.or_false, if_true, if_false, Bool.false_eq_true] <;>
    first
    | (exfalso; exact hdo ⟨by assumption, by assumption⟩)
    | (exfalso; exact hdc ⟨by assumption, by assumption⟩)
    | (have h1 : a.testBit owner = true → 1 ≤ size a := size_of_testBit
       have h2 : b.testBit owner = true → 1 ≤ size b := size_of_testBit
       have h3 : a.testBit cheer = true → 1 ≤ size a := size_of_testBit
       have h4 : b.testBit cheer = true → 1 ≤ size b := size_of_testBit
       simp only [hao, hbo, hac, hbc, forall_const, Bool.false_eq_true, IsEmpty.forall_iff] at h1 h2 h3 h4
       omega)

theorem cheerleader_empty (owner cheer : Nat) : factoryCheerleader owner cheer 0 = 0 := by
  simp [factoryCheerleader, hasPlayer_eq_testBit]

/-- with `cheer ≠ owner` (what the rejection loop guarantees) every value is non-negative … -/
theorem cheerleader_nonneg {owner cheer : Nat} (hne : cheer ≠ owner) (c : Nat) :
    0 ≤ factoryCheerleader owner cheer c := by
  unfold factoryCheerleader
  simp only [hasPlayer_eq_testBit]
  cases ho : c.testBit owner <;> cases hc : c.testBit cheer <;>
    simp only [if_true, if_false, Bool.false_eq_true, le_refl]
  · have := size_of_testBit ho; omega
  · have h2 : 2 ≤ size c := by
      have hsub1 := two_pow_sub_of_testBit ho
      have hsub2 := two_pow_sub_of_testBit hc
      have hdis : 2 ^ owner &&& 2 ^ cheer = 0 := by
        apply Nat.eq_of_testBit_eq; intro j
        simp only [Nat.testBit_and, Nat.testBit_two_pow, Nat.zero_testBit]
        by_cases h1 : owner = j <;> by_cases h2 : cheer = j <;> simp [h1, h2]
        omega
      have := size_le_of_sub (or_sub hsub1 hsub2)
      rw [size_or_of_disjoint _ _ hdis] at this
      have s1 : size (2 ^ owner) = 1 := by rw [size_eq_length_players, players_two_pow]; rfl
      have s2 : size (2 ^ cheer) = 1 := by rw [size_eq_length_players, players_two_pow]; rfl
      omega
    omega

/-- … whereas `cheer = owner` would give the owner alone the value −3. -/
theorem cheerleader_self_negative (owner : Nat) : factoryCheerleader owner owner (2 ^ owner) = -3 := by
  have s1 : size (2 ^ owner) = 1 := by rw [size_eq_length_players, players_two_pow]; rfl
  simp [factoryCheerleader, hasPlayer_eq_testBit, s1]

/-- the rejection loop returns a cheerleader different from the owner -/
theorem cheerPick_ne {owner : Nat} {draws : List Nat} {c : Nat} (h : cheerPick owner draws = some c) : c ≠ owner := by
  have := List.find?_some h
  simpa using this

/-- the CURRENT code (cheerleader left as a numpy integer): registry key `factory_cheerleader` raises for every
    n, owner, draw — the model-side witness of the C10 defect -/
theorem cheerleader_key_raises (owner cheer : Nat) : factoryCheerleaderKey owner cheer = .error .attr := rfl

/-- with the cheerleader converted to a Python int (the `…_next` key, or the repaired call) the call returns the
    intended construction, which is superadditive and 0 at ∅ -/
theorem cheerleader_call_int (n owner cheer : Nat) :
    ∃ v, factoryCheerleaderCall true owner cheer = .ok v ∧ SA n v ∧ v 0 = 0 :=
  ⟨_, rfl, cheerleader_SA n owner cheer, cheerleader_empty owner cheer⟩

theorem cheerleader_next (n owner : Nat) :
    ∃ v, factoryCheerleaderNext n owner = .ok v ∧ SA n v ∧ v 0 = 0 :=
  ⟨_, rfl, cheerleader_SA n owner _, cheerleader_empty owner _⟩

example : (allCoalitions 3).map (factoryCheerleader 0 1) = [0, 0, 0, 0, 0, 1, 0, 3] := by decide +kernel
example : cheerPick 1 [1, 1, 2, 0] = some 2 := by decide

end cheerleader

/-! ## 3. K-budget (integer valued) -/

section budget

/-- **K-budget.**  `−min(k, |S|)` is superadditive, monotone non-increasing and 0 at ∅ for every `k` (the code
    draws `k ∈ [1, n)`, which needs `n ≥ 2`). -/
theorem kBudget_SAM0 (n k : Nat) : SAM0 n (kBudget k) := by
  refine ⟨?_, ?_, ?_⟩
  · intro a b _ _ hab
    have hs := size_or_of_disjoint a b hab
    unfold kBudget
    rw [hs]
    push_cast
    omega
  · intro x c _ hx
    have := size_le_of_sub hx
    unfold kBudget
    omega
  · simp [kBudget, size_zero]

example : (allCoalitions 3).map (kBudget 2) = [0, -1, -1, -2, -1, -2, -2, -2] := by decide +kernel

end budget

/-! ## 4. graph games -/

section graph
variable {α : Type} [CommRing α] [LinearOrder α] [IsStrictOrderedRing α]

/-- the value of a graph game as a double sum over the members of the coalition -/
theorem graphGame_eq {n c : Nat} (hc : c < 2 ^ n) (m : Nat → Nat → α) :
    graphGame n m c = ∑ i ∈ (players c).toFinset, ∑ j ∈ (players c).toFinset, if i < j then m i j else 0 := by
  unfold graphGame graphValue
  have : (pairs (players c)).map (fun p => (GraphGame.ofMatrix n m).m p.1 p.2) =
      (pairs (players c)).map (fun p => m p.1 p.2) := by
    apply List.map_congr_left
    intro p hp
    obtain ⟨h1, h2, h3⟩ := mem_pairs (players_pairwise c) hp
    have := testBit_lt_of_lt_two_pow hc (mem_players.mp h2)
    have : ¬ (p.1 < n ∧ p.2 < n ∧ p.2 ≤ p.1) := by omega
    simp [GraphGame.ofMatrix, polish, this]
  rw [this, listSum_pairs (fun i j => m i j) _ (players_pairwise c)]

/-- **graph games.**  Admissible draws: weights above the diagonal `≥ 0` (uniform, triangular, beta, Poisson,
    0/1 adjacency); whatever is on or below the diagonal is polished away. -/
theorem graphGame_SA (n : Nat) {m : Nat → Nat → α} (hm : ∀ i j, i < j → j < n → 0 ≤ m i j) :
    SA n (graphGame n m) := by
  intro a b ha hb hab
  have hab' := or_lt_two_pow ha hb
  rw [graphGame_eq ha, graphGame_eq hb, graphGame_eq hab']
  obtain ⟨hu, hd⟩ := players_toFinset_or hab
  rw [hu]
  apply dsum_union_ge hd
  intro i _ j hj
  split
  · next hij =>
    rw [← hu, List.mem_toFinset, mem_players] at hj
    exact hm i j hij (testBit_lt_of_lt_two_pow hab' hj)
  · exact le_refl _

theorem graphGame_empty (n : Nat) (m : Nat → Nat → α) : graphGame n m 0 = 0 := by
  simp [graphGame, graphValue, players, playersFrom, pairs, listSum]

/-- `graph_cycle`: a 0/1 matrix -/
theorem cycle_SA (perm : List Nat) : SA perm.length (cycle (α := α) perm) := by
  apply graphGame_SA
  intro i j _ _
  unfold cycleMatrix
  dsimp only
  split
  · exact zero_le_one
  · exact le_refl _

theorem cycle_empty (perm : List Nat) : cycle (α := α) perm 0 = 0 := graphGame_empty _ _

example : (allCoalitions 3).map (graphGame (α := Int) 3 (fun r c => if c ≤ r then 9 else (r + 2 * c : Int))) =
    [0, 0, 0, 2, 0, 4, 5, 11] := by decide +kernel
example : (allCoalitions 4).map (cycle (α := Int) [2, 0, 1, 3]) = [0, 0, 0, 1, 0, 1, 0, 2, 0, 0, 1, 2, 1, 2, 2, 4] := by
  decide +kernel

end graph

/-! ## 5. positive scaling, additive games, XOS, XS -/

section scaling
variable {α : Type} [Field α] [LinearOrder α] [IsStrictOrderedRing α]

/-- positive scaling preserves superadditivity … -/
theorem SA_div {n : Nat} {v : Nat → α} (h : SA n v) {d : α} (hd : 0 ≤ d) : SA n (fun c => v c / d) := by
  intro a b ha hb hab
  show v a / d + v b / d ≤ v (a ||| b) / d
  rw [← add_div]
  exact div_le_div_of_nonneg_right (h a b ha hb hab) hd

theorem SA_mul {n : Nat} {v : Nat → α} (h : SA n v) {k : α} (hk : 0 ≤ k) : SA n (fun c => v c * k) := by
  intro a b ha hb hab
  show v a * k + v b * k ≤ v (a ||| b) * k
  rw [← add_mul]
  exact mul_le_mul_of_nonneg_right (h a b ha hb hab) hk

/-- … and monotonicity -/
theorem MonoDec_div {n : Nat} {v : Nat → α} (h : MonoDec n v) {d : α} (hd : 0 ≤ d) :
    MonoDec n (fun c => v c / d) := by
  intro x c hc hx
  exact div_le_div_of_nonneg_right (h x c hc hx) hd

theorem MonoDec_mul {n : Nat} {v : Nat → α} (h : MonoDec n v) {k : α} (hk : 0 ≤ k) :
    MonoDec n (fun c => v c * k) := by
  intro x c hc hx
  exact mul_le_mul_of_nonneg_right (h x c hc hx) hk

theorem SAM0_div {n : Nat} {v : Nat → α} (h : SAM0 n v) {d : α} (hd : 0 ≤ d) : SAM0 n (fun c => v c / d) :=
  ⟨SA_div h.1 hd, MonoDec_div h.2.1 hd, by show v 0 / d = 0; rw [h.2.2, zero_div]⟩

theorem Cost_div {n : Nat} {u : Nat → α} (h : Cost n u) {d : α} (hd : 0 ≤ d) : Cost n (fun c => u c / d) where
  zero := by show u 0 / d = 0; rw [h.zero, zero_div]
  subadd a b ha hb hab := by
    show u (a ||| b) / d ≤ u a / d + u b / d
    rw [← add_div]
    exact div_le_div_of_nonneg_right (h.subadd a b ha hb hab) hd
  mono x c hc hx := div_le_div_of_nonneg_right (h.mono x c hc hx) hd

/-- `values / values[-1]` of a cost function: when it returns, the divisor was positive -/
theorem divByGrand_Cost [DecidableEq α] {n : Nat} {u u' : Nat → α} (h : Cost n u)
    (hok : divByGrand n u = .ok u') : Cost n u' ∧ u' (grand n) = 1 := by
  unfold divByGrand at hok
  split at hok
  · cases hok
  · next hne =>
    cases hok
    exact ⟨Cost_div h (h.nonneg (grand_lt n)), div_self hne⟩

theorem divByGrand_ok [DecidableEq α] {n : Nat} {u : Nat → α} (hne : u (grand n) ≠ 0) :
    divByGrand n u = .ok (fun c => u c / u (grand n)) := by
  simp [divByGrand, hne]

end scaling

section additive
variable {α : Type} [CommRing α] [LinearOrder α] [IsStrictOrderedRing α]

/-- an additive game is superadditive (with equality), whatever the signs of the weights -/
theorem additive_SA (n : Nat) (w : Nat → α) : SA n (additive w) := by
  intro a b ha hb hab
  show wsum w a + wsum w b ≤ wsum w (a ||| b)
  rw [wsum_or ha hb hab]

/-- with non-negative weights it is a cost function (monotone, subadditive, 0 at ∅) -/
theorem additive_Cost (n : Nat) {w : Nat → α} (hw : ∀ i, i < n → 0 ≤ w i) : Cost n (additive w) where
  zero := wsum_empty w
  subadd a b ha hb hab := by
    show wsum w (a ||| b) ≤ wsum w a + wsum w b
    rw [wsum_or ha hb hab]
  mono x c hc hx := by
    show wsum w x ≤ wsum w c
    have hor := sub_or_self hx
    have hle := sub_le hx
    have hx' : x < 2 ^ n := by omega
    have hcx : c - x < 2 ^ n := by omega
    have := wsum_or hx' hcx hor.2 w
    rw [hor.1] at this
    rw [this]
    have := wsum_nonneg hcx hw
    linarith

/-- pointwise maximum of cost functions (`np.max(…, axis=0)`) is a cost function -/
theorem pointwiseMax_Cost {n : Nat} {games : List (Nat → α)} {M : Nat → α}
    (hok : pointwiseMax games = .ok M) (h : ∀ g ∈ games, Cost n g) : Cost n M := by
  cases games with
  | nil => cases hok
  | cons g gs =>
    cases hok
    have hM : ∀ c, (gs.foldl (fun m h => max m (h c)) (g c)) = (gs.map (fun h => h c)).foldl max (g c) := by
      intro c; rw [List.foldl_map]
    have hge : ∀ c, ∀ h ∈ g :: gs, h c ≤ (gs.map (fun h => h c)).foldl max (g c) := by
      intro c h hh
      rcases List.mem_cons.mp hh with rfl | hh
      · exact foldl_max_ge _ _
      · exact foldl_max_mem_ge _ _ _ (List.mem_map.mpr ⟨h, hh, rfl⟩)
    have hatt : ∀ c, ∃ h ∈ g :: gs, (gs.map (fun h => h c)).foldl max (g c) = h c := by
      intro c
      rcases foldl_max_mem (gs.map (fun h => h c)) (g c) with he | he
      · exact ⟨g, by simp, he⟩
      · obtain ⟨h, hh, hc⟩ := List.mem_map.mp he
        exact ⟨h, by simp [hh], hc.symm⟩
    refine ⟨?_, ?_, ?_⟩
    · show gs.foldl (fun m h => max m (h 0)) (g 0) = 0
      rw [hM]
      obtain ⟨h', hh, he⟩ := hatt 0
      rw [he, (h h' hh).zero]
    · intro a b ha hb hab
      show gs.foldl (fun m h => max m (h (a ||| b))) (g (a ||| b)) ≤
        gs.foldl (fun m h => max m (h a)) (g a) + gs.foldl (fun m h => max m (h b)) (g b)
      rw [hM, hM, hM]
      obtain ⟨h', hh, he⟩ := hatt (a ||| b)
      rw [he]
      exact le_trans ((h h' hh).subadd a b ha hb hab) (add_le_add (hge a h' hh) (hge b h' hh))
    · intro x c hc hx
      show gs.foldl (fun m h => max m (h x)) (g x) ≤ gs.foldl (fun m h => max m (h c)) (g c)
      rw [hM, hM]
      obtain ⟨h', hh, he⟩ := hatt x
      rw [he]
      exact le_trans ((h h' hh).mono x c hc hx) (hge c h' hh)

/-- the pointwise maximum dominates every game it is taken over -/
theorem pointwiseMax_ge {games : List (Nat → α)} {M : Nat → α} (hok : pointwiseMax games = .ok M) :
    ∀ h ∈ games, ∀ c, h c ≤ M c := by
  cases games with
  | nil => cases hok
  | cons g gs =>
    cases hok
    intro h hh c
    have hM : gs.foldl (fun m h => max m (h c)) (g c) = (gs.map (fun h => h c)).foldl max (g c) := by
      rw [List.foldl_map]
    show h c ≤ gs.foldl (fun m h => max m (h c)) (g c)
    rw [hM]
    rcases List.mem_cons.mp hh with rfl | hh
    · exact foldl_max_ge _ _
    · exact foldl_max_mem_ge _ _ _ (List.mem_map.mpr ⟨h, hh, rfl⟩)

/-- an additive game whose weights are non-negative with one positive gives the grand coalition a positive value -/
theorem additive_grand_pos {n : Nat} {w : Nat → α} (hw : ∀ i, i < n → 0 ≤ w i) (hp : ∃ i, i < n ∧ 0 < w i) :
    0 < additive w (grand n) := by
  obtain ⟨i, hi, hpi⟩ := hp
  show 0 < wsum w (grand n)
  rw [wsum_eq (grand_lt n), bsum_grand]
  have : w i ≤ ∑ j ∈ range n, w j :=
    Finset.single_le_sum (f := w) (fun j hj => hw j (Finset.mem_range.mp hj)) (Finset.mem_range.mpr hi)
  linarith

/-- `np.max(singletons[players], initial=0)` is a cost function for ANY singleton values (the `initial=0`
    makes it non-negative) -/
theorem xsCost (n : Nat) (s : Nat → α) : Cost n (fun c => (players c).foldl (fun m i => max m (s i)) 0) := by
  have hM : ∀ c, (players c).foldl (fun m i => max m (s i)) 0 = ((players c).map s).foldl max 0 := by
    intro c; rw [List.foldl_map]
  have hnn : ∀ c, 0 ≤ ((players c).map s).foldl max 0 := fun c => foldl_max_ge _ _
  have hge : ∀ c i, c.testBit i = true → s i ≤ ((players c).map s).foldl max 0 := by
    intro c i hi
    exact foldl_max_mem_ge _ _ _ (List.mem_map.mpr ⟨i, mem_players.mpr hi, rfl⟩)
  have hatt : ∀ c, ((players c).map s).foldl max 0 = 0 ∨
      ∃ i, c.testBit i = true ∧ ((players c).map s).foldl max 0 = s i := by
    intro c
    rcases foldl_max_mem ((players c).map s) 0 with he | he
    · exact Or.inl he
    · obtain ⟨i, hi, hc⟩ := List.mem_map.mp he
      exact Or.inr ⟨i, mem_players.mp hi, hc.symm⟩
  refine ⟨?_, ?_, ?_⟩
  · simp [players, playersFrom]
  · intro a b _ _ _
    simp only [hM]
    rcases hatt (a ||| b) with he | ⟨i, hi, he⟩
    · rw [he]; exact add_nonneg (hnn a) (hnn b)
    · rw [he]
      rw [Nat.testBit_or, Bool.or_eq_true] at hi
      rcases hi with hi | hi
      · have := hge a i hi; have := hnn b; linarith
      · have := hge b i hi; have := hnn a; linarith
  · intro x c _ hx
    simp only [hM]
    rcases hatt x with he | ⟨i, hi, he⟩
    · rw [he]; exact hnn c
    · rw [he]; exact hge c i (sub_testBit hx i hi)

/-- **XS** (`xs`, and `xs2 / xs3 / xs6` through `xsUnitDemand`): superadditive, monotone non-increasing, 0 at ∅,
    for every vector of singleton values -/
theorem xs_SAM0 (n : Nat) (s : Nat → α) : SAM0 n (xs s) := (xsCost n s).neg_SAM0

theorem xsUnitDemand_SAM0 (n : Nat) (draws : List (Nat × α)) : SAM0 n (xsUnitDemand draws) :=
  xs_SAM0 n _

example : (allCoalitions 2).map (xs (α := Int) (fun i => [3, 5].getD i 0)) = [0, -3, -5, -5] := by decide +kernel
example : (allCoalitions 2).map (xsUnitDemand (α := Int) [(0, 2), (0, 1), (1, 4)]) = [0, -2, -4, -4] := by
  decide +kernel

end additive

/-! ## 6. XOS -/

section xos
variable {α : Type} [Field α] [LinearOrder α] [IsStrictOrderedRing α] [DecidableEq α]

/-- **XOS** (`xos`, `xos_one`, `xos2/3/12`, the `…_norm_additive` variants).  Admissible draws: weights `≥ 0`
    (uniform on [0,1)).  Guards, made explicit by the model's `Except`: at least one additive game; with
    `normalize_additive` every additive game has a non-zero total; with `normalize` the maximum has a non-zero
    grand value — otherwise numpy divides by zero (`Err.nan`), see `xos_zero_weights`.  Whenever the call returns,
    the game is superadditive, monotone non-increasing and 0 at ∅. -/
theorem xos_SAM0 {n : Nat} {adds : List (Nat → α)} {nrm nadd : Bool} {v : Nat → α}
    (hw : ∀ w ∈ adds, ∀ i, i < n → 0 ≤ w i) (hok : xos n adds nrm nadd = .ok v) : SAM0 n v := by
  have h0 : ∀ g ∈ adds.map additive, Cost n g := by
    intro g hg
    obtain ⟨w, hw', rfl⟩ := List.mem_map.mp hg
    exact additive_Cost n (hw w hw')
  unfold xos at hok
  obtain ⟨games, h1, hok⟩ := bind_eq_ok hok
  obtain ⟨osx, h2, hok⟩ := bind_eq_ok hok
  obtain ⟨osx', h3, hok⟩ := bind_eq_ok hok
  have hg : ∀ g ∈ games, Cost n g := by
    unfold normalizeEach at h1
    cases nadd
    · simp only [Bool.false_eq_true, if_false] at h1
      cases h1; exact h0
    · simp only [if_true] at h1
      intro g hg
      obtain ⟨g0, hg0, hdiv⟩ := mapM_ok_mem _ _ _ h1 g hg
      exact (divByGrand_Cost (h0 g0 hg0) hdiv).1
  have hosx : Cost n osx := pointwiseMax_Cost h2 hg
  have hosx' : Cost n osx' := by
    unfold normalizeIf at h3
    cases nrm
    · simp only [Bool.false_eq_true, if_false] at h3
      cases h3; exact hosx
    · simp only [if_true] at h3
      exact (divByGrand_Cost hosx h3).1
  simp only [pure, Except.pure] at hok
  cases hok
  exact hosx'.neg_SAM0

/-- with `normalize` the grand coalition is worth −1 -/
theorem xos_grand {n : Nat} {adds : List (Nat → α)} {nadd : Bool} {v : Nat → α}
    (hw : ∀ w ∈ adds, ∀ i, i < n → 0 ≤ w i) (hok : xos n adds true nadd = .ok v) : v (grand n) = -1 := by
  have h0 : ∀ g ∈ adds.map additive, Cost n g := by
    intro g hg
    obtain ⟨w, hw', rfl⟩ := List.mem_map.mp hg
    exact additive_Cost n (hw w hw')
  unfold xos at hok
  obtain ⟨games, h1, hok⟩ := bind_eq_ok hok
  obtain ⟨osx, h2, hok⟩ := bind_eq_ok hok
  obtain ⟨osx', h3, hok⟩ := bind_eq_ok hok
  have hg : ∀ g ∈ games, Cost n g := by
    unfold normalizeEach at h1
    cases nadd
    · simp only [Bool.false_eq_true, if_false] at h1
      cases h1; exact h0
    · simp only [if_true] at h1
      intro g hg
      obtain ⟨g0, hg0, hdiv⟩ := mapM_ok_mem _ _ _ h1 g hg
      exact (divByGrand_Cost (h0 g0 hg0) hdiv).1
  simp only [normalizeIf, if_true] at h3
  have := (divByGrand_Cost (pointwiseMax_Cost h2 hg) h3).2
  simp only [pure, Except.pure] at hok
  cases hok
  show - osx' (grand n) = -1
  rw [this]

/-- **the guards of `xos` are met** — the call returns, for every combination of the two normalisation flags —
    when at least one additive game is drawn and every drawn weight vector is non-negative with a positive entry
    (uniform draws on [0,1): all n entries positive except with probability 2⁻⁵³ each; n ≥ 1). -/
theorem xos_returns {n : Nat} {adds : List (Nat → α)} (nrm nadd : Bool) (hne : adds ≠ [])
    (hw : ∀ w ∈ adds, (∀ i, i < n → 0 ≤ w i) ∧ ∃ i, i < n ∧ 0 < w i) :
    ∃ v, xos n adds nrm nadd = .ok v ∧ SAM0 n v := by
  have hpos : ∀ g ∈ adds.map additive, Cost n g ∧ 0 < g (grand n) := by
    intro g hg
    obtain ⟨w, hw', rfl⟩ := List.mem_map.mp hg
    exact ⟨additive_Cost n (hw w hw').1, additive_grand_pos (hw w hw').1 (hw w hw').2⟩
  -- stage 1
  have h1 : ∃ games, normalizeEach n nadd (adds.map additive) = .ok games ∧ games ≠ [] ∧
      ∀ g ∈ games, Cost n g ∧ 0 < g (grand n) := by
    unfold normalizeEach
    cases nadd
    · exact ⟨_, rfl, by simpa using hne, hpos⟩
    · simp only [if_true]
      obtain ⟨l', hl', hlen⟩ := mapM_ok_of_forall (divByGrand n) (adds.map additive)
        (fun g hg => ⟨_, divByGrand_ok (ne_of_gt (hpos g hg).2)⟩)
      refine ⟨l', hl', ?_, ?_⟩
      · intro he; rw [he] at hlen; simp at hlen; exact hne (List.length_eq_zero_iff.mp hlen.symm)
      · intro g' hg'
        obtain ⟨g, hg, hdiv⟩ := mapM_ok_mem _ _ _ hl' g' hg'
        have := divByGrand_Cost (hpos g hg).1 hdiv
        exact ⟨this.1, by rw [this.2]; exact zero_lt_one⟩
  obtain ⟨games, hg1, hgne, hgames⟩ := h1
  -- stage 2
  obtain ⟨osx, hosx⟩ : ∃ osx, pointwiseMax games = .ok osx := by
    cases games with
    | nil => exact absurd rfl hgne
    | cons g gs => exact ⟨_, rfl⟩
  have hosxpos : 0 < osx (grand n) := by
    cases games with
    | nil => exact absurd rfl hgne
    | cons g gs =>
      exact lt_of_lt_of_le (hgames g (by simp)).2 (pointwiseMax_ge hosx g (by simp) _)
  -- stage 3
  obtain ⟨osx', hosx'⟩ : ∃ osx', normalizeIf n nrm osx = .ok osx' := by
    unfold normalizeIf
    cases nrm
    · exact ⟨_, rfl⟩
    · exact ⟨_, divByGrand_ok (ne_of_gt hosxpos)⟩
  have hret : xos n adds nrm nadd = .ok (fun c => - osx' c) := by
    unfold xos
    rw [hg1]
    simp only [bind, Except.bind]
    rw [hosx]
    simp only [hosx']
    rfl
  exact ⟨_, hret, xos_SAM0 (fun w hw' => (hw w hw').1) hret⟩

end xos

section xosexamples
/-- the call returns for concrete positive draws (two additive games on three players), both normalisations -/
def exAdds : List (Nat → ℚ) := [fun i => [1, 2, 3].getD i 0, fun i => [3, 2, 1].getD i 0]

example : (match xos 3 exAdds true false with
    | .ok v => (allCoalitions 3).map v
    | .error _ => []) = [0, -1/2, -1/3, -5/6, -1/2, -2/3, -5/6, -1] := by decide +kernel

example : (match xos 3 exAdds true true with | .ok v => (allCoalitions 3).map v | .error _ => []) =
    [0, -1/2, -1/3, -5/6, -1/2, -2/3, -5/6, -1] := by decide +kernel

/-- all-zero weights: numpy would divide 0 by 0; the model says so instead of returning a game -/
theorem xos_zero_weights : (match xos (α := ℚ) 3 [fun _ => 0] true false with | .ok _ => none | .error e => some e) =
    some Err.nan := by decide +kernel

/-- no additive game at all: `np.max` of an empty array raises -/
example : (match xos (α := ℚ) 3 [] true false with | .ok _ => none | .error e => some e) = some Err.value := by
  decide +kernel
end xosexamples

/-! ## 7. `_apply_or` and OXS -/

section oxs
variable {α : Type} [CommRing α] [LinearOrder α] [IsStrictOrderedRing α]

/-- the three facts about the loop of `_apply_or` that the proofs use -/
theorem applyOr_spec (v1 v2 : Nat → α) (n d : Nat) :
    (applyOr v1 v2 n d ≤ 0 ∧
      ∀ S T, S < 2 ^ n → T < 2 ^ n → S &&& T = 0 → S ||| T = d → applyOr v1 v2 n d ≤ v1 S + v2 T) ∧
    (applyOr v1 v2 n d = 0 ∨
      ∃ S T, S < 2 ^ n ∧ T < 2 ^ n ∧ S &&& T = 0 ∧ S ||| T = d ∧ applyOr v1 v2 n d = v1 S + v2 T) := by
  rw [applyOr_eq_loop]
  obtain ⟨⟨h1, h2⟩, h3⟩ := orLoop_spec v1 v2 (orPairs n) (fun _ => 0) d
  refine ⟨⟨h1, ?_⟩, ?_⟩
  · intro S T hS hT hST hd
    exact h2 (S, T) (mem_orPairs.mpr ⟨hS, hT, hST⟩) hd
  · rcases h3 with h3 | ⟨p, hp, hd, he⟩
    · exact Or.inl h3
    · obtain ⟨hS, hT, hST⟩ := mem_orPairs.mp hp
      exact Or.inr ⟨p.1, p.2, hS, hT, hST, hd, he⟩

/-- **the crux of OXS.**  The min-convolution `_apply_or` of two superadditive, monotone non-increasing games
    with value 0 at ∅ is again superadditive, monotone non-increasing and 0 at ∅. -/
theorem applyOr_SAM0 {n : Nat} {v1 v2 : Nat → α} (h1 : SAM0 n v1) (h2 : SAM0 n v2) :
    SAM0 n (applyOr v1 v2 n) := by
  obtain ⟨sa1, md1, z1⟩ := h1
  obtain ⟨sa2, md2, z2⟩ := h2
  refine ⟨?_, ?_, ?_⟩
  · -- superadditive
    intro a b ha hb hab
    obtain ⟨⟨la0, la⟩, _⟩ := applyOr_spec v1 v2 n a
    obtain ⟨⟨lb0, lb⟩, _⟩ := applyOr_spec v1 v2 n b
    obtain ⟨_, hatt⟩ := applyOr_spec v1 v2 n (a ||| b)
    rcases hatt with he | ⟨S, T, hS, hT, hST, hd, he⟩
    · rw [he]; linarith
    · rw [he]
      have ea := la (S &&& a) (T &&& a) (and_lt_two_pow_left S ha) (and_lt_two_pow_left T ha)
        (split_and_left hST) (split_or_left hd hab)
      have hd' : S ||| T = b ||| a := by rw [hd, Nat.or_comm]
      have hba : b &&& a = 0 := by rw [Nat.and_comm]; exact hab
      have eb := lb (S &&& b) (T &&& b) (and_lt_two_pow_left S hb) (and_lt_two_pow_left T hb)
        (split_and_left hST) (split_or_left hd' hba)
      have s1 := sa1 (S &&& a) (S &&& b) (and_lt_two_pow_left S ha) (and_lt_two_pow_left S hb)
        (split_and_self hab)
      have s2 := sa2 (T &&& a) (T &&& b) (and_lt_two_pow_left T ha) (and_lt_two_pow_left T hb)
        (split_and_self hab)
      rw [split_or_self hd] at s1
      rw [split_or_self' hd] at s2
      linarith
  · -- monotone non-increasing
    intro x c hc hx
    obtain ⟨⟨lc0, lc⟩, _⟩ := applyOr_spec v1 v2 n c
    obtain ⟨_, hatt⟩ := applyOr_spec v1 v2 n x
    rcases hatt with he | ⟨S, T, hS, hT, hST, hd, he⟩
    · rw [he]; exact lc0
    · rw [he]
      have hx' : x < 2 ^ n := sub_lt_two_pow hx hc
      have hT' : T ||| (c ^^^ x) < 2 ^ n := or_lt_two_pow hT (Nat.xor_lt_two_pow hc hx')
      have e := lc S (T ||| (c ^^^ x)) hS hT' (extend_and hd hST hx) (extend_or hd hx)
      have m := md2 T (T ||| (c ^^^ x)) hT' extend_sub
      linarith
  · -- 0 at ∅
    obtain ⟨⟨l0, _⟩, hatt⟩ := applyOr_spec v1 v2 n 0
    rcases hatt with he | ⟨S, T, _, _, _, hd, he⟩
    · exact he
    · obtain ⟨rfl, rfl⟩ := or_eq_zero_left hd
      rw [he, z1, z2, add_zero]

/-- the fold `oxs_values = _apply_or(oxs_values, other_xs)` over SAM games stays SAM -/
theorem oxsFoldFn_SAM0 {n : Nat} {xsVals : List (Nat → α)} {o : Fn α} (hok : oxsFoldFn n xsVals = .ok o)
    (h : ∀ x ∈ xsVals, SAM0 n x) : SAM0 n o.f := by
  unfold oxsFoldFn at hok
  split at hok
  · cases hok
  · next last restRev hrev =>
    cases hok
    have hmem : ∀ x, x ∈ last :: restRev → SAM0 n x := by
      intro x hx
      apply h x
      rw [← List.mem_reverse, hrev]; exact hx
    have : ∀ (l : List (Nat → α)) (acc : Fn α), SAM0 n acc.f → (∀ x ∈ l, SAM0 n x) →
        SAM0 n (l.foldl (fun acc other => applyOrFn acc.f other n) acc).f := by
      intro l
      induction l with
      | nil => intro acc ha _; exact ha
      | cons y l ih =>
        intro acc ha hl
        rw [List.foldl_cons]
        exact ih _ (applyOr_SAM0 ha (hl y (by simp))) (fun x hx => hl x (by simp [hx]))
    exact this _ ⟨last⟩ (hmem last (by simp)) (fun x hx => hmem x (by simp [List.mem_reverse.mp hx]))

/-- each `_apply_or` step can only lower the running values: `(S, T) = (d, ∅)` is among the candidates -/
theorem applyOr_le_left {n d : Nat} (v1 v2 : Nat → α) (hd : d < 2 ^ n) (h0 : v2 0 = 0) :
    applyOr v1 v2 n d ≤ v1 d := by
  have := (applyOr_spec v1 v2 n d).1.2 d 0 hd (Nat.two_pow_pos n) (by simp) (by simp)
  rwa [h0, add_zero] at this

/-- `oxs` pops the LAST drawn XS game and folds the others onto it; the result is below that last game -/
theorem oxsFoldFn_le_last {n d : Nat} (init : List (Nat → α)) (last : Nat → α) (hd : d < 2 ^ n)
    (h0 : ∀ x ∈ init, x 0 = 0) :
    ∃ o, oxsFoldFn n (init ++ [last]) = .ok o ∧ o.f d ≤ last d := by
  have key : ∀ (l : List (Nat → α)) (acc : Fn α), (∀ x ∈ l, x 0 = 0) →
      (l.foldl (fun acc other => applyOrFn acc.f other n) acc).f d ≤ acc.f d := by
    intro l
    induction l with
    | nil => intro acc _; exact le_refl _
    | cons y l ih =>
      intro acc hl
      rw [List.foldl_cons]
      exact le_trans (ih _ (fun x hx => hl x (by simp [hx]))) (applyOr_le_left acc.f y hd (hl y (by simp)))
  have hfold : oxsFoldFn n (init ++ [last]) =
      .ok (init.foldl (fun acc other => applyOrFn acc.f other n) ⟨last⟩) := by
    unfold oxsFoldFn
    simp only [List.reverse_append, List.reverse_cons, List.reverse_nil, List.nil_append, List.singleton_append,
      List.reverse_reverse]
  exact ⟨_, hfold, key init ⟨last⟩ h0⟩

end oxs

section oxsnorm
variable {α : Type} [Field α] [LinearOrder α] [IsStrictOrderedRing α] [DecidableEq α]

/-- **OXS.**  Whenever `oxs` returns (guards: at least one XS game — `pop()` of an empty list raises —, and with
    `normalize` a non-zero grand value — otherwise 0/0), the game built from ANY XS value vectors that are SAM is
    superadditive, monotone non-increasing and 0 at ∅; `-values / values[-1]` divides by a negative number. -/
theorem oxs_SAM0 {n : Nat} {xsVals : List (Nat → α)} {nrm : Bool} {v : Nat → α}
    (h : ∀ x ∈ xsVals, SAM0 n x) (hok : oxs n xsVals nrm = .ok v) : SAM0 n v := by
  unfold oxs at hok
  obtain ⟨o, h1, hok⟩ := bind_eq_ok hok
  have ho := oxsFoldFn_SAM0 h1 h
  cases nrm
  · simp only [Bool.false_eq_true, if_false, pure, Except.pure] at hok
    cases hok; exact ho
  · simp only [if_true] at hok
    split at hok
    · cases hok
    · next hne =>
      simp only [pure, Except.pure] at hok
      cases hok
      have hle : o.f (grand n) ≤ 0 := by
        have := ho.2.1 0 (grand n) (grand_lt n) (by simp)
        rwa [ho.2.2] at this
      have hpos : 0 ≤ - o.f (grand n) := by linarith
      have e : (fun c => (- o.f c) / o.f (grand n)) = (fun c => o.f c / (- o.f (grand n))) := by
        funext c; rw [neg_div, div_neg]
      rw [e]
      exact SAM0_div ho hpos

/-- the registry's `oxs`: XS games from any drawn singleton vectors -/
theorem oxsOfSingles_SAM0 {n : Nat} {singles : List (Nat → α)} {nrm : Bool} {v : Nat → α}
    (hok : oxsOfSingles n singles nrm = .ok v) : SAM0 n v := by
  apply oxs_SAM0 _ hok
  intro x hx
  obtain ⟨s, _, rfl⟩ := List.mem_map.mp hx
  exact xs_SAM0 n s

/-- the guard of `oxs` is met — the call returns a SAM game — as soon as the LAST drawn XS game gives the grand
    coalition a negative value, i.e. one of its n drawn singleton values is positive (n ≥ 1) -/
theorem oxsOfSingles_returns {n : Nat} (init : List (Nat → α)) (last : Nat → α) (nrm : Bool)
    (hpos : ∃ i, i < n ∧ 0 < last i) :
    ∃ v, oxsOfSingles n (init ++ [last]) nrm = .ok v ∧ SAM0 n v := by
  obtain ⟨i, hi, hpi⟩ := hpos
  have hlast : xs last (grand n) < 0 := by
    have hmem : last i ∈ (players (grand n)).map last :=
      List.mem_map.mpr ⟨i, mem_players.mpr (by rw [testBit_grand]; simpa using hi), rfl⟩
    have := foldl_max_mem_ge ((players (grand n)).map last) 0 _ hmem
    show - ((players (grand n)).foldl (fun m i => max m (last i)) 0) < 0
    rw [← List.foldl_map]
    linarith
  obtain ⟨o, ho, hle⟩ := oxsFoldFn_le_last (n := n) (d := grand n) (init.map xs) (xs last) (grand_lt n)
    (fun x hx => by obtain ⟨s, _, rfl⟩ := List.mem_map.mp hx; exact (xs_SAM0 n s).2.2)
  have hne : o.f (grand n) ≠ 0 := ne_of_lt (lt_of_le_of_lt hle hlast)
  have hret : ∃ v, oxsOfSingles n (init ++ [last]) nrm = .ok v := by
    unfold oxsOfSingles oxs
    rw [List.map_append, List.map_singleton, ho]
    cases nrm
    · exact ⟨_, rfl⟩
    · simp only [bind, Except.bind, if_true, hne, if_false]
      exact ⟨_, rfl⟩
  obtain ⟨v, hv⟩ := hret
  exact ⟨v, hv, oxsOfSingles_SAM0 hv⟩

end oxsnorm

section oxsexamples
def exSingles : List (Nat → ℚ) := [fun i => [1, 2].getD i 0, fun i => [3, 1].getD i 0, fun i => [2, 2].getD i 0]

example : (match oxsOfSingles 2 exSingles true with | .ok v => (allCoalitions 2).map v | .error _ => []) =
    [0, -3/5, -2/5, -1] := by decide +kernel
example : (match oxsOfSingles 2 exSingles false with | .ok v => (allCoalitions 2).map v | .error _ => []) =
    [0, -3, -2, -5] := by decide +kernel
example : (allCoalitions 2).map (applyOr (α := Int) (fun c => [0, -1, -2, -2].getD c 0) (fun c => [0, -3, -1, -3].getD c 0) 2) =
    [0, -3, -2, -5] := by decide +kernel
example : (match oxsOfSingles (α := ℚ) 2 [] true with | .ok _ => none | .error e => some e) = some Err.index := by
  decide +kernel
end oxsexamples

/-! ## 8. coverage (integer valued) -/

section coverage

/-- **coverage.**  `−|⋃_{i∈S} A_i|` is superadditive, monotone non-increasing and 0 at ∅ for every family of sets -/
theorem coverageOf_SAM0 (n : Nat) (sets : Nat → List Nat) : SAM0 n (coverageOf sets) := by
  refine ⟨?_, ?_, ?_⟩
  · intro a b _ _ _
    unfold coverageOf
    rw [coverUnion_length, coverUnion_length, coverUnion_length, coverFinset_or]
    have := Finset.card_union_le (coverFinset sets a) (coverFinset sets b)
    omega
  · intro x c _ hx
    unfold coverageOf
    rw [coverUnion_length, coverUnion_length]
    have := Finset.card_le_card (coverFinset_mono sets hx)
    omega
  · simp [coverageOf, coverUnion, players, playersFrom]

/-- `covg_fn_generator` for any drawn indices: whenever it returns, the game is in the class -/
theorem coverage_SAM0 {n mult : Nat} {idx : List Nat} {v : Nat → Int} (hok : coverage n mult idx = .ok v) :
    SAM0 n v := by
  unfold coverage at hok
  split at hok
  · cases hok
  · split at hok
    · cases hok
    · split at hok
      · cases hok
        exact coverageOf_SAM0 n _
      · cases hok

/-- **the guards of `covg_fn_generator` are met**: with n indices into the list of non-empty subsets (what
    `generator.choice(len(powerset_list), n)` draws) the look-ups succeed, the in-loop assertion
    `uni or coalition.id == 0` holds, and the call returns a SAM game. -/
theorem coverage_returns {n mult : Nat} {idx : List Nat} (hlen : n ≤ idx.length)
    (hidx : ∀ k ∈ idx, k < (powersetList n mult).length) :
    ∃ v, coverage n mult idx = .ok v ∧ SAM0 n v := by
  obtain ⟨sets, hsets, hslen⟩ := mapM_ok_of_forall (lookupSet (powersetList n mult)) idx
    (by
      intro k hk
      have := hidx k hk
      exact ⟨(powersetList n mult)[k], by simp [lookupSet, this]⟩)
  have hne : ∀ y ∈ sets, y ≠ [] := by
    intro y hy
    obtain ⟨k, _, hk⟩ := mapM_ok_mem _ _ _ hsets y hy
    unfold lookupSet at hk
    split at hk
    · next s hs =>
      cases hk
      have hmem : y ∈ powersetList n mult := List.mem_of_getElem? hs
      unfold powersetList at hmem
      have := (List.mem_filter.mp hmem).2
      intro he; subst he; simp at this
    · cases hk
  have hall : (allCoalitions n).all (fun c => c == 0 || !(coverUnion (setOfList sets) c).isEmpty) = true := by
    rw [List.all_eq_true]
    intro c hc
    simp only [allCoalitions, List.mem_range] at hc
    by_cases hz : c = 0
    · simp [hz]
    · obtain ⟨i, hi⟩ := exists_testBit_of_ne_zero hz
      have hin : i < sets.length := by
        have := testBit_lt_of_lt_two_pow hc hi; omega
      have hsi : sets[i]? = some sets[i] := by simp [hin]
      obtain ⟨x, hx⟩ := List.exists_mem_of_ne_nil _ (hne sets[i] (List.getElem_mem hin))
      have hmem := ((coverUnion_fold (setOfList sets)
        (players c) [] List.nodup_nil).2 x).mpr (Or.inr ⟨i, mem_players.mpr hi, by simp only [setOfList, hsi]; exact hx⟩)
      have : coverUnion (setOfList sets) c ≠ [] := by
        intro he
        unfold coverUnion at he
        rw [he] at hmem; simp at hmem
      simp [hz, this]
  have hret : coverage n mult idx = .ok (coverageOf (setOfList sets)) := by
    unfold coverage
    rw [if_neg (by omega), hsets]
    dsimp only
    rw [if_pos hall]
  exact ⟨_, hret, coverage_SAM0 hret⟩

example : (match coverage 3 2 [0, 7, 62] with | .ok v => (allCoalitions 3).map v | .error _ => []) =
    [0, -1, -2, -2, -6, -6, -6, -6] := by decide +kernel
example : (match coverage 3 2 [0, 7, 63] with | .ok _ => none | .error e => some e) = some Err.index := by
  decide +kernel

end coverage

end ICG.C10
