/-
  Property C03 — the cached and the reference computer are interchangeable.

  "`compute_bounds_superadditive` and `compute_bounds_superadditive_cached` produce the same lower and
   upper bounds for every incomplete game on which either is defined, they are defined on exactly the
   same games (those that know ∅, N and every singleton — outside, the reference raises AssertionError,
   the cached one AssertionError or ValueError), the result of the cached computer does not depend on
   how ties between coalitions of equal size are ordered (numpy's argsort is not stable), and the
   per-player-count structure it memoises (`functools.cache`) is a pure function of the player count,
   whatever sequence of games of different sizes is processed."

  Theorems about the MODEL functions `sa`, `sac` (ICG/Model/Bounds.lean); all `n`, every linearly ordered
  value type with `+`, `-` (in particular every `[AddCommGroup α] [LinearOrder α] [IsOrderedAddMonoid α]`).

  * `same`, `same_rows`       : `sa t` and `sac t` succeed and return the same table (`MinInfo`, `Inv`)
  * `defined_iff`, `error_kinds` : same domain; the error kinds may differ
  * `order_free`, `order_free'`, `order_free_full` : any size-sorted enumeration of the unknown rows
  * `cache_pure`              : a memo table that is only ever extended with `(n, f n)`
-/
import ICG.Lemmas.BoundsCommon

namespace ICG.C03
open ICG Table
open ICG.BoundsCommon

variable {α : Type}

section main
variable [Add α] [Sub α] [LinearOrder α]

/-- **C03_same.**  On a `MinInfo` table whose known rows carry one value in both cells (`Inv` — needed
    because the reference reads the *upper* cell of known supersets and the cached one the *lower*
    cell), both computers succeed and return literally the same table. -/
theorem same (t : Table α) (hmin : MinInfo t.n t.known) (hinv : t.Inv) :
    ∃ t', sa t = .ok t' ∧ sac t = .ok t' :=
  sa_sac_agree enumFacts t hmin hinv

/-- row-wise form -/
theorem same_rows (t : Table α) (hmin : MinInfo t.n t.known) (hinv : t.Inv) :
    ∃ t1 t2, sa t = .ok t1 ∧ sac t = .ok t2 ∧ t1.n = t2.n ∧ t1.known = t2.known ∧
      ∀ c, c < 2 ^ t.n → t1.lo c = t2.lo c ∧ t1.hi c = t2.hi c := by
  obtain ⟨t', h1, h2⟩ := same t hmin hinv
  exact ⟨t', t', h1, h2, rfl, rfl, fun _ _ => ⟨rfl, rfl⟩⟩

/-- `Inv` cannot be dropped: known row 7 with lower cell 9 and upper cell 10 (a state a scalar
    `set_upper_bound` on a known row produces) satisfies `MinInfo`, but not `Inv` -/
example : MinInfo 3 (Ex.exT.putHi 7 10).known ∧ ¬ (Ex.exT.putHi 7 10).Inv := by
  refine ⟨Ex.exT_min, ?_⟩
  intro h
  have := h 7 (by decide) (by decide)
  revert this; decide

example : ∃ t', sa Ex.exT = .ok t' ∧ sac Ex.exT = .ok t' :=
  same Ex.exT Ex.exT_min Ex.exT_agree.inv

/-- **C03_defined_iff.**  Both computers are defined exactly on the `MinInfo` tables (for every content
    of the table, `Inv` or not). -/
theorem defined_iff (t : Table α) :
    ((∃ t', sa t = .ok t') ↔ MinInfo t.n t.known) ∧ ((∃ t', sac t = .ok t') ↔ MinInfo t.n t.known) :=
  ⟨sa_defined_iff enumFacts t, sac_defined_iff enumFacts t⟩

theorem defined_same (t : Table α) : (∃ t', sa t = .ok t') ↔ (∃ t', sac t = .ok t') :=
  (defined_iff t).1.trans (defined_iff t).2.symm

/-- outside the domain the reference raises AssertionError; the cached computer raises too, possibly with
    another kind (ValueError from `np.max([])` at an unknown singleton) -/
theorem error_kinds (t : Table α) (h : ¬ MinInfo t.n t.known) :
    sa t = .error .assert ∧ ∃ e, sac t = .error e := by
  refine ⟨sa_not_minInfo t h, ?_⟩
  cases hs : sac t with
  | error e => exact ⟨e, rfl⟩
  | ok t' => exact absurd ((defined_iff t).2.mp ⟨t', hs⟩) h

/-- a table outside the domain: the singleton {1} (id 2) is unknown -/
def exBad : Table Int := { Ex.exT with known := fun c => c == 0 || c == 1 || c == 4 || c == 7 }

theorem exBad_not_min : ¬ MinInfo exBad.n exBad.known := by
  intro h
  have := h.2.2 1 (by decide)
  revert this; decide

example : sa exBad = .error .assert ∧ ∃ e, sac exBad = .error e := error_kinds exBad exBad_not_min

/-- the kinds really differ on this table: the cached computer raises ValueError -/
example : sac exBad = .error .value := by
  have h : (match sac exBad with | .error e => some e | .ok _ => none) = some Err.value := by
    decide +kernel
  cases hs : sac exBad with
  | ok t' => rw [hs] at h; cases h
  | error e => rw [hs] at h; cases h; rfl

example : ((∃ t', sa Ex.exT = .ok t') ↔ MinInfo Ex.exT.n Ex.exT.known) ∧
    ((∃ t', sac Ex.exT = .ok t') ↔ MinInfo Ex.exT.n Ex.exT.known) := defined_iff Ex.exT

/-! ### independence of the tie-break among coalitions of equal size -/

omit [Sub α] in
/-- **C03_order_free** (lower pass).  For every size-sorted permutation of the cached computer's list of
    unknown coalitions the lower sweep succeeds and computes `loSpec` on every row of the game. -/
theorem order_free (t : Table α) (hmin : MinInfo t.n t.known) (order : List Nat)
    (hperm : order.Perm (unknownSorted t))
    (hsorted : order.Pairwise (fun a b => size a ≤ size b)) :
    ∃ t1, sweepM sacLowerStep putLo order t = .ok t1 ∧ t1.n = t.n ∧ t1.known = t.known ∧
      t1.hi = t.hi ∧ (∀ c, c < 2 ^ t.n → t1.lo c = loSpec t.known t.lo c) ∧
      (∀ c, 2 ^ t.n ≤ c → t1.lo c = t.lo c) :=
  ICG.order_free enumFacts t hmin order hperm hsorted

omit [Sub α] in
/-- two such orders give the same table -/
theorem order_free' (t : Table α) (hmin : MinInfo t.n t.known) (o1 o2 : List Nat)
    (hp1 : o1.Perm (unknownSorted t)) (hs1 : o1.Pairwise (fun a b => size a ≤ size b))
    (hp2 : o2.Perm (unknownSorted t)) (hs2 : o2.Pairwise (fun a b => size a ≤ size b)) :
    ∃ t1, sweepM sacLowerStep putLo o1 t = .ok t1 ∧ sweepM sacLowerStep putLo o2 t = .ok t1 :=
  ICG.order_free' enumFacts t hmin o1 o2 hp1 hs1 hp2 hs2

/-- the cached computer with the unknown coalitions enumerated in a given order (what `np.argsort` of the
    sizes returned); `sac` is `sacWith (unknownSorted t)` -/
def sacWith (order : List Nat) (t : Table α) : Except Err (Table α) :=
  if sacPrecond t then do
    let t1 ← sweepM sacLowerStep putLo order t
    let t2 ← sweepM sacUpperStep putHi order t1.compactT
    pure t2.compactT
  else .error .assert

theorem sacWith_default (t : Table α) : sacWith (unknownSorted t) t = sac t := rfl

/-- **C03_order_free** (both passes).  Every size-sorted permutation of the unknown list gives the table
    `sac` returns. -/
theorem order_free_full (t : Table α) (hmin : MinInfo t.n t.known) (order : List Nat)
    (hperm : order.Perm (unknownSorted t))
    (hsorted : order.Pairwise (fun a b => size a ≤ size b)) :
    ∃ t', sac t = .ok t' ∧ sacWith order t = .ok t' := by
  have E := enumFacts
  obtain ⟨t1, hl1, hl2⟩ := order_free' t hmin order (unknownSorted t) hperm hsorted
    (List.Perm.refl _) (Refine.unknownOrder_sac E t).sorted
  obtain ⟨t1', g1, h1n, h1k, _, _⟩ := ICG.order_free E t hmin order hperm hsorted
  rw [hl1] at g1; cases g1
  have hmin1 : MinInfo t1.n t1.known := by rw [h1n, h1k]; exact hmin
  have hf : ∀ (s : Table α) (c : Nat), s.n = t1.n → s.known = t1.known → s.lo = t1.lo →
      c < 2 ^ t1.n → t1.known c = false → (∀ x, t1.known x = true → s.hi x = t1.hi x) →
      sacUpperStep s c = .ok (upAgainst t1.n t1.known t1.lo t1.lo c) := by
    intro s c hn hk hl hc hkc _
    have := Refine.sacUpperStep_ok E s c t1.lo t1.lo (by rw [hn, hk]; exact hmin1)
      (by rw [hn]; exact hc) (by rw [hk]; exact hkc) (fun T _ _ => by rw [hl]) (fun x _ => by rw [hl])
    rw [this, hn, hk]
  have hmemS : ∀ c, c ∈ unknownSorted t ↔ c < 2 ^ t1.n ∧ t1.known c = false := by
    intro c; rw [(Refine.unknownOrder_sac E t).mem, h1n, h1k]
  have hmemO : ∀ c, c ∈ order ↔ c < 2 ^ t1.n ∧ t1.known c = false := by
    intro c; rw [hperm.mem_iff]; exact hmemS c
  obtain ⟨t2, a1, a2, a3, a4, a5⟩ := Refine.hiPass t1 (unknownSorted t) hmemS _ sacUpperStep hf
  obtain ⟨t2', b1, b2, b3, b4, b5⟩ := Refine.hiPass t1 order hmemO _ sacUpperStep hf
  have heq : t2' = t2 := by
    apply Refine.table_ext (by rw [a2, b2]) (by rw [a3, b3])
    · intro c; rw [a4, b4]
    · intro c; rw [a5 c, b5 c]
  subst heq
  refine ⟨t2', ?_, ?_⟩
  · unfold sac
    rw [if_pos (Refine.sacPrecond_of_minInfo hmin)]
    simp only [hl2, compactT_eq, a1, bind, Except.bind, pure, Except.pure]
  · unfold sacWith
    rw [if_pos (Refine.sacPrecond_of_minInfo hmin)]
    simp only [hl1, compactT_eq, b1, bind, Except.bind, pure, Except.pure]

/-- a size-sorted order of the three unknown pairs of `exT` other than the model's: `[6, 3, 5]` -/
example : ∃ t', sac Ex.exT = .ok t' ∧ sacWith [6, 3, 5] Ex.exT = .ok t' :=
  order_free_full Ex.exT Ex.exT_min [6, 3, 5]
    (by have : unknownSorted Ex.exT = [3, 5, 6] := by decide +kernel
        rw [this]; decide)
    (by decide +kernel)

end main

/-! ### the memoised structure is pure

`_get_sub_super_coalition_structure` is wrapped in `functools.cache`: a dictionary keyed by the argument
that is only ever *extended* with `n ↦ f n` on a miss and read on a hit.  The memo table is modelled as
an association list; `lookupOrInsert` is the wrapper.  For every sequence of calls with arbitrary `n`
(games of different sizes interleaved) every call returns `f n`, and entries already present are never
changed or removed.  That nothing *else* writes into the cached arrays (the computers only index them)
is not a statement about this wrapper: it is checked by the correspondence harness, which compares
digests of the cached arrays before and after every compute. -/

section cache
variable {σ : Type}

/-- first entry for key `n` -/
def lookup (m : List (Nat × σ)) (n : Nat) : Option σ := (m.find? (fun p => p.1 == n)).map (·.2)

/-- the `functools.cache` wrapper around `f`: result and new memo table -/
def lookupOrInsert (f : Nat → σ) (m : List (Nat × σ)) (n : Nat) : σ × List (Nat × σ) :=
  match lookup m n with
  | some s => (s, m)
  | none => (f n, m ++ [(n, f n)])

/-- a sequence of calls: the results, in order, and the final memo table -/
def calls (f : Nat → σ) : List (Nat × σ) → List Nat → List σ × List (Nat × σ)
  | m, [] => ([], m)
  | m, n :: ns =>
    let r := lookupOrInsert f m n
    let rest := calls f r.2 ns
    (r.1 :: rest.1, rest.2)

/-- the invariant the memo table carries -/
def Valid (f : Nat → σ) (m : List (Nat × σ)) : Prop := ∀ p ∈ m, p.2 = f p.1

theorem valid_nil (f : Nat → σ) : Valid f [] := fun _ h => by cases h

theorem lookup_valid {f : Nat → σ} {m : List (Nat × σ)} (hv : Valid f m) {n : Nat} {s : σ}
    (h : lookup m n = some s) : s = f n := by
  unfold lookup at h
  cases hf : m.find? (fun p => p.1 == n) with
  | none => rw [hf] at h; cases h
  | some p =>
    rw [hf] at h
    have hp : p.2 = s := by simpa using h
    have hmem := List.mem_of_find?_eq_some hf
    have hkey : p.1 = n := by simpa using List.find?_some hf
    rw [← hp, hv p hmem, hkey]

/-- one call: returns `f n`, keeps the table valid, and only appends -/
theorem lookupOrInsert_spec (f : Nat → σ) {m : List (Nat × σ)} (hv : Valid f m) (n : Nat) :
    (lookupOrInsert f m n).1 = f n ∧ Valid f (lookupOrInsert f m n).2 ∧
      ∃ ext, (lookupOrInsert f m n).2 = m ++ ext := by
  unfold lookupOrInsert
  cases h : lookup m n with
  | some s => exact ⟨lookup_valid hv h, hv, [], by simp⟩
  | none =>
    refine ⟨rfl, ?_, [(n, f n)], rfl⟩
    intro p hp
    rcases List.mem_append.mp hp with hp | hp
    · exact hv p hp
    · have : p = (n, f n) := by simpa using hp
      rw [this]

/-- after a call the key is present, so the next call with the same key is a hit on the same entry -/
theorem lookup_after (f : Nat → σ) {m : List (Nat × σ)} (hv : Valid f m) (n : Nat) :
    lookup (lookupOrInsert f m n).2 n = some (f n) := by
  unfold lookupOrInsert
  cases h : lookup m n with
  | some s => simp only; rw [h, lookup_valid hv h]
  | none =>
    simp only
    unfold lookup at h ⊢
    have hnone : m.find? (fun p => p.1 == n) = none := by
      cases hf : m.find? (fun p => p.1 == n) with
      | none => rfl
      | some p => rw [hf] at h; cases h
    rw [List.find?_append, hnone]
    simp

/-- **C03_cache_pure.**  For every sequence of calls with arbitrary arguments, starting from any valid
    memo table (in particular the empty one): every call returns `f n`; the final table is valid; and it
    extends the initial one (entries are never changed or dropped). -/
theorem cache_pure (f : Nat → σ) : ∀ (ns : List Nat) (m : List (Nat × σ)), Valid f m →
    (calls f m ns).1 = ns.map f ∧ Valid f (calls f m ns).2 ∧ ∃ ext, (calls f m ns).2 = m ++ ext
  | [], m, hv => ⟨rfl, hv, [], by simp [calls]⟩
  | n :: ns, m, hv => by
    obtain ⟨h1, h2, ext1, h3⟩ := lookupOrInsert_spec f hv n
    obtain ⟨i1, i2, ext2, i3⟩ := cache_pure f ns (lookupOrInsert f m n).2 h2
    refine ⟨?_, i2, ext1 ++ ext2, ?_⟩
    · simp only [calls, List.map_cons, h1, i1]
    · simp only [calls]
      rw [i3, h3, List.append_assoc]

/-- in particular, from the empty cache -/
theorem cache_pure_fresh (f : Nat → σ) (ns : List Nat) : (calls f [] ns).1 = ns.map f :=
  (cache_pure f ns [] (valid_nil f)).1

/-- player counts 3, 5, 3, 4, 5 interleaved: every call returns the structure of its own `n`, and the
    memo table holds one entry per distinct `n`, in first-call order -/
example : calls (fun n => allSorted n) [] [3, 5, 3, 4, 5] =
    ([allSorted 3, allSorted 5, allSorted 3, allSorted 4, allSorted 5],
     [(3, allSorted 3), (5, allSorted 5), (4, allSorted 4)]) := by
  decide +kernel

example : (calls (fun n => 2 ^ n) [(7, 128)] [1, 7, 1]).1 = [2, 128, 2] :=
  (cache_pure (fun n => 2 ^ n) [1, 7, 1] [(7, 128)] (by intro p hp; simp at hp; subst hp; decide)).1

end cache

end ICG.C03
