/-
  ICG.Props.FloatErrorShapley — the sense of "within float rounding as computed" in the Shapley /
  exploitability properties (C05, C06), made precise the way ICG.Props.FloatError does it for the bounds.

  Setting.  Values live in an ordered field `α`.  `add' sub' mul' div' : α → α → α` are ARBITRARY
  functions (no algebraic law is assumed) with
      |add' a b − (a + b)| ≤ δ    |sub' a b − (a − b)| ≤ δ    |mul' a b − a·b| ≤ δ    |div' a b − a/b| ≤ δ
  for the operands that occur.  `shapleyForPlayerApprox`, `shapleyApprox`, `exploitabilityApprox`
  (`ICG.Lemmas.FloatErrorShapleyCore`) are `shapleyForPlayer`, `shapley`, `exploitability` of the model
  run with these operations: per coalition without the player one `sub'` and one `mul'` (the integer
  coefficient is converted exactly), the terms summed from `0` with `add'`, ONE `div'` by `n!`; for the
  exploitability the per-player values summed from `0` with `add'` and one `sub'` of `get_value(N)`.
  With the exact operations they are the model functions (`approx_exact`, by `rfl`).

  Results (`B n δ = (2 + 2^n / n!)·δ`; `n ≥ 1` is implied by `i < n`):

    sumApprox_error            |sumApprox l − listSum l|            ≤ |l|·δ
    sumApprox_error_map/_lists … entries differing by ε_k:          ≤ Σ ε_k + |l|·δ
    shapleyForPlayer_error     |φ'_i − φ_i|                          ≤ B n δ             (attained, §6)
    efficiency_error           |Σ_i φ'_i − (v(N) − v(∅))|            ≤ n·B n δ           (Σ exact)
    exploitability_error       |e' − e|                              ≤ n·B n δ + (n+1)·δ
    exploitability_nonneg_approx   lower ≤ upper, upper(∅) = 0, get_value(N) = lower(N):
                               −(n·B n δ + (n+1)·δ) ≤ e'
    …_error_iff, …_ok_iff      the rounded functions raise exactly when (and what) the exact ones do
    `…_on`                     the same with the error hypothesis only for the operations actually
                               performed (`OpsErr`, `ExplOpsErr`)
    OpsErr.of_relative, ExplOpsErr.of_relative, shapleyForPlayer_error_relative,
    exploitability_error_relative
                               relative error `u` (float64: `u = 2^-53`) on every operation and
                               magnitudes `≤ M` of the exact results of the PERFORMED operations give
                               `δ = u·M`

  The 3-player examples at the end show that the hypotheses are satisfiable, that the rounded value
  really differs from the exact one, and that `shapleyForPlayer_error` is ATTAINED (every operation
  rounding up by `δ` gives an error of exactly `B 3 δ`); a second instance rounds every result to the
  nearest multiple of `1/1000`.
-/
import ICG.Lemmas.FloatErrorShapleyCore
import ICG.Props.C05
import ICG.Props.C06
import Mathlib.Tactic.NormNum
import Mathlib.Tactic.Ring
import Mathlib.Algebra.Order.Field.Rat
import Mathlib.Algebra.Order.Floor.Ring
import Mathlib.Data.Rat.Floor

set_option linter.unusedSectionVars false

namespace ICG.ApproxShapley
open ICG Finset

/-! ### 0. sanity: exact operations give the model -/
section exact
variable {α : Type} [Add α] [Sub α] [Mul α] [Div α] [Zero α] [NatCast α]

/-- the rounded functions ARE the model functions when nothing is rounded (all by `rfl`) -/
theorem approx_exact (n : Nat) (g : GetValues α) (single : Nat) (coefs : List Nat) (nFac i : Nat)
    (l : List α) :
    sumApprox (· + ·) l = listSum l ∧
    shapleyCoreApprox (· + ·) (· - ·) (· * ·) (· / ·) n g single coefs nFac
      = shapleyCore n g single coefs nFac ∧
    shapleyForPlayerApprox (· + ·) (· - ·) (· * ·) (· / ·) n g i = shapleyForPlayer n g i ∧
    shapleyApprox (· + ·) (· - ·) (· * ·) (· / ·) n g = shapley n g :=
  ⟨rfl, rfl, rfl, rfl⟩

theorem approx_exact_exploitability [One α] (n : Nat) (lo hi : Nat → α) (gv : Except Err α) (t : Table α) :
    exploitabilityApprox (· + ·) (· - ·) (· * ·) (· / ·) n lo hi gv = exploitability n lo hi gv ∧
    tableExploitabilityApprox (· + ·) (· - ·) (· * ·) (· / ·) t = t.exploitability :=
  ⟨rfl, rfl⟩

end exact

/-! ### 1. the rounded functions raise exactly when the exact ones do

Rounding does not touch the control flow: every read from the game, the `fromiter` count check and the
coefficient lookup are those of the model, for EVERY game (raising ones included), every coefficient
list and every operations `add' sub' mul' div'` (no error hypothesis is needed here). -/
section errors
variable {α : Type} [Add α] [Sub α] [Mul α] [Div α] [Zero α] [NatCast α]
variable (add' sub' mul' div' : α → α → α)

/-- an `Except` value is `.ok` iff it is no `.error` -/
theorem ok_iff_of_error_iff {β γ : Type} {x : Except Err β} {y : Except Err γ}
    (h : ∀ e, x = .error e ↔ y = .error e) : (∃ a, x = .ok a) ↔ (∃ b, y = .ok b) := by
  cases x with
  | error e => cases y with
    | error e' => simp
    | ok b => exact absurd ((h e).mp rfl) (by simp)
  | ok a => cases y with
    | error e' => exact absurd ((h e').mpr rfl) (by simp)
    | ok b => simp

theorem shapleyCore_error_iff (n : Nat) (g : GetValues α) (single : Nat) (coefs : List Nat) (nFac : Nat)
    (e : Err) :
    shapleyCoreApprox add' sub' mul' div' n g single coefs nFac = .error e ↔
      shapleyCore n g single coefs nFac = .error e :=
  shapleyCoreApprox_error_iff add' sub' mul' div' n g single coefs nFac e

theorem shapleyForPlayer_error_iff (n : Nat) (g : GetValues α) (i : Nat) (e : Err) :
    shapleyForPlayerApprox add' sub' mul' div' n g i = .error e ↔ shapleyForPlayer n g i = .error e :=
  shapleyCoreApprox_error_iff add' sub' mul' div' n g _ _ _ e

theorem shapleyForPlayer_ok_iff (n : Nat) (g : GetValues α) (i : Nat) :
    (∃ x, shapleyForPlayerApprox add' sub' mul' div' n g i = .ok x) ↔ (∃ y, shapleyForPlayer n g i = .ok y) :=
  ok_iff_of_error_iff (shapleyForPlayer_error_iff add' sub' mul' div' n g i)

theorem shapley_error_iff (n : Nat) (g : GetValues α) (e : Err) :
    shapleyApprox add' sub' mul' div' n g = .error e ↔ shapley n g = .error e := by
  unfold shapleyApprox shapley
  exact mapE_error_congr _ _ _
    (fun i _ e' => shapleyCoreApprox_error_iff add' sub' mul' div' n g _ _ _ e') e

theorem shapley_ok_iff (n : Nat) (g : GetValues α) :
    (∃ x, shapleyApprox add' sub' mul' div' n g = .ok x) ↔ (∃ y, shapley n g = .ok y) :=
  ok_iff_of_error_iff (shapley_error_iff add' sub' mul' div' n g)

theorem exploitability_error_iff [One α] (n : Nat) (lo hi : Nat → α) (gv : Except Err α) (e : Err) :
    exploitabilityApprox add' sub' mul' div' n lo hi gv = .error e ↔
      exploitability n lo hi gv = .error e := by
  have hm := mapE_error_congr
    (fun i => shapleyForPlayer n (maxGainGetValues n i lo hi) i)
    (fun i => shapleyForPlayerApprox add' sub' mul' div' n (maxGainGetValues n i lo hi) i)
    (List.range n) (fun i _ e' => shapleyForPlayer_error_iff add' sub' mul' div' n _ i e')
  unfold exploitabilityApprox exploitability
  cases h1 : mapE (fun i => shapleyForPlayer n (maxGainGetValues n i lo hi) i) (List.range n) with
  | error e1 =>
    rw [(hm e1).mpr h1]
    simp [bind, Except.bind]
  | ok l =>
    cases h2 : mapE (fun i => shapleyForPlayerApprox add' sub' mul' div' n (maxGainGetValues n i lo hi) i)
        (List.range n) with
    | error e2 =>
      have := (hm e2).mp h2
      rw [h1] at this; cases this
    | ok l' =>
      cases gv <;> simp [bind, Except.bind]

theorem exploitability_ok_iff [One α] (n : Nat) (lo hi : Nat → α) (gv : Except Err α) :
    (∃ x, exploitabilityApprox add' sub' mul' div' n lo hi gv = .ok x) ↔
      (∃ y, exploitability n lo hi gv = .ok y) :=
  ok_iff_of_error_iff (exploitability_error_iff add' sub' mul' div' n lo hi gv)

theorem tableExploitability_error_iff [One α] (t : Table α) (e : Err) :
    tableExploitabilityApprox add' sub' mul' div' t = .error e ↔ t.exploitability = .error e :=
  exploitability_error_iff add' sub' mul' div' t.n t.lo t.hi _ e

end errors

variable {α : Type} [Field α] [LinearOrder α] [IsStrictOrderedRing α]

/-! ### 2. the rounded sum -/
section sums
variable {add' : α → α → α} {δ : α}

/-- an error bound is non-negative -/
theorem delta_nonneg (hadd : ∀ a b, |add' a b - (a + b)| ≤ δ) : 0 ≤ δ :=
  le_trans (abs_nonneg _) (hadd 0 0)

/-- **the rounded sum of two lists given entrywise** (`l.map f'` rounded, `l.map f` exact), hypothesis on
    the additions actually performed: the error is `Σ ε + |l|·δ` -/
theorem sumApprox_error_map_on {ι : Type} (f' f ε : ι → α) (l : List ι)
    (hε : ∀ x ∈ l, |f' x - f x| ≤ ε x)
    (hadd : ∀ p ∈ sumOps add' 0 (l.map f'), |add' p.1 p.2 - (p.1 + p.2)| ≤ δ) :
    |sumApprox add' (l.map f') - listSum (l.map f)| ≤ (l.map ε).sum + (l.length : α) * δ := by
  have h := foldl_error f' f ε l 0 0 hε hadd
  rw [sub_self, abs_zero, zero_add] at h
  exact h

theorem sumApprox_error_map {ι : Type} (hadd : ∀ a b, |add' a b - (a + b)| ≤ δ) (f' f ε : ι → α)
    (l : List ι) (hε : ∀ x ∈ l, |f' x - f x| ≤ ε x) :
    |sumApprox add' (l.map f') - listSum (l.map f)| ≤ (l.map ε).sum + (l.length : α) * δ :=
  sumApprox_error_map_on f' f ε l hε (fun _ _ => hadd _ _)

/-- **the rounded sum of a list**, hypothesis on the additions actually performed -/
theorem sumApprox_error_on (l : List α)
    (hadd : ∀ p ∈ sumOps add' 0 l, |add' p.1 p.2 - (p.1 + p.2)| ≤ δ) :
    |sumApprox add' l - listSum l| ≤ (l.length : α) * δ := by
  have h := sumApprox_error_map_on (add' := add') (δ := δ) id id (fun _ => (0 : α)) l
    (fun x _ => by simp) (by simpa using hadd)
  simpa using h

/-- **sumApprox_error.**  `|sumApprox add' l − listSum l| ≤ |l|·δ`. -/
theorem sumApprox_error (hadd : ∀ a b, |add' a b - (a + b)| ≤ δ) (l : List α) :
    |sumApprox add' l - listSum l| ≤ (l.length : α) * δ :=
  sumApprox_error_on l (fun _ _ => hadd _ _)

theorem map_getD_range (l : List α) : (List.range l.length).map (fun k => l.getD k 0) = l := by
  apply List.ext_getElem (by simp)
  intro k h1 h2
  simp [List.getD_eq_getElem?_getD, h2]

/-- **two lists** of the same length whose entries differ by at most `ε k` at position `k`: the rounded
    sum of the first is within `Σ_k ε k + length·δ` of the exact sum of the second -/
theorem sumApprox_error_lists (hadd : ∀ a b, |add' a b - (a + b)| ≤ δ) (l' l : List α) (ε : Nat → α)
    (hlen : l'.length = l.length) (hε : ∀ k, k < l.length → |l'.getD k 0 - l.getD k 0| ≤ ε k) :
    |sumApprox add' l' - listSum l| ≤ ((List.range l.length).map ε).sum + (l.length : α) * δ := by
  have h := sumApprox_error_map hadd (fun k => l'.getD k 0) (fun k => l.getD k 0) ε
    (List.range l.length) (fun k hk => hε k (List.mem_range.mp hk))
  rw [map_getD_range l] at h
  rw [← hlen, map_getD_range l', hlen, List.length_range] at h
  exact h

end sums

/-! ### 3. one rounded Shapley value, and efficiency -/
section shapleyErr
variable {add' sub' mul' div' : α → α → α} {δ : α}

/-- **one Shapley value**, on a game that answers with `v`, hypotheses on the performed operations only -/
theorem shapleyForPlayer_error_on {n i : Nat} (hi : i < n) (g : GetValues α) (v : Nat → α)
    (hg : Answers n g v) (h : OpsErr add' sub' mul' div' n v i δ) {φ : α}
    (hφ : shapleyForPlayer n g i = .ok φ) :
    ∃ φ', shapleyForPlayerApprox add' sub' mul' div' n g i = .ok φ' ∧ |φ' - φ| ≤ B n δ := by
  rw [shapleyForPlayer_ok hi g v hg] at hφ
  injection hφ with hφ
  subst hφ
  exact ⟨_, shapleyForPlayerApprox_ok add' sub' mul' div' hi g v hg, phiApprox_error_on hi h⟩

/-- **shapleyForPlayer_error.**  On a complete game, for a player `i < n` (so `n ≥ 1`): the rounded
    computation succeeds and its result is within `B n δ = (2 + 2^n/n!)·δ` of the exact Shapley value. -/
theorem shapleyForPlayer_error (hadd : ∀ a b, |add' a b - (a + b)| ≤ δ)
    (hsub : ∀ a b, |sub' a b - (a - b)| ≤ δ) (hmul : ∀ a b, |mul' a b - a * b| ≤ δ)
    (hdiv : ∀ a b, |div' a b - a / b| ≤ δ) {n i : Nat} (hi : i < n) (v : Nat → α) {φ : α}
    (hφ : shapleyForPlayer n (completeGame v) i = .ok φ) :
    ∃ φ', shapleyForPlayerApprox add' sub' mul' div' n (completeGame v) i = .ok φ' ∧
      |φ' - φ| ≤ B n δ :=
  shapleyForPlayer_error_on hi _ v (answers_complete n v) (OpsErr.of_forall hadd hsub hmul hdiv n v i) hφ

/-- the same for every game that answers with `v` (e.g. the fully known value table, `C06.answers_table`) -/
theorem shapleyForPlayer_error_answers (hadd : ∀ a b, |add' a b - (a + b)| ≤ δ)
    (hsub : ∀ a b, |sub' a b - (a - b)| ≤ δ) (hmul : ∀ a b, |mul' a b - a * b| ≤ δ)
    (hdiv : ∀ a b, |div' a b - a / b| ≤ δ) {n i : Nat} (hi : i < n) (g : GetValues α) (v : Nat → α)
    (hg : Answers n g v) :
    ∃ φ φ', shapleyForPlayer n g i = .ok φ ∧
      shapleyForPlayerApprox add' sub' mul' div' n g i = .ok φ' ∧ |φ' - φ| ≤ B n δ :=
  ⟨_, _, shapleyForPlayer_ok hi g v hg, shapleyForPlayerApprox_ok add' sub' mul' div' hi g v hg,
    phiApprox_error_on hi (OpsErr.of_forall hadd hsub hmul hdiv n v i)⟩

/-- exact sums of two lists given entrywise differ by at most the sum of the entrywise bounds -/
theorem sum_map_close {ι : Type} (f' f ε : ι → α) (l : List ι) (hε : ∀ x ∈ l, |f' x - f x| ≤ ε x) :
    |(l.map f').sum - (l.map f).sum| ≤ (l.map ε).sum := by
  have h := foldl_error (add' := (· + ·)) (δ := (0 : α)) f' f ε l 0 0 hε (fun p _ => by simp)
  simp only [sub_self, abs_zero, zero_add, mul_zero, add_zero] at h
  have e1 : (l.map f').foldl (· + ·) 0 = (l.map f').sum := listSum_eq_sum _
  have e2 : (l.map f).foldl (· + ·) 0 = (l.map f).sum := listSum_eq_sum _
  rwa [e1, e2] at h

theorem sum_map_const {ι : Type} (l : List ι) (b : α) : (l.map (fun _ => b)).sum = (l.length : α) * b := by
  induction l with
  | nil => simp
  | cons a l ih => simp only [List.map_cons, List.sum_cons, List.length_cons, Nat.cast_succ, ih]; ring

/-- **efficiency**, hypotheses on the performed operations only: the rounded Shapley values, summed
    EXACTLY, are within `n·B n δ` of `v(N) − v(∅)` -/
theorem efficiency_error_on (n : Nat) (g : GetValues α) (v : Nat → α) (hg : Answers n g v)
    (h : ∀ i, i < n → OpsErr add' sub' mul' div' n v i δ) :
    ∃ l', shapleyApprox add' sub' mul' div' n g = .ok l' ∧ l'.length = n ∧
      |l'.sum - (v (grand n) - v 0)| ≤ (n : α) * B n δ := by
  obtain ⟨l, hl, hsum⟩ := C06.efficiency n g v hg
  rw [shapley_ok n g v hg] at hl
  injection hl with hl
  subst hl
  refine ⟨_, shapleyApprox_ok add' sub' mul' div' n g v hg, by simp, ?_⟩
  rw [← hsum]
  have := sum_map_close (phiApprox add' sub' mul' div' n v) (phi n v) (fun _ => B n δ) (List.range n)
    (fun i hi => phiApprox_error_on (List.mem_range.mp hi) (h i (List.mem_range.mp hi)))
  rwa [sum_map_const, List.length_range] at this

/-- **efficiency_error.**  `|Σ_i φ'_i − (v(N) − v(∅))| ≤ n·B n δ` (the final sum exact; for the rounded
    final sum add `n·δ`, `sumApprox_error`). -/
theorem efficiency_error (hadd : ∀ a b, |add' a b - (a + b)| ≤ δ)
    (hsub : ∀ a b, |sub' a b - (a - b)| ≤ δ) (hmul : ∀ a b, |mul' a b - a * b| ≤ δ)
    (hdiv : ∀ a b, |div' a b - a / b| ≤ δ) (n : Nat) (v : Nat → α) :
    ∃ l', shapleyApprox add' sub' mul' div' n (completeGame v) = .ok l' ∧ l'.length = n ∧
      |l'.sum - (v (grand n) - v 0)| ≤ (n : α) * B n δ :=
  efficiency_error_on n _ v (answers_complete n v) (fun i _ => OpsErr.of_forall hadd hsub hmul hdiv n v i)

/-- … and with the final sum rounded as well (`sum(compute_shapley_value(game))` in floats) -/
theorem efficiency_error_sum (hadd : ∀ a b, |add' a b - (a + b)| ≤ δ)
    (hsub : ∀ a b, |sub' a b - (a - b)| ≤ δ) (hmul : ∀ a b, |mul' a b - a * b| ≤ δ)
    (hdiv : ∀ a b, |div' a b - a / b| ≤ δ) (n : Nat) (v : Nat → α) :
    ∃ l', shapleyApprox add' sub' mul' div' n (completeGame v) = .ok l' ∧
      |sumApprox add' l' - (v (grand n) - v 0)| ≤ (n : α) * B n δ + (n : α) * δ := by
  obtain ⟨l', hl', hlen, hs⟩ := efficiency_error hadd hsub hmul hdiv n v
  refine ⟨l', hl', ?_⟩
  have h1 := sumApprox_error hadd l'
  rw [listSum_eq_sum, hlen] at h1
  have e : sumApprox add' l' - (v (grand n) - v 0)
      = (sumApprox add' l' - l'.sum) + (l'.sum - (v (grand n) - v 0)) := by ring
  rw [e]
  exact (abs_add_le _ _).trans (by linarith)

end shapleyErr

/-! ### 4. the rounded exploitability -/
section expl
variable {add' sub' mul' div' : α → α → α} {δ : α}

/-- the rounded per-player maxima `φ'_i(MaxGain_i)`, `i < n` -/
def maxPhisApprox (add' sub' mul' div' : α → α → α) (n : Nat) (lo hi : Nat → α) : List α :=
  (List.range n).map (fun i => phiApprox add' sub' mul' div' n (maxGainValues i lo hi) i)

/-- **absolute error `δ` on the operations `exploitabilityApprox` performs**: those of every per-player
    Shapley value on its max-gain game, the additions of the running sum, the final subtraction -/
structure ExplOpsErr (add' sub' mul' div' : α → α → α) (n : Nat) (lo hi : Nat → α) (g δ : α) : Prop where
  phi : ∀ i, i < n → OpsErr add' sub' mul' div' n (maxGainValues i lo hi) i δ
  add : ∀ p ∈ sumOps add' 0 (maxPhisApprox add' sub' mul' div' n lo hi), |add' p.1 p.2 - (p.1 + p.2)| ≤ δ
  sub : |sub' (sumApprox add' (maxPhisApprox add' sub' mul' div' n lo hi)) g
      - (sumApprox add' (maxPhisApprox add' sub' mul' div' n lo hi) - g)| ≤ δ

theorem ExplOpsErr.of_forall (hadd : ∀ a b, |add' a b - (a + b)| ≤ δ)
    (hsub : ∀ a b, |sub' a b - (a - b)| ≤ δ) (hmul : ∀ a b, |mul' a b - a * b| ≤ δ)
    (hdiv : ∀ a b, |div' a b - a / b| ≤ δ) (n : Nat) (lo hi : Nat → α) (g : α) :
    ExplOpsErr add' sub' mul' div' n lo hi g δ :=
  ⟨fun i _ => OpsErr.of_forall hadd hsub hmul hdiv n _ i, fun _ _ => hadd _ _, hsub _ _⟩

/-- **exploitability**, hypotheses on the performed operations only -/
theorem exploitability_error_on (n : Nat) (lo hi : Nat → α) (g : α)
    (h : ExplOpsErr add' sub' mul' div' n lo hi g δ) {e : α}
    (he : exploitability n lo hi (.ok g) = .ok e) :
    ∃ e', exploitabilityApprox add' sub' mul' div' n lo hi (.ok g) = .ok e' ∧
      |e' - e| ≤ (n : α) * B n δ + ((n : α) + 1) * δ := by
  rw [exploitability_eq] at he
  simp only at he
  injection he with he
  subst he
  refine ⟨_, by rw [exploitabilityApprox_eq]; rfl, ?_⟩
  have hs := sumApprox_error_map_on (add' := add') (δ := δ)
    (fun i => phiApprox add' sub' mul' div' n (maxGainValues i lo hi) i) (fun i => psi n hi lo i)
    (fun _ => B n δ) (List.range n)
    (fun i hi' => by
      have := phiApprox_error_on (List.mem_range.mp hi') (h.phi i (List.mem_range.mp hi'))
      rwa [phi_maxGain] at this)
    h.add
  rw [sum_map_const, List.length_range, listSum_map_range] at hs
  have hsub := h.sub
  unfold maxPhisApprox at hsub
  set S' := sumApprox add'
    ((List.range n).map (fun i => phiApprox add' sub' mul' div' n (maxGainValues i lo hi) i))
  set S := ∑ i ∈ range n, psi n hi lo i
  have e : sub' S' g - (S - g) = (sub' S' g - (S' - g)) + (S' - S) := by ring
  rw [e]
  refine (abs_add_le _ _).trans ?_
  linarith

/-- **exploitability_error.**  When the exact `compute_exploitability` returns `e`, the rounded one
    returns some `e'` with `|e' − e| ≤ n·B n δ + (n+1)·δ`. -/
theorem exploitability_error (hadd : ∀ a b, |add' a b - (a + b)| ≤ δ)
    (hsub : ∀ a b, |sub' a b - (a - b)| ≤ δ) (hmul : ∀ a b, |mul' a b - a * b| ≤ δ)
    (hdiv : ∀ a b, |div' a b - a / b| ≤ δ) (n : Nat) (lo hi : Nat → α) (g : α) {e : α}
    (he : exploitability n lo hi (.ok g) = .ok e) :
    ∃ e', exploitabilityApprox add' sub' mul' div' n lo hi (.ok g) = .ok e' ∧
      |e' - e| ≤ (n : α) * B n δ + ((n : α) + 1) * δ :=
  exploitability_error_on n lo hi g (ExplOpsErr.of_forall hadd hsub hmul hdiv n lo hi g) he

/-- the slack of the exploitability clauses -/
def explSlack (n : Nat) (δ : α) : α := (n : α) * B n δ + ((n : α) + 1) * δ

/-- **exploitability_nonneg_approx** — the clause "non-negative whenever lower ≤ upper, within float
    rounding as computed": `−slack ≤ e'`.  General form: `upper(∅) + get_value(N) ≤ lower(N)` (on a table
    `get_value(N) = lower(N)` and `upper(∅) = 0`, see `tableExploitability_nonneg_approx`). -/
theorem exploitability_nonneg_approx_on (n : Nat) (lo hi : Nat → α) (g : α)
    (hle : ∀ c, c < 2 ^ n → lo c ≤ hi c) (hres : hi 0 + g ≤ lo (grand n))
    (h : ExplOpsErr add' sub' mul' div' n lo hi g δ) :
    ∃ e', exploitabilityApprox add' sub' mul' div' n lo hi (.ok g) = .ok e' ∧ -explSlack n δ ≤ e' := by
  have hid := C05.identity_general n lo hi g
  obtain ⟨e', he', herr⟩ := exploitability_error_on n lo hi g h hid
  refine ⟨e', he', ?_⟩
  have h0 := C05.weightedGap_nonneg n lo hi hle
  have := (abs_le.mp herr).1
  unfold explSlack
  linarith

theorem exploitability_nonneg_approx (hadd : ∀ a b, |add' a b - (a + b)| ≤ δ)
    (hsub : ∀ a b, |sub' a b - (a - b)| ≤ δ) (hmul : ∀ a b, |mul' a b - a * b| ≤ δ)
    (hdiv : ∀ a b, |div' a b - a / b| ≤ δ) (n : Nat) (lo hi : Nat → α) (g : α)
    (hle : ∀ c, c < 2 ^ n → lo c ≤ hi c) (h0 : hi 0 = 0) (hg : g = lo (grand n)) :
    ∃ e', exploitabilityApprox add' sub' mul' div' n lo hi (.ok g) = .ok e' ∧
      -((n : α) * B n δ + ((n : α) + 1) * δ) ≤ e' :=
  exploitability_nonneg_approx_on n lo hi g hle (by rw [h0, hg, zero_add])
    (ExplOpsErr.of_forall hadd hsub hmul hdiv n lo hi g)

/-- the same on the value table, from `C05.nonneg` (grand coalition known, `upper(∅) = 0`,
    `lower ≤ upper`): the rounded `compute_exploitability` succeeds and is `≥ −slack` -/
theorem tableExploitability_nonneg_approx (hadd : ∀ a b, |add' a b - (a + b)| ≤ δ)
    (hsub : ∀ a b, |sub' a b - (a - b)| ≤ δ) (hmul : ∀ a b, |mul' a b - a * b| ≤ δ)
    (hdiv : ∀ a b, |div' a b - a / b| ≤ δ) (t : Table α) (hk : t.known (grand t.n) = true)
    (h0 : t.hi 0 = 0) (hle : ∀ c, c < 2 ^ t.n → t.lo c ≤ t.hi c) :
    ∃ e', tableExploitabilityApprox add' sub' mul' div' t = .ok e' ∧
      -((t.n : α) * B t.n δ + ((t.n : α) + 1) * δ) ≤ e' := by
  obtain ⟨x, hx, hx0⟩ := C05.nonneg t hk h0 hle
  have hgv : t.getValue (grand t.n) = .ok (t.lo (grand t.n)) := by
    unfold Table.getValue Table.rows
    rw [if_pos (grand_lt t.n), if_pos hk]
  unfold Table.exploitability at hx
  unfold tableExploitabilityApprox
  rw [hgv] at hx ⊢
  obtain ⟨e', he', herr⟩ := exploitability_error hadd hsub hmul hdiv t.n t.lo t.hi _ hx
  refine ⟨e', he', ?_⟩
  have := (abs_le.mp herr).1
  linarith

/-- … and the rounded value of a table with degenerate intervals is within the slack of `0` -/
theorem tableExploitability_zero_approx (hadd : ∀ a b, |add' a b - (a + b)| ≤ δ)
    (hsub : ∀ a b, |sub' a b - (a - b)| ≤ δ) (hmul : ∀ a b, |mul' a b - a * b| ≤ δ)
    (hdiv : ∀ a b, |div' a b - a / b| ≤ δ) (t : Table α) (hk : t.known (grand t.n) = true)
    (h0 : t.hi 0 = 0) (heq : ∀ c, c < 2 ^ t.n → t.lo c = t.hi c) :
    ∃ e', tableExploitabilityApprox add' sub' mul' div' t = .ok e' ∧
      |e'| ≤ (t.n : α) * B t.n δ + ((t.n : α) + 1) * δ := by
  have hx := (C05.zero_iff t hk h0 (fun c hc => (heq c hc).le)).mpr heq
  have hgv : t.getValue (grand t.n) = .ok (t.lo (grand t.n)) := by
    unfold Table.getValue Table.rows
    rw [if_pos (grand_lt t.n), if_pos hk]
  unfold Table.exploitability at hx
  unfold tableExploitabilityApprox
  rw [hgv] at hx ⊢
  obtain ⟨e', he', herr⟩ := exploitability_error hadd hsub hmul hdiv t.n t.lo t.hi _ hx
  exact ⟨e', he', by rwa [sub_zero] at herr⟩

end expl

/-! ### 5. from relative (IEEE) error to the abstract `δ`

A float64 operation satisfies `|fl(a ∘ b) − (a ∘ b)| ≤ u·|a ∘ b|` with unit round-off `u = 2^-53` (no
overflow / underflow).  If the exact results of the operations that are PERFORMED (on the rounded
operands, as they occur) are bounded by `M` in magnitude, `δ = u·M` is an absolute error bound for them.
(A bound "for ALL `a b`" cannot hold in an unbounded field, which is why every theorem above also comes
in the `…_on` form.) -/
section relative
variable {add' sub' mul' div' : α → α → α} {u M : α}

/-- relative error `u` on a result of magnitude `≤ M` is absolute error `u·M` -/
theorem relative_to_absolute {r s : α} (hu : 0 ≤ u) (hrel : |r - s| ≤ u * |s|) (hM : |s| ≤ M) :
    |r - s| ≤ u * M :=
  le_trans hrel (mul_le_mul_of_nonneg_left hM hu)

/-- the operations of one rounded Shapley value: relative error `u` everywhere, the exact results of the
    performed subtractions, multiplications, additions and of the division bounded by `M` -/
theorem OpsErr.of_relative {n i : Nat} {v : Nat → α} (hu : 0 ≤ u)
    (hradd : ∀ a b, |add' a b - (a + b)| ≤ u * |a + b|)
    (hrsub : ∀ a b, |sub' a b - (a - b)| ≤ u * |a - b|)
    (hrmul : ∀ a b, |mul' a b - a * b| ≤ u * |a * b|)
    (hrdiv : ∀ a b, |div' a b - a / b| ≤ u * |a / b|)
    (hMsub : ∀ S, S < 2 ^ n → S.testBit i = false → |v (S ||| 2 ^ i) - v S| ≤ M)
    (hMmul : ∀ S, S < 2 ^ n → S.testBit i = false →
      |((coef n (size S) : Nat) : α) * sub' (v (S ||| 2 ^ i)) (v S)| ≤ M)
    (hMadd : ∀ p ∈ sumOps add' 0 ((withoutList n i).map (termApprox sub' mul' n i v)), |p.1 + p.2| ≤ M)
    (hMdiv : |numApprox add' sub' mul' n v i / (n.factorial : α)| ≤ M) :
    OpsErr add' sub' mul' div' n v i (u * M) :=
  ⟨fun S h1 h2 => relative_to_absolute hu (hrsub _ _) (hMsub S h1 h2),
    fun S h1 h2 => relative_to_absolute hu (hrmul _ _) (hMmul S h1 h2),
    fun p hp => relative_to_absolute hu (hradd _ _) (hMadd p hp),
    relative_to_absolute hu (hrdiv _ _) hMdiv⟩

/-- **the float64 reading of `shapleyForPlayer_error`.**  Operations with relative error `u`, exact
    results of the performed operations bounded by `M`: the computed Shapley value is within
    `(2 + 2^n/n!)·u·M` of the exact one. -/
theorem shapleyForPlayer_error_relative {n i : Nat} (hi : i < n) (v : Nat → α) (hu : 0 ≤ u)
    (hradd : ∀ a b, |add' a b - (a + b)| ≤ u * |a + b|)
    (hrsub : ∀ a b, |sub' a b - (a - b)| ≤ u * |a - b|)
    (hrmul : ∀ a b, |mul' a b - a * b| ≤ u * |a * b|)
    (hrdiv : ∀ a b, |div' a b - a / b| ≤ u * |a / b|)
    (hMsub : ∀ S, S < 2 ^ n → S.testBit i = false → |v (S ||| 2 ^ i) - v S| ≤ M)
    (hMmul : ∀ S, S < 2 ^ n → S.testBit i = false →
      |((coef n (size S) : Nat) : α) * sub' (v (S ||| 2 ^ i)) (v S)| ≤ M)
    (hMadd : ∀ p ∈ sumOps add' 0 ((withoutList n i).map (termApprox sub' mul' n i v)), |p.1 + p.2| ≤ M)
    (hMdiv : |numApprox add' sub' mul' n v i / (n.factorial : α)| ≤ M) {φ : α}
    (hφ : shapleyForPlayer n (completeGame v) i = .ok φ) :
    ∃ φ', shapleyForPlayerApprox add' sub' mul' div' n (completeGame v) i = .ok φ' ∧
      |φ' - φ| ≤ B n (u * M) :=
  shapleyForPlayer_error_on hi _ v (answers_complete n v)
    (OpsErr.of_relative hu hradd hrsub hrmul hrdiv hMsub hMmul hMadd hMdiv) hφ

/-- the operations of the rounded exploitability, from relative error and magnitudes -/
theorem ExplOpsErr.of_relative {n : Nat} {lo hi : Nat → α} {g : α} (hu : 0 ≤ u)
    (hradd : ∀ a b, |add' a b - (a + b)| ≤ u * |a + b|)
    (hrsub : ∀ a b, |sub' a b - (a - b)| ≤ u * |a - b|)
    (hphi : ∀ i, i < n → OpsErr add' sub' mul' div' n (maxGainValues i lo hi) i (u * M))
    (hMadd : ∀ p ∈ sumOps add' 0 (maxPhisApprox add' sub' mul' div' n lo hi), |p.1 + p.2| ≤ M)
    (hMsub : |sumApprox add' (maxPhisApprox add' sub' mul' div' n lo hi) - g| ≤ M) :
    ExplOpsErr add' sub' mul' div' n lo hi g (u * M) :=
  ⟨hphi, fun p hp => relative_to_absolute hu (hradd _ _) (hMadd p hp),
    relative_to_absolute hu (hrsub _ _) hMsub⟩

/-- **the float64 reading of `exploitability_error`** -/
theorem exploitability_error_relative {n : Nat} {lo hi : Nat → α} {g : α} (hu : 0 ≤ u)
    (hradd : ∀ a b, |add' a b - (a + b)| ≤ u * |a + b|)
    (hrsub : ∀ a b, |sub' a b - (a - b)| ≤ u * |a - b|)
    (hphi : ∀ i, i < n → OpsErr add' sub' mul' div' n (maxGainValues i lo hi) i (u * M))
    (hMadd : ∀ p ∈ sumOps add' 0 (maxPhisApprox add' sub' mul' div' n lo hi), |p.1 + p.2| ≤ M)
    (hMsub : |sumApprox add' (maxPhisApprox add' sub' mul' div' n lo hi) - g| ≤ M) {e : α}
    (he : exploitability n lo hi (.ok g) = .ok e) :
    ∃ e', exploitabilityApprox add' sub' mul' div' n lo hi (.ok g) = .ok e' ∧
      |e' - e| ≤ (n : α) * B n (u * M) + ((n : α) + 1) * (u * M) :=
  exploitability_error_on n lo hi g (ExplOpsErr.of_relative hu hradd hrsub hphi hMadd hMsub) he

end relative

/-! ### 6. concrete instances over `ℚ`

A 3-player game, every operation rounding UP (or DOWN) by `δ = 1/1000`: all three error bounds are
ATTAINED, and without the slack the non-negativity clause is false.  A second set of operations rounds
every result to the nearest multiple of `1/1000` (`δ = 1/2000`). -/


namespace Ex
/-- v = (0, 1, 2, 4, 3, 5, 6, 10) on ∅,{0},{1},{0,1},{2},{0,2},{1,2},N -/
def v3 : Nat → ℚ := fun c => [0, 1, 2, 4, 3, 5, 6, 10].getD c 0

/-- every operation rounds UP by `δ = 1/1000` -/
def addUp (a b : ℚ) : ℚ := a + b + 1 / 1000
def subUp (a b : ℚ) : ℚ := a - b + 1 / 1000
def mulUp (a b : ℚ) : ℚ := a * b + 1 / 1000
def divUp (a b : ℚ) : ℚ := a / b + 1 / 1000
/-- every operation rounds DOWN by `δ = 1/1000` -/
def addDn (a b : ℚ) : ℚ := a + b - 1 / 1000
def subDn (a b : ℚ) : ℚ := a - b - 1 / 1000
def mulDn (a b : ℚ) : ℚ := a * b - 1 / 1000
def divDn (a b : ℚ) : ℚ := a / b - 1 / 1000

theorem addUp_err : ∀ a b, |addUp a b - (a + b)| ≤ 1 / 1000 := by
  intro a b; simp only [addUp]; rw [add_sub_cancel_left]; norm_num
theorem subUp_err : ∀ a b, |subUp a b - (a - b)| ≤ 1 / 1000 := by
  intro a b; simp only [subUp]; rw [add_sub_cancel_left]; norm_num
theorem mulUp_err : ∀ a b, |mulUp a b - a * b| ≤ 1 / 1000 := by
  intro a b; simp only [mulUp]; rw [add_sub_cancel_left]; norm_num
theorem divUp_err : ∀ a b, |divUp a b - a / b| ≤ 1 / 1000 := by
  intro a b; simp only [divUp]; rw [add_sub_cancel_left]; norm_num
theorem addDn_err : ∀ a b, |addDn a b - (a + b)| ≤ 1 / 1000 := by
  intro a b; simp only [addDn]; rw [abs_le]; constructor <;> linarith
theorem subDn_err : ∀ a b, |subDn a b - (a - b)| ≤ 1 / 1000 := by
  intro a b; simp only [subDn]; rw [abs_le]; constructor <;> linarith
theorem mulDn_err : ∀ a b, |mulDn a b - a * b| ≤ 1 / 1000 := by
  intro a b; simp only [mulDn]; rw [abs_le]; constructor <;> linarith
theorem divDn_err : ∀ a b, |divDn a b - a / b| ≤ 1 / 1000 := by
  intro a b; simp only [divDn]; rw [abs_le]; constructor <;> linarith

/-- round to the nearest multiple of `1/1000` (ties up) -/
def rnd (x : ℚ) : ℚ := (⌊x * 1000 + 1 / 2⌋ : ℤ) / 1000
def addR (a b : ℚ) : ℚ := rnd (a + b)
def subR (a b : ℚ) : ℚ := rnd (a - b)
def mulR (a b : ℚ) : ℚ := rnd (a * b)
def divR (a b : ℚ) : ℚ := rnd (a / b)

theorem rnd_err (x : ℚ) : |rnd x - x| ≤ 1 / 2000 := by
  unfold rnd
  have h1 := Int.floor_le (x * 1000 + 1 / 2)
  have h2 := Int.lt_floor_add_one (x * 1000 + 1 / 2)
  rw [abs_le]; constructor <;> linarith
theorem addR_err : ∀ a b, |addR a b - (a + b)| ≤ 1 / 2000 := fun _ _ => rnd_err _
theorem subR_err : ∀ a b, |subR a b - (a - b)| ≤ 1 / 2000 := fun _ _ => rnd_err _
theorem mulR_err : ∀ a b, |mulR a b - a * b| ≤ 1 / 2000 := fun _ _ => rnd_err _
theorem divR_err : ∀ a b, |divR a b - a / b| ≤ 1 / 2000 := fun _ _ => rnd_err _

theorem B3 (δ : ℚ) : B 3 δ = 10 / 3 * δ := by
  unfold B; norm_num [Nat.factorial]

/-- the 3-player table of C05: ∅ and N known; lower = (0,1,1,2,0,2,3,6), upper = (0,3,2,5,4,6,3,6) -/
def t3 : Table ℚ := C05.exTable
theorem t3_hyps : t3.known (grand t3.n) = true ∧ t3.hi 0 = 0 ∧ (∀ c, c < 2 ^ t3.n → t3.lo c ≤ t3.hi c) := by
  decide +kernel

/-- a fully known table: every interval degenerate, exact exploitability `0` -/
def tDeg : Table ℚ := { n := 3, known := fun _ => true, lo := v3, hi := v3 }
end Ex

/-- the hypotheses of `sumApprox_error` are satisfiable, and its bound is attained -/
example : sumApprox Ex.addUp [1, 2, 3] = 6 + 3 / 1000 ∧ listSum ([1, 2, 3] : List ℚ) = 6 ∧
    |sumApprox Ex.addUp [1, 2, 3] - listSum ([1, 2, 3] : List ℚ)| ≤ (([1, 2, 3] : List ℚ).length : ℚ) * (1 / 1000) :=
  ⟨by decide +kernel, by decide +kernel, sumApprox_error Ex.addUp_err _⟩

/-- the hypotheses of `shapleyForPlayer_error` are satisfiable; the rounded value differs from the exact
    one; the bound `B 3 δ = (2 + 8/6)·δ = δ·10/3` is ATTAINED when every operation rounds up by `δ` -/
example : shapleyForPlayer 3 (completeGame Ex.v3) 0 = .ok (7 / 3) ∧
    shapleyForPlayerApprox Ex.addUp Ex.subUp Ex.mulUp Ex.divUp 3 (completeGame Ex.v3) 0 = .ok (701 / 300) ∧
    |(701 / 300 : ℚ) - 7 / 3| = B 3 (1 / 1000) := by
  refine ⟨by decide +kernel, by decide +kernel, ?_⟩
  rw [Ex.B3]; norm_num

example : ∃ φ', shapleyForPlayerApprox Ex.addUp Ex.subUp Ex.mulUp Ex.divUp 3 (completeGame Ex.v3) 0 = .ok φ' ∧
    |φ' - 7 / 3| ≤ B 3 (1 / 1000) :=
  shapleyForPlayer_error Ex.addUp_err Ex.subUp_err Ex.mulUp_err Ex.divUp_err (by decide) Ex.v3
    (by decide +kernel)

/-- rounding every result to the nearest multiple of `1/1000` (`δ = 1/2000`): `7/3 ↦ 2.333` -/
example : shapleyForPlayerApprox Ex.addR Ex.subR Ex.mulR Ex.divR 3 (completeGame Ex.v3) 0 = .ok (2333 / 1000) ∧
    (2333 / 1000 : ℚ) ≠ 7 / 3 ∧ |(2333 / 1000 : ℚ) - 7 / 3| ≤ B 3 (1 / 2000) := by
  refine ⟨by decide +kernel, by norm_num, ?_⟩
  rw [Ex.B3]; norm_num

example : ∃ φ', shapleyForPlayerApprox Ex.addR Ex.subR Ex.mulR Ex.divR 3 (completeGame Ex.v3) 0 = .ok φ' ∧
    |φ' - 7 / 3| ≤ B 3 (1 / 2000) :=
  shapleyForPlayer_error Ex.addR_err Ex.subR_err Ex.mulR_err Ex.divR_err (by decide) Ex.v3
    (by decide +kernel)

/-- efficiency: the rounded values `701/300, 1001/300, 1301/300` sum to `10 + 1/100`, `v(N) − v(∅) = 10`,
    and `3·B 3 δ = 1/100`: attained as well -/
example : shapleyApprox Ex.addUp Ex.subUp Ex.mulUp Ex.divUp 3 (completeGame Ex.v3)
      = .ok [701 / 300, 1001 / 300, 1301 / 300] ∧
    |([701 / 300, 1001 / 300, 1301 / 300] : List ℚ).sum - (Ex.v3 (grand 3) - Ex.v3 0)| = (3 : ℚ) * B 3 (1 / 1000) := by
  refine ⟨by decide +kernel, ?_⟩
  rw [Ex.B3, show Ex.v3 (grand 3) = 10 by decide +kernel, show Ex.v3 0 = 0 by decide +kernel]
  norm_num

example : ∃ l', shapleyApprox Ex.addUp Ex.subUp Ex.mulUp Ex.divUp 3 (completeGame Ex.v3) = .ok l' ∧
    l'.length = 3 ∧ |l'.sum - (Ex.v3 (grand 3) - Ex.v3 0)| ≤ ((3 : ℕ) : ℚ) * B 3 (1 / 1000) :=
  efficiency_error Ex.addUp_err Ex.subUp_err Ex.mulUp_err Ex.divUp_err 3 Ex.v3

/-- exploitability on the table of C05 (exact value `14/3`): rounding up everywhere gives `7021/1500`,
    the error `7/500 = 3·B 3 δ + 4·δ` is ATTAINED -/
example : Ex.t3.exploitability = .ok (14 / 3) ∧
    tableExploitabilityApprox Ex.addUp Ex.subUp Ex.mulUp Ex.divUp Ex.t3 = .ok (7021 / 1500) ∧
    |(7021 / 1500 : ℚ) - 14 / 3| = (3 : ℚ) * B 3 (1 / 1000) + ((3 : ℚ) + 1) * (1 / 1000) := by
  refine ⟨by decide +kernel, by decide +kernel, ?_⟩
  rw [Ex.B3]; norm_num

example : ∃ e', exploitabilityApprox Ex.addUp Ex.subUp Ex.mulUp Ex.divUp 3 Ex.t3.lo Ex.t3.hi (.ok 6) = .ok e' ∧
    |e' - 14 / 3| ≤ ((3 : ℕ) : ℚ) * B 3 (1 / 1000) + (((3 : ℕ) : ℚ) + 1) * (1 / 1000) :=
  exploitability_error Ex.addUp_err Ex.subUp_err Ex.mulUp_err Ex.divUp_err 3 Ex.t3.lo Ex.t3.hi 6
    (by decide +kernel)

/-- the hypotheses of `exploitability_nonneg_approx` / `tableExploitability_nonneg_approx` are satisfiable -/
example : ∃ e', tableExploitabilityApprox Ex.addR Ex.subR Ex.mulR Ex.divR Ex.t3 = .ok e' ∧
    -(((3 : ℕ) : ℚ) * B 3 (1 / 2000) + (((3 : ℕ) : ℚ) + 1) * (1 / 2000)) ≤ e' :=
  tableExploitability_nonneg_approx Ex.addR_err Ex.subR_err Ex.mulR_err Ex.divR_err Ex.t3
    Ex.t3_hyps.1 Ex.t3_hyps.2.1 Ex.t3_hyps.2.2

example : ∃ e', exploitabilityApprox Ex.addR Ex.subR Ex.mulR Ex.divR 3 Ex.t3.lo Ex.t3.hi (.ok 6) = .ok e' ∧
    -(((3 : ℕ) : ℚ) * B 3 (1 / 2000) + (((3 : ℕ) : ℚ) + 1) * (1 / 2000)) ≤ e' :=
  exploitability_nonneg_approx Ex.addR_err Ex.subR_err Ex.mulR_err Ex.divR_err 3 Ex.t3.lo Ex.t3.hi 6
    Ex.t3_hyps.2.2 Ex.t3_hyps.2.1 (by decide +kernel)

/-- the slack is necessary: on a table with degenerate intervals (exact exploitability `0`), operations
    that round DOWN by `δ` give a NEGATIVE computed exploitability, exactly `−slack` -/
example : Ex.tDeg.exploitability = .ok 0 ∧
    tableExploitabilityApprox Ex.addDn Ex.subDn Ex.mulDn Ex.divDn Ex.tDeg = .ok (-(7 / 500)) ∧
    (-(7 / 500) : ℚ) = -((3 : ℚ) * B 3 (1 / 1000) + ((3 : ℚ) + 1) * (1 / 1000)) := by
  refine ⟨by decide +kernel, by decide +kernel, ?_⟩
  rw [Ex.B3]; norm_num

/-- the error cases: an incomplete table raises in rounded arithmetic exactly as it does exactly -/
example : ({ Ex.t3 with known := fun c => c == 0 } : Table ℚ).exploitability = .error .value ∧
    tableExploitabilityApprox Ex.addR Ex.subR Ex.mulR Ex.divR ({ Ex.t3 with known := fun c => c == 0 } : Table ℚ)
      = .error .value := by
  constructor <;> decide +kernel


/-! relative error: `u = 2^-53`, every exact result of a performed operation is `≤ 15` in magnitude
    (resp. `≤ 100` for the exploitability of the table of C05) -/
namespace Ex
def u64 : ℚ := 1 / 2 ^ 53
/-- one relative unit up -/
def addRel (a b : ℚ) : ℚ := (a + b) * (1 + u64)
def mulRel (a b : ℚ) : ℚ := (a * b) * (1 + u64)
/-- one relative unit down -/
def subRel (a b : ℚ) : ℚ := (a - b) * (1 - u64)
def divRel (a b : ℚ) : ℚ := (a / b) * (1 - u64)

theorem u64_nonneg : 0 ≤ u64 := by norm_num [u64]
theorem addRel_err : ∀ a b, |addRel a b - (a + b)| ≤ u64 * |a + b| := by
  intro a b
  have : addRel a b - (a + b) = u64 * (a + b) := by unfold addRel; ring
  rw [this, abs_mul, abs_of_nonneg u64_nonneg]
theorem mulRel_err : ∀ a b, |mulRel a b - a * b| ≤ u64 * |a * b| := by
  intro a b
  have : mulRel a b - a * b = u64 * (a * b) := by unfold mulRel; ring
  rw [this, abs_mul, abs_of_nonneg u64_nonneg]
theorem subRel_err : ∀ a b, |subRel a b - (a - b)| ≤ u64 * |a - b| := by
  intro a b
  have : subRel a b - (a - b) = -(u64 * (a - b)) := by unfold subRel; ring
  rw [this, abs_neg, abs_mul, abs_of_nonneg u64_nonneg]
theorem divRel_err : ∀ a b, |divRel a b - a / b| ≤ u64 * |a / b| := by
  intro a b
  have : divRel a b - a / b = -(u64 * (a / b)) := by unfold divRel; ring
  rw [this, abs_neg, abs_mul, abs_of_nonneg u64_nonneg]

theorem rel_sub_mag : ∀ S, S < 2 ^ 3 → S.testBit 0 = false → |v3 (S ||| 2 ^ 0) - v3 S| ≤ 15 := by
  decide +kernel
theorem rel_mul_mag : ∀ S, S < 2 ^ 3 → S.testBit 0 = false →
    |((coef 3 (size S) : Nat) : ℚ) * subRel (v3 (S ||| 2 ^ 0)) (v3 S)| ≤ 15 := by
  decide +kernel
theorem rel_add_mag : ∀ p ∈ sumOps addRel 0 ((withoutList 3 0).map (termApprox subRel mulRel 3 0 v3)),
    |p.1 + p.2| ≤ 15 := by
  decide +kernel
theorem rel_div_mag : |numApprox addRel subRel mulRel 3 v3 0 / ((3 : ℕ).factorial : ℚ)| ≤ 15 := by
  decide +kernel
end Ex

/-- the hypotheses of `shapleyForPlayer_error_relative` are satisfiable with the float64 unit round-off -/
example : ∃ φ', shapleyForPlayerApprox Ex.addRel Ex.subRel Ex.mulRel Ex.divRel 3 (completeGame Ex.v3) 0 = .ok φ' ∧
    |φ' - 7 / 3| ≤ B 3 (1 / 2 ^ 53 * 15) :=
  shapleyForPlayer_error_relative (by decide) Ex.v3 Ex.u64_nonneg Ex.addRel_err Ex.subRel_err Ex.mulRel_err
    Ex.divRel_err Ex.rel_sub_mag Ex.rel_mul_mag Ex.rel_add_mag Ex.rel_div_mag (by decide +kernel)

namespace Ex
theorem relE_sub_mag : ∀ i, i < 3 → ∀ S, S < 2 ^ 3 → S.testBit i = false →
    |maxGainValues i t3.lo t3.hi (S ||| 2 ^ i) - maxGainValues i t3.lo t3.hi S| ≤ 100 := by
  decide +kernel
theorem relE_mul_mag : ∀ i, i < 3 → ∀ S, S < 2 ^ 3 → S.testBit i = false →
    |((coef 3 (size S) : Nat) : ℚ)
      * subRel (maxGainValues i t3.lo t3.hi (S ||| 2 ^ i)) (maxGainValues i t3.lo t3.hi S)| ≤ 100 := by
  decide +kernel
theorem relE_add_mag : ∀ i, i < 3 →
    ∀ p ∈ sumOps addRel 0 ((withoutList 3 i).map (termApprox subRel mulRel 3 i (maxGainValues i t3.lo t3.hi))),
      |p.1 + p.2| ≤ 100 := by
  decide +kernel
theorem relE_div_mag : ∀ i, i < 3 →
    |numApprox addRel subRel mulRel 3 (maxGainValues i t3.lo t3.hi) i / ((3 : ℕ).factorial : ℚ)| ≤ 100 := by
  decide +kernel
theorem relE_sum_mag : ∀ p ∈ sumOps addRel 0 (maxPhisApprox addRel subRel mulRel divRel 3 t3.lo t3.hi),
    |p.1 + p.2| ≤ 100 := by
  decide +kernel
theorem relE_last_mag :
    |sumApprox addRel (maxPhisApprox addRel subRel mulRel divRel 3 t3.lo t3.hi) - 6| ≤ 100 := by
  decide +kernel
end Ex

/-- the hypotheses of `exploitability_error_relative` are satisfiable with the float64 unit round-off -/
example : ∃ e', exploitabilityApprox Ex.addRel Ex.subRel Ex.mulRel Ex.divRel 3 Ex.t3.lo Ex.t3.hi (.ok 6) = .ok e' ∧
    |e' - 14 / 3| ≤ ((3 : ℕ) : ℚ) * B 3 (1 / 2 ^ 53 * 100) + (((3 : ℕ) : ℚ) + 1) * (1 / 2 ^ 53 * 100) :=
  exploitability_error_relative Ex.u64_nonneg Ex.addRel_err Ex.subRel_err
    (fun i hi => OpsErr.of_relative Ex.u64_nonneg Ex.addRel_err Ex.subRel_err Ex.mulRel_err Ex.divRel_err
      (Ex.relE_sub_mag i hi) (Ex.relE_mul_mag i hi) (Ex.relE_add_mag i hi) (Ex.relE_div_mag i hi))
    Ex.relE_sum_mag Ex.relE_last_mag (by decide +kernel)

end ICG.ApproxShapley
