/-
  ICG.Props.FloatErrorNormalize — the "(to float rounding)" part of property C15.

  ICG.Props.C15 proves, in exact arithmetic, that `_normalize_icg` leaves the closed form `normVal` (singletons 0,
  values in [0,1], grand coalition 1, superadditive) and that `denormalize_game` restores the game.  The code
  runs in float64.  Here the closed forms are re-run with ROUNDED operations and the distance to the exact closed
  forms is bounded.  (The in-place table code is not modelled again: `C15.subtraction_phase`,
  `C15.normalizeIcg_closed`, `C15.denormalize_spec` connect it to the closed forms; the rounded closed forms below
  perform, coalition by coalition, exactly the operations the loops perform on that coalition's row, in the
  loops' order.)

  Setting.  Values live in an ordered field `α`.  `add' sub' mul' div' : α → α → α` are ARBITRARY functions
  obeying the STANDARD MODEL of floating point arithmetic (no overflow / underflow), unit round-off `u`:

      op' a b = (a ∘ b)·(1 + ε), |ε| ≤ u      written      |op' a b − (a ∘ b)| ≤ u·|a ∘ b|        (`RelAdd` …)

  (`div'` only for a non-zero divisor; float64: `u = 2^-53`).  No algebraic law is assumed of them.

  Rounded closed forms (what the code computes for ONE coalition `c`):
    wApprox sub' v c        `values[c] -= v{i}` for the players `i` of `c` IN INCREASING ORDER (`_normalize_icg`
                            loops over the singletons in player order and, for each, over the coalitions that
                            contain it; the singleton's own row is read BEFORE its pass and is untouched by the
                            earlier passes, so the subtrahend is the original `v{i}`)
    normApprox … c          `div' (wApprox c) (wApprox N)`: the scaling branch
    normApproxB additive …  the whole branch structure, the outcome `additive` of the `np.isclose` test being a
                            PARAMETER: that test is itself evaluated on rounded quantities (`surplus + Σ` and `Σ`
                            as `_get_norminfo` / `np.sum` round them).  Every error theorem ASSUMES it fell on the
                            scaling side (`additive = false`), which is what happens when the game is outside the
                            tolerance window by a margin (`scaling_side_of_margin`), and shows that the second
                            guard `if not grand_coalition_value` (rounded surplus = 0) then does not fire.
    surplusApprox …         the recorded surplus `v(N) −' Σ'_i v{i}` of `_get_norminfo` (left-to-right sum; numpy
                            sums fewer than 8 numbers left to right and longer arrays in a blocked pairwise order,
                            which obeys the same kind of bound — `roundtrip_error` therefore takes the recorded
                            surplus `g` with ANY error bound `eg`)
    denormApprox … x c      `value = x; value *= g; for i in c.players: value += singleton_values[i]`

  Results (`|c| = size c`, `mag v c = |v c| + Σ_{i∈c} |v{i}|`, `w = closedW v`, `W = w(N)`):
    wApprox_error        |wApprox c − w c| ≤ ((1+u)^|c| − 1)·mag v c                 (= errW u v c)
    growth_sub_one_le_gamma / _linear (core)   (1+u)^m − 1 ≤ m·u/(1 − m·u) ≤ 2·m·u  (m·u ≤ 1/2)
    wApprox_singleton_zero, normApprox_singleton_zero    singletons are EXACTLY 0 (`sub' x x = 0`, `div' 0 _ = 0`)
    normApprox_grand     |normApprox N − 1| ≤ u                                       (it is `div' x x`)
    normApprox_error     errW N < |W| ⟹ wApprox N ≠ 0 and
                         |normApprox c − w c / W| ≤ u·|q| + (1+u)·(errW c + |q|·errW N)/(|W| − errW N), q = w c / W
    normApprox_unit      superadditive, `v ∅ = 0`, `mag ≤ M`, `0 < W`, `η = ((1+u)^n − 1)·M/W < 1`:
                         |normApprox c − w c / W| ≤ slack,  −slack ≤ normApprox c ≤ 1 + slack,
                         slack = u + 2(1+u)·η/(1 − η)      (first order: `(1 + 2n·M/W)·u`)
    normalize_property_rounded   C15's first sentence with rounding: singletons exactly 0, every value within
                         `slack` of the exact normal form `normVal` and inside [−slack, 1+slack], grand coalition
                         within `u` of 1, superadditive up to `3·slack`
    roundtrip_error      |denormApprox g (normApprox c) c − v c| ≤ rtBound   (general, explicit)
    roundtrip_error_SA   … ≤ rtBoundSA u n M W E  for superadditive games, all three first-stage errors ≤ E < W
    roundtrip_error_code … with the recorded surplus computed as `surplusApprox`, E = ((1+u)^(n+1) − 1)·M
    roundtrip_error_linear   … ≤ 71·(n+1)·u·M  when (n+1)·u ≤ 1/2 and 4(n+1)·u·M ≤ W: LINEAR in `u`
    approx_exact, rel*_exact, bounds_vanish   with exact operations (`u = 0`) the rounded forms are the exact ones
                         and every bound is 0

  The last section is a concrete 3-player instance over ℚ (`u = 1/1000`): hypotheses hold, rounded values differ
  from the exact ones, bounds hold.
-/
import ICG.Props.C15
import ICG.Lemmas.FloatErrorNormalizeCore
import Mathlib.Algebra.Order.Field.Rat
import Mathlib.Tactic.NormNum
import Mathlib.Tactic.Ring
import Mathlib.Tactic.Linarith
import Mathlib.Tactic.FieldSimp

set_option linter.unusedSectionVars false

namespace ICG.ApproxNormalize
open ICG ICG.Norm ICG.C15 Finset

/-! ### 0. the rounded closed forms -/

section defs
variable {α : Type}

/-- what `_normalize_icg`'s subtraction loops leave in row `c`: `v c`, less the singleton values of the players
    of `c`, one after the other in increasing player order, each subtraction rounded -/
def wApprox (sub' : α → α → α) (v : Nat → α) (c : Nat) : α :=
  (players c).foldl (fun x i => sub' x (v (singleton i))) (v c)

/-- the scaling branch: `upper_bounds /= grand_coalition_value` on row `c` -/
def normApprox (sub' div' : α → α → α) (n : Nat) (v : Nat → α) (c : Nat) : α :=
  div' (wApprox sub' v c) (wApprox sub' v (grand n))

/-- the branch structure of `_normalize_icg`; `additive` is the outcome of the (rounded) `np.isclose` test -/
def normApproxB [Zero α] [DecidableEq α] (additive : Bool) (sub' div' : α → α → α) (n : Nat) (v : Nat → α)
    (c : Nat) : α :=
  if additive then 0
  else if wApprox sub' v (grand n) = 0 then wApprox sub' v c
  else normApprox sub' div' n v c

/-- `np.sum` as a left-to-right loop from 0 -/
def sumApprox [Zero α] (add' : α → α → α) (l : List α) : α := l.foldl add' 0

/-- the surplus `_get_norminfo` records: `get_value(N) − np.sum(singleton_values)` -/
def surplusApprox [Zero α] (add' sub' : α → α → α) (n : Nat) (v : Nat → α) : α :=
  sub' (v (grand n)) (sumApprox add' ((List.range n).map (fun i => v (singleton i))))

/-- `denormalize_game` on row `c` holding `x`: `value = x; value *= g; for i in c.players: value += s[i]` -/
def denormApprox (add' mul' : α → α → α) (g : α) (s : Nat → α) (x : α) (c : Nat) : α :=
  (players c).foldl (fun y i => add' y (s i)) (mul' x g)

end defs

variable {α : Type} [Field α] [LinearOrder α] [IsStrictOrderedRing α]

/-! ### the standard model of rounded arithmetic -/

def RelAdd (add' : α → α → α) (u : α) : Prop := ∀ a b, |add' a b - (a + b)| ≤ u * |a + b|
def RelSub (sub' : α → α → α) (u : α) : Prop := ∀ a b, |sub' a b - (a - b)| ≤ u * |a - b|
def RelMul (mul' : α → α → α) (u : α) : Prop := ∀ a b, |mul' a b - a * b| ≤ u * |a * b|
/-- only for a non-zero divisor: `x / 0` is never evaluated by the code and nothing is assumed about `div' x 0` -/
def RelDiv (div' : α → α → α) (u : α) : Prop := ∀ a b, b ≠ 0 → |div' a b - a / b| ≤ u * |a / b|

/-- the magnitude of the operands met on row `c`: `|v c| + Σ_{i∈c} |v{i}|` -/
def mag (v : Nat → α) (c : Nat) : α := |v c| + ((players c).map (fun i => |v (singleton i)|)).sum

/-- the error bound of the rounded surplus share of `c` -/
def errW (u : α) (v : Nat → α) (c : Nat) : α := ((1 + u) ^ size c - 1) * mag v c

/-- the error bound of the rounded normal value of `c` (scaling branch), `q = w c / W` -/
def normErr (u : α) (n : Nat) (v : Nat → α) (c : Nat) : α :=
  u * |closedW v c / closedW v (grand n)| +
    (1 + u) * ((errW u v c + |closedW v c / closedW v (grand n)| * errW u v (grand n)) /
      (|closedW v (grand n)| - errW u v (grand n)))

/-- the error bound of the round trip on row `c` when the recorded surplus is within `eg` of `W` -/
def rtBound (u : α) (n : Nat) (v : Nat → α) (eg : α) (c : Nat) : α :=
  (1 + u) ^ size c *
      (u * |closedW v c| +
        (1 + u) * (normErr u n v c * (|closedW v (grand n)| + eg) +
          |closedW v c / closedW v (grand n)| * eg)) +
    ((1 + u) ^ size c - 1) * (|closedW v c| + ((players c).map (fun i => |v (singleton i)|)).sum)

/-- the slack of the unit interval: `u + 2(1+u)·η/(1 − η)`, `η = ((1+u)^n − 1)·ρ`, `ρ = M / W` -/
def slack (u : α) (n : Nat) (ρ : α) : α :=
  u + 2 * (1 + u) * (((1 + u) ^ n - 1) * ρ) / (1 - ((1 + u) ^ n - 1) * ρ)

/-! ### 1. exact operations: the rounded forms ARE the exact ones -/

theorem relAdd_exact : RelAdd (α := α) (· + ·) 0 := by intro a b; simp
theorem relSub_exact : RelSub (α := α) (· - ·) 0 := by intro a b; simp
theorem relMul_exact : RelMul (α := α) (· * ·) 0 := by intro a b; simp
theorem relDiv_exact : RelDiv (α := α) (· / ·) 0 := by intro a b _; simp

theorem mag_nonneg (v : Nat → α) (c : Nat) : 0 ≤ mag v c := by
  have h := list_sum_abs_nonneg ((players c).map (fun i => v (singleton i)))
  rw [List.map_map] at h
  exact add_nonneg (abs_nonneg _) h

theorem errW_nonneg {u : α} (hu : 0 ≤ u) (v : Nat → α) (c : Nat) : 0 ≤ errW u v c :=
  mul_nonneg (growth_sub_one_nonneg hu _) (mag_nonneg v c)

/-- **`wApprox_error`.**  `|wApprox c − w c| ≤ ((1+u)^|c| − 1)·(|v c| + Σ_{i∈c}|v{i}|)`. -/
theorem wApprox_error {sub' : α → α → α} {u : α} (hu : 0 ≤ u) (hsub : RelSub sub' u) (v : Nat → α) (c : Nat) :
    |wApprox sub' v c - closedW v c| ≤ ((1 + u) ^ size c - 1) * mag v c := by
  have h := foldl_sub_error hu hsub ((players c).map (fun i => v (singleton i))) (v c)
  rw [List.foldl_map, List.length_map, ← size_eq_length_players, List.map_map] at h
  unfold wApprox closedW mag
  rw [listSum_eq_sum]
  exact h

theorem wApprox_error' {sub' : α → α → α} {u : α} (hu : 0 ≤ u) (hsub : RelSub sub' u) (v : Nat → α) (c : Nat) :
    |wApprox sub' v c - closedW v c| ≤ errW u v c := wApprox_error hu hsub v c

/-- exact subtraction: the rounded surplus share is `closedW` (the case `u = 0` of `wApprox_error`) -/
theorem wApprox_exact (v : Nat → α) (c : Nat) : wApprox (· - ·) v c = closedW v c := by
  have h := wApprox_error (le_refl (0 : α)) relSub_exact v c
  rw [growth_zero, zero_mul] at h
  exact sub_eq_zero.mp (abs_eq_zero.mp (le_antisymm h (abs_nonneg _)))

theorem denormApprox_exact (g : α) (s : Nat → α) (x : α) (c : Nat) :
    denormApprox (· + ·) (· * ·) g s x c = x * g + listSum ((players c).map s) := by
  have h := foldl_add_error (le_refl (0 : α)) relAdd_exact ((players c).map s) (x * g) (x * g)
  rw [growth_zero, zero_mul, sub_self, abs_zero, mul_zero, add_zero, List.foldl_map] at h
  unfold denormApprox
  rw [listSum_eq_sum]
  exact sub_eq_zero.mp (abs_eq_zero.mp (le_antisymm h (abs_nonneg _)))

section exact
variable [DecidableLE α]

/-- **`approx_exact`.**  With the exact operations the rounded closed forms are the exact closed forms of
    ICG.Model.Normalize: `closedW`, `w / W`, `normVal` (with the exact guard), and `x·g + Σ_{i∈c} s i`
    (`C15.denormalize_spec`). -/
theorem approx_exact (n : Nat) (v : Nat → α) (c : Nat) :
    wApprox (· - ·) v c = closedW v c ∧
      normApprox (· - ·) (· / ·) n v c = closedW v c / closedW v (grand n) ∧
      (∀ rtol, normApproxB (closedAdditive n rtol v) (· - ·) (· / ·) n v c = normVal n rtol v c) ∧
      (∀ (g : α) (s : Nat → α) (x : α),
        denormApprox (· + ·) (· * ·) g s x c = x * g + listSum ((players c).map s)) := by
  refine ⟨wApprox_exact v c, ?_, ?_, fun g s x => denormApprox_exact g s x c⟩
  · unfold normApprox; rw [wApprox_exact, wApprox_exact]
  · intro rtol
    unfold normApproxB normVal normApprox
    rw [wApprox_exact, wApprox_exact]

end exact

/-! ### 2. singletons, the empty coalition, the grand coalition -/

section special
variable {sub' div' : α → α → α} {u : α}

omit [LinearOrder α] [IsStrictOrderedRing α] in
/-- the row of a singleton after the loops is `sub' (v{i}) (v{i})` … -/
theorem wApprox_singleton (sub' : α → α → α) (v : Nat → α) (i : Nat) :
    wApprox sub' v (2 ^ i) = sub' (v (2 ^ i)) (v (2 ^ i)) := by
  simp [wApprox, players_two_pow, singleton]

/-- … which the relative model forces to be EXACTLY 0 -/
theorem wApprox_singleton_zero (hsub : RelSub sub' u) (v : Nat → α) (i : Nat) : wApprox sub' v (2 ^ i) = 0 := by
  rw [wApprox_singleton]
  exact eq_zero_of_rel (hsub _ _) (sub_self _)

omit [LinearOrder α] [IsStrictOrderedRing α] in
/-- the row of ∅ is never touched -/
theorem wApprox_empty (sub' : α → α → α) (v : Nat → α) : wApprox sub' v 0 = v 0 := by
  simp [wApprox, players, playersFrom]

/-- the rounded normal value of a singleton is `div' 0 (rounded surplus)` … -/
theorem normApprox_singleton (hsub : RelSub sub' u) (div' : α → α → α) (n : Nat) (v : Nat → α) (i : Nat) :
    normApprox sub' div' n v (2 ^ i) = div' 0 (wApprox sub' v (grand n)) := by
  unfold normApprox; rw [wApprox_singleton_zero hsub]

/-- … hence EXACTLY 0 whenever the division is performed (rounded surplus ≠ 0) -/
theorem normApprox_singleton_zero (hsub : RelSub sub' u) (hdiv : RelDiv div' u) (n : Nat) (v : Nat → α)
    (hW : wApprox sub' v (grand n) ≠ 0) (i : Nat) : normApprox sub' div' n v (2 ^ i) = 0 := by
  rw [normApprox_singleton hsub]
  exact eq_zero_of_rel (hdiv _ _ hW) (zero_div _)

/-- if `v ∅ = 0` the rounded normal value of ∅ is exactly 0 as well -/
theorem normApprox_empty_zero (hdiv : RelDiv div' u) (n : Nat) {v : Nat → α} (h0 : v 0 = 0)
    (hW : wApprox sub' v (grand n) ≠ 0) : normApprox sub' div' n v 0 = 0 := by
  unfold normApprox; rw [wApprox_empty, h0]
  exact eq_zero_of_rel (hdiv _ _ hW) (zero_div _)

/-- the grand coalition: `div' x x` is within `u` of 1 -/
theorem normApprox_grand (hdiv : RelDiv div' u) (n : Nat) (v : Nat → α) (hW : wApprox sub' v (grand n) ≠ 0) :
    |normApprox sub' div' n v (grand n) - 1| ≤ u := by
  have h := hdiv (wApprox sub' v (grand n)) _ hW
  rw [div_self hW, abs_one, mul_one] at h
  exact h

omit [IsStrictOrderedRing α] in
/-- on the scaling side, with a non-zero rounded surplus, the branch structure reduces to `normApprox` -/
theorem normApproxB_scale (div' : α → α → α) (n : Nat) (v : Nat → α) (hW : wApprox sub' v (grand n) ≠ 0)
    (c : Nat) : normApproxB false sub' div' n v c = normApprox sub' div' n v c := by
  simp [normApproxB, hW]

omit [IsStrictOrderedRing α] in
/-- on the additive side zeros are stored, rounding or not -/
theorem normApproxB_additive (sub' div' : α → α → α) (n : Nat) (v : Nat → α) (c : Nat) :
    normApproxB true sub' div' n v c = 0 := by
  simp [normApproxB]

end special

/-! ### 3. the branch decision

`additive = bool(np.isclose(surplus + Σ, Σ, rtol=1e-9, atol=0))` is `d' ≤ t'` for the rounded `d' ≈ |w(N)|`
(it is `|(surplus' +' Σ') −' Σ'|`, where cancellation makes the ABSOLUTE error of `d'` of the order `u·(|v(N)| + Σ|v{i}|)`)
and the rounded `t' ≈ rtol·|Σ_i v{i}|`.  If the exact quantities are apart by more than the two errors, the
rounded test agrees with the exact one: -/

theorem scaling_side_of_margin {d' t' absW thr e1 e2 : α} (hd : |d' - absW| ≤ e1) (ht : |t' - thr| ≤ e2)
    (hmargin : thr + e1 + e2 < absW) : decide (d' ≤ t') = false := by
  have h1 := abs_le.mp hd
  have h2 := abs_le.mp ht
  simp only [decide_eq_false_iff_not, not_le]
  linarith [h1.1, h2.2]

theorem additive_side_of_margin {d' t' absW thr e1 e2 : α} (hd : |d' - absW| ≤ e1) (ht : |t' - thr| ≤ e2)
    (hmargin : absW + e1 + e2 ≤ thr) : decide (d' ≤ t') = true := by
  have h1 := abs_le.mp hd
  have h2 := abs_le.mp ht
  simp only [decide_eq_true_eq]
  linarith [h1.2, h2.1]

/-! ### 4. the rounded normal form -/

section norm
variable {sub' div' : α → α → α} {u : α}

/-- **`normApprox_error`.**  If the rounding error of the surplus is smaller than the surplus
    (`errW N < |W|`: the game is not additive up to rounding), the rounded surplus is not 0 — the code's second
    guard does not fire and the division is performed — and the rounded normal value of ANY coalition is within
    `u·|q| + (1+u)·(errW c + |q|·errW N)/(|W| − errW N)` of `q = w c / W`.  No superadditivity is used. -/
theorem normApprox_error (hu : 0 ≤ u) (hsub : RelSub sub' u) (hdiv : RelDiv div' u) (n : Nat) (v : Nat → α)
    (hmargin : errW u v (grand n) < |closedW v (grand n)|) (c : Nat) :
    wApprox sub' v (grand n) ≠ 0 ∧
      |normApprox sub' div' n v c - closedW v c / closedW v (grand n)| ≤ normErr u n v c :=
  div_rel_error hu hdiv (wApprox_error' hu hsub v c) (wApprox_error' hu hsub v (grand n)) hmargin

/-- the general bound is monotone in the two first-stage errors: with `errW c, errW N ≤ E < |W|` and `|q| ≤ 1`
    it is at most `u + (1+u)·2E/(|W| − E)` -/
theorem normErr_le (hu : 0 ≤ u) {n : Nat} {v : Nat → α} {c : Nat} {E : α}
    (hEc : errW u v c ≤ E) (hEN : errW u v (grand n) ≤ E) (hEW : E < |closedW v (grand n)|)
    (hq : |closedW v c / closedW v (grand n)| ≤ 1) :
    normErr u n v c ≤ u + (1 + u) * (2 * E / (|closedW v (grand n)| - E)) := by
  unfold normErr
  have h0c := errW_nonneg hu v c
  have h0N := errW_nonneg hu v (grand n)
  have hq0 := abs_nonneg (closedW v c / closedW v (grand n))
  have hden : 0 < |closedW v (grand n)| - E := by linarith
  have hnum : errW u v c + |closedW v c / closedW v (grand n)| * errW u v (grand n) ≤ 2 * E := by
    have := mul_le_mul hq hEN h0N zero_le_one
    linarith
  have hfrac : (errW u v c + |closedW v c / closedW v (grand n)| * errW u v (grand n)) /
      (|closedW v (grand n)| - errW u v (grand n)) ≤ 2 * E / (|closedW v (grand n)| - E) := by
    apply div_le_div₀ (by linarith) hnum hden (by linarith)
  have h1 : u * |closedW v c / closedW v (grand n)| ≤ u := by
    have := mul_le_mul_of_nonneg_left hq hu; linarith
  have h2 := mul_le_mul_of_nonneg_left hfrac (by linarith : (0 : α) ≤ 1 + u)
  linarith

/-- `u + (1+u)·2E/(W − E)` in ratio form: with `E = θ·M` it is `u + 2(1+u)·η/(1 − η)`, `η = θ·M/W` -/
theorem slack_ratio (u θ M W : α) (hW : W ≠ 0) (hne : W - θ * M ≠ 0) :
    u + (1 + u) * (2 * (θ * M) / (W - θ * M)) = u + 2 * (1 + u) * (θ * (M / W)) / (1 - θ * (M / W)) := by
  have h1 : 1 - θ * (M / W) ≠ 0 := by
    intro h
    apply hne
    field_simp at h
    linarith
  field_simp

end norm

/-! ### 5. superadditive games: the unit interval, up to an explicit slack -/

section SAgames
variable {sub' div' : α → α → α} {u : α} {n : Nat} {v : Nat → α}

/-- `|w c| ≤ mag v c` -/
theorem abs_closedW_le_mag (v : Nat → α) (c : Nat) : |closedW v c| ≤ mag v c := by
  unfold closedW mag
  rw [listSum_eq_sum]
  have h := list_abs_sum_le ((players c).map (fun i => v (singleton i)))
  rw [List.map_map] at h
  exact le_trans (abs_sub _ _) (by simpa [Function.comp_def] using add_le_add_left h |v c|)

/-- rows are no worse than the uniform bound `((1+u)^n − 1)·M` -/
theorem errW_le_uniform (hu : 0 ≤ u) {M : α} (hM : ∀ c, c < 2 ^ n → mag v c ≤ M) {c : Nat} (hc : c < 2 ^ n) :
    errW u v c ≤ ((1 + u) ^ n - 1) * M := by
  unfold errW
  have h1 : (1 + u) ^ size c - 1 ≤ (1 + u) ^ n - 1 := by
    have := growth_mono hu (size_le n c hc); linarith
  exact mul_le_mul h1 (hM c hc) (mag_nonneg v c) (growth_sub_one_nonneg hu n)

/-- the exact normal value of a superadditive game lies in [0,1] (`C15.normVal_unit`, scaling branch) -/
theorem quotient_unit (h : SA n v) (h0 : v 0 = 0) (hW : 0 < closedW v (grand n)) {c : Nat} (hc : c < 2 ^ n) :
    0 ≤ closedW v c / closedW v (grand n) ∧ closedW v c / closedW v (grand n) ≤ 1 :=
  ⟨div_nonneg (closedW_nonneg h h0 c hc) hW.le, (div_le_one hW).mpr (closedW_le_grand h h0 hc)⟩

/-- **`normApprox_unit`.**  A superadditive game with `v ∅ = 0` whose operand magnitudes are bounded by `M`,
    with surplus `W > 0` and `η = ((1+u)^n − 1)·(M/W) < 1`: the rounded surplus is not 0, and every rounded normal
    value is within `slack u n (M/W) = u + 2(1+u)·η/(1 − η)` of the exact one, hence inside
    `[−slack, 1 + slack]`. -/
theorem normApprox_unit (hu : 0 ≤ u) (hsub : RelSub sub' u) (hdiv : RelDiv div' u) (h : SA n v) (h0 : v 0 = 0)
    {M : α} (hM : ∀ c, c < 2 ^ n → mag v c ≤ M) (hW : 0 < closedW v (grand n))
    (hη : ((1 + u) ^ n - 1) * (M / closedW v (grand n)) < 1) {c : Nat} (hc : c < 2 ^ n) :
    wApprox sub' v (grand n) ≠ 0 ∧
      |normApprox sub' div' n v c - closedW v c / closedW v (grand n)| ≤ slack u n (M / closedW v (grand n)) ∧
      -slack u n (M / closedW v (grand n)) ≤ normApprox sub' div' n v c ∧
      normApprox sub' div' n v c ≤ 1 + slack u n (M / closedW v (grand n)) := by
  set W := closedW v (grand n) with hWdef
  set E := ((1 + u) ^ n - 1) * M with hEdef
  have hEW : E < W := by
    have := (div_lt_one hW).mp (show ((1 + u) ^ n - 1) * M / W < 1 by rw [mul_div_assoc]; exact hη)
    linarith
  have habs : |W| = W := abs_of_pos hW
  have hEN : errW u v (grand n) ≤ E := errW_le_uniform hu hM (grand_lt n)
  have hEc : errW u v c ≤ E := errW_le_uniform hu hM hc
  obtain ⟨hq0, hq1⟩ := quotient_unit h h0 hW hc
  have hq : |closedW v c / W| ≤ 1 := by rw [abs_of_nonneg hq0]; exact hq1
  obtain ⟨hne, herr⟩ := normApprox_error hu hsub hdiv n v (by rw [habs]; linarith) c
  have hle := normErr_le hu hEc hEN (by rw [habs]; exact hEW) hq
  rw [habs] at hle
  have hs : slack u n (M / W) = u + (1 + u) * (2 * E / (W - E)) := by
    unfold slack
    rw [slack_ratio u ((1 + u) ^ n - 1) M W hW.ne' (by linarith)]
  have hfin : |normApprox sub' div' n v c - closedW v c / W| ≤ slack u n (M / W) := by
    rw [hs]; exact le_trans herr hle
  have := abs_le.mp hfin
  exact ⟨hne, hfin, by linarith [this.1], by linarith [this.2]⟩

section withGuard
variable [DecidableLE α]

/-- **C15's first sentence, with rounding (scaling side).**  A superadditive game with `v ∅ = 0`, outside the
    tolerance window (`rtol·|Σ_i v{i}| < W`, so the exact normal form is `w/W`), the rounded `isclose` test having
    fallen on the scaling side (`additive = false`; see `scaling_side_of_margin`), magnitudes `≤ M` and
    `η = ((1+u)^n − 1)·M/W < 1`.  Then, for what the rounded code stores (`normApproxB false`):
    the rounded surplus is non-zero, so the division is performed; every singleton is EXACTLY 0; every value is within
    `slack` of the exact normal value `normVal`, hence in `[−slack, 1+slack]`; the grand coalition is within `u`
    of 1; and the result is superadditive up to `3·slack`. -/
theorem normalize_property_rounded (hu : 0 ≤ u) (hsub : RelSub sub' u) (hdiv : RelDiv div' u) (h : SA n v)
    (h0 : v 0 = 0) {rtol : α} (hr : 0 ≤ rtol)
    (hout : rtol * |∑ i ∈ range n, v (2 ^ i)| < closedW v (grand n))
    {M : α} (hM : ∀ c, c < 2 ^ n → mag v c ≤ M)
    (hη : ((1 + u) ^ n - 1) * (M / closedW v (grand n)) < 1) :
    wApprox sub' v (grand n) ≠ 0 ∧
      (∀ i, i < n → normApproxB false sub' div' n v (2 ^ i) = 0) ∧
      (∀ c, c < 2 ^ n →
        |normApproxB false sub' div' n v c - normVal n rtol v c| ≤ slack u n (M / closedW v (grand n)) ∧
        -slack u n (M / closedW v (grand n)) ≤ normApproxB false sub' div' n v c ∧
        normApproxB false sub' div' n v c ≤ 1 + slack u n (M / closedW v (grand n))) ∧
      |normApproxB false sub' div' n v (grand n) - 1| ≤ u ∧
      (∀ a b, a < 2 ^ n → b < 2 ^ n → a &&& b = 0 →
        normApproxB false sub' div' n v a + normApproxB false sub' div' n v b ≤
          normApproxB false sub' div' n v (a ||| b) + 3 * slack u n (M / closedW v (grand n))) := by
  have hW : 0 < closedW v (grand n) := lt_of_le_of_lt (mul_nonneg hr (abs_nonneg _)) hout
  have hne : wApprox sub' v (grand n) ≠ 0 :=
    (normApprox_unit hu hsub hdiv h h0 hM hW hη (grand_lt n)).1
  have hval : ∀ c, normVal n rtol v c = closedW v c / closedW v (grand n) :=
    fun c => normVal_above hout hW.ne' c
  have hB : ∀ c, normApproxB false sub' div' n v c = normApprox sub' div' n v c :=
    normApproxB_scale div' n v hne
  have hall : ∀ c, c < 2 ^ n →
      |normApproxB false sub' div' n v c - normVal n rtol v c| ≤ slack u n (M / closedW v (grand n)) ∧
      -slack u n (M / closedW v (grand n)) ≤ normApproxB false sub' div' n v c ∧
      normApproxB false sub' div' n v c ≤ 1 + slack u n (M / closedW v (grand n)) := by
    intro c hc
    rw [hB, hval]
    exact (normApprox_unit hu hsub hdiv h h0 hM hW hη hc).2
  refine ⟨hne, ?_, hall, ?_, ?_⟩
  · intro i _
    rw [hB]; exact normApprox_singleton_zero hsub hdiv n v hne i
  · rw [hB]; exact normApprox_grand hdiv n v hne
  · intro a b ha hb hab
    have hsa := normVal_SA (rtol := rtol) h h0 a b ha hb hab
    have h1 := abs_le.mp (hall a ha).1
    have h2 := abs_le.mp (hall b hb).1
    have h3 := abs_le.mp (hall _ (or_lt_two_pow ha hb)).1
    linarith [h1.2, h2.2, h3.1]

end withGuard

end SAgames

/-! ### 6. the recorded surplus, and the round trip -/

section roundtrip
variable {add' sub' mul' div' : α → α → α} {u : α}

/-- the players of `N` are `0 … n−1`: sums over them are sums over `List.range n` -/
theorem sum_players_grand {β : Type} [AddCommMonoid β] (n : Nat) (f : Nat → β) :
    ((players (grand n)).map f).sum = ((List.range n).map f).sum := by
  rw [← listSum_eq_sum, ← listSum_eq_sum, listSum_players (grand_lt n), bsum_grand, listSum_range_map]

/-- **the recorded surplus** of `_get_norminfo`, computed as a left-to-right rounded sum and one rounded
    subtraction, is within `((1+u)^(n+1) − 1)·mag v N` of `W = w(N)` -/
theorem surplusApprox_error (hu : 0 ≤ u) (hadd : RelAdd add' u) (hsub : RelSub sub' u) (n : Nat) (v : Nat → α) :
    |surplusApprox add' sub' n v - closedW v (grand n)| ≤ ((1 + u) ^ (n + 1) - 1) * mag v (grand n) := by
  have h := sub_foldl_add_error hu hadd hsub ((List.range n).map (fun i => v (singleton i))) (v (grand n))
  rw [List.length_map, List.length_range, List.map_map] at h
  unfold surplusApprox sumApprox closedW mag
  rw [listSum_eq_sum, sum_players_grand, sum_players_grand]
  exact h

/-- exact operations record the exact surplus -/
theorem surplusApprox_exact (n : Nat) (v : Nat → α) : surplusApprox (· + ·) (· - ·) n v = closedW v (grand n) := by
  have h := surplusApprox_error (le_refl (0 : α)) relAdd_exact relSub_exact n v
  rw [growth_zero, zero_mul] at h
  exact sub_eq_zero.mp (abs_eq_zero.mp (le_antisymm h (abs_nonneg _)))

/-- **`roundtrip_error`.**  Normalise row `c` in rounded arithmetic (scaling side, `errW N < |W|`), then
    de-normalise it with a recorded surplus `g` that is within `eg` of `W` and the (exactly stored) singleton values:
    the result is within `rtBound u n v eg c` of the original `v c`.  No superadditivity is used.
    (`rtBound` is explicit: `(1+u)^|c|·(u·|w c| + (1+u)·(normErr·(|W| + eg) + |q|·eg)) + ((1+u)^|c| − 1)·(|w c| + Σ_{i∈c}|v{i}|)`;
    it is 0 for `u = 0, eg = 0` — `bounds_vanish` — and to first order in `u` it is
    `2u·|w c| + |c|·u·mag v c + |c|·u·(|w c| + Σ_{i∈c}|v{i}|) + |q|·(n·u·mag v N + eg)`, at most
    `(3|c| + 2)·u·mag v c + |q|·(n·u·mag v N + eg)`: the last summand is the rounding of the two independently
    computed surpluses, `wApprox N` and `g`, carried into row `c` by the factor `q = w c / W`.) -/
theorem roundtrip_error (hu : 0 ≤ u) (hadd : RelAdd add' u) (hsub : RelSub sub' u) (hmul : RelMul mul' u)
    (hdiv : RelDiv div' u) (n : Nat) (v : Nat → α) (hmargin : errW u v (grand n) < |closedW v (grand n)|)
    {g eg : α} (hg : |g - closedW v (grand n)| ≤ eg) (c : Nat) :
    |denormApprox add' mul' g (fun i => v (singleton i)) (normApprox sub' div' n v c) c - v c| ≤
      rtBound u n v eg c := by
  obtain ⟨_, hq⟩ := normApprox_error hu hsub hdiv n v hmargin c
  have hWne : closedW v (grand n) ≠ 0 := by
    intro h
    rw [h, abs_zero] at hmargin
    exact absurd hmargin (not_lt.mpr (errW_nonneg hu v _))
  have hm := mul_rel_error hu hmul hq hg
  rw [div_mul_cancel₀ _ hWne] at hm
  have hf := foldl_add_error hu hadd ((players c).map (fun i => v (singleton i)))
    (mul' (normApprox sub' div' n v c) g) (closedW v c)
  have hv : closedW v c + ((players c).map (fun i => v (singleton i))).sum = v c := by
    unfold closedW; rw [listSum_eq_sum]; ring
  rw [List.foldl_map, List.length_map, ← size_eq_length_players, List.map_map, hv] at hf
  have hmono := mul_le_mul_of_nonneg_left hm (le_trans zero_le_one (one_le_growth hu (size c)))
  unfold denormApprox rtBound
  refine le_trans hf ?_
  simp only [Function.comp_def]
  linarith

end roundtrip

/-! ### 7. the round trip of a superadditive game: uniform and first-order bounds -/

section roundtripSA
variable {add' sub' mul' div' : α → α → α} {u : α} {n : Nat} {v : Nat → α}

/-- the general bound is at most the uniform one: superadditive, magnitudes `≤ M`, `((1+u)^n − 1)·M ≤ E < W` -/
theorem rtBound_le_SA (hu : 0 ≤ u) (h : SA n v) (h0 : v 0 = 0) {M : α} (hM : ∀ c, c < 2 ^ n → mag v c ≤ M)
    {E : α} (hE : ((1 + u) ^ n - 1) * M ≤ E) (hEW : E < closedW v (grand n)) {c : Nat} (hc : c < 2 ^ n) :
    rtBound u n v E c ≤ rtBoundSA u n M (closedW v (grand n)) E := by
  have hM0 : 0 ≤ M := le_trans (mag_nonneg v 0) (hM 0 (Nat.two_pow_pos n))
  have hE0 : 0 ≤ E := le_trans (mul_nonneg (growth_sub_one_nonneg hu n) hM0) hE
  have hW : 0 < closedW v (grand n) := lt_of_le_of_lt hE0 hEW
  have hEN : errW u v (grand n) ≤ E := le_trans (errW_le_uniform hu hM (grand_lt n)) hE
  have hEc : errW u v c ≤ E := le_trans (errW_le_uniform hu hM hc) hE
  obtain ⟨hq0, hq1⟩ := quotient_unit h h0 hW hc
  have hA0 := closedW_nonneg h h0 c hc
  have hAW := closedW_le_grand h h0 hc
  have hS : ((players c).map (fun i => |v (singleton i)|)).sum ≤ M := by
    have := hM c hc
    unfold mag at this
    linarith [abs_nonneg (v c)]
  have hS0 : 0 ≤ ((players c).map (fun i => |v (singleton i)|)).sum := by
    have := list_sum_abs_nonneg ((players c).map (fun i => v (singleton i)))
    rwa [List.map_map] at this
  unfold rtBound rtBoundSA
  rw [abs_of_nonneg hq0, abs_of_nonneg hA0, abs_of_pos hW]
  have hne := normErr_le hu hEc hEN (by rw [abs_of_pos hW]; exact hEW)
    (by rw [abs_of_nonneg hq0]; exact hq1)
  rw [abs_of_pos hW] at hne
  set W := closedW v (grand n)
  set A := closedW v c
  set q := A / W
  set S := ((players c).map (fun i => |v (singleton i)|)).sum
  set sl := u + (1 + u) * (2 * E / (W - E))
  set pc := (1 + u) ^ size c
  set p := (1 + u) ^ n
  have hpc1 : 1 ≤ pc := one_le_growth hu _
  have hpcp : pc ≤ p := growth_mono hu (size_le n c hc)
  have hsl0 : 0 ≤ sl :=
    add_nonneg hu (mul_nonneg (by linarith) (div_nonneg (by linarith) (by linarith)))
  have hWE0 : 0 ≤ W + E := by linarith
  -- the inner bracket
  have hin : u * A + (1 + u) * (normErr u n v c * (W + E) + q * E) ≤
      u * W + (1 + u) * (sl * (W + E) + E) := by
    have a1 : u * A ≤ u * W := mul_le_mul_of_nonneg_left hAW hu
    have a2 : normErr u n v c * (W + E) ≤ sl * (W + E) := mul_le_mul_of_nonneg_right hne hWE0
    have a3 : q * E ≤ E := by have := mul_le_mul_of_nonneg_right hq1 hE0; linarith
    have a4 := mul_le_mul_of_nonneg_left (add_le_add a2 a3) (by linarith : (0 : α) ≤ 1 + u)
    linarith
  have hI0 : 0 ≤ u * W + (1 + u) * (sl * (W + E) + E) :=
    add_nonneg (mul_nonneg hu hW.le) (mul_nonneg (by linarith) (add_nonneg (mul_nonneg hsl0 hWE0) hE0))
  have b1 : pc * (u * A + (1 + u) * (normErr u n v c * (W + E) + q * E)) ≤
      p * (u * W + (1 + u) * (sl * (W + E) + E)) :=
    le_trans (mul_le_mul_of_nonneg_left hin (by linarith)) (mul_le_mul_of_nonneg_right hpcp hI0)
  have b2 : (pc - 1) * (A + S) ≤ (p - 1) * (W + M) :=
    mul_le_mul (by linarith) (by linarith) (by linarith) (by linarith)
  linarith

/-- **`roundtrip_error_SA`.**  Superadditive game with `v ∅ = 0`, magnitudes `≤ M`; `E` bounds the rounding of
    every surplus involved (`((1+u)^n − 1)·M ≤ E`, recorded surplus within `E` of `W`) and `E < W`.  Then
    de-normalising the rounded normal form restores every value up to `rtBoundSA u n M W E`
    `= (1+u)^n·(u·W + (1+u)·((u + (1+u)·2E/(W−E))·(W + E) + E)) + ((1+u)^n − 1)·(W + M)`. -/
theorem roundtrip_error_SA (hu : 0 ≤ u) (hadd : RelAdd add' u) (hsub : RelSub sub' u) (hmul : RelMul mul' u)
    (hdiv : RelDiv div' u) (h : SA n v) (h0 : v 0 = 0) {M : α} (hM : ∀ c, c < 2 ^ n → mag v c ≤ M)
    {E : α} (hE : ((1 + u) ^ n - 1) * M ≤ E) (hEW : E < closedW v (grand n))
    {g : α} (hg : |g - closedW v (grand n)| ≤ E) {c : Nat} (hc : c < 2 ^ n) :
    |denormApprox add' mul' g (fun i => v (singleton i)) (normApprox sub' div' n v c) c - v c| ≤
      rtBoundSA u n M (closedW v (grand n)) E := by
  have hM0 : 0 ≤ M := le_trans (mag_nonneg v 0) (hM 0 (Nat.two_pow_pos n))
  have hE0 : 0 ≤ E := le_trans (mul_nonneg (growth_sub_one_nonneg hu n) hM0) hE
  have hW : 0 < closedW v (grand n) := lt_of_le_of_lt hE0 hEW
  have hmargin : errW u v (grand n) < |closedW v (grand n)| := by
    rw [abs_of_pos hW]
    exact lt_of_le_of_lt (le_trans (errW_le_uniform hu hM (grand_lt n)) hE) hEW
  exact le_trans (roundtrip_error hu hadd hsub hmul hdiv n v hmargin hg c)
    (rtBound_le_SA hu h h0 hM hE hEW hc)

/-- **`roundtrip_error_code`.**  The same with the recorded surplus computed the way `_get_norminfo` computes it
    (`surplusApprox`): `E = ((1+u)^(n+1) − 1)·M`. -/
theorem roundtrip_error_code (hu : 0 ≤ u) (hadd : RelAdd add' u) (hsub : RelSub sub' u) (hmul : RelMul mul' u)
    (hdiv : RelDiv div' u) (h : SA n v) (h0 : v 0 = 0) {M : α} (hM : ∀ c, c < 2 ^ n → mag v c ≤ M)
    (hEW : ((1 + u) ^ (n + 1) - 1) * M < closedW v (grand n)) {c : Nat} (hc : c < 2 ^ n) :
    |denormApprox add' mul' (surplusApprox add' sub' n v) (fun i => v (singleton i))
        (normApprox sub' div' n v c) c - v c| ≤
      rtBoundSA u n M (closedW v (grand n)) (((1 + u) ^ (n + 1) - 1) * M) := by
  have hM0 : 0 ≤ M := le_trans (mag_nonneg v 0) (hM 0 (Nat.two_pow_pos n))
  have hmono : (1 + u) ^ n - 1 ≤ (1 + u) ^ (n + 1) - 1 := by
    have := growth_mono hu (Nat.le_add_right n 1); linarith
  refine roundtrip_error_SA hu hadd hsub hmul hdiv h h0 hM (mul_le_mul_of_nonneg_right hmono hM0) hEW ?_ hc
  exact le_trans (surplusApprox_error hu hadd hsub n v)
    (mul_le_mul_of_nonneg_left (hM _ (grand_lt n)) (growth_sub_one_nonneg hu _))

/-- **`roundtrip_error_linear` — "restores the original values to float rounding".**  Superadditive game with
    `v ∅ = 0`, magnitudes `≤ M`, `(n+1)·u ≤ 1/2`, and the surplus not lost in the rounding: `4(n+1)·u·M ≤ W`.
    Then the whole rounded round trip (normalise, record the surplus, de-normalise) returns every value within
    `71·(n+1)·u·M` of the original: an absolute error LINEAR in the unit round-off `u`, relative to the largest
    operand magnitude `M`.  (The constant is not sharp; the first-order size of `rtBoundSA` is at most `(5n + 5)·u·M`.) -/
theorem roundtrip_error_linear (hu : 0 ≤ u) (hadd : RelAdd add' u) (hsub : RelSub sub' u) (hmul : RelMul mul' u)
    (hdiv : RelDiv div' u) (h : SA n v) (h0 : v 0 = 0) {M : α} (hM : ∀ c, c < 2 ^ n → mag v c ≤ M)
    (hx : ((n + 1 : ℕ) : α) * u ≤ 1 / 2) (hW : 0 < closedW v (grand n))
    (hL : 4 * (((n + 1 : ℕ) : α) * u) * M ≤ closedW v (grand n)) {c : Nat} (hc : c < 2 ^ n) :
    |denormApprox add' mul' (surplusApprox add' sub' n v) (fun i => v (singleton i))
        (normApprox sub' div' n v c) c - v c| ≤ 71 * (((n + 1 : ℕ) : α) * u) * M := by
  have hM0 : 0 ≤ M := le_trans (mag_nonneg v 0) (hM 0 (Nat.two_pow_pos n))
  have hWM : closedW v (grand n) ≤ M :=
    le_trans (le_trans (le_abs_self _) (abs_closedW_le_mag v _)) (hM _ (grand_lt n))
  have hMpos : 0 < M := lt_of_lt_of_le hW hWM
  have hθ := growth_sub_one_le_linear hu (n + 1) hx
  have hE : ((1 + u) ^ (n + 1) - 1) * M ≤ 2 * (((n + 1 : ℕ) : α) * u) * M :=
    mul_le_mul_of_nonneg_right hθ hM0
  have hx0 : 0 ≤ ((n + 1 : ℕ) : α) * u := mul_nonneg (Nat.cast_nonneg _) hu
  have hEW : ((1 + u) ^ (n + 1) - 1) * M < closedW v (grand n) := by
    rcases (mul_nonneg hx0 hM0).lt_or_eq with hpos | hzero
    · have : 2 * (((n + 1 : ℕ) : α) * u) * M < 4 * (((n + 1 : ℕ) : α) * u) * M := by nlinarith
      linarith
    · have : 2 * (((n + 1 : ℕ) : α) * u) * M = 0 := by rw [mul_assoc, ← hzero, mul_zero]
      linarith
  refine le_trans (roundtrip_error_code hu hadd hsub hmul hdiv h h0 hM hEW hc) ?_
  exact rtBoundSA_le_linear n hu hx hW hWM (mul_nonneg (growth_sub_one_nonneg hu _) hM0) hE hL

end roundtripSA

/-! ### 8. `u = 0`: every bound vanishes, so the theorems specialise to the exact ones -/

section vanish

theorem errW_zero (v : Nat → α) (c : Nat) : errW 0 v c = 0 := by
  unfold errW; rw [growth_zero, zero_mul]

theorem normErr_zero (n : Nat) (v : Nat → α) (c : Nat) : normErr 0 n v c = 0 := by
  unfold normErr; simp [errW_zero]

/-- with `u = 0` and an exactly recorded surplus all error bounds are 0 -/
theorem bounds_vanish (n : Nat) (v : Nat → α) (c : Nat) (ρ M W : α) :
    errW 0 v c = 0 ∧ normErr 0 n v c = 0 ∧ slack 0 n ρ = 0 ∧ rtBound 0 n v 0 c = 0 ∧ rtBoundSA 0 n M W 0 = 0 := by
  refine ⟨errW_zero v c, normErr_zero n v c, ?_, ?_, rtBoundSA_zero n M W⟩
  · simp [slack]
  · unfold rtBound; simp [normErr_zero]

/-- so `roundtrip_error` with the exact operations IS the exact round trip of C15 (`denormalize_normalize`):
    `w c / W · W + Σ_{i∈c} v{i} = v c` whenever `W ≠ 0` -/
theorem roundtrip_exact (n : Nat) (v : Nat → α) (hW : closedW v (grand n) ≠ 0) (c : Nat) :
    denormApprox (· + ·) (· * ·) (closedW v (grand n)) (fun i => v (singleton i))
      (normApprox (· - ·) (· / ·) n v c) c = v c := by
  have hmargin : errW 0 v (grand n) < |closedW v (grand n)| := by rw [errW_zero]; exact abs_pos.mpr hW
  have h := roundtrip_error (le_refl (0 : α)) relAdd_exact relSub_exact relMul_exact relDiv_exact n v hmargin
    (g := closedW v (grand n)) (eg := 0) (by simp) c
  rw [(bounds_vanish n v c 0 0 0).2.2.2.1] at h
  exact sub_eq_zero.mp (abs_eq_zero.mp (le_antisymm h (abs_nonneg _)))

end vanish

/-! ### 9. a concrete instance over ℚ: the hypotheses are satisfiable, rounding really happens, the bounds hold

The 3-player superadditive game `v = [0, 1, 2, 5, 3, 6, 7, 12]` (`w = [0,0,0,2,0,2,2,6]`, normal form
`[0,0,0,1/3,0,1/3,1/3,1]`), unit round-off `u = 1/1000`; every subtraction and multiplication rounds UP by one
relative unit, every division and addition rounds DOWN by one relative unit. -/

namespace Ex

def v3 : Nat → ℚ := fun c => [0, 1, 2, 5, 3, 6, 7, 12].getD c 0
def u3 : ℚ := 1 / 1000
def subR (a b : ℚ) : ℚ := (a - b) * (1 + u3)
def divR (a b : ℚ) : ℚ := a / b * (1 - u3)
def mulR (a b : ℚ) : ℚ := a * b * (1 + u3)
def addR (a b : ℚ) : ℚ := (a + b) * (1 - u3)

theorem u3_nonneg : 0 ≤ u3 := by norm_num [u3]

theorem subR_rel : RelSub subR u3 := by
  intro a b
  have : subR a b - (a - b) = u3 * (a - b) := by unfold subR; ring
  rw [this, abs_mul, abs_of_nonneg u3_nonneg]

theorem mulR_rel : RelMul mulR u3 := by
  intro a b
  have : mulR a b - a * b = u3 * (a * b) := by unfold mulR; ring
  rw [this, abs_mul, abs_of_nonneg u3_nonneg]

theorem divR_rel : RelDiv divR u3 := by
  intro a b _
  have : divR a b - a / b = -(u3 * (a / b)) := by unfold divR; ring
  rw [this, abs_neg, abs_mul, abs_of_nonneg u3_nonneg]

theorem addR_rel : RelAdd addR u3 := by
  intro a b
  have : addR a b - (a + b) = -(u3 * (a + b)) := by unfold addR; ring
  rw [this, abs_neg, abs_mul, abs_of_nonneg u3_nonneg]

theorem v3_SA : SA 3 v3 := by
  have h : ∀ a, a < 2 ^ 3 → ∀ b, b < 2 ^ 3 → a &&& b = 0 → v3 a + v3 b ≤ v3 (a ||| b) := by decide +kernel
  exact fun a b ha hb => h a ha b hb

theorem v3_empty : v3 0 = 0 := by decide +kernel

/-- the exact surplus shares and the exact surplus `W = 6` -/
theorem v3_closedW : (List.range 8).map (closedW v3) = [0, 0, 0, 2, 0, 2, 2, 6] := by decide +kernel
theorem v3_surplus : closedW v3 (grand 3) = 6 := by decide +kernel

/-- operand magnitudes `|v c| + Σ_{i∈c}|v{i}|` are at most `M = 18` (attained at `N`: 12 + 6) -/
theorem v3_mag : ∀ c, c < 2 ^ 3 → mag v3 c ≤ 18 := by decide +kernel

/-- `η = ((1+u)^3 − 1)·(18/6) < 1` -/
theorem v3_eta : ((1 + u3) ^ 3 - 1) * (18 / closedW v3 (grand 3)) < 1 := by
  rw [v3_surplus]; norm_num [u3]

/-- outside the tolerance window of the code's own `rtol = 1e-9`: `1e-9·6 < 6` -/
theorem v3_out : defaultRtol * |∑ i ∈ range 3, v3 (2 ^ i)| < closedW v3 (grand 3) := by
  rw [v3_surplus]
  simp only [Finset.sum_range_succ, Finset.sum_range_zero]
  norm_num [v3, defaultRtol]

theorem v3_margin : errW u3 v3 (grand 3) < |closedW v3 (grand 3)| := by decide +kernel

end Ex

/-- **rounding really happens**: the rounded surplus shares are not the exact ones (they are exactly 0 at ∅ and
    at the singletons, and too large elsewhere), … -/
example : (List.range 8).map (fun c => decide (wApprox Ex.subR Ex.v3 c = closedW Ex.v3 c)) =
    [true, true, true, false, true, false, false, false] := by decide +kernel

example : (List.range 8).map (wApprox Ex.subR Ex.v3) =
    [0, 0, 0, 501501 / 250000, 0, 401401 / 200000, 401401 / 200000, 6026031011 / 1000000000] ∧
    (List.range 8).map (closedW Ex.v3) = [0, 0, 0, 2, 0, 2, 2, 6] := by decide +kernel

/-- … the rounded normal values are not the exact ones (`1/3` at the pairs, `1` at `N`) but singletons are 0, … -/
example : (List.range 8).map (normApprox Ex.subR Ex.divR 3 Ex.v3) =
    [0, 0, 0, 54108 / 162703, 0, 54135 / 162703, 54135 / 162703, 999 / 1000] := by decide +kernel

/-- … and the round trip does not return the original values exactly (`v(N) = 12` comes back as `11.98797…`). -/
example : denormApprox Ex.addR Ex.mulR (surplusApprox Ex.addR Ex.subR 3 Ex.v3) (fun i => Ex.v3 (singleton i))
    (normApprox Ex.subR Ex.divR 3 Ex.v3 7) 7 = 11987974024036956995018993001 / 1000000000000000000000000000 := by
  decide +kernel

example : (List.range 8).map (fun c => decide (denormApprox Ex.addR Ex.mulR (surplusApprox Ex.addR Ex.subR 3 Ex.v3)
      (fun i => Ex.v3 (singleton i)) (normApprox Ex.subR Ex.divR 3 Ex.v3 c) c = Ex.v3 c)) =
    [true, false, false, false, false, false, false, false] := by decide +kernel

/-- the recorded surplus differs from both the exact surplus and the rounded surplus of the subtraction loops -/
example : surplusApprox Ex.addR Ex.subR 3 Ex.v3 ≠ closedW Ex.v3 (grand 3) ∧
    surplusApprox Ex.addR Ex.subR 3 Ex.v3 ≠ wApprox Ex.subR Ex.v3 (grand 3) := by decide +kernel

/-- the bounds, checked by evaluation (independently of the theorems): `wApprox_error`, the unit interval with
    `slack`, the grand coalition within `u` of 1, and the linear round-trip bound `71·(n+1)·u·M` -/
example : ∀ c, c < 2 ^ 3 → |wApprox Ex.subR Ex.v3 c - closedW Ex.v3 c| ≤ errW Ex.u3 Ex.v3 c := by decide +kernel

example : ∀ c, c < 2 ^ 3 →
    |normApprox Ex.subR Ex.divR 3 Ex.v3 c - closedW Ex.v3 c / closedW Ex.v3 (grand 3)| ≤ slack Ex.u3 3 (18 / 6) ∧
      -slack Ex.u3 3 (18 / 6) ≤ normApprox Ex.subR Ex.divR 3 Ex.v3 c ∧
      normApprox Ex.subR Ex.divR 3 Ex.v3 c ≤ 1 + slack Ex.u3 3 (18 / 6) := by decide +kernel

example : slack Ex.u3 3 (18 / 6) < 1 / 50 ∧ |normApprox Ex.subR Ex.divR 3 Ex.v3 (grand 3) - 1| ≤ Ex.u3 := by
  decide +kernel

example : ∀ c, c < 2 ^ 3 →
    |denormApprox Ex.addR Ex.mulR (surplusApprox Ex.addR Ex.subR 3 Ex.v3) (fun i => Ex.v3 (singleton i))
        (normApprox Ex.subR Ex.divR 3 Ex.v3 c) c - Ex.v3 c| ≤ rtBoundSA Ex.u3 3 18 6 (((1 + Ex.u3) ^ (3 + 1) - 1) * 18) ∧
      rtBoundSA Ex.u3 3 18 6 (((1 + Ex.u3) ^ (3 + 1) - 1) * 18) ≤ 71 * (((3 + 1 : ℕ) : ℚ) * Ex.u3) * 18 := by
  decide +kernel

/-! the hypotheses of every main theorem are satisfiable (each theorem is applied to the instance) -/

example (c : Nat) : |wApprox Ex.subR Ex.v3 c - closedW Ex.v3 c| ≤ ((1 + Ex.u3) ^ size c - 1) * mag Ex.v3 c :=
  wApprox_error Ex.u3_nonneg Ex.subR_rel Ex.v3 c

example (c : Nat) : wApprox Ex.subR Ex.v3 (grand 3) ≠ 0 ∧
    |normApprox Ex.subR Ex.divR 3 Ex.v3 c - closedW Ex.v3 c / closedW Ex.v3 (grand 3)| ≤ normErr Ex.u3 3 Ex.v3 c :=
  normApprox_error Ex.u3_nonneg Ex.subR_rel Ex.divR_rel 3 Ex.v3 Ex.v3_margin c

example (i : Nat) : normApprox Ex.subR Ex.divR 3 Ex.v3 (2 ^ i) = 0 :=
  normApprox_singleton_zero Ex.subR_rel Ex.divR_rel 3 Ex.v3
    (normApprox_error Ex.u3_nonneg Ex.subR_rel Ex.divR_rel 3 Ex.v3 Ex.v3_margin 0).1 i

example {c : Nat} (hc : c < 2 ^ 3) : wApprox Ex.subR Ex.v3 (grand 3) ≠ 0 ∧
    |normApprox Ex.subR Ex.divR 3 Ex.v3 c - closedW Ex.v3 c / closedW Ex.v3 (grand 3)| ≤
      slack Ex.u3 3 (18 / closedW Ex.v3 (grand 3)) ∧
    -slack Ex.u3 3 (18 / closedW Ex.v3 (grand 3)) ≤ normApprox Ex.subR Ex.divR 3 Ex.v3 c ∧
    normApprox Ex.subR Ex.divR 3 Ex.v3 c ≤ 1 + slack Ex.u3 3 (18 / closedW Ex.v3 (grand 3)) :=
  normApprox_unit Ex.u3_nonneg Ex.subR_rel Ex.divR_rel Ex.v3_SA Ex.v3_empty Ex.v3_mag
    (by rw [Ex.v3_surplus]; norm_num) Ex.v3_eta hc

/-- C15's first sentence with rounding, for the code's own `rtol` -/
example : wApprox Ex.subR Ex.v3 (grand 3) ≠ 0 ∧
    (∀ i, i < 3 → normApproxB false Ex.subR Ex.divR 3 Ex.v3 (2 ^ i) = 0) ∧
    (∀ c, c < 2 ^ 3 →
      |normApproxB false Ex.subR Ex.divR 3 Ex.v3 c - normVal 3 defaultRtol Ex.v3 c| ≤
        slack Ex.u3 3 (18 / closedW Ex.v3 (grand 3)) ∧
      -slack Ex.u3 3 (18 / closedW Ex.v3 (grand 3)) ≤ normApproxB false Ex.subR Ex.divR 3 Ex.v3 c ∧
      normApproxB false Ex.subR Ex.divR 3 Ex.v3 c ≤ 1 + slack Ex.u3 3 (18 / closedW Ex.v3 (grand 3))) ∧
    |normApproxB false Ex.subR Ex.divR 3 Ex.v3 (grand 3) - 1| ≤ Ex.u3 ∧
    (∀ a b, a < 2 ^ 3 → b < 2 ^ 3 → a &&& b = 0 →
      normApproxB false Ex.subR Ex.divR 3 Ex.v3 a + normApproxB false Ex.subR Ex.divR 3 Ex.v3 b ≤
        normApproxB false Ex.subR Ex.divR 3 Ex.v3 (a ||| b) + 3 * slack Ex.u3 3 (18 / closedW Ex.v3 (grand 3))) :=
  normalize_property_rounded Ex.u3_nonneg Ex.subR_rel Ex.divR_rel Ex.v3_SA Ex.v3_empty C15.defaultRtol_nonneg
    Ex.v3_out Ex.v3_mag Ex.v3_eta

/-- the rounded `isclose` test falls on the scaling side when the margin is there: rounded `|w(N)|` within `1/10`
    of 6, rounded threshold within `1/10` of `1e-9·6` -/
example (d' t' : ℚ) (hd : |d' - 6| ≤ 1 / 10) (ht : |t' - defaultRtol * 6| ≤ 1 / 10) : decide (d' ≤ t') = false :=
  scaling_side_of_margin hd ht (by norm_num [defaultRtol])

example (c : Nat) :
    |denormApprox Ex.addR Ex.mulR (surplusApprox Ex.addR Ex.subR 3 Ex.v3) (fun i => Ex.v3 (singleton i))
        (normApprox Ex.subR Ex.divR 3 Ex.v3 c) c - Ex.v3 c| ≤
      rtBound Ex.u3 3 Ex.v3 (((1 + Ex.u3) ^ (3 + 1) - 1) * mag Ex.v3 (grand 3)) c :=
  roundtrip_error Ex.u3_nonneg Ex.addR_rel Ex.subR_rel Ex.mulR_rel Ex.divR_rel 3 Ex.v3 Ex.v3_margin
    (surplusApprox_error Ex.u3_nonneg Ex.addR_rel Ex.subR_rel 3 Ex.v3) c

example {c : Nat} (hc : c < 2 ^ 3) :
    |denormApprox Ex.addR Ex.mulR (surplusApprox Ex.addR Ex.subR 3 Ex.v3) (fun i => Ex.v3 (singleton i))
        (normApprox Ex.subR Ex.divR 3 Ex.v3 c) c - Ex.v3 c| ≤
      rtBoundSA Ex.u3 3 18 (closedW Ex.v3 (grand 3)) (((1 + Ex.u3) ^ (3 + 1) - 1) * 18) :=
  roundtrip_error_code Ex.u3_nonneg Ex.addR_rel Ex.subR_rel Ex.mulR_rel Ex.divR_rel Ex.v3_SA Ex.v3_empty
    Ex.v3_mag (by rw [Ex.v3_surplus]; norm_num [Ex.u3]) hc

/-- `roundtrip_error_SA` with an exactly recorded surplus (`g = W`) and `E = ((1+u)^3 − 1)·18` -/
example {c : Nat} (hc : c < 2 ^ 3) :
    |denormApprox Ex.addR Ex.mulR (closedW Ex.v3 (grand 3)) (fun i => Ex.v3 (singleton i))
        (normApprox Ex.subR Ex.divR 3 Ex.v3 c) c - Ex.v3 c| ≤
      rtBoundSA Ex.u3 3 18 (closedW Ex.v3 (grand 3)) (((1 + Ex.u3) ^ 3 - 1) * 18) :=
  roundtrip_error_SA Ex.u3_nonneg Ex.addR_rel Ex.subR_rel Ex.mulR_rel Ex.divR_rel Ex.v3_SA Ex.v3_empty
    Ex.v3_mag (le_refl _) (by rw [Ex.v3_surplus]; norm_num [Ex.u3])
    (by rw [sub_self, abs_zero]; norm_num [Ex.u3]) hc

/-- "restores the original values to float rounding": within `71·4·(1/1000)·18 = 5.112` here (`u = 1/1000` is a
    very coarse arithmetic; with float64's `u = 2^-53` the same statement gives `≈ 5.7e-13`) -/
example {c : Nat} (hc : c < 2 ^ 3) :
    |denormApprox Ex.addR Ex.mulR (surplusApprox Ex.addR Ex.subR 3 Ex.v3) (fun i => Ex.v3 (singleton i))
        (normApprox Ex.subR Ex.divR 3 Ex.v3 c) c - Ex.v3 c| ≤ 71 * (((3 + 1 : ℕ) : ℚ) * Ex.u3) * 18 :=
  roundtrip_error_linear Ex.u3_nonneg Ex.addR_rel Ex.subR_rel Ex.mulR_rel Ex.divR_rel Ex.v3_SA Ex.v3_empty
    Ex.v3_mag (by norm_num [Ex.u3]) (by rw [Ex.v3_surplus]; norm_num)
    (by rw [Ex.v3_surplus]; norm_num [Ex.u3]) hc

/-- the exact operations satisfy the model with `u = 0`, and then the rounded forms are the exact ones: the model's
    `normVal` and the exact round trip -/
example : (List.range 8).map (normApproxB (closedAdditive 3 defaultRtol Ex.v3) (· - ·) (· / ·) 3 Ex.v3) =
    (List.range 8).map (normVal 3 defaultRtol Ex.v3) :=
  List.map_congr_left (fun c _ => (approx_exact 3 Ex.v3 c).2.2.1 defaultRtol)

example : (List.range 8).map (normApprox (· - ·) (· / ·) 3 Ex.v3) = [0, 0, 0, 1 / 3, 0, 1 / 3, 1 / 3, 1] := by
  decide +kernel

example (c : Nat) : denormApprox (· + ·) (· * ·) (closedW Ex.v3 (grand 3)) (fun i => Ex.v3 (singleton i))
    (normApprox (· - ·) (· / ·) 3 Ex.v3 c) c = Ex.v3 c :=
  roundtrip_exact 3 Ex.v3 (by rw [Ex.v3_surplus]; norm_num) c

end ICG.ApproxNormalize
