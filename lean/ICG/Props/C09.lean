/-
  Property C09 — the reveal environment (icg_gym.py), theorems about ICG.Model.Env.

  "After any sequence of reset, step and unstep calls with valid actions: the known coalitions are exactly
   the minimal information plus the chosen ones and carry the hidden game's values; the action mask marks
   exactly the still-unknown explorable coalitions; the observation shows the normalised hidden value at
   known explorable positions and 0 elsewhere; the reward is the negated gap of freshly recomputed bounds
   (never positive, up to float rounding, for a game of the assumed class); info reports the id of the
   revealed coalition. done is true iff the step budget is used up, nothing is left to reveal, or all
   intervals are degenerate; reset draws a new hidden game and forgets everything but the minimal
   information."

  The bound computer `compute` and the gap function `gap` are parameters.  About `compute` only
  `ComputeOK` is assumed (on tables with exact known rows it keeps `n`, the known flags and the known rows); about `gap` nothing, except
  `0 ≤ gap` in the corollary "never positive".  Float rounding is outside the theorems.

  Abstract state (`Spec`): hidden game, its normalised copy, the set of revealed explorable coalitions, the
  step counter.  `Inv` relates a model environment to it; `Reach` is "reached from the constructor by
  reset / step / unstep with valid actions"; `reach_inv : Reach … e s → Inv … e s`.
  The initially-known list enters only through membership (`Params.ik` may be in any order, with
  duplicates): nothing depends on the iteration order of the Python `set`.
-/
import ICG.Lemmas.EnvUndo
import ICG.Lemmas.EnvReal
import Mathlib.Algebra.Order.Group.Defs

namespace ICG.C09
open ICG Table Env

variable {α : Type}

/-! ### the abstract state -/

/-- what is fixed at construction -/
structure Params where
  n : Nat
  ik : List Nat            -- initially known coalitions (any order, duplicates allowed)
  budget : Option Nat

/-- `explorable = [c in id order if c not in initially_known]` -/
def Params.explorable (P : Params) : List Nat := (allCoalitions P.n).filter (fun c => !P.ik.contains c)

/-- the constructor adds ∅ (and N); every initially known id is a row of the table -/
def Params.WF (P : Params) : Prop := 0 ∈ P.ik ∧ ∀ c ∈ P.ik, c < 2 ^ P.n

structure Spec (α : Type) where
  full : Nat → α
  norm : Nat → α
  revealed : Nat → Bool
  steps : Int

def Spec.init (full norm : Nat → α) : Spec α := ⟨full, norm, fun _ => false, 0⟩
def Spec.step (s : Spec α) (c : Nat) : Spec α :=
  { s with revealed := fun d => d == c || s.revealed d, steps := s.steps + 1 }
def Spec.unstep (s : Spec α) (c : Nat) : Spec α :=
  { s with revealed := fun d => d != c && s.revealed d, steps := s.steps - 1 }

/-- known = initial ∪ revealed -/
def Spec.knows (P : Params) (s : Spec α) (c : Nat) : Bool := P.ik.contains c || s.revealed c

/-- valid actions, decidable on the abstract state: `step a` needs a still-unknown explorable coalition,
    `unstep a` a revealed one -/
def validStep (P : Params) (s : Spec α) (a : Nat) : Bool :=
  match P.explorable[a]? with
  | some c => !s.revealed c
  | none => false

def validUnstep (P : Params) (s : Spec α) (a : Nat) : Bool :=
  match P.explorable[a]? with
  | some c => s.revealed c
  | none => false

theorem mem_explorable {P : Params} {c : Nat} : c ∈ P.explorable ↔ c < 2 ^ P.n ∧ c ∉ P.ik := by
  simp [Params.explorable, allCoalitions, List.mem_filter]

theorem unstep_step (s : Spec α) (c : Nat) (h : s.revealed c = false) : (s.step c).unstep c = s := by
  cases s with
  | mk full norm revealed steps =>
    simp only [Spec.step, Spec.unstep, Spec.mk.injEq, true_and]
    refine ⟨?_, by omega⟩
    funext d
    by_cases hd : d = c
    · subst hd
      have h' : revealed d = false := h
      simp [h']
    · have hbe : (d == c) = false := beq_eq_false_iff_ne.mpr hd
      have hbn : (d != c) = true := bne_iff_ne.mpr hd
      rw [hbe, hbn]; simp

/-- the environment `e` is in abstract state `s` -/
structure Inv (compute : Table α → Except Err (Table α)) (P : Params) (e : Env α) (s : Spec α) : Prop where
  full : e.full = s.full
  norm : e.norm = s.norm
  steps : e.steps = s.steps
  budget : e.budget = P.budget
  ik : e.initiallyKnown = P.ik
  ex : e.explorable = P.explorable
  n : e.table.n = P.n
  /-- the known coalitions are exactly the initial ones plus the revealed ones … -/
  known : ∀ c, e.table.known c = s.knows P c
  /-- … and carry the hidden game's values -/
  vals : ∀ c, e.table.known c = true → e.table.lo c = s.full c ∧ e.table.hi c = s.full c
  /-- the bounds are those of a fresh computation from exactly this knowledge -/
  fresh : Fresh compute e.table
  /-- only explorable coalitions are ever revealed -/
  sub : ∀ c, s.revealed c = true → c ∈ P.explorable

section
variable {compute : Table α → Except Err (Table α)} {gap : Table α → Except Err α}

theorem Inv.known_lt {P : Params} (hP : P.WF) {e : Env α} {s : Spec α} (h : Inv compute P e s) {c : Nat}
    (hc : e.table.known c = true) : c < 2 ^ P.n := by
  rw [h.known c] at hc
  simp only [Spec.knows, Bool.or_eq_true, List.contains_iff_mem] at hc
  rcases hc with hc | hc
  · exact hP.2 c hc
  · exact (mem_explorable.mp (h.sub c hc)).1

theorem Inv.exact {P : Params} {e : Env α} {s : Spec α} (h : Inv compute P e s) : Exact e.table := by
  intro c hc
  have := h.vals c hc
  rw [this.1, this.2]

/-! ### reset -/

/-- `reset` (also the one inside the constructor) lands in the initial abstract state of the NEW game:
    everything but the initial knowledge is forgotten, the counter is 0, the bounds are fresh. -/
theorem reset_spec [Zero α] (hok : ComputeOK compute) {P : Params} (hP : P.WF) {e e' : Env α} {f g : Nat → α}
    {obs : List α} (hik : e.initiallyKnown = P.ik) (hex : e.explorable = P.explorable) (hn : e.table.n = P.n)
    (hb : e.budget = P.budget) (h : reset compute e f g = .ok (e', obs)) :
    Inv compute P e' (Spec.init f g) ∧ obs = e'.state := by
  have hik' : ∀ c ∈ e.initiallyKnown, c < 2 ^ e.table.n := by
    rw [hik, hn]; exact hP.2
  obtain ⟨t1, t2, hset, hcomp, he', hobs⟩ := reset_inv compute hik' h
  obtain ⟨t1', hset', hn1, hk1, hv1, _⟩ := setKnownValues_ik e.table f e.initiallyKnown hik'
  rw [hset] at hset'
  cases hset'
  have hk1' : ∀ c, t1.known c = (Spec.init f g).knows P c := by
    intro c
    rw [hk1 c, hik]
    simp only [Spec.knows, Spec.init, Bool.or_false]
    by_cases hc : c = 0
    · subst hc
      simp [hP.1]
    · simp [hc]
  have hv1' : ∀ c, t1.known c = true → t1.lo c = f c ∧ t1.hi c = f c := by
    intro c hc
    rw [hk1' c] at hc
    simp only [Spec.knows, Spec.init, Bool.or_false, List.contains_iff_mem] at hc
    exact hv1 c (hik ▸ hc)
  have hex1 : Exact t1 := fun c hc => by have := hv1' c hc; rw [this.1, this.2]
  refine ⟨?_, hobs⟩
  subst he'
  refine ⟨rfl, rfl, rfl, hb, hik, hex, ?_, ?_, ?_, ⟨t1, sameKnowledge_of_compute hok hex1 hcomp, hex1, hcomp⟩, ?_⟩
  · show t2.n = P.n
    rw [hok.n hex1 hcomp, hn1, hn]
  · intro c
    show t2.known c = _
    rw [hok.known hex1 hcomp c]; exact hk1' c
  · intro c hc
    have hc1 : t1.known c = true := by rw [← hok.known hex1 hcomp c]; exact hc
    have := hok.vals hex1 hcomp c hc1
    show t2.lo c = f c ∧ t2.hi c = f c
    rw [this.1, this.2]; exact hv1' c hc1
  · intro c hc
    simp [Spec.init] at hc

theorem reset_inv_spec [Zero α] (hok : ComputeOK compute) {P : Params} (hP : P.WF) {e e' : Env α} {s : Spec α}
    {f g : Nat → α} {obs : List α} (hinv : Inv compute P e s) (h : reset compute e f g = .ok (e', obs)) :
    Inv compute P e' (Spec.init f g) ∧ obs = e'.state :=
  reset_spec hok hP hinv.ik hinv.ex hinv.n hinv.budget h

/-! ### the constructor -/

theorem mkEnvWith_spec [Zero α] (hok : ComputeOK compute) {t0 : Table α} {ik : List Nat} {budget : Option Nat}
    {f g : Nat → α} {e : Env α} (h0 : 0 ∈ ik) (hik : ∀ c ∈ ik, c < 2 ^ t0.n)
    (h : mkEnvWith compute t0 ik budget f g = .ok e) :
    Inv compute ⟨t0.n, ik, budget⟩ e (Spec.init f g) ∧ e.explorable ≠ [] := by
  unfold mkEnvWith at h
  simp only at h
  split at h
  · simp at h
  · rename_i e1 obs hr
    split at h
    · simp at h
    · rename_i hne
      simp only [Except.ok.injEq] at h
      subst h
      have := reset_spec hok (P := ⟨t0.n, ik, budget⟩) ⟨h0, hik⟩ rfl rfl rfl rfl hr
      refine ⟨this.1, ?_⟩
      intro hnil
      exact hne (by rw [hnil]; rfl)

/-- `ICG_Gym(game, generator, initial, gap, budget)`: the known coalitions are `initial ∪ {∅, N}` whatever
    order the Python set iterates in (`sortedIds` is one such order; only membership is used) -/
theorem mkEnv_spec [Zero α] (hok : ComputeOK compute) {n : Nat} {initial : List Nat} {budget : Option Nat}
    {f g : Nat → α} {e : Env α} (hinit : ∀ c ∈ initial, c < 2 ^ n)
    (h : mkEnv compute n initial budget f g = .ok e) :
    Inv compute ⟨n, sortedIds (initial ++ [0, grand n]), budget⟩ e (Spec.init f g) ∧
      (∀ c, e.table.known c = true ↔ c ∈ initial ∨ c = 0 ∨ c = grand n) := by
  have h0 : 0 ∈ sortedIds (initial ++ [0, grand n]) := by simp [mem_sortedIds]
  have hpos : 0 < 2 ^ n := Nat.pos_of_ne_zero (by simp)
  have hik : ∀ c ∈ sortedIds (initial ++ [0, grand n]), c < 2 ^ (Table.init (α := α) n).n := by
    intro c hc
    rw [mem_sortedIds] at hc
    simp only [List.mem_append, List.mem_cons, List.mem_nil_iff, or_false] at hc
    show c < 2 ^ n
    rcases hc with hc | rfl | rfl
    · exact hinit c hc
    · exact hpos
    · simp only [grand]; omega
  have := (mkEnvWith_spec hok h0 hik h).1
  refine ⟨this, fun c => ?_⟩
  rw [this.known c]
  simp [Spec.knows, Spec.init, mem_sortedIds]

/-! ### step and unstep with valid actions -/

theorem step_spec [Zero α] [Neg α] [Sub α] [DecidableEq α] (hok : ComputeOK compute) {P : Params} {e e' : Env α} {s : Spec α}
    {a : Nat} {out : StepOut α} (hinv : Inv compute P e s)
    (h : step compute gap e a = .ok (e', out)) :
    ∃ c, P.explorable[a]? = some c ∧ s.revealed c = false ∧ Inv compute P e' (s.step c) ∧
      out.chosen = c ∧ out.obs = e'.state ∧ e'.reward gap = .ok out.reward ∧ out.done = e'.done := by
  obtain ⟨c, t2, g, hc, hlt, hk, hcomp, hg, he', hout⟩ := step_inv compute gap h
  rw [hinv.ex] at hc
  have hrev : s.revealed c = false := by
    have := hinv.known c
    rw [hk] at this
    simp only [Spec.knows] at this
    cases hr : s.revealed c with
    | false => rfl
    | true => rw [hr] at this; simp at this
  have hput_exact : Exact (e.table.putValue c (e.full c)) := by
    intro d hd
    by_cases hdc : d = c
    · subst hdc; simp [putValue]
    · have hd' : e.table.known d = true := by simpa [putValue, hdc] using hd
      simp only [putValue, hdc, if_false]
      exact hinv.exact d hd'
  refine ⟨c, hc, hrev, ?_, ?_, ?_, ?_, ?_⟩
  · subst he'
    refine ⟨hinv.full, hinv.norm, ?_, hinv.budget, hinv.ik, hinv.ex, ?_, ?_, ?_,
      ⟨_, sameKnowledge_of_compute hok hput_exact hcomp, hput_exact, hcomp⟩, ?_⟩
    · show e.steps + 1 = s.steps + 1
      rw [hinv.steps]
    · show t2.n = P.n
      rw [hok.n hput_exact hcomp]; exact hinv.n
    · intro d
      show t2.known d = _
      rw [hok.known hput_exact hcomp d]
      simp only [putValue, Spec.knows, Spec.step]
      by_cases hdc : d = c
      · subst hdc; simp
      · have hbe : (d == c) = false := beq_eq_false_iff_ne.mpr hdc
        have := hinv.known d
        simp only [Spec.knows] at this
        simp only [hdc, if_false, this, hbe, Bool.false_or]
    · intro d hd
      have hd1 : (e.table.putValue c (e.full c)).known d = true := by rw [← hok.known hput_exact hcomp d]; exact hd
      have := hok.vals hput_exact hcomp d hd1
      show t2.lo d = s.full d ∧ t2.hi d = s.full d
      rw [this.1, this.2]
      by_cases hdc : d = c
      · subst hdc; simp [putValue, hinv.full]
      · have hd' : e.table.known d = true := by simpa [putValue, hdc] using hd1
        simpa [putValue, hdc] using hinv.vals d hd'
    · intro d hd
      simp only [Spec.step, Bool.or_eq_true, beq_iff_eq] at hd
      rcases hd with rfl | hd
      · exact List.mem_of_getElem? hc
      · exact hinv.sub d hd
  · rw [hout]; rfl
  · rw [hout, he']; rfl
  · rw [hout, he']
    simp only [reward, outOf]
    have : gap (stepped e t2).table = .ok g := hg
    rw [this]
  · rw [hout, he']; rfl

theorem unstep_spec [Zero α] [Neg α] [Sub α] [DecidableEq α] (hok : ComputeOK compute) {P : Params} {e e' : Env α} {s : Spec α}
    {a : Nat} {out : StepOut α} (hinv : Inv compute P e s)
    (h : unstep compute gap e a = .ok (e', out)) :
    ∃ c, P.explorable[a]? = some c ∧ s.revealed c = true ∧ Inv compute P e' (s.unstep c) ∧
      out.chosen = c ∧ out.obs = e'.state ∧ e'.reward gap = .ok out.reward ∧ out.done = e'.done := by
  obtain ⟨c, t2, g, hc, hlt, hk, hcomp, hg, he', hout⟩ := unstep_inv compute gap h
  rw [hinv.ex] at hc
  have hcex : c ∈ P.explorable := List.mem_of_getElem? hc
  have hrev : s.revealed c = true := by
    have := hinv.known c
    rw [hk] at this
    simp only [Spec.knows] at this
    have hnik : c ∉ P.ik := (mem_explorable.mp hcex).2
    simpa [hnik] using this.symm
  have hclr_exact : Exact (e.table.clearRow c) := by
    intro d hd
    by_cases hdc : d = c
    · subst hdc; simp [clearRow] at hd
    · have hd' : e.table.known d = true := by simpa [clearRow, hdc] using hd
      simp only [clearRow, hdc, if_false]
      exact hinv.exact d hd'
  refine ⟨c, hc, hrev, ?_, ?_, ?_, ?_, ?_⟩
  · subst he'
    refine ⟨hinv.full, hinv.norm, ?_, hinv.budget, hinv.ik, hinv.ex, ?_, ?_, ?_,
      ⟨_, sameKnowledge_of_compute hok hclr_exact hcomp, hclr_exact, hcomp⟩, ?_⟩
    · show e.steps - 1 = s.steps - 1
      rw [hinv.steps]
    · show t2.n = P.n
      rw [hok.n hclr_exact hcomp]; exact hinv.n
    · intro d
      show t2.known d = _
      rw [hok.known hclr_exact hcomp d]
      simp only [clearRow, Spec.knows, Spec.unstep]
      by_cases hdc : d = c
      · subst hdc
        have hnik : d ∉ P.ik := (mem_explorable.mp hcex).2
        simp [hnik]
      · have hbe : (d != c) = true := by simp [hdc]
        have := hinv.known d
        simp only [Spec.knows] at this
        simp only [hdc, if_false, this, hbe, Bool.true_and]
    · intro d hd
      have hd1 : (e.table.clearRow c).known d = true := by rw [← hok.known hclr_exact hcomp d]; exact hd
      have := hok.vals hclr_exact hcomp d hd1
      show t2.lo d = s.full d ∧ t2.hi d = s.full d
      rw [this.1, this.2]
      by_cases hdc : d = c
      · subst hdc; simp [clearRow] at hd1
      · have hd' : e.table.known d = true := by simpa [clearRow, hdc] using hd1
        simpa [clearRow, hdc] using hinv.vals d hd'
    · intro d hd
      simp only [Spec.unstep, Bool.and_eq_true] at hd
      exact hinv.sub d hd.2
  · rw [hout]; rfl
  · rw [hout, he']; rfl
  · rw [hout, he']
    simp only [reward, outOf]
    have : gap (unstepped e t2).table = .ok g := hg
    rw [this]
  · rw [hout, he']; rfl

/-! ### every sequence of reset / step / unstep with valid actions -/

/-- `Reach compute gap P e s`: the model environment `e` is reached from the constructor by a sequence of
    successful reset / step / unstep calls with valid actions, and `s` is the abstract state that sequence
    produces. -/
inductive Reach [Zero α] [Neg α] [Sub α] [DecidableEq α] (compute : Table α → Except Err (Table α)) (gap : Table α → Except Err α) (P : Params) :
    Env α → Spec α → Prop
  | init {t0 : Table α} {f g : Nat → α} {e : Env α} :
      t0.n = P.n → mkEnvWith compute t0 P.ik P.budget f g = .ok e → Reach compute gap P e (Spec.init f g)
  | reset {e e' : Env α} {s : Spec α} {f g : Nat → α} {obs : List α} :
      Reach compute gap P e s → Env.reset compute e f g = .ok (e', obs) → Reach compute gap P e' (Spec.init f g)
  | step {e e' : Env α} {s : Spec α} {a c : Nat} {out : StepOut α} :
      Reach compute gap P e s → validStep P s a = true → P.explorable[a]? = some c →
      Env.step compute gap e a = .ok (e', out) → Reach compute gap P e' (s.step c)
  | unstep {e e' : Env α} {s : Spec α} {a c : Nat} {out : StepOut α} :
      Reach compute gap P e s → validUnstep P s a = true → P.explorable[a]? = some c →
      Env.unstep compute gap e a = .ok (e', out) → Reach compute gap P e' (s.unstep c)

/-- **C09, main invariant**: after any such sequence the environment is in the abstract state. -/
theorem reach_inv [Zero α] [Neg α] [Sub α] [DecidableEq α] (hok : ComputeOK compute) {P : Params} (hP : P.WF) {e : Env α} {s : Spec α}
    (h : Reach compute gap P e s) : Inv compute P e s := by
  induction h with
  | @init t0 f g e hn hmk =>
    have := (mkEnvWith_spec hok hP.1 (by rw [hn]; exact hP.2) hmk).1
    rw [hn] at this
    exact this
  | reset _ hr ih => exact (reset_inv_spec hok hP ih hr).1
  | step _ _ hc hs ih =>
    obtain ⟨c', hc', _, hinv, _⟩ := step_spec hok ih hs
    rw [hc] at hc'
    cases hc'
    exact hinv
  | unstep _ _ hc hs ih =>
    obtain ⟨c', hc', _, hinv, _⟩ := unstep_spec hok ih hs
    rw [hc] at hc'
    cases hc'
    exact hinv

/-! ### what the invariant says about the observables -/

/-- the action mask marks exactly the still-unknown explorable coalitions -/
theorem mask_spec {P : Params} {e : Env α} {s : Spec α} (h : Inv compute P e s) :
    e.actionMasks = P.explorable.map (fun c => !s.revealed c) := by
  simp only [actionMasks, h.ex]
  apply List.map_congr_left
  intro c hc
  rw [h.known c]
  have hnik : c ∉ P.ik := (mem_explorable.mp hc).2
  simp [Spec.knows, hnik]

/-- … equivalently: mask position `i` is set iff `explorable[i]` is not known -/
theorem mask_known {P : Params} {e : Env α} {s : Spec α} (h : Inv compute P e s) :
    e.actionMasks = P.explorable.map (fun c => !e.table.known c) := by
  simp only [actionMasks, h.ex]

/-- the observation shows the normalised hidden value at known explorable positions and 0 elsewhere -/
theorem state_spec [Zero α] {P : Params} {e : Env α} {s : Spec α} (h : Inv compute P e s) :
    e.state = P.explorable.map (fun c => if s.revealed c then s.norm c else 0) := by
  simp only [state, h.ex, h.norm]
  apply List.map_congr_left
  intro c hc
  rw [h.known c]
  have hnik : c ∉ P.ik := (mem_explorable.mp hc).2
  simp [Spec.knows, hnik]

/-- valid actions of the model = valid actions of the abstract state -/
theorem validActions_spec {P : Params} {e : Env α} {s : Spec α} (h : Inv compute P e s) (a : Nat) :
    a ∈ e.validActions ↔ validStep P s a = true := by
  simp only [validActions, List.mem_filter, List.mem_range, h.ex, validStep]
  cases hc : P.explorable[a]? with
  | none =>
    simp
  | some c =>
    have hlen : a < P.explorable.length := by
      rcases Nat.lt_or_ge a P.explorable.length with hl | hl
      · exact hl
      · rw [List.getElem?_eq_none hl] at hc; cases hc
    have hcm : c ∈ P.explorable := List.mem_of_getElem? hc
    have hnik : c ∉ P.ik := (mem_explorable.mp hcm).2
    simp [hlen, h.known c, Spec.knows, hnik]

/-- the reward is the negated gap of bounds freshly computed from a table that holds exactly the knowledge
    of the abstract state (initial ∪ revealed, with the hidden values) -/
theorem reward_spec [Neg α] {P : Params} {e : Env α} {s : Spec α} (h : Inv compute P e s) :
    ∃ t0 : Table α, t0.n = P.n ∧ (∀ c, t0.known c = s.knows P c) ∧
      (∀ c, t0.known c = true → t0.lo c = s.full c ∧ t0.hi c = s.full c) ∧
      compute t0 = .ok e.table ∧
      e.reward gap = (match gap e.table with | .ok g => .ok (-g) | .error err => .error err) := by
  obtain ⟨t0, hsk, _, hcomp⟩ := h.fresh
  refine ⟨t0, hsk.1.trans h.n, fun c => (hsk.2.1 c).trans (h.known c), fun c hc => ?_, hcomp, rfl⟩
  have hk : e.table.known c = true := by rw [← hsk.2.1 c]; exact hc
  have := hsk.2.2 c hc
  rw [this.1, this.2]; exact h.vals c hk

/-- `done` ⇔ the step budget is used up ∨ nothing is left to reveal ∨ all intervals are degenerate -/
theorem done_spec [Sub α] [Zero α] [DecidableEq α] {P : Params} {e : Env α} {s : Spec α} (h : Inv compute P e s) :
    e.done = true ↔ (∃ b, P.budget = some b ∧ (b : Int) ≤ s.steps) ∨
      (∀ c ∈ P.explorable, s.revealed c = true) ∨ (∀ c, c < 2 ^ P.n → e.table.hi c - e.table.lo c = 0) := by
  have hmask : e.actionMasks.any id = false ↔ ∀ c ∈ P.explorable, s.revealed c = true := by
    rw [mask_spec h]
    simp [List.any_eq_false]
  have hdeg : allDegenerate e.table = true ↔ ∀ c, c < 2 ^ P.n → e.table.hi c - e.table.lo c = 0 := by
    simp [allDegenerate, Table.rows, h.n]
  simp only [done, Bool.or_eq_true, Bool.not_eq_true', hmask, hdeg, h.budget, h.steps]
  cases P.budget with
  | none => simp
  | some b => simp [or_assoc]

end

/-- never positive: for any gap function that is non-negative (the gaps of C07 on a game of the class) -/
theorem reward_nonpos [AddCommGroup α] [LinearOrder α] [IsOrderedAddMonoid α]
    {gap : Table α → Except Err α} (hgap : ∀ t g, gap t = .ok g → 0 ≤ g) (e : Env α) {r : α}
    (h : e.reward gap = .ok r) : r ≤ 0 := by
  unfold reward at h
  cases hg : gap e.table with
  | error err => simp [hg] at h
  | ok g =>
    simp only [hg, Except.ok.injEq] at h
    rw [← h]
    exact neg_nonpos.mpr (hgap _ _ hg)

/-! ### progress: with a total computer / gap, valid actions never raise -/

section progress
variable {compute : Table α → Except Err (Table α)} {gap : Table α → Except Err α}

/-- the computer accepts every table of the right size that knows the initial coalitions -/
def ComputeTotal (compute : Table α → Except Err (Table α)) (P : Params) : Prop :=
  ∀ t : Table α, t.n = P.n → (∀ c ∈ P.ik, t.known c = true) → ∃ t', compute t = .ok t'

def GapTotal (gap : Table α → Except Err α) : Prop := ∀ t, ∃ g, gap t = .ok g

theorem step_succeeds [Zero α] [Neg α] [Sub α] [DecidableEq α] {P : Params} (htot : ComputeTotal compute P) (hgt : GapTotal gap)
    {e : Env α} {s : Spec α} {a : Nat} (hinv : Inv compute P e s) (hv : validStep P s a = true) :
    ∃ e' out, step compute gap e a = .ok (e', out) := by
  unfold validStep at hv
  cases hc : P.explorable[a]? with
  | none => simp [hc] at hv
  | some c =>
    simp only [hc, Bool.not_eq_true'] at hv
    have hcm : c ∈ P.explorable := List.mem_of_getElem? hc
    have hlt : c < 2 ^ e.table.n := by rw [hinv.n]; exact (mem_explorable.mp hcm).1
    have hnik : c ∉ P.ik := (mem_explorable.mp hcm).2
    have hk : e.table.known c = false := by rw [hinv.known c]; simp [Spec.knows, hnik, hv]
    obtain ⟨t2, ht2⟩ := htot (e.table.putValue c (e.full c)) hinv.n (fun d hd => by
      have : e.table.known d = true := by
        rw [hinv.known d]; simp [Spec.knows, hd]
      simp [putValue, this])
    obtain ⟨g, hg⟩ := hgt t2
    exact ⟨_, _, step_ok compute gap (hinv.ex ▸ hc) hlt hk ht2 hg⟩

theorem unstep_succeeds [Zero α] [Neg α] [Sub α] [DecidableEq α] {P : Params} (htot : ComputeTotal compute P) (hgt : GapTotal gap)
    {e : Env α} {s : Spec α} {a : Nat} (hinv : Inv compute P e s) (hv : validUnstep P s a = true) :
    ∃ e' out, unstep compute gap e a = .ok (e', out) := by
  unfold validUnstep at hv
  cases hc : P.explorable[a]? with
  | none => simp [hc] at hv
  | some c =>
    simp only [hc] at hv
    have hcm : c ∈ P.explorable := List.mem_of_getElem? hc
    have hlt : c < 2 ^ e.table.n := by rw [hinv.n]; exact (mem_explorable.mp hcm).1
    have hnik : c ∉ P.ik := (mem_explorable.mp hcm).2
    have hk : e.table.known c = true := by rw [hinv.known c]; simp [Spec.knows, hv]
    obtain ⟨t2, ht2⟩ := htot (e.table.clearRow c) hinv.n (fun d hd => by
      have : e.table.known d = true := by
        rw [hinv.known d]; simp [Spec.knows, hd]
      have hdc : d ≠ c := fun h => hnik (h ▸ hd)
      simp [clearRow, this, hdc])
    obtain ⟨g, hg⟩ := hgt t2
    exact ⟨_, _, unstep_ok compute gap (hinv.ex ▸ hc) hlt hk ht2 hg⟩

theorem reset_succeeds [Zero α] {P : Params} (htot : ComputeTotal compute P) (hP : P.WF)
    {e : Env α} {s : Spec α} (hinv : Inv compute P e s) (f g : Nat → α) :
    ∃ e' obs, reset compute e f g = .ok (e', obs) := by
  have hik' : ∀ c ∈ e.initiallyKnown, c < 2 ^ e.table.n := by
    rw [hinv.ik, hinv.n]; exact hP.2
  obtain ⟨t1, hset, hn1, hk1, _, _⟩ := setKnownValues_ik e.table f e.initiallyKnown hik'
  obtain ⟨t2, ht2⟩ := htot t1 (hn1.trans hinv.n) (fun d hd => by
    rw [hk1 d, hinv.ik]; simp [hd])
  have hall : (e.initiallyKnown.all fun x => decide (x < e.table.rows)) = true :=
    List.all_eq_true.mpr (fun x hx => decide_eq_true (by simpa [Table.rows] using hik' x hx))
  refine ⟨{ e with full := f, norm := g, table := t2, steps := 0 },
    Env.state { e with full := f, norm := g, table := t2, steps := 0 }, ?_⟩
  simp only [reset, hall, if_true, hset, ht2]

/-! invalid actions at a reachable state: the call raises and leaves the environment as it was -/

theorem step_revealed_raises [Zero α] [Neg α] [Sub α] [DecidableEq α] {P : Params} {e : Env α} {s : Spec α} {a c : Nat}
    (hinv : Inv compute P e s) (hc : P.explorable[a]? = some c) (hr : s.revealed c = true) :
    step compute gap e a = .error (.assert, e) := by
  have hcm : c ∈ P.explorable := List.mem_of_getElem? hc
  have hlt : c < 2 ^ e.table.n := by rw [hinv.n]; exact (mem_explorable.mp hcm).1
  have hk : e.table.known c = true := by rw [hinv.known c]; simp [Spec.knows, hr]
  exact step_known_error compute gap (hinv.ex ▸ hc) hlt hk

theorem unstep_unrevealed_raises [Zero α] [Neg α] [Sub α] [DecidableEq α] {P : Params} {e : Env α} {s : Spec α} {a c : Nat}
    (hinv : Inv compute P e s) (hc : P.explorable[a]? = some c) (hr : s.revealed c = false) :
    unstep compute gap e a = .error (.assert, e) := by
  have hcm : c ∈ P.explorable := List.mem_of_getElem? hc
  have hlt : c < 2 ^ e.table.n := by rw [hinv.n]; exact (mem_explorable.mp hcm).1
  have hnik : c ∉ P.ik := (mem_explorable.mp hcm).2
  have hk : e.table.known c = false := by rw [hinv.known c]; simp [Spec.knows, hnik, hr]
  exact unstep_unknown_error compute gap (hinv.ex ▸ hc) hlt hk

end progress

/-! ### the model's own computers: no hypothesis about `compute` is left -/

section real
variable [Add α] [Sub α] [LinearOrder α] [Zero α] [Neg α]

/-- the initial knowledge contains the minimal information ∅, N and the singletons -/
def Params.Minimal (P : Params) : Prop := 0 ∈ P.ik ∧ 2 ^ P.n - 1 ∈ P.ik ∧ ∀ i, i < P.n → 2 ^ i ∈ P.ik

omit [Zero α] [Neg α] in
theorem computer_computeTotal (k : Computer) {P : Params} (hmin : P.Minimal) :
    ComputeTotal (k.run : Table α → Except Err (Table α)) P := by
  intro t hn hk
  apply computer_total
  rw [hn]
  exact ⟨hk 0 hmin.1, hk _ hmin.2.1, fun i hi => hk _ (hmin.2.2 i hi)⟩

/-- **C09 for the reference, the cached and the approximate computer** (`ComputeOK` is a theorem for them,
    `ICG.computer_ok`): after any sequence of reset / step / unstep with valid actions the environment is in
    the abstract state. -/
theorem reach_inv_real (k : Computer) {gap : Table α → Except Err α} {P : Params} (hP : P.WF) {e : Env α}
    {s : Spec α} (h : Reach (k.run : Table α → Except Err (Table α)) gap P e s) : Inv k.run P e s :=
  reach_inv (computer_ok k) hP h

end real

/-! ### the hypotheses are satisfiable: a toy computer and gap, and a concrete environment -/

/-- a computer that puts `[0, w]` on every unknown row (keeps known rows) -/
def toyCompute [Zero α] (w : α) (t : Table α) : Except Err (Table α) :=
  .ok { t with lo := fun c => if t.known c then t.lo c else 0, hi := fun c => if t.known c then t.hi c else w }

theorem toyCompute_ok [Zero α] (w : α) : ComputeOK (toyCompute w) where
  n := by intro t t' _ h; cases h; rfl
  known := by intro t t' _ h c; cases h; rfl
  vals := by intro t t' _ h c hc; cases h; simp [hc]

theorem toyCompute_knowledgeOnly [Zero α] (w : α) : KnowledgeOnly (toyCompute w) where
  rows := by
    intro t1 t2 r1 r2 hsk _ _ h1 h2 c _
    cases h1; cases h2
    have hk := hsk.2.1 c
    cases hkc : t1.known c with
    | false => rw [hkc] at hk; simp [hkc, ← hk]
    | true =>
      have := hsk.2.2 c hkc
      rw [hkc] at hk
      simp [hkc, ← hk, this.1, this.2]

/-- the l1 gap: sum of the interval widths -/
def toyGap [Add α] [Sub α] [Zero α] (t : Table α) : Except Err α :=
  .ok (listSum ((List.range t.rows).map (fun c => t.hi c - t.lo c)))

/-- n = 3, minimal information, hidden game `v`, budget 2 -/
def demoFull : Nat → Int := fun c => [0, 1, 2, 5, 1, 4, 6, 12].getD c 0
def demoNorm : Nat → Int := fun c => [0, 0, 0, 2, 0, 2, 3, 8].getD c 0

def demo : Except Err (List Nat × List Bool × List Int × Except Err Int × Bool) :=
  match mkEnv (toyCompute (100 : Int)) 3 [1, 2, 4, 4, 1] (some 2) demoFull demoNorm with
  | .error err => .error err
  | .ok e => .ok (e.explorable, e.actionMasks, e.state, e.reward toyGap, e.done)

example : demo = .ok ([3, 5, 6], [true, true, true], [0, 0, 0], .ok (-300), false) := by decide +kernel

/-- step 1 (coalition 5), step 0 (coalition 3): budget used up → done; unstep; reset -/
def demoRun : Option (Env Int × List (List Int × Int × Bool × Nat)) :=
  match mkEnv (toyCompute (100 : Int)) 3 [1, 2, 4] (some 2) demoFull demoNorm with
  | .error _ => none
  | .ok e =>
    match step (toyCompute 100) toyGap e 1 with
    | .error _ => none
    | .ok (e1, o1) =>
      match step (toyCompute 100) toyGap e1 0 with
      | .error _ => none
      | .ok (e2, o2) =>
        match unstep (toyCompute 100) toyGap e2 1 with
        | .error _ => none
        | .ok (e3, o3) =>
          some (e3, [(o1.obs, o1.reward, o1.done, o1.chosen), (o2.obs, o2.reward, o2.done, o2.chosen),
                     (o3.obs, o3.reward, o3.done, o3.chosen)])

example : demoRun.map (·.2) =
    some [([0, 2, 0], -200, false, 5), ([2, 2, 0], -100, true, 3), ([2, 0, 0], -200, false, 5)] := by decide +kernel

example : demoRun.map (fun p => (p.1.actionMasks, p.1.steps)) = some ([false, true, true], 1) := by
  decide +kernel

/-- invalid calls raise and name their kind -/
example : (match mkEnv (toyCompute (100 : Int)) 3 [1, 2, 4] none demoFull demoNorm with
    | .ok e => (match step (toyCompute 100) toyGap e 3 with | .error (err, _) => some err | _ => none,
                match unstep (toyCompute 100) toyGap e 0 with | .error (err, _) => some err | _ => none,
                match step (toyCompute 100) toyGap e (-1) with | .ok (_, o) => some o.chosen | _ => none)
    | .error _ => (none, none, none)) = (some Err.index, some Err.assert, some 6) := by decide +kernel

/-- nothing explorable: the constructor itself raises (gymnasium's `Discrete(0)` assertion) -/
example : (match mkEnv (toyCompute (100 : Int)) 2 [1, 2] none demoFull demoNorm with
    | .error err => some err | .ok _ => none) = some Err.assert := by decide +kernel

end ICG.C09
