/-
  Property C15 — normalisation.
  "Normalising any game that the library itself accepts as superadditive yields a game with every singleton 0,
   every value in [0,1] and grand coalition 1 (or identically 0 when the game is additive), which is again
   superadditive; a graph game and its tabulated form normalise to the same values; and de-normalising with the
   returned information restores the original values (to float rounding)."

  Theorems about ICG.Model.Normalize (the model of normalize.py / graph_game.py), for every number of players
  and every ordered field (so ℚ — the driver's instance —, the dyadic rationals inside ℚ, and ℝ at once).
  Float rounding is outside these theorems (DESIGN 3.3); the float sub-stream of `corr_normalize` covers it.

  The repaired `_normalize_icg` (commit "fix: do not scale an additive game by its rounding residue …") does not
  divide when `np.isclose(surplus + Σ, Σ, rtol = 1e-9, atol = 0)`, i.e. (exact arithmetic) when
  `|w(N)| ≤ rtol · |Σ_i v{i}|` (`Additive`).  `rtol` is a parameter of the model and of every theorem here.
  Consequences, all proved below:
    * outside the tolerance window — `w(N) = 0 ∨ rtol·|Σ_i v{i}| < w(N)` — the property holds as before
      (`normalize_property`, `denormalize_normalize`); with `rtol = 0` the window is empty and the old
      unconditional statements are corollaries (`normalize_property_exact`, `denormalize_normalize_exact`);
    * inside the window — `0 < w(N) ≤ rtol·|Σ_i v{i}|` — the code deliberately returns the unscaled `w`
      (`window_behaviour`): singletons 0, superadditive, values in `[0, w(N)] ⊆ [0, rtol·|Σ_i v{i}|]`, grand
      coalition `w(N)`, which is 1 only when `w(N) = 1`; and `denormalize_game` with the returned information
      `(w(N), singletons)` yields `v c + w c · (w(N) − 1)`, so it restores the game iff `w(N) = 1`
      (`denormalize_window`, and a concrete failing instance with the code's own `rtol`): the round trip is
      NOT exact inside the window.
    * a graph game has zero singletons, so for its table the window is empty whatever `rtol` is.
-/
import ICG.Model.Normalize
import ICG.Spec.Bounds
import ICG.Lemmas.NormFacts
import Mathlib.Algebra.BigOperators.Ring.List
import Mathlib.Algebra.Order.Ring.Rat
import Mathlib.Algebra.Field.Rat
import Mathlib.Tactic.NormNum
import Mathlib.Tactic.Ring
import Mathlib.Tactic.IntervalCases

set_option linter.unusedSectionVars false

namespace ICG.C15
open ICG ICG.Norm Finset

/-! ## 1. the in-place loop of `_normalize_icg` computes the closed form (any field, no order needed) -/

section inplace
variable {α : Type} [Field α]

/-- the table is complete on `n` players and its two bound columns agree (what `set_values(values)` gives) -/
structure FullOn (n : Nat) (t : Table α) : Prop where
  n_eq : t.n = n
  known : ∀ c, c < 2 ^ n → t.known c = true
  hi_eq : ∀ c, c < 2 ^ n → t.hi c = t.lo c

omit [Field α] in
theorem fullOn_fullTable (n : Nat) (v : Nat → α) : FullOn n (fullTable n v) :=
  ⟨rfl, fun c hc => by simp [fullTable, hc], fun _ _ => rfl⟩

theorem closedW_eq {n c : Nat} (hc : c < 2 ^ n) (v : Nat → α) :
    closedW v c = v c - bsum n (fun i => v (2 ^ i)) c := by
  unfold closedW
  rw [listSum_players hc]
  rfl

theorem mem_meet {n i c : Nat} :
    c ∈ (allCoalitions n).filter (fun x => inter x (singleton i) != 0) ↔ c < 2 ^ n ∧ c.testBit i = true := by
  simp only [allCoalitions, List.mem_filter, List.mem_range, inter, singleton]
  rw [Nat.and_comm, two_pow_and_ne_zero_iff]

/-- one pass of the outer loop: the singleton's current value is subtracted from every coalition containing it -/
theorem subSingleton_spec {n : Nat} (t : Table α) (i : Nat) (hi : i < n) (hf : FullOn n t) :
    ∃ t', subSingleton t i = .ok t' ∧ FullOn n t' ∧
      ∀ c, c < 2 ^ n → t'.lo c = t.lo c - (if c.testBit i then t.lo (2 ^ i) else 0) := by
  obtain ⟨hn, hk, hh⟩ := hf
  have hrows : t.rows = 2 ^ n := by simp [Table.rows, hn]
  have hsi : (2 : Nat) ^ i < 2 ^ n := two_pow_lt_two_pow hi
  have hget : t.getValue (singleton i) = .ok (t.lo (2 ^ i)) := by
    simp [Table.getValue, singleton, hrows, hsi, hk _ hsi]
  obtain ⟨t', hfold, hn', hkn, hin, hout⟩ := foldlM_rows
    (fun (u : Table α) c => do
      let v ← u.getValue c
      u.setValue (v - t.lo (2 ^ i)) c)
    (fun _ x => x - t.lo (2 ^ i))
    ((allCoalitions t.n).filter (fun x => inter x (singleton i) != 0)) t
    ((List.nodup_range (n := 2 ^ t.n)).filter _)
    (by
      intro c hc
      rw [hn] at hc
      have := mem_meet.mp hc
      exact ⟨by rw [hrows]; exact this.1, hk c this.1⟩)
    (by
      intro t' c _ hc hkc
      simp [Table.getValue, Table.setValue, hc, hkc, bind, Except.bind])
  refine ⟨t', ?_, ⟨by rw [hn', hn], ?_, ?_⟩, ?_⟩
  · unfold subSingleton
    rw [hget]
    simp only [bind, Except.bind] at hfold ⊢
    simpa using hfold
  · intro c hc
    exact hkn c (hk c hc)
  · intro c hc
    by_cases hb : c.testBit i = true
    · have hm : c ∈ (allCoalitions t.n).filter (fun x => inter x (singleton i) != 0) := by
        rw [hn]; exact mem_meet.mpr ⟨hc, hb⟩
      rw [(hin c hm).2.1, (hin c hm).2.2]
    · have hm : c ∉ (allCoalitions t.n).filter (fun x => inter x (singleton i) != 0) := by
        rw [hn]; exact fun h => hb (mem_meet.mp h).2
      rw [(hout c hm).2.1, (hout c hm).2.2]; exact hh c hc
  · intro c hc
    by_cases hb : c.testBit i = true
    · have hm : c ∈ (allCoalitions t.n).filter (fun x => inter x (singleton i) != 0) := by
        rw [hn]; exact mem_meet.mpr ⟨hc, hb⟩
      rw [(hin c hm).2.1]; simp [hb]
    · have hm : c ∉ (allCoalitions t.n).filter (fun x => inter x (singleton i) != 0) := by
        rw [hn]; exact fun h => hb (mem_meet.mp h).2
      rw [(hout c hm).2.1]; simp [hb]

/-- the outer loop over the first `k` singletons -/
theorem subAll_spec {n : Nat} : ∀ (k : Nat) (t : Table α), k ≤ n → FullOn n t →
    ∃ t', (List.range k).foldlM subSingleton t = .ok t' ∧ FullOn n t' ∧
      ∀ c, c < 2 ^ n → t'.lo c = t.lo c - ∑ i ∈ range k, if c.testBit i then t.lo (2 ^ i) else 0 := by
  intro k
  induction k with
  | zero =>
    intro t _ hf
    exact ⟨t, rfl, hf, fun c _ => by simp⟩
  | succ k ih =>
    intro t hk hf
    obtain ⟨t1, h1, hf1, hlo1⟩ := ih t (by omega) hf
    obtain ⟨t2, h2, hf2, hlo2⟩ := subSingleton_spec t1 k (by omega) hf1
    refine ⟨t2, ?_, hf2, ?_⟩
    · rw [List.range_succ, List.foldlM_append, h1]
      simp only [bind, Except.bind, List.foldlM_cons, List.foldlM_nil]
      rw [h2]; rfl
    · intro c hc
      have hsk : (2 : Nat) ^ k < 2 ^ n := two_pow_lt_two_pow (by omega)
      have hsv : t1.lo (2 ^ k) = t.lo (2 ^ k) := by
        rw [hlo1 _ hsk]
        have : ∑ i ∈ range k, (if (2 ^ k).testBit i then t.lo (2 ^ i) else 0) = 0 := by
          apply Finset.sum_eq_zero
          intro i hi
          have hne : ¬ k = i := by have := Finset.mem_range.mp hi; omega
          simp [hne]
        rw [this, sub_zero]
      rw [hlo2 c hc, hlo1 c hc, hsv, Finset.sum_range_succ, sub_sub]

/-- the whole subtraction phase of `_normalize_icg`, and the read of the grand coalition that follows it -/
theorem subtraction_phase {n : Nat} (t : Table α) (hf : FullOn n t) :
    ∃ t1, (List.range t.n).foldlM subSingleton t = .ok t1 ∧ FullOn n t1 ∧
      (∀ c, c < 2 ^ n → t1.lo c = closedW t.lo c) ∧
      t1.getValue (grand t1.n) = .ok (closedW t.lo (grand n)) := by
  obtain ⟨t1, h1, hf1, hlo1⟩ := subAll_spec n t (le_refl n) hf
  have hW : ∀ c, c < 2 ^ n → t1.lo c = closedW t.lo c := by
    intro c hc
    rw [hlo1 c hc, closedW_eq hc]; rfl
  refine ⟨t1, by rw [hf.n_eq]; exact h1, hf1, hW, ?_⟩
  have hlt := grand_lt n
  simp [Table.getValue, Table.rows, hf1.n_eq, hlt, hf1.known _ hlt, hW _ hlt]

/-- `_get_norminfo` on a complete table: `(w(N), the singleton values in player order)` -/
theorem normInfo_closed {n : Nat} (t : Table α) (hf : FullOn n t) :
    normInfo t = .ok (closedW t.lo (grand n), (List.range n).map (fun i => t.lo (2 ^ i))) := by
  have hs : ∀ i, i < n → (2 : Nat) ^ i < 2 ^ n := fun i hi => two_pow_lt_two_pow hi
  have hvals : t.getValues (some (singletons t.n)) = .ok ((List.range n).map (fun i => t.lo (2 ^ i))) := by
    have h1 : (singletons n).all (· < t.rows) = true := by
      simp only [singletons, List.all_map, List.all_eq_true, List.mem_range, Function.comp]
      intro i hi; simp [Table.rows, hf.n_eq, singleton, hs i hi]
    have h2 : (singletons n).all t.known = true := by
      simp only [singletons, List.all_map, List.all_eq_true, List.mem_range, Function.comp]
      intro i hi; exact hf.known _ (hs i hi)
    simp only [Table.getValues, hf.n_eq, h1, h2, if_true]
    congr 1
    simp only [singletons, List.map_map]
    apply List.map_congr_left
    intro i hi
    exact hf.hi_eq _ (hs i (List.mem_range.mp hi))
  have hg : t.getValue (grand t.n) = .ok (t.lo (grand n)) := by
    have hlt := grand_lt n
    simp [Table.getValue, Table.rows, hf.n_eq, hlt, hf.known _ hlt]
  unfold normInfo
  rw [hvals]
  simp only [bind, Except.bind]
  rw [hg]
  simp only [pure, Except.pure]
  congr 2
  rw [closedW_eq (grand_lt n), bsum_grand, listSum_range_map]

end inplace

/-! ## 1b. the guard and the two branches (ordered field; the order is only used through `|·|` and `≤`) -/

section guard
variable {α : Type} [Field α] [LinearOrder α] [DecidableLE α] [DecidableEq α]

/-- the additivity test of the repaired `_normalize_icg` in exact arithmetic:
    `np.isclose(surplus + Σ, Σ, rtol, atol = 0)` is `|surplus| ≤ rtol · |Σ|`, with `surplus = w(N)` and
    `Σ = Σ_{i<n} v{i}` (`ICG.Norm.isAdditive_iff`, `closedAdditive_iff`). -/
def Additive (n : Nat) (rtol : α) (v : Nat → α) : Prop :=
  |closedW v (grand n)| ≤ rtol * |∑ i ∈ range n, v (2 ^ i)|

omit [DecidableEq α] in
theorem closedAdditive_iff_Additive (n : Nat) (rtol : α) (v : Nat → α) :
    closedAdditive n rtol v = true ↔ Additive n rtol v := closedAdditive_iff n rtol v

/-- scaling branch of the closed form -/
theorem normVal_of_scale {n : Nat} {rtol : α} {v : Nat → α} (hg : closedW v (grand n) ≠ 0)
    (ha : ¬ Additive n rtol v) (c : Nat) : normVal n rtol v c = closedW v c / closedW v (grand n) := by
  have : ¬ closedAdditive n rtol v = true := fun h => ha ((closedAdditive_iff_Additive n rtol v).mp h)
  simp [normVal, hg, this]

/-- no-scaling branch of the closed form -/
theorem normVal_of_noscale {n : Nat} {rtol : α} {v : Nat → α}
    (h : closedW v (grand n) = 0 ∨ Additive n rtol v) (c : Nat) : normVal n rtol v c = closedW v c := by
  have : closedW v (grand n) = 0 ∨ closedAdditive n rtol v = true :=
    h.imp id (closedAdditive_iff_Additive n rtol v).mpr
  simp only [normVal, if_pos this]

/-- **in-place = closed form.**  On a complete table the repaired `_normalize_icg` succeeds (`_get_norminfo`,
    the loop and the final read never raise) and leaves, in both bound columns, `normVal`:
    `w c = v c − Σ_{i∈c} v{i}`, divided by `w(N)` unless `w(N) = 0` or `|w(N)| ≤ rtol·|Σ_i v{i}|`. -/
theorem normalizeIcg_closed {n : Nat} (rtol : α) (t : Table α) (hf : FullOn n t) :
    ∃ t', normalizeIcg rtol t = .ok t' ∧ FullOn n t' ∧ ∀ c, c < 2 ^ n → t'.lo c = normVal n rtol t.lo c := by
  obtain ⟨t1, h1, hf1, hW, hg⟩ := subtraction_phase t hf
  unfold normalizeIcg
  rw [normInfo_closed t hf]
  simp only [bind, Except.bind]
  rw [h1]
  simp only [hg, isAdditive_closed]
  by_cases hz : closedW t.lo (grand n) = 0 ∨ closedAdditive n rtol t.lo = true
  · refine ⟨t1, by simp only [if_pos hz]; rfl, hf1, ?_⟩
    intro c hc
    simp only [normVal, if_pos hz, hW c hc]
  · refine ⟨divColumns t1 (closedW t.lo (grand n)), by simp only [if_neg hz]; rfl,
      ⟨hf1.n_eq, hf1.known, ?_⟩, ?_⟩
    · intro c hc
      simp [divColumns, hf1.hi_eq c hc]
    · intro c hc
      have : c < t1.rows := by simp [Table.rows, hf1.n_eq, hc]
      simp [divColumns, normVal, if_neg hz, hW c hc, this]

/-- the same, branch by branch: with `w = v − Σ singletons` the result is `w / w(N)` when `w(N) ≠ 0` and the game
    is not additive up to `rtol`, and `w` itself otherwise. -/
theorem normalizeIcg_cases {n : Nat} (rtol : α) (t : Table α) (hf : FullOn n t) :
    ∃ t', normalizeIcg rtol t = .ok t' ∧ FullOn n t' ∧
      (closedW t.lo (grand n) ≠ 0 → ¬ Additive n rtol t.lo →
        ∀ c, c < 2 ^ n → t'.lo c = closedW t.lo c / closedW t.lo (grand n)) ∧
      (closedW t.lo (grand n) = 0 ∨ Additive n rtol t.lo → ∀ c, c < 2 ^ n → t'.lo c = closedW t.lo c) := by
  obtain ⟨t', hok, hf', hlo⟩ := normalizeIcg_closed rtol t hf
  exact ⟨t', hok, hf',
    fun hg ha c hc => by rw [hlo c hc, normVal_of_scale hg ha],
    fun h c hc => by rw [hlo c hc, normVal_of_noscale h]⟩

end guard

/-! ## 2. the closed form has the properties C15 names (ordered field) -/

section ordered
variable {α : Type} [Field α] [LinearOrder α] [IsStrictOrderedRing α]

/-- subtracting the singleton values keeps superadditivity -/
theorem closedW_SA {n : Nat} {v : Nat → α} (h : SA n v) : SA n (closedW v) := by
  intro a b ha hb hab
  rw [closedW_eq ha, closedW_eq hb, closedW_eq (or_lt_two_pow ha hb), bsum_or _ _ hab]
  have := h a b ha hb hab
  linarith

theorem closedW_singleton {n i : Nat} (hi : i < n) (v : Nat → α) : closedW v (2 ^ i) = 0 := by
  rw [closedW_eq (two_pow_lt_two_pow hi), bsum_two_pow _ hi, sub_self]

theorem closedW_empty (v : Nat → α) : closedW v 0 = v 0 := by
  rw [closedW_eq (n := 0) (by simp), bsum_zero, sub_zero]

/-- a superadditive game with `w ∅ = 0` and zero singletons is non-negative … -/
theorem nonneg_of_SA {n : Nat} {w : Nat → α} (h : SA n w) (h0 : w 0 = 0) (hs : ∀ i, i < n → w (2 ^ i) = 0) :
    ∀ c, c < 2 ^ n → 0 ≤ w c := by
  intro c
  induction c using Nat.strongRecOn with
  | _ c ih =>
    intro hc
    by_cases hz : c = 0
    · subst hz; rw [h0]
    · obtain ⟨i, hi⟩ := exists_testBit_of_ne_zero hz
      have hin : i < n := testBit_lt_of_lt_two_pow hc hi
      have hsub : 2 ^ i &&& c = 2 ^ i := two_pow_sub_of_testBit hi
      have hle := sub_le hsub
      have hpos : 0 < 2 ^ i := Nat.two_pow_pos i
      have hor := sub_or_self hsub
      have hlt : c - 2 ^ i < c := by omega
      have := h (2 ^ i) (c - 2 ^ i) (two_pow_lt_two_pow hin) (by omega) hor.2
      rw [hor.1, hs i hin, zero_add] at this
      exact le_trans (ih _ hlt (by omega)) this

/-- … and monotone non-decreasing along inclusion -/
theorem mono_of_SA {n : Nat} {w : Nat → α} (h : SA n w) (hnn : ∀ c, c < 2 ^ n → 0 ≤ w c)
    {x c : Nat} (hc : c < 2 ^ n) (hx : x &&& c = x) : w x ≤ w c := by
  have hle := sub_le hx
  have hor := sub_or_self hx
  have := h x (c - x) (by omega) (by omega) hor.2
  rw [hor.1] at this
  have h2 := hnn (c - x) (by omega)
  linarith

variable {n : Nat} {v : Nat → α}

theorem closedW_nonneg (h : SA n v) (h0 : v 0 = 0) : ∀ c, c < 2 ^ n → 0 ≤ closedW v c :=
  nonneg_of_SA (closedW_SA h) (by rw [closedW_empty, h0]) (fun _ hi => closedW_singleton hi v)

theorem closedW_mono (h : SA n v) (h0 : v 0 = 0) {x c : Nat} (hc : c < 2 ^ n) (hx : x &&& c = x) :
    closedW v x ≤ closedW v c :=
  mono_of_SA (closedW_SA h) (closedW_nonneg h h0) hc hx

theorem closedW_le_grand (h : SA n v) (h0 : v 0 = 0) {c : Nat} (hc : c < 2 ^ n) :
    closedW v c ≤ closedW v (grand n) :=
  closedW_mono h h0 (grand_lt n) (sub_grand_mask hc)

/-- `w(N) = 0 ⇒ w ≡ 0`: the additive case (`v c = Σ_{i∈c} v{i}` for every coalition) -/
theorem closedW_zero_of_grand_zero (h : SA n v) (h0 : v 0 = 0) (hg : closedW v (grand n) = 0) :
    ∀ c, c < 2 ^ n → closedW v c = 0 := by
  intro c hc
  exact le_antisymm (hg ▸ closedW_le_grand h h0 hc) (closedW_nonneg h h0 c hc)

theorem additive_of_grand_zero (h : SA n v) (h0 : v 0 = 0) (hg : closedW v (grand n) = 0) :
    ∀ c, c < 2 ^ n → v c = bsum n (fun i => v (2 ^ i)) c := by
  intro c hc
  have := closedW_zero_of_grand_zero h h0 hg c hc
  rw [closedW_eq hc] at this
  exact sub_eq_zero.mp this

variable [DecidableLE α] [DecidableEq α] {rtol : α}

/-- in a superadditive game the surplus is non-negative, so the guard reads `w(N) ≤ rtol·|Σ|` -/
theorem additive_iff_le (h : SA n v) (h0 : v 0 = 0) :
    Additive n rtol v ↔ closedW v (grand n) ≤ rtol * |∑ i ∈ range n, v (2 ^ i)| := by
  unfold Additive
  rw [abs_of_nonneg (closedW_nonneg h h0 _ (grand_lt n))]

omit [IsStrictOrderedRing α] [DecidableLE α] [DecidableEq α] in
/-- above the window the game is not additive up to `rtol` -/
theorem not_additive_of_lt (hlt : rtol * |∑ i ∈ range n, v (2 ^ i)| < closedW v (grand n)) :
    ¬ Additive n rtol v := fun ha => absurd (lt_of_lt_of_le hlt (le_abs_self _)) (not_lt.mpr ha)

omit [IsStrictOrderedRing α] in
/-- outside the tolerance window the closed form is the exact normalisation … -/
theorem normVal_out_of_window
    (how : closedW v (grand n) = 0 ∨ rtol * |∑ i ∈ range n, v (2 ^ i)| < closedW v (grand n)) (c : Nat) :
    (closedW v (grand n) = 0 → normVal n rtol v c = closedW v c) ∧
    (closedW v (grand n) ≠ 0 → normVal n rtol v c = closedW v c / closedW v (grand n)) := by
  refine ⟨fun hg => normVal_of_noscale (Or.inl hg) c, fun hg => ?_⟩
  rcases how with hz | hlt
  · exact absurd hz hg
  · exact normVal_of_scale hg (not_additive_of_lt hlt) c

theorem normVal_of_ne
    (how : closedW v (grand n) = 0 ∨ rtol * |∑ i ∈ range n, v (2 ^ i)| < closedW v (grand n))
    (hg : closedW v (grand n) ≠ 0) (c : Nat) :
    normVal n rtol v c = closedW v c / closedW v (grand n) := (normVal_out_of_window how c).2 hg

theorem normVal_of_eq (hg : closedW v (grand n) = 0) (c : Nat) : normVal n rtol v c = closedW v c :=
  normVal_of_noscale (Or.inl hg) c

/-- with `rtol = 0` the window is empty: the closed form is the exact normalisation of every game -/
theorem normVal_exact (c : Nat) :
    normVal n (0 : α) v c =
      if closedW v (grand n) = 0 then closedW v c else closedW v c / closedW v (grand n) := by
  have hA : Additive n (0 : α) v ↔ closedW v (grand n) = 0 := by
    unfold Additive
    rw [zero_mul, abs_nonpos_iff]
  by_cases hg : closedW v (grand n) = 0
  · rw [if_pos hg, normVal_of_noscale (Or.inl hg)]
  · rw [if_neg hg, normVal_of_scale hg (fun ha => hg (hA.mp ha))]

/-- every singleton 0 (whatever `rtol` is) -/
theorem normVal_singleton {i : Nat} (hi : i < n) : normVal n rtol v (2 ^ i) = 0 := by
  unfold normVal
  split <;> simp [closedW_singleton hi v]

theorem normVal_empty (h0 : v 0 = 0) : normVal n rtol v 0 = 0 := by
  unfold normVal
  split <;> simp [closedW_empty, h0]

/-- non-negative (whatever `rtol` is) -/
theorem normVal_nonneg (h : SA n v) (h0 : v 0 = 0) {c : Nat} (hc : c < 2 ^ n) : 0 ≤ normVal n rtol v c := by
  unfold normVal
  split
  · exact closedW_nonneg h h0 c hc
  · exact div_nonneg (closedW_nonneg h h0 c hc) (closedW_nonneg h h0 _ (grand_lt n))

/-- superadditive again (whatever `rtol` is: the unscaled `w` is superadditive too) -/
theorem normVal_SA (h : SA n v) (h0 : v 0 = 0) : SA n (normVal n rtol v) := by
  intro a b ha hb hab
  have hsa := closedW_SA h a b ha hb hab
  unfold normVal
  split
  · exact hsa
  · rw [← add_div]
    exact div_le_div_of_nonneg_right hsa (closedW_nonneg h h0 _ (grand_lt n))

/-- every value in [0, 1] — outside the tolerance window -/
theorem normVal_unit (h : SA n v) (h0 : v 0 = 0)
    (how : closedW v (grand n) = 0 ∨ rtol * |∑ i ∈ range n, v (2 ^ i)| < closedW v (grand n))
    {c : Nat} (hc : c < 2 ^ n) :
    0 ≤ normVal n rtol v c ∧ normVal n rtol v c ≤ 1 := by
  refine ⟨normVal_nonneg h h0 hc, ?_⟩
  by_cases hg : closedW v (grand n) = 0
  · rw [normVal_of_eq hg, closedW_zero_of_grand_zero h h0 hg c hc]
    exact zero_le_one
  · have hpos : 0 < closedW v (grand n) :=
      lt_of_le_of_ne (closedW_nonneg h h0 _ (grand_lt n)) (Ne.symm hg)
    rw [normVal_of_ne how hg]
    exact (div_le_one hpos).mpr (closedW_le_grand h h0 hc)

/-- grand coalition 1 — or the game was additive and the result is identically 0 — outside the window -/
theorem normVal_grand (h : SA n v) (h0 : v 0 = 0)
    (how : closedW v (grand n) = 0 ∨ rtol * |∑ i ∈ range n, v (2 ^ i)| < closedW v (grand n)) :
    normVal n rtol v (grand n) = 1 ∨
      (closedW v (grand n) = 0 ∧ ∀ c, c < 2 ^ n → normVal n rtol v c = 0) := by
  by_cases hg : closedW v (grand n) = 0
  · right
    exact ⟨hg, fun c hc => by rw [normVal_of_eq hg, closedW_zero_of_grand_zero h h0 hg c hc]⟩
  · left
    rw [normVal_of_ne how hg, div_self hg]

/-- **C15, first sentence, about the code's own loop.**  For a complete table holding a superadditive game with
    `v ∅ = 0` that is NOT in the tolerance window of the repaired code — `w(N) = 0` (exactly additive) or
    `rtol·|Σ_i v{i}| < w(N)` — `_normalize_icg` succeeds and the resulting (complete) table has every singleton 0,
    every value in [0,1], grand coalition 1 — or is identically 0, which happens exactly in the additive case
    `w(N) = 0` — and is superadditive again.

    The hypothesis `how` cannot be dropped for `rtol > 0`: inside the window `0 < w(N) ≤ rtol·|Σ_i v{i}|` the
    repaired code deliberately treats the surplus as a rounding residue and returns the unscaled `w`, whose
    values lie in `[0, w(N)] ⊆ [0, rtol·|Σ_i v{i}|]` and whose grand value is `w(N)`, neither 1 (unless
    `w(N) = 1` by accident) nor 0 — see `window_behaviour`.  No sign condition on `rtol` is needed. -/
theorem normalize_property (rtol : α) (t : Table α) (hf : FullOn n t) (h : SA n t.lo) (h0 : t.lo 0 = 0)
    (how : closedW t.lo (grand n) = 0 ∨
      rtol * |∑ i ∈ range n, t.lo (2 ^ i)| < closedW t.lo (grand n)) :
    ∃ t', normalizeIcg rtol t = .ok t' ∧ FullOn n t' ∧
      (∀ i, i < n → t'.lo (2 ^ i) = 0) ∧
      (∀ c, c < 2 ^ n → 0 ≤ t'.lo c ∧ t'.lo c ≤ 1) ∧
      (t'.lo (grand n) = 1 ∨ (closedW t.lo (grand n) = 0 ∧ ∀ c, c < 2 ^ n → t'.lo c = 0)) ∧
      SA n t'.lo := by
  obtain ⟨t', hok, hf', hlo⟩ := normalizeIcg_closed rtol t hf
  refine ⟨t', hok, hf', ?_, ?_, ?_, ?_⟩
  · intro i hi
    rw [hlo _ (two_pow_lt_two_pow hi)]; exact normVal_singleton hi
  · intro c hc
    rw [hlo c hc]; exact normVal_unit h h0 how hc
  · rcases normVal_grand (n := n) h h0 how with hg | ⟨hg, hz⟩
    · left; rw [hlo _ (grand_lt n)]; exact hg
    · right; exact ⟨hg, fun c hc => by rw [hlo c hc]; exact hz c hc⟩
  · intro a b ha hb hab
    rw [hlo a ha, hlo b hb, hlo _ (or_lt_two_pow ha hb)]
    exact normVal_SA h h0 a b ha hb hab

/-- **the old, unconditional statement is the case `rtol = 0`** (empty window: `0·|Σ| < w(N)` or `w(N) = 0`
    for every superadditive game). -/
theorem normalize_property_exact (t : Table α) (hf : FullOn n t) (h : SA n t.lo) (h0 : t.lo 0 = 0) :
    ∃ t', normalizeIcg (0 : α) t = .ok t' ∧ FullOn n t' ∧
      (∀ i, i < n → t'.lo (2 ^ i) = 0) ∧
      (∀ c, c < 2 ^ n → 0 ≤ t'.lo c ∧ t'.lo c ≤ 1) ∧
      (t'.lo (grand n) = 1 ∨ (closedW t.lo (grand n) = 0 ∧ ∀ c, c < 2 ^ n → t'.lo c = 0)) ∧
      SA n t'.lo := by
  apply normalize_property (0 : α) t hf h h0
  rcases (closedW_nonneg h h0 _ (grand_lt n)).lt_or_eq with hpos | hz
  · right; rwa [zero_mul]
  · left; exact hz.symm

/-- **inside the tolerance window** `0 < w(N) ≤ rtol·|Σ_i v{i}|` the repaired `_normalize_icg` succeeds and leaves
    the UNSCALED game `w = v − Σ singletons` in the table: every singleton 0, superadditive, every value in
    `[0, w(N)]` and hence in `[0, rtol·|Σ_i v{i}|]` (a "rounding residue" relative to the singleton total), grand
    coalition `w(N)`.  So of the property's clauses only "values ≤ 1" and "grand coalition 1 or identically 0"
    can fail, and the latter holds iff `w(N) = 1`. -/
theorem window_behaviour (rtol : α) (t : Table α) (hf : FullOn n t) (h : SA n t.lo) (h0 : t.lo 0 = 0)
    (hpos : 0 < closedW t.lo (grand n))
    (hwin : closedW t.lo (grand n) ≤ rtol * |∑ i ∈ range n, t.lo (2 ^ i)|) :
    ∃ t', normalizeIcg rtol t = .ok t' ∧ FullOn n t' ∧
      (∀ c, c < 2 ^ n → t'.lo c = closedW t.lo c) ∧
      (∀ i, i < n → t'.lo (2 ^ i) = 0) ∧
      (∀ c, c < 2 ^ n → 0 ≤ t'.lo c ∧ t'.lo c ≤ closedW t.lo (grand n) ∧
        t'.lo c ≤ rtol * |∑ i ∈ range n, t.lo (2 ^ i)|) ∧
      t'.lo (grand n) = closedW t.lo (grand n) ∧
      ((t'.lo (grand n) = 1 ∨ ∀ c, c < 2 ^ n → t'.lo c = 0) ↔ closedW t.lo (grand n) = 1) ∧
      SA n t'.lo := by
  obtain ⟨t', hok, hf', hlo⟩ := normalizeIcg_closed rtol t hf
  have hadd : Additive n rtol t.lo := (additive_iff_le h h0).mpr hwin
  have hW : ∀ c, c < 2 ^ n → t'.lo c = closedW t.lo c := fun c hc => by
    rw [hlo c hc, normVal_of_noscale (Or.inr hadd)]
  have hgr : t'.lo (grand n) = closedW t.lo (grand n) := hW _ (grand_lt n)
  refine ⟨t', hok, hf', hW, ?_, ?_, hgr, ?_, ?_⟩
  · intro i hi
    rw [hW _ (two_pow_lt_two_pow hi)]; exact closedW_singleton hi _
  · intro c hc
    rw [hW c hc]
    exact ⟨closedW_nonneg h h0 c hc, closedW_le_grand h h0 hc, le_trans (closedW_le_grand h h0 hc) hwin⟩
  · rw [hgr]
    constructor
    · rintro (h1 | hz)
      · exact h1
      · have := hz _ (grand_lt n)
        rw [hgr] at this
        exact absurd this hpos.ne'
    · exact Or.inl
  · intro a b ha hb hab
    rw [hW a ha, hW b hb, hW _ (or_lt_two_pow ha hb)]
    exact closedW_SA h a b ha hb hab

end ordered

/-! ## 3. a graph game and its tabulated form normalise to the same values -/

section graph
variable {α : Type} [Field α]

theorem pairs_players_lt {n c : Nat} (hc : c < 2 ^ n) {p : Nat × Nat} (hp : p ∈ pairs (players c)) :
    p.1 < p.2 ∧ p.1 < n ∧ p.2 < n := by
  obtain ⟨h1, h2, h3⟩ := mem_pairs (players_pairwise c) hp
  exact ⟨h3, testBit_lt_of_lt_two_pow hc (mem_players.mp h1), testBit_lt_of_lt_two_pow hc (mem_players.mp h2)⟩

theorem graphValue_singleton (g : GraphGame α) (i : Nat) : graphValue g (2 ^ i) = 0 := by
  simp [graphValue, players_two_pow, pairs, listSum]

/-- a graph game has zero singletons, so the subtraction phase does nothing -/
theorem closedW_graphValue (g : GraphGame α) {c : Nat} (hc : c < 2 ^ g.n) :
    closedW (graphValue g) c = graphValue g c := by
  rw [closedW_eq hc]
  have : bsum g.n (fun i => graphValue g (2 ^ i)) c = 0 := by
    unfold bsum
    apply Finset.sum_eq_zero
    intro i _
    simp [graphValue_singleton]
  rw [this, sub_zero]

theorem listSum_map_div {β} (l : List β) (f : β → α) (d : α) :
    listSum (l.map (fun p => f p / d)) = listSum (l.map f) / d := by
  rw [listSum_eq_sum, listSum_eq_sum]
  simp only [div_eq_mul_inv]
  exact List.sum_map_mul_right ..

theorem listSum_map_mul {β} (l : List β) (f : β → α) (d : α) :
    listSum (l.map (fun p => f p * d)) = listSum (l.map f) * d := by
  rw [listSum_eq_sum, listSum_eq_sum]
  exact List.sum_map_mul_right ..

end graph

section graphOrdered
variable {α : Type} [Field α] [LinearOrder α] [IsStrictOrderedRing α] [DecidableLE α] [DecidableEq α]

omit [DecidableLE α] [DecidableEq α] in
/-- a graph game has zero singletons, so its tolerance window is empty whatever `rtol` is:
    `|w(N)| ≤ rtol · |0|` iff `w(N) = 0` -/
theorem additive_graph_iff (g : GraphGame α) (rtol : α) :
    Additive g.n rtol (graphValue g) ↔ graphValue g (grand g.n) = 0 := by
  unfold Additive
  rw [closedW_graphValue g (grand_lt g.n)]
  have : ∑ i ∈ range g.n, graphValue g (2 ^ i) = 0 :=
    Finset.sum_eq_zero (fun i _ => graphValue_singleton g i)
  rw [this, abs_zero, mul_zero, abs_nonpos_iff]

/-- the closed form on the value table of a graph game does not depend on `rtol` -/
theorem normVal_graph (g : GraphGame α) (rtol : α) {c : Nat} (hc : c < 2 ^ g.n) :
    normVal g.n rtol (graphValue g) c =
      if graphValue g (grand g.n) = 0 then graphValue g c else graphValue g c / graphValue g (grand g.n) := by
  by_cases hz : graphValue g (grand g.n) = 0
  · rw [if_pos hz, normVal_of_noscale (Or.inl (by rw [closedW_graphValue g (grand_lt g.n)]; exact hz)),
      closedW_graphValue g hc]
  · rw [if_neg hz, normVal_of_scale (by rw [closedW_graphValue g (grand_lt g.n)]; exact hz)
        (fun ha => hz ((additive_graph_iff g rtol).mp ha)),
      closedW_graphValue g hc, closedW_graphValue g (grand_lt g.n)]

/-- **graph form = tabulated form.**  The values of the normalised graph game (`_normalize_graph_game` has no
    tolerance guard) are the closed-form normalisation of its value table, for every `rtol` … -/
theorem graphValue_normalizeGraph (rtol : α) (g : GraphGame α) {c : Nat} (hc : c < 2 ^ g.n) :
    graphValue (normalizeGraph g) c = normVal g.n rtol (graphValue g) c := by
  rw [normVal_graph g rtol hc]
  unfold normalizeGraph
  by_cases hz : graphValue g (grand g.n) = 0
  · simp [hz]
  · simp only [hz, if_false]
    show listSum ((pairs (players c)).map _) = _
    have : (pairs (players c)).map (fun p =>
        (if p.1 < g.n ∧ p.2 < g.n then (if p.2 ≤ p.1 then 0 else g.m p.1 p.2) / graphValue g (grand g.n)
          else g.m p.1 p.2)) =
        (pairs (players c)).map (fun p => g.m p.1 p.2 / graphValue g (grand g.n)) := by
      apply List.map_congr_left
      intro p hp
      obtain ⟨h1, h2, h3⟩ := pairs_players_lt hc hp
      have : ¬ p.2 ≤ p.1 := by omega
      simp [h2, h3, this]
    rw [this, listSum_map_div]
    rfl

/-- … which is what the repaired `_normalize_icg` leaves in the table holding the graph game's values. -/
theorem graph_and_table_agree (rtol : α) (g : GraphGame α) :
    ∃ t', normalizeIcg rtol (fullTable g.n (graphValue g)) = .ok t' ∧ FullOn g.n t' ∧
      ∀ c, c < 2 ^ g.n → t'.lo c = graphValue (normalizeGraph g) c := by
  obtain ⟨t', hok, hf, hlo⟩ := normalizeIcg_closed rtol _ (fullOn_fullTable g.n (graphValue g))
  exact ⟨t', hok, hf, fun c hc => by rw [hlo c hc, graphValue_normalizeGraph rtol g hc]; rfl⟩

end graphOrdered

section graph
variable {α : Type} [Field α]

theorem normInfoGraph_eq (g : GraphGame α) :
    normInfoGraph g = (graphValue g (grand g.n), (List.range g.n).map (fun _ => (0 : α))) := by
  have hs : (singletons g.n).map (graphValue g) = (List.range g.n).map (fun _ => (0 : α)) := by
    simp only [singletons, List.map_map]
    apply List.map_congr_left
    intro i _
    exact graphValue_singleton g i
  unfold normInfoGraph
  simp only [hs]
  rw [listSum_range_map]
  simp

/-- the returned information is the same in both representations -/
theorem normInfo_graph_table (g : GraphGame α) :
    normInfo (fullTable g.n (graphValue g)) = .ok (normInfoGraph g) := by
  rw [normInfo_closed _ (fullOn_fullTable g.n (graphValue g)), normInfoGraph_eq]
  show Except.ok (closedW (graphValue g) (grand g.n), _) = _
  rw [closedW_graphValue g (grand_lt g.n)]
  congr 2
  apply List.map_congr_left
  intro i _
  exact graphValue_singleton g i

end graph

/-! ## 4. de-normalising with the returned information restores the game -/

section denorm
variable {α : Type} [Field α]

theorem inner_fold (sv : List α) (s : Nat → α) :
    ∀ (l : List Nat) (init : α), (∀ i ∈ l, sv[i]? = some (s i)) →
      l.foldlM (fun (v : α) i => match sv[i]? with
        | some x => (pure (v + x) : Except Err α)
        | none => throw Err.index) init = .ok (init + listSum (l.map s)) := by
  intro l
  induction l with
  | nil => intro init _; simp [listSum, pure, Except.pure]
  | cons a l ih =>
    intro init h
    have := ih (init + s a) (fun i hi => h i (by simp [hi]))
    rw [List.foldlM_cons, h a (by simp)]
    simp only [pure, Except.pure, bind, Except.bind] at this ⊢
    rw [this, listSum_eq_sum, listSum_eq_sum, List.map_cons, List.sum_cons, add_assoc]

/-- `denormalize_game` on a complete table with enough singleton values: `value · g + Σ_{i∈c} s_i` -/
theorem denormalize_spec {n : Nat} (t : Table α) (hf : FullOn n t) (g : α) (sv : List α) (s : Nat → α)
    (hsv : ∀ i, i < n → sv[i]? = some (s i)) :
    ∃ t', denormalize t (g, sv) = .ok t' ∧ FullOn n t' ∧
      ∀ c, c < 2 ^ n → t'.lo c = t.lo c * g + bsum n s c := by
  obtain ⟨hn, hk, hh⟩ := hf
  have hrows : t.rows = 2 ^ n := by simp [Table.rows, hn]
  obtain ⟨t', hfold, hn', hkn, hin, _⟩ := foldlM_rows
    (fun (u : Table α) c => do
      let v ← u.getValue c
      let v ← (players c).foldlM (fun (v : α) i =>
        match sv[i]? with
        | some x => (pure (v + x) : Except Err α)
        | none => throw Err.index) (v * g)
      u.setValue v c)
    (fun c x => x * g + bsum n s c)
    (allCoalitions t.n) t (List.nodup_range (n := 2 ^ t.n))
    (by
      intro c hc
      simp only [allCoalitions, List.mem_range, hn] at hc
      exact ⟨by rw [hrows]; exact hc, hk c hc⟩)
    (by
      intro u c hc hcr hkc
      simp only [allCoalitions, List.mem_range, hn] at hc
      have hin := inner_fold sv s (players c) (u.lo c * g)
        (fun i hi => hsv i (testBit_lt_of_lt_two_pow hc (mem_players.mp hi)))
      simp only [Table.getValue, hcr, hkc, if_true, bind, Except.bind]
      rw [hin, listSum_players hc]
      simp [Table.setValue, hcr])
  refine ⟨t', hfold, ⟨by rw [hn', hn], fun c hc => hkn c (hk c hc), ?_⟩, ?_⟩
  · intro c hc
    have hm : c ∈ allCoalitions t.n := by simp [allCoalitions, hn, hc]
    rw [(hin c hm).2.1, (hin c hm).2.2]
  · intro c hc
    have hm : c ∈ allCoalitions t.n := by simp [allCoalitions, hn, hc]
    exact (hin c hm).2.1

end denorm

section roundtrip
variable {α : Type} [Field α] [LinearOrder α] [IsStrictOrderedRing α] [DecidableLE α] [DecidableEq α]

omit [IsStrictOrderedRing α] in
/-- `denormalize_game ∘ normalize_game` on a complete table, in closed form and for every `rtol`: both calls
    succeed, the returned information is `(w(N), singleton values)`, and the restored value of `c` is
    `normVal c · w(N) + Σ_{i∈c} v{i}`. -/
theorem denormalize_normalize_closed {n : Nat} (rtol : α) (t : Table α) (hf : FullOn n t) :
    ∃ t' t'', normalizeGame rtol t =
        .ok ((closedW t.lo (grand n), (List.range n).map (fun i => t.lo (2 ^ i))), t') ∧
      denormalize t' (closedW t.lo (grand n), (List.range n).map (fun i => t.lo (2 ^ i))) = .ok t'' ∧
      FullOn n t'' ∧
      ∀ c, c < 2 ^ n → t''.lo c =
        normVal n rtol t.lo c * closedW t.lo (grand n) + bsum n (fun i => t.lo (2 ^ i)) c := by
  obtain ⟨t', hok, hf', hlo⟩ := normalizeIcg_closed rtol t hf
  have hinfo := normInfo_closed t hf
  obtain ⟨t'', hden, hf'', hlo''⟩ := denormalize_spec t' hf' (closedW t.lo (grand n))
    ((List.range n).map (fun i => t.lo (2 ^ i))) (fun i => t.lo (2 ^ i))
    (by intro i hi; simp [hi])
  refine ⟨t', t'', ?_, hden, hf'', ?_⟩
  · unfold normalizeGame
    rw [hinfo]
    simp only [bind, Except.bind]
    rw [hok]; rfl
  · intro c hc
    rw [hlo'' c hc, hlo c hc]

/-- **de-normalising restores the game — outside the tolerance window.**  `normalize_game` on a complete
    superadditive table with `w(N) = 0 ∨ rtol·|Σ_i v{i}| < w(N)` succeeds and returns `(info, normalised table)`;
    `denormalize_game` with that info succeeds and restores every value — in the scaling branch (`w(N) ≠ 0`) and
    in the exactly additive branch (`w(N) = 0`, where the stored grand value is 0 and `value·0 + Σ singletons` is
    the original value because the game is additive).  Inside the window the statement is FALSE unless
    `w(N) = 1`: see `denormalize_window` and the concrete instance `exWin` in section 5. -/
theorem denormalize_normalize {n : Nat} (rtol : α) (t : Table α) (hf : FullOn n t) (h : SA n t.lo)
    (h0 : t.lo 0 = 0)
    (how : closedW t.lo (grand n) = 0 ∨
      rtol * |∑ i ∈ range n, t.lo (2 ^ i)| < closedW t.lo (grand n)) :
    ∃ info t' t'', normalizeGame rtol t = .ok (info, t') ∧ denormalize t' info = .ok t'' ∧ FullOn n t'' ∧
      ∀ c, c < 2 ^ n → t''.lo c = t.lo c := by
  obtain ⟨t', t'', hnorm, hden, hf'', hlo''⟩ := denormalize_normalize_closed rtol t hf
  refine ⟨_, t', t'', hnorm, hden, hf'', ?_⟩
  intro c hc
  rw [hlo'' c hc]
  by_cases hg : closedW t.lo (grand n) = 0
  · rw [normVal_of_eq hg, closedW_zero_of_grand_zero h h0 hg c hc, zero_mul, zero_add]
    exact (additive_of_grand_zero h h0 hg c hc).symm
  · rw [normVal_of_ne how hg, div_mul_cancel₀ _ hg, closedW_eq hc, sub_add_cancel]

/-- the old, unconditional round trip is the case `rtol = 0` -/
theorem denormalize_normalize_exact {n : Nat} (t : Table α) (hf : FullOn n t) (h : SA n t.lo)
    (h0 : t.lo 0 = 0) :
    ∃ info t' t'', normalizeGame (0 : α) t = .ok (info, t') ∧ denormalize t' info = .ok t'' ∧ FullOn n t'' ∧
      ∀ c, c < 2 ^ n → t''.lo c = t.lo c := by
  apply denormalize_normalize (0 : α) t hf h h0
  rcases (closedW_nonneg h h0 _ (grand_lt n)).lt_or_eq with hpos | hz
  · right; rwa [zero_mul]
  · left; exact hz.symm

/-- **inside the tolerance window the round trip is not exact.**  With `0 < w(N) ≤ rtol·|Σ_i v{i}|` both calls
    still succeed, but the table holds the unscaled `w` while the returned information still says "scaled by
    `w(N)`", so `denormalize_game` produces `w c · w(N) + Σ_{i∈c} v{i} = v c + w c · (w(N) − 1)`.  The error at
    `c` is `w c · (w(N) − 1)`, at most `w(N)·|w(N) − 1|` in absolute value, and the game is restored iff
    `w(N) = 1`.  (For a float rounding residue `w(N) ≈ 1e-17` the error is far below rounding; for a game with
    huge singletons and a genuine surplus `1 < w(N) ≤ 1e-9·|Σ|` it is not.) -/
theorem denormalize_window {n : Nat} (rtol : α) (t : Table α) (hf : FullOn n t) (h : SA n t.lo)
    (h0 : t.lo 0 = 0) (hpos : 0 < closedW t.lo (grand n))
    (hwin : closedW t.lo (grand n) ≤ rtol * |∑ i ∈ range n, t.lo (2 ^ i)|) :
    ∃ info t' t'', normalizeGame rtol t = .ok (info, t') ∧ denormalize t' info = .ok t'' ∧ FullOn n t'' ∧
      (∀ c, c < 2 ^ n → t''.lo c = t.lo c + closedW t.lo c * (closedW t.lo (grand n) - 1)) ∧
      (∀ c, c < 2 ^ n → |t''.lo c - t.lo c| ≤ closedW t.lo (grand n) * |closedW t.lo (grand n) - 1|) ∧
      ((∀ c, c < 2 ^ n → t''.lo c = t.lo c) ↔ closedW t.lo (grand n) = 1) := by
  obtain ⟨t', t'', hnorm, hden, hf'', hlo''⟩ := denormalize_normalize_closed rtol t hf
  have hadd : Additive n rtol t.lo := (additive_iff_le h h0).mpr hwin
  have hval : ∀ c, c < 2 ^ n → t''.lo c = t.lo c + closedW t.lo c * (closedW t.lo (grand n) - 1) := by
    intro c hc
    rw [hlo'' c hc, normVal_of_noscale (Or.inr hadd), closedW_eq hc]
    ring
  refine ⟨_, t', t'', hnorm, hden, hf'', hval, ?_, ?_⟩
  · intro c hc
    rw [hval c hc, add_sub_cancel_left, abs_mul, abs_of_nonneg (closedW_nonneg h h0 c hc)]
    exact mul_le_mul_of_nonneg_right (closedW_le_grand h h0 hc) (abs_nonneg _)
  · constructor
    · intro hall
      have := hall _ (grand_lt n)
      rw [hval _ (grand_lt n)] at this
      have hm : closedW t.lo (grand n) * (closedW t.lo (grand n) - 1) = 0 := by linarith
      rcases mul_eq_zero.mp hm with hz | h1
      · exact absurd hz hpos.ne'
      · linarith
    · intro h1 c hc
      rw [hval c hc, h1, sub_self, mul_zero, add_zero]

/-- the graph representation: `_denormalize_graph_game ∘ _normalize_graph_game` restores every value of a
    superadditive graph game -/
theorem graph_denormalize_normalize (g : GraphGame α) (h : SA g.n (graphValue g)) {c : Nat} (hc : c < 2 ^ g.n) :
    graphValue (denormalizeGraph (normalizeGraph g) (normInfoGraph g)) c = graphValue g c := by
  rw [normInfoGraph_eq]
  have hn : (normalizeGraph g).n = g.n := by
    unfold normalizeGraph; dsimp only; split <;> rfl
  have key : ∀ p ∈ pairs (players c),
      (denormalizeGraph (normalizeGraph g) (graphValue g (grand g.n), (List.range g.n).map (fun _ => (0 : α)))).m p.1 p.2
        = (normalizeGraph g).m p.1 p.2 * graphValue g (grand g.n) := by
    intro p hp
    obtain ⟨_, h2, h3⟩ := pairs_players_lt hc hp
    simp [denormalizeGraph, hn, h2, h3]
  have e : ∀ (G : GraphGame α), graphValue G c = listSum ((pairs (players c)).map (fun p => G.m p.1 p.2)) :=
    fun _ => rfl
  rw [e (denormalizeGraph _ _), List.map_congr_left key, listSum_map_mul, ← e (normalizeGraph g)]
  rw [graphValue_normalizeGraph (0 : α) g hc, normVal_graph g (0 : α) hc]
  have h0 : graphValue g 0 = 0 := by simp [graphValue, players, playersFrom, pairs, listSum]
  by_cases hg : graphValue g (grand g.n) = 0
  · have hz := closedW_zero_of_grand_zero h h0
      (by rw [closedW_graphValue g (grand_lt g.n)]; exact hg) c hc
    rw [closedW_graphValue g hc] at hz
    rw [if_pos hg, hg, mul_zero, hz]
  · rw [if_neg hg]
    exact div_mul_cancel₀ _ hg

end roundtrip

/-! ## 5. the hypotheses are satisfiable; the model computes what the theorems say (concrete instances over ℚ) -/

section examples

/-- a superadditive 2-player game with non-zero singletons: v = [0, 1, 2, 7] -/
def exV : Nat → ℚ := fun c => if c = 3 then 7 else if c = 2 then 2 else if c = 1 then 1 else 0

/-- an additive game with a negative singleton: v = [0, -1, 2, 1] -/
def exAdd : Nat → ℚ := fun c => if c = 3 then 1 else if c = 2 then 2 else if c = 1 then -1 else 0

theorem exV_SA : SA 2 exV := by
  intro a b ha hb hab
  have ha' : a < 4 := ha
  have hb' : b < 4 := hb
  interval_cases a <;> interval_cases b <;> simp_all [exV] <;> norm_num

theorem exAdd_SA : SA 2 exAdd := by
  intro a b ha hb hab
  have ha' : a < 4 := ha
  have hb' : b < 4 := hb
  interval_cases a <;> interval_cases b <;> simp_all [exAdd] <;> norm_num

/-- a superadditive 2-player game inside the tolerance window of the code's own `rtol = 1e-9`:
    singletons 2^40, surplus 2^10, `w(N)/|Σ| = 2^-31 ≈ 4.7e-10`: v = [0, 2^40, 2^40, 2^41 + 2^10] -/
def exWin : Nat → ℚ := fun c =>
  if c = 3 then 2199023256576 else if c = 2 then 1099511627776 else if c = 1 then 1099511627776 else 0

theorem exWin_SA : SA 2 exWin := by
  intro a b ha hb hab
  have ha' : a < 4 := ha
  have hb' : b < 4 := hb
  interval_cases a <;> interval_cases b <;> simp_all [exWin] <;> norm_num

theorem sum_range_two (f : Nat → ℚ) : ∑ i ∈ range 2, f (2 ^ i) = f 1 + f 2 := by
  simp [Finset.sum_range_succ]

theorem exV_surplus : closedW exV (grand 2) = 4 := by decide +kernel
theorem exAdd_surplus : closedW exAdd (grand 2) = 0 := by decide +kernel
theorem exWin_surplus : closedW exWin (grand 2) = 1024 := by decide +kernel

/-- `exV` is outside the window of the code's `rtol` (4 > 1e-9 · 3), `exAdd` is exactly additive, -/
theorem exV_out : closedW exV (grand 2) = 0 ∨
    defaultRtol * |∑ i ∈ range 2, exV (2 ^ i)| < closedW exV (grand 2) := by
  right
  rw [exV_surplus, sum_range_two]
  norm_num [exV, defaultRtol]

theorem exAdd_out : closedW exAdd (grand 2) = 0 ∨
    defaultRtol * |∑ i ∈ range 2, exAdd (2 ^ i)| < closedW exAdd (grand 2) := Or.inl exAdd_surplus

/-- and `exWin` is inside it: 0 < 1024 ≤ 1e-9 · 2^41 ≈ 2199.02. -/
theorem exWin_in : 0 < closedW exWin (grand 2) ∧
    closedW exWin (grand 2) ≤ defaultRtol * |∑ i ∈ range 2, exWin (2 ^ i)| := by
  rw [exWin_surplus, sum_range_two]
  norm_num [exWin, defaultRtol]

/-- `normalize_property` and `denormalize_normalize` apply to `exV` with the code's `rtol` … -/
example : ∃ t', normalizeIcg defaultRtol (fullTable 2 exV) = .ok t' ∧ FullOn 2 t' ∧ SA 2 t'.lo := by
  obtain ⟨t', h1, h2, _, _, _, h6⟩ :=
    normalize_property defaultRtol (fullTable 2 exV) (fullOn_fullTable 2 exV) exV_SA (by simp [fullTable, exV])
      exV_out
  exact ⟨t', h1, h2, h6⟩

example : ∃ info t' t'', normalizeGame defaultRtol (fullTable 2 exV) = .ok (info, t') ∧
    denormalize t' info = .ok t'' ∧ ∀ c, c < 2 ^ 2 → t''.lo c = exV c := by
  obtain ⟨info, t', t'', h1, h2, _, h4⟩ :=
    denormalize_normalize defaultRtol (fullTable 2 exV) (fullOn_fullTable 2 exV) exV_SA
      (by simp [fullTable, exV]) exV_out
  exact ⟨info, t', t'', h1, h2, h4⟩

/-- … `window_behaviour` and `denormalize_window` apply to `exWin` (their hypotheses are satisfiable): the
    grand coalition of the result is 1024, not 1, and the round trip does not restore the game, -/
example : ∃ t', normalizeIcg defaultRtol (fullTable 2 exWin) = .ok t' ∧ t'.lo (grand 2) = 1024 ∧
    ¬ (t'.lo (grand 2) = 1 ∨ ∀ c, c < 2 ^ 2 → t'.lo c = 0) := by
  obtain ⟨t', h1, _, _, _, _, h6, h7, _⟩ :=
    window_behaviour defaultRtol (fullTable 2 exWin) (fullOn_fullTable 2 exWin) exWin_SA
      (by simp [fullTable, exWin]) exWin_in.1 exWin_in.2
  refine ⟨t', h1, by rw [h6]; exact exWin_surplus, fun hh => ?_⟩
  have := h7.mp hh
  rw [show (fullTable 2 exWin).lo = exWin from rfl, exWin_surplus] at this
  norm_num at this

example : ∃ info t' t'', normalizeGame defaultRtol (fullTable 2 exWin) = .ok (info, t') ∧
    denormalize t' info = .ok t'' ∧ ¬ ∀ c, c < 2 ^ 2 → t''.lo c = exWin c := by
  obtain ⟨info, t', t'', h1, h2, _, _, _, h6⟩ :=
    denormalize_window defaultRtol (fullTable 2 exWin) (fullOn_fullTable 2 exWin) exWin_SA
      (by simp [fullTable, exWin]) exWin_in.1 exWin_in.2
  refine ⟨info, t', t'', h1, h2, fun hh => ?_⟩
  have := h6.mp hh
  rw [show (fullTable 2 exWin).lo = exWin from rfl, exWin_surplus] at this
  norm_num at this

/-- … and the model, run by the kernel, gives [0, 0, 0, 1] with info (4, [1, 2]) (scaling branch), -/
example : (match normalizeGame defaultRtol (fullTable 2 exV) with
    | .ok (info, t) => (info, (allCoalitions 2).map t.lo, (allCoalitions 2).map t.hi)
    | .error _ => ((0, []), [], [])) = ((4, [1, 2]), [0, 0, 0, 1], [0, 0, 0, 1]) := by decide +kernel

/-- the additive branch: surplus 0, nothing is divided, the result is identically 0, -/
example : (match normalizeGame defaultRtol (fullTable 2 exAdd) with
    | .ok (info, t) => (info, (allCoalitions 2).map t.lo)
    | .error _ => ((0, []), [])) = ((0, [-1, 2]), [0, 0, 0, 0]) := by decide +kernel

/-- and de-normalising restores both games. -/
example : (match normalizeGame defaultRtol (fullTable 2 exV) with
    | .ok (info, t) => (match denormalize t info with
        | .ok t' => (allCoalitions 2).map t'.lo
        | .error _ => [])
    | .error _ => []) = [0, 1, 2, 7] := by decide +kernel

example : (match normalizeGame defaultRtol (fullTable 2 exAdd) with
    | .ok (info, t) => (match denormalize t info with
        | .ok t' => (allCoalitions 2).map t'.lo
        | .error _ => [])
    | .error _ => []) = [0, -1, 2, 1] := by decide +kernel

/-- **the window, run by the kernel with the code's own `rtol = 1e-9`:** `exWin` is returned unscaled with
    info (2^10, [2^40, 2^40]) … -/
example : (match normalizeGame defaultRtol (fullTable 2 exWin) with
    | .ok (info, t) => (info, (allCoalitions 2).map t.lo, (allCoalitions 2).map t.hi)
    | .error _ => ((0, []), [], [])) =
    ((1024, [1099511627776, 1099511627776]), [0, 0, 0, 1024], [0, 0, 0, 1024]) := by decide +kernel

/-- … and `denormalize_game` with that info yields v(N) = 2^41 + 2^20, not the original 2^41 + 2^10:
    **the round trip fails inside the window** (the real code does the same: 2199024304128.0). -/
example : (match normalizeGame defaultRtol (fullTable 2 exWin) with
    | .ok (info, t) => (match denormalize t info with
        | .ok t' => (allCoalitions 2).map t'.lo
        | .error _ => [])
    | .error _ => []) = [0, 1099511627776, 1099511627776, 2199024304128] := by decide +kernel

example : (2199024304128 : ℚ) ≠ exWin 3 := by decide +kernel

/-- the same game with `rtol = 0` (no window) is scaled and restored exactly -/
example : (match normalizeGame (0 : ℚ) (fullTable 2 exWin) with
    | .ok (info, t) => (match denormalize t info with
        | .ok t' => ((allCoalitions 2).map t.lo, (allCoalitions 2).map t'.lo)
        | .error _ => ([], []))
    | .error _ => ([], [])) = ([0, 0, 0, 1], [0, 1099511627776, 1099511627776, 2199023256576]) := by
  decide +kernel

/-- the driver's constant is the exact value of the float `1e-9` (`Fraction(1e-9)`): 4835703278458517 / 2^82,
    and it lies within half an ulp of 10^-9 -/
example : defaultRtol = 4835703278458517 / 2 ^ 82 := by decide +kernel
example : |defaultRtol - 1 / 10 ^ 9| < 1 / 10 ^ 25 := by decide +kernel

/-- the theorems specialise to the model exactly as the driver runs it: core `Rat` with the core instances
    (`Rat.instMax = maxOfLe`, core `≤` and its decision procedure), not Mathlib's -/
example (t : Table Rat) (hf : FullOn 2 t) :
    ∃ t', @normalizeIcg Rat Rat.instAdd Rat.instSub Rat.instMul Rat.instDiv Rat.instNeg Rat.instMax ⟨0⟩ Rat.instLE
        Rat.instDecidableLe instDecidableEqRat defaultRtol t = .ok t' ∧ FullOn 2 t' :=
  let ⟨t', h, hf', _⟩ := normalizeIcg_closed defaultRtol t hf
  ⟨t', h, hf'⟩

/-- an incomplete table is rejected the way the code rejects it (ValueError of `get_value`) -/
example : (match normalizeGame defaultRtol (Table.init (α := ℚ) 2) with
    | .ok _ => none | .error e => some e) = some Err.value := by
  decide +kernel

/-- a graph game (weights 1, 2, 5 above the diagonal, junk below) and its table: same normalised values -/
def exG : GraphGame ℚ := GraphGame.ofMatrix 3 (fun r c => if r = 0 ∧ c = 1 then 1 else if r = 0 ∧ c = 2 then 2
  else if r = 1 ∧ c = 2 then 5 else if c ≤ r then 9 else 0)

example : graphValues (normalizeGraph exG) = [0, 0, 0, 1/8, 0, 1/4, 5/8, 1] := by decide +kernel

example : (match normalizeIcg defaultRtol (fullTable 3 (graphValue exG)) with
    | .ok t => (allCoalitions 3).map t.lo
    | .error _ => []) = graphValues (normalizeGraph exG) := by decide +kernel

example : graphValues (denormalizeGraph (normalizeGraph exG) (normInfoGraph exG)) = graphValues exG := by
  decide +kernel

end examples

end ICG.C15
