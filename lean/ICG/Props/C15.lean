/-
  Property C15 — normalisation.
  "Normalising any game that the library itself accepts as superadditive yields a game with every singleton 0,
   every value in [0,1] and grand coalition 1 (or identically 0 when the game is additive), which is again
   superadditive; a graph game and its tabulated form normalise to the same values; and de-normalising with the
   returned information restores the original values (to float rounding)."

  Theorems about ICG.Model.Normalize (the model of normalize.py / graph_game.py), for every number of players
  and every ordered field (so ℚ — the driver's instance —, the dyadic rationals inside ℚ, and ℝ at once).
  Float rounding is outside these theorems (DESIGN 3.3); the float sub-stream of `corr_normalize` covers it.

  The repaired `_normalize_icg` (commit "fix: an additive game normalises to zero instead of being scaled by its
  rounding residue") treats a game as additive when `np.isclose(surplus + Σ, Σ, rtol = 1e-9, atol = 0)`, i.e.
  (exact arithmetic) when `|w(N)| ≤ rtol · |Σ_i v{i}|` (`Additive`), and then stores the identically-zero game.
  `rtol` is a parameter of the model and of every theorem here.  Consequences, all proved below:
    * for EVERY `rtol` the normal form of a superadditive game has singletons 0, values in [0,1], is superadditive,
      and its grand coalition is 1 unless the game is (exactly or up to `rtol`) additive, in which case the normal
      form is identically 0 (`normalize_property`, `normalize_property_tol`); with `rtol = 0` this is the old
      statement (`normalize_property_exact`);
    * inside the tolerance window `0 < w(N) ≤ rtol·|Σ_i v{i}|` the normal form is identically 0 although the game
      is not additive (`window_behaviour`): what is discarded is `w`, with `0 ≤ w c ≤ w(N) ≤ rtol·|Σ_i v{i}|`;
    * `denormalize_game` with the returned information restores the game exactly outside the window
      (`denormalize_normalize`, `denormalize_normalize_exact`) and yields `v c − w c` inside it
      (`denormalize_window`), so in every case `|restored − v| ≤ rtol·|Σ_i v{i}|` (`denormalize_normalize_bound`);
    * a graph game has zero singletons, so for its table the window is empty whatever `rtol` is.
-/
import ICG.Model.Normalize
import ICG.Spec.Bounds
import ICG.Lemmas.NormFacts
import Mathlib.Algebra.BigOperators.Ring.List
import Mathlib.Algebra.Order.Ring.Rat
import Mathlib.Algebra.Field.Rat
import Mathlib.Tactic.NormNum
import Mathlib.Tactic.Ring
import Mathlib.Tactic.IntervalCases

set_option linter.unusedSectionVars false

namespace ICG.C15
open ICG ICG.Norm Finset

/-! ## 1. the in-place loop of `_normalize_icg` computes the closed form (any field, no order needed) -/

section inplace
variable {α : Type} [Field α]

/-- the table is complete on `n` players and its two bound columns agree (what `set_values(values)` gives) -/
structure FullOn (n : Nat) (t : Table α) : Prop where
  n_eq : t.n = n
  known : ∀ c, c < 2 ^ n → t.known c = true
  hi_eq : ∀ c, c < 2 ^ n → t.hi c = t.lo c

omit [Field α] in
theorem fullOn_fullTable (n : Nat) (v : Nat → α) : FullOn n (fullTable n v) :=
  ⟨rfl, fun c hc => by simp [fullTable, hc], fun _ _ => rfl⟩

theorem closedW_eq {n c : Nat} (hc : c < 2 ^ n) (v : Nat → α) :
    closedW v c = v c - bsum n (fun i => v (2 ^ i)) c := by
  unfold closedW
  rw [listSum_players hc]
  rfl

theorem mem_meet {n i c : Nat} :
    c ∈ (allCoalitions n).filter (fun x => inter x (singleton i) != 0) ↔ c < 2 ^ n ∧ c.testBit i = true := by
  simp only [allCoalitions, List.mem_filter, List.mem_range, inter, singleton]
  rw [Nat.and_comm, two_pow_and_ne_zero_iff]

/-- one pass of the outer loop: the singleton's current value is subtracted from every coalition containing it -/
theorem subSingleton_spec {n : Nat} (t : Table α) (i : Nat) (hi : i < n) (hf : FullOn n t) :
    ∃ t', subSingleton t i = .ok t' ∧ FullOn n t' ∧
      ∀ c, c < 2 ^ n → t'.lo c = t.lo c - (if c.testBit i then t.lo (2 ^ i) else 0) := by
  obtain ⟨hn, hk, hh⟩ := hf
  have hrows : t.rows = 2 ^ n := by simp [Table.rows, hn]
  have hsi : (2 : Nat) ^ i < 2 ^ n := two_pow_lt_two_pow hi
  have hget : t.getValue (singleton i) = .ok (t.lo (2 ^ i)) := by
    simp [Table.getValue, singleton, hrows, hsi, hk _ hsi]
  obtain ⟨t', hfold, hn', hkn, hin, hout⟩ := foldlM_rows
    (fun (u : Table α) c => do
      let v ← u.getValue c
      u.setValue (v - t.lo (2 ^ i)) c)
    (fun _ x => x - t.lo (2 ^ i))
    ((allCoalitions t.n).filter (fun x => inter x (singleton i) != 0)) t
    ((List.nodup_range (n := 2 ^ t.n)).filter _)
    (by
      intro c hc
      rw [hn] at hc
      have := mem_meet.mp hc
      exact ⟨by rw [hrows]; exact this.1, hk c this.1⟩)
    (by
      intro t' c _ hc hkc
      simp [Table.getValue, Table.setValue, hc, hkc, bind, Except.bind])
  refine ⟨t', ?_, ⟨by rw [hn', hn], ?_, ?_⟩, ?_⟩
  · unfold subSingleton
    rw [hget]
    simp only [bind, Except.bind] at hfold ⊢
    simpa using hfold
  · intro c hc
    exact hkn c (hk c hc)
  · intro c hc
    by_cases hb : c.testBit i = true
    · have hm : c ∈ (allCoalitions t.n).filter (fun x => inter x (singleton i) != 0) := by
        rw [hn]; exact mem_meet.mpr ⟨hc, hb⟩
      rw [(hin c hm).2.1, (hin c hm).2.2]
    · have hm : c ∉ (allCoalitions t.n).filter (fun x => inter x (singleton i) != 0) := by
        rw [hn]; exact fun h => hb (mem_meet.mp h).2
      rw [(hout c hm).2.1, (hout c hm).2.2]; exact hh c hc
  · intro c hc
    by_cases hb : c.testBit i = true
    · have hm : c ∈ (allCoalitions t.n).filter (fun x => inter x (singleton i) != 0) := by
        rw [hn]; exact mem_meet.mpr ⟨hc, hb⟩
      rw [(hin c hm).2.1]; simp [hb]
    · have hm : c ∉ (allCoalitions t.n).filter (fun x => inter x (singleton i) != 0) := by
        rw [hn]; exact fun h => hb (mem_meet.mp h).2
      rw [(hout c hm).2.1]; simp [hb]

/-- the outer loop over the first `k` singletons -/
theorem subAll_spec {n : Nat} : ∀ (k : Nat) (t : Table α), k ≤ n → FullOn n t →
    ∃ t', (List.range k).foldlM subSingleton t = .ok t' ∧ FullOn n t' ∧
      ∀ c, c < 2 ^ n → t'.lo c = t.lo c - ∑ i ∈ range k, if c.testBit i then t.lo (2 ^ i) else 0 := by
  intro k
  induction k with
  | zero =>
    intro t _ hf
    exact ⟨t, rfl, hf, fun c _ => by simp⟩
  | succ k ih =>
    intro t hk hf
    obtain ⟨t1, h1, hf1, hlo1⟩ := ih t (by omega) hf
    obtain ⟨t2, h2, hf2, hlo2⟩ := subSingleton_spec t1 k (by omega) hf1
    refine ⟨t2, ?_, hf2, ?_⟩
    · rw [List.range_succ, List.foldlM_append, h1]
      simp only [bind, Except.bind, List.foldlM_cons, List.foldlM_nil]
      rw [h2]; rfl
    · intro c hc
      have hsk : (2 : Nat) ^ k < 2 ^ n := two_pow_lt_two_pow (by omega)
      have hsv : t1.lo (2 ^ k) = t.lo (2 ^ k) := by
        rw [hlo1 _ hsk]
        have : ∑ i ∈ range k, (if (2 ^ k).testBit i then t.lo (2 ^ i) else 0) = 0 := by
          apply Finset.sum_eq_zero
          intro i hi
          have hne : ¬ k = i := by have := Finset.mem_range.mp hi; omega
          simp [hne]
        rw [this, sub_zero]
      rw [hlo2 c hc, hlo1 c hc, hsv, Finset.sum_range_succ, sub_sub]

/-- the whole subtraction phase of `_normalize_icg`, and the read of the grand coalition that follows it -/
theorem subtraction_phase {n : Nat} (t : Table α) (hf : FullOn n t) :
    ∃ t1, (List.range t.n).foldlM subSingleton t = .ok t1 ∧ FullOn n t1 ∧
      (∀ c, c < 2 ^ n → t1.lo c = closedW t.lo c) ∧
      t1.getValue (grand t1.n) = .ok (closedW t.lo (grand n)) := by
  obtain ⟨t1, h1, hf1, hlo1⟩ := subAll_spec n t (le_refl n) hf
  have hW : ∀ c, c < 2 ^ n → t1.lo c = closedW t.lo c := by
    intro c hc
    rw [hlo1 c hc, closedW_eq hc]; rfl
  refine ⟨t1, by rw [hf.n_eq]; exact h1, hf1, hW, ?_⟩
  have hlt := grand_lt n
  simp [Table.getValue, Table.rows, hf1.n_eq, hlt, hf1.known _ hlt, hW _ hlt]

/-- `_get_norminfo` on a complete table: `(w(N), the singleton values in player order)` -/
theorem normInfo_closed {n : Nat} (t : Table α) (hf : FullOn n t) :
    normInfo t = .ok (closedW t.lo (grand n), (List.range n).map (fun i => t.lo (2 ^ i))) := by
  have hs : ∀ i, i < n → (2 : Nat) ^ i < 2 ^ n := fun i hi => two_pow_lt_two_pow hi
  have hvals : t.getValues (some (singletons t.n)) = .ok ((List.range n).map (fun i => t.lo (2 ^ i))) := by
    have h1 : (singletons n).all (· < t.rows) = true := by
      simp only [singletons, List.all_map, List.all_eq_true, List.mem_range, Function.comp]
      intro i hi; simp [Table.rows, hf.n_eq, singleton, hs i hi]
    have h2 : (singletons n).all t.known = true := by
      simp only [singletons, List.all_map, List.all_eq_true, List.mem_range, Function.comp]
      intro i hi; exact hf.known _ (hs i hi)
    simp only [Table.getValues, hf.n_eq, h1, h2, if_true]
    congr 1
    simp only [singletons, List.map_map]
    apply List.map_congr_left
    intro i hi
    exact hf.hi_eq _ (hs i (List.mem_range.mp hi))
  have hg : t.getValue (grand t.n) = .ok (t.lo (grand n)) := by
    have hlt := grand_lt n
    simp [Table.getValue, Table.rows, hf.n_eq, hlt, hf.known _ hlt]
  unfold normInfo
  rw [hvals]
  simp only [bind, Except.bind]
  rw [hg]
  simp only [pure, Except.pure]
  congr 2
  rw [closedW_eq (grand_lt n), bsum_grand, listSum_range_map]

end inplace

/-! ## 1b. the guard and the two branches (ordered field; the order is only used through `|·|` and `≤`) -/

section guard
variable {α : Type} [Field α] [LinearOrder α] [DecidableLE α] [DecidableEq α]

/-- the additivity test of the repaired `_normalize_icg` in exact arithmetic:
    `np.isclose(surplus + Σ, Σ, rtol, atol = 0)` is `|surplus| ≤ rtol · |Σ|`, with `surplus = w(N)` and
    `Σ = Σ_{i<n} v{i}` (`ICG.Norm.isAdditive_iff`, `closedAdditive_iff`). -/
def Additive (n : Nat) (rtol : α) (v : Nat → α) : Prop :=
  |closedW v (grand n)| ≤ rtol * |∑ i ∈ range n, v (2 ^ i)|

omit [DecidableEq α] in
theorem closedAdditive_iff_Additive (n : Nat) (rtol : α) (v : Nat → α) :
    closedAdditive n rtol v = true ↔ Additive n rtol v := closedAdditive_iff n rtol v

/-- additive branch of the closed form: identically zero -/
theorem normVal_of_additive {n : Nat} {rtol : α} {v : Nat → α} (ha : Additive n rtol v) (c : Nat) :
    normVal n rtol v c = 0 := by
  have : closedAdditive n rtol v = true := (closedAdditive_iff_Additive n rtol v).mpr ha
  simp only [normVal, this, if_true]

/-- scaling branch of the closed form -/
theorem normVal_of_scale {n : Nat} {rtol : α} {v : Nat → α} (hg : closedW v (grand n) ≠ 0)
    (ha : ¬ Additive n rtol v) (c : Nat) : normVal n rtol v c = closedW v c / closedW v (grand n) := by
  have : ¬ closedAdditive n rtol v = true := fun h => ha ((closedAdditive_iff_Additive n rtol v).mp h)
  simp [normVal, hg, this]

/-- zero-surplus branch of the closed form (reached only when `rtol·|Σ| < 0`) -/
theorem normVal_of_zero {n : Nat} {rtol : α} {v : Nat → α} (hg : closedW v (grand n) = 0)
    (ha : ¬ Additive n rtol v) (c : Nat) : normVal n rtol v c = closedW v c := by
  have : ¬ closedAdditive n rtol v = true := fun h => ha ((closedAdditive_iff_Additive n rtol v).mp h)
  simp [normVal, hg, this]

omit [DecidableLE α] [DecidableEq α] in
/-- `game.set_values(np.zeros(2**n, Value))` on a complete table -/
theorem setValues_zeros {n : Nat} (t : Table α) (hf : FullOn n t) :
    ∃ t', t.setValues (List.replicate (2 ^ t.n) 0) none = .ok t' ∧ FullOn n t' ∧ ∀ c, c < 2 ^ n → t'.lo c = 0 := by
  have hlen : (List.replicate (2 ^ t.n) (0 : α)).length = t.rows := by simp [Table.rows]
  simp only [Table.setValues, hlen, if_true]
  refine ⟨_, rfl, ⟨hf.n_eq, ?_, ?_⟩, ?_⟩
  · intro c hc; simp [Table.rows, hf.n_eq, hc]
  · intro c hc; simp [Table.rows, hf.n_eq, hc]
  · intro c hc; simp [Table.rows, hf.n_eq, hc]

/-- **in-place = closed form.**  On a complete table the repaired `_normalize_icg` succeeds (`_get_norminfo`,
    the loop, the read of the grand coalition and `set_values` never raise) and leaves, in both bound columns,
    `normVal`: identically 0 when `|w(N)| ≤ rtol·|Σ_i v{i}|`; otherwise `w c = v c − Σ_{i∈c} v{i}`, divided by
    `w(N)` unless that is 0. -/
theorem normalizeIcg_closed {n : Nat} (rtol : α) (t : Table α) (hf : FullOn n t) :
    ∃ t', normalizeIcg rtol t = .ok t' ∧ FullOn n t' ∧ ∀ c, c < 2 ^ n → t'.lo c = normVal n rtol t.lo c := by
  obtain ⟨t1, h1, hf1, hW, hg⟩ := subtraction_phase t hf
  unfold normalizeIcg
  rw [normInfo_closed t hf]
  simp only [bind, Except.bind]
  rw [h1]
  simp only [hg, isAdditive_closed]
  by_cases ha : closedAdditive n rtol t.lo = true
  · obtain ⟨t0, h0, hf0, hz⟩ := setValues_zeros t1 hf1
    refine ⟨t0, by simp only [ha, if_true]; exact h0, hf0, ?_⟩
    intro c hc
    simp only [normVal, ha, if_true, hz c hc]
  · by_cases hz : closedW t.lo (grand n) = 0
    · refine ⟨t1, by simp only [ha, hz, if_true]; rfl, hf1, ?_⟩
      intro c hc
      simp [normVal, ha, hz, hW c hc]
    · refine ⟨divColumns t1 (closedW t.lo (grand n)), by simp only [ha, if_neg hz]; rfl,
        ⟨hf1.n_eq, hf1.known, ?_⟩, ?_⟩
      · intro c hc
        simp [divColumns, hf1.hi_eq c hc]
      · intro c hc
        have : c < t1.rows := by simp [Table.rows, hf1.n_eq, hc]
        simp [divColumns, normVal, ha, hz, hW c hc, this]

/-- the same, branch by branch: with `w = v − Σ singletons` the result is identically 0 when the game is additive
    up to `rtol`; otherwise it is `w / w(N)` when `w(N) ≠ 0` and `w` itself when `w(N) = 0`. -/
theorem normalizeIcg_cases {n : Nat} (rtol : α) (t : Table α) (hf : FullOn n t) :
    ∃ t', normalizeIcg rtol t = .ok t' ∧ FullOn n t' ∧
      (Additive n rtol t.lo → ∀ c, c < 2 ^ n → t'.lo c = 0) ∧
      (¬ Additive n rtol t.lo → closedW t.lo (grand n) ≠ 0 →
        ∀ c, c < 2 ^ n → t'.lo c = closedW t.lo c / closedW t.lo (grand n)) ∧
      (¬ Additive n rtol t.lo → closedW t.lo (grand n) = 0 → ∀ c, c < 2 ^ n → t'.lo c = closedW t.lo c) := by
  obtain ⟨t', hok, hf', hlo⟩ := normalizeIcg_closed rtol t hf
  exact ⟨t', hok, hf',
    fun ha c hc => by rw [hlo c hc, normVal_of_additive ha],
    fun ha hg c hc => by rw [hlo c hc, normVal_of_scale hg ha],
    fun ha hg c hc => by rw [hlo c hc, normVal_of_zero hg ha]⟩

end guard

/-! ## 2. the closed form has the properties C15 names (ordered field) -/

section ordered
variable {α : Type} [Field α] [LinearOrder α] [IsStrictOrderedRing α]

/-- subtracting the singleton values keeps superadditivity -/
theorem closedW_SA {n : Nat} {v : Nat → α} (h : SA n v) : SA n (closedW v) := by
  intro a b ha hb hab
  rw [closedW_eq ha, closedW_eq hb, closedW_eq (or_lt_two_pow ha hb), bsum_or _ _ hab]
  have := h a b ha hb hab
  linarith

theorem closedW_singleton {n i : Nat} (hi : i < n) (v : Nat → α) : closedW v (2 ^ i) = 0 := by
  rw [closedW_eq (two_pow_lt_two_pow hi), bsum_two_pow _ hi, sub_self]

theorem closedW_empty (v : Nat → α) : closedW v 0 = v 0 := by
  rw [closedW_eq (n := 0) (by simp), bsum_zero, sub_zero]

/-- a superadditive game with `w ∅ = 0` and zero singletons is non-negative … -/
theorem nonneg_of_SA {n : Nat} {w : Nat → α} (h : SA n w) (h0 : w 0 = 0) (hs : ∀ i, i < n → w (2 ^ i) = 0) :
    ∀ c, c < 2 ^ n → 0 ≤ w c := by
  intro c
  induction c using Nat.strongRecOn with
  | _ c ih =>
    intro hc
    by_cases hz : c = 0
    · subst hz; rw [h0]
    · obtain ⟨i, hi⟩ := exists_testBit_of_ne_zero hz
      have hin : i < n := testBit_lt_of_lt_two_pow hc hi
      have hsub : 2 ^ i &&& c = 2 ^ i := two_pow_sub_of_testBit hi
      have hle := sub_le hsub
      have hpos : 0 < 2 ^ i := Nat.two_pow_pos i
      have hor := sub_or_self hsub
      have hlt : c - 2 ^ i < c := by omega
      have := h (2 ^ i) (c - 2 ^ i) (two_pow_lt_two_pow hin) (by omega) hor.2
      rw [hor.1, hs i hin, zero_add] at this
      exact le_trans (ih _ hlt (by omega)) this

/-- … and monotone non-decreasing along inclusion -/
theorem mono_of_SA {n : Nat} {w : Nat → α} (h : SA n w) (hnn : ∀ c, c < 2 ^ n → 0 ≤ w c)
    {x c : Nat} (hc : c < 2 ^ n) (hx : x &&& c = x) : w x ≤ w c := by
  have hle := sub_le hx
  have hor := sub_or_self hx
  have := h x (c - x) (by omega) (by omega) hor.2
  rw [hor.1] at this
  have h2 := hnn (c - x) (by omega)
  linarith

variable {n : Nat} {v : Nat → α}

theorem closedW_nonneg (h : SA n v) (h0 : v 0 = 0) : ∀ c, c < 2 ^ n → 0 ≤ closedW v c :=
  nonneg_of_SA (closedW_SA h) (by rw [closedW_empty, h0]) (fun _ hi => closedW_singleton hi v)

theorem closedW_mono (h : SA n v) (h0 : v 0 = 0) {x c : Nat} (hc : c < 2 ^ n) (hx : x &&& c = x) :
    closedW v x ≤ closedW v c :=
  mono_of_SA (closedW_SA h) (closedW_nonneg h h0) hc hx

theorem closedW_le_grand (h : SA n v) (h0 : v 0 = 0) {c : Nat} (hc : c < 2 ^ n) :
    closedW v c ≤ closedW v (grand n) :=
  closedW_mono h h0 (grand_lt n) (sub_grand_mask hc)

/-- `w(N) = 0 ⇒ w ≡ 0`: the additive case (`v c = Σ_{i∈c} v{i}` for every coalition) -/
theorem closedW_zero_of_grand_zero (h : SA n v) (h0 : v 0 = 0) (hg : closedW v (grand n) = 0) :
    ∀ c, c < 2 ^ n → closedW v c = 0 := by
  intro c hc
  exact le_antisymm (hg ▸ closedW_le_grand h h0 hc) (closedW_nonneg h h0 c hc)

theorem additive_of_grand_zero (h : SA n v) (h0 : v 0 = 0) (hg : closedW v (grand n) = 0) :
    ∀ c, c < 2 ^ n → v c = bsum n (fun i => v (2 ^ i)) c := by
  intro c hc
  have := closedW_zero_of_grand_zero h h0 hg c hc
  rw [closedW_eq hc] at this
  exact sub_eq_zero.mp this

variable [DecidableLE α] [DecidableEq α] {rtol : α}

/-- in a superadditive game the surplus is non-negative, so the guard reads `w(N) ≤ rtol·|Σ|` -/
theorem additive_iff_le (h : SA n v) (h0 : v 0 = 0) :
    Additive n rtol v ↔ closedW v (grand n) ≤ rtol * |∑ i ∈ range n, v (2 ^ i)| := by
  unfold Additive
  rw [abs_of_nonneg (closedW_nonneg h h0 _ (grand_lt n))]

omit [IsStrictOrderedRing α] [DecidableLE α] [DecidableEq α] in
/-- above the window the game is not additive up to `rtol` -/
theorem not_additive_of_lt (hlt : rtol * |∑ i ∈ range n, v (2 ^ i)| < closedW v (grand n)) :
    ¬ Additive n rtol v := fun ha => absurd (lt_of_lt_of_le hlt (le_abs_self _)) (not_lt.mpr ha)

/-- for `0 ≤ rtol` an exactly additive game passes the guard -/
theorem additive_of_surplus_zero (hr : 0 ≤ rtol) (hg : closedW v (grand n) = 0) : Additive n rtol v := by
  unfold Additive
  rw [hg, abs_zero]
  exact mul_nonneg hr (abs_nonneg _)

/-- with `rtol = 0` the guard is the exact test `w(N) = 0` -/
theorem additive_zero_iff : Additive n (0 : α) v ↔ closedW v (grand n) = 0 := by
  unfold Additive
  rw [zero_mul, abs_nonpos_iff]

/-- the normal form of a superadditive game is identically zero iff … the guard fired or `w(N) = 0` -/
theorem normVal_zero_of (h : SA n v) (h0 : v 0 = 0)
    (hz : closedW v (grand n) = 0 ∨ Additive n rtol v) {c : Nat} (hc : c < 2 ^ n) : normVal n rtol v c = 0 := by
  by_cases ha : Additive n rtol v
  · exact normVal_of_additive ha c
  · have hg := hz.resolve_right ha
    rw [normVal_of_zero hg ha, closedW_zero_of_grand_zero h h0 hg c hc]

/-- outside the tolerance window the closed form is the exact normalisation: `w / w(N)` … -/
theorem normVal_of_ne
    (how : closedW v (grand n) = 0 ∨ rtol * |∑ i ∈ range n, v (2 ^ i)| < closedW v (grand n))
    (hg : closedW v (grand n) ≠ 0) (c : Nat) :
    normVal n rtol v c = closedW v c / closedW v (grand n) :=
  normVal_of_scale hg (not_additive_of_lt (how.resolve_left hg)) c

/-- … or, for an exactly additive superadditive game, identically 0 -/
theorem normVal_of_eq (h : SA n v) (h0 : v 0 = 0) (hg : closedW v (grand n) = 0) {c : Nat} (hc : c < 2 ^ n) :
    normVal n rtol v c = 0 := normVal_zero_of h h0 (Or.inl hg) hc

omit [IsStrictOrderedRing α] in
/-- above the window -/
theorem normVal_above (hlt : rtol * |∑ i ∈ range n, v (2 ^ i)| < closedW v (grand n))
    (hg : closedW v (grand n) ≠ 0) (c : Nat) : normVal n rtol v c = closedW v c / closedW v (grand n) :=
  normVal_of_scale hg (not_additive_of_lt hlt) c

/-- with `rtol = 0` the window is empty: the closed form is the exact normalisation, with an exactly additive
    (`w(N) = 0`) game sent to 0 -/
theorem normVal_exact (c : Nat) :
    normVal n (0 : α) v c = if closedW v (grand n) = 0 then 0 else closedW v c / closedW v (grand n) := by
  by_cases hg : closedW v (grand n) = 0
  · rw [if_pos hg, normVal_of_additive (additive_zero_iff.mpr hg)]
  · rw [if_neg hg, normVal_of_scale hg (fun ha => hg (additive_zero_iff.mp ha))]

/-- every singleton 0 (whatever `rtol` is) -/
theorem normVal_singleton {i : Nat} (hi : i < n) : normVal n rtol v (2 ^ i) = 0 := by
  unfold normVal
  split
  · rfl
  · split <;> simp [closedW_singleton hi v]

theorem normVal_empty (h0 : v 0 = 0) : normVal n rtol v 0 = 0 := by
  unfold normVal
  split
  · rfl
  · split <;> simp [closedW_empty, h0]

/-- every value in [0, 1] (whatever `rtol` is) -/
theorem normVal_unit (h : SA n v) (h0 : v 0 = 0) {c : Nat} (hc : c < 2 ^ n) :
    0 ≤ normVal n rtol v c ∧ normVal n rtol v c ≤ 1 := by
  by_cases hz : closedW v (grand n) = 0 ∨ Additive n rtol v
  · rw [normVal_zero_of h h0 hz hc]
    exact ⟨le_refl _, zero_le_one⟩
  · have hg : closedW v (grand n) ≠ 0 := fun hg => hz (Or.inl hg)
    have hpos : 0 < closedW v (grand n) :=
      lt_of_le_of_ne (closedW_nonneg h h0 _ (grand_lt n)) (Ne.symm hg)
    rw [normVal_of_scale hg (fun ha => hz (Or.inr ha))]
    exact ⟨div_nonneg (closedW_nonneg h h0 c hc) hpos.le,
      (div_le_one hpos).mpr (closedW_le_grand h h0 hc)⟩

/-- superadditive again (whatever `rtol` is) -/
theorem normVal_SA (h : SA n v) (h0 : v 0 = 0) : SA n (normVal n rtol v) := by
  intro a b ha hb hab
  have hsa := closedW_SA h a b ha hb hab
  by_cases hz : closedW v (grand n) = 0 ∨ Additive n rtol v
  · rw [normVal_zero_of h h0 hz ha, normVal_zero_of h h0 hz hb,
      normVal_zero_of h h0 hz (or_lt_two_pow ha hb), add_zero]
  · have hg : closedW v (grand n) ≠ 0 := fun hg => hz (Or.inl hg)
    have hna : ¬ Additive n rtol v := fun ha => hz (Or.inr ha)
    rw [normVal_of_scale hg hna, normVal_of_scale hg hna, normVal_of_scale hg hna, ← add_div]
    exact div_le_div_of_nonneg_right hsa (closedW_nonneg h h0 _ (grand_lt n))

/-- grand coalition 1 — or the game is additive (exactly, or up to `rtol`) and the result is identically 0;
    the two cases exclude each other -/
theorem normVal_grand (h : SA n v) (h0 : v 0 = 0) :
    (normVal n rtol v (grand n) = 1 ∧ closedW v (grand n) ≠ 0 ∧ ¬ Additive n rtol v) ∨
      ((closedW v (grand n) = 0 ∨ Additive n rtol v) ∧ ∀ c, c < 2 ^ n → normVal n rtol v c = 0) := by
  by_cases hz : closedW v (grand n) = 0 ∨ Additive n rtol v
  · right
    exact ⟨hz, fun c hc => normVal_zero_of h h0 hz hc⟩
  · left
    have hg : closedW v (grand n) ≠ 0 := fun hg => hz (Or.inl hg)
    have hna : ¬ Additive n rtol v := fun ha => hz (Or.inr ha)
    exact ⟨by rw [normVal_of_scale hg hna, div_self hg], hg, hna⟩

/-- **C15, first sentence, about the code's own loop — for every tolerance `rtol`, no window hypothesis.**
    For a complete table holding a superadditive game with `v ∅ = 0` the repaired `_normalize_icg` succeeds and
    the resulting (complete) table has every singleton 0, every value in [0,1], is superadditive again, and has
    grand coalition 1 — or is identically 0, which happens exactly when the game is additive: exactly
    (`w(N) = 0`) or up to the tolerance (`Additive`: `|w(N)| ≤ rtol·|Σ_i v{i}|`).
    (For `0 ≤ rtol`, `w(N) = 0` implies `Additive`: `normalize_property_tol`.) -/
theorem normalize_property (rtol : α) (t : Table α) (hf : FullOn n t) (h : SA n t.lo) (h0 : t.lo 0 = 0) :
    ∃ t', normalizeIcg rtol t = .ok t' ∧ FullOn n t' ∧
      (∀ i, i < n → t'.lo (2 ^ i) = 0) ∧
      (∀ c, c < 2 ^ n → 0 ≤ t'.lo c ∧ t'.lo c ≤ 1) ∧
      (t'.lo (grand n) = 1 ∨
        ((closedW t.lo (grand n) = 0 ∨ Additive n rtol t.lo) ∧ ∀ c, c < 2 ^ n → t'.lo c = 0)) ∧
      SA n t'.lo := by
  obtain ⟨t', hok, hf', hlo⟩ := normalizeIcg_closed rtol t hf
  refine ⟨t', hok, hf', ?_, ?_, ?_, ?_⟩
  · intro i hi
    rw [hlo _ (two_pow_lt_two_pow hi)]; exact normVal_singleton hi
  · intro c hc
    rw [hlo c hc]; exact normVal_unit h h0 hc
  · rcases normVal_grand (n := n) (rtol := rtol) h h0 with ⟨hg, _, _⟩ | ⟨hg, hz⟩
    · left; rw [hlo _ (grand_lt n)]; exact hg
    · right; exact ⟨hg, fun c hc => by rw [hlo c hc]; exact hz c hc⟩
  · intro a b ha hb hab
    rw [hlo a ha, hlo b hb, hlo _ (or_lt_two_pow ha hb)]
    exact normVal_SA h h0 a b ha hb hab

/-- the same for a genuine tolerance `0 ≤ rtol`: grand coalition 1, or the game is additive up to `rtol` and the
    normal form is identically 0 -/
theorem normalize_property_tol (rtol : α) (hr : 0 ≤ rtol) (t : Table α) (hf : FullOn n t) (h : SA n t.lo)
    (h0 : t.lo 0 = 0) :
    ∃ t', normalizeIcg rtol t = .ok t' ∧ FullOn n t' ∧
      (∀ i, i < n → t'.lo (2 ^ i) = 0) ∧
      (∀ c, c < 2 ^ n → 0 ≤ t'.lo c ∧ t'.lo c ≤ 1) ∧
      (t'.lo (grand n) = 1 ∨ (Additive n rtol t.lo ∧ ∀ c, c < 2 ^ n → t'.lo c = 0)) ∧
      SA n t'.lo := by
  obtain ⟨t', h1, h2, h3, h4, h5, h6⟩ := normalize_property rtol t hf h h0
  refine ⟨t', h1, h2, h3, h4, h5.imp id (fun ⟨hz, hall⟩ => ⟨?_, hall⟩), h6⟩
  exact hz.elim (additive_of_surplus_zero hr) id

/-- **the old statement is the case `rtol = 0`** (the guard is then the exact test `w(N) = 0`). -/
theorem normalize_property_exact (t : Table α) (hf : FullOn n t) (h : SA n t.lo) (h0 : t.lo 0 = 0) :
    ∃ t', normalizeIcg (0 : α) t = .ok t' ∧ FullOn n t' ∧
      (∀ i, i < n → t'.lo (2 ^ i) = 0) ∧
      (∀ c, c < 2 ^ n → 0 ≤ t'.lo c ∧ t'.lo c ≤ 1) ∧
      (t'.lo (grand n) = 1 ∨ (closedW t.lo (grand n) = 0 ∧ ∀ c, c < 2 ^ n → t'.lo c = 0)) ∧
      SA n t'.lo := by
  obtain ⟨t', h1, h2, h3, h4, h5, h6⟩ := normalize_property (0 : α) t hf h h0
  refine ⟨t', h1, h2, h3, h4, h5.imp id (fun ⟨hz, hall⟩ => ⟨?_, hall⟩), h6⟩
  exact hz.elim id additive_zero_iff.mp

/-- **inside the tolerance window** `0 < w(N) ≤ rtol·|Σ_i v{i}|` the game is not additive, but the repaired
    `_normalize_icg` treats its surplus as a rounding residue: it succeeds and leaves the identically-zero game
    (so the grand coalition is 0, not 1).  What is discarded is `w = v − Σ singletons`, every value of which lies
    in `[0, w(N)] ⊆ [0, rtol·|Σ_i v{i}|]`. -/
theorem window_behaviour (rtol : α) (t : Table α) (hf : FullOn n t) (h : SA n t.lo) (h0 : t.lo 0 = 0)
    (hpos : 0 < closedW t.lo (grand n))
    (hwin : closedW t.lo (grand n) ≤ rtol * |∑ i ∈ range n, t.lo (2 ^ i)|) :
    ∃ t', normalizeIcg rtol t = .ok t' ∧ FullOn n t' ∧
      (∀ c, c < 2 ^ n → t'.lo c = 0) ∧
      (∀ c, c < 2 ^ n → 0 ≤ closedW t.lo c ∧ closedW t.lo c ≤ closedW t.lo (grand n) ∧
        closedW t.lo c ≤ rtol * |∑ i ∈ range n, t.lo (2 ^ i)|) ∧
      ¬ (∀ c, c < 2 ^ n → t.lo c = bsum n (fun i => t.lo (2 ^ i)) c) := by
  obtain ⟨t', hok, hf', hlo⟩ := normalizeIcg_closed rtol t hf
  have hadd : Additive n rtol t.lo := (additive_iff_le h h0).mpr hwin
  refine ⟨t', hok, hf', fun c hc => by rw [hlo c hc, normVal_of_additive hadd], ?_, ?_⟩
  · intro c hc
    exact ⟨closedW_nonneg h h0 c hc, closedW_le_grand h h0 hc, le_trans (closedW_le_grand h h0 hc) hwin⟩
  · intro hall
    have := hall _ (grand_lt n)
    rw [closedW_eq (grand_lt n), this, sub_self] at hpos
    exact lt_irrefl _ hpos

end ordered

/-! ## 3. a graph game and its tabulated form normalise to the same values -/

section graph
variable {α : Type} [Field α]

theorem pairs_players_lt {n c : Nat} (hc : c < 2 ^ n) {p : Nat × Nat} (hp : p ∈ pairs (players c)) :
    p.1 < p.2 ∧ p.1 < n ∧ p.2 < n := by
  obtain ⟨h1, h2, h3⟩ := mem_pairs (players_pairwise c) hp
  exact ⟨h3, testBit_lt_of_lt_two_pow hc (mem_players.mp h1), testBit_lt_of_lt_two_pow hc (mem_players.mp h2)⟩

theorem graphValue_singleton (g : GraphGame α) (i : Nat) : graphValue g (2 ^ i) = 0 := by
  simp [graphValue, players_two_pow, pairs, listSum]

/-- a graph game has zero singletons, so the subtraction phase does nothing -/
theorem closedW_graphValue (g : GraphGame α) {c : Nat} (hc : c < 2 ^ g.n) :
    closedW (graphValue g) c = graphValue g c := by
  rw [closedW_eq hc]
  have : bsum g.n (fun i => graphValue g (2 ^ i)) c = 0 := by
    unfold bsum
    apply Finset.sum_eq_zero
    intro i _
    simp [graphValue_singleton]
  rw [this, sub_zero]

theorem listSum_map_div {β} (l : List β) (f : β → α) (d : α) :
    listSum (l.map (fun p => f p / d)) = listSum (l.map f) / d := by
  rw [listSum_eq_sum, listSum_eq_sum]
  simp only [div_eq_mul_inv]
  exact List.sum_map_mul_right ..

theorem listSum_map_mul {β} (l : List β) (f : β → α) (d : α) :
    listSum (l.map (fun p => f p * d)) = listSum (l.map f) * d := by
  rw [listSum_eq_sum, listSum_eq_sum]
  exact List.sum_map_mul_right ..

end graph

section graphOrdered
variable {α : Type} [Field α] [LinearOrder α] [IsStrictOrderedRing α] [DecidableLE α] [DecidableEq α]

omit [DecidableLE α] [DecidableEq α] in
/-- a graph game has zero singletons, so its tolerance window is empty whatever `rtol` is:
    `|w(N)| ≤ rtol · |0|` iff `w(N) = 0` -/
theorem additive_graph_iff (g : GraphGame α) (rtol : α) :
    Additive g.n rtol (graphValue g) ↔ graphValue g (grand g.n) = 0 := by
  unfold Additive
  rw [closedW_graphValue g (grand_lt g.n)]
  have : ∑ i ∈ range g.n, graphValue g (2 ^ i) = 0 :=
    Finset.sum_eq_zero (fun i _ => graphValue_singleton g i)
  rw [this, abs_zero, mul_zero, abs_nonpos_iff]

/-- the closed form on the value table of a graph game does not depend on `rtol`: 0 when the grand value is 0,
    `value / grand value` otherwise -/
theorem normVal_graph (g : GraphGame α) (rtol : α) {c : Nat} (hc : c < 2 ^ g.n) :
    normVal g.n rtol (graphValue g) c =
      if graphValue g (grand g.n) = 0 then 0 else graphValue g c / graphValue g (grand g.n) := by
  by_cases hz : graphValue g (grand g.n) = 0
  · rw [if_pos hz, normVal_of_additive ((additive_graph_iff g rtol).mpr hz)]
  · rw [if_neg hz, normVal_of_scale (by rw [closedW_graphValue g (grand_lt g.n)]; exact hz)
        (fun ha => hz ((additive_graph_iff g rtol).mp ha)),
      closedW_graphValue g hc, closedW_graphValue g (grand_lt g.n)]

omit [LinearOrder α] [IsStrictOrderedRing α] [DecidableLE α] in
/-- `_normalize_graph_game` in closed form (it has no tolerance guard): nothing happens when the grand value is 0 -/
theorem graphValue_normalizeGraph_eq (g : GraphGame α) {c : Nat} (hc : c < 2 ^ g.n) :
    graphValue (normalizeGraph g) c =
      if graphValue g (grand g.n) = 0 then graphValue g c else graphValue g c / graphValue g (grand g.n) := by
  unfold normalizeGraph
  by_cases hz : graphValue g (grand g.n) = 0
  · simp [hz]
  · simp only [hz, if_false]
    show listSum ((pairs (players c)).map _) = _
    have : (pairs (players c)).map (fun p =>
        (if p.1 < g.n ∧ p.2 < g.n then (if p.2 ≤ p.1 then 0 else g.m p.1 p.2) / graphValue g (grand g.n)
          else g.m p.1 p.2)) =
        (pairs (players c)).map (fun p => g.m p.1 p.2 / graphValue g (grand g.n)) := by
      apply List.map_congr_left
      intro p hp
      obtain ⟨h1, h2, h3⟩ := pairs_players_lt hc hp
      have : ¬ p.2 ≤ p.1 := by omega
      simp [h2, h3, this]
    rw [this, listSum_map_div]
    rfl

omit [LinearOrder α] [IsStrictOrderedRing α] [DecidableLE α] [DecidableEq α] in
theorem graphValue_empty (g : GraphGame α) : graphValue g 0 = 0 := by
  simp [graphValue, players, playersFrom, pairs, listSum]

/-- a superadditive graph game whose grand value is 0 is identically 0 -/
theorem graph_zero_of_grand_zero (g : GraphGame α) (h : SA g.n (graphValue g))
    (hz : graphValue g (grand g.n) = 0) {c : Nat} (hc : c < 2 ^ g.n) : graphValue g c = 0 := by
  have := closedW_zero_of_grand_zero h (graphValue_empty g)
    (by rw [closedW_graphValue g (grand_lt g.n)]; exact hz) c hc
  rwa [closedW_graphValue g hc] at this

/-- **graph form = tabulated form.**  The values of the normalised graph game are the closed-form normalisation
    of its value table, for every `rtol`.  Superadditivity (the property's scope) is needed only when the grand
    value is 0: `_normalize_graph_game` then leaves the game alone while the table normaliser stores zeros — the
    same thing exactly because a superadditive game with grand value 0 and zero singletons is identically 0. -/
theorem graphValue_normalizeGraph (rtol : α) (g : GraphGame α) (h : SA g.n (graphValue g)) {c : Nat}
    (hc : c < 2 ^ g.n) : graphValue (normalizeGraph g) c = normVal g.n rtol (graphValue g) c := by
  rw [normVal_graph g rtol hc, graphValue_normalizeGraph_eq g hc]
  by_cases hz : graphValue g (grand g.n) = 0
  · rw [if_pos hz, if_pos hz, graph_zero_of_grand_zero g h hz hc]
  · rw [if_neg hz, if_neg hz]

/-- without superadditivity the two forms still agree whenever the grand value is not 0 -/
theorem graphValue_normalizeGraph_of_ne (rtol : α) (g : GraphGame α) (hz : graphValue g (grand g.n) ≠ 0)
    {c : Nat} (hc : c < 2 ^ g.n) : graphValue (normalizeGraph g) c = normVal g.n rtol (graphValue g) c := by
  rw [normVal_graph g rtol hc, graphValue_normalizeGraph_eq g hc, if_neg hz, if_neg hz]

/-- … which is what the repaired `_normalize_icg` leaves in the table holding the graph game's values. -/
theorem graph_and_table_agree (rtol : α) (g : GraphGame α) (h : SA g.n (graphValue g)) :
    ∃ t', normalizeIcg rtol (fullTable g.n (graphValue g)) = .ok t' ∧ FullOn g.n t' ∧
      ∀ c, c < 2 ^ g.n → t'.lo c = graphValue (normalizeGraph g) c := by
  obtain ⟨t', hok, hf, hlo⟩ := normalizeIcg_closed rtol _ (fullOn_fullTable g.n (graphValue g))
  exact ⟨t', hok, hf, fun c hc => by rw [hlo c hc, graphValue_normalizeGraph rtol g h hc]; rfl⟩

end graphOrdered

section graph
variable {α : Type} [Field α]

theorem normInfoGraph_eq (g : GraphGame α) :
    normInfoGraph g = (graphValue g (grand g.n), (List.range g.n).map (fun _ => (0 : α))) := by
  have hs : (singletons g.n).map (graphValue g) = (List.range g.n).map (fun _ => (0 : α)) := by
    simp only [singletons, List.map_map]
    apply List.map_congr_left
    intro i _
    exact graphValue_singleton g i
  unfold normInfoGraph
  simp only [hs]
  rw [listSum_range_map]
  simp

/-- the returned information is the same in both representations -/
theorem normInfo_graph_table (g : GraphGame α) :
    normInfo (fullTable g.n (graphValue g)) = .ok (normInfoGraph g) := by
  rw [normInfo_closed _ (fullOn_fullTable g.n (graphValue g)), normInfoGraph_eq]
  show Except.ok (closedW (graphValue g) (grand g.n), _) = _
  rw [closedW_graphValue g (grand_lt g.n)]
  congr 2
  apply List.map_congr_left
  intro i _
  exact graphValue_singleton g i

end graph

/-! ## 4. de-normalising with the returned information restores the game -/

section denorm
variable {α : Type} [Field α]

theorem inner_fold (sv : List α) (s : Nat → α) :
    ∀ (l : List Nat) (init : α), (∀ i ∈ l, sv[i]? = some (s i)) →
      l.foldlM (fun (v : α) i => match sv[i]? with
        | some x => (pure (v + x) : Except Err α)
        | none => throw Err.index) init = .ok (init + listSum (l.map s)) := by
  intro l
  induction l with
  | nil => intro init _; simp [listSum, pure, Except.pure]
  | cons a l ih =>
    intro init h
    have := ih (init + s a) (fun i hi => h i (by simp [hi]))
    rw [List.foldlM_cons, h a (by simp)]
    simp only [pure, Except.pure, bind, Except.bind] at this ⊢
    rw [this, listSum_eq_sum, listSum_eq_sum, List.map_cons, List.sum_cons, add_assoc]

/-- `denormalize_game` on a complete table with enough singleton values: `value · g + Σ_{i∈c} s_i` -/
theorem denormalize_spec {n : Nat} (t : Table α) (hf : FullOn n t) (g : α) (sv : List α) (s : Nat → α)
    (hsv : ∀ i, i < n → sv[i]? = some (s i)) :
    ∃ t', denormalize t (g, sv) = .ok t' ∧ FullOn n t' ∧
      ∀ c, c < 2 ^ n → t'.lo c = t.lo c * g + bsum n s c := by
  obtain ⟨hn, hk, hh⟩ := hf
  have hrows : t.rows = 2 ^ n := by simp [Table.rows, hn]
  obtain ⟨t', hfold, hn', hkn, hin, _⟩ := foldlM_rows
    (fun (u : Table α) c => do
      let v ← u.getValue c
      let v ← (players c).foldlM (fun (v : α) i =>
        match sv[i]? with
        | some x => (pure (v + x) : Except Err α)
        | none => throw Err.index) (v * g)
      u.setValue v c)
    (fun c x => x * g + bsum n s c)
    (allCoalitions t.n) t (List.nodup_range (n := 2 ^ t.n))
    (by
      intro c hc
      simp only [allCoalitions, List.mem_range, hn] at hc
      exact ⟨by rw [hrows]; exact hc, hk c hc⟩)
    (by
      intro u c hc hcr hkc
      simp only [allCoalitions, List.mem_range, hn] at hc
      have hin := inner_fold sv s (players c) (u.lo c * g)
        (fun i hi => hsv i (testBit_lt_of_lt_two_pow hc (mem_players.mp hi)))
      simp only [Table.getValue, hcr, hkc, if_true, bind, Except.bind]
      rw [hin, listSum_players hc]
      simp [Table.setValue, hcr])
  refine ⟨t', hfold, ⟨by rw [hn', hn], fun c hc => hkn c (hk c hc), ?_⟩, ?_⟩
  · intro c hc
    have hm : c ∈ allCoalitions t.n := by simp [allCoalitions, hn, hc]
    rw [(hin c hm).2.1, (hin c hm).2.2]
  · intro c hc
    have hm : c ∈ allCoalitions t.n := by simp [allCoalitions, hn, hc]
    exact (hin c hm).2.1

end denorm

section roundtrip
variable {α : Type} [Field α] [LinearOrder α] [IsStrictOrderedRing α] [DecidableLE α] [DecidableEq α]

omit [IsStrictOrderedRing α] in
/-- `denormalize_game ∘ normalize_game` on a complete table, in closed form and for every `rtol`: both calls
    succeed, the returned information is `(w(N), singleton values)`, and the restored value of `c` is
    `normVal c · w(N) + Σ_{i∈c} v{i}`. -/
theorem denormalize_normalize_closed {n : Nat} (rtol : α) (t : Table α) (hf : FullOn n t) :
    ∃ t' t'', normalizeGame rtol t =
        .ok ((closedW t.lo (grand n), (List.range n).map (fun i => t.lo (2 ^ i))), t') ∧
      denormalize t' (closedW t.lo (grand n), (List.range n).map (fun i => t.lo (2 ^ i))) = .ok t'' ∧
      FullOn n t'' ∧
      ∀ c, c < 2 ^ n → t''.lo c =
        normVal n rtol t.lo c * closedW t.lo (grand n) + bsum n (fun i => t.lo (2 ^ i)) c := by
  obtain ⟨t', hok, hf', hlo⟩ := normalizeIcg_closed rtol t hf
  have hinfo := normInfo_closed t hf
  obtain ⟨t'', hden, hf'', hlo''⟩ := denormalize_spec t' hf' (closedW t.lo (grand n))
    ((List.range n).map (fun i => t.lo (2 ^ i))) (fun i => t.lo (2 ^ i))
    (by intro i hi; simp [hi])
  refine ⟨t', t'', ?_, hden, hf'', ?_⟩
  · unfold normalizeGame
    rw [hinfo]
    simp only [bind, Except.bind]
    rw [hok]; rfl
  · intro c hc
    rw [hlo'' c hc, hlo c hc]

/-- **de-normalising restores the game — outside the tolerance window.**  `normalize_game` on a complete
    superadditive table with `w(N) = 0 ∨ rtol·|Σ_i v{i}| < w(N)` succeeds and returns `(info, normalised table)`;
    `denormalize_game` with that info succeeds and restores every value — in the scaling branch (`w(N) ≠ 0`) and
    in the exactly additive branch (`w(N) = 0`, where the stored values are 0 and `0·0 + Σ singletons` is the
    original value because the game is additive).  Inside the window see `denormalize_window`. -/
theorem denormalize_normalize {n : Nat} (rtol : α) (t : Table α) (hf : FullOn n t) (h : SA n t.lo)
    (h0 : t.lo 0 = 0)
    (how : closedW t.lo (grand n) = 0 ∨
      rtol * |∑ i ∈ range n, t.lo (2 ^ i)| < closedW t.lo (grand n)) :
    ∃ info t' t'', normalizeGame rtol t = .ok (info, t') ∧ denormalize t' info = .ok t'' ∧ FullOn n t'' ∧
      ∀ c, c < 2 ^ n → t''.lo c = t.lo c := by
  obtain ⟨t', t'', hnorm, hden, hf'', hlo''⟩ := denormalize_normalize_closed rtol t hf
  refine ⟨_, t', t'', hnorm, hden, hf'', ?_⟩
  intro c hc
  rw [hlo'' c hc]
  by_cases hg : closedW t.lo (grand n) = 0
  · rw [normVal_of_eq h h0 hg hc, zero_mul, zero_add]
    exact (additive_of_grand_zero h h0 hg c hc).symm
  · rw [normVal_of_ne how hg, div_mul_cancel₀ _ hg, closedW_eq hc, sub_add_cancel]

/-- the old, unconditional round trip is the case `rtol = 0` -/
theorem denormalize_normalize_exact {n : Nat} (t : Table α) (hf : FullOn n t) (h : SA n t.lo)
    (h0 : t.lo 0 = 0) :
    ∃ info t' t'', normalizeGame (0 : α) t = .ok (info, t') ∧ denormalize t' info = .ok t'' ∧ FullOn n t'' ∧
      ∀ c, c < 2 ^ n → t''.lo c = t.lo c := by
  apply denormalize_normalize (0 : α) t hf h h0
  rcases (closedW_nonneg h h0 _ (grand_lt n)).lt_or_eq with hpos | hz
  · right; rwa [zero_mul]
  · left; exact hz.symm

omit [IsStrictOrderedRing α] in
/-- whenever the guard fires (no superadditivity needed) the normal form is 0 and `denormalize_game` returns the
    additive part of the game: `0 · w(N) + Σ_{i∈c} v{i} = v c − w c` -/
theorem denormalize_additive {n : Nat} (rtol : α) (t : Table α) (hf : FullOn n t)
    (ha : Additive n rtol t.lo) :
    ∃ info t' t'', normalizeGame rtol t = .ok (info, t') ∧ denormalize t' info = .ok t'' ∧ FullOn n t'' ∧
      ∀ c, c < 2 ^ n → t''.lo c = t.lo c - closedW t.lo c := by
  obtain ⟨t', t'', hnorm, hden, hf'', hlo''⟩ := denormalize_normalize_closed rtol t hf
  refine ⟨_, t', t'', hnorm, hden, hf'', ?_⟩
  intro c hc
  rw [hlo'' c hc, normVal_of_additive ha, zero_mul, zero_add, closedW_eq hc, sub_sub_cancel]

/-- **inside the tolerance window the round trip is exact up to the tolerance.**  With
    `0 < w(N) ≤ rtol·|Σ_i v{i}|` both calls succeed, the normal form is 0, and `denormalize_game` produces
    `Σ_{i∈c} v{i} = v c − w c`: the discarded surplus share `w c` is the error, and
    `0 ≤ w c ≤ w(N) ≤ rtol·|Σ_i v{i}|`.  The game itself is not restored (`w(N) > 0`). -/
theorem denormalize_window {n : Nat} (rtol : α) (t : Table α) (hf : FullOn n t) (h : SA n t.lo)
    (h0 : t.lo 0 = 0) (hpos : 0 < closedW t.lo (grand n))
    (hwin : closedW t.lo (grand n) ≤ rtol * |∑ i ∈ range n, t.lo (2 ^ i)|) :
    ∃ info t' t'', normalizeGame rtol t = .ok (info, t') ∧ denormalize t' info = .ok t'' ∧ FullOn n t'' ∧
      (∀ c, c < 2 ^ n → t''.lo c = t.lo c - closedW t.lo c) ∧
      (∀ c, c < 2 ^ n → 0 ≤ closedW t.lo c ∧ closedW t.lo c ≤ closedW t.lo (grand n) ∧
        closedW t.lo c ≤ rtol * |∑ i ∈ range n, t.lo (2 ^ i)|) ∧
      t''.lo (grand n) ≠ t.lo (grand n) := by
  obtain ⟨info, t', t'', hnorm, hden, hf'', hval⟩ :=
    denormalize_additive rtol t hf ((additive_iff_le h h0).mpr hwin)
  refine ⟨info, t', t'', hnorm, hden, hf'', hval, ?_, ?_⟩
  · intro c hc
    exact ⟨closedW_nonneg h h0 c hc, closedW_le_grand h h0 hc, le_trans (closedW_le_grand h h0 hc) hwin⟩
  · rw [hval _ (grand_lt n)]
    intro he
    have : closedW t.lo (grand n) = 0 := by linarith
    exact hpos.ne' this

/-- **the round trip for every superadditive game and every tolerance `0 ≤ rtol`:** both calls succeed and every
    restored value is within `rtol·|Σ_i v{i}|` of the original (exactly equal outside the window). -/
theorem denormalize_normalize_bound {n : Nat} (rtol : α) (hr : 0 ≤ rtol) (t : Table α) (hf : FullOn n t)
    (h : SA n t.lo) (h0 : t.lo 0 = 0) :
    ∃ info t' t'', normalizeGame rtol t = .ok (info, t') ∧ denormalize t' info = .ok t'' ∧ FullOn n t'' ∧
      ∀ c, c < 2 ^ n → |t''.lo c - t.lo c| ≤ rtol * |∑ i ∈ range n, t.lo (2 ^ i)| := by
  by_cases hwin : 0 < closedW t.lo (grand n) ∧
      closedW t.lo (grand n) ≤ rtol * |∑ i ∈ range n, t.lo (2 ^ i)|
  · obtain ⟨info, t', t'', h1, h2, h3, hval, hb, _⟩ := denormalize_window rtol t hf h h0 hwin.1 hwin.2
    refine ⟨info, t', t'', h1, h2, h3, fun c hc => ?_⟩
    rw [hval c hc, sub_sub_cancel_left, abs_neg, abs_of_nonneg (hb c hc).1]
    exact (hb c hc).2.2
  · have how : closedW t.lo (grand n) = 0 ∨
        rtol * |∑ i ∈ range n, t.lo (2 ^ i)| < closedW t.lo (grand n) := by
      rcases (closedW_nonneg h h0 _ (grand_lt n)).lt_or_eq with hpos | hz
      · right; exact not_le.mp (fun hle => hwin ⟨hpos, hle⟩)
      · left; exact hz.symm
    obtain ⟨info, t', t'', h1, h2, h3, hval⟩ := denormalize_normalize rtol t hf h h0 how
    refine ⟨info, t', t'', h1, h2, h3, fun c hc => ?_⟩
    rw [hval c hc, sub_self, abs_zero]
    exact mul_nonneg hr (abs_nonneg _)

/-- the graph representation: `_denormalize_graph_game ∘ _normalize_graph_game` restores every value of a
    superadditive graph game -/
theorem graph_denormalize_normalize (g : GraphGame α) (h : SA g.n (graphValue g)) {c : Nat} (hc : c < 2 ^ g.n) :
    graphValue (denormalizeGraph (normalizeGraph g) (normInfoGraph g)) c = graphValue g c := by
  rw [normInfoGraph_eq]
  have hn : (normalizeGraph g).n = g.n := by
    unfold normalizeGraph; dsimp only; split <;> rfl
  have key : ∀ p ∈ pairs (players c),
      (denormalizeGraph (normalizeGraph g) (graphValue g (grand g.n), (List.range g.n).map (fun _ => (0 : α)))).m p.1 p.2
        = (normalizeGraph g).m p.1 p.2 * graphValue g (grand g.n) := by
    intro p hp
    obtain ⟨_, h2, h3⟩ := pairs_players_lt hc hp
    simp [denormalizeGraph, hn, h2, h3]
  have e : ∀ (G : GraphGame α), graphValue G c = listSum ((pairs (players c)).map (fun p => G.m p.1 p.2)) :=
    fun _ => rfl
  rw [e (denormalizeGraph _ _), List.map_congr_left key, listSum_map_mul, ← e (normalizeGraph g)]
  rw [graphValue_normalizeGraph_eq g hc]
  by_cases hg : graphValue g (grand g.n) = 0
  · rw [if_pos hg, hg, mul_zero, graph_zero_of_grand_zero g h hg hc]
  · rw [if_neg hg]
    exact div_mul_cancel₀ _ hg

end roundtrip

/-! ## 5. the hypotheses are satisfiable; the model computes what the theorems say (concrete instances over ℚ) -/

section examples

/-- a superadditive 2-player game with non-zero singletons: v = [0, 1, 2, 7] -/
def exV : Nat → ℚ := fun c => if c = 3 then 7 else if c = 2 then 2 else if c = 1 then 1 else 0

/-- an additive game with a negative singleton: v = [0, -1, 2, 1] -/
def exAdd : Nat → ℚ := fun c => if c = 3 then 1 else if c = 2 then 2 else if c = 1 then -1 else 0

theorem exV_SA : SA 2 exV := by
  intro a b ha hb hab
  have ha' : a < 4 := ha
  have hb' : b < 4 := hb
  interval_cases a <;> interval_cases b <;> simp_all [exV] <;> norm_num

theorem exAdd_SA : SA 2 exAdd := by
  intro a b ha hb hab
  have ha' : a < 4 := ha
  have hb' : b < 4 := hb
  interval_cases a <;> interval_cases b <;> simp_all [exAdd] <;> norm_num

/-- a superadditive 2-player game inside the tolerance window of the code's own `rtol = 1e-9`:
    singletons 2^40, surplus 2^10, `w(N)/|Σ| = 2^-31 ≈ 4.7e-10`: v = [0, 2^40, 2^40, 2^41 + 2^10] -/
def exWin : Nat → ℚ := fun c =>
  if c = 3 then 2199023256576 else if c = 2 then 1099511627776 else if c = 1 then 1099511627776 else 0

theorem exWin_SA : SA 2 exWin := by
  intro a b ha hb hab
  have ha' : a < 4 := ha
  have hb' : b < 4 := hb
  interval_cases a <;> interval_cases b <;> simp_all [exWin] <;> norm_num

theorem sum_range_two (f : Nat → ℚ) : ∑ i ∈ range 2, f (2 ^ i) = f 1 + f 2 := by
  simp [Finset.sum_range_succ]

theorem exV_surplus : closedW exV (grand 2) = 4 := by decide +kernel
theorem exAdd_surplus : closedW exAdd (grand 2) = 0 := by decide +kernel
theorem exWin_surplus : closedW exWin (grand 2) = 1024 := by decide +kernel

/-- `exV` is outside the window of the code's `rtol` (4 > 1e-9 · 3), `exAdd` is exactly additive, -/
theorem exV_out : closedW exV (grand 2) = 0 ∨
    defaultRtol * |∑ i ∈ range 2, exV (2 ^ i)| < closedW exV (grand 2) := by
  right
  rw [exV_surplus, sum_range_two]
  norm_num [exV, defaultRtol]

theorem exAdd_out : closedW exAdd (grand 2) = 0 ∨
    defaultRtol * |∑ i ∈ range 2, exAdd (2 ^ i)| < closedW exAdd (grand 2) := Or.inl exAdd_surplus

/-- and `exWin` is inside it: 0 < 1024 ≤ 1e-9 · 2^41 ≈ 2199.02. -/
theorem exWin_in : 0 < closedW exWin (grand 2) ∧
    closedW exWin (grand 2) ≤ defaultRtol * |∑ i ∈ range 2, exWin (2 ^ i)| := by
  rw [exWin_surplus, sum_range_two]
  norm_num [exWin, defaultRtol]

theorem defaultRtol_nonneg : (0 : ℚ) ≤ defaultRtol := by decide +kernel

/-- `normalize_property` and `denormalize_normalize` apply to `exV` with the code's `rtol` … -/
example : ∃ t', normalizeIcg defaultRtol (fullTable 2 exV) = .ok t' ∧ FullOn 2 t' ∧ SA 2 t'.lo := by
  obtain ⟨t', h1, h2, _, _, _, h6⟩ :=
    normalize_property defaultRtol (fullTable 2 exV) (fullOn_fullTable 2 exV) exV_SA (by simp [fullTable, exV])
  exact ⟨t', h1, h2, h6⟩

example : ∃ info t' t'', normalizeGame defaultRtol (fullTable 2 exV) = .ok (info, t') ∧
    denormalize t' info = .ok t'' ∧ ∀ c, c < 2 ^ 2 → t''.lo c = exV c := by
  obtain ⟨info, t', t'', h1, h2, _, h4⟩ :=
    denormalize_normalize defaultRtol (fullTable 2 exV) (fullOn_fullTable 2 exV) exV_SA
      (by simp [fullTable, exV]) exV_out
  exact ⟨info, t', t'', h1, h2, h4⟩

/-- … `normalize_property_tol`, `window_behaviour`, `denormalize_window` and `denormalize_normalize_bound` apply
    to `exWin` (their hypotheses are satisfiable): the normal form is identically 0 although the game is not
    additive, and the round trip returns the additive part, off by the surplus 1024 ≤ 1e-9·2^41 at `N`, -/
example : ∃ t', normalizeIcg defaultRtol (fullTable 2 exWin) = .ok t' ∧ (∀ c, c < 2 ^ 2 → t'.lo c = 0) ∧
    ¬ (∀ c, c < 2 ^ 2 → exWin c = bsum 2 (fun i => exWin (2 ^ i)) c) := by
  obtain ⟨t', h1, _, h3, _, h5⟩ :=
    window_behaviour defaultRtol (fullTable 2 exWin) (fullOn_fullTable 2 exWin) exWin_SA
      (by simp [fullTable, exWin]) exWin_in.1 exWin_in.2
  exact ⟨t', h1, h3, h5⟩

example : ∃ t', normalizeIcg defaultRtol (fullTable 2 exWin) = .ok t' ∧
    (t'.lo (grand 2) = 1 ∨ (Additive 2 defaultRtol exWin ∧ ∀ c, c < 2 ^ 2 → t'.lo c = 0)) := by
  obtain ⟨t', h1, _, _, _, h5, _⟩ :=
    normalize_property_tol defaultRtol defaultRtol_nonneg (fullTable 2 exWin) (fullOn_fullTable 2 exWin) exWin_SA
      (by simp [fullTable, exWin])
  exact ⟨t', h1, h5⟩

example : ∃ info t' t'', normalizeGame defaultRtol (fullTable 2 exWin) = .ok (info, t') ∧
    denormalize t' info = .ok t'' ∧ t''.lo (grand 2) = exWin (grand 2) - 1024 := by
  obtain ⟨info, t', t'', h1, h2, _, h4, _, _⟩ :=
    denormalize_window defaultRtol (fullTable 2 exWin) (fullOn_fullTable 2 exWin) exWin_SA
      (by simp [fullTable, exWin]) exWin_in.1 exWin_in.2
  refine ⟨info, t', t'', h1, h2, ?_⟩
  rw [h4 _ (grand_lt 2), show (fullTable 2 exWin).lo = exWin from rfl, exWin_surplus]

example : ∃ info t' t'', normalizeGame defaultRtol (fullTable 2 exWin) = .ok (info, t') ∧
    denormalize t' info = .ok t'' ∧
    ∀ c, c < 2 ^ 2 → |t''.lo c - exWin c| ≤ defaultRtol * |∑ i ∈ range 2, exWin (2 ^ i)| := by
  obtain ⟨info, t', t'', h1, h2, _, h4⟩ :=
    denormalize_normalize_bound defaultRtol defaultRtol_nonneg (fullTable 2 exWin) (fullOn_fullTable 2 exWin)
      exWin_SA (by simp [fullTable, exWin])
  exact ⟨info, t', t'', h1, h2, h4⟩

/-- … and the model, run by the kernel, gives [0, 0, 0, 1] with info (4, [1, 2]) (scaling branch), -/
example : (match normalizeGame defaultRtol (fullTable 2 exV) with
    | .ok (info, t) => (info, (allCoalitions 2).map t.lo, (allCoalitions 2).map t.hi)
    | .error _ => ((0, []), [], [])) = ((4, [1, 2]), [0, 0, 0, 1], [0, 0, 0, 1]) := by decide +kernel

/-- the additive branch: surplus 0, zeros are stored, -/
example : (match normalizeGame defaultRtol (fullTable 2 exAdd) with
    | .ok (info, t) => (info, (allCoalitions 2).map t.lo)
    | .error _ => ((0, []), [])) = ((0, [-1, 2]), [0, 0, 0, 0]) := by decide +kernel

/-- and de-normalising restores both games. -/
example : (match normalizeGame defaultRtol (fullTable 2 exV) with
    | .ok (info, t) => (match denormalize t info with
        | .ok t' => (allCoalitions 2).map t'.lo
        | .error _ => [])
    | .error _ => []) = [0, 1, 2, 7] := by decide +kernel

example : (match normalizeGame defaultRtol (fullTable 2 exAdd) with
    | .ok (info, t) => (match denormalize t info with
        | .ok t' => (allCoalitions 2).map t'.lo
        | .error _ => [])
    | .error _ => []) = [0, -1, 2, 1] := by decide +kernel

/-- **the window, run by the kernel with the code's own `rtol = 1e-9`:** `exWin` normalises to the zero game
    with info (2^10, [2^40, 2^40]) … -/
example : (match normalizeGame defaultRtol (fullTable 2 exWin) with
    | .ok (info, t) => (info, (allCoalitions 2).map t.lo, (allCoalitions 2).map t.hi)
    | .error _ => ((0, []), [], [])) =
    ((1024, [1099511627776, 1099511627776]), [0, 0, 0, 0], [0, 0, 0, 0]) := by decide +kernel

/-- … and `denormalize_game` with that info yields v(N) = 2^41, the original 2^41 + 2^10 less the discarded
    surplus (the real code does the same: 2199023255552.0). -/
example : (match normalizeGame defaultRtol (fullTable 2 exWin) with
    | .ok (info, t) => (match denormalize t info with
        | .ok t' => (allCoalitions 2).map t'.lo
        | .error _ => [])
    | .error _ => []) = [0, 1099511627776, 1099511627776, 2199023255552] := by decide +kernel

/-- the same game with `rtol = 0` (no window) is scaled and restored exactly -/
example : (match normalizeGame (0 : ℚ) (fullTable 2 exWin) with
    | .ok (info, t) => (match denormalize t info with
        | .ok t' => ((allCoalitions 2).map t.lo, (allCoalitions 2).map t'.lo)
        | .error _ => ([], []))
    | .error _ => ([], [])) = ([0, 0, 0, 1], [0, 1099511627776, 1099511627776, 2199023256576]) := by
  decide +kernel

/-- the driver's constant is the exact value of the float `1e-9` (`Fraction(1e-9)`): 4835703278458517 / 2^82,
    and it lies within half an ulp of 10^-9 -/
example : defaultRtol = 4835703278458517 / 2 ^ 82 := by decide +kernel
example : |defaultRtol - 1 / 10 ^ 9| < 1 / 10 ^ 25 := by decide +kernel

/-- the theorems specialise to the model exactly as the driver runs it: core `Rat` with the core instances
    (`Rat.instMax = maxOfLe`, core `≤` and its decision procedure), not Mathlib's -/
example (t : Table Rat) (hf : FullOn 2 t) :
    ∃ t', @normalizeIcg Rat Rat.instAdd Rat.instSub Rat.instMul Rat.instDiv Rat.instNeg Rat.instMax ⟨0⟩ Rat.instLE
        Rat.instDecidableLe instDecidableEqRat defaultRtol t = .ok t' ∧ FullOn 2 t' :=
  let ⟨t', h, hf', _⟩ := normalizeIcg_closed defaultRtol t hf
  ⟨t', h, hf'⟩

/-- an incomplete table is rejected the way the code rejects it (ValueError of `get_value`) -/
example : (match normalizeGame defaultRtol (Table.init (α := ℚ) 2) with
    | .ok _ => none | .error e => some e) = some Err.value := by
  decide +kernel

/-- a graph game (weights 1, 2, 5 above the diagonal, junk below) and its table: same normalised values -/
def exG : GraphGame ℚ := GraphGame.ofMatrix 3 (fun r c => if r = 0 ∧ c = 1 then 1 else if r = 0 ∧ c = 2 then 2
  else if r = 1 ∧ c = 2 then 5 else if c ≤ r then 9 else 0)

example : graphValues (normalizeGraph exG) = [0, 0, 0, 1/8, 0, 1/4, 5/8, 1] := by decide +kernel

example : (match normalizeIcg defaultRtol (fullTable 3 (graphValue exG)) with
    | .ok t => (allCoalitions 3).map t.lo
    | .error _ => []) = graphValues (normalizeGraph exG) := by decide +kernel

example : graphValues (denormalizeGraph (normalizeGraph exG) (normInfoGraph exG)) = graphValues exG := by
  decide +kernel

end examples

end ICG.C15
