/-
  Property C15 — normalisation.
  "Normalising any game that the library itself accepts as superadditive yields a game with every singleton 0,
   every value in [0,1] and grand coalition 1 (or identically 0 when the game is additive), which is again
   superadditive; a graph game and its tabulated form normalise to the same values; and de-normalising with the
   returned information restores the original values (to float rounding)."

  Theorems about ICG.Model.Normalize (the model of normalize.py / graph_game.py), for every number of players
  and every ordered field (so ℚ — the driver's instance —, the dyadic rationals inside ℚ, and ℝ at once).
  Float rounding is outside these theorems (DESIGN 3.3); the float sub-stream of `corr_normalize` covers it.
-/
import ICG.Model.Normalize
import ICG.Spec.Bounds
import ICG.Lemmas.NormFacts
import Mathlib.Algebra.BigOperators.Ring.List
import Mathlib.Algebra.Order.Ring.Rat
import Mathlib.Algebra.Field.Rat
import Mathlib.Tactic.NormNum
import Mathlib.Tactic.IntervalCases

set_option linter.unusedSectionVars false

namespace ICG.C15
open ICG ICG.Norm Finset

/-! ## 1. the in-place loop of `_normalize_icg` computes the closed form (any field, no order needed) -/

section inplace
variable {α : Type} [Field α]

/-- the table is complete on `n` players and its two bound columns agree (what `set_values(values)` gives) -/
structure FullOn (n : Nat) (t : Table α) : Prop where
  n_eq : t.n = n
  known : ∀ c, c < 2 ^ n → t.known c = true
  hi_eq : ∀ c, c < 2 ^ n → t.hi c = t.lo c

omit [Field α] in
theorem fullOn_fullTable (n : Nat) (v : Nat → α) : FullOn n (fullTable n v) :=
  ⟨rfl, fun c hc => by simp [fullTable, hc], fun _ _ => rfl⟩

theorem closedW_eq {n c : Nat} (hc : c < 2 ^ n) (v : Nat → α) :
    closedW v c = v c - bsum n (fun i => v (2 ^ i)) c := by
  unfold closedW
  rw [listSum_players hc]
  rfl

theorem mem_meet {n i c : Nat} :
    c ∈ (allCoalitions n).filter (fun x => inter x (singleton i) != 0) ↔ c < 2 ^ n ∧ c.testBit i = true := by
  simp only [allCoalitions, List.mem_filter, List.mem_range, inter, singleton]
  rw [Nat.and_comm, two_pow_and_ne_zero_iff]

/-- one pass of the outer loop: the singleton's current value is subtracted from every coalition containing it -/
theorem subSingleton_spec {n : Nat} (t : Table α) (i : Nat) (hi : i < n) (hf : FullOn n t) :
    ∃ t', subSingleton t i = .ok t' ∧ FullOn n t' ∧
      ∀ c, c < 2 ^ n → t'.lo c = t.lo c - (if c.testBit i then t.lo (2 ^ i) else 0) := by
  obtain ⟨hn, hk, hh⟩ := hf
  have hrows : t.rows = 2 ^ n := by simp [Table.rows, hn]
  have hsi : (2 : Nat) ^ i < 2 ^ n := two_pow_lt_two_pow hi
  have hget : t.getValue (singleton i) = .ok (t.lo (2 ^ i)) := by
    simp [Table.getValue, singleton, hrows, hsi, hk _ hsi]
  obtain ⟨t', hfold, hn', hkn, hin, hout⟩ := foldlM_rows
    (fun (u : Table α) c => do
      let v ← u.getValue c
      u.setValue (v - t.lo (2 ^ i)) c)
    (fun _ x => x - t.lo (2 ^ i))
    ((allCoalitions t.n).filter (fun x => inter x (singleton i) != 0)) t
    ((List.nodup_range (n := 2 ^ t.n)).filter _)
    (by
      intro c hc
      rw [hn] at hc
      have := mem_meet.mp hc
      exact ⟨by rw [hrows]; exact this.1, hk c this.1⟩)
    (by
      intro t' c _ hc hkc
      simp [Table.getValue, Table.setValue, hc, hkc, bind, Except.bind])
  refine ⟨t', ?_, ⟨by rw [hn', hn], ?_, ?_⟩, ?_⟩
  · unfold subSingleton
    rw [hget]
    simp only [bind, Except.bind] at hfold ⊢
    simpa using hfold
  · intro c hc
    exact hkn c (hk c hc)
  · intro c hc
    by_cases hb : c.testBit i = true
    · have hm : c ∈ (allCoalitions t.n).filter (fun x => inter x (singleton i) != 0) := by
        rw [hn]; exact mem_meet.mpr ⟨hc, hb⟩
      rw [(hin c hm).2.1, (hin c hm).2.2]
    · have hm : c ∉ (allCoalitions t.n).filter (fun x => inter x (singleton i) != 0) := by
        rw [hn]; exact fun h => hb (mem_meet.mp h).2
      rw [(hout c hm).2.1, (hout c hm).2.2]; exact hh c hc
  · intro c hc
    by_cases hb : c.testBit i = true
    · have hm : c ∈ (allCoalitions t.n).filter (fun x => inter x (singleton i) != 0) := by
        rw [hn]; exact mem_meet.mpr ⟨hc, hb⟩
      rw [(hin c hm).2.1]; simp [hb]
    · have hm : c ∉ (allCoalitions t.n).filter (fun x => inter x (singleton i) != 0) := by
        rw [hn]; exact fun h => hb (mem_meet.mp h).2
      rw [(hout c hm).2.1]; simp [hb]

/-- the outer loop over the first `k` singletons -/
theorem subAll_spec {n : Nat} : ∀ (k : Nat) (t : Table α), k ≤ n → FullOn n t →
    ∃ t', (List.range k).foldlM subSingleton t = .ok t' ∧ FullOn n t' ∧
      ∀ c, c < 2 ^ n → t'.lo c = t.lo c - ∑ i ∈ range k, if c.testBit i then t.lo (2 ^ i) else 0 := by
  intro k
  induction k with
  | zero =>
    intro t _ hf
    exact ⟨t, rfl, hf, fun c _ => by simp⟩
  | succ k ih =>
    intro t hk hf
    obtain ⟨t1, h1, hf1, hlo1⟩ := ih t (by omega) hf
    obtain ⟨t2, h2, hf2, hlo2⟩ := subSingleton_spec t1 k (by omega) hf1
    refine ⟨t2, ?_, hf2, ?_⟩
    · rw [List.range_succ, List.foldlM_append, h1]
      simp only [bind, Except.bind, List.foldlM_cons, List.foldlM_nil]
      rw [h2]; rfl
    · intro c hc
      have hsk : (2 : Nat) ^ k < 2 ^ n := two_pow_lt_two_pow (by omega)
      have hsv : t1.lo (2 ^ k) = t.lo (2 ^ k) := by
        rw [hlo1 _ hsk]
        have : ∑ i ∈ range k, (if (2 ^ k).testBit i then t.lo (2 ^ i) else 0) = 0 := by
          apply Finset.sum_eq_zero
          intro i hi
          have hne : ¬ k = i := by have := Finset.mem_range.mp hi; omega
          simp [hne]
        rw [this, sub_zero]
      rw [hlo2 c hc, hlo1 c hc, hsv, Finset.sum_range_succ, sub_sub]

/-- **in-place = closed form.**  On a complete table `_normalize_icg` succeeds and leaves, in both bound
    columns, `normVal`: `w c = v c − Σ_{i∈c} v{i}`, divided by `w(N)` unless that is exactly 0. -/
theorem normalizeIcg_closed [DecidableEq α] {n : Nat} (t : Table α) (hf : FullOn n t) :
    ∃ t', normalizeIcg t = .ok t' ∧ FullOn n t' ∧ ∀ c, c < 2 ^ n → t'.lo c = normVal n t.lo c := by
  obtain ⟨t1, h1, hf1, hlo1⟩ := subAll_spec n t (le_refl n) hf
  have hW : ∀ c, c < 2 ^ n → t1.lo c = closedW t.lo c := by
    intro c hc
    rw [hlo1 c hc, closedW_eq hc]; rfl
  have hg : t1.getValue (grand t1.n) = .ok (closedW t.lo (grand n)) := by
    have hlt := grand_lt n
    simp [Table.getValue, Table.rows, hf1.n_eq, hlt, hf1.known _ hlt, hW _ hlt]
  unfold normalizeIcg
  rw [hf.n_eq, h1]
  simp only [bind, Except.bind]
  rw [hg]
  by_cases hz : closedW t.lo (grand n) = 0
  · refine ⟨t1, by simp [hz, pure, Except.pure], hf1, ?_⟩
    intro c hc
    simp [normVal, hz, hW c hc]
  · refine ⟨divColumns t1 (closedW t.lo (grand n)), by simp [hz, pure, Except.pure], ⟨hf1.n_eq, hf1.known, ?_⟩, ?_⟩
    · intro c hc
      simp [divColumns, hf1.hi_eq c hc]
    · intro c hc
      have : c < t1.rows := by simp [Table.rows, hf1.n_eq, hc]
      simp [divColumns, normVal, hz, hW c hc, this]

/-- `_get_norminfo` on a complete table: `(w(N), the singleton values in player order)` -/
theorem normInfo_closed {n : Nat} (t : Table α) (hf : FullOn n t) :
    normInfo t = .ok (closedW t.lo (grand n), (List.range n).map (fun i => t.lo (2 ^ i))) := by
  have hs : ∀ i, i < n → (2 : Nat) ^ i < 2 ^ n := fun i hi => two_pow_lt_two_pow hi
  have hvals : t.getValues (some (singletons t.n)) = .ok ((List.range n).map (fun i => t.lo (2 ^ i))) := by
    have h1 : (singletons n).all (· < t.rows) = true := by
      simp only [singletons, List.all_map, List.all_eq_true, List.mem_range, Function.comp]
      intro i hi; simp [Table.rows, hf.n_eq, singleton, hs i hi]
    have h2 : (singletons n).all t.known = true := by
      simp only [singletons, List.all_map, List.all_eq_true, List.mem_range, Function.comp]
      intro i hi; exact hf.known _ (hs i hi)
    simp only [Table.getValues, hf.n_eq, h1, h2, if_true]
    congr 1
    simp only [singletons, List.map_map]
    apply List.map_congr_left
    intro i hi
    exact hf.hi_eq _ (hs i (List.mem_range.mp hi))
  have hg : t.getValue (grand t.n) = .ok (t.lo (grand n)) := by
    have hlt := grand_lt n
    simp [Table.getValue, Table.rows, hf.n_eq, hlt, hf.known _ hlt]
  unfold normInfo
  rw [hvals]
  simp only [bind, Except.bind]
  rw [hg]
  simp only [pure, Except.pure]
  congr 2
  rw [closedW_eq (grand_lt n), bsum_grand, listSum_range_map]

end inplace

/-! ## 2. the closed form has the properties C15 names (ordered field) -/

section ordered
variable {α : Type} [Field α] [LinearOrder α] [IsStrictOrderedRing α]

/-- subtracting the singleton values keeps superadditivity -/
theorem closedW_SA {n : Nat} {v : Nat → α} (h : SA n v) : SA n (closedW v) := by
  intro a b ha hb hab
  rw [closedW_eq ha, closedW_eq hb, closedW_eq (or_lt_two_pow ha hb), bsum_or _ _ hab]
  have := h a b ha hb hab
  linarith

theorem closedW_singleton {n i : Nat} (hi : i < n) (v : Nat → α) : closedW v (2 ^ i) = 0 := by
  rw [closedW_eq (two_pow_lt_two_pow hi), bsum_two_pow _ hi, sub_self]

theorem closedW_empty (v : Nat → α) : closedW v 0 = v 0 := by
  rw [closedW_eq (n := 0) (by simp), bsum_zero, sub_zero]

/-- a superadditive game with `w ∅ = 0` and zero singletons is non-negative … -/
theorem nonneg_of_SA {n : Nat} {w : Nat → α} (h : SA n w) (h0 : w 0 = 0) (hs : ∀ i, i < n → w (2 ^ i) = 0) :
    ∀ c, c < 2 ^ n → 0 ≤ w c := by
  intro c
  induction c using Nat.strongRecOn with
  | _ c ih =>
    intro hc
    by_cases hz : c = 0
    · subst hz; rw [h0]
    · obtain ⟨i, hi⟩ := exists_testBit_of_ne_zero hz
      have hin : i < n := testBit_lt_of_lt_two_pow hc hi
      have hsub : 2 ^ i &&& c = 2 ^ i := two_pow_sub_of_testBit hi
      have hle := sub_le hsub
      have hpos : 0 < 2 ^ i := Nat.two_pow_pos i
      have hor := sub_or_self hsub
      have hlt : c - 2 ^ i < c := by omega
      have := h (2 ^ i) (c - 2 ^ i) (two_pow_lt_two_pow hin) (by omega) hor.2
      rw [hor.1, hs i hin, zero_add] at this
      exact le_trans (ih _ hlt (by omega)) this

/-- … and monotone non-decreasing along inclusion -/
theorem mono_of_SA {n : Nat} {w : Nat → α} (h : SA n w) (hnn : ∀ c, c < 2 ^ n → 0 ≤ w c)
    {x c : Nat} (hc : c < 2 ^ n) (hx : x &&& c = x) : w x ≤ w c := by
  have hle := sub_le hx
  have hor := sub_or_self hx
  have := h x (c - x) (by omega) (by omega) hor.2
  rw [hor.1] at this
  have h2 := hnn (c - x) (by omega)
  linarith

variable {n : Nat} {v : Nat → α}

theorem closedW_nonneg (h : SA n v) (h0 : v 0 = 0) : ∀ c, c < 2 ^ n → 0 ≤ closedW v c :=
  nonneg_of_SA (closedW_SA h) (by rw [closedW_empty, h0]) (fun _ hi => closedW_singleton hi v)

theorem closedW_mono (h : SA n v) (h0 : v 0 = 0) {x c : Nat} (hc : c < 2 ^ n) (hx : x &&& c = x) :
    closedW v x ≤ closedW v c :=
  mono_of_SA (closedW_SA h) (closedW_nonneg h h0) hc hx

theorem closedW_le_grand (h : SA n v) (h0 : v 0 = 0) {c : Nat} (hc : c < 2 ^ n) :
    closedW v c ≤ closedW v (grand n) :=
  closedW_mono h h0 (grand_lt n) (sub_grand_mask hc)

/-- `w(N) = 0 ⇒ w ≡ 0`: the additive case (`v c = Σ_{i∈c} v{i}` for every coalition) -/
theorem closedW_zero_of_grand_zero (h : SA n v) (h0 : v 0 = 0) (hg : closedW v (grand n) = 0) :
    ∀ c, c < 2 ^ n → closedW v c = 0 := by
  intro c hc
  exact le_antisymm (hg ▸ closedW_le_grand h h0 hc) (closedW_nonneg h h0 c hc)

theorem additive_of_grand_zero (h : SA n v) (h0 : v 0 = 0) (hg : closedW v (grand n) = 0) :
    ∀ c, c < 2 ^ n → v c = bsum n (fun i => v (2 ^ i)) c := by
  intro c hc
  have := closedW_zero_of_grand_zero h h0 hg c hc
  rw [closedW_eq hc] at this
  exact sub_eq_zero.mp this

variable [DecidableEq α]

theorem normVal_of_ne (hg : closedW v (grand n) ≠ 0) (c : Nat) :
    normVal n v c = closedW v c / closedW v (grand n) := by
  simp [normVal, hg]

theorem normVal_of_eq (hg : closedW v (grand n) = 0) (c : Nat) : normVal n v c = closedW v c := by
  simp [normVal, hg]

/-- every singleton 0 -/
theorem normVal_singleton {i : Nat} (hi : i < n) : normVal n v (2 ^ i) = 0 := by
  unfold normVal
  split <;> simp [closedW_singleton hi v]

/-- every value in [0, 1] -/
theorem normVal_unit (h : SA n v) (h0 : v 0 = 0) {c : Nat} (hc : c < 2 ^ n) :
    0 ≤ normVal n v c ∧ normVal n v c ≤ 1 := by
  by_cases hg : closedW v (grand n) = 0
  · rw [normVal_of_eq hg, closedW_zero_of_grand_zero h h0 hg c hc]
    exact ⟨le_refl _, zero_le_one⟩
  · have hpos : 0 < closedW v (grand n) :=
      lt_of_le_of_ne (closedW_nonneg h h0 _ (grand_lt n)) (Ne.symm hg)
    rw [normVal_of_ne hg]
    exact ⟨div_nonneg (closedW_nonneg h h0 c hc) hpos.le,
      (div_le_one hpos).mpr (closedW_le_grand h h0 hc)⟩

/-- grand coalition 1 — or the game was additive and the result is identically 0 -/
theorem normVal_grand (h : SA n v) (h0 : v 0 = 0) :
    normVal n v (grand n) = 1 ∨
      (closedW v (grand n) = 0 ∧ ∀ c, c < 2 ^ n → normVal n v c = 0) := by
  by_cases hg : closedW v (grand n) = 0
  · right
    exact ⟨hg, fun c hc => by rw [normVal_of_eq hg, closedW_zero_of_grand_zero h h0 hg c hc]⟩
  · left
    rw [normVal_of_ne hg, div_self hg]

/-- superadditive again -/
theorem normVal_SA (h : SA n v) (h0 : v 0 = 0) : SA n (normVal n v) := by
  intro a b ha hb hab
  have hsa := closedW_SA h a b ha hb hab
  by_cases hg : closedW v (grand n) = 0
  · simpa [normVal_of_eq hg] using hsa
  · have hpos : 0 < closedW v (grand n) :=
      lt_of_le_of_ne (closedW_nonneg h h0 _ (grand_lt n)) (Ne.symm hg)
    rw [normVal_of_ne hg, normVal_of_ne hg, normVal_of_ne hg, ← add_div]
    exact div_le_div_of_nonneg_right hsa hpos.le

theorem normVal_empty (h0 : v 0 = 0) : normVal n v 0 = 0 := by
  unfold normVal
  split <;> simp [closedW_empty, h0]

/-- **C15, first sentence, about the code's own loop.**  For a complete table holding a superadditive game with
    `v ∅ = 0`, `_normalize_icg` succeeds and the resulting (complete) table has every singleton 0, every value in
    [0,1], grand coalition 1 — or is identically 0, which happens exactly in the additive case `w(N) = 0` — and is
    superadditive again. -/
theorem normalize_property (t : Table α) (hf : FullOn n t) (h : SA n t.lo) (h0 : t.lo 0 = 0) :
    ∃ t', normalizeIcg t = .ok t' ∧ FullOn n t' ∧
      (∀ i, i < n → t'.lo (2 ^ i) = 0) ∧
      (∀ c, c < 2 ^ n → 0 ≤ t'.lo c ∧ t'.lo c ≤ 1) ∧
      (t'.lo (grand n) = 1 ∨ (closedW t.lo (grand n) = 0 ∧ ∀ c, c < 2 ^ n → t'.lo c = 0)) ∧
      SA n t'.lo := by
  obtain ⟨t', hok, hf', hlo⟩ := normalizeIcg_closed t hf
  refine ⟨t', hok, hf', ?_, ?_, ?_, ?_⟩
  · intro i hi
    rw [hlo _ (two_pow_lt_two_pow hi)]; exact normVal_singleton hi
  · intro c hc
    rw [hlo c hc]; exact normVal_unit h h0 hc
  · rcases normVal_grand (n := n) h h0 with hg | ⟨hg, hz⟩
    · left; rw [hlo _ (grand_lt n)]; exact hg
    · right; exact ⟨hg, fun c hc => by rw [hlo c hc]; exact hz c hc⟩
  · intro a b ha hb hab
    rw [hlo a ha, hlo b hb, hlo _ (or_lt_two_pow ha hb)]
    exact normVal_SA h h0 a b ha hb hab

end ordered

/-! ## 3. a graph game and its tabulated form normalise to the same values -/

section graph
variable {α : Type} [Field α]

theorem pairs_players_lt {n c : Nat} (hc : c < 2 ^ n) {p : Nat × Nat} (hp : p ∈ pairs (players c)) :
    p.1 < p.2 ∧ p.1 < n ∧ p.2 < n := by
  obtain ⟨h1, h2, h3⟩ := mem_pairs (players_pairwise c) hp
  exact ⟨h3, testBit_lt_of_lt_two_pow hc (mem_players.mp h1), testBit_lt_of_lt_two_pow hc (mem_players.mp h2)⟩

theorem graphValue_singleton (g : GraphGame α) (i : Nat) : graphValue g (2 ^ i) = 0 := by
  simp [graphValue, players_two_pow, pairs, listSum]

/-- a graph game has zero singletons, so the subtraction phase does nothing -/
theorem closedW_graphValue (g : GraphGame α) {c : Nat} (hc : c < 2 ^ g.n) :
    closedW (graphValue g) c = graphValue g c := by
  rw [closedW_eq hc]
  have : bsum g.n (fun i => graphValue g (2 ^ i)) c = 0 := by
    unfold bsum
    apply Finset.sum_eq_zero
    intro i _
    simp [graphValue_singleton]
  rw [this, sub_zero]

theorem listSum_map_div {β} (l : List β) (f : β → α) (d : α) :
    listSum (l.map (fun p => f p / d)) = listSum (l.map f) / d := by
  rw [listSum_eq_sum, listSum_eq_sum]
  simp only [div_eq_mul_inv]
  exact List.sum_map_mul_right ..

theorem listSum_map_mul {β} (l : List β) (f : β → α) (d : α) :
    listSum (l.map (fun p => f p * d)) = listSum (l.map f) * d := by
  rw [listSum_eq_sum, listSum_eq_sum]
  exact List.sum_map_mul_right ..

variable [DecidableEq α]

/-- **graph form = tabulated form.**  The values of the normalised graph game are the closed-form
    normalisation of its value table … -/
theorem graphValue_normalizeGraph (g : GraphGame α) {c : Nat} (hc : c < 2 ^ g.n) :
    graphValue (normalizeGraph g) c = normVal g.n (graphValue g) c := by
  unfold normVal
  rw [closedW_graphValue g (grand_lt g.n), closedW_graphValue g hc]
  unfold normalizeGraph
  by_cases hz : graphValue g (grand g.n) = 0
  · simp [hz]
  · simp only [hz, if_false]
    show listSum ((pairs (players c)).map _) = _
    have : (pairs (players c)).map (fun p =>
        (if p.1 < g.n ∧ p.2 < g.n then (if p.2 ≤ p.1 then 0 else g.m p.1 p.2) / graphValue g (grand g.n)
          else g.m p.1 p.2)) =
        (pairs (players c)).map (fun p => g.m p.1 p.2 / graphValue g (grand g.n)) := by
      apply List.map_congr_left
      intro p hp
      obtain ⟨h1, h2, h3⟩ := pairs_players_lt hc hp
      have : ¬ p.2 ≤ p.1 := by omega
      simp [h2, h3, this]
    rw [this, listSum_map_div]
    rfl

/-- … which is what `_normalize_icg` leaves in the table holding the graph game's values. -/
theorem graph_and_table_agree (g : GraphGame α) :
    ∃ t', normalizeIcg (fullTable g.n (graphValue g)) = .ok t' ∧ FullOn g.n t' ∧
      ∀ c, c < 2 ^ g.n → t'.lo c = graphValue (normalizeGraph g) c := by
  obtain ⟨t', hok, hf, hlo⟩ := normalizeIcg_closed _ (fullOn_fullTable g.n (graphValue g))
  exact ⟨t', hok, hf, fun c hc => by rw [hlo c hc, graphValue_normalizeGraph g hc]; rfl⟩

theorem normInfoGraph_eq (g : GraphGame α) :
    normInfoGraph g = (graphValue g (grand g.n), (List.range g.n).map (fun _ => (0 : α))) := by
  have hs : (singletons g.n).map (graphValue g) = (List.range g.n).map (fun _ => (0 : α)) := by
    simp only [singletons, List.map_map]
    apply List.map_congr_left
    intro i _
    exact graphValue_singleton g i
  unfold normInfoGraph
  simp only [hs]
  rw [listSum_range_map]
  simp

/-- the returned information is the same in both representations -/
theorem normInfo_graph_table (g : GraphGame α) :
    normInfo (fullTable g.n (graphValue g)) = .ok (normInfoGraph g) := by
  rw [normInfo_closed _ (fullOn_fullTable g.n (graphValue g)), normInfoGraph_eq]
  show Except.ok (closedW (graphValue g) (grand g.n), _) = _
  rw [closedW_graphValue g (grand_lt g.n)]
  congr 2
  apply List.map_congr_left
  intro i _
  exact graphValue_singleton g i

end graph

/-! ## 4. de-normalising with the returned information restores the game -/

section denorm
variable {α : Type} [Field α]

theorem inner_fold (sv : List α) (s : Nat → α) :
    ∀ (l : List Nat) (init : α), (∀ i ∈ l, sv[i]? = some (s i)) →
      l.foldlM (fun (v : α) i => match sv[i]? with
        | some x => (pure (v + x) : Except Err α)
        | none => throw Err.index) init = .ok (init + listSum (l.map s)) := by
  intro l
  induction l with
  | nil => intro init _; simp [listSum, pure, Except.pure]
  | cons a l ih =>
    intro init h
    have := ih (init + s a) (fun i hi => h i (by simp [hi]))
    rw [List.foldlM_cons, h a (by simp)]
    simp only [pure, Except.pure, bind, Except.bind] at this ⊢
    rw [this, listSum_eq_sum, listSum_eq_sum, List.map_cons, List.sum_cons, add_assoc]

/-- `denormalize_game` on a complete table with enough singleton values: `value · g + Σ_{i∈c} s_i` -/
theorem denormalize_spec {n : Nat} (t : Table α) (hf : FullOn n t) (g : α) (sv : List α) (s : Nat → α)
    (hsv : ∀ i, i < n → sv[i]? = some (s i)) :
    ∃ t', denormalize t (g, sv) = .ok t' ∧ FullOn n t' ∧
      ∀ c, c < 2 ^ n → t'.lo c = t.lo c * g + bsum n s c := by
  obtain ⟨hn, hk, hh⟩ := hf
  have hrows : t.rows = 2 ^ n := by simp [Table.rows, hn]
  obtain ⟨t', hfold, hn', hkn, hin, _⟩ := foldlM_rows
    (fun (u : Table α) c => do
      let v ← u.getValue c
      let v ← (players c).foldlM (fun (v : α) i =>
        match sv[i]? with
        | some x => (pure (v + x) : Except Err α)
        | none => throw Err.index) (v * g)
      u.setValue v c)
    (fun c x => x * g + bsum n s c)
    (allCoalitions t.n) t (List.nodup_range (n := 2 ^ t.n))
    (by
      intro c hc
      simp only [allCoalitions, List.mem_range, hn] at hc
      exact ⟨by rw [hrows]; exact hc, hk c hc⟩)
    (by
      intro u c hc hcr hkc
      simp only [allCoalitions, List.mem_range, hn] at hc
      have hin := inner_fold sv s (players c) (u.lo c * g)
        (fun i hi => hsv i (testBit_lt_of_lt_two_pow hc (mem_players.mp hi)))
      simp only [Table.getValue, hcr, hkc, if_true, bind, Except.bind]
      rw [hin, listSum_players hc]
      simp [Table.setValue, hcr])
  refine ⟨t', hfold, ⟨by rw [hn', hn], fun c hc => hkn c (hk c hc), ?_⟩, ?_⟩
  · intro c hc
    have hm : c ∈ allCoalitions t.n := by simp [allCoalitions, hn, hc]
    rw [(hin c hm).2.1, (hin c hm).2.2]
  · intro c hc
    have hm : c ∈ allCoalitions t.n := by simp [allCoalitions, hn, hc]
    exact (hin c hm).2.1

end denorm

section roundtrip
variable {α : Type} [Field α] [LinearOrder α] [IsStrictOrderedRing α] [DecidableEq α]

/-- **de-normalising restores the game.**  `normalize_game` on a complete superadditive table succeeds and
    returns `(info, normalised table)`; `denormalize_game` with that info succeeds and restores every value —
    in the scaling branch (`w(N) ≠ 0`) and in the additive branch (`w(N) = 0`, where the stored grand value is 0
    and `value·0 + Σ singletons` is the original value because the game is additive). -/
theorem denormalize_normalize {n : Nat} (t : Table α) (hf : FullOn n t) (h : SA n t.lo) (h0 : t.lo 0 = 0) :
    ∃ info t' t'', normalizeGame t = .ok (info, t') ∧ denormalize t' info = .ok t'' ∧ FullOn n t'' ∧
      ∀ c, c < 2 ^ n → t''.lo c = t.lo c := by
  obtain ⟨t', hok, hf', hlo⟩ := normalizeIcg_closed t hf
  have hinfo := normInfo_closed t hf
  obtain ⟨t'', hden, hf'', hlo''⟩ := denormalize_spec t' hf' (closedW t.lo (grand n))
    ((List.range n).map (fun i => t.lo (2 ^ i))) (fun i => t.lo (2 ^ i))
    (by intro i hi; simp [hi])
  refine ⟨_, t', t'', ?_, hden, hf'', ?_⟩
  · unfold normalizeGame
    rw [hinfo, hok]; rfl
  · intro c hc
    rw [hlo'' c hc, hlo c hc]
    by_cases hg : closedW t.lo (grand n) = 0
    · rw [normVal_of_eq hg, closedW_zero_of_grand_zero h h0 hg c hc, zero_mul, zero_add]
      exact (additive_of_grand_zero h h0 hg c hc).symm
    · rw [normVal_of_ne hg, div_mul_cancel₀ _ hg, closedW_eq hc, sub_add_cancel]

/-- the graph representation: `_denormalize_graph_game ∘ _normalize_graph_game` restores every value of a
    superadditive graph game -/
theorem graph_denormalize_normalize (g : GraphGame α) (h : SA g.n (graphValue g)) {c : Nat} (hc : c < 2 ^ g.n) :
    graphValue (denormalizeGraph (normalizeGraph g) (normInfoGraph g)) c = graphValue g c := by
  rw [normInfoGraph_eq]
  have hn : (normalizeGraph g).n = g.n := by
    unfold normalizeGraph; dsimp only; split <;> rfl
  have key : ∀ p ∈ pairs (players c),
      (denormalizeGraph (normalizeGraph g) (graphValue g (grand g.n), (List.range g.n).map (fun _ => (0 : α)))).m p.1 p.2
        = (normalizeGraph g).m p.1 p.2 * graphValue g (grand g.n) := by
    intro p hp
    obtain ⟨_, h2, h3⟩ := pairs_players_lt hc hp
    simp [denormalizeGraph, hn, h2, h3]
  have e : ∀ (G : GraphGame α), graphValue G c = listSum ((pairs (players c)).map (fun p => G.m p.1 p.2)) :=
    fun _ => rfl
  rw [e (denormalizeGraph _ _), List.map_congr_left key, listSum_map_mul, ← e (normalizeGraph g)]
  rw [graphValue_normalizeGraph g hc]
  have h0 : graphValue g 0 = 0 := by simp [graphValue, players, playersFrom, pairs, listSum]
  by_cases hg : closedW (graphValue g) (grand g.n) = 0
  · have hz := closedW_zero_of_grand_zero h h0 hg c hc
    rw [closedW_graphValue g hc] at hz
    rw [closedW_graphValue g (grand_lt g.n)] at hg
    rw [hg, mul_zero, hz]
  · rw [normVal_of_ne hg, closedW_graphValue g hc, closedW_graphValue g (grand_lt g.n)]
    rw [closedW_graphValue g (grand_lt g.n)] at hg
    exact div_mul_cancel₀ _ hg

end roundtrip

/-! ## 5. the hypotheses are satisfiable; the model computes what the theorems say (concrete instances over ℚ) -/

section examples

/-- a superadditive 2-player game with non-zero singletons: v = [0, 1, 2, 7] -/
def exV : Nat → ℚ := fun c => if c = 3 then 7 else if c = 2 then 2 else if c = 1 then 1 else 0

/-- an additive game with a negative singleton: v = [0, -1, 2, 1] -/
def exAdd : Nat → ℚ := fun c => if c = 3 then 1 else if c = 2 then 2 else if c = 1 then -1 else 0

theorem exV_SA : SA 2 exV := by
  intro a b ha hb hab
  have ha' : a < 4 := ha
  have hb' : b < 4 := hb
  interval_cases a <;> interval_cases b <;> simp_all [exV] <;> norm_num

theorem exAdd_SA : SA 2 exAdd := by
  intro a b ha hb hab
  have ha' : a < 4 := ha
  have hb' : b < 4 := hb
  interval_cases a <;> interval_cases b <;> simp_all [exAdd] <;> norm_num

/-- `normalize_property` and `denormalize_normalize` apply to it … -/
example : ∃ t', normalizeIcg (fullTable 2 exV) = .ok t' ∧ FullOn 2 t' ∧ SA 2 t'.lo := by
  obtain ⟨t', h1, h2, _, _, _, h6⟩ :=
    normalize_property (fullTable 2 exV) (fullOn_fullTable 2 exV) exV_SA (by simp [fullTable, exV])
  exact ⟨t', h1, h2, h6⟩

example : ∃ info t' t'', normalizeGame (fullTable 2 exV) = .ok (info, t') ∧ denormalize t' info = .ok t'' ∧
    ∀ c, c < 2 ^ 2 → t''.lo c = exV c := by
  obtain ⟨info, t', t'', h1, h2, _, h4⟩ :=
    denormalize_normalize (fullTable 2 exV) (fullOn_fullTable 2 exV) exV_SA (by simp [fullTable, exV])
  exact ⟨info, t', t'', h1, h2, h4⟩

/-- … and the model, run by the kernel, gives [0, 0, 0, 1] with info (4, [1, 2]) (scaling branch), -/
example : (match normalizeGame (fullTable 2 exV) with
    | .ok (info, t) => (info, (allCoalitions 2).map t.lo, (allCoalitions 2).map t.hi)
    | .error _ => ((0, []), [], [])) = ((4, [1, 2]), [0, 0, 0, 1], [0, 0, 0, 1]) := by decide +kernel

/-- the additive branch: surplus 0, nothing is divided, the result is identically 0, -/
example : (match normalizeGame (fullTable 2 exAdd) with
    | .ok (info, t) => (info, (allCoalitions 2).map t.lo)
    | .error _ => ((0, []), [])) = ((0, [-1, 2]), [0, 0, 0, 0]) := by decide +kernel

/-- and de-normalising restores both games. -/
example : (match normalizeGame (fullTable 2 exV) with
    | .ok (info, t) => (match denormalize t info with
        | .ok t' => (allCoalitions 2).map t'.lo
        | .error _ => [])
    | .error _ => []) = [0, 1, 2, 7] := by decide +kernel

example : (match normalizeGame (fullTable 2 exAdd) with
    | .ok (info, t) => (match denormalize t info with
        | .ok t' => (allCoalitions 2).map t'.lo
        | .error _ => [])
    | .error _ => []) = [0, -1, 2, 1] := by decide +kernel

/-- an incomplete table is rejected the way the code rejects it (ValueError of `get_value`) -/
example : (match normalizeGame (Table.init (α := ℚ) 2) with | .ok _ => none | .error e => some e) = some Err.value := by
  decide +kernel

/-- a graph game (weights 1, 2, 5 above the diagonal, junk below) and its table: same normalised values -/
def exG : GraphGame ℚ := GraphGame.ofMatrix 3 (fun r c => if r = 0 ∧ c = 1 then 1 else if r = 0 ∧ c = 2 then 2
  else if r = 1 ∧ c = 2 then 5 else if c ≤ r then 9 else 0)

example : graphValues (normalizeGraph exG) = [0, 0, 0, 1/8, 0, 1/4, 5/8, 1] := by decide +kernel

example : (match normalizeIcg (fullTable 3 (graphValue exG)) with
    | .ok t => (allCoalitions 3).map t.lo
    | .error _ => []) = graphValues (normalizeGraph exG) := by decide +kernel

example : graphValues (denormalizeGraph (normalizeGraph exG) (normInfoGraph exG)) = graphValues exG := by
  decide +kernel

end examples

end ICG.C15
