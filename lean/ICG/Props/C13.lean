/-
  Property C13 (solver part) — the built-in solvers (solvers/greedy.py, largest_coalition.py, random.py),
  theorems about ICG.Model.Env.

  "At every reachable environment state each built-in solver returns a currently valid action chosen by
   its rule - greedy: maximal immediate reward, worst-greedy: minimal, largest: a largest unknown
   coalition, ties to the lowest index, random: some valid action - and leaves the environment exactly as
   it found it."   (The expected-greedy search of run/greedy.py is in Lemmas/ExpectedGreedy.)

  "Reachable state" = a model environment satisfying C09's invariant `Inv` (which includes "bounds are
  fresh"); see `C09.reach_inv`.  Hypotheses on the parameters (`Hyps`): the computer keeps knowledge
  (`ComputeOK`), depends on knowledge only (`KnowledgeOnly`, C08), accepts every table that knows the
  initial coalitions; the gap function reads table rows only and does not raise on the tables the environment
  hands it (`GapDefined`: tables of `P.n` players that know the initially known coalitions — weaker than
  "never raises", which is false for exploitability: it raises ValueError when N is unknown).
  "Exactly as it found it" is `EnvEq`: all fields equal, known flags equal, bounds equal on every row `< 2^n`
  (plus: it is again in the same abstract state, `Inv … e' s`).
  With no valid action greedy / worst-greedy / largest raise ValueError (`max()` of an empty list) and the
  random solver returns 0 (the code's uncovered fallback) — theorems `*_no_valid`.
-/
import ICG.Props.C09
import ICG.Lemmas.ListMax
import Mathlib.Algebra.Order.Ring.Rat

namespace ICG.C13
open ICG Table Env ICG.C09

variable {α : Type}

/-- the gap function does not raise on the tables the environment ever hands it: tables of `P.n` players in
    which the initially known coalitions are known.  (`GapTotal gap`, "never raises on ANY table", implies it —
    `GapDefined.of_total` — but is false for exploitability, which is defined exactly when N is known.) -/
def GapDefined (gap : Table α → Except Err α) (P : Params) : Prop :=
  ∀ t : Table α, t.n = P.n → (∀ c ∈ P.ik, t.known c = true) → ∃ g, gap t = .ok g

theorem GapDefined.of_total {gap : Table α → Except Err α} (h : GapTotal gap) (P : Params) : GapDefined gap P :=
  fun t _ _ => h t

/-- what is assumed about the two parameters -/
structure Hyps [Zero α] [Neg α] [Sub α] [DecidableEq α] (compute : Table α → Except Err (Table α))
    (gap : Table α → Except Err α) (P : Params) : Prop where
  ok : ComputeOK compute
  ko : KnowledgeOnly compute
  ro : RowsOnly gap
  tot : ComputeTotal compute P
  gtot : GapDefined gap P
  wf : P.WF

/-- the immediate reward of action `a`: what `step a` returns as reward (`none` if the call raises) -/
def stepReward [Zero α] [Neg α] [Sub α] [DecidableEq α] (compute : Table α → Except Err (Table α))
    (gap : Table α → Except Err α) (e : Env α) (a : Nat) : Option α :=
  match step compute gap e a with
  | .ok (_, out) => some out.reward
  | .error _ => none

section
variable [Zero α] [Neg α] [Sub α] [DecidableEq α]
variable {compute : Table α → Except Err (Table α)} {gap : Table α → Except Err α} {P : Params}

/-- **determinacy**: two environments in the same abstract state agree in everything observable -/
theorem inv_envEq (H : Hyps compute gap P) {e e' : Env α} {s : Spec α}
    (h : Inv compute P e s) (h' : Inv compute P e' s) : EnvEq e e' := by
  obtain ⟨t0, hsk0, hex0, hc0⟩ := h.fresh
  obtain ⟨t0', hsk0', hex0', hc0'⟩ := h'.fresh
  have hsk : SameKnowledge e.table e'.table :=
    ⟨h.n.trans h'.n.symm, fun c => (h.known c).trans (h'.known c).symm, fun c hc => by
      have hc' : e'.table.known c = true := by rw [h'.known c, ← h.known c]; exact hc
      have a := h.vals c hc
      have b := h'.vals c hc'
      exact ⟨a.1.trans b.1.symm, a.2.trans b.2.symm⟩⟩
  have hrows := H.ko.rows ((hsk0.trans hsk).trans hsk0'.symm) hex0 hex0' hc0 hc0'
  refine ⟨h.full.trans h'.full.symm, h.norm.trans h'.norm.symm, ⟨hsk.1, hsk.2.1, fun c hc => ?_⟩,
    h.steps.trans h'.steps.symm, h.budget.trans h'.budget.symm, h.ik.trans h'.ik.symm, h.ex.trans h'.ex.symm⟩
  apply hrows c
  rw [hsk0.1]; exact hc

/-- a valid `step` at a reachable state never raises (C09 `step_succeeds` needs `GapTotal`; here the gap is only
    asked to be defined on the recomputed table, which has `P.n` players and knows the initial coalitions) -/
theorem step_of_hyps (H : Hyps compute gap P) {e : Env α} {s : Spec α} {a : Nat}
    (hinv : Inv compute P e s) (hv : validStep P s a = true) :
    ∃ e' out, step compute gap e a = .ok (e', out) := by
  unfold validStep at hv
  cases hc : P.explorable[a]? with
  | none => simp [hc] at hv
  | some c =>
    simp only [hc, Bool.not_eq_true'] at hv
    have hcm : c ∈ P.explorable := List.mem_of_getElem? hc
    have hlt : c < 2 ^ e.table.n := by rw [hinv.n]; exact (mem_explorable.mp hcm).1
    have hnik : c ∉ P.ik := (mem_explorable.mp hcm).2
    have hk : e.table.known c = false := by rw [hinv.known c]; simp [Spec.knows, hnik, hv]
    have hknows : ∀ d ∈ P.ik, (e.table.putValue c (e.full c)).known d = true := fun d hd => by
      have : e.table.known d = true := by rw [hinv.known d]; simp [Spec.knows, hd]
      simp [putValue, this]
    have hex : Exact (e.table.putValue c (e.full c)) := by
      intro d hd
      by_cases hdc : d = c
      · subst hdc; simp [putValue]
      · have hd' : e.table.known d = true := by simpa [putValue, hdc] using hd
        simp only [putValue, hdc, if_false]
        exact hinv.exact d hd'
    obtain ⟨t2, ht2⟩ := H.tot (e.table.putValue c (e.full c)) hinv.n hknows
    obtain ⟨g, hg⟩ := H.gtot t2 ((H.ok.n hex ht2).trans hinv.n)
      (fun d hd => by rw [H.ok.known hex ht2 d]; exact hknows d hd)
    exact ⟨_, _, step_ok compute gap (hinv.ex ▸ hc) hlt hk ht2 hg⟩

/-- a valid `unstep` at a reachable state never raises -/
theorem unstep_of_hyps (H : Hyps compute gap P) {e : Env α} {s : Spec α} {a : Nat}
    (hinv : Inv compute P e s) (hv : validUnstep P s a = true) :
    ∃ e' out, unstep compute gap e a = .ok (e', out) := by
  unfold validUnstep at hv
  cases hc : P.explorable[a]? with
  | none => simp [hc] at hv
  | some c =>
    simp only [hc] at hv
    have hcm : c ∈ P.explorable := List.mem_of_getElem? hc
    have hlt : c < 2 ^ e.table.n := by rw [hinv.n]; exact (mem_explorable.mp hcm).1
    have hnik : c ∉ P.ik := (mem_explorable.mp hcm).2
    have hk : e.table.known c = true := by rw [hinv.known c]; simp [Spec.knows, hv]
    have hknows : ∀ d ∈ P.ik, (e.table.clearRow c).known d = true := fun d hd => by
      have : e.table.known d = true := by rw [hinv.known d]; simp [Spec.knows, hd]
      have hdc : d ≠ c := fun h => hnik (h ▸ hd)
      simp [clearRow, this, hdc]
    have hex : Exact (e.table.clearRow c) := by
      intro d hd
      by_cases hdc : d = c
      · subst hdc; simp [clearRow] at hd
      · have hd' : e.table.known d = true := by simpa [clearRow, hdc] using hd
        simp only [clearRow, hdc, if_false]
        exact hinv.exact d hd'
    obtain ⟨t2, ht2⟩ := H.tot (e.table.clearRow c) hinv.n hknows
    obtain ⟨g, hg⟩ := H.gtot t2 ((H.ok.n hex ht2).trans hinv.n)
      (fun d hd => by rw [H.ok.known hex ht2 d]; exact hknows d hd)
    exact ⟨_, _, unstep_ok compute gap (hinv.ex ▸ hc) hlt hk ht2 hg⟩

/-- in a given abstract state the immediate reward of a valid action does not depend on the environment
    representing it -/
theorem stepReward_congr (H : Hyps compute gap P) {e e' : Env α} {s : Spec α}
    (h : Inv compute P e s) (h' : Inv compute P e' s) {a : Nat} (hv : validStep P s a = true) :
    ∃ r, stepReward compute gap e a = some r ∧ stepReward compute gap e' a = some r := by
  obtain ⟨e1, o1, hs1⟩ := step_of_hyps H h hv
  obtain ⟨e1', o1', hs1'⟩ := step_of_hyps H h' hv
  obtain ⟨c, hc, _, hinv1, _, _, hr1, _⟩ := step_spec H.ok h hs1
  obtain ⟨c', hc', _, hinv1', _, _, hr1', _⟩ := step_spec H.ok h' hs1'
  rw [hc] at hc'
  cases hc'
  have heq := inv_envEq H hinv1 hinv1'
  have := reward_congr H.ro heq
  rw [hr1, hr1'] at this
  refine ⟨o1.reward, by simp [stepReward, hs1], ?_⟩
  simp only [stepReward, hs1']
  exact congrArg some (Except.ok.inj this).symm

/-- `_next_action_value`: step, unstep — back in the same abstract state, with the step's reward -/
theorem nextActionValue_spec (H : Hyps compute gap P) {e : Env α} {s : Spec α} (h : Inv compute P e s)
    {a : Nat} (hv : validStep P s a = true) :
    ∃ e2 r, nextActionValue compute gap e a = .ok (e2, r) ∧ Inv compute P e2 s ∧
      stepReward compute gap e a = some r := by
  obtain ⟨e1, o1, hs1⟩ := step_of_hyps H h hv
  obtain ⟨c, hc, hrev, hinv1, _⟩ := step_spec H.ok h hs1
  have hv2 : validUnstep P (s.step c) a = true := by simp [validUnstep, hc, Spec.step]
  obtain ⟨e2, o2, hs2⟩ := unstep_of_hyps H hinv1 hv2
  obtain ⟨c', hc', _, hinv2, _⟩ := unstep_spec H.ok hinv1 hs2
  rw [hc] at hc'
  cases hc'
  rw [unstep_step s c hrev] at hinv2
  exact ⟨e2, o1.reward, by simp [nextActionValue, hs1, hs2], hinv2, by simp [stepReward, hs1]⟩

/-- the list comprehension over the valid actions: every value is the immediate reward in the ORIGINAL
    state, and the environment is back in that state -/
theorem actionValues_spec (H : Hyps compute gap P) {s : Spec α} :
    ∀ (l : List Nat) {e : Env α}, Inv compute P e s → (∀ a ∈ l, validStep P s a = true) →
      ∃ e' vals, actionValues compute gap e l = .ok (e', vals) ∧ Inv compute P e' s ∧
        vals.map some = l.map (stepReward compute gap e)
  | [], e, h, _ => ⟨e, [], rfl, h, rfl⟩
  | a :: as, e, h, hv => by
    obtain ⟨e1, r, hn, hinv1, hr⟩ := nextActionValue_spec H h (hv a List.mem_cons_self)
    obtain ⟨e2, vs, hav, hinv2, hvs⟩ := actionValues_spec H as hinv1 (fun b hb => hv b (List.mem_cons_of_mem _ hb))
    refine ⟨e2, r :: vs, by simp [actionValues, hn, hav], hinv2, ?_⟩
    simp only [List.map_cons, hr, hvs, List.cons.injEq, true_and]
    apply List.map_congr_left
    intro b hb
    obtain ⟨rb, h1, h2⟩ := stepReward_congr H hinv1 h (hv b (List.mem_cons_of_mem _ hb))
    rw [h1, h2]

end

/-! ### `next(act for act, val in zip(acts, vals) if val == m)` picks the first position holding `m` -/

theorem firstWith_spec {β : Type} [DecidableEq β] :
    ∀ (l : List Nat) (vals : List β) (m : β) (a : Nat), firstWith l vals m = some a →
      ∃ i : Nat, l[i]? = some a ∧ vals[i]? = some m ∧ ∀ j : Nat, j < i → vals[j]? ≠ some m
  | [], _, _, _, h => by simp [firstWith] at h
  | _ :: _, [], _, _, h => by simp [firstWith] at h
  | b :: l, v :: vals, m, a, h => by
    by_cases hv : v = m
    · have : a = b := by simpa [firstWith, hv] using h.symm
      subst this
      exact ⟨0, rfl, by simp [hv], fun j hj => absurd hj (Nat.not_lt_zero j)⟩
    · have h' : firstWith l vals m = some a := by simpa [firstWith, hv] using h
      obtain ⟨i, h1, h2, h3⟩ := firstWith_spec l vals m a h'
      refine ⟨i + 1, by simpa using h1, by simpa using h2, fun j hj => ?_⟩
      cases j with
      | zero => simpa using hv
      | succ j => simpa using h3 j (by omega)

theorem firstWith_isSome {β : Type} [DecidableEq β] :
    ∀ (l : List Nat) (vals : List β) (m : β), vals.length = l.length → m ∈ vals → ∃ a, firstWith l vals m = some a
  | [], [], _, _, hm => by cases hm
  | [], _ :: _, _, hl, _ => by simp at hl
  | _ :: _, [], _, hl, _ => by simp at hl
  | b :: l, v :: vals, m, hl, hm => by
    by_cases hv : v = m
    · exact ⟨b, by simp [firstWith, hv]⟩
    · have hm' : m ∈ vals := by
        rcases List.mem_cons.mp hm with h | h
        · exact absurd h.symm hv
        · exact h
      obtain ⟨a, ha⟩ := firstWith_isSome l vals m (by simpa using hl) hm'
      exact ⟨a, by simpa [firstWith, hv] using ha⟩

/-- the valid actions are listed in increasing order -/
theorem validActions_sorted (e : Env α) : e.validActions.Pairwise (· < ·) :=
  List.Pairwise.sublist List.filter_sublist List.pairwise_lt_range

/-- from "first position holding `m`" to "lowest valid index whose value is `m`" -/
theorem first_is_lowest {β : Type} {l : List Nat} (hs : l.Pairwise (· < ·)) {vals : List β} {f : Nat → Option β}
    (hvals : vals.map some = l.map f) {m : β} {a i : Nat} (h1 : l[i]? = some a) (h2 : vals[i]? = some m)
    (h3 : ∀ j : Nat, j < i → vals[j]? ≠ some m) :
    a ∈ l ∧ f a = some m ∧ ∀ b ∈ l, f b = some m → a ≤ b := by
  have hlen : vals.length = l.length := by simpa using congrArg List.length hvals
  have hval : ∀ (j b : Nat), l[j]? = some b → (vals[j]?).map some = some (f b) := by
    intro j b hj
    have := congrArg (fun x => x[j]?) hvals
    simp only [List.getElem?_map, hj, Option.map_some] at this
    exact this
  refine ⟨List.mem_of_getElem? h1, ?_, ?_⟩
  · have := hval i a h1
    rw [h2] at this
    simpa using this.symm
  · intro b hb hfb
    obtain ⟨j, hj⟩ := List.mem_iff_getElem?.mp hb
    have hvj : vals[j]? = some m := by
      have := hval j b hj
      rw [hfb] at this
      cases hx : vals[j]? with
      | none => rw [hx] at this; simp at this
      | some x => rw [hx] at this; simpa using this
    rcases Nat.lt_or_ge j i with hji | hij
    · exact absurd hvj (h3 j hji)
    · rcases Nat.eq_or_lt_of_le hij with heq | hlt
      · subst heq
        rw [h1] at hj
        exact Nat.le_of_eq (Option.some.inj hj)
      · have hi' : i < l.length := by
          rcases Nat.lt_or_ge i l.length with h | h
          · exact h
          · rw [List.getElem?_eq_none h] at h1; cases h1
        have hj' : j < l.length := by
          rcases Nat.lt_or_ge j l.length with h | h
          · exact h
          · rw [List.getElem?_eq_none h] at hj; cases hj
        have := List.pairwise_iff_getElem.mp hs i j hi' hj' hlt
        rw [List.getElem?_eq_getElem hi'] at h1
        rw [List.getElem?_eq_getElem hj'] at hj
        cases h1; cases hj
        exact Nat.le_of_lt this

/-! ### greedy and worst-greedy -/

section greedy
variable [Zero α] [Neg α] [Sub α] [LinearOrder α]
variable {compute : Table α → Except Err (Table α)} {gap : Table α → Except Err α} {P : Params}

/-- **greedy**: at a reachable state with a valid action the solver succeeds; its action is valid, has the
    maximal immediate reward among the valid actions, is the lowest index attaining it, and the
    environment is left as it was found. -/
theorem greedy_spec (H : Hyps compute gap P) {e : Env α} {s : Spec α} (h : Inv compute P e s)
    (hne : e.validActions ≠ []) :
    ∃ e' a m, greedy compute gap false e = .ok (e', a) ∧ EnvEq e' e ∧ Inv compute P e' s ∧
      a ∈ e.validActions ∧ stepReward compute gap e a = some m ∧
      (∀ b ∈ e.validActions, ∀ rb, stepReward compute gap e b = some rb → rb ≤ m) ∧
      (∀ b ∈ e.validActions, stepReward compute gap e b = some m → a ≤ b) := by
  have hvalid : ∀ a ∈ e.validActions, validStep P s a = true := fun a ha => (validActions_spec h a).mp ha
  obtain ⟨e', vals, hav, hinv', hvals⟩ := actionValues_spec H e.validActions h hvalid
  have hlen : vals.length = e.validActions.length := by simpa using congrArg List.length hvals
  have hvne : vals ≠ [] := by
    intro h0; rw [h0] at hlen; exact hne (List.length_eq_zero_iff.mp hlen.symm)
  obtain ⟨m, hm⟩ := listMax?_isSome hvne
  obtain ⟨a, ha⟩ := firstWith_isSome e.validActions vals m hlen (listMax?_mem hm)
  obtain ⟨i, h1, h2, h3⟩ := firstWith_spec _ _ _ _ ha
  obtain ⟨hmem, hfa, hlow⟩ := first_is_lowest (validActions_sorted e) hvals h1 h2 h3
  refine ⟨e', a, m, ?_, inv_envEq H hinv' h, hinv', hmem, hfa, ?_, hlow⟩
  · simp [greedy, hav, hm, ha]
  · intro b hb rb hrb
    obtain ⟨j, hj⟩ := List.mem_iff_getElem?.mp hb
    have := congrArg (fun x => x[j]?) hvals
    simp only [List.getElem?_map, hj, Option.map_some, hrb] at this
    cases hx : vals[j]? with
    | none => rw [hx] at this; simp at this
    | some x =>
      rw [hx] at this
      have hxr : x = rb := by simpa using this
      exact hxr ▸ le_listMax? hm (List.mem_of_getElem? hx)

/-- **worst-greedy**: the same with the minimal immediate reward. -/
theorem greedy_worst_spec (H : Hyps compute gap P) {e : Env α} {s : Spec α} (h : Inv compute P e s)
    (hne : e.validActions ≠ []) :
    ∃ e' a m, greedy compute gap true e = .ok (e', a) ∧ EnvEq e' e ∧ Inv compute P e' s ∧
      a ∈ e.validActions ∧ stepReward compute gap e a = some m ∧
      (∀ b ∈ e.validActions, ∀ rb, stepReward compute gap e b = some rb → m ≤ rb) ∧
      (∀ b ∈ e.validActions, stepReward compute gap e b = some m → a ≤ b) := by
  have hvalid : ∀ a ∈ e.validActions, validStep P s a = true := fun a ha => (validActions_spec h a).mp ha
  obtain ⟨e', vals, hav, hinv', hvals⟩ := actionValues_spec H e.validActions h hvalid
  have hlen : vals.length = e.validActions.length := by simpa using congrArg List.length hvals
  have hvne : vals ≠ [] := by
    intro h0; rw [h0] at hlen; exact hne (List.length_eq_zero_iff.mp hlen.symm)
  obtain ⟨m, hm⟩ := listMin?_isSome hvne
  obtain ⟨a, ha⟩ := firstWith_isSome e.validActions vals m hlen (listMin?_mem hm)
  obtain ⟨i, h1, h2, h3⟩ := firstWith_spec _ _ _ _ ha
  obtain ⟨hmem, hfa, hlow⟩ := first_is_lowest (validActions_sorted e) hvals h1 h2 h3
  refine ⟨e', a, m, ?_, inv_envEq H hinv' h, hinv', hmem, hfa, ?_, hlow⟩
  · simp [greedy, hav, hm, ha]
  · intro b hb rb hrb
    obtain ⟨j, hj⟩ := List.mem_iff_getElem?.mp hb
    have := congrArg (fun x => x[j]?) hvals
    simp only [List.getElem?_map, hj, Option.map_some, hrb] at this
    cases hx : vals[j]? with
    | none => rw [hx] at this; simp at this
    | some x =>
      rw [hx] at this
      have hxr : x = rb := by simpa using this
      exact hxr ▸ listMin?_le hm (List.mem_of_getElem? hx)

/-- with no valid action `max()` / `min()` of an empty list raises ValueError; nothing was touched -/
theorem greedy_no_valid (worst : Bool) {e : Env α} (hnil : e.validActions = []) :
    greedy compute gap worst e = .error (.value, e) := by
  cases worst <;> simp [greedy, hnil, actionValues, listMax?, listMin?]

end greedy

/-! ### largest -/

/-- size of the coalition behind action `i` (0 outside the list; never read there) -/
def actionSize (e : Env α) (i : Nat) : Nat := match e.explorable[i]? with | some c => size c | none => 0

/-- **largest**: the lowest-index valid action whose coalition has maximal size; the environment is not
    touched at all (the solver is a pure function of it). -/
theorem largest_spec {e : Env α} (hne : e.validActions ≠ []) :
    ∃ a, e.largest = .ok a ∧ a ∈ e.validActions ∧
      (∀ b ∈ e.validActions, actionSize e b ≤ actionSize e a) ∧
      (∀ b ∈ e.validActions, actionSize e b = actionSize e a → a ≤ b) := by
  let sizes := e.validActions.map (actionSize e)
  have hlen : sizes.length = e.validActions.length := by simp [sizes]
  have hsne : sizes ≠ [] := by
    intro h0; rw [h0] at hlen; exact hne (List.length_eq_zero_iff.mp hlen.symm)
  obtain ⟨m, hm⟩ := listMax?_isSome hsne
  obtain ⟨a, ha⟩ := firstWith_isSome e.validActions sizes m hlen (listMax?_mem hm)
  obtain ⟨i, h1, h2, h3⟩ := firstWith_spec _ _ _ _ ha
  have hvals : sizes.map some = e.validActions.map (fun b => some (actionSize e b)) := by
    simp [sizes, List.map_map]
  obtain ⟨hmem, hfa, hlow⟩ := first_is_lowest (validActions_sorted e) hvals h1 h2 h3
  have hfa' : actionSize e a = m := by simpa using hfa
  refine ⟨a, ?_, hmem, ?_, ?_⟩
  · have hm' : listMax? (e.validActions.map (actionSize e)) = some m := hm
    have ha' : firstWith e.validActions (e.validActions.map (actionSize e)) m = some a := ha
    change (match listMax? (e.validActions.map (actionSize e)) with
      | none => Except.error Err.value
      | some m => match firstWith e.validActions (e.validActions.map (actionSize e)) m with
        | some a => Except.ok a
        | none => Except.error Err.other) = Except.ok a
    rw [hm']
    simp only []
    rw [ha']
  · intro b hb
    rw [hfa']
    exact le_listMax? hm (List.mem_map.mpr ⟨b, hb, rfl⟩)
  · intro b hb hsz
    exact hlow b hb (by simp [hsz, hfa'])

/-- on the abstract state: the chosen coalition is a still-unknown explorable coalition of maximal size -/
theorem largest_valid {compute : Table α → Except Err (Table α)} {P : Params} {e : Env α} {s : Spec α}
    (h : Inv compute P e s) {a : Nat} (ha : e.largest = .ok a) (hne : e.validActions ≠ []) :
    validStep P s a = true := by
  obtain ⟨a', ha', hmem, _⟩ := largest_spec hne
  rw [ha] at ha'
  cases ha'
  exact (validActions_spec h a).mp hmem

theorem largest_no_valid {e : Env α} (hnil : e.validActions = []) : e.largest = .error .value := by
  simp [largest, hnil, listMax?]

/-! ### random -/

/-- **random**: whatever `Random.choice` draws, the result is a valid action when there is one … -/
theorem random_spec {e : Env α} (hne : e.validActions ≠ []) (a : Nat) :
    e.randomOk a = true ↔ a ∈ e.validActions := by
  have : e.validActions.isEmpty = false := by
    cases hv : e.validActions with
    | nil => exact absurd hv hne
    | cons _ _ => rfl
  simp [randomOk, this]

/-- … and `0` — not a valid action — when there is none (the code's uncovered fallback; the solver reads
    the mask only, so the environment is untouched in both cases) -/
theorem random_no_valid {e : Env α} (hnil : e.validActions = []) (a : Nat) : e.randomOk a = true ↔ a = 0 := by
  simp [randomOk, hnil]

/-! ### non-vacuity: the toy computer / gap of C09 satisfy `Hyps`; a concrete run -/

theorem toyGap_rowsOnly [Add α] [Sub α] [Zero α] : RowsOnly (toyGap (α := α)) where
  congr := by
    intro t1 t2 h
    obtain ⟨hn, _, hr⟩ := h
    simp only [toyGap, Table.rows, hn, Except.ok.injEq]
    congr 1
    apply List.map_congr_left
    intro c hc
    have := hr c (by rw [hn]; exact List.mem_range.mp hc)
    rw [this.1, this.2]

theorem toy_hyps [AddCommGroup α] [DecidableEq α] (w : α) (P : Params) (hP : P.WF) :
    Hyps (toyCompute w) (toyGap (α := α)) P where
  ok := toyCompute_ok w
  ko := toyCompute_knowledgeOnly w
  ro := toyGap_rowsOnly
  tot := fun _ _ _ => ⟨_, rfl⟩
  gtot := fun _ _ _ => ⟨_, rfl⟩
  wf := hP

/-- an asymmetric toy: the unknown rows get `[0, 10·c]`, so revealing a bigger id closes a bigger gap -/
def widthCompute (t : Table Int) : Except Err (Table Int) :=
  .ok { t with lo := fun c => if t.known c then t.lo c else 0,
               hi := fun c => if t.known c then t.hi c else 10 * (c : Int) }

def demoSolve : Option (Env Int × Env Int × Nat × Nat × Nat) :=
  match mkEnv widthCompute 3 [1, 2, 4] none demoFull demoNorm with
  | .error _ => none
  | .ok e =>
    match greedy widthCompute toyGap false e, greedy widthCompute toyGap true e, e.largest with
    | .ok (e1, a), .ok (_, b), .ok c => some (e, e1, a, b, c)
    | _, _, _ => none

/-- explorable = [3, 5, 6]: greedy reveals 6 (index 2, closes width 60), worst-greedy 3 (index 0), largest
    the first of the three pairs; environment unchanged -/
example : demoSolve.map (·.2.2) = some (2, 0, 0) := by decide +kernel

example : demoSolve.map (fun p => (p.1.randomOk 1, p.1.randomOk 3, p.2.1.actionMasks, p.2.1.steps)) =
    some (true, false, [true, true, true], 0) := by decide +kernel

/-! ### the model's own computers satisfy `Hyps`; the theorems are about the functions the driver runs -/

/-- reference / cached / approximate computer with any gap function that reads rows only and does not raise -/
theorem real_hyps [Add α] [Sub α] [LinearOrder α] [Zero α] [Neg α] (k : Computer) {gap : Table α → Except Err α}
    {P : Params} (hro : RowsOnly gap) (hgt : GapTotal gap) (hP : P.WF) (hmin : P.Minimal) :
    Hyps (k.run : Table α → Except Err (Table α)) gap P where
  ok := computer_ok k
  ko := computer_knowledgeOnly k
  ro := hro
  tot := computer_computeTotal k hmin
  gtot := GapDefined.of_total hgt P
  wf := hP

/-- the same for a gap function that is only defined where the environment uses it (exploitability: N known) -/
theorem real_hyps_defined [Add α] [Sub α] [LinearOrder α] [Zero α] [Neg α] (k : Computer)
    {gap : Table α → Except Err α} {P : Params} (hro : RowsOnly gap) (hgd : GapDefined gap P) (hP : P.WF)
    (hmin : P.Minimal) : Hyps (k.run : Table α → Except Err (Table α)) gap P where
  ok := computer_ok k
  ko := computer_knowledgeOnly k
  ro := hro
  tot := computer_computeTotal k hmin
  gtot := hgd
  wf := hP

/-- specialisation to the model at core `Rat` with core's own instances (what `lean/Driver.lean` links) -/
example (compute : Table Rat → Except Err (Table Rat)) (gap : Table Rat → Except Err Rat) (P : Params)
    (H : Hyps compute gap P) (e : Env Rat) (s : Spec Rat) (h : Inv compute P e s) (hne : e.validActions ≠ []) :
    ∃ e' a m, @Env.greedy Rat _ Rat.instNeg Rat.instSub instDecidableEqRat compute gap Rat.instMax Rat.instMin false e
        = .ok (e', a) ∧ EnvEq e' e ∧ a ∈ e.validActions ∧ stepReward compute gap e a = some m :=
  let ⟨e', a, m, h1, h2, _, h4, h5, _⟩ := greedy_spec H h hne
  ⟨e', a, m, h1, h2, h4, h5⟩

end ICG.C13
