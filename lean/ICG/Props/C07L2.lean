/-
  Property C07, the l2 norm itself.

  `l2_norm` of the code is `np.sqrt(np.sum(widths ** 2))`.  The executable model stops at the square
  (`ICG.l2sq`, no computable square root over `Rat`), and `Props/C07Gaps` proves the square monotone,
  non-negative and zero on fully revealed games over every ordered field.  This file closes the gap that
  DESIGN 5/C07 used to list as "the one trusted step": over the reals the norm itself,

      l2 n lo hi := √(l2sq n lo hi),

  is non-increasing under more knowledge (one lattice edge, any pair K ⊆ K', every reveal path), never
  negative, and zero once every value is revealed — for the three model computers.  What remains trusted
  is only that `np.sqrt` is the correctly rounded (hence monotone) real square root.
-/
import ICG.Props.C07Gaps
import Mathlib.Analysis.Real.Sqrt

set_option linter.unusedSectionVars false

namespace ICG.C07
open ICG Table ICG.SpecSA
open ICG.BoundsCommon

/-- `l2_norm`: the Euclidean norm of the width vector, over the reals -/
noncomputable def l2 (n : Nat) (lo hi : Nat → ℝ) : ℝ := Real.sqrt (l2sq n lo hi)

theorem l2_sq (n : Nat) (lo hi : Nat → ℝ) : l2 n lo hi * l2 n lo hi = l2sq n lo hi :=
  Real.mul_self_sqrt (GapMono.l2sq_nonneg n lo hi)

/-- **C07_gap_mono, l2.** -/
theorem mono_l2 (k : Computer) (t t' : Table ℝ) (v : Nat → ℝ) (hn : t'.n = t.n)
    (hle : KnownLe t.known t'.known) (hag : t.Agree v) (hag' : t'.Agree v) (hsa : SA t.n v)
    (hmd : k.NeedsMono → MonoDec t.n v) (hmin : MinInfo t.n t.known) :
    ∃ s s', k.run t = .ok s ∧ k.run t' = .ok s' ∧ l2 t.n s'.lo s'.hi ≤ l2 t.n s.lo s.hi := by
  obtain ⟨s, s', h1, h2, h3⟩ := mono_l2sq k t t' v hn hle hag hag' hsa hmd hmin
  exact ⟨s, s', h1, h2, Real.sqrt_le_sqrt h3⟩

/-- **C07_gap_nonneg, l2** — after any successful compute (no hypothesis on the table at all). -/
theorem nonneg_l2 (n : Nat) (lo hi : Nat → ℝ) : 0 ≤ l2 n lo hi := Real.sqrt_nonneg _

/-- **C07_gap_zero_full, l2.** -/
theorem zero_full_l2 (k : Computer) (t : Table ℝ) (hinv : t.Inv) (h0 : t.lo 0 = 0)
    (hall : ∀ c, c < 2 ^ t.n → t.known c = true) :
    ∃ s, k.run t = .ok s ∧ l2 t.n s.lo s.hi = 0 := by
  obtain ⟨s, h1, h2, _⟩ := zero_full_l2sq_expl k t hinv h0 hall
  exact ⟨s, h1, by unfold l2; rw [h2, Real.sqrt_zero]⟩

/-- l2 = 0 exactly when every interval is a point (so "zero once everything is revealed" is sharp) -/
theorem l2_eq_zero_iff (n : Nat) (lo hi : Nat → ℝ) :
    l2 n lo hi = 0 ↔ ∀ c, c < 2 ^ n → lo c = hi c := by
  unfold l2
  rw [Real.sqrt_eq_zero (GapMono.l2sq_nonneg n lo hi), GapMono.l2sq_eq,
    Finset.sum_eq_zero_iff_of_nonneg (fun _ _ => mul_self_nonneg _)]
  constructor
  · intro h c hc
    have := h c (Finset.mem_range.mpr hc)
    have := mul_self_eq_zero.mp this
    linarith
  · intro h c hc
    rw [h c (Finset.mem_range.mp hc)]; simp

/-- **C07_path, l2**: non-increasing along every reveal path. -/
theorem path_l2 (k : Computer) (v : Nat → ℝ) (cs : List Nat) {t : Table ℝ} {ts : List (Table ℝ)}
    (hf : Fresh k v t) (hsa : SA t.n v) (hmd : k.NeedsMono → MonoDec t.n v)
    (h : revealRun k v t cs = .ok ts) :
    (t :: ts).Pairwise (fun a b => l2 b.n b.lo b.hi ≤ l2 a.n a.lo a.hi) :=
  (path_l2sq k v cs hf hsa hmd h).imp (fun hab => Real.sqrt_le_sqrt hab)

/-! ### the hypotheses are satisfiable: the 3-player example game of `C07Gaps`, over the reals -/

/-- the game `exV` over `ℝ` -/
noncomputable def exVr : Nat → ℝ := fun c => ((exV c : Int) : ℝ)

noncomputable def exTr (kn : Nat → Bool) : Table ℝ :=
  { n := 3, known := kn, lo := fun c => if kn c then exVr c else 99, hi := fun c => if kn c then exVr c else -99 }

theorem exTr_agree (kn : Nat → Bool) : (exTr kn).Agree exVr := by
  intro c _ hk
  have hk' : kn c = true := hk
  simp [exTr, hk']

theorem exVr_SA : SA 3 exVr := by
  have hq : SA 3 exVq := exVq_SA
  intro a b ha hb hab
  have := hq a b ha hb hab
  unfold exVr
  unfold exVq at this
  exact_mod_cast this

example : ∃ s s', sa (exTr exKnown) = .ok s ∧ sa (exTr exKnown') = .ok s' ∧
    l2 3 s'.lo s'.hi ≤ l2 3 s.lo s.hi :=
  mono_l2 .sa (exTr exKnown) (exTr exKnown') exVr rfl exKnown_le
    (exTr_agree _) (exTr_agree _) exVr_SA (fun h => h.elim) exKnown_minInfo

end ICG.C07
