/-
  Property C06 — the Shapley value.

  "For every complete game (any real values with v(∅) = 0) the computed Shapley value of each player
   equals the average of that player's marginal contribution over all orderings of the players.
   Consequently the values sum to the grand coalition's value, relabelling players permutes them, null
   players get zero, and the result is linear in the game; the single-player and all-players entry
   points return the same numbers."

  Theorems about ICG.Model.Shapley (`shapley`, `shapleyForPlayer`, `shapleyCore`), for every number of
  players `n` and every field of characteristic 0 (in particular every linearly ordered field).
  A `Game` is its `get_values` callable `g`; `Answers n g v` says that `g` answers with the values of
  `v : Nat → α` on the coalitions of the `n`-player game (`completeGame v` does, so does the value table
  with every coalition known — `answers_table`).  None of the theorems needs `v ∅ = 0`.
-/
import ICG.Lemmas.ShapleyBridge
import ICG.Lemmas.ShapleyOrderings
import ICG.Lemmas.ShapleySymmetry
import Mathlib.Algebra.Order.Ring.Rat

set_option linter.unusedSectionVars false

namespace ICG.C06
open ICG Finset

variable {α : Type} [Field α] [CharZero α]

/-! ### the model computes the closed form `phi`; entry points -/

/-- the value table with every coalition known is a complete game (its values are the upper column) -/
theorem answers_table (t : Table α) (hfull : ∀ c, c < 2 ^ t.n → t.known c = true) :
    Answers t.n t.gameValues t.hi := by
  intro l hl
  unfold Table.gameValues Table.getValues Table.rows
  have h1 : l.all (fun x => decide (x < 2 ^ t.n)) = true := by simpa using hl
  have h2 : l.all t.known = true := by
    rw [List.all_eq_true]; intro c hc; exact hfull c (hl c hc)
  simp only [h1, h2, if_true]

/-- both entry points succeed on a complete game and return the closed form `phi n v i` -/
theorem computes (n : Nat) (g : GetValues α) (v : Nat → α) (hg : Answers n g v) :
    shapley n g = .ok ((List.range n).map (phi n v)) ∧
    ∀ i, i < n → shapleyForPlayer n g i = .ok (phi n v i) :=
  ⟨shapley_ok n g v hg, fun _ hi => shapleyForPlayer_ok hi g v hg⟩

/-- the all-players generator is the single-player function mapped over the players — for EVERY game,
    raising ones included (core classes only). -/
theorem entry_points {β : Type} [Add β] [Sub β] [Mul β] [Div β] [Zero β] [NatCast β]
    (n : Nat) (g : GetValues β) :
    shapley n g = mapE (shapleyForPlayer n g) (List.range n) := by
  unfold shapley shapleyForPlayer
  congr 1
  funext i
  rw [fromPlayers_single]
  rfl

/-- an incomplete table: `compute_shapley_value` raises ValueError when some coalition is unknown
    (stated for the first player's first request; `n ≥ 1`) -/
theorem raises_on_unknown (t : Table α) (hn : 0 < t.n) (c : Nat) (hc : c < 2 ^ t.n)
    (hunk : t.known c = false) : ∃ e, t.shapley = .error e := by
  by_contra h
  have hok : ∃ l, t.shapley = .ok l := by
    cases hs : t.shapley with
    | error e => exact absurd ⟨e, hs⟩ h
    | ok l => exact ⟨l, rfl⟩
  obtain ⟨l, hl⟩ := hok
  -- player 0 asks for every coalition: those without it, then those with it
  unfold Table.shapley shapley at hl
  obtain ⟨m, hm⟩ : ∃ m, t.n = m + 1 := ⟨t.n - 1, by omega⟩
  rw [hm, List.range_succ_eq_map] at hl
  simp only [mapE] at hl
  rw [← hm] at hl
  have hfrom : Table.fromiter (excludeCoalition (singleton 0) (allCoalitions t.n)) (2 ^ (t.n - 1))
      = .ok (excludeCoalition (2 ^ 0) (allCoalitions t.n)) := by
    unfold Table.fromiter singleton
    rw [length_exclude hn]
    simp only [Nat.lt_irrefl, if_false]
    rw [← length_exclude hn, List.take_length]
  by_cases hb : c.testBit 0 = false
  · have hmem : c ∈ excludeCoalition (2 ^ 0) (allCoalitions t.n) := mem_exclude.mpr ⟨hc, hb⟩
    have hbad : t.gameValues (excludeCoalition (2 ^ 0) (allCoalitions t.n)) = .error .value := by
      unfold Table.gameValues Table.getValues Table.rows
      have h1 : (excludeCoalition (2 ^ 0) (allCoalitions t.n)).all (fun x => decide (x < 2 ^ t.n)) = true := by
        rw [List.all_eq_true]; intro d hd; simpa using (mem_exclude.mp hd).1
      have h2 : (excludeCoalition (2 ^ 0) (allCoalitions t.n)).all t.known = false := by
        rw [List.all_eq_false]; exact ⟨c, hmem, by simp [hunk]⟩
      simp only [h1, h2, if_true, Bool.false_eq_true, if_false]
    unfold shapleyCore at hl
    simp only [hfrom, hbad, bind, Except.bind] at hl
    cases hl
  · have hb' : c.testBit 0 = true := by simpa using hb
    have hmem : c ^^^ 2 ^ 0 ∈ excludeCoalition (2 ^ 0) (allCoalitions t.n) :=
      mem_exclude.mpr ⟨clear_lt hn hc, testBit_clear_self hb'⟩
    have hbad : t.gameValues ((excludeCoalition (2 ^ 0) (allCoalitions t.n)).map (fun c => c ||| singleton 0))
        = .error .value := by
      unfold Table.gameValues Table.getValues Table.rows singleton
      have h1 : ((excludeCoalition (2 ^ 0) (allCoalitions t.n)).map (fun c => c ||| 2 ^ 0)).all
          (fun x => decide (x < 2 ^ t.n)) = true := by
        rw [List.all_eq_true]; intro d hd
        obtain ⟨e, he, rfl⟩ := List.mem_map.mp hd
        simpa using setBit_lt hn (mem_exclude.mp he).1
      have h2 : ((excludeCoalition (2 ^ 0) (allCoalitions t.n)).map (fun c => c ||| 2 ^ 0)).all t.known = false := by
        rw [List.all_eq_false]
        refine ⟨c, List.mem_map.mpr ⟨_, hmem, set_clear hb'⟩, by simp [hunk]⟩
      simp only [h1, h2, if_true, Bool.false_eq_true, if_false]
    unfold shapleyCore at hl
    simp only [hfrom, bind, Except.bind] at hl
    cases hwo : t.gameValues (excludeCoalition (2 ^ 0) (allCoalitions t.n)) with
    | error e => simp only [hwo] at hl; cases hl
    | ok a => simp only [hwo, hbad] at hl; cases hl

/-! ### efficiency, null player, linearity (closed form, then on the model) -/

/-- efficiency: the values sum to `v(N) − v(∅)` -/
theorem phi_efficiency (n : Nat) (v : Nat → α) : ∑ i ∈ range n, phi n v i = v (grand n) - v 0 := by
  unfold phi
  rw [sum_psi]
  have e1 : ∑ T ∈ (range (2 ^ n)).filter (fun T => T ≠ 0), v T / (n.choose (size T) : α)
      = ∑ T ∈ range (2 ^ n), v T / (n.choose (size T) : α) - v 0 := by
    rw [Finset.filter_ne', Finset.sum_erase_eq_sub (mem_range.mpr (Nat.two_pow_pos n))]
    simp [size_zero]
  have e2 : ∑ S ∈ (range (2 ^ n)).filter (fun S => S ≠ grand n), v S / (n.choose (size S) : α)
      = ∑ S ∈ range (2 ^ n), v S / (n.choose (size S) : α) - v (grand n) := by
    rw [Finset.filter_ne', Finset.sum_erase_eq_sub (mem_range.mpr (grand_lt n))]
    simp [size_grand]
  rw [e1, e2]; ring

theorem efficiency (n : Nat) (g : GetValues α) (v : Nat → α) (hg : Answers n g v) :
    ∃ l, shapley n g = .ok l ∧ l.sum = v (grand n) - v 0 := by
  refine ⟨_, shapley_ok n g v hg, ?_⟩
  rw [← listSum_eq_sum, listSum_map_range, phi_efficiency]

/-- a null player (never changes the value of a coalition it joins) gets zero -/
theorem phi_null {n i : Nat} (v : Nat → α)
    (hnull : ∀ S, S < 2 ^ n → S.testBit i = false → v (S ||| 2 ^ i) = v S) : phi n v i = 0 := by
  unfold phi psi
  rw [Finset.sum_eq_zero, zero_div]
  intro S hS
  simp only [mem_filter, mem_range] at hS
  rw [hnull S hS.1 hS.2, sub_self, mul_zero]

theorem null_player {n i : Nat} (hi : i < n) (g : GetValues α) (v : Nat → α) (hg : Answers n g v)
    (hnull : ∀ S, S < 2 ^ n → S.testBit i = false → v (S ||| 2 ^ i) = v S) :
    shapleyForPlayer n g i = .ok 0 := by
  rw [shapleyForPlayer_ok hi g v hg, phi_null v hnull]

/-- linear in the game -/
theorem phi_linear (n i : Nat) (a : α) (v w : Nat → α) :
    phi n (fun c => a * v c + w c) i = a * phi n v i + phi n w i := by
  unfold phi psi
  rw [mul_div_assoc', ← add_div, Finset.mul_sum, ← Finset.sum_add_distrib]
  congr 1
  apply Finset.sum_congr rfl
  intro S _
  ring

theorem linear {n i : Nat} (hi : i < n) (a : α) (v w : Nat → α) :
    ∃ x y z, shapleyForPlayer n (completeGame v) i = .ok x ∧
             shapleyForPlayer n (completeGame w) i = .ok y ∧
             shapleyForPlayer n (completeGame (fun c => a * v c + w c)) i = .ok z ∧
             z = a * x + y :=
  ⟨_, _, _, shapleyForPlayer_ok hi _ _ (answers_complete n v),
    shapleyForPlayer_ok hi _ _ (answers_complete n w),
    shapleyForPlayer_ok hi _ _ (answers_complete n _), phi_linear n i a v w⟩

/-! ### the main theorem: average marginal contribution over all orderings (every `n`) -/

/-- C06: on a complete game the computed Shapley value of player `i` is the average of `i`'s marginal
    contribution `v(pred ∪ {i}) − v(pred)` over all `n!` orderings of the players.
    (`shapleyOrd`, `marginal`, `predMask` are defined at the top of Lemmas/ShapleyOrderings.) -/
theorem orderings {n i : Nat} (hi : i < n) (g : GetValues α) (v : Nat → α) (hg : Answers n g v) :
    shapleyForPlayer n g i = .ok (shapleyOrd n v i) := by
  rw [shapleyForPlayer_ok hi g v hg, phi_eq_shapleyOrd hi]

theorem orderings_all (n : Nat) (g : GetValues α) (v : Nat → α) (hg : Answers n g v) :
    shapley n g = .ok ((List.range n).map (shapleyOrd n v)) := by
  rw [shapley_ok n g v hg]
  congr 1
  apply List.map_congr_left
  intro i hi
  exact phi_eq_shapleyOrd (List.mem_range.mp hi) v

/-- the same with the executable enumeration `orderings` (first-element recursion) in place of Mathlib's
    `List.permutations` -/
theorem orderings_exec {n i : Nat} (hi : i < n) (g : GetValues α) (v : Nat → α) (hg : Answers n g v) :
    shapleyForPlayer n g i = .ok (shapleyOrdE n v i) := by
  rw [shapleyOrdE_eq]; exact orderings hi g v hg

/-- the orderings summed over are all of them, each once, `n!` in total -/
theorem orderings_complete (n : Nat) :
    (∀ σ : List Nat, σ ∈ (List.range n).permutations ↔ σ.Perm (List.range n)) ∧
    (List.range n).permutations.Nodup ∧ (List.range n).permutations.length = n.factorial :=
  ⟨fun _ => List.mem_permutations, List.nodup_permutations _ List.nodup_range, by
    rw [List.length_permutations, List.length_range]⟩

/-! ### symmetry: relabelling the players permutes the values -/

/-- the game `v` with player `j` renamed `σ j` -/
def relabel {n : Nat} (σ : Equiv.Perm (Fin n)) (v : Nat → α) : Nat → α := fun c => v (permMask σ.symm c)

theorem relabel_spec {n : Nat} (σ : Equiv.Perm (Fin n)) (v : Nat → α) (c : Nat) (hc : c < 2 ^ n) :
    relabel σ v (permMask σ c) = v c := by
  unfold relabel; rw [permMask_symm_permMask σ hc]

/-- for ANY permutation `σ` of the players: if `v'` is `v` relabelled by `σ`, player `σ i` gets in `v'`
    what player `i` gets in `v`. -/
theorem symmetry {n : Nat} (σ : Equiv.Perm (Fin n)) (v v' : Nat → α)
    (hv : ∀ c, c < 2 ^ n → v' (permMask σ c) = v c) (i : Fin n) :
    ∃ x, shapleyForPlayer n (completeGame v) i = .ok x ∧
         shapleyForPlayer n (completeGame v') (σ i) = .ok x :=
  ⟨_, shapleyForPlayer_ok i.isLt _ _ (answers_complete n v), by
    rw [shapleyForPlayer_ok (σ i).isLt _ _ (answers_complete n v'), phi_perm σ v v' hv i]⟩

theorem symmetry_relabel {n : Nat} (σ : Equiv.Perm (Fin n)) (v : Nat → α) (i : Fin n) :
    ∃ x, shapleyForPlayer n (completeGame v) i = .ok x ∧
         shapleyForPlayer n (completeGame (relabel σ v)) (σ i) = .ok x :=
  symmetry σ v (relabel σ v) (relabel_spec σ v) i

/-! ### a concrete 3-player instance -/

/-- v = (0, 1, 2, 6, 3, 4, 8, 12) on ∅,{0},{1},{0,1},{2},{0,2},{1,2},N -/
def exV : Nat → Rat := fun c => [0, 1, 2, 6, 3, 4, 8, 12].getD c 0

example : (List.range 3).permutations = [[0, 1, 2], [1, 0, 2], [2, 1, 0], [1, 2, 0], [2, 0, 1], [0, 2, 1]] := by
  simp [List.range_succ, List.permutations, List.permutationsAux_cons, List.permutationsAux_nil,
    List.permutationsAux2]
example : predMask [2, 0, 1] 0 = 4 ∧ predMask [2, 0, 1] 1 = 5 ∧ predMask [2, 0, 1] 2 = 0 := by decide +kernel
example : marginal exV [2, 0, 1] 1 = 8 := by decide +kernel
example : shapley 3 (completeGame exV) = .ok [5 / 2, 5, 9 / 2] := by decide +kernel
example : shapleyForPlayer 3 (completeGame exV) 1 = .ok 5 := by decide +kernel
example : ([[0, 1, 2], [1, 0, 2], [2, 1, 0], [1, 2, 0], [2, 0, 1], [0, 2, 1]].map (fun σ => marginal exV σ 1)).sum
    = 5 * 6 := by decide +kernel
example : ICG.orderings (List.range 3) = [[0, 1, 2], [0, 2, 1], [1, 0, 2], [1, 2, 0], [2, 0, 1], [2, 1, 0]] := by
  decide +kernel
example : shapleyOrdE 3 exV 0 = 5 / 2 ∧ shapleyOrdE 3 exV 1 = 5 ∧ shapleyOrdE 3 exV 2 = 9 / 2 := by
  decide +kernel
/-- a null player: player 2 never adds anything -/
example : ∀ S, S < 2 ^ 3 → S.testBit 2 = false →
    (fun c => ([0, 1, 2, 6, 0, 1, 2, 6].getD c 0 : Rat)) (S ||| 2 ^ 2)
      = (fun c => ([0, 1, 2, 6, 0, 1, 2, 6].getD c 0 : Rat)) S := by decide +kernel
/-- a relabelling: swap players 0 and 2 -/
example : (List.range 8).map (permMask (Equiv.swap (0 : Fin 3) 2)) = [0, 4, 2, 6, 1, 5, 3, 7] := by
  decide +kernel
/-- an incomplete table -/
example : ({ n := 3, known := fun c => c != 5, lo := exV, hi := exV } : Table Rat).shapley = .error .value := by
  decide +kernel
def exFull : Table Rat := { n := 3, known := fun _ => true, lo := exV, hi := exV }
example : Answers exFull.n exFull.gameValues exFull.hi := answers_table exFull (fun _ _ => rfl)

/-! ### the same theorems for the functions the native driver runs (`ICG.AtRat.*`) -/

theorem orderings_atRat {n i : Nat} (hi : i < n) (v : Nat → Rat) :
    AtRat.shapleyForPlayer n v i = .ok (shapleyOrd n v i) := orderings hi _ v (answers_complete n v)

theorem orderings_all_atRat (n : Nat) (v : Nat → Rat) :
    AtRat.shapley n v = .ok ((List.range n).map (shapleyOrd n v)) := orderings_all n _ v (answers_complete n v)

theorem orderings_table_atRat (t : Table Rat) (hfull : ∀ c, c < 2 ^ t.n → t.known c = true) :
    AtRat.tableShapley t = .ok ((List.range t.n).map (shapleyOrd t.n t.hi)) :=
  orderings_all t.n _ t.hi (answers_table t hfull)

theorem efficiency_atRat (n : Nat) (v : Nat → Rat) :
    ∃ l, AtRat.shapley n v = .ok l ∧ l.sum = v (grand n) - v 0 := efficiency n _ v (answers_complete n v)

theorem null_player_atRat {n i : Nat} (hi : i < n) (v : Nat → Rat)
    (hnull : ∀ S, S < 2 ^ n → S.testBit i = false → v (S ||| 2 ^ i) = v S) :
    AtRat.shapleyForPlayer n v i = .ok 0 := null_player hi _ v (answers_complete n v) hnull

theorem linear_atRat {n i : Nat} (hi : i < n) (a : Rat) (v w : Nat → Rat) :
    ∃ x y z, AtRat.shapleyForPlayer n v i = .ok x ∧ AtRat.shapleyForPlayer n w i = .ok y ∧
             AtRat.shapleyForPlayer n (fun c => a * v c + w c) i = .ok z ∧ z = a * x + y :=
  linear hi a v w

theorem symmetry_atRat {n : Nat} (σ : Equiv.Perm (Fin n)) (v v' : Nat → Rat)
    (hv : ∀ c, c < 2 ^ n → v' (permMask σ c) = v c) (i : Fin n) :
    ∃ x, AtRat.shapleyForPlayer n v i = .ok x ∧ AtRat.shapleyForPlayer n v' (σ i) = .ok x :=
  symmetry σ v v' hv i

theorem entry_points_atRat (n : Nat) (v : Nat → Rat) :
    AtRat.shapley n v = mapE (AtRat.shapleyForPlayer n v) (List.range n) := entry_points n _

end ICG.C06
